"""Specification text of unit `vm` (see units/vm/__init__.py)."""
from units.alloc.gen_sem import split_variant
from lib.rsx import ExtractError

# f32 library methods used by the point interpreter: method -> tag (uninterpreted meaning `fun1(tag, x)` / `fun2(tag, x, y)`)
F1 = ['abs', 'sqrt', 'floor', 'ceil', 'round', 'sin', 'cos', 'tan', 'asin', 'acos', 'atan', 'exp', 'ln']
F2 = ['atan2', 'rem_euclid']
FX1 = ['trunc', 'fract', 'signum', 'exp2', 'log2', 'log10', 'sinh', 'cosh', 'tanh', 'cbrt', 'exp_m1', 'ln_1p', 'to_degrees', 'to_radians']
FX2 = ['copysign', 'min', 'max', 'powf', 'hypot', 'div_euclid', 'log']

# The reference meaning of each opcode base name for f32 evaluation, written from the opcode documentation of
# compiler/op.rs (NOT from the interpreter text): base -> (unary meaning of x | binary meaning of a, b)
P_UN = {
    'Neg': 'fneg_spec(x)', 'Abs': 'fun1(T_abs(), x)', 'Recip': '1.0f32.div_spec(x)', 'Sqrt': 'fun1(T_sqrt(), x)',
    'Square': 'x.mul_spec(x)', 'Floor': 'fun1(T_floor(), x)', 'Ceil': 'fun1(T_ceil(), x)', 'Round': 'fun1(T_round(), x)',
    'Sin': 'fun1(T_sin(), x)', 'Cos': 'fun1(T_cos(), x)', 'Tan': 'fun1(T_tan(), x)', 'Asin': 'fun1(T_asin(), x)',
    'Acos': 'fun1(T_acos(), x)', 'Atan': 'fun1(T_atan(), x)', 'Exp': 'fun1(T_exp(), x)', 'Ln': 'fun1(T_ln(), x)',
    'Not': 'bool_f32(x.eq_spec(&0.0f32))', 'Rand': 'fx_rand(x)',
}
P_BIN = {
    'Add': 'a.add_spec(b)', 'Mul': 'a.mul_spec(b)', 'Sub': 'a.sub_spec(b)', 'Div': 'a.div_spec(b)',
    'Atan': 'fun2(T_atan2(), a, b)', 'Compare': 'fx_compare(a, b)', 'Mix': 'fx_mix(a, b)', 'Mod': 'fun2(T_rem_euclid(), a, b)',
    'Min': 'fx_min_choice(a, b).0', 'Max': 'fx_max_choice(a, b).0', 'And': 'fx_and_choice(a, b).0', 'Or': 'fx_or_choice(a, b).0',
}
P_CH = {'Min': 'fx_min_choice(a, b).1', 'Max': 'fx_max_choice(a, b).1', 'And': 'fx_and_choice(a, b).1', 'Or': 'fx_or_choice(a, b).1'}

PRELUDE0 = r'''
// =================== environment of the interpreter (trusted stubs: each one is listed as an assumption) ===================
#[verifier::external_body]
pub struct VarMap { _p: u8 }
impl VarMap {
    pub uninterp spec fn len_spec(&self) -> nat;
    #[verifier::external_body]
    pub fn len(&self) -> (r: usize) ensures r == self.len_spec() { unimplemented!() }
}
/// R-nanconst: `f32::NAN.into()` at a generic `T: From<f32>` (Verus has no `f32::NAN`); the value is never constrained
#[verifier::external_body]
pub fn nan_of<T: From<f32>>() -> T { f32::NAN.into() }
pub uninterp spec fn fneg_spec(a: f32) -> f32;
/// R-neg: IEEE negation as an uninterpreted function
#[verifier::external_body]
pub fn neg_(a: f32) -> (r: f32) ensures r == fneg_spec(a) { -a }
/// R-derive-from: `#[from]` of thiserror on `TracingEvalError(TracingArgError)`
impl FromSpecImpl<TracingArgError> for TracingEvalError {
    open spec fn obeys_from_spec() -> bool { true }
    open spec fn from_spec(e: TracingArgError) -> Self { TracingEvalError(e) }
}
impl From<TracingArgError> for TracingEvalError {
    fn from(e: TracingArgError) -> (r: Self) { TracingEvalError(e) }
}
/// R-derive-clone: `#[derive(Copy, Clone)]` on Choice spelled out so that `clone` has a specification
impl Clone for Choice { fn clone(&self) -> (r: Self) ensures r == *self { *self } }
impl Copy for Choice {}
pub assume_specification<T: Clone>[ <[T]>::fill ](s: &mut [T], value: T)
    ensures final(s)@.len() == old(s)@.len(),
        forall|i: int| 0 <= i < old(s)@.len() ==> cloned(value, #[trigger] final(s)@[i]);

// ---- f32 library methods: uninterpreted meanings
pub uninterp spec fn fun1(tag: int, a: f32) -> f32;
pub uninterp spec fn fun2(tag: int, a: f32, b: f32) -> f32;
pub uninterp spec fn bool_f32(b: bool) -> f32;
/// `f32: From<bool>` (std: 0.0 for false, 1.0 for true), uninterpreted here
pub assume_specification [<f32 as From<bool>>::from] (b: bool) -> (r: f32) ensures r == bool_f32(b);
/*@F32SPECS@*/
/// AX-float-total: f32 `+ - * /` and comparisons are total operations that equal their spec functions
pub proof fn ax_float_total()
    ensures
        <f32 as AddSpec<f32>>::obeys_add_spec(), forall|a: f32, b: f32| #[trigger] <f32 as AddSpec<f32>>::add_req(a, b),
        <f32 as SubSpec<f32>>::obeys_sub_spec(), forall|a: f32, b: f32| #[trigger] <f32 as SubSpec<f32>>::sub_req(a, b),
        <f32 as MulSpec<f32>>::obeys_mul_spec(), forall|a: f32, b: f32| #[trigger] <f32 as MulSpec<f32>>::mul_req(a, b),
        <f32 as DivSpec<f32>>::obeys_div_spec(), forall|a: f32, b: f32| #[trigger] <f32 as DivSpec<f32>>::div_req(a, b),
        <f32 as PartialOrdSpec<f32>>::obeys_partial_cmp_spec(),
        <f32 as PartialEqSpec<f32>>::obeys_eq_spec(),
{ admit(); }

// ---- Choice algebra: the real `bitor_assign` is verified against ch_or
pub open spec fn ch_or(a: Choice, b: Choice) -> Choice {
    match (a, b) {
        (Choice::Unknown, x) => x,
        (x, Choice::Unknown) => x,
        (Choice::Left, Choice::Left) => Choice::Left,
        (Choice::Right, Choice::Right) => Choice::Right,
        _ => Choice::Both,
    }
}
impl BitOrAssignSpecImpl<Choice> for Choice {
    open spec fn obeys_bitor_assign_spec() -> bool { true }
    open spec fn bitor_assign_req(&self, other: Choice) -> bool { true }
    open spec fn bitor_assign_spec(&self, other: Choice) -> &Choice { &ch_or(*self, other) }
}
'''

BITOR_PROOF = """        proof {
            assert(0u8|0u8 == 0 && 0u8|1u8 == 1 && 0u8|2u8 == 2 && 0u8|3u8 == 3 && 1u8|0u8 == 1 && 1u8|1u8 == 1 && 1u8|2u8 == 3 && 1u8|3u8 == 3
                && 2u8|0u8 == 2 && 2u8|1u8 == 3 && 2u8|2u8 == 2 && 2u8|3u8 == 3 && 3u8|0u8 == 3 && 3u8|1u8 == 3 && 3u8|2u8 == 3 && 3u8|3u8 == 3) by (bit_vector);
        }"""


def generate(enums, kinds, bulk_kinds=()):
    bases = []
    for v, fs in enums['RegOp']:
        b, form = split_variant(v)
        if form != 'special' and b not in bases:
            bases.append(b)
    L = []
    A = L.append
    for i, f in enumerate(F1 + F2):
        A('pub open spec fn T_%s() -> int { %d }' % (f, i + 1))
    for f in F1:
        A('pub assume_specification [f32::%s] (x: f32) -> (r: f32) ensures r == fun1(T_%s(), x);' % (f, f))
    for f in F2:
        A('pub assume_specification [f32::%s] (x: f32, y: f32) -> (r: f32) ensures r == fun2(T_%s(), x, y);' % (f, f))
    # further f32 library methods an edited interpreter might call: declared (uninterpreted) so that such an edit is DECIDED
    # (it then fails the arm's obligation unless the meaning is unchanged) instead of putting the function outside the subset
    for i, f in enumerate(FX1):
        A('pub open spec fn T_%s() -> int { %d }' % (f, 100 + i))
        A('pub assume_specification [f32::%s] (x: f32) -> (r: f32) ensures r == fun1(T_%s(), x);' % (f, f))
    for i, f in enumerate(FX2):
        A('pub open spec fn T_%s() -> int { %d }' % (f, 200 + i))
        A('pub assume_specification [f32::%s] (x: f32, y: f32) -> (r: f32) ensures r == fun2(T_%s(), x, y);' % (f, f))
    A('/// std: `recip` is `1.0 / self`')
    A('pub assume_specification [f32::recip] (x: f32) -> (r: f32) ensures r == 1.0f32.div_spec(x);')
    A('pub uninterp spec fn powi_spec(a: f32, n: int) -> f32;')
    A('pub assume_specification [f32::powi] (x: f32, n: i32) -> (r: f32) ensures r == powi_spec(x, n as int);')
    A('pub uninterp spec fn mul_add_spec(a: f32, b: f32, c: f32) -> f32;')
    A('pub assume_specification [f32::mul_add] (x: f32, a: f32, b: f32) -> (r: f32) ensures r == mul_add_spec(x, a, b);')
    f32specs = '\n'.join(L)
    # reference semantics, once per evaluator kind
    L = []
    A = L.append
    A('// =================== reference semantics (generated from the variant list of RegOp) ===================')
    A(SHARED_HEAD)
    ok = ['pub open spec fn op_ok(op: RegOp, ns: int, no: int, nv: int) -> bool {\n    match op {']
    isch = ['pub open spec fn is_choice(op: RegOp) -> bool {\n    match op {']
    for v, fs in enums['RegOp']:
        b, form = split_variant(v)
        if v == 'Output':
            ok.append('        RegOp::Output(r, i) => (r as int) < ns && (i as int) < no,')
        elif v == 'Input':
            ok.append('        RegOp::Input(o, i) => (o as int) < ns && (i as int) < nv,')
        elif v == 'CopyImm':
            ok.append('        RegOp::CopyImm(o, c) => (o as int) < ns,')
        elif v in ('Load', 'Store'):
            ok.append('        RegOp::%s(r, m) => (r as int) < ns && (m as int) < ns,' % v)
        elif form == 'Reg':
            ok.append('        RegOp::%s(o, a) => (o as int) < ns && (a as int) < ns,' % v)
        elif form in ('RegImm', 'ImmReg'):
            ok.append('        RegOp::%s(o, a, imm) => (o as int) < ns && (a as int) < ns,' % v)
            if b in P_CH:
                isch.append('        RegOp::%s(o, a, imm) => true,' % v)
        else:
            ok.append('        RegOp::%s(o, a, b) => (o as int) < ns && (a as int) < ns && (b as int) < ns,' % v)
            if b in P_CH:
                isch.append('        RegOp::%s(o, a, b) => true,' % v)
    ok.append('    }\n}')
    isch.append('        _ => false,\n    }\n}')
    A('\n'.join(ok))
    A('\n'.join(isch))
    A(SHARED_TAIL)
    specs = dict(SPECS)
    proofs = list(PROOFS)
    loops = list(LOOPS)
    exec_fns = list(EXEC_FNS)
    lemmas = ['lemma_cnt_mono']
    canaries = ['TracingVmEval::resize_slots']
    extra_prelude = []
    attrs = []
    for cfg in kinds:
        A(sem_text(enums, bases, cfg))
        sub = lambda t: t.replace('@P@', cfg['p']).replace('@T@', cfg['T']).replace('@EV@', cfg['ev']).replace('@ENVPROOF@', cfg['envproof']).replace('@ENVINV@', cfg['envinv'])
        A(sub(PER_KIND_STATIC))
        specs[cfg['ev'] + '::eval'] = ('r: Result<(&[%s], Option<&VmTrace>), TracingEvalError>' % cfg['T'], sub(EVAL_SPEC))
        for (anchor, occ, before, proof) in EVAL_PROOFS:
            proofs.append((cfg['ev'] + '::eval', anchor, occ, before, sub(proof)))
        loops.append((cfg['ev'] + '::eval', 'while i_ > 0', sub(EVAL_LOOP)))
        exec_fns.append(cfg['ev'] + '::eval')
        lemmas.append(sub('lemma_@P@run_shape'))
        canaries.append(cfg['ev'] + '::eval')
        extra_prelude.append(cfg['prelude'](bases))
    def rel_block(pc, oc, R, title, reldef, who, frm, scale):
        Q = oc['p']
        has_ch = bool(oc['CH'])
        arms = []
        for v, fs in enums['RegOp']:
            b, form = split_variant(v)
            if v == 'Output':
                arms.append('        RegOp::Output(r, q) => { assert(%s(p.slots[r as int], i.slots[r as int])); lemma_%s_out(p, i, q as int, p.slots[r as int], i.slots[r as int]); }' % (R, R))
            elif v == 'Input':
                arms.append('        RegOp::Input(o, q) => { assert(%s(pin[q as int], iin[q as int])); lemma_%s_set(p, i, o as int, pin[q as int], iin[q as int]); }' % (R, R))
            elif v == 'CopyImm':
                arms.append('        RegOp::CopyImm(o, c) => { lemma_%s_set(p, i, o as int, c, %s(c)); }' % (R, frm))
            elif v == 'Load':
                arms.append('        RegOp::Load(r, m) => { assert(%s(p.slots[m as int], i.slots[m as int])); lemma_%s_set(p, i, r as int, p.slots[m as int], i.slots[m as int]); }' % (R, R))
            elif v == 'Store':
                arms.append('        RegOp::Store(r, m) => { assert(%s(p.slots[r as int], i.slots[r as int])); lemma_%s_set(p, i, m as int, p.slots[r as int], i.slots[r as int]); }' % (R, R))
            else:
                k = bases.index(b)
                pre = 'assert(%s(p.slots[a as int], i.slots[a as int]));' % R
                if form == 'Reg':
                    if b == 'Copy':
                        arms.append('        RegOp::%s(o, a) => { %s lemma_%s_set(p, i, o as int, p.slots[a as int], i.slots[a as int]); }' % (v, pre, R))
                    else:
                        arms.append('        RegOp::%s(o, a) => { %s lemma_%s_set(p, i, o as int, p_un(%d, p.slots[a as int]), %sun(%d, i.slots[a as int])); }' % (v, pre, R, k, Q, k))
                    continue
                if form == 'RegImm':
                    pat, x, y, X, Y = '(o, a, imm)', 'p.slots[a as int]', 'imm', 'i.slots[a as int]', '%s(imm)' % frm
                elif form == 'ImmReg':
                    pat, x, y, X, Y = '(o, a, imm)', 'imm', 'p.slots[a as int]', '%s(imm)' % frm, 'i.slots[a as int]'
                else:
                    pat, x, y, X, Y = '(o, a, b)', 'p.slots[a as int]', 'p.slots[b as int]', 'i.slots[a as int]', 'i.slots[b as int]'
                    pre += ' assert(%s(p.slots[b as int], i.slots[b as int]));' % R
                if v in oc.get('VARIANT', {}):
                    arms.append('        RegOp::%s%s => { %s lemma_%s_set(p, i, o as int, p_bin(%d, %s, %s), %s(i.slots[a as int], imm)); }' % (v, pat, pre, R, k, x, y, scale))
                elif b in pc['CH']:
                    c2 = '%sch(%d, %s, %s)' % (Q, k, X, Y) if has_ch else 'Choice::Unknown'
                    arms.append('        RegOp::%s%s => { %s lemma_%s_rec(p, i, o as int, p_bin(%d, %s, %s), %sbin(%d, %s, %s), p_ch(%d, %s, %s), %s); }' % (v, pat, pre, R, k, x, y, Q, k, X, Y, k, x, y, c2))
                else:
                    arms.append('        RegOp::%s%s => { %s lemma_%s_set(p, i, o as int, p_bin(%d, %s, %s), %sbin(%d, %s, %s)); }' % (v, pat, pre, R, k, x, y, Q, k, X, Y))
        rec2 = '%srec(i, o, w, c2)' % Q if has_ch else '%sset(i, o, w)' % Q
        t = REL_TEMPLATE
        for old_, new_ in (('@TITLE@', title), ('@RELDEF@', reldef), ('@WHO@', who), ('@REC2@', rec2), ('@R@', R), ('@T@', oc['T']), ('@Q@', Q), ('@FROM@', frm), ('@SCALE@', scale), ('/*@ARMS@*/', '\n'.join(arms))):
            t = t.replace(old_, new_)
        return t, ['lemma_%s_set' % R, 'lemma_%s_rec' % R, 'lemma_%s_out' % R, 'lemma_%s_step' % R, 'lemma_%s_run' % R]
    def trace_block(pc, ic):
        """C04/C20: the trace the interval interpreter returns is valid at every covered point: generated operand selectors"""
        ops_p, ops_i, kk = [], [], []
        for v, fs in enums['RegOp']:
            b, form = split_variant(v)
            if form == 'special' or b not in pc['CH']:
                continue
            k = bases.index(b)
            if form == 'RegImm':
                ops_p.append('        RegOp::%s(o, a, imm) => (s.slots[a as int], imm),' % v)
                ops_i.append('        RegOp::%s(o, a, imm) => (s.slots[a as int], iv_from(imm)),' % v)
            elif form == 'RegReg':
                ops_p.append('        RegOp::%s(o, a, b) => (s.slots[a as int], s.slots[b as int]),' % v)
                ops_i.append('        RegOp::%s(o, a, b) => (s.slots[a as int], s.slots[b as int]),' % v)
            else:
                raise ExtractError('choice opcode with unexpected form: %s' % v)
            kk.append('        RegOp::%s(..) => %d,' % (v, k))
        return TRACE_TEMPLATE.replace('/*@OPS_P@*/', '\n'.join(ops_p)).replace('/*@OPS_I@*/', '\n'.join(ops_i)).replace('/*@KK@*/', '\n'.join(kk))
    pcs = [c for c in kinds if c['T'] == 'f32']
    ics = [c for c in kinds if c['T'] == 'Interval']
    gcs = [c for c in bulk_kinds if c['T'] == 'Grad']
    if pcs and ics:
        t, ls = rel_block(pcs[0], ics[0], 'enc', 'C03: enclosure',
                          '/// "x is covered by the interval a" - abstract: the lemmas below hold for every relation that the operations respect\npub uninterp spec fn enc(x: f32, a: Interval) -> bool;',
                          'for the real code: unit `interval`, the Kani enclosure harnesses and the bounded contract interp_interval; the known findings K1/K4 are operations and operands where it does NOT hold',
                          'iv_from', 'iv_scale')
        A(t)
        lemmas += ls
        A(trace_block(pcs[0], ics[0]))
        lemmas += ['lemma_i_step_ch', 'lemma_i_ch_stable', 'lemma_i_unwritten', 'lemma_i_ch_written', 'lemma_clause_valid', 'lemma_trace_valid']
    if bulk_kinds:
        A(BULK_SHARED)
        ds = ['pub open spec fn dst_slot(op: RegOp) -> int {\n    match op {']
        for v, fs in enums['RegOp']:
            if v == 'Output':
                ds.append('        RegOp::Output(r, i) => -1,')
            elif v == 'Store':
                ds.append('        RegOp::Store(r, m) => m as int,')
            else:
                ds.append('        RegOp::%s(o, %s) => o as int,' % (v, ', '.join('_' for _ in fs[1:])))
        ds.append('    }\n}')
        A('\n'.join(ds))
        for k_, (ret, st) in BULK_SPECS.items():
            specs[k_] = (ret, st)
        exec_fns += ['BulkVmEval::resize_slots', 'BulkOutput::new', 'copy_prefix']
        canaries.append('BulkVmEval::resize_slots')
        for fld, n_, g_, gv in (('slots', 'tape.asm.slot_count as usize', 'out', 'old(self).out@'), ('out', 'tape.ssa.output_count', 'slots', 'slots_')):
            loops.append(('BulkVmEval::resize_slots', 'while j_ < self.%s.len()' % fld, RESIZE_INV.replace('@F@', fld).replace('@N@', n_).replace('@G@', g_).replace('@GV@', gv)))
        proofs.append(('BulkVmEval::resize_slots', 'while j_ < self.out.len()', 0, True, '        let ghost slots_ = self.slots@;'))
    for cfg in bulk_kinds:
        sub = lambda t: t.replace('@P@', cfg['p']).replace('@T@', cfg['T']).replace('@ENVPROOF@', cfg['envproof']).replace('@ENVINV@', cfg['envinv'])
        if cfg.get('own_sem'):
            A(sem_text(enums, bases, cfg))
            A(sub(PER_KIND_STATIC.split('/// the run keeps the shape')[0]))   # run + init_ok only (no choice cursor in bulk evaluation)
            extra_prelude.append(cfg['prelude'](bases))
        A(sub(BULK_KIND))
        q = cfg['ev'] + '::eval'
        specs[q] = ("r: Result<BulkOutput<'_, %s>, BulkEvalError>" % cfg['T'], sub(BULK_EVAL_SPEC))
        proofs.append((q, '$START', 0, False, '        let ghost tape0 = *tape;'))
        proofs.append((q, 'self.0.resize_slots(tape, size);', 0, False, sub(BULK_FN_START)))
        proofs.append((q, 'let op = tape.asm.tape[i_];', 0, False, sub(BULK_AFTER_OP)))
        proofs.append((q, 'copy_prefix(&mut self.0.out[i as usize], &self.0.slots[arg as usize][0..size], size);   // R-copyprefix', 0, False, sub(BULK_OUTPUT_HINT)))
        proofs.append((q, '        let ret_: Result<BulkOutput', 0, True, sub(BULK_TAIL)))
        proofs.append((q, '        /*@tail*/', 0, False, sub(BULK_TAIL2)))
        loops.append((q, 'while i_ > 0', sub(BULK_OUTER_INV)))
        exec_fns.append(q)
        lemmas += [sub('lemma_@P@step_indep'), sub('lemma_@P@bulk_arm')]
        canaries.append(q)
        attrs.append((q, '#[verifier::loop_isolation(false)]'))
    if pcs and gcs:
        t, ls = rel_block(pcs[0], gcs[0], 'gval', 'C05: the value lane of gradient evaluation is point evaluation',
                          '/// the value lane of g is x\npub open spec fn gval(x: f32, g: Grad) -> bool { g.v == x }',
                          'for the real code: the value-lane clause of every contract of unit `grad`',
                          'gd_from', 'gd_scale')
        A(t)
        lemmas += ls
    prelude = PRELUDE0.replace('/*@F32SPECS@*/', f32specs) + '\n' + '\n'.join(extra_prelude) + '\n' + '\n'.join(L) + (BULK_ENV if bulk_kinds else '')
    return {'specs': specs, 'proofs': proofs, 'loops': loops, 'prelude': prelude, 'exec_fns': exec_fns, 'lemmas': lemmas, 'canaries': canaries, 'attrs': attrs}


def sem_text(enums, bases, cfg):
    """`@P@step`: which slot is read, which written, which choice slot is OR-ed, for one evaluator kind."""
    P, T = cfg['p'], cfg['T']
    L = []
    A = L.append
    un_used, bin_used = [], []
    for v, fs in enums['RegOp']:
        b, form = split_variant(v)
        if form == 'Reg' and b != 'Copy' and b not in un_used:
            un_used.append(b)
        if form in ('RegReg', 'RegImm', 'ImmReg') and b not in bin_used:
            bin_used.append(b)
    for b in un_used:
        if b not in cfg['UN']:
            raise ExtractError('no reference meaning for unary opcode %s (%s)' % (b, T))
    for b in bin_used:
        if b not in cfg['BIN']:
            raise ExtractError('no reference meaning for binary opcode %s (%s)' % (b, T))
    k_of = lambda b: bases.index(b)
    fill = lambda t, b: t.replace('@K@', str(k_of(b))).replace('%DIV%', str(k_of('Div'))).replace('%MUL%', str(k_of('Mul')))
    A('pub open spec fn %sun(k: int, x: %s) -> %s {\n    ' % (P, T, T) + ' else '.join('if k == %d { %s }' % (k_of(b), fill(cfg['UN'][b], b)) for b in un_used) + ' else { x }\n}')
    A('pub open spec fn %sbin(k: int, a: %s, b: %s) -> %s {\n    ' % (P, T, T, T) + ' else '.join('if k == %d { %s }' % (k_of(b), fill(cfg['BIN'][b], b)) for b in bin_used) + ' else { a }\n}')
    if cfg['CH']:
        A('pub open spec fn %sch(k: int, a: %s, b: %s) -> Choice {\n    ' % (P, T, T) + ' else '.join('if k == %d { %s }' % (k_of(b), fill(cfg['CH'][b], b)) for b in cfg['CH']) + ' else { Choice::Unknown }\n}')
    A('''pub struct @P@St { pub slots: Seq<@T@>, pub outs: Seq<@T@>, pub ch: Seq<Choice>, pub k: int, pub simp: bool }
pub open spec fn @P@mk(slots: Seq<@T@>, outs: Seq<@T@>, ch: Seq<Choice>, k: int, simp: bool) -> @P@St { @P@St { slots, outs, ch, k, simp } }
pub open spec fn @P@set(s: @P@St, o: int, v: @T@) -> @P@St { @P@St { slots: s.slots.update(o, v), outs: s.outs, ch: s.ch, k: s.k, simp: s.simp } }
pub open spec fn @P@rec(s: @P@St, o: int, v: @T@, c: Choice) -> @P@St {
    @P@St { slots: s.slots.update(o, v), outs: s.outs, ch: s.ch.update(s.k, ch_or(s.ch[s.k], c)), k: s.k + 1, simp: s.simp || c != Choice::Both }
}'''.replace('@P@', P).replace('@T@', T))
    A('pub open spec fn %sstep(op: RegOp, s: %sSt, inp: Seq<%s>) -> %sSt {\n    match op {' % (P, P, T, P))
    imm = cfg['imm']
    for v, fs in enums['RegOp']:
        b, form = split_variant(v)
        if v == 'Output':
            A('        RegOp::Output(r, i) => %sSt { slots: s.slots, outs: s.outs.update(i as int, s.slots[r as int]), ch: s.ch, k: s.k, simp: s.simp },' % P)
        elif v == 'Input':
            A('        RegOp::Input(o, i) => %sset(s, o as int, inp[i as int]),' % P)
        elif v == 'CopyImm':
            A('        RegOp::CopyImm(o, c) => %sset(s, o as int, %s),' % (P, imm.replace('imm', 'c')))
        elif v == 'Load':
            A('        RegOp::Load(r, m) => %sset(s, r as int, s.slots[m as int]),' % P)
        elif v == 'Store':
            A('        RegOp::Store(r, m) => %sset(s, m as int, s.slots[r as int]),' % P)
        else:
            k = k_of(b)
            if form == 'Reg':
                val = 's.slots[a as int]' if b == 'Copy' else '%sun(%d, s.slots[a as int])' % (P, k)
                A('        RegOp::%s(o, a) => %sset(s, o as int, %s),' % (v, P, val))
                continue
            if form == 'RegImm':
                pat, x, y = '(o, a, imm)', 's.slots[a as int]', imm
            elif form == 'ImmReg':
                pat, x, y = '(o, a, imm)', imm, 's.slots[a as int]'
            else:
                pat, x, y = '(o, a, b)', 's.slots[a as int]', 's.slots[b as int]'
            if v in cfg.get('VARIANT', {}):
                A('        RegOp::%s%s => %sset(s, o as int, %s),' % (v, pat, P, cfg['VARIANT'][v].replace('@A@', 's.slots[a as int]')))
            elif b in cfg['CH']:
                A('        RegOp::%s%s => %srec(s, o as int, %sbin(%d, %s, %s), %sch(%d, %s, %s)),' % (v, pat, P, P, k, x, y, P, k, x, y))
            else:
                A('        RegOp::%s%s => %sset(s, o as int, %sbin(%d, %s, %s)),' % (v, pat, P, P, k, x, y))
    A('    }\n}')
    return '\n'.join(L)


SHARED_HEAD = r"""
pub open spec fn all_unknown(n: nat) -> Seq<Choice> { Seq::new(n, |i: int| Choice::Unknown) }
"""

SHARED_TAIL = r"""
/// number of choice clauses among the first n executed ops (execution order is the reverse of storage order: `iter_asm`)
pub open spec fn cnt_ch(t: Seq<RegOp>, n: nat) -> nat
    decreases n
{
    if n == 0 { 0 } else { cnt_ch(t, (n - 1) as nat) + if is_choice(t[t.len() - n]) { 1nat } else { 0nat } }
}
/// the structural invariant of a VmData as far as the interpreters depend on it
pub open spec fn tape_ok<const N: usize>(d: VmData<N>) -> bool {
    &&& forall|i: int| 0 <= i < d.asm.tape@.len() ==> op_ok(#[trigger] d.asm.tape@[i], d.asm.slot_count as int, d.ssa.output_count as int, d.vars.len_spec() as int)
    &&& cnt_ch(d.asm.tape@, d.asm.tape@.len()) <= d.ssa.choice_count
}
pub proof fn lemma_cnt_mono(t: Seq<RegOp>, n: nat, m: nat)
    requires n <= m
    ensures cnt_ch(t, n) <= cnt_ch(t, m)
    decreases m
{
    if n < m { lemma_cnt_mono(t, n, (m - 1) as nat); }
}
"""

PER_KIND_STATIC = r"""
/// state after the first n executed ops
pub open spec fn @P@run(t: Seq<RegOp>, n: nat, s0: @P@St, inp: Seq<@T@>) -> @P@St
    decreases n
{
    if n == 0 { s0 } else { @P@step(t[t.len() - n], @P@run(t, (n - 1) as nat, s0, inp), inp) }
}
pub open spec fn @P@init_ok(s0: @P@St, ns: int, no: int, nc: int) -> bool {
    s0.slots.len() == ns && s0.outs.len() == no && nc >= 0 && s0.ch == all_unknown(nc as nat) && s0.k == 0 && !s0.simp
}
/// the run keeps the shape of the state and advances the choice cursor by the number of choice clauses
pub proof fn lemma_@P@run_shape(t: Seq<RegOp>, n: nat, s0: @P@St, inp: Seq<@T@>)
    requires n <= t.len()
    ensures ({ let s = @P@run(t, n, s0, inp); s.slots.len() == s0.slots.len() && s.outs.len() == s0.outs.len() && s.ch.len() == s0.ch.len() && s.k == s0.k + cnt_ch(t, n) })
    decreases n
{
    if n > 0 { lemma_@P@run_shape(t, (n - 1) as nat, s0, inp); }
}
"""

EXEC_FNS = ['Choice::bitor_assign', 'VmTrace::fill', 'VmTrace::resize', 'VmTrace::as_slice', 'TracingVmEval::resize_slots', 'VarMap::check_tracing_arguments',
            'GenericVmTape::data', 'GenericVmTape::vars', 'VmData::choice_count', 'VmData::output_count', 'VmData::slot_count', 'RegTape::slot_count']

SPECS = {
 'VmTrace::fill': (None, """
        ensures final(self).0@ == Seq::new(old(self).0@.len(), |i: int| v)
"""),
 'VmTrace::resize': (None, """
        ensures final(self).0@.len() == n,
            forall|i: int| 0 <= i < n && i < old(self).0@.len() ==> final(self).0@[i] == old(self).0@[i],
            forall|i: int| old(self).0@.len() <= i < n ==> final(self).0@[i] == v,
"""),
 'VmTrace::as_slice': ('r: &[Choice]', """
        ensures r@ == self.0@
"""),
 'RegTape::slot_count': ('r: usize', """
        ensures r == self.slot_count as usize
"""),
 'VmData::choice_count': ('r: usize', """
        ensures r == self.ssa.choice_count
"""),
 'VmData::output_count': ('r: usize', """
        ensures r == self.ssa.output_count
"""),
 'VmData::slot_count': ('r: usize', """
        ensures r == self.asm.slot_count as usize
"""),
 'GenericVmTape::data': ('r: &VmData<N>', """
        ensures *r == *self.0
"""),
 'GenericVmTape::vars': ('r: &VarMap', """
        ensures *r == *self.0.vars
"""),
 'VarMap::check_tracing_arguments': ('r: Result<(), TracingArgError>', """
        ensures r is Err <==> vars@.len() < self.len_spec()
"""),
 'TracingVmEval::resize_slots': (None, """
        ensures
            final(self).slots@.len() == tape.asm.slot_count as usize,
            final(self).out@.len() == tape.ssa.output_count,
            final(self).choices.0@ == all_unknown(tape.ssa.choice_count as nat),
"""),
}

EVAL_SPEC = """
        requires tape_ok(*tape.0)
        ensures
            // total: the only failure is the documented argument error
            r is Err <==> vars@.len() < tape.0.vars.len_spec(),
            // the result is the run of the reference step function over the tape in execution order, started from
            // some slot/output contents of the right shape, a cleared trace and cursor 0
            r is Ok ==> exists|s0: @P@St| #[trigger] @P@init_ok(s0, tape.0.asm.slot_count as int, tape.0.ssa.output_count as int, tape.0.ssa.choice_count as int) && ({
                let f = @P@run(tape.0.asm.tape@, tape.0.asm.tape@.len(), s0, vars@);
                &&& r->Ok_0.0@ == f.outs
                &&& final(self).0.choices.0@ == f.ch
                &&& (r->Ok_0.1 is Some <==> f.simp)
                &&& (r->Ok_0.1 is Some ==> r->Ok_0.1->Some_0.0@ == f.ch)
                &&& f.ch.len() == tape.0.ssa.choice_count
                &&& f.k == cnt_ch(tape.0.asm.tape@, tape.0.asm.tape@.len())
            }),
"""

PROOFS = [
 ('Choice::bitor_assign', '$START', 0, False, BITOR_PROOF),
 ('VmTrace::fill', '$END', 0, False, "        proof { assert(self.0@ =~= Seq::new(old(self).0@.len(), |i: int| v)); }"),
 ('TracingVmEval::resize_slots', '$END', 0, False, "        proof { assert(self.choices.0@ =~= all_unknown(tape.ssa.choice_count as nat)); }"),
]

EVAL_PROOFS = [
 ('let mut simplify = false;', 0, False, """        let ghost s0 = @P@mk(self.0.slots@, self.0.out@, self.0.choices.0@, 0, false);
        let ghost t = tape.asm.tape@;
        proof { ax_float_total(); @ENVPROOF@ }"""),
 ('let op = tape.asm.tape[i_];', 0, False, """            proof {
                lemma_cnt_mono(t, (t.len() - i_) as nat, t.len());
                lemma_@P@run_shape(t, (t.len() - i_ - 1) as nat, s0, vars@);
                assert(op_ok(t[i_ as int], tape.asm.slot_count as int, tape.ssa.output_count as int, tape.vars.len_spec() as int));
            }"""),
 ('        Ok((', 0, True, """        proof {
            lemma_@P@run_shape(t, t.len(), s0, vars@);
            assert(@P@init_ok(s0, tape.asm.slot_count as int, tape.ssa.output_count as int, tape.ssa.choice_count as int));
        }"""),
]

LOOPS = []

EVAL_LOOP = """            invariant
                0 <= i_ <= t.len(), t == tape.asm.tape@, tape_ok(*tape), vars@.len() >= tape.vars.len_spec(),
                @P@init_ok(s0, tape.asm.slot_count as int, tape.ssa.output_count as int, tape.ssa.choice_count as int),
                <f32 as AddSpec<f32>>::obeys_add_spec(), forall|a: f32, b: f32| #[trigger] <f32 as AddSpec<f32>>::add_req(a, b),
                <f32 as SubSpec<f32>>::obeys_sub_spec(), forall|a: f32, b: f32| #[trigger] <f32 as SubSpec<f32>>::sub_req(a, b),
                <f32 as MulSpec<f32>>::obeys_mul_spec(), forall|a: f32, b: f32| #[trigger] <f32 as MulSpec<f32>>::mul_req(a, b),
                <f32 as DivSpec<f32>>::obeys_div_spec(), forall|a: f32, b: f32| #[trigger] <f32 as DivSpec<f32>>::div_req(a, b),
                <f32 as PartialOrdSpec<f32>>::obeys_partial_cmp_spec(), <f32 as PartialEqSpec<f32>>::obeys_eq_spec(),
                @ENVINV@
                @P@mk(self.0.slots@, self.0.out@, self.0.choices.0@, choices as int, simplify)
                    == @P@run(t, (t.len() - i_) as nat, s0, vars@),
            decreases i_"""

# ---------------- evaluator kinds ----------------
POINT = {'ev': 'VmPointEval', 'T': 'f32', 'p': 'p_', 'UN': P_UN, 'BIN': P_BIN, 'CH': P_CH, 'imm': 'imm', 'prelude': lambda bases: '',
         'envproof': '', 'envinv': ''}

# Interval evaluation: the reference meaning of an opcode is "the Interval method of that name" (an uninterpreted function
# per opcode base: iv_un / iv_bin / iv_chf); what each method computes is the business of the `interval` unit, the Kani
# harnesses and the bounded contract interp_interval.  method name -> opcode base:
IV_UN_METHODS = {'abs': 'Abs', 'recip': 'Recip', 'sqrt': 'Sqrt', 'square': 'Square', 'floor': 'Floor', 'ceil': 'Ceil', 'round': 'Round',
                 'sin': 'Sin', 'cos': 'Cos', 'tan': 'Tan', 'asin': 'Asin', 'acos': 'Acos', 'atan': 'Atan', 'exp': 'Exp', 'ln': 'Ln',
                 'not': 'Not', 'rand': 'Rand'}
IV_BIN_METHODS = {'atan2': 'Atan', 'rem_euclid': 'Mod', 'mix': 'Mix'}
IV_CH_METHODS = {'min_choice': 'Min', 'max_choice': 'Max', 'and_choice': 'And', 'or_choice': 'Or'}
IV_OPS = [('Add', 'add', 'Interval', 'Add'), ('Sub', 'sub', 'Interval', 'Sub'), ('Mul', 'mul', 'Interval', 'Mul'), ('Div', 'div', 'Interval', 'Div')]


def type_env(T, pre, title, bases, sigs, un_methods, bin_methods, ch_methods, static_compare):
    """A data type as seen by an interpreter: a Copy struct with one external_body stub per method/operator the interpreter
    calls.  `sigs` maps method name -> real signature text cut out of the type's source file."""
    import re as _re
    k = lambda b: bases.index(b)
    L = []
    A = L.append
    A(("""// =================== @T@, as the interpreter sees it (stubs with the real signatures; each is an assumption) ===================
pub struct @T@ { """ + title + """ }
impl Clone for @T@ { fn clone(&self) -> (r: Self) ensures r == *self { *self } }
impl Copy for @T@ {}
pub uninterp spec fn @p@_un(k: int, x: @T@) -> @T@;
pub uninterp spec fn @p@_bin(k: int, a: @T@, b: @T@) -> @T@;
pub uninterp spec fn @p@_chf(k: int, a: @T@, b: @T@) -> (@T@, Choice);
pub uninterp spec fn @p@_from(x: f32) -> @T@;
pub uninterp spec fn @p@_scale(a: @T@, x: f32) -> @T@;
impl FromSpecImpl<f32> for @T@ {
    open spec fn obeys_from_spec() -> bool { true }
    open spec fn from_spec(e: f32) -> Self { @p@_from(e) }
}
impl From<f32> for @T@ {
    #[verifier::external_body]
    fn from(f: f32) -> (r: Self) { unimplemented!() }
}""").replace('@T@', T).replace('@p@', pre))
    if static_compare:
        A("""pub uninterp spec fn into_@p@<T>(x: T) -> @T@;
/// AX-into: `Into<@T@>` is the identity on @T@ (std blanket impl) and `@T@::from` on f32
pub proof fn ax_into_@p@()
    ensures forall|a: @T@| #[trigger] into_@p@::<@T@>(a) == a, forall|x: f32| #[trigger] into_@p@::<f32>(x) == @p@_from(x),
{ admit(); }""".replace('@T@', T).replace('@p@', pre))
    for tr, m, rhs, base in IV_OPS:
        A(("""impl %sSpecImpl<@T@> for @T@ {
    open spec fn obeys_%s_spec() -> bool { true }
    open spec fn %s_req(self, rhs: @T@) -> bool { true }
    open spec fn %s_spec(self, rhs: @T@) -> @T@ { @p@_bin(%d, self, rhs) }
}
impl std::ops::%s<@T@> for @T@ {
    type Output = @T@;
    #[verifier::external_body]
    fn %s(self, rhs: @T@) -> @T@ { unimplemented!() }
}""" % (tr, m, m, m, k(base), tr, m)).replace('@T@', T).replace('@p@', pre))
    A(("""impl MulSpecImpl<f32> for @T@ {
    open spec fn obeys_mul_spec() -> bool { true }
    open spec fn mul_req(self, rhs: f32) -> bool { true }
    open spec fn mul_spec(self, rhs: f32) -> @T@ { @p@_scale(self, rhs) }
}
impl std::ops::Mul<f32> for @T@ {
    type Output = @T@;
    #[verifier::external_body]
    fn mul(self, rhs: f32) -> @T@ { unimplemented!() }
}
impl NegSpecImpl for @T@ {
    open spec fn obeys_neg_spec() -> bool { true }
    open spec fn neg_req(self) -> bool { true }
    open spec fn neg_spec(self) -> @T@ { @p@_un(%d, self) }
}
impl std::ops::Neg for @T@ {
    type Output = @T@;
    #[verifier::external_body]
    fn neg(self) -> @T@ { unimplemented!() }
}
impl @T@ {""" % k('Neg')).replace('@T@', T).replace('@p@', pre))
    for m, b in un_methods.items():
        sig = sigs[m]
        recv = '*self' if '&self' in sig else 'self'
        A('    #[verifier::external_body]\n    pub %s -> (r: %s) ensures r == %s_un(%d, %s) { unimplemented!() }' % (sig, T, pre, k(b), recv))
    for m, b in bin_methods.items():
        sig = sigs[m]
        recv = '*self' if '&self' in sig else 'self'
        arg = _re.search(r',\s*(\w+):', sig).group(1)
        A('    #[verifier::external_body]\n    pub %s -> (r: %s) ensures r == %s_bin(%d, %s, %s) { unimplemented!() }' % (sig, T, pre, k(b), recv, arg))
    for m, b in ch_methods.items():
        sig = sigs[m]
        arg = _re.search(r',\s*(\w+):', sig).group(1)
        A('    #[verifier::external_body]\n    pub %s -> (r: (%s, Choice)) ensures r == %s_chf(%d, self, %s) { unimplemented!() }' % (sig, T, pre, k(b), arg))
    if static_compare:
        A('    #[verifier::external_body]\n    pub %s -> (r: %s) ensures r == %s_bin(%d, into_%s(lhs), into_%s(rhs)) { unimplemented!() }' % (sigs['compare'], T, pre, k('Compare'), pre, pre))
    A('}')
    return '\n'.join(L)


def interval_env(bases, sigs):
    return type_env('Interval', 'iv', 'pub lower: f32, pub upper: f32', bases, sigs, IV_UN_METHODS, IV_BIN_METHODS, IV_CH_METHODS, True)


# Grad evaluation: same scheme; the VM gradient evaluator calls plain min/max/and/or (no choices), `one / x` for Recip and
# `s * s` for Square
G_UN_METHODS = {'abs': 'Abs', 'sqrt': 'Sqrt', 'floor': 'Floor', 'ceil': 'Ceil', 'round': 'Round', 'sin': 'Sin', 'cos': 'Cos', 'tan': 'Tan',
                'asin': 'Asin', 'acos': 'Acos', 'atan': 'Atan', 'exp': 'Exp', 'ln': 'Ln', 'not': 'Not', 'rand': 'Rand'}
G_BIN_METHODS = {'atan2': 'Atan', 'rem_euclid': 'Mod', 'mix': 'Mix', 'compare': 'Compare', 'min': 'Min', 'max': 'Max', 'and': 'And', 'or': 'Or'}


def grad_env(bases, sigs):
    return type_env('Grad', 'gd', 'pub v: f32, pub dx: f32, pub dy: f32, pub dz: f32', bases, sigs, G_UN_METHODS, G_BIN_METHODS, {}, False)


def make_bulk_grad(sigs):
    un = {b: 'gd_un(@K@, x)' for b in G_UN_METHODS.values()}
    un['Neg'] = 'gd_un(@K@, x)'
    un['Recip'] = 'gd_bin(%DIV%, gd_from(1.0f32), x)'
    un['Square'] = 'gd_bin(%MUL%, x, x)'
    bn = {b: 'gd_bin(@K@, a, b)' for b in list(G_BIN_METHODS.values()) + ['Add', 'Sub', 'Mul', 'Div']}
    return {'ev': 'VmGradSliceEval', 'T': 'Grad', 'p': 'g_', 'UN': un, 'BIN': bn, 'CH': {}, 'imm': 'gd_from(imm)',
            'VARIANT': {'MulRegImm': 'gd_scale(@A@, imm)'}, 'prelude': lambda bases: grad_env(bases, sigs), 'envproof': '', 'envinv': '', 'own_sem': True}


def make_interval(sigs):
    un = {b: 'iv_un(@K@, x)' for b in IV_UN_METHODS.values()}
    un['Neg'] = 'iv_un(@K@, x)'
    bn = {b: 'iv_bin(@K@, a, b)' for b in list(IV_BIN_METHODS.values()) + ['Add', 'Sub', 'Mul', 'Div', 'Compare']}
    ch = {}
    for b in IV_CH_METHODS.values():
        bn[b] = 'iv_chf(@K@, a, b).0'
        ch[b] = 'iv_chf(@K@, a, b).1'
    return {'ev': 'VmIntervalEval', 'T': 'Interval', 'p': 'i_', 'UN': un, 'BIN': bn, 'CH': ch, 'imm': 'iv_from(imm)',
            'VARIANT': {'MulRegImm': 'iv_scale(@A@, imm)'},
            'prelude': lambda bases: interval_env(bases, sigs),
            'envproof': 'ax_into_iv();',
            'envinv': 'forall|a: Interval| #[trigger] into_iv::<Interval>(a) == a, forall|x: f32| #[trigger] into_iv::<f32>(x) == iv_from(x),'}


REL_TEMPLATE = r"""
// =================== composition (@TITLE@): a relation the operations respect lifts to whole tapes ===================
@RELDEF@
/// every operation respects the relation (@WHO@)
pub open spec fn @R@_ops() -> bool {
    &&& forall|k: int, x: f32, a: @T@| #![trigger p_un(k, x), @Q@un(k, a)] @R@(x, a) ==> @R@(p_un(k, x), @Q@un(k, a))
    &&& forall|k: int, x: f32, y: f32, a: @T@, b: @T@| #![trigger p_bin(k, x, y), @Q@bin(k, a, b)] @R@(x, a) && @R@(y, b) ==> @R@(p_bin(k, x, y), @Q@bin(k, a, b))
    &&& forall|c: f32| @R@(c, #[trigger] @FROM@(c))
    &&& forall|x: f32, a: @T@, c: f32| #![trigger x.mul_spec(c), @SCALE@(a, c)] @R@(x, a) ==> @R@(x.mul_spec(c), @SCALE@(a, c))
}
pub open spec fn @R@_seq(p: Seq<f32>, i: Seq<@T@>) -> bool { p.len() == i.len() && forall|r: int| 0 <= r < p.len() ==> @R@(#[trigger] p[r], i[r]) }
pub open spec fn @R@_st(p: p_St, i: @Q@St) -> bool { @R@_seq(p.slots, i.slots) && @R@_seq(p.outs, i.outs) }
pub proof fn lemma_@R@_set(p: p_St, i: @Q@St, o: int, v: f32, w: @T@)
    requires @R@_st(p, i), @R@(v, w), 0 <= o < p.slots.len()
    ensures @R@_st(p_set(p, o, v), @Q@set(i, o, w))
{
    assert forall|r: int| 0 <= r < p.slots.len() implies @R@(#[trigger] p_set(p, o, v).slots[r], @Q@set(i, o, w).slots[r]) by {
        if r != o { assert(@R@(p.slots[r], i.slots[r])); }
    }
}
pub proof fn lemma_@R@_rec(p: p_St, i: @Q@St, o: int, v: f32, w: @T@, c1: Choice, c2: Choice)
    requires @R@_st(p, i), @R@(v, w), 0 <= o < p.slots.len()
    ensures @R@_st(p_rec(p, o, v, c1), @REC2@)
{
    assert forall|r: int| 0 <= r < p.slots.len() implies @R@(#[trigger] p_rec(p, o, v, c1).slots[r], @REC2@.slots[r]) by {
        if r != o { assert(@R@(p.slots[r], i.slots[r])); }
    }
}
pub proof fn lemma_@R@_out(p: p_St, i: @Q@St, o: int, v: f32, w: @T@)
    requires @R@_st(p, i), @R@(v, w), 0 <= o < p.outs.len()
    ensures @R@_st(p_St { slots: p.slots, outs: p.outs.update(o, v), ch: p.ch, k: p.k, simp: p.simp }, @Q@St { slots: i.slots, outs: i.outs.update(o, w), ch: i.ch, k: i.k, simp: i.simp })
{
    assert forall|r: int| 0 <= r < p.outs.len() implies @R@(#[trigger] p.outs.update(o, v)[r], i.outs.update(o, w)[r]) by {
        if r != o { assert(@R@(p.outs[r], i.outs[r])); }
    }
}
/// one step of the point interpreter stays inside one step of the interval interpreter
pub proof fn lemma_@R@_step(op: RegOp, p: p_St, i: @Q@St, pin: Seq<f32>, iin: Seq<@T@>, ns: int, no: int, nv: int)
    requires @R@_ops(), @R@_st(p, i), @R@_seq(pin, iin), op_ok(op, ns, no, nv), p.slots.len() == ns, p.outs.len() == no, pin.len() >= nv
    ensures @R@_st(p_step(op, p, pin), @Q@step(op, i, iin))
{
    match op {
/*@ARMS@*/
    }
}
/// whole tapes: if every slot and output starts covered and every input is covered, every output of the point run is
/// covered by the corresponding output of the interval run
pub proof fn lemma_@R@_run(t: Seq<RegOp>, n: nat, p0: p_St, i0: @Q@St, pin: Seq<f32>, iin: Seq<@T@>, ns: int, no: int, nv: int)
    requires @R@_ops(), @R@_st(p0, i0), @R@_seq(pin, iin), n <= t.len(), p0.slots.len() == ns, p0.outs.len() == no, pin.len() >= nv,
        forall|k: int| 0 <= k < t.len() ==> op_ok(#[trigger] t[k], ns, no, nv)
    ensures @R@_st(p_run(t, n, p0, pin), @Q@run(t, n, i0, iin))
    decreases n
{
    if n > 0 {
        lemma_@R@_run(t, (n - 1) as nat, p0, i0, pin, iin, ns, no, nv);
        lemma_p_run_shape(t, (n - 1) as nat, p0, pin);
        lemma_@R@_step(t[t.len() - n], p_run(t, (n - 1) as nat, p0, pin), @Q@run(t, (n - 1) as nat, i0, iin), pin, iin, ns, no, nv);
    }
}
"""

TRACE_TEMPLATE = r"""
// =================== composition (C04, C20): the returned interval trace is valid at every covered point ===================
/// operands of a choice clause in a point state / an interval state, and its opcode base
pub open spec fn cl_p(op: RegOp, s: p_St) -> (f32, f32) {
    match op {
/*@OPS_P@*/
        _ => (0.0f32, 0.0f32),
    }
}
pub open spec fn cl_i(op: RegOp, s: i_St) -> (Interval, Interval) {
    match op {
/*@OPS_I@*/
        _ => (iv_from(0.0f32), iv_from(0.0f32)),
    }
}
pub open spec fn cl_k(op: RegOp) -> int {
    match op {
/*@KK@*/
        _ => 0,
    }
}
/// per clause (for the real code: Kani harnesses `*_choice__valid_at_every_point`): a decided interval choice selects, at every
/// covered point, an operand whose value is bit for bit the value of the clause
pub open spec fn ch_ops() -> bool {
    forall|k: int, x: f32, y: f32, a: Interval, b: Interval| #![trigger p_bin(k, x, y), i_ch(k, a, b)]
        enc(x, a) && enc(y, b) ==> (i_ch(k, a, b) == Choice::Left ==> p_bin(k, x, y) == x) && (i_ch(k, a, b) == Choice::Right ==> p_bin(k, x, y) == y)
}
/// the op executed as number n (0-based)
pub open spec fn op_at(t: Seq<RegOp>, n: int) -> RegOp { t[t.len() - 1 - n] }
/// entries below the cursor are never written again
pub proof fn lemma_i_ch_stable(t: Seq<RegOp>, n: nat, m: nat, s0: i_St, inp: Seq<Interval>, j: int)
    requires n <= m <= t.len(), 0 <= j < i_run(t, n, s0, inp).k, s0.k >= 0
    ensures i_run(t, m, s0, inp).ch[j] == i_run(t, n, s0, inp).ch[j], i_run(t, m, s0, inp).k >= i_run(t, n, s0, inp).k
    decreases m - n
{
    if n < m {
        lemma_i_ch_stable(t, n, (m - 1) as nat, s0, inp, j);
        lemma_i_run_shape(t, (m - 1) as nat, s0, inp);
        lemma_i_run_shape(t, n, s0, inp);
    }
}
/// one step touches at most the trace entry under the cursor, and moves the cursor by at most one
pub proof fn lemma_i_step_ch(op: RegOp, s: i_St, inp: Seq<Interval>, j: int)
    requires j != s.k || i_step(op, s, inp).k == s.k
    ensures i_step(op, s, inp).ch[j] == s.ch[j], s.k <= i_step(op, s, inp).k <= s.k + 1, i_step(op, s, inp).ch.len() == s.ch.len()
{
}
/// entries at or above the cursor are still Unknown
pub proof fn lemma_i_unwritten(t: Seq<RegOp>, n: nat, s0: i_St, inp: Seq<Interval>, j: int)
    requires n <= t.len(), s0.k == 0, s0.ch == all_unknown(s0.ch.len()), i_run(t, n, s0, inp).k <= j < s0.ch.len()
    ensures i_run(t, n, s0, inp).ch[j] == Choice::Unknown
    decreases n
{
    if n > 0 {
        let prev = i_run(t, (n - 1) as nat, s0, inp);
        lemma_i_step_ch(t[t.len() - n], prev, inp, j);
        lemma_i_unwritten(t, (n - 1) as nat, s0, inp, j);
    }
}
/// the clause executed as number n writes its choice into the entry its cursor points at (the trace starts cleared)
pub proof fn lemma_i_ch_written(t: Seq<RegOp>, n: nat, s0: i_St, inp: Seq<Interval>)
    requires n < t.len(), is_choice(op_at(t, n as int)), s0.k == 0, s0.ch == all_unknown(s0.ch.len()), cnt_ch(t, t.len()) <= s0.ch.len()
    ensures ({
        let s = i_run(t, n, s0, inp);
        let c = cl_i(op_at(t, n as int), s);
        i_run(t, t.len(), s0, inp).ch[s.k] == i_ch(cl_k(op_at(t, n as int)), c.0, c.1)
    })
{
    let s = i_run(t, n, s0, inp);
    lemma_i_run_shape(t, n, s0, inp);
    lemma_cnt_mono(t, (n + 1) as nat, t.len());
    lemma_i_unwritten(t, n, s0, inp, s.k);
    let s1 = i_run(t, (n + 1) as nat, s0, inp);
    assert(s1 == i_step(op_at(t, n as int), s, inp));
    lemma_i_run_shape(t, (n + 1) as nat, s0, inp);
    lemma_i_ch_stable(t, (n + 1) as nat, t.len(), s0, inp, s.k);
}
/// the clause executed as number n is valid at the point: from enclosure of the two runs and the per-clause hypothesis
pub proof fn lemma_clause_valid(t: Seq<RegOp>, n: nat, p0: p_St, i0: i_St, pin: Seq<f32>, iin: Seq<Interval>, ns: int, no: int, nv: int)
    requires enc_ops(), ch_ops(), enc_st(p0, i0), enc_seq(pin, iin), n < t.len(), p0.slots.len() == ns, p0.outs.len() == no, pin.len() >= nv,
        forall|k: int| 0 <= k < t.len() ==> op_ok(#[trigger] t[k], ns, no, nv), is_choice(op_at(t, n as int))
    ensures ({
        let op = op_at(t, n as int);
        let ps = p_run(t, n, p0, pin); let is_ = i_run(t, n, i0, iin);
        let (x, y) = cl_p(op, ps); let (a, b) = cl_i(op, is_);
        let c = i_ch(cl_k(op), a, b);
        (c == Choice::Left ==> p_bin(cl_k(op), x, y) == x) && (c == Choice::Right ==> p_bin(cl_k(op), x, y) == y)
    })
{
    lemma_enc_run(t, n, p0, i0, pin, iin, ns, no, nv);
    lemma_p_run_shape(t, n, p0, pin);
    let op = op_at(t, n as int);
    let ps = p_run(t, n, p0, pin); let is_ = i_run(t, n, i0, iin);
    assert(op_ok(op, ns, no, nv));
    let (x, y) = cl_p(op, ps); let (a, b) = cl_i(op, is_);
    assert(enc(x, a) && enc(y, b));
}
/// whole tapes: every entry of the returned interval trace that is Left (Right) belongs to a clause whose value, in the point
/// run at any covered point, is bit for bit its left (right) operand
pub proof fn lemma_trace_valid(t: Seq<RegOp>, n: nat, p0: p_St, i0: i_St, pin: Seq<f32>, iin: Seq<Interval>, ns: int, no: int, nv: int)
    requires enc_ops(), ch_ops(), enc_st(p0, i0), enc_seq(pin, iin), n < t.len(), p0.slots.len() == ns, p0.outs.len() == no, pin.len() >= nv,
        forall|k: int| 0 <= k < t.len() ==> op_ok(#[trigger] t[k], ns, no, nv), is_choice(op_at(t, n as int)),
        i0.k == 0, i0.ch == all_unknown(i0.ch.len()), cnt_ch(t, t.len()) <= i0.ch.len()
    ensures ({
        let op = op_at(t, n as int);
        let ps = p_run(t, n, p0, pin);
        let (x, y) = cl_p(op, ps);
        let c = i_run(t, t.len(), i0, iin).ch[i_run(t, n, i0, iin).k];
        (c == Choice::Left ==> p_bin(cl_k(op), x, y) == x) && (c == Choice::Right ==> p_bin(cl_k(op), x, y) == y)
    })
{
    lemma_clause_valid(t, n, p0, i0, pin, iin, ns, no, nv);
    lemma_i_ch_written(t, n, i0, iin);
}
"""

BULK_ENV = r"""
// =================== environment of the bulk interpreters ===================
impl FromSpecImpl<BulkArgError> for BulkEvalError {
    open spec fn obeys_from_spec() -> bool { true }
    open spec fn from_spec(e: BulkArgError) -> Self { BulkEvalError(e) }
}
impl From<BulkArgError> for BulkEvalError {
    fn from(e: BulkArgError) -> (r: Self) { BulkEvalError(e) }
}
pub assume_specification<T, A: core::alloc::Allocator, F: FnMut() -> T>[ Vec::<T, A>::resize_with ](v: &mut Vec<T, A>, new_len: usize, f: F)
    ensures final(v)@.len() == new_len;
impl VarMap {
    /// stub of the real function (iterator adapters); contract: on Ok there are enough slices and all have one length
    #[verifier::external_body]
    pub fn check_bulk_arguments<T>(&self, vars: &[Vec<T>]) -> (r: Result<(), BulkArgError>)
        ensures r is Ok ==> (vars@.len() >= self.len_spec() && forall|i: int| 0 <= i < vars@.len() ==> (#[trigger] vars@[i])@.len() == vars@[0]@.len())
    { unimplemented!() }
}
/// R-copyprefix: `dst[0..n].copy_from_slice(src)` (std: panics unless both lengths are n; then copies element by element)
pub fn copy_prefix<T: Copy>(dst: &mut Vec<T>, src: &[T], n: usize)
    requires old(dst)@.len() >= n, src@.len() == n
    ensures final(dst)@.len() == old(dst)@.len(),
        forall|j: int| 0 <= j < n ==> final(dst)@[j] == src@[j],
        forall|j: int| n <= j < old(dst)@.len() ==> final(dst)@[j] == old(dst)@[j],
{
    let mut j: usize = 0;
    while j < n
        invariant 0 <= j <= n, dst@.len() == old(dst)@.len(), dst@.len() >= n, src@.len() == n,
            forall|q: int| 0 <= q < j ==> dst@[q] == src@[q],
            forall|q: int| j <= q < dst@.len() ==> dst@[q] == old(dst)@[q],
        decreases n - j
    {
        dst[j] = src[j];
        j += 1;
    }
}
"""

BULK_POINT = {'ev': 'VmFloatSliceEval', 'T': 'f32', 'p': 'p_', 'envproof': '', 'envinv': ''}

BULK_SHARED = r"""
// =================== bulk evaluation: column j of the slot matrix is a point state ===================
pub open spec fn col<T>(s: Seq<Vec<T>>, j: int) -> Seq<T> { Seq::new(s.len(), |r: int| s[r]@[j]) }
pub open spec fn bsize<T>(vars: Seq<Vec<T>>) -> int { if vars.len() > 0 { vars[0]@.len() as int } else { 0 } }
pub open spec fn brect<T>(s: Seq<Vec<T>>, n: int, size: int) -> bool { s.len() == n && forall|r: int| 0 <= r < n ==> (#[trigger] s[r])@.len() == size }
"""

BULK_KIND = r"""
pub open spec fn @P@cst(s: Seq<Vec<@T@>>, o: Seq<Vec<@T@>>, j: int) -> @P@St { @P@mk(col(s, j), col(o, j), Seq::empty(), 0, false) }
/// bulk invariant: after n executed ops, every column is the point run of that column
pub open spec fn @P@binv(t: Seq<RegOp>, n: nat, s0: Seq<Vec<@T@>>, o0: Seq<Vec<@T@>>, s: Seq<Vec<@T@>>, o: Seq<Vec<@T@>>, vars: Seq<Vec<@T@>>, size: int) -> bool {
    &&& forall|j: int| 0 <= j < size ==> (#[trigger] col(s, j)) == @P@run(t, n, @P@cst(s0, o0, j), col(vars, j)).slots
    &&& forall|j: int| 0 <= j < size ==> (#[trigger] col(o, j)) == @P@run(t, n, @P@cst(s0, o0, j), col(vars, j)).outs
}
/// result of a bulk evaluation: started from some matrices of the right shape, every column of the output matrix is the
/// output vector of the point run on that column of the inputs
pub open spec fn @P@bres(t: Seq<RegOp>, s0: Seq<Vec<@T@>>, o0: Seq<Vec<@T@>>, data: Seq<Vec<@T@>>, vars: Seq<Vec<@T@>>, ns: int, no: int, size: int) -> bool {
    brect(s0, ns, size) && brect(o0, no, size)
    && forall|j: int| 0 <= j < size ==> (#[trigger] col(data, j)) == @P@run(t, t.len(), @P@cst(s0, o0, j), col(vars, j)).outs
}
/// the step function reads and writes only slots and outputs
pub proof fn lemma_@P@step_indep(op: RegOp, a: @P@St, b: @P@St, inp: Seq<@T@>)
    requires a.slots == b.slots, a.outs == b.outs
    ensures @P@step(op, a, inp).slots == @P@step(op, b, inp).slots, @P@step(op, a, inp).outs == @P@step(op, b, inp).outs
{
}
/// one arm of the bulk interpreter: if every element of the new matrices is what the point step yields on the column of the
/// old matrices, the bulk invariant advances by one op
pub proof fn lemma_@P@bulk_arm(t: Seq<RegOp>, n: nat, op: RegOp, s0: Seq<Vec<@T@>>, o0: Seq<Vec<@T@>>, ps: Seq<Vec<@T@>>, po: Seq<Vec<@T@>>,
                               ns_: Seq<Vec<@T@>>, no_: Seq<Vec<@T@>>, vars: Seq<Vec<@T@>>, ns: int, no: int, size: int)
    requires
        n < t.len(), op == t[t.len() - (n + 1)],
        brect(ps, ns, size), brect(po, no, size), brect(ns_, ns, size), brect(no_, no, size),
        @P@binv(t, n, s0, o0, ps, po, vars, size),
        forall|r: int, j: int| 0 <= r < ns && 0 <= j < size ==> (#[trigger] ns_[r]@[j]) == @P@step(op, @P@cst(ps, po, j), col(vars, j)).slots[r],
        forall|r: int, j: int| 0 <= r < no && 0 <= j < size ==> (#[trigger] no_[r]@[j]) == @P@step(op, @P@cst(ps, po, j), col(vars, j)).outs[r],
        forall|j: int| 0 <= j < size ==> (#[trigger] @P@step(op, @P@cst(ps, po, j), col(vars, j))).slots.len() == ns && @P@step(op, @P@cst(ps, po, j), col(vars, j)).outs.len() == no,
    ensures @P@binv(t, (n + 1) as nat, s0, o0, ns_, no_, vars, size)
{
    assert forall|j: int| 0 <= j < size implies (#[trigger] col(ns_, j)) == @P@run(t, (n + 1) as nat, @P@cst(s0, o0, j), col(vars, j)).slots by {
        let prev = @P@run(t, n, @P@cst(s0, o0, j), col(vars, j));
        assert(col(ps, j) == prev.slots);
        assert(col(po, j) == prev.outs);
        lemma_@P@step_indep(op, @P@cst(ps, po, j), prev, col(vars, j));
        let st = @P@step(op, prev, col(vars, j));
        assert(col(ns_, j) =~= st.slots);
    }
    assert forall|j: int| 0 <= j < size implies (#[trigger] col(no_, j)) == @P@run(t, (n + 1) as nat, @P@cst(s0, o0, j), col(vars, j)).outs by {
        let prev = @P@run(t, n, @P@cst(s0, o0, j), col(vars, j));
        assert(col(ps, j) == prev.slots);
        assert(col(po, j) == prev.outs);
        lemma_@P@step_indep(op, @P@cst(ps, po, j), prev, col(vars, j));
        let st = @P@step(op, prev, col(vars, j));
        assert(col(no_, j) =~= st.outs);
    }
}
"""

BULK_SPECS = {
 'BulkVmEval::resize_slots': (None, """
        ensures brect(final(self).slots@, tape.asm.slot_count as int, size as int), brect(final(self).out@, tape.ssa.output_count as int, size as int),
"""),
 'BulkOutput::new': ('r: Self', """
        ensures *r.data == *data, r.len == len
"""),
}

BULK_EVAL_SPEC = """
        requires tape_ok(*tape.0)
        ensures
            // shape of the result: one row per output, `size` samples each (size = length of the first input slice)
            r is Ok ==> r->Ok_0.len == bsize(vars@) && brect(r->Ok_0.data@, tape.0.ssa.output_count as int, bsize(vars@)),
            // every column is the point run of the reference step function on that column of the inputs
            r is Ok ==> exists|s0: Seq<Vec<@T@>>, o0: Seq<Vec<@T@>>| #[trigger] @P@bres(tape.0.asm.tape@, s0, o0, r->Ok_0.data@, vars@,
                                tape.0.asm.slot_count as int, tape.0.ssa.output_count as int, bsize(vars@)),
"""

BULK_FN_START = """        let ghost t = tape.asm.tape@;
        let ghost ns = tape.asm.slot_count as int;
        let ghost no = tape.ssa.output_count as int;
        let ghost nv = tape.vars.len_spec() as int;
        let ghost s0 = self.0.slots@;
        let ghost o0 = self.0.out@;
        proof { ax_float_total(); @ENVPROOF@
            assert(@P@binv(t, 0, s0, o0, s0, o0, vars@, size as int));
        }"""

BULK_OUTER_INV = """            invariant
                0 <= i_ <= t.len(), brect(self.0.slots@, ns, size as int), brect(self.0.out@, no, size as int),
                @P@binv(t, (t.len() - i_) as nat, s0, o0, self.0.slots@, self.0.out@, vars@, size as int),
            decreases i_"""

BULK_AFTER_OP = """            proof {
                assert(op_ok(t[i_ as int], ns, no, nv));
            }
            let ghost ps = self.0.slots@;
            let ghost po = self.0.out@;
            let ghost d_ = dst_slot(op);"""

BULK_INNER_INV = """                        invariant
                            brect(self.0.slots@, ns, size as int), self.0.out@ == po,
                            forall|r: int| 0 <= r < ns && r != d_ ==> self.0.slots@[r] == ps[r],
                            forall|j: int| 0 <= j < i ==> (#[trigger] self.0.slots@[d_]@[j]) == @P@step(op, @P@cst(ps, po, j), col(vars@, j)).slots[d_],
                            forall|j: int| i <= j < size ==> (#[trigger] self.0.slots@[d_]@[j]) == ps[d_]@[j],"""

BULK_ARM_END = """                    proof {
                        lemma_@P@bulk_arm(t, (t.len() - i_ - 1) as nat, op, s0, o0, ps, po, self.0.slots@, self.0.out@, vars@, ns, no, size as int);
                    }"""

BULK_TAIL = """        proof {
            assert(size == bsize(vars@));
            assert(@P@bres(tape0.0.asm.tape@, s0, o0, self.0.out@, vars@, tape0.0.asm.slot_count as int, tape0.0.ssa.output_count as int, bsize(vars@)));
        }"""

BULK_OUTPUT_HINT = """                    proof {
                        assert(self.0.slots@ == ps);
                        assert forall|r: int| 0 <= r < no && r != i implies self.0.out@[r] == po[r] by {}
                        assert forall|j: int| 0 <= j < size implies self.0.out@[i as int]@[j] == ps[arg as int]@[j] by {
                            assert(ps[arg as int]@.subrange(0, size as int)[j] == ps[arg as int]@[j]);
                        }
                    }"""

BULK_TAIL2 = """        proof {
            assert(ret_->Ok_0.data@ == self.0.out@);
            assert(exists|a0: Seq<Vec<@T@>>, b0: Seq<Vec<@T@>>| #[trigger] @P@bres(tape0.0.asm.tape@, a0, b0, ret_->Ok_0.data@, vars@,
                       tape0.0.asm.slot_count as int, tape0.0.ssa.output_count as int, bsize(vars@)));
        }"""

RESIZE_INV = """            invariant 0 <= j_ <= self.@F@.len(), self.@F@.len() == @N@, self.@G@@ == @GV@,
                forall|k: int| 0 <= k < j_ ==> (#[trigger] self.@F@@[k])@.len() == size,
            decreases self.@F@.len() - j_"""
