# Contracts, invariants and anchored proof blocks for VmData::simplify / VmWorkspace (unit `simplify`).
#
# S1 (totality): with a well-formed (strict SSA) parent tape, a trace of the right length without
#   `Unknown`, and a workspace whose allocator tape is empty, no unwrap / panic / assert / index /
#   overflow / allocator precondition in `simplify` can fail.
# Invariant `sinv` (DESIGN.md Appendix B.3): P1, COV, INJ, P3, Q over (bind, count, allocations, ops, k).
import re
from lib.rsx import ExtractError
from units.alloc.gen_sem import split_variant

CHOICE_BASES = ('Min', 'Max', 'And', 'Or')

PRELUDE = r'''
// ================= simplify: specification =================
spec fn uses(op: SsaOp, s: int) -> bool {
    let k = ssa_kind(op);
    (k == 0 && ssa_o(op) == s) || (k >= 2 && ssa_a(op) == s) || (k == 4 && ssa_b(op) == s)
}
/// strict SSA: a slot is not used (in list order) after one of its definitions; all indices in range;
/// a definition is of a live slot distinct from its arguments; nothing is read before it is written
spec fn ssa_strict(ops: Seq<SsaOp>) -> bool {
    let n = ops.len() as int;
    &&& forall|j: int, j2: int| 0 <= j < j2 < n && ssa_kind(#[trigger] ops[j]) >= 1 ==> !uses(#[trigger] ops[j2], ssa_o(ops[j]))
    &&& forall|j: int| 0 <= j < n ==> {
            let op = #[trigger] ops[j];
            &&& 0 <= ssa_o(op) < n
            &&& ssa_kind(op) >= 1 ==> live(ops, j).contains(ssa_o(op))
            &&& ssa_kind(op) >= 2 ==> 0 <= ssa_a(op) < n && ssa_a(op) != ssa_o(op)
            &&& ssa_kind(op) == 4 ==> 0 <= ssa_b(op) < n && ssa_b(op) != ssa_o(op)
        }
    &&& live(ops, n) =~= Set::empty()
}
proof fn lemma_strict_is_wf(ops: Seq<SsaOp>)
    requires ssa_strict(ops)
    ensures ssa_wf(ops, ops.len() as int)
{}
/// number of choice clauses among ops[lo..hi)
spec fn cnt_choice(ops: Seq<SsaOp>, lo: int, hi: int) -> int
    decreases hi - lo
{
    if hi <= lo { 0 } else { cnt_choice(ops, lo + 1, hi) + if is_choice(ops[lo]) { 1int } else { 0int } }
}
proof fn lemma_cnt_choice_step(ops: Seq<SsaOp>, k: int, n: int)
    requires 0 <= k < n
    ensures cnt_choice(ops, k, n) == cnt_choice(ops, k + 1, n) + if is_choice(ops[k]) { 1int } else { 0int }
{}
proof fn lemma_cnt_choice_bounds(ops: Seq<SsaOp>, lo: int, hi: int)
    ensures 0 <= cnt_choice(ops, lo, hi) <= if hi >= lo { hi - lo } else { 0 }
    decreases hi - lo
{
    if hi > lo { lemma_cnt_choice_bounds(ops, lo + 1, hi); }
}
/// number of Output clauses among ops[0..k)
spec fn cnt_output(ops: Seq<SsaOp>, k: int) -> int
    decreases k
{
    if k <= 0 { 0 } else { cnt_output(ops, k - 1) + if ssa_kind(ops[k - 1]) == 0 { 1int } else { 0int } }
}

spec fn pend(bind: Seq<u32>, ops: Seq<SsaOp>, k: int, s: int) -> bool {
    0 <= s < bind.len() && bind[s] != u32::MAX && live(ops, k).contains(s)
}
/// every number below `count` has been handed to some slot
spec fn has_num(bind: Seq<u32>, c: int) -> bool {
    exists|s: int| 0 <= s < bind.len() && #[trigger] bind[s] == c
}
spec fn covered(bind: Seq<u32>, count: u32) -> bool {
    forall|c: int| 0 <= c < count ==> #[trigger] has_num(bind, c)
}
#[verifier::opaque]
spec fn sinv(bind: Seq<u32>, count: u32, a: Seq<u32>, ops: Seq<SsaOp>, k: int) -> bool {
    let n = ops.len() as int;
    &&& bind.len() == n && a.len() == n && count <= n
    &&& forall|s: int| 0 <= s < n && #[trigger] bind[s] != u32::MAX ==> bind[s] < count
    &&& covered(bind, count)
    &&& forall|s: int, t: int| #[trigger] pend(bind, ops, k, s) && #[trigger] pend(bind, ops, k, t) && s != t ==> bind[s] != bind[t]
    &&& forall|b: int| 0 <= b < n ==> ((#[trigger] a[b] != UNASSIGNED) <==> exists|s: int| #[trigger] pend(bind, ops, k, s) && bind[s] == b)
    &&& forall|s: int| 0 <= s < n && #[trigger] bind[s] != u32::MAX && !live(ops, k).contains(s)
            ==> exists|j: int| 0 <= j < k && ssa_kind(#[trigger] ops[j]) >= 1 && ssa_o(ops[j]) == s
}
/// pigeonhole: an injective sequence of values in [0, n) has length <= n
proof fn lemma_pigeon(s: Seq<int>, n: int)
    requires n >= 0, forall|i: int| 0 <= i < s.len() ==> 0 <= #[trigger] s[i] < n,
        forall|i: int, j: int| 0 <= i < j < s.len() ==> s[i] != s[j],
    ensures s.len() <= n
    decreases n
{
    if s.len() == 0 {
    } else if n == 0 {
        let x = s[0];
        assert(0 <= x < n);
        assert(false);
    } else if exists|i: int| 0 <= i < s.len() && s[i] == n - 1 {
        let i = choose|i: int| 0 <= i < s.len() && s[i] == n - 1;
        let t = s.remove(i);
        assert forall|p: int| 0 <= p < t.len() implies 0 <= #[trigger] t[p] < n - 1 by {
            if p < i { assert(t[p] == s[p]); } else { assert(t[p] == s[p + 1]); }
        }
        assert forall|p: int, q: int| 0 <= p < q < t.len() implies t[p] != t[q] by {
            let pp = if p < i { p } else { p + 1 };
            let qq = if q < i { q } else { q + 1 };
            assert(t[p] == s[pp] && t[q] == s[qq]);
        }
        lemma_pigeon(t, n - 1);
    } else {
        lemma_pigeon(s, n - 1);
    }
}
proof fn lemma_count_le(bind: Seq<u32>, count: u32)
    requires covered(bind, count)
    ensures count <= bind.len()
{
    let own = Seq::new(count as nat, |c: int| choose|s: int| 0 <= s < bind.len() && #[trigger] bind[s] == c);
    assert forall|i: int| 0 <= i < own.len() implies 0 <= #[trigger] own[i] < bind.len() && bind[own[i]] == i by {
        assert(has_num(bind, i));
    }
    lemma_pigeon(own, bind.len() as int);
}
/// effect of `get_or_insert_active(x)` on (bind, count); x < 0 stands for "no argument"
spec fn bind_step(bind: Seq<u32>, count: u32, x: int) -> (Seq<u32>, u32) {
    if x < 0 || x >= bind.len() { (bind, count) }
    else if bind[x] == u32::MAX { (bind.update(x, count), (count + 1) as u32) }
    else { (bind, count) }
}
proof fn lemma_covered_step(bind: Seq<u32>, count: u32, x: int)
    requires covered(bind, count), count < u32::MAX - 1, forall|s: int| 0 <= s < bind.len() && #[trigger] bind[s] != u32::MAX ==> bind[s] < count
    ensures covered(bind_step(bind, count, x).0, bind_step(bind, count, x).1),
        forall|s: int| 0 <= s < bind.len() && #[trigger] bind_step(bind, count, x).0[s] != u32::MAX ==> bind_step(bind, count, x).0[s] < bind_step(bind, count, x).1,
        bind_step(bind, count, x).0.len() == bind.len(), bind_step(bind, count, x).1 >= count,
{
    let (b2, c2) = bind_step(bind, count, x);
    assert forall|c: int| 0 <= c < c2 implies #[trigger] has_num(b2, c) by {
        if c < count {
            assert(has_num(bind, c));
            let s0 = choose|s: int| 0 <= s < bind.len() && #[trigger] bind[s] == c;
            assert(b2[s0] == c);
        } else {
            assert(b2[x] == c);
        }
    }
}
proof fn lemma_sinv_init(ops: Seq<SsaOp>)
    requires ops.len() < u32::MAX
    ensures sinv(Seq::new(ops.len(), |i: int| u32::MAX), 0, Seq::new(ops.len(), |i: int| UNASSIGNED), ops, 0)
{
    reveal(sinv);
}
proof fn lemma_sinv_facts(bind: Seq<u32>, count: u32, a: Seq<u32>, ops: Seq<SsaOp>, k: int)
    requires sinv(bind, count, a, ops, k)
    ensures bind.len() == ops.len(), a.len() == ops.len(), count <= ops.len(), covered(bind, count),
        forall|s: int| 0 <= s < ops.len() && #[trigger] bind[s] != u32::MAX ==> bind[s] < count,
{
    reveal(sinv);
}
/// a bound argument of op k is pending (strict SSA + Q)
proof fn lemma_bound_arg_pending(bind: Seq<u32>, count: u32, a: Seq<u32>, ops: Seq<SsaOp>, k: int, s: int)
    requires sinv(bind, count, a, ops, k), ssa_strict(ops), 0 <= k < ops.len(), uses(ops[k], s), 0 <= s < ops.len(), bind[s] != u32::MAX
    ensures pend(bind, ops, k, s), bind[s] < count
{
    reveal(sinv);
    if !live(ops, k).contains(s) {
        let j = choose|j: int| 0 <= j < k && ssa_kind(#[trigger] ops[j]) >= 1 && ssa_o(ops[j]) == s;
        assert(!uses(ops[k], ssa_o(ops[j])));
    }
}
/// inactive op: nothing changes in the workspace, yet the invariant moves on to k+1
proof fn lemma_tr_skip(bind: Seq<u32>, count: u32, a: Seq<u32>, ops: Seq<SsaOp>, k: int)
    requires sinv(bind, count, a, ops, k), ssa_strict(ops), 0 <= k < ops.len(), ssa_kind(ops[k]) >= 1, bind[ssa_o(ops[k])] == u32::MAX
    ensures sinv(bind, count, a, ops, k + 1)
{
    let n = ops.len() as int;
    let op = ops[k];
    assert forall|s: int| pend(bind, ops, k + 1, s) == pend(bind, ops, k, s) by {
        lemma_live_step(ops, k, s);
        if 0 <= s < n && bind[s] != u32::MAX {
            if uses(op, s) { lemma_bound_arg_pending(bind, count, a, ops, k, s); }
        }
    }
    reveal(sinv);
    assert forall|s: int, t: int| #[trigger] pend(bind, ops, k + 1, s) && #[trigger] pend(bind, ops, k + 1, t) && s != t implies bind[s] != bind[t] by {
        assert(pend(bind, ops, k, s) && pend(bind, ops, k, t));
    }
    assert forall|s: int| 0 <= s < n && #[trigger] bind[s] != u32::MAX && !live(ops, k + 1).contains(s)
        implies exists|j: int| 0 <= j < k + 1 && ssa_kind(#[trigger] ops[j]) >= 1 && ssa_o(ops[j]) == s by {
        lemma_live_step(ops, k, s);
        if !live(ops, k).contains(s) {
            let j = choose|j: int| 0 <= j < k && ssa_kind(#[trigger] ops[j]) >= 1 && ssa_o(ops[j]) == s;
            assert(0 <= j < k + 1);
        } else {
            assert(s == ssa_o(op));
        }
    }
    assert forall|b: int| 0 <= b < n implies ((#[trigger] a[b] != UNASSIGNED) <==> exists|s: int| #[trigger] pend(bind, ops, k + 1, s) && bind[s] == b) by {
        if a[b] != UNASSIGNED {
            let s0 = choose|s: int| #[trigger] pend(bind, ops, k, s) && bind[s] == b;
            assert(pend(bind, ops, k + 1, s0));
        }
        if exists|s: int| #[trigger] pend(bind, ops, k + 1, s) && bind[s] == b {
            let s1 = choose|s: int| #[trigger] pend(bind, ops, k + 1, s) && bind[s] == b;
            assert(pend(bind, ops, k, s1));
        }
    }
}
proof fn lemma_pend_step(bind2: Seq<u32>, ops: Seq<SsaOp>, k: int, s: int)
    requires 0 <= k < ops.len()
    ensures pend(bind2, ops, k + 1, s) == (0 <= s < bind2.len() && bind2[s] != u32::MAX && new_live(ops[k], live(ops, k).contains(s), s))
{
    lemma_live_step(ops, k, s);
}
/// the renaming relation between the original active op `op0 = ops[k]` and the op handed to the allocator:
/// output renamed through bind; kept arguments kx, ky (or -1) renamed through bind after get_or_insert_active
spec fn emits(bind: Seq<u32>, count: u32, op0: SsaOp, kx: int, ky: int, op2: SsaOp, bind2: Seq<u32>, count2: u32) -> bool {
    let o = ssa_o(op0);
    let s1 = bind_step(bind, count, kx);
    &&& ssa_kind(op0) >= 1
    &&& (kx >= 0 ==> uses(op0, kx) && kx < bind.len() && kx != o)
    &&& (ky >= 0 ==> uses(op0, ky) && ky < bind.len() && ky != o && kx >= 0)
    &&& (kx < 0 ==> kx == -1) && (ky < 0 ==> ky == -1)
    &&& (bind2, count2) == bind_step(s1.0, s1.1, ky)
    &&& ssa_o(op2) == bind[o]
    &&& (ssa_kind(op2) == 1 <==> kx == -1)
    &&& ((ssa_kind(op2) == 2 || ssa_kind(op2) == 3) <==> (kx >= 0 && ky == -1))
    &&& (ssa_kind(op2) == 4 <==> ky >= 0)
    &&& (kx >= 0 ==> ssa_a(op2) == bind2[kx])
    &&& (ky >= 0 ==> ssa_b(op2) == bind2[ky])
}
/// facts needed *before* the emitted op is handed to the allocator (they give `op_pre`)
proof fn lemma_pre_emit(bind: Seq<u32>, count: u32, a: Seq<u32>, ops: Seq<SsaOp>, k: int, kx: int, ky: int, op2: SsaOp, bind2: Seq<u32>, count2: u32)
    requires sinv(bind, count, a, ops, k), ssa_strict(ops), 0 <= k < ops.len(), ops.len() < 0x4000_0000,
        bind[ssa_o(ops[k])] != u32::MAX, emits(bind, count, ops[k], kx, ky, op2, bind2, count2),
    ensures
        0 <= ssa_o(op2) < ops.len(), a[ssa_o(op2)] != UNASSIGNED,
        kx >= 0 ==> 0 <= ssa_a(op2) < ops.len() && ssa_a(op2) != ssa_o(op2),
        ky >= 0 ==> 0 <= ssa_b(op2) < ops.len() && ssa_b(op2) != ssa_o(op2),
        count2 <= ops.len(), bind2.len() == ops.len(), covered(bind2, count2),
        forall|s: int| 0 <= s < ops.len() && #[trigger] bind2[s] != u32::MAX ==> bind2[s] < count2,
{
    let n = ops.len() as int;
    let op = ops[k]; let o = ssa_o(op);
    reveal(sinv);
    assert(pend(bind, ops, k, o));
    let s1 = bind_step(bind, count, kx);
    lemma_covered_step(bind, count, kx);
    lemma_covered_step(s1.0, s1.1, ky);
    lemma_count_le(bind2, count2);
    if kx >= 0 {
        if bind[kx] != u32::MAX { lemma_bound_arg_pending(bind, count, a, ops, k, kx); }
    }
    if ky >= 0 {
        if bind[ky] != u32::MAX { lemma_bound_arg_pending(bind, count, a, ops, k, ky); }
    }
}
/// active op emitted (possibly replaced by CopyReg / CopyImm) with its kept arguments renamed
proof fn lemma_tr_emit(bind: Seq<u32>, count: u32, a: Seq<u32>, ops: Seq<SsaOp>, k: int, kx: int, ky: int, op2: SsaOp, bind2: Seq<u32>, count2: u32, a2: Seq<u32>)
    requires sinv(bind, count, a, ops, k), ssa_strict(ops), 0 <= k < ops.len(), ops.len() < 0x4000_0000,
        bind[ssa_o(ops[k])] != u32::MAX, emits(bind, count, ops[k], kx, ky, op2, bind2, count2),
        a2.len() == ops.len(),
        forall|b: int| 0 <= b < ops.len() ==> ((#[trigger] a2[b] != UNASSIGNED) == new_live(op2, a[b] != UNASSIGNED, b)),
    ensures sinv(bind2, count2, a2, ops, k + 1)
{
    let n = ops.len() as int;
    let op = ops[k]; let o = ssa_o(op);
    lemma_pre_emit(bind, count, a, ops, k, kx, ky, op2, bind2, count2);
    reveal(sinv);
    assert(pend(bind, ops, k, o));
    let s1 = bind_step(bind, count, kx);
    if kx >= 0 && bind[kx] != u32::MAX { lemma_bound_arg_pending(bind, count, a, ops, k, kx); }
    if ky >= 0 && bind[ky] != u32::MAX { lemma_bound_arg_pending(bind, count, a, ops, k, ky); }
    // bind2 agrees with bind wherever bind was already set, and only kx / ky may have been set newly
    assert forall|s: int| 0 <= s < n && bind[s] != u32::MAX implies bind2[s] == bind[s] by {}
    assert forall|s: int| 0 <= s < n && s != kx && s != ky implies bind2[s] == bind[s] by {}
    assert(kx >= 0 ==> bind2[kx] != u32::MAX);
    assert(ky >= 0 ==> bind2[ky] != u32::MAX);
    assert forall|s: int| pend(bind2, ops, k + 1, s) == ((kx >= 0 && s == kx) || (ky >= 0 && s == ky) || (s != o && pend(bind, ops, k, s))) by {
        lemma_pend_step(bind2, ops, k, s);
        if 0 <= s < n && s != kx && s != ky && bind[s] != u32::MAX && uses(op, s) {
            lemma_bound_arg_pending(bind, count, a, ops, k, s);
        }
    }
    // INJ
    assert forall|s: int, t: int| #[trigger] pend(bind2, ops, k + 1, s) && #[trigger] pend(bind2, ops, k + 1, t) && s != t implies bind2[s] != bind2[t] by {
        let sn = (s == kx || s == ky) && bind[s] == u32::MAX;   // s numbered in this step
        let tn = (t == kx || t == ky) && bind[t] == u32::MAX;
        if !sn { assert(pend(bind, ops, k, s)); assert(bind2[s] == bind[s] && bind[s] < count); }
        if !tn { assert(pend(bind, ops, k, t)); assert(bind2[t] == bind[t] && bind[t] < count); }
        if sn && tn {
            // both new: kx got count (or s1.1 - 1), ky got the next number
            assert(bind2[s] != bind2[t]);
        } else if sn {
            assert(bind2[s] >= count);
        } else if tn {
            assert(bind2[t] >= count);
        }
    }
    // P3
    assert forall|b: int| 0 <= b < n implies ((#[trigger] a2[b] != UNASSIGNED) <==> exists|s: int| #[trigger] pend(bind2, ops, k + 1, s) && bind2[s] == b) by {
        if a2[b] != UNASSIGNED {
            if kx >= 0 && b == bind2[kx] { assert(pend(bind2, ops, k + 1, kx)); }
            else if ky >= 0 && b == bind2[ky] { assert(pend(bind2, ops, k + 1, ky)); }
            else {
                assert(b != bind[o] && a[b] != UNASSIGNED);
                let s0 = choose|s: int| #[trigger] pend(bind, ops, k, s) && bind[s] == b;
                assert(s0 != o);
                assert(pend(bind2, ops, k + 1, s0));
                assert(bind2[s0] == b);
            }
        }
        if exists|s: int| #[trigger] pend(bind2, ops, k + 1, s) && bind2[s] == b {
            let s1_ = choose|s: int| #[trigger] pend(bind2, ops, k + 1, s) && bind2[s] == b;
            if (kx >= 0 && s1_ == kx) || (ky >= 0 && s1_ == ky) {
            } else {
                assert(pend(bind, ops, k, s1_) && s1_ != o);
                assert(bind[s1_] == b);
                assert(a[b] != UNASSIGNED);
                assert(b != bind[o]);
            }
        }
    }
    // Q
    assert forall|s: int| 0 <= s < n && #[trigger] bind2[s] != u32::MAX && !live(ops, k + 1).contains(s)
        implies exists|j: int| 0 <= j < k + 1 && ssa_kind(#[trigger] ops[j]) >= 1 && ssa_o(ops[j]) == s by {
        lemma_live_step(ops, k, s);
        if s == o { assert(ssa_kind(ops[k]) >= 1 && ssa_o(ops[k]) == s); }
        else {
            assert(!uses(op, s));
            assert(s != kx && s != ky);
            assert(bind[s] != u32::MAX && !live(ops, k).contains(s));
            let j = choose|j: int| 0 <= j < k && ssa_kind(#[trigger] ops[j]) >= 1 && ssa_o(ops[j]) == s;
            assert(0 <= j < k + 1);
        }
    }
}
/// CopyReg / decided choice whose selected operand is not yet bound: the operand inherits the binding of the
/// destination; nothing is emitted
proof fn lemma_tr_alias(bind: Seq<u32>, count: u32, a: Seq<u32>, ops: Seq<SsaOp>, k: int, src: int)
    requires sinv(bind, count, a, ops, k), ssa_strict(ops), 0 <= k < ops.len(), ssa_kind(ops[k]) >= 2,
        uses(ops[k], src), 0 <= src < ops.len(), src != ssa_o(ops[k]),
        bind[ssa_o(ops[k])] != u32::MAX, bind[src] == u32::MAX,
    ensures sinv(bind.update(src, bind[ssa_o(ops[k])]), count, a, ops, k + 1)
{
    let n = ops.len() as int;
    let op = ops[k]; let o = ssa_o(op);
    let bind2 = bind.update(src, bind[o]);
    reveal(sinv);
    assert(pend(bind, ops, k, o));
    assert forall|s: int| pend(bind2, ops, k + 1, s) == (s == src || (s != o && pend(bind, ops, k, s))) by {
        lemma_pend_step(bind2, ops, k, s);
        if 0 <= s < n && s != src && bind[s] != u32::MAX && uses(op, s) {
            lemma_bound_arg_pending(bind, count, a, ops, k, s);
        }
    }
    assert forall|c: int| 0 <= c < count implies #[trigger] has_num(bind2, c) by {
        assert(has_num(bind, c));
        let s0 = choose|s: int| 0 <= s < bind.len() && #[trigger] bind[s] == c;
        assert(s0 != src);
        assert(bind2[s0] == c);
    }
    assert forall|s: int, t: int| #[trigger] pend(bind2, ops, k + 1, s) && #[trigger] pend(bind2, ops, k + 1, t) && s != t implies bind2[s] != bind2[t] by {
        if s != src && t != src { assert(pend(bind, ops, k, s) && pend(bind, ops, k, t)); }
        else if s == src { assert(pend(bind, ops, k, t) && t != o); }
        else { assert(pend(bind, ops, k, s) && s != o); }
    }
    assert forall|b: int| 0 <= b < n implies ((#[trigger] a[b] != UNASSIGNED) <==> exists|s: int| #[trigger] pend(bind2, ops, k + 1, s) && bind2[s] == b) by {
        if a[b] != UNASSIGNED {
            let s0 = choose|s: int| #[trigger] pend(bind, ops, k, s) && bind[s] == b;
            if s0 == o { assert(pend(bind2, ops, k + 1, src)); assert(bind2[src] == b); }
            else { assert(pend(bind2, ops, k + 1, s0)); assert(s0 != src); assert(bind2[s0] == b); }
        }
        if exists|s: int| #[trigger] pend(bind2, ops, k + 1, s) && bind2[s] == b {
            let s1 = choose|s: int| #[trigger] pend(bind2, ops, k + 1, s) && bind2[s] == b;
            if s1 == src { assert(pend(bind, ops, k, o)); assert(bind[o] == b); }
            else { assert(pend(bind, ops, k, s1)); assert(bind[s1] == b); }
        }
    }
    assert forall|s: int| 0 <= s < n && #[trigger] bind2[s] != u32::MAX && !live(ops, k + 1).contains(s)
        implies exists|j: int| 0 <= j < k + 1 && ssa_kind(#[trigger] ops[j]) >= 1 && ssa_o(ops[j]) == s by {
        lemma_live_step(ops, k, s);
        if s == o { assert(ssa_kind(ops[k]) >= 1 && ssa_o(ops[k]) == s); }
        else {
            assert(s != src);
            assert(!uses(op, s));
            assert(bind[s] != u32::MAX && !live(ops, k).contains(s));
            let j = choose|j: int| 0 <= j < k && ssa_kind(#[trigger] ops[j]) >= 1 && ssa_o(ops[j]) == s;
            assert(0 <= j < k + 1);
        }
    }
}
/// Output clause: the root is numbered (if it was not) and becomes live in the allocator
proof fn lemma_pre_output(bind: Seq<u32>, count: u32, a: Seq<u32>, ops: Seq<SsaOp>, k: int)
    requires sinv(bind, count, a, ops, k), ssa_strict(ops), 0 <= k < ops.len(), ops.len() < 0x4000_0000, ssa_kind(ops[k]) == 0,
    ensures ({
        let x = ssa_o(ops[k]);
        let (b2, c2) = bind_step(bind, count, x);
        &&& 0 <= x < ops.len() && b2[x] != u32::MAX && (b2[x] as int) < ops.len() && c2 <= ops.len() && b2.len() == ops.len()
    }),
{
    let x = ssa_o(ops[k]);
    reveal(sinv);
    lemma_covered_step(bind, count, x);
    let (b2, c2) = bind_step(bind, count, x);
    lemma_count_le(b2, c2);
}
proof fn lemma_tr_output(bind: Seq<u32>, count: u32, a: Seq<u32>, ops: Seq<SsaOp>, k: int, a2: Seq<u32>)
    requires sinv(bind, count, a, ops, k), ssa_strict(ops), 0 <= k < ops.len(), ops.len() < 0x4000_0000, ssa_kind(ops[k]) == 0,
        a2.len() == ops.len(),
        forall|b: int| 0 <= b < ops.len() ==> ((#[trigger] a2[b] != UNASSIGNED) == (b == bind_step(bind, count, ssa_o(ops[k])).0[ssa_o(ops[k])] || a[b] != UNASSIGNED)),
    ensures sinv(bind_step(bind, count, ssa_o(ops[k])).0, bind_step(bind, count, ssa_o(ops[k])).1, a2, ops, k + 1)
{
    let n = ops.len() as int;
    let x = ssa_o(ops[k]);
    let (bind2, count2) = bind_step(bind, count, x);
    lemma_pre_output(bind, count, a, ops, k);
    reveal(sinv);
    lemma_covered_step(bind, count, x);
    if bind[x] != u32::MAX { lemma_bound_arg_pending(bind, count, a, ops, k, x); }
    assert forall|s: int| pend(bind2, ops, k + 1, s) == (s == x || pend(bind, ops, k, s)) by {
        lemma_pend_step(bind2, ops, k, s);
    }
    assert forall|s: int, t: int| #[trigger] pend(bind2, ops, k + 1, s) && #[trigger] pend(bind2, ops, k + 1, t) && s != t implies bind2[s] != bind2[t] by {
        if s != x && t != x { assert(pend(bind, ops, k, s) && pend(bind, ops, k, t)); }
        else if s == x { assert(pend(bind, ops, k, t)); if bind[x] != u32::MAX { assert(pend(bind, ops, k, x)); } }
        else { assert(pend(bind, ops, k, s)); if bind[x] != u32::MAX { assert(pend(bind, ops, k, x)); } }
    }
    assert forall|b: int| 0 <= b < n implies ((#[trigger] a2[b] != UNASSIGNED) <==> exists|s: int| #[trigger] pend(bind2, ops, k + 1, s) && bind2[s] == b) by {
        if a2[b] != UNASSIGNED {
            if b == bind2[x] { assert(pend(bind2, ops, k + 1, x)); }
            else {
                let s0 = choose|s: int| #[trigger] pend(bind, ops, k, s) && bind[s] == b;
                assert(pend(bind2, ops, k + 1, s0));
                assert(bind2[s0] == b);
            }
        }
        if exists|s: int| #[trigger] pend(bind2, ops, k + 1, s) && bind2[s] == b {
            let s1 = choose|s: int| #[trigger] pend(bind2, ops, k + 1, s) && bind2[s] == b;
            if s1 != x { assert(pend(bind, ops, k, s1)); assert(bind[s1] == b); }
        }
    }
    assert forall|s: int| 0 <= s < n && #[trigger] bind2[s] != u32::MAX && !live(ops, k + 1).contains(s)
        implies exists|j: int| 0 <= j < k + 1 && ssa_kind(#[trigger] ops[j]) >= 1 && ssa_o(ops[j]) == s by {
        lemma_live_step(ops, k, s);
        assert(s != x);
        assert(bind[s] != u32::MAX && !live(ops, k).contains(s));
        let j = choose|j: int| 0 <= j < k && ssa_kind(#[trigger] ops[j]) >= 1 && ssa_o(ops[j]) == s;
        assert(0 <= j < k + 1);
    }
}
/// at the end nothing is pending: every number has had its definition emitted
proof fn lemma_sinv_end(bind: Seq<u32>, count: u32, a: Seq<u32>, ops: Seq<SsaOp>)
    requires sinv(bind, count, a, ops, ops.len() as int), ssa_strict(ops)
    ensures forall|b: int| 0 <= b < ops.len() ==> #[trigger] a[b] == UNASSIGNED
{
    reveal(sinv);
    assert forall|b: int| 0 <= b < ops.len() implies #[trigger] a[b] == UNASSIGNED by {
        if a[b] != UNASSIGNED {
            let s0 = choose|s: int| #[trigger] pend(bind, ops, ops.len() as int, s) && bind[s] == b;
            assert(live(ops, ops.len() as int).contains(s0));
        }
    }
}
// ---- LEN: number of allocator-live new indices
spec fn nlive(a: Seq<u32>, i: int) -> int
    decreases i
{
    if i <= 0 { 0 } else { nlive(a, i - 1) + if a[i - 1] != UNASSIGNED { 1int } else { 0int } }
}
proof fn lemma_nlive_bounds(a: Seq<u32>, i: int)
    requires 0 <= i <= a.len()
    ensures 0 <= nlive(a, i) <= i
    decreases i
{
    if i > 0 { lemma_nlive_bounds(a, i - 1); }
}
proof fn lemma_nlive_zero(a: Seq<u32>, i: int)
    requires 0 <= i <= a.len(), forall|b: int| 0 <= b < i ==> #[trigger] a[b] == UNASSIGNED
    ensures nlive(a, i) == 0
    decreases i
{
    if i > 0 { lemma_nlive_zero(a, i - 1); }
}
/// indicator sequences differing at up to three given positions (p removed; x, y added)
spec fn ind(a: Seq<u32>, b: int) -> int { if a[b] != UNASSIGNED { 1 } else { 0 } }
proof fn lemma_nlive_diff(a: Seq<u32>, a2: Seq<u32>, i: int, p: int, x: int, y: int)
    requires 0 <= i <= a.len(), a.len() == a2.len(),
        forall|b: int| 0 <= b < i && b != p && b != x && b != y ==> ((#[trigger] a2[b] != UNASSIGNED) == (a[b] != UNASSIGNED)),
    ensures nlive(a2, i) - nlive(a, i) ==
        (if 0 <= p < i { ind(a2, p) - ind(a, p) } else { 0 })
        + (if 0 <= x < i && x != p { ind(a2, x) - ind(a, x) } else { 0 })
        + (if 0 <= y < i && y != p && y != x { ind(a2, y) - ind(a, y) } else { 0 })
    decreases i
{
    if i > 0 { lemma_nlive_diff(a, a2, i - 1, p, x, y); }
}
'''


def is_choice_fn(enums):
    L = ['spec fn is_choice(op: SsaOp) -> bool {', '    match op {']
    for v, fs in enums['SsaOp']:
        b, form = split_variant(v)
        if form != 'special' and b in CHOICE_BASES:
            L.append('        SsaOp::%s(..) => true,' % v)
    L += ['        _ => false,', '    }', '}']
    return '\n'.join(L) + '\n'


SPECS = {
 'SsaOp::output': ('r: Option<u32>', """
        ensures ssa_kind(*self) == 0 ==> r.is_none(), ssa_kind(*self) >= 1 ==> r == Some(ssa_o(*self) as u32), 0 <= ssa_o(*self) <= u32::MAX
"""),
 'SsaOp::has_choice': ('r: bool', """
        ensures r == is_choice(*self)
"""),
 'VmWorkspace::active': ('r: Option<u32>', """
        requires (i as int) < self.bind@.len()
        ensures r == (if self.bind@[i as int] != u32::MAX { Some(self.bind@[i as int]) } else { None::<u32> })
"""),
 'VmWorkspace::get_or_insert_active': ('r: u32', """
        requires (i as int) < old(self).bind@.len(), old(self).count < u32::MAX
        ensures final(self).alloc == old(self).alloc,
            (final(self).bind@, final(self).count) == bind_step(old(self).bind@, old(self).count, i as int),
            r == final(self).bind@[i as int], r != u32::MAX || old(self).bind@[i as int] == u32::MAX,
"""),
 'VmWorkspace::set_active': (None, """
        requires (i as int) < old(self).bind@.len()
        ensures final(self).alloc == old(self).alloc, final(self).count == old(self).count,
            final(self).bind@ == old(self).bind@.update(i as int, bind),
"""),
 'VmWorkspace::reset': (None, """
        requires 3 <= N <= 255, old(self).alloc.out.tape@.len() == 0, tape_len < u32::MAX
        ensures final(self).count == 0, final(self).bind@ == Seq::new(tape_len as nat, |i: int| u32::MAX),
            final(self).alloc.fresh(tape_len as int), final(self).alloc.wf(),
"""),
 'VmData::choice_count': ('r: usize', """
        ensures r == self.ssa.choice_count
"""),
 'VmData::output_count': ('r: usize', """
        ensures r == self.ssa.output_count
"""),
 'VmData::slot_count': ('r: usize', """
        ensures r == self.asm.slot_count
"""),
 'VmData::len': ('r: usize', """
        ensures r == self.asm.tape@.len()
"""),
 'VmData::is_empty': ('r: bool', """
        ensures r == (self.asm.tape@.len() == 0)
"""),
 'VmData::simplify': ('r: Result<VmData<M>, BadChoiceSlice>', """
        requires
            3 <= M <= 255,
            old(workspace).alloc.out.tape@.len() == 0,                       // holds for Default::default() and after every simplify
            self.ssa.tape@.len() < 0x4000_0000,
            ssa_strict(self.ssa.tape@),                                       // the parent tape is well formed
            self.ssa.choice_count == cnt_choice(self.ssa.tape@, 0, self.ssa.tape@.len() as int),
            forall|k: int| 0 <= k < choices@.len() ==> !(#[trigger] choices@[k] is Unknown),   // a trace never reports Unknown
        ensures
            // S1: no panic on any path (every assert!/unwrap/panic!/index/overflow above is an obligation), and:
            r.is_ok() == (choices@.len() == self.ssa.choice_count),
            final(workspace).alloc.out.tape@.len() == 0 || !r.is_ok(),
            r.is_ok() ==> r->Ok_0.vars == self.vars,
            r.is_ok() ==> r->Ok_0.ssa.output_count == cnt_output(self.ssa.tape@, self.ssa.tape@.len() as int),
            r.is_ok() ==> r->Ok_0.ssa.choice_count <= self.ssa.choice_count,
            // S2: the result satisfies simplify's own preconditions again (chains of nested simplifications)
            r.is_ok() ==> ssa_strict(r->Ok_0.ssa.tape@) && r->Ok_0.ssa.tape@.len() <= self.ssa.tape@.len()
                && r->Ok_0.ssa.choice_count == cnt_choice(r->Ok_0.ssa.tape@, 0, r->Ok_0.ssa.tape@.len() as int),
            // S3: if the trace is valid for the parent run (every decided clause's value is the selected operand's, bit for
            // bit), the simplified SSA tape produces exactly the parent's outputs, from ANY initial environments
            r.is_ok() ==> forall|en: Env, eo: Env, o: Map<int, f32>, inp: Seq<f32>|
                #![trigger tp(self.ssa.tape@, self.ssa.tape@.len() as int, choices@, Ss { env: eo, outs: o }, inp),
                           ssa_run_rev(r->Ok_0.ssa.tape@, 0, r->Ok_0.ssa.tape@.len() as int, Ss { env: en, outs: o }, inp)]
                tp(self.ssa.tape@, self.ssa.tape@.len() as int, choices@, Ss { env: eo, outs: o }, inp)
                ==> ssa_run_rev(r->Ok_0.ssa.tape@, 0, r->Ok_0.ssa.tape@.len() as int, Ss { env: en, outs: o }, inp).outs
                    == ssa_run_rev(self.ssa.tape@, 0, self.ssa.tape@.len() as int, Ss { env: eo, outs: o }, inp).outs,
            // ... and the register tape of the simplified function (what the evaluators execute, for the NEW budget M) computes
            // exactly its SSA tape, from any initial register / memory contents
            r.is_ok() ==> forall|st: St, env: Env, inp: Seq<f32>|
                (#[trigger] reg_run_rev(r->Ok_0.asm.tape@, 0, r->Ok_0.asm.tape@.len() as int, st, inp)).outs
                    == (#[trigger] ssa_run_rev(r->Ok_0.ssa.tape@, 0, r->Ok_0.ssa.tape@.len() as int, Ss { env: env, outs: st.outs }, inp)).outs,
"""),
}

LOOP_INV = """            invariant
                3 <= M <= 255,
                k_ <= n, ops == self.ssa.tape@, n == ops.len(), n < 0x4000_0000,
                workspace.bind@.len() == n,
                workspace.alloc.wf(), workspace.alloc.allocations@.len() == n,
                choice_k_ == cnt_choice(ops, k_ as int, n), choice_k_ <= choices@.len(),
                choice_k_ + choice_count <= self.ssa.choice_count, choices@.len() == self.ssa.choice_count,
                output_count == cnt_output(ops, k_ as int), output_count <= k_,
                ssa_strict(ops),
                sinv(workspace.bind@, workspace.count, workspace.alloc.allocations@, ops, k_ as int),
                ops_out@.len() + nlive(workspace.alloc.allocations@, n) == output_count + workspace.count,
                ssim(workspace.bind@, ops, k_ as int, ops_out@, choices@),
                a0_.len() == n, forall|s: int| 0 <= s < n ==> #[trigger] a0_[s] == UNASSIGNED,
                s2inv(ops_out@, workspace.alloc.allocations@, workspace.count, n),
                ops_out@.len() <= k_, choice_count == cnt_choice(ops_out@, 0, ops_out@.len() as int),
                simf(workspace.alloc.allocations@, a0_, workspace.alloc.out.tape@, 0, workspace.alloc.out.tape@.len() as int,
                     run_fe(ops_out@, ops_out@.len() as int), run_fo(ops_out@, ops_out@.len() as int)),
                forall|k: int| 0 <= k < choices@.len() ==> !(#[trigger] choices@[k] is Unknown),
            decreases self.ssa.tape.len() - k_"""

TAIL_PROOF_PRE = """            proof {
                // ---- the op handed to the allocator is the renaming of op0 with kept arguments kx_, ky_
                assert(emits(w0.bind@, w0.count, op0, kx_, ky_, op, workspace.bind@, workspace.count));
                lemma_pre_emit(w0.bind@, w0.count, w0.alloc.allocations@, ops, k0, kx_, ky_, op, workspace.bind@, workspace.count);
                assert(workspace.alloc.op_pre(op));
                // S3: the emitted op computes the original op's value from the renamed kept arguments
                assert(is_choice(op0) ==> cidx(ops, k0) == choice_k_ as int);
                assert(sem_ok(ops, k0, choices@, kx_, ky_, op, w0.bind@[ssa_o(op0)] as int,
                              if kx_ >= 0 { workspace.bind@[kx_] as int } else { -1 }, if ky_ >= 0 { workspace.bind@[ky_] as int } else { -1 }));
                lemma_ssim_emit(w0.bind@, w0.count, w0.alloc.allocations@, ops, k0, kx_, ky_, op, workspace.bind@, workspace.count, out0, choices@);
            }
            let ghost a_before = workspace.alloc.allocations@;"""
TAIL_PROOF_POST = """            proof {
                let a_after = workspace.alloc.allocations@;
                lemma_tr_emit(w0.bind@, w0.count, a_before, ops, k0, kx_, ky_, op, workspace.bind@, workspace.count, a_after);
                // LEN: one more op; the output's number leaves the allocator's live set, newly numbered arguments enter it
                lemma_nlive_diff(a_before, a_after, n, ssa_o(op), if kx_ >= 0 { ssa_a(op) } else { -1 }, if ky_ >= 0 { ssa_b(op) } else { -1 });
                lemma_tail_len(w0.bind@, w0.count, a_before, ops, k0, kx_, ky_, op, workspace.bind@, workspace.count, a_after);
                lemma_asm_step(a_after, a_before, a0_, w0.alloc.out.tape@, workspace.alloc.out.tape@, out0, op);
                lemma_s2_emit(w0.bind@, w0.count, a_before, ops, k0, kx_, ky_, op, workspace.bind@, workspace.count);
                lemma_s2_push(out0, a_before, w0.count, op, a_after, workspace.count, n);
                lemma_cnt_choice_push(out0, op, 0);
                assert(is_choice(op) == (choice_count == cc0_ + 1) && (choice_count == cc0_ || choice_count == cc0_ + 1));
            }"""


def generate(sem, enums, names):
    """names: SSA variant names of the arms of the big match (after R-orpat), in source order."""
    proofs = []   # (qual, anchor, occ, before, text)
    replace = []
    Q = 'VmData::simplify'
    kinds = {}
    for nm in names:
        if nm == 'Output':
            kinds[nm] = 'unreachable'
            continue
        b, form = split_variant(nm)
        if nm in ('Input', 'CopyImm'):
            kinds[nm] = 'def0'
        elif nm == 'CopyReg':
            kinds[nm] = 'copy'
        elif b in CHOICE_BASES and form == 'RegImm':
            kinds[nm] = 'choice_ri'
        elif b in CHOICE_BASES and form == 'RegReg':
            kinds[nm] = 'choice_rr'
        elif form in ('Reg', 'RegImm', 'ImmReg'):
            kinds[nm] = 'emit1'
        elif form == 'RegReg':
            kinds[nm] = 'emit2'
        else:
            raise ExtractError('simplify spec: arm %s has no proof scheme' % nm)
    # --- before the loop
    proofs.append((Q, 'let mut k_: usize = 0;', 0, False, """        let ghost ops = self.ssa.tape@;
        let ghost n = ops.len() as int;
        let ghost mut kx_: int = -1;
        let ghost mut ky_: int = -1;
        proof {
            lemma_cnt_choice_bounds(ops, 0, n);
            lemma_sinv_init(ops);
            assert(workspace.bind@ =~= Seq::new(ops.len(), |i: int| u32::MAX));
            assert(workspace.alloc.allocations@ =~= Seq::new(ops.len(), |i: int| UNASSIGNED));
            lemma_nlive_zero(workspace.alloc.allocations@, n);
            workspace.alloc.lemma_fresh_wf(n);
            assert(ops_out@ =~= Seq::<SsaOp>::empty());
            lemma_ssim_init(workspace.bind@, ops, choices@);
            lemma_sim_start(workspace.alloc.allocations@, workspace.alloc.out.tape@, ops_out@);
            lemma_s2_init(workspace.alloc.allocations@, n);
        }
        let ghost a0_ = workspace.alloc.allocations@;"""))
    proofs.append((Q, 'k_ += 1;', 0, True, """            proof {
                assert(ops[k_ as int] == op);
                lemma_cnt_choice_step(ops, k_ as int, n);
                lemma_cnt_choice_bounds(ops, k_ as int + 1, n);
                assert(is_choice(op) ==> choice_k_ > 0);
                lemma_sinv_facts(workspace.bind@, workspace.count, workspace.alloc.allocations@, ops, k_ as int);
                kx_ = -1; ky_ = -1;
            }
            let ghost op0 = op;
            let ghost k0 = k_ as int;
            let ghost w0 = *workspace;
            let ghost out0 = ops_out@;
            let ghost cc0_ = choice_count;"""))
    # --- Output arm (first match)
    proofs.append((Q, '*reg = workspace.get_or_insert_active(*reg);', 0, True, """                    proof { lemma_pre_output(w0.bind@, w0.count, w0.alloc.allocations@, ops, k0); }"""))
    proofs.append((Q, '*reg = workspace.get_or_insert_active(*reg);', 0, False, """                    proof {
                        assert(ssa_kind(op) == 0 && ssa_o(op) == workspace.bind@[ssa_o(op0)]);
                        assert(workspace.alloc.op_pre(op));
                    }
                    let ghost a_before = workspace.alloc.allocations@;"""))
    proofs.append((Q, 'workspace.alloc.op(op);', 0, False, """                    proof {
                        let a_after = workspace.alloc.allocations@;
                        lemma_tr_output(w0.bind@, w0.count, a_before, ops, k0, a_after);
                        lemma_ssim_output(w0.bind@, w0.count, a_before, ops, k0, op, out0, choices@);
                        lemma_asm_step(a_after, a_before, a0_, w0.alloc.out.tape@, workspace.alloc.out.tape@, out0, op);
                        lemma_nlive_diff(a_before, a_after, n, ssa_o(op), -1, -1);
                        lemma_s2_output(w0.bind@, w0.count, a_before, ops, k0, op);
                        lemma_s2_push(out0, a_before, w0.count, op, a_after, workspace.count, n);
                        lemma_cnt_choice_push(out0, op, 0);
                        if w0.bind@[ssa_o(op0)] != u32::MAX {
                            lemma_bound_arg_pending(w0.bind@, w0.count, a_before, ops, k0, ssa_o(op0));
                            lemma_pend_live(w0.bind@, w0.count, a_before, ops, k0, ssa_o(op0));
                        } else {
                            lemma_fresh_dead(w0.bind@, w0.count, a_before, ops, k0);
                        }
                    }"""))
    # --- inactive path
    proofs.append((Q, 'if workspace.active(index).is_none() {', 0, True, """            proof { assert(index as int == ssa_o(op0) && 0 <= ssa_o(op0) < n); }"""))
    # the `continue` of the inactive path is the first `continue;` after `if op.has_choice()`
    proofs.append((Q, "                continue;\n            }\n\n", 0, True, """                proof {
                    lemma_tr_skip(w0.bind@, w0.count, w0.alloc.allocations@, ops, k0);
                    lemma_ssim_skip(w0.bind@, w0.count, w0.alloc.allocations@, ops, k0, out0, choices@);
                }"""))
    proofs.append((Q, 'let new_index = workspace.active(index).unwrap();', 0, False, """            proof { assert(new_index == w0.bind@[ssa_o(op0)] && new_index != u32::MAX); }"""))
    # --- arms
    ri = 0
    rr = 0
    for nm in names:
        kd = kinds[nm]
        if kd in ('emit1',):
            pass
    # per-arm ghost assignments go at the end of simple arms; anchors are occurrence-indexed in source order
    occ_emit1 = 0
    occ_emit2 = 0
    e1_anchor = '*arg = workspace.get_or_insert_active(*arg);'
    e2_anchor = '*rhs = workspace.get_or_insert_active(*rhs);'
    both_ri = 0
    for nm in names:
        kd = kinds[nm]
        if kd == 'emit1':
            proofs.append((Q, e1_anchor, occ_emit1, False, "                    proof { kx_ = ssa_a(op0); }"))
            occ_emit1 += 1
        elif kd == 'choice_ri':
            # Both branch uses the same statement text as emit1 arms
            proofs.append((Q, e1_anchor, occ_emit1, False, "                            proof { kx_ = ssa_a(op0); }"))
            occ_emit1 += 1
        elif kd == 'emit2':
            proofs.append((Q, e2_anchor, occ_emit2, False, "                    proof { kx_ = ssa_a(op0); ky_ = ssa_b(op0); }"))
            occ_emit2 += 1
        elif kd == 'choice_rr':
            proofs.append((Q, e2_anchor, occ_emit2, False, "                            proof { kx_ = ssa_a(op0); ky_ = ssa_b(op0); }"))
            occ_emit2 += 1
    # CopyReg arm
    proofs.append((Q, '*src = new_src;', 0, False, "                            proof { kx_ = ssa_a(op0); }"))
    proofs.append((Q, 'workspace.set_active(*src, new_index);', 0, False,
                   """                            proof {
                                lemma_tr_alias(w0.bind@, w0.count, w0.alloc.allocations@, ops, k0, ssa_a(op0));
                                assert(selects(ops, k0, choices@, ssa_a(op0)));
                                lemma_ssim_alias(w0.bind@, w0.count, w0.alloc.allocations@, ops, k0, ssa_a(op0), out0, choices@);
                            }"""))
    # choice reg/imm arms: 4 arms, each has one of these statements
    n_ri = sum(1 for nm in names if kinds[nm] == 'choice_ri')
    n_rr = sum(1 for nm in names if kinds[nm] == 'choice_rr')
    for j in range(n_ri):
        proofs.append((Q, 'op = SsaOp::CopyReg(new_index, new_arg);', j, False, "                                proof { kx_ = ssa_a(op0); }"))
        proofs.append((Q, 'workspace.set_active(*arg, new_index);', j, False,
                       """                                proof {
                                    lemma_tr_alias(w0.bind@, w0.count, w0.alloc.allocations@, ops, k0, ssa_a(op0));
                                    assert(cidx(ops, k0) == choice_k_ as int);
                                    assert(selects(ops, k0, choices@, ssa_a(op0)));
                                    lemma_ssim_alias(w0.bind@, w0.count, w0.alloc.allocations@, ops, k0, ssa_a(op0), out0, choices@);
                                }"""))
    for j in range(n_rr):
        proofs.append((Q, 'op = SsaOp::CopyReg(new_index, new_lhs);', j, False, "                                proof { kx_ = ssa_a(op0); }"))
        proofs.append((Q, 'workspace.set_active(*lhs, new_index);', j, False,
                       """                                proof {
                                    lemma_tr_alias(w0.bind@, w0.count, w0.alloc.allocations@, ops, k0, ssa_a(op0));
                                    assert(cidx(ops, k0) == choice_k_ as int);
                                    assert(selects(ops, k0, choices@, ssa_a(op0)));
                                    lemma_ssim_alias(w0.bind@, w0.count, w0.alloc.allocations@, ops, k0, ssa_a(op0), out0, choices@);
                                }"""))
        proofs.append((Q, 'op = SsaOp::CopyReg(new_index, new_rhs);', j, False, "                                proof { kx_ = ssa_b(op0); }"))
        proofs.append((Q, 'workspace.set_active(*rhs, new_index);', j, False,
                       """                                proof {
                                    lemma_tr_alias(w0.bind@, w0.count, w0.alloc.allocations@, ops, k0, ssa_b(op0));
                                    assert(cidx(ops, k0) == choice_k_ as int);
                                    assert(selects(ops, k0, choices@, ssa_b(op0)));
                                    lemma_ssim_alias(w0.bind@, w0.count, w0.alloc.allocations@, ops, k0, ssa_b(op0), out0, choices@);
                                }"""))
    # --- common tail: the last `workspace.alloc.op(op);` of the function (occurrence 1; 0 is in the Output arm)
    proofs.append((Q, '            workspace.alloc.op(op);\n            ops_out.push(op);', 0, True, TAIL_PROOF_PRE))
    proofs.append((Q, '            workspace.alloc.op(op);\n            ops_out.push(op);', 0, False, None))  # placeholder replaced below
    # --- after the loop
    proofs.append((Q, 'assert!(workspace.count as usize + output_count == ops_out.len());', 0, True, """        proof {
            lemma_sinv_facts(workspace.bind@, workspace.count, workspace.alloc.allocations@, ops, n);
            lemma_sinv_end(workspace.bind@, workspace.count, workspace.alloc.allocations@, ops);
            lemma_nlive_zero(workspace.alloc.allocations@, n);
            lemma_cnt_choice_bounds(ops, 0, n);
            lemma_ssim_end(workspace.bind@, ops, ops_out@, choices@);
            lemma_asm_end(workspace.alloc.allocations@, a0_, workspace.alloc.out.tape@, ops_out@);
            lemma_s2_end(ops_out@, workspace.alloc.allocations@, workspace.count, n);
        }"""))
    # fix the placeholder: proof after `workspace.alloc.op(op);` at the tail = before `ops_out.push(op);` (second occurrence)
    proofs = [p for p in proofs if p[4] is not None]
    proofs.append((Q, '            ops_out.push(op);\n        }', 0, True, TAIL_PROOF_POST))
    proofs.append(('VmWorkspace::reset', 'self.bind.fill(u32::MAX);', 0, False, """        let ghost b1 = self.bind@;
        proof { assert forall|i: int| 0 <= i < b1.len() implies b1[i] == u32::MAX by { assert(cloned(u32::MAX, b1[i])); } }"""))
    proofs.append(('VmWorkspace::reset', 'self.bind.resize(tape_len, u32::MAX);', 0, False, """        proof {
            assert forall|i: int| 0 <= i < tape_len implies self.bind@[i] == u32::MAX by {
                if i < b1.len() { assert(self.bind@[i] == b1[i]); }
            }
            assert(self.bind@ =~= Seq::new(tape_len as nat, |i: int| u32::MAX));
        }"""))
    loops = [(Q, 'while k_ < self.ssa.tape.len()', LOOP_INV)]
    prelude = is_choice_fn(enums) + rhs_val_fn(enums) + PRELUDE + EXTRA_LEMMAS + S3_PRELUDE
    # groups: Output+def0+copy | emit1 (split in chunks) | emit2 | choice_ri | choice_rr
    groups = []
    by = {}
    for nm in names:
        by.setdefault(kinds[nm], []).append(nm)
    groups.append(by.get('unreachable', []) + by.get('def0', []) + by.get('copy', []))
    e1 = by.get('emit1', [])
    for i in range(0, len(e1), 11):
        groups.append(e1[i:i + 11])
    groups.append(by.get('emit2', []))
    for nm in by.get('choice_ri', []):
        groups.append([nm])
    for nm in by.get('choice_rr', []):
        groups.append([nm])
    return {'replace': replace, 'proofs': proofs, 'loops': loops, 'specs': SPECS, 'prelude': prelude, 'groups': [g for g in groups if g], 'rlimit': 30}


EXTRA_LEMMAS = r'''
/// a pending slot's number is live in the allocator
proof fn lemma_pend_live(bind: Seq<u32>, count: u32, a: Seq<u32>, ops: Seq<SsaOp>, k: int, s: int)
    requires sinv(bind, count, a, ops, k), pend(bind, ops, k, s)
    ensures a[bind[s] as int] != UNASSIGNED, (bind[s] as int) < ops.len()
{
    reveal(sinv);
}
/// the next fresh number is not live in the allocator
proof fn lemma_fresh_dead(bind: Seq<u32>, count: u32, a: Seq<u32>, ops: Seq<SsaOp>, k: int)
    requires sinv(bind, count, a, ops, k)
    ensures forall|b: int| count <= b < ops.len() ==> #[trigger] a[b] == UNASSIGNED
{
    reveal(sinv);
    assert forall|b: int| count <= b < ops.len() implies #[trigger] a[b] == UNASSIGNED by {
        if a[b] != UNASSIGNED {
            let s0 = choose|s: int| #[trigger] pend(bind, ops, k, s) && bind[s] == b;
            assert(bind[s0] < count);
        }
    }
}
/// LEN step for an emitted op: len+1, count grows by the newly numbered kept arguments, the allocator's live set
/// loses the output's number and gains exactly the newly numbered ones
proof fn lemma_tail_len(bind: Seq<u32>, count: u32, a: Seq<u32>, ops: Seq<SsaOp>, k: int, kx: int, ky: int, op2: SsaOp, bind2: Seq<u32>, count2: u32, a2: Seq<u32>)
    requires sinv(bind, count, a, ops, k), ssa_strict(ops), 0 <= k < ops.len(), ops.len() < 0x4000_0000,
        bind.len() == ops.len(), bind[ssa_o(ops[k])] != u32::MAX, emits(bind, count, ops[k], kx, ky, op2, bind2, count2),
        a2.len() == ops.len(), a.len() == ops.len(),
        forall|b: int| 0 <= b < ops.len() ==> ((#[trigger] a2[b] != UNASSIGNED) == new_live(op2, a[b] != UNASSIGNED, b)),
        nlive(a2, ops.len() as int) - nlive(a, ops.len() as int) ==
            (ind(a2, ssa_o(op2)) - ind(a, ssa_o(op2)))
            + (if kx >= 0 && ssa_a(op2) != ssa_o(op2) { ind(a2, ssa_a(op2)) - ind(a, ssa_a(op2)) } else { 0 })
            + (if ky >= 0 && ssa_b(op2) != ssa_o(op2) && ssa_b(op2) != ssa_a(op2) { ind(a2, ssa_b(op2)) - ind(a, ssa_b(op2)) } else { 0 }),
    ensures nlive(a2, ops.len() as int) + 1 - (count2 - count) == nlive(a, ops.len() as int)
{
    let n = ops.len() as int;
    lemma_pre_emit(bind, count, a, ops, k, kx, ky, op2, bind2, count2);
    lemma_fresh_dead(bind, count, a, ops, k);
    lemma_sinv_facts(bind, count, a, ops, k);
    let o = ssa_o(ops[k]);
    let o2 = ssa_o(op2);
    let s1 = bind_step(bind, count, kx);
    assert(a[o2] != UNASSIGNED);
    assert(a2[o2] == UNASSIGNED);
    assert(ind(a2, o2) - ind(a, o2) == -1);
    if kx >= 0 {
        let aa = ssa_a(op2);
        assert(a2[aa] != UNASSIGNED);
        if bind[kx] != u32::MAX {
            lemma_bound_arg_pending(bind, count, a, ops, k, kx);
            lemma_pend_live(bind, count, a, ops, k, kx);
            assert(aa == bind[kx]);
            assert(ind(a2, aa) - ind(a, aa) == 0);
            assert(s1.1 == count);
        } else {
            assert(aa == count);
            assert(a[aa] == UNASSIGNED);
            assert(ind(a2, aa) - ind(a, aa) == 1);
            assert(s1.1 == count + 1);
        }
        if ky >= 0 {
            let bb = ssa_b(op2);
            assert(a2[bb] != UNASSIGNED);
            if s1.0[ky] != u32::MAX {
                assert(count2 == s1.1);
                if bb != aa {
                    // ky was bound before this step (it is not kx's fresh number)
                    assert(bind[ky] != u32::MAX);
                    lemma_bound_arg_pending(bind, count, a, ops, k, ky);
                    lemma_pend_live(bind, count, a, ops, k, ky);
                    assert(ind(a2, bb) - ind(a, bb) == 0);
                }
            } else {
                assert(bb == s1.1);
                assert(count2 == s1.1 + 1);
                assert(bb != aa);
                assert(a[bb] == UNASSIGNED);
                assert(ind(a2, bb) - ind(a, bb) == 1);
            }
        } else {
            assert(count2 == s1.1);
        }
    } else {
        assert(count2 == count);
    }
}
'''


# ================================================================================================
# S3: value preservation on the traced domain (SSA level)
#
#   trace valid for the parent run (tp)  ==>  the simplified SSA tape and the parent SSA tape produce the same
#   outputs (as terms over the uninterpreted per-opcode functions, i.e. bit for bit), from any initial state.

def rhs_val_fn(enums):
    L = ['/// value of the right-hand operand of a (choice) clause: second register, or the immediate',
         'spec fn rhs_val(op: SsaOp, e: Env) -> f32 {', '    match op {']
    for v, fs in enums['SsaOp']:
        if fs == ['u32', 'u32', 'u32']:
            L.append('        SsaOp::%s(_, _, b) => e[b as int],' % v)
        elif fs == ['u32', 'u32', 'f32']:
            L.append('        SsaOp::%s(_, _, imm) => imm,' % v)
    L += ['        _ => e[ssa_a(op)],', '    }', '}',
          'spec fn out_idx(op: SsaOp) -> int {', '    match op {', '        SsaOp::Output(_, i) => i as int,', '        _ => -1,', '    }', '}']
    return '\n'.join(L) + '\n'


S3_PRELUDE = r'''
spec fn sel_val(op: SsaOp, c: Choice, e: Env) -> f32 {
    if c is Left { e[ssa_a(op)] } else { rhs_val(op, e) }
}
/// index into the trace of clause j: choices are recorded in evaluation order, i.e. from the END of the list
spec fn cidx(ops: Seq<SsaOp>, j: int) -> int { cnt_choice(ops, j + 1, ops.len() as int) }
/// the trace entry of clause j is valid in state s (the state in which op j is evaluated): a decided clause's
/// value is, bit for bit, the selected operand's (this is what the Kani harnesses prove of every *_choice function)
spec fn clause_ok(ops: Seq<SsaOp>, j: int, choices: Seq<Choice>, s: Ss, inp: Seq<f32>) -> bool {
    let op = ops[j];
    let c = choices[cidx(ops, j)];
    (is_choice(op) && !(c is Both)) ==> ssa_step(op, s, inp).env[ssa_o(op)] == sel_val(op, c, s.env)
}
/// trace_ok for the clauses among ops[0..k), running from state s (the state before ops[k-1] is evaluated)
spec fn tp(ops: Seq<SsaOp>, k: int, choices: Seq<Choice>, s: Ss, inp: Seq<f32>) -> bool
    decreases k
{
    if k <= 0 { true } else {
        clause_ok(ops, k - 1, choices, s, inp) && tp(ops, k - 1, choices, ssa_step(ops[k - 1], s, inp), inp)
    }
}
spec fn rel(bind: Seq<u32>, ops: Seq<SsaOp>, k: int, en: Env, eo: Env) -> bool {
    forall|s: int| #[trigger] pend(bind, ops, k, s) ==> en[bind[s] as int] == eo[s]
}
#[verifier::opaque]
spec fn ssim(bind: Seq<u32>, ops: Seq<SsaOp>, k: int, out: Seq<SsaOp>, choices: Seq<Choice>) -> bool {
    forall|sn: Ss, so: Ss, inp: Seq<f32>| #![trigger rel(bind, ops, k, sn.env, so.env), tp(ops, k, choices, so, inp)]
        rel(bind, ops, k, sn.env, so.env) && sn.outs == so.outs && tp(ops, k, choices, so, inp)
        ==> ssa_run_rev(out, 0, out.len() as int, sn, inp).outs == ssa_run_rev(ops, 0, k, so, inp).outs
}
proof fn lemma_ssa_run_ext(a: Seq<SsaOp>, b: Seq<SsaOp>, lo: int, hi: int, s: Ss, inp: Seq<f32>)
    requires 0 <= lo <= hi <= a.len(), hi <= b.len(), forall|k: int| lo <= k < hi ==> a[k] == b[k]
    ensures ssa_run_rev(a, lo, hi, s, inp) == ssa_run_rev(b, lo, hi, s, inp)
    decreases hi - lo
{
    if hi > lo { lemma_ssa_run_ext(a, b, lo, hi - 1, ssa_step(a[hi - 1], s, inp), inp); }
}
/// a defining op writes only its output slot and leaves the outputs alone
proof fn lemma_sstep_frame(op: SsaOp, s: Ss, inp: Seq<f32>, t: int)
    requires ssa_kind(op) >= 1, t != ssa_o(op)
    ensures ssa_step(op, s, inp).env[t] == s.env[t]
{}
proof fn lemma_sstep_outs(op: SsaOp, s: Ss, inp: Seq<f32>)
    requires ssa_kind(op) >= 1
    ensures ssa_step(op, s, inp).outs == s.outs
{}
proof fn lemma_sstep_output(op: SsaOp, s: Ss, inp: Seq<f32>)
    requires ssa_kind(op) == 0
    ensures ssa_step(op, s, inp).env == s.env, ssa_step(op, s, inp).outs == s.outs.insert(out_idx(op), s.env[ssa_o(op)])
{}
proof fn lemma_ssim_init(bind: Seq<u32>, ops: Seq<SsaOp>, choices: Seq<Choice>)
    ensures ssim(bind, ops, 0, Seq::<SsaOp>::empty(), choices)
{
    reveal(ssim);
}
/// which slots are pending after an emitting step (shared by the structural and the semantic transition lemmas)
proof fn lemma_pend2_char(bind: Seq<u32>, count: u32, a: Seq<u32>, ops: Seq<SsaOp>, k: int, kx: int, ky: int, op2: SsaOp, bind2: Seq<u32>, count2: u32)
    requires sinv(bind, count, a, ops, k), ssa_strict(ops), 0 <= k < ops.len(), ops.len() < 0x4000_0000,
        bind[ssa_o(ops[k])] != u32::MAX, emits(bind, count, ops[k], kx, ky, op2, bind2, count2),
    ensures
        forall|s: int| #![trigger pend(bind2, ops, k + 1, s)] pend(bind2, ops, k + 1, s) == ((kx >= 0 && s == kx) || (ky >= 0 && s == ky) || (s != ssa_o(ops[k]) && pend(bind, ops, k, s))),
        forall|s: int| 0 <= s < ops.len() && #[trigger] bind[s] != u32::MAX ==> bind2[s] == bind[s],
        pend(bind, ops, k, ssa_o(ops[k])),
        forall|s: int| #[trigger] pend(bind, ops, k, s) && s != ssa_o(ops[k]) ==> bind[s] != bind[ssa_o(ops[k])],
        bind2.len() == ops.len(),
{
    let n = ops.len() as int;
    let op = ops[k]; let o = ssa_o(op);
    lemma_pre_emit(bind, count, a, ops, k, kx, ky, op2, bind2, count2);
    reveal(sinv);
    assert(pend(bind, ops, k, o));
    assert forall|s: int| 0 <= s < n && bind[s] != u32::MAX implies bind2[s] == bind[s] by {}
    assert forall|s: int| 0 <= s < n && s != kx && s != ky implies bind2[s] == bind[s] by {}
    assert forall|s: int| pend(bind2, ops, k + 1, s) == ((kx >= 0 && s == kx) || (ky >= 0 && s == ky) || (s != o && pend(bind, ops, k, s))) by {
        lemma_pend_step(bind2, ops, k, s);
        if 0 <= s < n && s != kx && s != ky && bind[s] != u32::MAX && uses(op, s) {
            lemma_bound_arg_pending(bind, count, a, ops, k, s);
        }
        if kx >= 0 && s == kx && bind[kx] != u32::MAX { lemma_bound_arg_pending(bind, count, a, ops, k, kx); }
        if ky >= 0 && s == ky && bind[ky] != u32::MAX { lemma_bound_arg_pending(bind, count, a, ops, k, ky); }
    }
}
proof fn lemma_ssim_skip(bind: Seq<u32>, count: u32, a: Seq<u32>, ops: Seq<SsaOp>, k: int, out: Seq<SsaOp>, choices: Seq<Choice>)
    requires sinv(bind, count, a, ops, k), ssa_strict(ops), 0 <= k < ops.len(), ssa_kind(ops[k]) >= 1, bind[ssa_o(ops[k])] == u32::MAX,
        ssim(bind, ops, k, out, choices),
    ensures ssim(bind, ops, k + 1, out, choices)
{
    reveal(ssim);
    let op = ops[k]; let o = ssa_o(op);
    lemma_sinv_facts(bind, count, a, ops, k);
    assert forall|sn: Ss, so: Ss, inp: Seq<f32>| #![trigger rel(bind, ops, k + 1, sn.env, so.env), tp(ops, k + 1, choices, so, inp)]
        rel(bind, ops, k + 1, sn.env, so.env) && sn.outs == so.outs && tp(ops, k + 1, choices, so, inp)
        implies ssa_run_rev(out, 0, out.len() as int, sn, inp).outs == ssa_run_rev(ops, 0, k + 1, so, inp).outs by {
        let so2 = ssa_step(op, so, inp);
        assert(tp(ops, k, choices, so2, inp));
        assert(rel(bind, ops, k, sn.env, so2.env)) by {
            assert forall|s: int| #[trigger] pend(bind, ops, k, s) implies sn.env[bind[s] as int] == so2.env[s] by {
                lemma_live_step(ops, k, s);
                assert(s != o);
                assert(pend(bind, ops, k + 1, s));
                lemma_sstep_frame(op, so, inp, s);
            }
        }
        lemma_sstep_outs(op, so, inp);
        assert(ssa_run_rev(ops, 0, k + 1, so, inp) == ssa_run_rev(ops, 0, k, so2, inp));
    }
}
/// under the clause's trace condition the original op's value is the value of slot `src`
spec fn selects(ops: Seq<SsaOp>, k: int, choices: Seq<Choice>, src: int) -> bool {
    forall|so: Ss, inp: Seq<f32>| #![trigger ssa_step(ops[k], so, inp)]
        clause_ok(ops, k, choices, so, inp) ==> ssa_step(ops[k], so, inp).env[ssa_o(ops[k])] == so.env[src]
}
proof fn lemma_ssim_alias(bind: Seq<u32>, count: u32, a: Seq<u32>, ops: Seq<SsaOp>, k: int, src: int, out: Seq<SsaOp>, choices: Seq<Choice>)
    requires sinv(bind, count, a, ops, k), ssa_strict(ops), 0 <= k < ops.len(), ssa_kind(ops[k]) >= 2,
        uses(ops[k], src), 0 <= src < ops.len(), src != ssa_o(ops[k]),
        bind[ssa_o(ops[k])] != u32::MAX, bind[src] == u32::MAX,
        selects(ops, k, choices, src), ssim(bind, ops, k, out, choices),
    ensures ssim(bind.update(src, bind[ssa_o(ops[k])]), ops, k + 1, out, choices)
{
    reveal(ssim);
    let n = ops.len() as int;
    let op = ops[k]; let o = ssa_o(op);
    let bind2 = bind.update(src, bind[o]);
    lemma_sinv_facts(bind, count, a, ops, k);
    assert(pend(bind, ops, k, o)) by { reveal(sinv); }
    assert forall|s: int| pend(bind2, ops, k + 1, s) == (s == src || (s != o && pend(bind, ops, k, s))) by {
        lemma_pend_step(bind2, ops, k, s);
        if 0 <= s < n && s != src && bind[s] != u32::MAX && uses(op, s) {
            lemma_bound_arg_pending(bind, count, a, ops, k, s);
        }
    }
    assert forall|sn: Ss, so: Ss, inp: Seq<f32>| #![trigger rel(bind2, ops, k + 1, sn.env, so.env), tp(ops, k + 1, choices, so, inp)]
        rel(bind2, ops, k + 1, sn.env, so.env) && sn.outs == so.outs && tp(ops, k + 1, choices, so, inp)
        implies ssa_run_rev(out, 0, out.len() as int, sn, inp).outs == ssa_run_rev(ops, 0, k + 1, so, inp).outs by {
        let so2 = ssa_step(op, so, inp);
        assert(clause_ok(ops, k, choices, so, inp) && tp(ops, k, choices, so2, inp));
        assert(pend(bind2, ops, k + 1, src));
        assert(sn.env[bind2[src] as int] == so.env[src]);
        assert(rel(bind, ops, k, sn.env, so2.env)) by {
            assert forall|s: int| #[trigger] pend(bind, ops, k, s) implies sn.env[bind[s] as int] == so2.env[s] by {
                if s == o {
                    assert(so2.env[o] == so.env[src]);
                } else {
                    assert(s != src);
                    assert(pend(bind2, ops, k + 1, s));
                    assert(bind2[s] == bind[s]);
                    lemma_sstep_frame(op, so, inp, s);
                }
            }
        }
        lemma_sstep_outs(op, so, inp);
        assert(ssa_run_rev(ops, 0, k + 1, so, inp) == ssa_run_rev(ops, 0, k, so2, inp));
    }
}
/// the emitted op computes, from its renamed kept arguments, the value the original op defines (given the clause's
/// trace condition when the op was replaced by a copy of the selected operand)
spec fn sem_ok(ops: Seq<SsaOp>, k: int, choices: Seq<Choice>, kx: int, ky: int, op2: SsaOp, bo: int, ax: int, bx: int) -> bool {
    forall|sn: Ss, so: Ss, inp: Seq<f32>| #![trigger ssa_step(op2, sn, inp), ssa_step(ops[k], so, inp)]
        (kx >= 0 ==> sn.env[ax] == so.env[kx]) && (ky >= 0 ==> sn.env[bx] == so.env[ky]) && clause_ok(ops, k, choices, so, inp)
        ==> ssa_step(op2, sn, inp).env[bo] == ssa_step(ops[k], so, inp).env[ssa_o(ops[k])]
}
proof fn lemma_ssim_emit(bind: Seq<u32>, count: u32, a: Seq<u32>, ops: Seq<SsaOp>, k: int, kx: int, ky: int, op2: SsaOp, bind2: Seq<u32>, count2: u32,
                         out: Seq<SsaOp>, choices: Seq<Choice>)
    requires sinv(bind, count, a, ops, k), ssa_strict(ops), 0 <= k < ops.len(), ops.len() < 0x4000_0000,
        bind[ssa_o(ops[k])] != u32::MAX, emits(bind, count, ops[k], kx, ky, op2, bind2, count2),
        sem_ok(ops, k, choices, kx, ky, op2, bind[ssa_o(ops[k])] as int, if kx >= 0 { bind2[kx] as int } else { -1 }, if ky >= 0 { bind2[ky] as int } else { -1 }),
        ssim(bind, ops, k, out, choices),
    ensures ssim(bind2, ops, k + 1, out.push(op2), choices)
{
    reveal(ssim);
    let n = ops.len() as int;
    let op = ops[k]; let o = ssa_o(op);
    let out2 = out.push(op2);
    let m = out.len() as int;
    lemma_pend2_char(bind, count, a, ops, k, kx, ky, op2, bind2, count2);
    lemma_sinv_facts(bind, count, a, ops, k);
    assert forall|sn: Ss, so: Ss, inp: Seq<f32>| #![trigger rel(bind2, ops, k + 1, sn.env, so.env), tp(ops, k + 1, choices, so, inp)]
        rel(bind2, ops, k + 1, sn.env, so.env) && sn.outs == so.outs && tp(ops, k + 1, choices, so, inp)
        implies ssa_run_rev(out2, 0, out2.len() as int, sn, inp).outs == ssa_run_rev(ops, 0, k + 1, so, inp).outs by {
        let so2 = ssa_step(op, so, inp);
        let sn2 = ssa_step(op2, sn, inp);
        assert(clause_ok(ops, k, choices, so, inp) && tp(ops, k, choices, so2, inp));
        if kx >= 0 { assert(pend(bind2, ops, k + 1, kx)); assert(sn.env[bind2[kx] as int] == so.env[kx]); }
        if ky >= 0 { assert(pend(bind2, ops, k + 1, ky)); assert(sn.env[bind2[ky] as int] == so.env[ky]); }
        assert(sn2.env[bind[o] as int] == so2.env[o]);
        assert(rel(bind, ops, k, sn2.env, so2.env)) by {
            assert forall|s: int| #[trigger] pend(bind, ops, k, s) implies sn2.env[bind[s] as int] == so2.env[s] by {
                if s != o {
                    assert(bind[s] != bind[o]);
                    lemma_sstep_frame(op2, sn, inp, bind[s] as int);
                    assert(pend(bind2, ops, k + 1, s));
                    assert(bind2[s] == bind[s]);
                    lemma_sstep_frame(op, so, inp, s);
                }
            }
        }
        lemma_sstep_outs(op, so, inp);
        lemma_sstep_outs(op2, sn, inp);
        lemma_ssa_run_ext(out2, out, 0, m, sn2, inp);
        assert(out2[m] == op2);
        assert(ssa_run_rev(out2, 0, m + 1, sn, inp) == ssa_run_rev(out2, 0, m, sn2, inp));
        assert(ssa_run_rev(ops, 0, k + 1, so, inp) == ssa_run_rev(ops, 0, k, so2, inp));
    }
}
proof fn lemma_ssim_output(bind: Seq<u32>, count: u32, a: Seq<u32>, ops: Seq<SsaOp>, k: int, op2: SsaOp, out: Seq<SsaOp>, choices: Seq<Choice>)
    requires sinv(bind, count, a, ops, k), ssa_strict(ops), 0 <= k < ops.len(), ops.len() < 0x4000_0000, ssa_kind(ops[k]) == 0,
        ssa_kind(op2) == 0, out_idx(op2) == out_idx(ops[k]),
        ssa_o(op2) == bind_step(bind, count, ssa_o(ops[k])).0[ssa_o(ops[k])],
        ssim(bind, ops, k, out, choices),
    ensures ssim(bind_step(bind, count, ssa_o(ops[k])).0, ops, k + 1, out.push(op2), choices)
{
    reveal(ssim);
    let n = ops.len() as int;
    let op = ops[k]; let x = ssa_o(op);
    let (bind2, count2) = bind_step(bind, count, x);
    let out2 = out.push(op2);
    let m = out.len() as int;
    lemma_pre_output(bind, count, a, ops, k);
    lemma_sinv_facts(bind, count, a, ops, k);
    assert forall|s: int| pend(bind2, ops, k + 1, s) == (s == x || pend(bind, ops, k, s)) by {
        lemma_pend_step(bind2, ops, k, s);
        if s == x && bind[x] != u32::MAX { lemma_bound_arg_pending(bind, count, a, ops, k, x); }
    }
    assert forall|sn: Ss, so: Ss, inp: Seq<f32>| #![trigger rel(bind2, ops, k + 1, sn.env, so.env), tp(ops, k + 1, choices, so, inp)]
        rel(bind2, ops, k + 1, sn.env, so.env) && sn.outs == so.outs && tp(ops, k + 1, choices, so, inp)
        implies ssa_run_rev(out2, 0, out2.len() as int, sn, inp).outs == ssa_run_rev(ops, 0, k + 1, so, inp).outs by {
        let so2 = ssa_step(op, so, inp);
        let sn2 = ssa_step(op2, sn, inp);
        assert(tp(ops, k, choices, so2, inp));
        lemma_sstep_output(op, so, inp);
        lemma_sstep_output(op2, sn, inp);
        assert(pend(bind2, ops, k + 1, x));
        assert(sn.env[bind2[x] as int] == so.env[x]);
        assert(sn2.outs == so2.outs);
        assert(rel(bind, ops, k, sn2.env, so2.env)) by {
            assert forall|s: int| #[trigger] pend(bind, ops, k, s) implies sn2.env[bind[s] as int] == so2.env[s] by {
                assert(pend(bind2, ops, k + 1, s));
                assert(bind2[s] == bind[s]);
            }
        }
        lemma_ssa_run_ext(out2, out, 0, m, sn2, inp);
        assert(out2[m] == op2);
        assert(ssa_run_rev(out2, 0, m + 1, sn, inp) == ssa_run_rev(out2, 0, m, sn2, inp));
        assert(ssa_run_rev(ops, 0, k + 1, so, inp) == ssa_run_rev(ops, 0, k, so2, inp));
    }
}
/// S3, final step: nothing is pending at the end, so the simulation is unconditional in the environments
proof fn lemma_ssim_end(bind: Seq<u32>, ops: Seq<SsaOp>, out: Seq<SsaOp>, choices: Seq<Choice>)
    requires ssim(bind, ops, ops.len() as int, out, choices), ssa_strict(ops)
    ensures forall|en: Env, eo: Env, o: Map<int, f32>, inp: Seq<f32>|
        #![trigger tp(ops, ops.len() as int, choices, Ss { env: eo, outs: o }, inp), ssa_run_rev(out, 0, out.len() as int, Ss { env: en, outs: o }, inp)]
        tp(ops, ops.len() as int, choices, Ss { env: eo, outs: o }, inp)
        ==> ssa_run_rev(out, 0, out.len() as int, Ss { env: en, outs: o }, inp).outs == ssa_run_rev(ops, 0, ops.len() as int, Ss { env: eo, outs: o }, inp).outs
{
    reveal(ssim);
    let n = ops.len() as int;
    assert forall|en: Env, eo: Env, o: Map<int, f32>, inp: Seq<f32>|
        #![trigger tp(ops, n, choices, Ss { env: eo, outs: o }, inp), ssa_run_rev(out, 0, out.len() as int, Ss { env: en, outs: o }, inp)]
        tp(ops, n, choices, Ss { env: eo, outs: o }, inp)
        implies ssa_run_rev(out, 0, out.len() as int, Ss { env: en, outs: o }, inp).outs == ssa_run_rev(ops, 0, n, Ss { env: eo, outs: o }, inp).outs by {
        let sn = Ss { env: en, outs: o };
        let so = Ss { env: eo, outs: o };
        assert(rel(bind, ops, n, sn.env, so.env)) by {
            assert forall|s: int| #[trigger] pend(bind, ops, n, s) implies sn.env[bind[s] as int] == so.env[s] by {
                assert(live(ops, n).contains(s));
            }
        }
    }
}
'''


# ---- register level: the allocator's tape computes the emitted SSA tape (same argument as RegTape::new, but the SSA
# ---- tape grows while the allocator runs)
S3_PRELUDE += r"""
proof fn lemma_asm_step(a2: Seq<u32>, a1: Seq<u32>, a0: Seq<u32>, tape1: Seq<RegOp>, tape2: Seq<RegOp>, out: Seq<SsaOp>, op2: SsaOp)
    requires
        simf(a1, a0, tape1, 0, tape1.len() as int, run_fe(out, out.len() as int), run_fo(out, out.len() as int)),
        tape2.len() >= tape1.len(), forall|k: int| 0 <= k < tape1.len() ==> #[trigger] tape2[k] == tape1[k],
        simf(a2, a1, tape2, tape1.len() as int, tape2.len() as int, ssa_fe(op2), ssa_fo(op2)),
    ensures simf(a2, a0, tape2, 0, tape2.len() as int, run_fe(out.push(op2), out.len() as int + 1), run_fo(out.push(op2), out.len() as int + 1))
{
    let m = out.len() as int;
    let out2 = out.push(op2);
    let mid = tape1.len() as int;
    lemma_sim_ext(a1, a0, tape1, tape2, 0, mid, run_fe(out, m), run_fo(out, m));
    assert forall|e: Env, i: Seq<f32>| #[trigger] run_fe(out, m)(e, i) == run_fe(out2, m)(e, i) by {
        lemma_ssa_run_ext(out, out2, 0, m, Ss { env: e, outs: Map::empty() }, i);
    }
    assert forall|o: Map<int, f32>, e: Env, i: Seq<f32>| #[trigger] run_fo(out, m)(o, e, i) == run_fo(out2, m)(o, e, i) by {
        lemma_ssa_run_ext(out, out2, 0, m, Ss { env: e, outs: o }, i);
    }
    lemma_simf_fe_ext(a1, a0, tape2, 0, mid, run_fe(out, m), run_fe(out2, m), run_fo(out, m), run_fo(out2, m));
    assert(out2[m] == op2);
    lemma_sim_extend(a2, a1, a0, tape2, mid, tape2.len() as int, out2, m);
}
/// at the end every allocation is UNASSIGNED, so the register tape computes the emitted SSA tape from any slot contents
proof fn lemma_asm_end(a: Seq<u32>, a0: Seq<u32>, tape: Seq<RegOp>, out: Seq<SsaOp>)
    requires simf(a, a0, tape, 0, tape.len() as int, run_fe(out, out.len() as int), run_fo(out, out.len() as int)),
        forall|b: int| 0 <= b < a.len() ==> #[trigger] a[b] == UNASSIGNED,
    ensures forall|st: St, env: Env, inp: Seq<f32>|
        (#[trigger] reg_run_rev(tape, 0, tape.len() as int, st, inp)).outs
            == (#[trigger] ssa_run_rev(out, 0, out.len() as int, Ss { env: env, outs: st.outs }, inp)).outs
{
    reveal(simf);
    assert forall|st: St, env: Env, inp: Seq<f32>|
        (#[trigger] reg_run_rev(tape, 0, tape.len() as int, st, inp)).outs
            == (#[trigger] ssa_run_rev(out, 0, out.len() as int, Ss { env: env, outs: st.outs }, inp)).outs by {
        assert(agree(a, st.slots, env));
    }
}
"""


# ================================================================================================
# S2: the simplified SSA tape is again strict SSA with a correct choice count, so `simplify`'s postcondition
#     re-establishes its own precondition (chains of nested simplifications)
S3_PRELUDE += r"""
proof fn lemma_live_ext(a: Seq<SsaOp>, b: Seq<SsaOp>, j: int)
    requires 0 <= j <= a.len(), j <= b.len(), forall|k: int| 0 <= k < j ==> a[k] == b[k]
    ensures live(a, j) == live(b, j)
    decreases j
{
    if j > 0 { lemma_live_ext(a, b, j - 1); }
}
spec fn idx_lt(op: SsaOp, c: int) -> bool {
    &&& 0 <= ssa_o(op) < c
    &&& ssa_kind(op) >= 2 ==> 0 <= ssa_a(op) < c
    &&& ssa_kind(op) == 4 ==> 0 <= ssa_b(op) < c
}
proof fn lemma_live_bound(out: Seq<SsaOp>, j: int, c: int, s: int)
    requires 0 <= j <= out.len(), forall|k: int| 0 <= k < j ==> idx_lt(#[trigger] out[k], c), live(out, j).contains(s)
    ensures 0 <= s < c
    decreases j
{
    if j > 0 {
        lemma_live_step(out, j - 1, s);
        if live(out, j - 1).contains(s) { lemma_live_bound(out, j - 1, c, s); }
    }
}
/// invariant of the emitted prefix: it is strict SSA "so far", its liveness is the allocator's live set, and every
/// number whose definition has been emitted is dead for good
#[verifier::opaque]
spec fn s2inv(out: Seq<SsaOp>, a: Seq<u32>, count: u32, n: int) -> bool {
    let m = out.len() as int;
    &&& a.len() == n && count <= n
    &&& forall|j: int| 0 <= j < m ==> idx_lt(#[trigger] out[j], count as int)
    &&& forall|j: int| 0 <= j < m && ssa_kind(#[trigger] out[j]) >= 1 ==> a[ssa_o(out[j])] == UNASSIGNED
    &&& forall|b: int| 0 <= b < n ==> ((#[trigger] a[b] != UNASSIGNED) == live(out, m).contains(b))
    &&& forall|j: int, j2: int| 0 <= j < j2 < m && ssa_kind(#[trigger] out[j]) >= 1 ==> !uses(#[trigger] out[j2], ssa_o(out[j]))
    &&& forall|j: int| 0 <= j < m ==> {
            let op = #[trigger] out[j];
            &&& ssa_kind(op) >= 1 ==> live(out, j).contains(ssa_o(op))
            &&& ssa_kind(op) >= 2 ==> ssa_a(op) != ssa_o(op)
            &&& ssa_kind(op) == 4 ==> ssa_b(op) != ssa_o(op)
        }
}
proof fn lemma_s2_init(a: Seq<u32>, n: int)
    requires a.len() == n, forall|b: int| 0 <= b < n ==> #[trigger] a[b] == UNASSIGNED
    ensures s2inv(Seq::<SsaOp>::empty(), a, 0, n)
{
    reveal(s2inv);
}
/// every index the op reads (its arguments; for an Output clause the slot it outputs) is live or freshly numbered
spec fn reads_live_or_fresh(op2: SsaOp, a: Seq<u32>, count: u32) -> bool {
    forall|u: int| #[trigger] uses(op2, u) ==> (0 <= u < a.len() && (a[u] != UNASSIGNED || u >= count))
}
proof fn lemma_s2_push(out: Seq<SsaOp>, a: Seq<u32>, count: u32, op2: SsaOp, a2: Seq<u32>, count2: u32, n: int)
    requires s2inv(out, a, count, n), count <= count2 <= n, a2.len() == n,
        idx_lt(op2, count2 as int), ssa_o(op2) < count || ssa_kind(op2) == 0,
        ssa_kind(op2) >= 1 ==> a[ssa_o(op2)] != UNASSIGNED,
        ssa_kind(op2) >= 2 ==> ssa_a(op2) != ssa_o(op2),
        ssa_kind(op2) == 4 ==> ssa_b(op2) != ssa_o(op2),
        reads_live_or_fresh(op2, a, count),
        forall|b: int| count <= b < n ==> #[trigger] a[b] == UNASSIGNED,
        forall|b: int| 0 <= b < n ==> ((#[trigger] a2[b] != UNASSIGNED) == new_live(op2, a[b] != UNASSIGNED, b)),
    ensures s2inv(out.push(op2), a2, count2, n)
{
    reveal(s2inv);
    let m = out.len() as int;
    let out2 = out.push(op2);
    assert(out2[m] == op2);
    lemma_live_ext(out2, out, m);
    assert forall|j: int| 0 <= j <= m implies live(out2, j) == live(out, j) by { lemma_live_ext(out2, out, j); }
    assert forall|b: int| 0 <= b < n implies ((#[trigger] a2[b] != UNASSIGNED) == live(out2, m + 1).contains(b)) by {
        lemma_live_step(out2, m, b);
    }
    // numbers already defined stay dead: they are neither live nor fresh, so op2 does not read them
    assert forall|j: int| 0 <= j < m + 1 && ssa_kind(#[trigger] out2[j]) >= 1 implies a2[ssa_o(out2[j])] == UNASSIGNED by {
        if j < m {
            let d = ssa_o(out[j]);
            assert(out2[j] == out[j]);
            assert(a[d] == UNASSIGNED && d < count);
            assert(!uses(op2, d));
        }
    }
    assert forall|j: int, j2: int| 0 <= j < j2 < m + 1 && ssa_kind(#[trigger] out2[j]) >= 1 implies !uses(#[trigger] out2[j2], ssa_o(out2[j])) by {
        assert(out2[j] == out[j]);
        if j2 == m {
            let d = ssa_o(out[j]);
            assert(a[d] == UNASSIGNED && d < count);
        } else {
            assert(out2[j2] == out[j2]);
        }
    }
    assert forall|j: int| 0 <= j < m + 1 implies idx_lt(#[trigger] out2[j], count2 as int) by {
        if j < m { assert(out2[j] == out[j]); assert(idx_lt(out[j], count as int)); }
    }
    assert forall|j: int| 0 <= j < m + 1 implies ({
            let op = #[trigger] out2[j];
            &&& ssa_kind(op) >= 1 ==> live(out2, j).contains(ssa_o(op))
            &&& ssa_kind(op) >= 2 ==> ssa_a(op) != ssa_o(op)
            &&& ssa_kind(op) == 4 ==> ssa_b(op) != ssa_o(op)
        }) by {
        if j < m { assert(out2[j] == out[j]); }
    }
}
proof fn lemma_s2_end(out: Seq<SsaOp>, a: Seq<u32>, count: u32, n: int)
    requires s2inv(out, a, count, n), count <= out.len(), forall|b: int| 0 <= b < n ==> #[trigger] a[b] == UNASSIGNED
    ensures ssa_strict(out)
{
    reveal(s2inv);
    let m = out.len() as int;
    assert forall|s: int| !live(out, m).contains(s) by {
        if live(out, m).contains(s) {
            lemma_live_bound(out, m, count as int, s);
            assert(a[s] != UNASSIGNED);
        }
    }
    assert(live(out, m) =~= Set::empty());
}
proof fn lemma_cnt_choice_push(out: Seq<SsaOp>, op2: SsaOp, lo: int)
    requires 0 <= lo <= out.len()
    ensures cnt_choice(out.push(op2), lo, out.len() as int + 1) == cnt_choice(out, lo, out.len() as int) + if is_choice(op2) { 1int } else { 0int }
    decreases out.len() - lo
{
    let out2 = out.push(op2);
    if lo < out.len() {
        lemma_cnt_choice_push(out, op2, lo + 1);
        assert(out2[lo] == out[lo]);
    } else {
        assert(out2[lo] == op2);
        assert(cnt_choice(out2, lo + 1, out.len() as int + 1) == 0);
    }
}
/// what the renaming facts of an emitted op give to S2
proof fn lemma_s2_emit(bind: Seq<u32>, count: u32, a: Seq<u32>, ops: Seq<SsaOp>, k: int, kx: int, ky: int, op2: SsaOp, bind2: Seq<u32>, count2: u32)
    requires sinv(bind, count, a, ops, k), ssa_strict(ops), 0 <= k < ops.len(), ops.len() < 0x4000_0000,
        bind[ssa_o(ops[k])] != u32::MAX, emits(bind, count, ops[k], kx, ky, op2, bind2, count2),
    ensures idx_lt(op2, count2 as int), ssa_o(op2) < count, count <= count2 <= ops.len(),
        a[ssa_o(op2)] != UNASSIGNED,
        ssa_kind(op2) >= 2 ==> ssa_a(op2) != ssa_o(op2),
        ssa_kind(op2) == 4 ==> ssa_b(op2) != ssa_o(op2),
        reads_live_or_fresh(op2, a, count),
        forall|b: int| count <= b < ops.len() ==> #[trigger] a[b] == UNASSIGNED,
{
    lemma_pre_emit(bind, count, a, ops, k, kx, ky, op2, bind2, count2);
    lemma_fresh_dead(bind, count, a, ops, k);
    lemma_sinv_facts(bind, count, a, ops, k);
    let o = ssa_o(ops[k]);
    let s1 = bind_step(bind, count, kx);
    if kx >= 0 && bind[kx] != u32::MAX { lemma_bound_arg_pending(bind, count, a, ops, k, kx); lemma_pend_live(bind, count, a, ops, k, kx); }
    if ky >= 0 && bind[ky] != u32::MAX { lemma_bound_arg_pending(bind, count, a, ops, k, ky); lemma_pend_live(bind, count, a, ops, k, ky); }
    assert forall|u: int| #[trigger] uses(op2, u) implies (0 <= u < a.len() && (a[u] != UNASSIGNED || u >= count)) by {
        if kx >= 0 && u == ssa_a(op2) {
            if bind[kx] == u32::MAX { assert(bind2[kx] >= count); }
        }
        if ky >= 0 && u == ssa_b(op2) {
            if s1.0[ky] == u32::MAX { assert(bind2[ky] >= count); } else if bind[ky] == u32::MAX { assert(ky == kx); }
        }
    }
}
proof fn lemma_s2_output(bind: Seq<u32>, count: u32, a: Seq<u32>, ops: Seq<SsaOp>, k: int, op2: SsaOp)
    requires sinv(bind, count, a, ops, k), ssa_strict(ops), 0 <= k < ops.len(), ops.len() < 0x4000_0000, ssa_kind(ops[k]) == 0,
        ssa_kind(op2) == 0, ssa_o(op2) == bind_step(bind, count, ssa_o(ops[k])).0[ssa_o(ops[k])],
    ensures idx_lt(op2, bind_step(bind, count, ssa_o(ops[k])).1 as int), count <= bind_step(bind, count, ssa_o(ops[k])).1 <= ops.len(),
        reads_live_or_fresh(op2, a, count),
        forall|b: int| count <= b < ops.len() ==> #[trigger] a[b] == UNASSIGNED,
{
    let x = ssa_o(ops[k]);
    lemma_pre_output(bind, count, a, ops, k);
    lemma_fresh_dead(bind, count, a, ops, k);
    lemma_sinv_facts(bind, count, a, ops, k);
    lemma_covered_step(bind, count, x);
    if bind[x] != u32::MAX { lemma_bound_arg_pending(bind, count, a, ops, k, x); lemma_pend_live(bind, count, a, ops, k, x); }
}
"""
