"""Unit `simplify`: `VmData::simplify` + `VmWorkspace` (fidget-core/src/vm/data.rs) on their real text.

The unit text is the complete `alloc` unit (real allocator code with its proved contracts, so the
re-allocation inside the simplify loop is reasoned about through `RegisterAllocator::op`'s
contract, which is the very text proved in unit `alloc`) plus the items cut out of data.rs, op.rs
(`SsaOp::output`, `SsaOp::has_choice`) and choice.rs (`enum Choice`)."""
import re
from lib import rsx, opcodes
from lib.rsx import ExtractError
from lib.verus_engine import Injector, Obligation, partition, count_match_arms, locate_fn
from units import alloc as ALLOC
from units.alloc.gen_sem import Sem, split_variant
from units.simplify import spec as SP

DATA_RS = 'fidget-core/src/vm/data.rs'
OP_RS = 'fidget-core/src/compiler/op.rs'
CHOICE_RS = 'fidget-core/src/vm/choice.rs'

PROPS = ['C04', 'C10', 'C11', 'C14', 'C20']   # C14: simplification never renumbers variables (the result keeps the parent's variable map)


def split_arms(body):
    """Split the text of a match body into arms: list of (pattern, body_text_including_trailing_comma)."""
    arms = []
    i = 0
    n = len(body)
    toks = list(rsx.tokens_outside(body))
    pos = 0
    idx_of = {i_: t for t, (i_, c) in enumerate(toks)}
    while True:
        # skip whitespace
        while pos < n and body[pos] in ' \t\n':
            pos += 1
        if pos >= n:
            break
        # pattern up to '=>' at depth 0
        depth = 0
        j = pos
        arrow = None
        for (k, c) in rsx.tokens_outside(body, pos):
            if c in '([{':
                depth += 1
            elif c in ')]}':
                depth -= 1
            elif c == '=' and depth == 0 and body[k:k + 2] == '=>':
                arrow = k
                break
        if arrow is None:
            raise ExtractError('R-orpat: arm without => near %r' % body[pos:pos + 60])
        pat = body[pos:arrow].strip()
        k = arrow + 2
        while body[k] in ' \t\n':
            k += 1
        if body[k] == '{':
            e = rsx.match_brace(body, k)
            arm_body = body[k:e + 1]
            k2 = e + 1
            if k2 < n and body[k2] == ',':
                k2 += 1
        else:
            depth = 0
            k2 = None
            for (q, c) in rsx.tokens_outside(body, k):
                if c in '([{':
                    depth += 1
                elif c in ')]}':
                    depth -= 1
                elif c == ',' and depth == 0:
                    k2 = q
                    break
            if k2 is None:
                k2 = n
            arm_body = '{ ' + body[k:k2].strip() + ' }'
            k2 = min(n, k2 + 1)
        arms.append((pat, arm_body))
        pos = k2
    return arms


def split_alternatives(pat):
    parts = rsx.split_top(pat, '|')
    return [p.strip() for p in parts if p.strip()]


def r_orpat(fn_text, match_head, indent, trace):
    """Split every or-pattern arm of the match starting at `match_head` into one arm per alternative."""
    p = fn_text.find(match_head)
    if p < 0 or fn_text.count(match_head) != 1:
        raise ExtractError('R-orpat: match head lost/ambiguous: %r' % match_head)
    ob = fn_text.index('{', p)
    cb = rsx.match_brace(fn_text, ob)
    arms = split_arms(fn_text[ob + 1:cb])
    out = []
    fired = 0
    for pat, body in arms:
        alts = split_alternatives(pat)
        if len(alts) > 1:
            fired += len(alts)
        for a in alts:
            out.append('%s%s => %s' % (indent, a, body))
    trace.fire('R-orpat', fired)
    return fn_text[:ob + 1] + '\n' + '\n'.join(out) + '\n' + indent[:-4] + fn_text[cb:], [a for pat, _ in arms for a in split_alternatives(pat)]


def extract_data(repo, trace):
    src = rsx.clean(open('%s/%s' % (repo, DATA_RS)).read(), trace)
    # multi-line #[error(..)] attribute of BadChoiceSlice
    src, n = re.subn(r'#\[error\((?:[^()]|\([^()]*\))*\)\]\n', '', src)
    trace.fire('drop-attr', n)
    src = re.sub(r'\n[ \t]*\n(?=struct BadChoiceSlice)', '\n', src)
    bad = rsx.get_item(src, r'^struct BadChoiceSlice\b', 0, 'struct BadChoiceSlice')
    if src.count('struct VmData<const N: usize = { u8::MAX as usize }>') != 1:
        raise ExtractError('VmData header changed')
    # R-constdefault: the default value of the const parameter plays no role inside the unit
    src = src.replace('struct VmData<const N: usize = { u8::MAX as usize }>', 'struct VmData<const N: usize>')
    trace.fire('R-constdefault')
    vmdata = rsx.get_item(src, r'^struct VmData<', 0, 'struct VmData')
    a, b = rsx.impl_block(src, r'^impl<const N: usize> VmData<N>', 'impl VmData<N>')
    fns = []
    for name in ['choice_count', 'output_count', 'slot_count', 'len', 'is_empty', 'simplify']:
        i, j, k = rsx.find_fn(src, name, a, b)
        fns.append(src[rsx.line_start(src, i):k])
        trace.items.append((DATA_RS, 'VmData::' + name))
    for name in ['new', 'iter_asm', 'asm', 'pretty_print']:
        try:
            rsx.find_fn(src, name, a, b)
        except ExtractError:
            continue
        trace.drop('VmData::%s (not under contract: Context / iterator adapters / printing)' % name)
    ws = rsx.get_item(src, r'^struct VmWorkspace<', 0, 'struct VmWorkspace')
    rsx.get_item(src, r'^impl<const N: usize> Default for VmWorkspace<N>', 0, 'impl Default for VmWorkspace')
    trace.drop('impl Default for VmWorkspace (trait impls cannot carry the precondition 1 <= N <= 255 of Lru::new; not under contract)')
    wsi = rsx.get_item(src, r'^impl<const N: usize> VmWorkspace<N>', 0, 'impl VmWorkspace')
    for w in ('struct VmWorkspace', 'impl VmWorkspace (active, get_or_insert_active, set_active, reset)', 'struct VmData', 'struct BadChoiceSlice'):
        trace.items.append((DATA_RS, w))
    vmdata = vmdata.replace('#[derive(Default)]\n', '')  # Default of VmData needs VarMap: Default; not used by simplify
    trace.drop('derive(Default) on VmData (VarMap is opaque here)')
    text = bad + '\n\n' + vmdata + '\n\nimpl<const N: usize> VmData<N> {\n' + '\n\n'.join(fns) + '\n}\n\n' + ws + '\n\n' + wsi + '\n'
    # `vars: Arc<VarMap>` stays; VarMap itself is an opaque external type
    return text


def rewrite_simplify(text, trace):
    """R-iter, R-revnext, R-orpat on the body of VmData::simplify (purely syntactic; each rule stated in DESIGN.md 2.1)."""
    i, j, k = locate_fn(text, 'VmData::simplify')
    fn = text[i:k]
    # R-revnext
    old = 'let mut choice_iter = choices.iter().rev();'
    if fn.count(old) != 1:
        raise ExtractError('R-revnext: iterator declaration lost')
    fn = fn.replace(old, 'let mut choice_k_: usize = choices.len();   // R-revnext: choices.iter().rev()')
    n_stmt = fn.count('choice_iter.next().unwrap();')
    fn = fn.replace('choice_iter.next().unwrap();', '{ assert!(choice_k_ > 0); choice_k_ -= 1; }   // R-revnext: .next().unwrap()')
    n_match = fn.count('match choice_iter.next().unwrap() {')
    fn = fn.replace('match choice_iter.next().unwrap() {', 'match { assert!(choice_k_ > 0); choice_k_ -= 1; choices[choice_k_] } {')
    if 'choice_iter' in fn:
        raise ExtractError('R-revnext: unexpected use of choice_iter')
    trace.fire('R-revnext', 1 + n_stmt + n_match)
    # R-iter
    old = 'for mut op in self.ssa.tape.iter().cloned() {'
    if fn.count(old) != 1:
        raise ExtractError('R-iter: simplify loop header changed')
    fn = fn.replace(old, 'let mut k_: usize = 0;\n        while k_ < self.ssa.tape.len() {   // R-iter\n            let mut op = self.ssa.tape[k_];\n            k_ += 1;')
    trace.fire('R-iter')
    # R-orpat on the big match
    head = 'match &mut op {\n                SsaOp::Output(..) => panic!(),'
    if fn.count(head) != 1:
        raise ExtractError('R-orpat: second `match &mut op` not found')
    fn, arms = r_orpat(fn, 'match &mut op {\n                SsaOp::Output(..) =>', '                ', trace)
    return text[:i] + fn + text[k:], arms


def extract_ssaop_impl(repo, trace):
    src = rsx.clean(open('%s/%s' % (repo, OP_RS)).read(), trace)
    a, b = rsx.impl_block(src, r'^impl SsaOp\b', 'impl SsaOp')
    fns = []
    for name in ['output', 'has_choice']:
        i, j, k = rsx.find_fn(src, name, a, b)
        fns.append(src[rsx.line_start(src, i):k])
        trace.items.append((OP_RS, 'SsaOp::' + name))
    return 'impl SsaOp {\n' + '\n\n'.join(fns) + '\n}\n'


def extract_choice(repo, trace):
    src = rsx.clean(open('%s/%s' % (repo, CHOICE_RS)).read(), trace)
    src = src.replace('#[repr(u8)]\n', '')
    en = rsx.get_item(src, r'^enum Choice\b', 0, 'enum Choice')
    trace.items.append((CHOICE_RS, 'enum Choice'))
    trace.drop('impl BitOrAssign/Not/BitAndAssign for Choice (covered by Kani harness c20__choice_bitor_assign)')
    return en + '\n'


# arm groups for path-partitioned verification of the simplify loop body (labels = SSA variant names)
def arm_groups(arms):
    """arms: list of patterns of the big match (after R-orpat) in source order."""
    names = []
    for a in arms:
        m = re.match(r'SsaOp::(\w+)\(', a)
        if not m:
            raise ExtractError('unexpected arm pattern %r' % a)
        names.append(m.group(1))
    return names


def build(repo, trace):
    base = ALLOC.build(repo, trace)
    alloc_text = base['texts']['base']
    enums = opcodes.parse(repo, rsx.Trace())
    sem = Sem(enums)
    extra = extract_choice(repo, trace) + '\n' + extract_ssaop_impl(repo, trace) + '\n' + \
        '#[verifier::external_body]\nstruct VarMap { x: std::collections::HashMap<u64, usize> }\n// opaque accessors of the external type (no contract: nothing is known about their results)\nimpl VarMap {\n    #[verifier::external_body]\n    fn len(&self) -> usize { unimplemented!() }\n    #[verifier::external_body]\n    fn is_empty(&self) -> bool { unimplemented!() }\n}\nuse std::sync::Arc;\n\n' + extract_data(repo, trace)
    text = alloc_text.replace('\n} // verus!', '\n// ======== unit simplify: items from vm/data.rs, vm/choice.rs, compiler/op.rs ========\n' + extra + '\n} // verus!')
    text, arms = rewrite_simplify(text, trace)
    inj = Injector(text, trace)
    names = arm_groups(arms)
    gen = SP.generate(sem, enums, names)
    for a_, b_ in gen['replace']:
        inj.replace_once(a_, b_, 'R-armblock')
    for qual, anchor, occ, before, proof in gen['proofs']:
        inj.proof(qual, anchor, proof, occ=occ, before=before)
    for qual, anchor, inv in gen['loops']:
        inj.loop_inv(qual, anchor, inv)
    for qual, (ret, stext) in gen['specs'].items():
        inj.spec(qual, ret, stext)
    inj.append_items(gen['prelude'])
    full = inj.s
    texts = {'base': full}
    obls = []

    def O(name, pat, key='base', kind='exec', rlimit=None):
        obls.append(Obligation('simplify::' + name, 'simplify', pat, text_key=key, props=PROPS, kind=kind, rlimit=rlimit))
    for f in ['VmWorkspace::active', 'VmWorkspace::get_or_insert_active', 'VmWorkspace::set_active', 'VmWorkspace::reset',
              'VmData::choice_count', 'VmData::output_count', 'VmData::slot_count', 'VmData::len', 'VmData::is_empty',
              'SsaOp::output', 'SsaOp::has_choice']:
        O(f, f)
    # simplify loop body: path partition over the arms of the big match
    hdrs = {}
    for nm, a in zip(names, arms):
        hdrs[nm] = '%s => {' % a
    n_src = count_match_arms(full, 'VmData::simplify', 'match &mut op {\n                SsaOp::Output(..) =>')
    for gi, grp in enumerate(gen['groups']):
        key = 'simplify_g%d' % gi
        texts[key] = partition(full, 'VmData::simplify', hdrs, grp, trace)
        O('VmData::simplify[%s]' % ','.join(grp), 'VmData::simplify', key=key, rlimit=gen.get('rlimit'))
    covered = set(x for g in gen['groups'] for x in g)
    if covered != set(hdrs) or sum(len(g) for g in gen['groups']) != len(hdrs):
        raise ExtractError('R-split: simplify arm groups do not partition the arm list: missing %s' % sorted(set(hdrs) - covered))
    for m in re.finditer(r'^\s*proof fn (\w+)', gen['prelude'], re.M):
        O('lemma::' + m.group(1), m.group(1), kind='lemma')
    trace.fire('R-split', len(gen['groups']))
    return {'texts': texts, 'obligations': obls,
            'canary_fns': ['VmWorkspace::get_or_insert_active', 'VmWorkspace::set_active', 'VmWorkspace::reset', 'VmData::simplify']}
