"""Specification text of unit `context` (see units/context.py)."""

PRELUDE = r'''
// =================== stand-ins for external types (trusted; listed as assumptions) ===================
#[derive(Copy, Clone)]
pub enum Var { X, Y, Z, V(u64) }   // stand-in for var::Var (the payload of V is an opaque index)
#[derive(Copy, Clone)]
pub struct OrderedFloat<T>(pub T);
pub struct BadNode;
pub enum ConstError { NotAConst, BadNode(BadNode) }
/// the hash-consing arena (`IndexMap<Op, Node>`: Vec + HashMap with the entry API): a stub; `insert` either finds the value or
/// appends it; nothing else changes.  That equal values get equal indices (deduplication) is NOT part of the contract.
#[verifier::external_body]
pub struct IndexMap { data: Vec<Op> }
impl IndexMap {
    pub uninterp spec fn view(&self) -> Seq<Op>;
    #[verifier::external_body]
    pub fn get_by_index(&self, i: Node) -> (r: Option<&Op>)
        ensures (i.0 < self@.len()) ==> (r is Some && *r->Some_0 == self@[i.0 as int]), (i.0 >= self@.len()) ==> r is None
    { unimplemented!() }
    #[verifier::external_body]
    pub fn insert(&mut self, v: Op) -> (r: Node)
        ensures (final(self)@ == old(self)@ && r.0 < old(self)@.len() && op_eq(old(self)@[r.0 as int], v)) || (final(self)@ == old(self)@.push(v) && r.0 == old(self)@.len()),
    { unimplemented!() }
}
/// equality of arena keys as `Op`'s derived `Eq`/`Hash` see it: structural, except that constants compare as `OrderedFloat`
/// (all zeros equal, all NaNs equal) - so a constant may be represented by an existing node that differs in the sign of zero
pub open spec fn keq(a: f32, b: f32) -> bool { a == b || (fz(a) && fz(b)) || (fnan(a) && fnan(b)) }
pub open spec fn op_eq(a: Op, b: Op) -> bool {
    match (a, b) {
        (Op::Const(x), Op::Const(y)) => keq(x.0, y.0),
        (Op::Input(_), Op::Input(_)) => a == b,
        (Op::Binary(o1, a1, b1), Op::Binary(o2, a2, b2)) => o1 == o2 && a1 == a2 && b1 == b2,
        (Op::Unary(o1, a1), Op::Unary(o2, a2)) => o1 == o2 && a1 == a2,
        _ => false,
    }
}
pub uninterp spec fn fnan(a: f32) -> bool;
/// meaning relations "up to the representation of constants": a numeric operand c is represented by some x1 with keq(x1, c)
/// (the arena may already hold the other zero), a node-handle operand by exactly its meaning (`rep`); the result is the
/// operation on the representatives up to keq (constant folding may land on an existing constant of the other sign of zero)
pub open spec fn un_ok<A: IntoNode>(s: f32, op: UnaryOpcode, a: A, ops: Seq<Op>, env: Env) -> bool {
    exists|x1: f32| #[trigger] a.rep(ops, env, x1) && keq(s, un_sem(op, x1))
}
pub open spec fn bin_ok<A: IntoNode, B: IntoNode>(s: f32, op: BinaryOpcode, a: A, b: B, ops: Seq<Op>, env: Env) -> bool {
    exists|x1: f32, y1: f32| #![trigger a.rep(ops, env, x1), b.rep(ops, env, y1)] a.rep(ops, env, x1) && b.rep(ops, env, y1) && keq(s, bin_sem(op, x1, y1))
}
/// selection: the condition's representative decides between the representatives of the two branches (finite operands, up to the
/// sign of a zero result)
pub open spec fn sel_ok<C: IntoNode, A: IntoNode, B: IntoNode>(s: f32, c: C, a: A, b: B, ops: Seq<Op>, env: Env) -> bool {
    exists|c1: f32, x1: f32, y1: f32| #![trigger c.rep(ops, env, c1), a.rep(ops, env, x1), b.rep(ops, env, y1)]
        c.rep(ops, env, c1) && a.rep(ops, env, x1) && b.rep(ops, env, y1)
        && ((fin(c1) && fin(x1) && fin(y1)) ==> approx(s, if !fz(c1) { x1 } else { y1 }))
}
/// the same under the property's hedge (operands and unsimplified result finite) and up to the sign of a zero result
pub open spec fn bin_ok_h<A: IntoNode, B: IntoNode>(s: f32, op: BinaryOpcode, a: A, b: B, ops: Seq<Op>, env: Env) -> bool {
    exists|x1: f32, y1: f32| #![trigger a.rep(ops, env, x1), b.rep(ops, env, y1)] a.rep(ops, env, x1) && b.rep(ops, env, y1)
        && ((fin(x1) && fin(y1) && fin(bin_sem(op, x1, y1))) ==> approx(s, bin_sem(op, x1, y1)))
}

// =================== float base (uninterpreted library functions; axioms discharged by Kani where marked) ===================
pub uninterp spec fn fneg_spec(a: f32) -> f32;
pub uninterp spec fn fun1(tag: int, a: f32) -> f32;
pub uninterp spec fn fun2(tag: int, a: f32, b: f32) -> f32;
pub uninterp spec fn fin(a: f32) -> bool;      // finite: neither NaN nor infinite
/*@TAGS@*/
#[verifier::external_body] pub fn neg_(a: f32) -> (r: f32) ensures r == fneg_spec(a) { -a }
pub proof fn ax_float_total()
    ensures
        <f32 as AddSpec<f32>>::obeys_add_spec(), forall|a: f32, b: f32| #[trigger] <f32 as AddSpec<f32>>::add_req(a, b),
        <f32 as SubSpec<f32>>::obeys_sub_spec(), forall|a: f32, b: f32| #[trigger] <f32 as SubSpec<f32>>::sub_req(a, b),
        <f32 as MulSpec<f32>>::obeys_mul_spec(), forall|a: f32, b: f32| #[trigger] <f32 as MulSpec<f32>>::mul_req(a, b),
        <f32 as DivSpec<f32>>::obeys_div_spec(), forall|a: f32, b: f32| #[trigger] <f32 as DivSpec<f32>>::div_req(a, b),
        <f32 as PartialOrdSpec<f32>>::obeys_partial_cmp_spec(), <f32 as PartialEqSpec<f32>>::obeys_eq_spec(),
{ admit(); }
/// x is +0.0 or -0.0
pub open spec fn fz(x: f32) -> bool { x.eq_spec(&0.0f32) }
/// equal, or both zeros (possibly of different sign): the property's "up to the sign of zero"
pub open spec fn approx(x: f32, y: f32) -> bool { x == y || (fz(x) && fz(y)) }
/// AX-ctx: the float identities the constructor rewrites rely on; every clause is proved for all 2^32 (2^64) bit patterns by the
/// Kani harness of the same name in kani/leaf/src/ctxax.rs (fin = finite)
pub proof fn ax_ctx()
    ensures
        fin(0.0f32), fin(1.0f32), fin(2.0f32), !fz(1.0f32), !fz(2.0f32),
        forall|x: f32| #[trigger] fin(x) ==> !fnan(x),                                                                       // ctxax_fin_not_nan
        forall|x: f32| fz(x) ==> fz(#[trigger] fneg_spec(x)), forall|x: f32| fz(x) ==> fin(x),                               // ctxax_zero_props
        forall|c: f32| #[trigger] c.eq_spec(&1.0f32) ==> c == 1.0f32,                                                       // ctxax_one_unique
        forall|x: f32, z: f32| fin(x) && fz(z) ==> approx(#[trigger] x.add_spec(z), x) && approx(z.add_spec(x), x),        // ctxax_add_zero
        forall|x: f32, z: f32| fin(x) && fz(z) ==> approx(#[trigger] z.add_spec(x), x),
        forall|x: f32| fin(x) ==> #[trigger] x.add_spec(x) == x.mul_spec(2.0f32),                                          // ctxax_add_self
        forall|x: f32, y: f32| fin(x) && fin(y) ==> #[trigger] x.add_spec(y) == y.add_spec(x),                             // ctxax_comm
        forall|x: f32, y: f32| fin(x) && fin(y) ==> #[trigger] x.mul_spec(y) == y.mul_spec(x),
        forall|x: f32| fin(x) ==> #[trigger] x.mul_spec(1.0f32) == x, forall|x: f32| fin(x) ==> #[trigger] 1.0f32.mul_spec(x) == x,   // ctxax_mul_one
        forall|x: f32, z: f32| fin(x) && fz(z) ==> fz(#[trigger] x.mul_spec(z)), forall|x: f32, z: f32| fin(x) && fz(z) ==> fz(#[trigger] z.mul_spec(x)),   // ctxax_mul_zero
        forall|x: f32, z: f32| fin(x) && fz(z) ==> approx(#[trigger] x.sub_spec(z), x),                                    // ctxax_sub_zero
        forall|x: f32, z: f32| fin(x) && fz(z) ==> approx(#[trigger] z.sub_spec(x), fneg_spec(x)),
        forall|x: f32, z: f32| fz(z) && fin(#[trigger] z.div_spec(x)) ==> fz(z.div_spec(x)),                               // ctxax_zero_div
        forall|x: f32| fin(x) ==> #[trigger] x.div_spec(1.0f32) == x,                                                      // ctxax_div_one
        forall|x: f32| fin(x) ==> (#[trigger] fx_min_choice(x, x)).0 == x,                                                 // ctxax_minmax_self
        forall|x: f32| fin(x) ==> (#[trigger] fx_max_choice(x, x)).0 == x,
        forall|x: f32, y: f32| fin(x) && fin(y) ==> approx((#[trigger] fx_min_choice(x, y)).0, fx_min_choice(y, x).0),     // ctxax_minmax_comm
        forall|x: f32, y: f32| fin(x) && fin(y) ==> approx((#[trigger] fx_max_choice(x, y)).0, fx_max_choice(y, x).0),
        forall|x: f32, y: f32| (#[trigger] fx_and_choice(x, y)).0 == (if fz(x) { x } else { y }),                          // ctxax_and_or
        forall|x: f32, y: f32| (#[trigger] fx_or_choice(x, y)).0 == (if !fz(x) { x } else { y }),
        forall|x: f32| #[trigger] fx_not(x) == (if fz(x) { 1.0f32 } else { 0.0f32 }),                                        // ctxax_not
        fz(0.0f32),
{ admit(); }
/// R-floatpat: a float literal pattern `Ok(L)` matches `Ok(v)` iff `v == L`
pub fn okf_eq(r: &Result<f32, ConstError>, l: f32) -> (b: bool)
    ensures b == (r is Ok && r->Ok_0.eq_spec(&l))
{
    proof { ax_float_total(); }
    match r { Ok(v) => *v == l, Err(_) => false }
}

// =================== meaning of a node ===================
pub open spec fn un_sem(op: UnaryOpcode, a: f32) -> f32 {
    match op {
        UnaryOpcode::Neg => fneg_spec(a), UnaryOpcode::Abs => fun1(T_abs(), a), UnaryOpcode::Recip => 1.0f32.div_spec(a),
        UnaryOpcode::Sqrt => fun1(T_sqrt(), a), UnaryOpcode::Square => a.mul_spec(a), UnaryOpcode::Floor => fun1(T_floor(), a),
        UnaryOpcode::Ceil => fun1(T_ceil(), a), UnaryOpcode::Round => fun1(T_round(), a), UnaryOpcode::Sin => fun1(T_sin(), a),
        UnaryOpcode::Cos => fun1(T_cos(), a), UnaryOpcode::Tan => fun1(T_tan(), a), UnaryOpcode::Asin => fun1(T_asin(), a),
        UnaryOpcode::Acos => fun1(T_acos(), a), UnaryOpcode::Atan => fun1(T_atan(), a), UnaryOpcode::Exp => fun1(T_exp(), a),
        UnaryOpcode::Ln => fun1(T_ln(), a), UnaryOpcode::Not => fx_not(a), UnaryOpcode::Rand => fx_rand(a),
    }
}
pub open spec fn bin_sem(op: BinaryOpcode, a: f32, b: f32) -> f32 {
    match op {
        BinaryOpcode::Add => a.add_spec(b), BinaryOpcode::Sub => a.sub_spec(b), BinaryOpcode::Mul => a.mul_spec(b), BinaryOpcode::Div => a.div_spec(b),
        BinaryOpcode::Atan => fun2(T_atan2(), a, b), BinaryOpcode::Min => fx_min_choice(a, b).0, BinaryOpcode::Max => fx_max_choice(a, b).0,
        BinaryOpcode::Compare => fx_compare(a, b), BinaryOpcode::Mod => fun2(T_rem_euclid(), a, b), BinaryOpcode::And => fx_and_choice(a, b).0,
        BinaryOpcode::Or => fx_or_choice(a, b).0, BinaryOpcode::Mix => fx_mix(a, b),
    }
}
pub type Env = spec_fn(Var) -> f32;
/// the arena is topologically ordered: operands precede the node that uses them
pub open spec fn wf(ops: Seq<Op>) -> bool {
    forall|i: int| 0 <= i < ops.len() ==> match #[trigger] ops[i] {
        Op::Binary(_, a, b) => a.0 < i && b.0 < i,
        Op::Unary(_, a) => a.0 < i,
        _ => true,
    }
}
/// operation-by-operation evaluation (what `Context::eval` computes)
pub open spec fn sem(ops: Seq<Op>, n: int, env: Env) -> f32
    decreases n
{
    if n < 0 || n >= ops.len() { 0.0f32 } else {
        match ops[n] {
            Op::Input(v) => env(v),
            Op::Const(c) => c.0,
            Op::Binary(o, a, b) => if a.0 < n && b.0 < n { bin_sem(o, sem(ops, a.0 as int, env), sem(ops, b.0 as int, env)) } else { 0.0f32 },
            Op::Unary(o, a) => if a.0 < n { un_sem(o, sem(ops, a.0 as int, env)) } else { 0.0f32 },
        }
    }
}
pub open spec fn ext(o: Seq<Op>, n: Seq<Op>) -> bool { o.len() <= n.len() && forall|k: int| 0 <= k < o.len() ==> n[k] == o[k] }
/// growing the arena keeps the meaning of every existing node
pub proof fn lemma_sem_ext(o: Seq<Op>, n: Seq<Op>, k: int, env: Env)
    requires ext(o, n), 0 <= k < o.len()
    ensures sem(n, k, env) == sem(o, k, env)
    decreases k
{
    match o[k] {
        Op::Binary(_, a, b) => { if a.0 < k && b.0 < k { lemma_sem_ext(o, n, a.0 as int, env); lemma_sem_ext(o, n, b.0 as int, env); } }
        Op::Unary(_, a) => { if a.0 < k { lemma_sem_ext(o, n, a.0 as int, env); } }
        _ => {}
    }
}
pub proof fn lemma_sem_ext_all(o: Seq<Op>, n: Seq<Op>)
    requires ext(o, n)
    ensures forall|k: int, env: Env| 0 <= k < o.len() ==> #[trigger] sem(n, k, env) == sem(o, k, env)
{
    assert forall|k: int, env: Env| 0 <= k < o.len() implies #[trigger] sem(n, k, env) == sem(o, k, env) by { lemma_sem_ext(o, n, k, env); }
}
pub proof fn lemma_ext_trans(a: Seq<Op>, b: Seq<Op>, c: Seq<Op>)
    requires ext(a, b), ext(b, c)
    ensures ext(a, c)
{}
/// result of a constructor: the arena grew consistently and `r` is a node of it
pub open spec fn grown(o: Seq<Op>, n: Seq<Op>, r: Node) -> bool { wf(n) && ext(o, n) && r.0 < n.len() }
'''

F32_NODE_SPEC = '''
    /// x represents the operand in arena `ops` (a node handle: x is exactly the node's meaning; a number c: keq(x, c))
    spec fn rep(self, ops: Seq<Op>, env: Env, x: f32) -> bool;
    /// the operand is acceptable in this arena (a node handle: a valid index; a number: always)
    spec fn valid(self, ops: Seq<Op>) -> bool;
'''


def generate(UNARY, UNARY_OP, BIN_EXACT, BIN_REWRITE, F1, F2):
    tags = []
    for i, f in enumerate(F1 + F2):
        tags.append('pub open spec fn T_%s() -> int { %d }' % (f, i + 1))
    for f in F1:
        tags.append('pub assume_specification [f32::%s] (x: f32) -> (r: f32) ensures r == fun1(T_%s(), x);' % (f, f))
    for f in F2:
        tags.append('pub assume_specification [f32::%s] (x: f32, y: f32) -> (r: f32) ensures r == fun2(T_%s(), x, y);' % (f, f))
    # further f32 library methods an edited eval function might call: declared (uninterpreted) so that such an edit is decided
    for i, f in enumerate(['trunc', 'fract', 'signum', 'round_ties_even', 'sinh', 'cosh', 'tanh', 'exp2', 'log2', 'log10', 'cbrt', 'recip']):
        tags.append('pub open spec fn T_%s() -> int { %d }' % (f, 100 + i))
        tags.append('pub assume_specification [f32::%s] (x: f32) -> (r: f32) ensures r == fun1(T_%s(), x);' % (f, f))
    for i, f in enumerate(['copysign', 'min', 'max', 'powf', 'hypot', 'div_euclid']):
        tags.append('pub open spec fn T_%s() -> int { %d }' % (f, 200 + i))
        tags.append('pub assume_specification [f32::%s] (x: f32, y: f32) -> (r: f32) ensures r == fun2(T_%s(), x, y);' % (f, f))
    prelude = PRELUDE.replace('/*@TAGS@*/', '\n'.join(tags))
    specs = {}
    proofs = []
    replace = []
    # trait IntoNode: spec twins + contract in the trait declaration
    replace.append(('    fn into_node(self, ctx: &mut Context) -> Result<Node, BadNode>;',
                    F32_NODE_SPEC + '''    fn into_node(self, ctx: &mut Context) -> (r: Result<Node, BadNode>)
        requires wf(old(ctx).ops@)
        ensures r is Ok <==> self.valid(old(ctx).ops@),
            r is Ok ==> grown(old(ctx).ops@, final(ctx).ops@, r->Ok_0)
                && forall|env: Env| self.rep(old(ctx).ops@, env, #[trigger] sem(final(ctx).ops@, r->Ok_0.0 as int, env)),
            r is Err ==> final(ctx).ops@ == old(ctx).ops@;
    /// an acceptable operand stays acceptable, with the same meaning, when the arena grows
    proof fn lemma_mono(self, o: Seq<Op>, n: Seq<Op>)
        requires self.valid(o), ext(o, n)
        ensures self.valid(n), forall|env: Env, x: f32| #[trigger] self.rep(n, env, x) == self.rep(o, env, x);'''))
    replace.append(('impl IntoNode for Node {\n', 'impl IntoNode for Node {\n    open spec fn rep(self, ops: Seq<Op>, env: Env, x: f32) -> bool { x == sem(ops, self.0 as int, env) }\n    open spec fn valid(self, ops: Seq<Op>) -> bool { self.0 < ops.len() }\n    proof fn lemma_mono(self, o: Seq<Op>, n: Seq<Op>) { lemma_sem_ext_all(o, n); }\n'))
    replace.append(('impl IntoNode for f32 {\n', 'impl IntoNode for f32 {\n    open spec fn rep(self, ops: Seq<Op>, env: Env, x: f32) -> bool { keq(x, self) }\n    open spec fn valid(self, ops: Seq<Op>) -> bool { true }\n    proof fn lemma_mono(self, o: Seq<Op>, n: Seq<Op>) {}\n'))
    specs['Node::into_node@IntoNode for Node'] = None
    S = {}
    S['BinaryOpcode::eval'] = ('r: f32', '\n        ensures r == bin_sem(*self, a, b)\n')
    S['UnaryOpcode::eval'] = ('r: f32', '\n        ensures r == un_sem(*self, a)\n')
    S['Context::get_op'] = ('r: Option<&Op>', '\n        ensures (node.0 < self.ops@.len()) ==> (r is Some && *r->Some_0 == self.ops@[node.0 as int]), (node.0 >= self.ops@.len()) ==> r is None\n')
    S['Context::check_node'] = ('r: Result<(), BadNode>', '\n        ensures r is Ok <==> node.0 < self.ops@.len()\n')
    S['Context::get_const'] = ('r: Result<f32, ConstError>', '''
        ensures r is Ok <==> (n.0 < self.ops@.len() && self.ops@[n.0 as int] is Const),
            r is Ok ==> self.ops@[n.0 as int] == Op::Const(OrderedFloat(r->Ok_0))
''')
    S['Context::constant'] = ('r: Node', '''
        requires wf(old(self).ops@)
        ensures grown(old(self).ops@, final(self).ops@, r), final(self).ops@[r.0 as int] is Const,
            forall|env: Env| keq(#[trigger] sem(final(self).ops@, r.0 as int, env), f)
''')
    S['Context::var'] = ('r: Node', '''
        requires wf(old(self).ops@)
        ensures grown(old(self).ops@, final(self).ops@, r), forall|env: Env| #[trigger] sem(final(self).ops@, r.0 as int, env) == env(v)
''')
    for ax in ('x', 'y', 'z'):
        S['Context::' + ax] = ('r: Node', '''
        requires wf(old(self).ops@)
        ensures grown(old(self).ops@, final(self).ops@, r)
''')
    S['Context::op_unary'] = ('r: Result<Node, BadNode>', '''
        requires wf(old(self).ops@)
        ensures r is Ok <==> a.0 < old(self).ops@.len(),
            r is Ok ==> grown(old(self).ops@, final(self).ops@, r->Ok_0)
                && forall|env: Env| keq(#[trigger] sem(final(self).ops@, r->Ok_0.0 as int, env), un_sem(op, sem(old(self).ops@, a.0 as int, env))),
            r is Err ==> final(self).ops@ == old(self).ops@
''')
    S['Context::op_binary'] = ('r: Result<Node, BadNode>', '''
        requires wf(old(self).ops@)
        ensures r is Ok <==> (a.0 < old(self).ops@.len() && b.0 < old(self).ops@.len()),
            r is Ok ==> grown(old(self).ops@, final(self).ops@, r->Ok_0)
                && forall|env: Env| keq(#[trigger] sem(final(self).ops@, r->Ok_0.0 as int, env),
                        bin_sem(op, sem(old(self).ops@, a.0 as int, env), sem(old(self).ops@, b.0 as int, env))),
            r is Err ==> final(self).ops@ == old(self).ops@
''')
    S['Context::op_binary_commutative'] = ('r: Result<Node, BadNode>', '''
        requires wf(old(self).ops@)
        ensures r is Ok <==> (a.0 < old(self).ops@.len() && b.0 < old(self).ops@.len()),
            r is Ok ==> grown(old(self).ops@, final(self).ops@, r->Ok_0)
                && forall|env: Env| keq(#[trigger] sem(final(self).ops@, r->Ok_0.0 as int, env),
                        bin_sem(op, sem(old(self).ops@, a.0 as int, env), sem(old(self).ops@, b.0 as int, env)))
                    || keq(sem(final(self).ops@, r->Ok_0.0 as int, env),
                        bin_sem(op, sem(old(self).ops@, b.0 as int, env), sem(old(self).ops@, a.0 as int, env))),
            r is Err ==> final(self).ops@ == old(self).ops@
''')
    # unary constructors: exact
    for f in UNARY:
        S['Context::' + f] = ('r: Result<Node, BadNode>', '''
        requires wf(old(self).ops@)
        ensures r is Ok <==> a.valid(old(self).ops@),
            r is Ok ==> grown(old(self).ops@, final(self).ops@, r->Ok_0)
                && forall|env: Env| un_ok(#[trigger] sem(final(self).ops@, r->Ok_0.0 as int, env), UnaryOpcode::%s, a, old(self).ops@, env),
            r is Err ==> final(self).ops@ == old(self).ops@
''' % UNARY_OP[f])
    # binary constructors without rewrites: exact
    for f, (op, p, q) in BIN_EXACT.items():
        S['Context::' + f] = ('r: Result<Node, BadNode>', '''
        requires wf(old(self).ops@)
        ensures (r is Ok && %(p)s.valid(old(self).ops@) && %(q)s.valid(old(self).ops@)) ==> grown(old(self).ops@, final(self).ops@, r->Ok_0)
                && forall|env: Env| bin_ok(#[trigger] sem(final(self).ops@, r->Ok_0.0 as int, env), BinaryOpcode::%(op)s, %(p)s, %(q)s, old(self).ops@, env),
            (%(p)s.valid(old(self).ops@) && %(q)s.valid(old(self).ops@)) ==> r is Ok,
''' % {'op': op, 'p': p, 'q': q})
    # binary constructors with rewrites: up to the sign of zero, under the finiteness hedge
    for f, op in BIN_REWRITE.items():
        S['Context::' + f] = ('r: Result<Node, BadNode>', '''
        requires wf(old(self).ops@)
        ensures (r is Ok && a.valid(old(self).ops@) && b.valid(old(self).ops@)) ==> grown(old(self).ops@, final(self).ops@, r->Ok_0)
                && forall|env: Env| bin_ok_h(#[trigger] sem(final(self).ops@, r->Ok_0.0 as int, env), BinaryOpcode::%(op)s, a, b, old(self).ops@, env),
            (a.valid(old(self).ops@) && b.valid(old(self).ops@)) ==> r is Ok,
''' % {'op': op})
    for f in ('less_than', 'less_than_or_equal'):
        S['Context::' + f] = ('r: Result<Node, BadNode>', '''
        requires wf(old(self).ops@)
        ensures (r is Ok && lhs.valid(old(self).ops@) && rhs.valid(old(self).ops@)) ==> grown(old(self).ops@, final(self).ops@, r->Ok_0),
            (lhs.valid(old(self).ops@) && rhs.valid(old(self).ops@)) ==> r is Ok,
''')
    S['Context::if_nonzero_else'] = ('r: Result<Node, BadNode>', '''
        requires wf(old(self).ops@)
        ensures (r is Ok && condition.valid(old(self).ops@) && a.valid(old(self).ops@) && b.valid(old(self).ops@)) ==> grown(old(self).ops@, final(self).ops@, r->Ok_0)
                && forall|env: Env| sel_ok(#[trigger] sem(final(self).ops@, r->Ok_0.0 as int, env), condition, a, b, old(self).ops@, env),
            (condition.valid(old(self).ops@) && a.valid(old(self).ops@) && b.valid(old(self).ops@)) ==> r is Ok,
''')
    specs = S
    start = '        proof { ax_float_total(); ax_ctx(); }'
    for q in S:
        if q in ('Context::get_op',):
            continue
        proofs.append((q, '$START', 0, False, start))
    proofs.append(('Context::op_unary', '        Ok(out)', 0, True, '''        proof {
            let o0 = old(self).ops@; let o1 = self.ops@;
            lemma_sem_ext_all(o0, o1);
            assert forall|env: Env| keq(#[trigger] sem(o1, out.0 as int, env), un_sem(op, sem(o0, a.0 as int, env))) by {
                assert(sem(o1, a.0 as int, env) == sem(o0, a.0 as int, env));
            }
        }'''))
    proofs.append(('Context::op_binary', '        Ok(out)', 0, True, '''        proof {
            let o0 = old(self).ops@; let o1 = self.ops@;
            lemma_sem_ext_all(o0, o1);
            assert forall|env: Env| keq(#[trigger] sem(o1, out.0 as int, env), bin_sem(op, sem(o0, a.0 as int, env), sem(o0, b.0 as int, env))) by {
                assert(sem(o1, a.0 as int, env) == sem(o0, a.0 as int, env));
                assert(sem(o1, b.0 as int, env) == sem(o0, b.0 as int, env));
            }
        }'''))
    # ---- per-branch proofs for the constructors with rewrites (markers are placed by R-floatpat / R-tail) ----
    def end_proof(op, body, res='r_->Ok_0'):
        return ("""proof {
                let o3_ = self.ops@;
                if a0_.valid(o0_) && b0_.valid(o0_) && r_ is Ok {
                    lemma_sem_ext_all(o2_, o3_); lemma_ext_trans(o0_, o2_, o3_);
                    assert forall|env: Env| bin_ok_h(#[trigger] sem(o3_, %(res)s.0 as int, env), BinaryOpcode::%(op)s, a0_, b0_, o0_, env) by {
                        let x = sem(o2_, a.0 as int, env); let y = sem(o2_, b.0 as int, env);
                        let s = sem(o3_, %(res)s.0 as int, env);
                        assert(a0_.rep(o0_, env, x)); assert(b0_.rep(o0_, env, y));
                        assert(sem(o3_, a.0 as int, env) == x); assert(sem(o3_, b.0 as int, env) == y);
                        if fin(x) && fin(y) && fin(bin_sem(BinaryOpcode::%(op)s, x, y)) {
                            %(body)s
                            assert(approx(s, bin_sem(BinaryOpcode::%(op)s, x, y)));
                        }
                    }
                }
            }""" % {'op': op, 'body': body, 'res': res})
    CA = 'assert(x == m0_->Ok_0);'
    CB = 'assert(y == m1_->Ok_0);'
    BR = {
        'Context::add': {'e0': end_proof('Add', CA), 'e1': end_proof('Add', CB), 'e2': end_proof('Add', ''),
                         'e:x': end_proof('Add', 'assert(x == y); assert(x.add_spec(x) == x.mul_spec(2.0f32)); assert(sem(oc_, a.0 as int, env) == x); assert(sem(oc_, two.0 as int, env) == 2.0f32); assert(fin(x.mul_spec(2.0f32))); assert(approx(sem(o3_, r_->Ok_0.0 as int, env), x.mul_spec(2.0f32)));')},
        'Context::mul': {'e0': end_proof('Mul', CA + ' assert(x == 1.0f32); assert(1.0f32.mul_spec(y) == y);'),
                         'e1': end_proof('Mul', CB + ' assert(y == 1.0f32);'),
                         'e2': end_proof('Mul', CA + ' assert(fz(x)); assert(fz(x.mul_spec(y)));'),
                         'e3': end_proof('Mul', CB + ' assert(fz(y)); assert(fz(x.mul_spec(y)));'),
                         'e4': end_proof('Mul', 'assert(x.mul_spec(y) == y.mul_spec(x));'),
                         'e:x': end_proof('Mul', 'assert(x == y);')},
        'Context::sub': {'e0': end_proof('Sub', CA + ' assert(fz(x)); assert(approx(x.sub_spec(y), fneg_spec(y)));'),
                         'e1': end_proof('Sub', CB + ' assert(fz(y)); assert(approx(x.sub_spec(y), x));'), 'e2': end_proof('Sub', '')},
        'Context::div': {'e0': end_proof('Div', CA + ' assert(fz(x)); assert(fz(x.div_spec(y)));'),
                         'e1': end_proof('Div', CB + ' assert(y == 1.0f32); assert(x.div_spec(1.0f32) == x);'), 'e2': end_proof('Div', '')},
        'Context::and': {'e:c': end_proof('And', 'assert(x == v.0);'), 'e:n': end_proof('And', '')},
        'Context::or': {'e:n': end_proof('Or', '')},
    }
    for q, brs in BR.items():
        for tag, txt in brs.items():
            replace.append(('@@' + q + '@@/*@%s*/' % tag, txt))
    # begin-of-branch markers are not needed
    for q, n in (('Context::add', 3), ('Context::mul', 5), ('Context::sub', 3), ('Context::div', 3)):
        for i in range(n):
            replace.append(('@@' + q + '@@/*@b%d*/' % i, ''))
    # Context::or: early returns of an existing node
    def ret_proof(node, body):
        return ("""proof {
                    if a0_.valid(o0_) && b0_.valid(o0_) {
                        assert forall|env: Env| bin_ok_h(#[trigger] sem(o2_, %(node)s.0 as int, env), BinaryOpcode::Or, a0_, b0_, o0_, env) by {
                            let x = sem(o2_, a.0 as int, env); let y = sem(o2_, b.0 as int, env);
                            let s = sem(o2_, %(node)s.0 as int, env);
                            assert(a0_.rep(o0_, env, x)); assert(b0_.rep(o0_, env, y));
                            if fin(x) && fin(y) && fin(bin_sem(BinaryOpcode::Or, x, y)) {
                                %(body)s
                                assert(approx(s, bin_sem(BinaryOpcode::Or, x, y)));
                            }
                        }
                    }
                }""" % {'node': node, 'body': body})
    replace.append(('@@Context::if_nonzero_else@@/*@e:sel*/', """proof {
            let o7_ = self.ops@;
            if condition0_.valid(o0_) && a0_.valid(o0_) && b0_.valid(o0_) && r_ is Ok {
                lemma_sem_ext_all(o6_, o7_); lemma_ext_trans(o0_, o6_, o7_);
                assert forall|env: Env| sel_ok(#[trigger] sem(o7_, r_->Ok_0.0 as int, env), condition0_, a0_, b0_, o0_, env) by {
                    let c1 = sem(o3_, condition.0 as int, env); let x1 = sem(o3_, a.0 as int, env); let y1 = sem(o3_, b.0 as int, env);
                    assert(condition0_.rep(o0_, env, c1)); assert(a0_.rep(o0_, env, x1)); assert(b0_.rep(o0_, env, y1));
                    let s = sem(o7_, r_->Ok_0.0 as int, env);
                    if fin(c1) && fin(x1) && fin(y1) {
                        let s1 = sem(o4_, lhs.0 as int, env);
                        let s2 = sem(o5_, n_condition.0 as int, env);
                        let s3 = sem(o6_, rhs.0 as int, env);
                        // lhs = and(condition, a)
                        assert(bin_ok_h(s1, BinaryOpcode::And, condition, a, o3_, env));
                        assert(fx_and_choice(c1, x1).0 == (if fz(c1) { c1 } else { x1 }));
                        assert(approx(s1, fx_and_choice(c1, x1).0));
                        // n_condition = not(condition)
                        assert(sem(o4_, condition.0 as int, env) == c1);
                        assert(un_ok(s2, UnaryOpcode::Not, condition, o4_, env));
                        assert(keq(s2, fx_not(c1)));
                        assert(s2 == fx_not(c1) || (fz(s2) && fz(fx_not(c1))));
                        // rhs = and(n_condition, b)
                        assert(sem(o5_, b.0 as int, env) == y1);
                        assert(sem(o5_, n_condition.0 as int, env) == s2);
                        assert(bin_ok_h(s3, BinaryOpcode::And, n_condition, b, o5_, env));
                        assert(fin(s2));
                        assert(fx_and_choice(s2, y1).0 == (if fz(s2) { s2 } else { y1 }));
                        assert(approx(s3, fx_and_choice(s2, y1).0));
                        // r = or(lhs, rhs)
                        assert(sem(o6_, lhs.0 as int, env) == s1);
                        assert(bin_ok_h(s, BinaryOpcode::Or, lhs, rhs, o6_, env));
                        assert(fin(s1)); assert(fin(s3));
                        assert(fx_or_choice(s1, s3).0 == (if !fz(s1) { s1 } else { s3 }));
                        assert(approx(s, fx_or_choice(s1, s3).0));
                        assert(approx(s, if !fz(c1) { x1 } else { y1 }));
                    }
                }
            }
        }"""))
    replace.append(('@@Context::or@@/*@ret:1*/', ret_proof('a', 'assert(x == v.0);')))
    replace.append(('@@Context::or@@/*@ret:2*/', ret_proof('b', 'assert(x == v.0);')))
    replace.append(('@@Context::or@@/*@ret:3*/', ret_proof('a', 'assert(y == v.0);')))
    proofs.append(('Context::add', 'let two = self.constant(2.0);', 0, False, '            let ghost oc_ = self.ops@;\n            proof { lemma_sem_ext_all(o2_, oc_); lemma_ext_trans(o0_, o2_, oc_); }'))
    exec_fns = list(S) + ['okf_eq', 'Node::min', 'Node::max', '*::into_node']
    lemmas = ['lemma_sem_ext', 'lemma_sem_ext_all', 'lemma_ext_trans', '*::lemma_mono']
    return {'specs': specs, 'proofs': proofs, 'replace': replace, 'prelude': prelude, 'exec_fns': exec_fns, 'lemmas': lemmas,
            'canaries': ['Context::add', 'Context::mul', 'Context::op_binary', 'Context::op_unary', 'Context::sub', 'Context::div']}
