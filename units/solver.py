"""Unit `solver` (C14, solver call site): `Solver::get_err` of fidget-solver/src/lib.rs on its real text.

The solver keeps ONE argument array (`input_point`) for all equations, although every equation's tape numbers its variables in
its own first-encounter order; before each evaluation it walks the parameter map (a HashMap) and writes every parameter the tape
uses into the slot the tape's own variable map assigns to it.  Contract (get_err): for every equation t, the argument vector the
point evaluator is called with binds, by identity, every parameter that occurs in tape t's variable map - the fixed value for a
Fixed parameter, cur[gi] - delta[gi] with gi = grad_index[v] for a Free one - whatever the other tapes wrote before; the result
is the sum of the squared first outputs; no panic (both `unwrap`s, every index).

The declarations the function depends on (Var, VarIndex, VarMap stub, traits Tape / TracingEvaluator / BulkEvaluator with their
spec twins, Grad stand-in) are the ones unit `shape` extracts: this unit is the text of unit `shape` plus the solver items.
Contract (get_jacobian, the three-per-sample packing of C19): for every equation t the gradient evaluator is called on an
argument matrix whose row for a Fixed parameter holds (value, 0, 0, 0) in every sample and whose row for the Free parameter
numbered gi holds, in sample j, (cur[gi], [3j == gi], [3j+1 == gi], [3j+2 == gi]) - i.e. sample j, lane l differentiates with
respect to the free parameter numbered 3j + l and to no other -, jacobian[(t, gi)] is lane gi % 3 of sample gi / 3 of the first
output and result[t] is the value of sample 0; no panic (unwraps, every index, `Grad::d`'s panic arm, `j * 3 + 2`).

`Solver::new` / `solve` (iterator chains, SVD) are outside the verifier subset: bounded contract `solver_bind`."""
import re
from lib import rsx
from lib.rsx import ExtractError
from lib.verus_engine import Injector, Obligation
from units import shape as shape_unit

SOLVER_RS = 'fidget-solver/src/lib.rs'
EVAL_RS = 'fidget-core/src/eval/mod.rs'
BULK_RS = 'fidget-core/src/eval/bulk.rs'
GRAD_RS = 'fidget-core/src/types/grad.rs'
PROPS = ['C14', 'C19']

SPEC_ITEMS = r'''
// =================== unit solver: stand-ins and specification ===================
/// trait Function, reduced to the two associated types the solver uses (bounds `Data = f32` / `Data = Grad` as in the real
/// declaration, checked by the extractor)
pub trait Function {
    type PointEval: TracingEvaluator<Data = f32>;
    type GradSliceEval: BulkEvaluator<Data = Grad>;
}
pub uninterp spec fn powi_spec(a: f32, n: int) -> f32;
pub assume_specification [f32::powi] (x: f32, n: i32) -> (r: f32) ensures r == powi_spec(x, n as int);
/// AX-float-total (the part used here): f32 `+` and `-` are total and equal their spec functions
pub proof fn ax_float_total_solver()
    ensures
        <f32 as AddSpec<f32>>::obeys_add_spec(), forall|a: f32, b: f32| #[trigger] <f32 as AddSpec<f32>>::add_req(a, b),
        <f32 as SubSpec<f32>>::obeys_sub_spec(), forall|a: f32, b: f32| #[trigger] <f32 as SubSpec<f32>>::sub_req(a, b),
{ admit(); }
impl VarMap {
    /// `VarMap::get`: the index of a variable, if the map has it (HashMap lookup; stub)
    #[verifier::external_body]
    pub fn get(&self, v: &Var) -> (r: Option<usize>)
        ensures r is Some <==> exists|k: int| 0 <= k < self.entries().len() && (#[trigger] self.entries()[k]).0 == *v,
            r is Some ==> exists|k: int| 0 <= k < self.entries().len() && (#[trigger] self.entries()[k]) == (*v, r->Some_0),
    { unimplemented!() }
}
/// the value a parameter has during this error evaluation
pub open spec fn pval(p: Parameter, v: Var, gi: Map<Var, usize>, cur: Seq<f32>, delta: Seq<f32>) -> f32 {
    match p { Parameter::Free(_) => cur[gi[v] as int].sub_spec(delta[gi[v] as int]), Parameter::Fixed(f) => f }
}
/// the argument vector binds, by identity, every parameter that the tape uses
pub open spec fn pbound(s: Seq<f32>, m: VarMap, vars: Map<Var, Parameter>, gi: Map<Var, usize>, cur: Seq<f32>, delta: Seq<f32>) -> bool {
    forall|k: int| 0 <= k < m.entries().len() && vars.dom().contains((#[trigger] m.entries()[k]).0)
        ==> s[m.entries()[k].1 as int] == pval(vars[m.entries()[k].0], m.entries()[k].0, gi, cur, delta)
}
/// sum of the squared first outputs of the first n equations, each on its own argument vector
pub open spec fn err_sum<E: TracingEvaluator<Data = f32>>(tapes: Seq<E::Tape>, args: Seq<Seq<f32>>, n: int) -> f32
    decreases n
{
    if n <= 0 { 0f32 } else { err_sum::<E>(tapes, args, n - 1).add_spec(powi_spec(E::out_spec(&tapes[n - 1], args[n - 1])[0], 2)) }
}
pub proof fn lemma_err_sum_ext<E: TracingEvaluator<Data = f32>>(tapes: Seq<E::Tape>, a: Seq<Seq<f32>>, b: Seq<Seq<f32>>, n: int)
    requires forall|t: int| 0 <= t < n ==> a[t] == b[t],
    ensures err_sum::<E>(tapes, a, n) == err_sum::<E>(tapes, b, n),
    decreases n
{
    if n > 0 { lemma_err_sum_ext::<E>(tapes, a, b, n - 1); }
}
'''

JAC_ITEMS = r'''
// ---- nalgebra stand-ins (trusted): a dense matrix / vector of f32 with checked element access
#[verifier::external_body]
pub struct DMatrix { p: u8 }
impl DMatrix {
    pub uninterp spec fn rows(&self) -> nat;
    pub uninterp spec fn cols(&self) -> nat;
    pub uninterp spec fn at(&self, i: int, j: int) -> f32;
    /// `Matrix::get_mut((row, column))`: None outside the shape, else the element
    #[verifier::external_body]
    pub fn get_mut(&mut self, ij: (usize, usize)) -> (r: Option<&mut f32>)
        ensures r is Some <==> (ij.0 < old(self).rows() && ij.1 < old(self).cols()),
            final(self).rows() == old(self).rows(), final(self).cols() == old(self).cols(),
            r is Some ==> (forall|i: int, j: int| 0 <= i < old(self).rows() && 0 <= j < old(self).cols() ==> #[trigger] final(self).at(i, j) == (if i == ij.0 && j == ij.1 { *final(r->Some_0) } else { old(self).at(i, j) })),
    { unimplemented!() }
}
#[verifier::external_body]
pub struct DVector { p: u8 }
impl DVector {
    pub uninterp spec fn len(&self) -> nat;
    pub uninterp spec fn at(&self, i: int) -> f32;
}
impl IndexSpecImpl<usize> for DVector {
    open spec fn index_req(&self, i: &usize) -> bool { *i < self.len() }
}
impl std::ops::Index<usize> for DVector {
    type Output = f32;
    #[verifier::external_body]
    fn index(&self, i: usize) -> (r: &f32) ensures *r == self.at(i as int) { unimplemented!() }
}
impl std::ops::IndexMut<usize> for DVector {
    #[verifier::external_body]
    fn index_mut(&mut self, i: usize) -> (r: &mut f32)
        ensures final(self).len() == old(self).len(), forall|j: int| 0 <= j < old(self).len() ==> #[trigger] final(self).at(j) == (if j == i { *final(r) } else { old(self).at(j) })
    { unimplemented!() }
}
// (`<[T]>::fill` is specified in unit shape's prelude)
impl<'a, T> IndexSpecImpl<usize> for BulkOutput<'a, T> {
    open spec fn index_req(&self, i: &usize) -> bool { *i < self.data@.len() && self.data@[*i as int]@.len() >= self.len }
}
pub open spec fn gd_lane(g: Grad, i: int) -> f32 { if i == 0 { g.dx } else if i == 1 { g.dy } else { g.dz } }
/// the gradient sample a parameter contributes at sample j of its row: a Free parameter numbered gi is differentiated in lane
/// gi % 3 of sample gi / 3 and nowhere else; a Fixed parameter nowhere
pub open spec fn gval(p: Parameter, v: Var, gi: Map<Var, usize>, cur: Seq<f32>, j: int) -> Grad {
    match p {
        Parameter::Free(_) => Grad { v: cur[gi[v] as int], dx: if j * 3 == gi[v] { 1.0f32 } else { 0.0f32 }, dy: if j * 3 + 1 == gi[v] { 1.0f32 } else { 0.0f32 }, dz: if j * 3 + 2 == gi[v] { 1.0f32 } else { 0.0f32 } },
        Parameter::Fixed(f) => Grad { v: f, dx: 0.0f32, dy: 0.0f32, dz: 0.0f32 },
    }
}
/// the argument matrix binds, by identity, every parameter that the tape uses, in every sample
pub open spec fn gbound(m: Seq<Vec<Grad>>, map: VarMap, vars: Map<Var, Parameter>, gi: Map<Var, usize>, cur: Seq<f32>) -> bool {
    forall|k: int, j: int| 0 <= k < map.entries().len() && vars.dom().contains((#[trigger] map.entries()[k]).0) && 0 <= j < m[map.entries()[k].1 as int]@.len()
        ==> #[trigger] m[map.entries()[k].1 as int]@[j] == gval(vars[map.entries()[k].0], map.entries()[k].0, gi, cur, j)
}
pub open spec fn uniform(m: Seq<Vec<Grad>>, n: int) -> bool { forall|k: int| 0 <= k < m.len() ==> (#[trigger] m[k])@.len() == n }
'''

GET_JAC_SPEC = """
        requires
            vstd::std_specs::hash::obeys_key_model::<Var>(),
            // established by Solver::new (not under contract)
            forall|t: int| 0 <= t < old(self).grad_tapes@.len() ==> (#[trigger] old(self).grad_tapes@[t]).vars_spec().wf()
                && old(self).grad_tapes@[t].vars_spec().entries().len() <= old(self).input_grad@.len() && old(self).grad_tapes@[t].noutputs() >= 1,
            forall|v: Var| #[trigger] old(self).vars@.dom().contains(v) && old(self).vars@[v] is Free ==> old(self).grad_index@.dom().contains(v) && old(self).grad_index@[v] < cur@.len(),
            // rows of the shared argument matrix: n >= 1 samples each, one sample per three free parameters (at least one free parameter)
            exists|n: int| 1 <= n && n * 3 + 2 <= usize::MAX && old(self).grad_index@.len() <= n * 3 && #[trigger] uniform(old(self).input_grad@, n),
            old(self).input_grad@.len() >= 1,
            // "Panics if jacobian or result are an invalid size"
            old(jacobian).rows() >= old(self).grad_tapes@.len(), old(jacobian).cols() >= old(self).grad_index@.len(), old(result).len() >= old(self).grad_tapes@.len(),
        ensures
            exists|mats: Seq<Seq<Vec<Grad>>>| mats.len() == old(self).grad_tapes@.len()
                && (forall|t: int| 0 <= t < mats.len() ==> gbound(#[trigger] mats[t], old(self).grad_tapes@[t].vars_spec(), old(self).vars@, old(self).grad_index@, cur@))
                && (forall|t: int, gi: int| 0 <= t < mats.len() && 0 <= gi < old(self).grad_index@.len() ==>
                        #[trigger] final(jacobian).at(t, gi) == gd_lane(<F::GradSliceEval as BulkEvaluator>::bulk_spec(&old(self).grad_tapes@[t], mats[t])[0][gi / 3], gi % 3))
                && (forall|t: int| 0 <= t < mats.len() ==> #[trigger] final(result).at(t) == <F::GradSliceEval as BulkEvaluator>::bulk_spec(&old(self).grad_tapes@[t], mats[t])[0][0].v),
"""

JAC_INV1 = """
            invariant self.grad_tapes@ == old(self).grad_tapes@, self.vars == old(self).vars, self.grad_index@ == old(self).grad_index@, self.input_grad@.len() == old(self).input_grad@.len(),
                uniform(self.input_grad@, n_),
                jacobian.rows() == old(jacobian).rows(), jacobian.cols() == old(jacobian).cols(), result.len() == old(result).len(),
                mats_.len() == ti,
                forall|t: int| 0 <= t < mats_.len() ==> gbound(#[trigger] mats_[t], self.grad_tapes@[t].vars_spec(), self.vars@, self.grad_index@, cur@),
                forall|t: int, gi: int| 0 <= t < mats_.len() && 0 <= gi < self.grad_index@.len() ==>
                        #[trigger] jacobian.at(t, gi) == gd_lane(<F::GradSliceEval as BulkEvaluator>::bulk_spec(&self.grad_tapes@[t], mats_[t])[0][gi / 3], gi % 3),
                forall|t: int| 0 <= t < mats_.len() ==> #[trigger] result.at(t) == <F::GradSliceEval as BulkEvaluator>::bulk_spec(&self.grad_tapes@[t], mats_[t])[0][0].v,
"""

JAC_INV2 = """
                invariant self.grad_tapes@ == old(self).grad_tapes@, self.vars == old(self).vars, self.grad_index@ == old(self).grad_index@, self.input_grad@.len() == old(self).input_grad@.len(),
                    uniform(self.input_grad@, n_),
                    m_ == tape.vars_spec(), m_.wf(), m_.entries().len() <= self.input_grad@.len(),
                    forall|q: int, k: int, j: int| 0 <= q < it2.index() && 0 <= k < m_.entries().len() && (#[trigger] m_.entries()[k]).0 == *(#[trigger] it2.seq()[q]).0 && 0 <= j < n_
                        ==> #[trigger] self.input_grad@[m_.entries()[k].1 as int]@[j] == gval(*it2.seq()[q].1, *it2.seq()[q].0, self.grad_index@, cur@, j),
"""

JAC_INV3 = """
                            invariant @ROW@@.len() == n_,
                                forall|jj: int| 0 <= jj < @J@ ==> #[trigger] @ROW@@[jj] == gval(*p, *v, self.grad_index@, cur@, jj),
"""

JAC_INV4 = """
                invariant jacobian.rows() == old(jacobian).rows(), jacobian.cols() == old(jacobian).cols(),
                    forall|t: int, g: int| 0 <= t < ti && 0 <= g < self.grad_index@.len() ==>
                        #[trigger] jacobian.at(t, g) == gd_lane(<F::GradSliceEval as BulkEvaluator>::bulk_spec(&self.grad_tapes@[t], mats_[t])[0][g / 3], g % 3),
                    forall|g: int| 0 <= g < gi ==> #[trigger] jacobian.at(ti as int, g) == gd_lane(<F::GradSliceEval as BulkEvaluator>::bulk_spec(&self.grad_tapes@[ti as int], mats_[ti as int])[0][g / 3], g % 3),
"""

EXTERNAL_IMPLS = '''
// outside verus!: trait impls the real derives provide (Debug for `unwrap`, Hash for HashMap keys); no run-time meaning here
impl std::fmt::Debug for TracingEvalError { fn fmt(&self, _f: &mut std::fmt::Formatter<'_>) -> std::fmt::Result { Ok(()) } }
impl std::fmt::Debug for BulkEvalError { fn fmt(&self, _f: &mut std::fmt::Formatter<'_>) -> std::fmt::Result { Ok(()) } }
impl std::hash::Hash for Var { fn hash<H: std::hash::Hasher>(&self, _h: &mut H) {} }
'''

GET_ERR_SPEC = """
        requires
            // derived Hash/Eq of Var are consistent (std HashMap model of vstd)
            vstd::std_specs::hash::obeys_key_model::<Var>(),
            // established by Solver::new (not under contract): every tape's variable map is well-formed and fits the shared array; one output
            forall|t: int| 0 <= t < old(self).point_tapes@.len() ==> (#[trigger] old(self).point_tapes@[t]).vars_spec().wf()
                && old(self).point_tapes@[t].vars_spec().entries().len() <= old(self).input_point@.len() && old(self).point_tapes@[t].noutputs() >= 1,
            // grad_index numbers exactly the free parameters, below the length of cur/delta
            forall|v: Var| #[trigger] old(self).vars@.dom().contains(v) && old(self).vars@[v] is Free ==> old(self).grad_index@.dom().contains(v) && old(self).grad_index@[v] < cur@.len(),
            cur@.len() == delta@.len(),
        ensures
            exists|args: Seq<Seq<f32>>| args.len() == old(self).point_tapes@.len()
                && (forall|t: int| 0 <= t < args.len() ==> pbound(#[trigger] args[t], old(self).point_tapes@[t].vars_spec(), old(self).vars@, old(self).grad_index@, cur@, delta@))
                && r == err_sum::<F::PointEval>(old(self).point_tapes@, args, args.len() as int),
"""

OUTER_INV = """
            invariant self.point_tapes@ == old(self).point_tapes@, self.vars == old(self).vars, self.grad_index@ == old(self).grad_index@, self.input_point@.len() == old(self).input_point@.len(),
                args_.len() == it1.index(),
                forall|t: int| 0 <= t < args_.len() ==> pbound(#[trigger] args_[t], self.point_tapes@[t].vars_spec(), self.vars@, self.grad_index@, cur@, delta@),
                err == err_sum::<F::PointEval>(self.point_tapes@, args_, args_.len() as int),
"""

INNER_INV = """
                invariant self.point_tapes@ == old(self).point_tapes@, self.vars == old(self).vars, self.grad_index@ == old(self).grad_index@, self.input_point@.len() == old(self).input_point@.len(),
                    m_ == tape.vars_spec(), m_.wf(), m_.entries().len() <= self.input_point@.len(),
                    // every parameter visited so far sits in the slot this tape's map gives it (distinct keys, distinct indices: later writes keep it)
                    forall|j: int, k: int| 0 <= j < it2.index() && 0 <= k < m_.entries().len() && (#[trigger] m_.entries()[k]).0 == *(#[trigger] it2.seq()[j]).0
                        ==> self.input_point@[m_.entries()[k].1 as int] == pval(*it2.seq()[j].1, *it2.seq()[j].0, self.grad_index@, cur@, delta@),
"""


def build(repo, trace):
    sh = shape_unit.build(repo, trace)
    base = sh['texts']['base']
    so = rsx.clean(open('%s/%s' % (repo, SOLVER_RS)).read(), trace)
    ev = rsx.clean(open('%s/%s' % (repo, EVAL_RS)).read(), trace)
    # the reduced trait Function must agree with the real declaration on the two associated types
    i, j, k = rsx.find_item(ev, r'^trait Function\b', 0, 'trait Function')
    ft = re.sub(r'\s+', ' ', ev[i:k])
    if 'type PointEval: TracingEvaluator< Data = f32,' not in ft or 'type GradSliceEval: BulkEvaluator<Data = Grad,' not in ft:
        raise ExtractError('trait Function: PointEval / GradSliceEval bounds changed')
    trace.drop('trait Function reduced to `type PointEval: TracingEvaluator<Data = f32>` and `type GradSliceEval: BulkEvaluator<Data = Grad>` (other associated types and all methods are not used by the solver workspace)')
    par = rsx.get_item(so, r'^enum Parameter\b', 0, 'enum Parameter')
    par = re.sub(r'#\[derive\([^\]]*\)\]\n?', '', par).strip()
    par = '#[derive(Copy, Clone)]\npub ' + par[par.index('enum Parameter'):]
    st = rsx.get_item(so, r"^struct Solver<'a, F: Function>", 0, 'struct Solver')
    i, j, k = rsx.find_item(so, r"^impl<'a, F: Function> Solver<'a, F>", 0, 'impl Solver')
    hdr = so[i:j]
    i2, j2, k2 = rsx.find_fn(so, 'get_err', j + 1, k - 1)
    fn = so[rsx.line_start(so, i2):k2]
    trace.items.append((SOLVER_RS, 'enum Parameter, struct Solver, Solver::get_err'))
    trace.drop('Solver::new, Solver::get_jacobian, solve (iterator chains, enumerate over iter_mut, nalgebra DMatrix/DVector/SVD): bounded contract solver_bind')
    # R-iter-name: the two loops get a named ghost iterator; `for x in &map` is `for x in map.iter()` (std: IntoIterator for &HashMap)
    old = '        for tape in self.point_tapes.iter() {\n'
    if fn.count(old) != 1:
        raise ExtractError('get_err: outer loop header changed')
    fn = fn.replace(old, '        for tape in it1: self.point_tapes.iter()\n/*@inv1*/        {\n            let ghost m_ = tape.vars_spec();\n            proof { assert(*tape == self.point_tapes@[it1.index()]); }\n')
    old = '            for (v, p) in self.vars {\n'
    if fn.count(old) != 1:
        raise ExtractError('get_err: parameter loop header changed')
    fn = fn.replace(old, '            for (v, p) in it2: self.vars.iter()   // R-intoiter\n/*@inv2*/            {\n')
    trace.fire('R-intoiter')
    # R-continue: `let P = E else { continue; }; REST` at the top level of a for body -> `if let P = E { REST }` (Verus: no continue in for loops)
    m = re.search(r'^( *)let (Some\(\w+\)) = ([^;{]+?) else \{\s*continue;\s*\};\n', fn, re.M)
    if not m or len(re.findall(r'\bcontinue\b', fn)) != 1:
        raise ExtractError('R-continue: get_err has no single let-else-continue')
    # the enclosing for body: the innermost `{` before the match that is the parameter loop's body
    ob = fn.rfind('/*@inv2*/            {', 0, m.start())
    if ob < 0:
        raise ExtractError('R-continue: let-else is not in the parameter loop')
    ob = fn.index('{', ob + len('/*@inv2*/'))
    cb = rsx.match_brace(fn, ob)
    fn = fn[:m.start()] + '%sif let %s = %s {   // R-continue\n' % (m.group(1), m.group(2), m.group(3)) + fn[m.end():cb] + '    }   // R-continue\n' + ' ' * 12 + fn[cb:]
    trace.fire('R-continue')
    # R-hashindex: `map[k]` on a HashMap is `*map.get(k).expect(..)` (std: Index for HashMap); vstd specifies `get`
    fn, n = re.subn(r'\bself\.grad_index\[(\w+)\]', r'*self.grad_index.get(\1).unwrap()', fn)
    if n != 1:
        raise ExtractError('R-hashindex: expected one HashMap index in get_err')
    trace.fire('R-hashindex', n)
    # R-compound: `x += e` on f32 -> `x = x + e` (the compound form crashes this Verus build)
    fn, n = re.subn(r'^(\s*)(\w+) \+= ([^;]+);', r'\1\2 = \2 + \3;', fn, flags=re.M)
    trace.fire('R-compound', n)
    # ---------------- get_jacobian ----------------
    i3, j3, k3 = rsx.find_fn(so, 'get_jacobian', j + 1, k - 1)
    jf = so[rsx.line_start(so, i3):k3]
    trace.items.append((SOLVER_RS, 'Solver::get_jacobian'))
    # nalgebra types -> stand-ins
    for old_t, new_t in (('jacobian: &mut nalgebra::DMatrix<f32>,', 'jacobian: &mut DMatrix,'), ('result: &mut nalgebra::DVector<f32>,', 'result: &mut DVector,')):
        if jf.count(old_t) != 1:
            raise ExtractError('get_jacobian: parameter %r changed' % old_t)
        jf = jf.replace(old_t, new_t)
    trace.drop('nalgebra::DMatrix<f32> / DVector<f32> parameters of get_jacobian: stand-in types DMatrix / DVector (rows/cols/at, get_mut, Index, IndexMut)')
    # R-enumerate: `for (i, x) in V.iter().enumerate() {` -> `for i in 0..V.len() { let x = &V[i];`
    m = re.search(r'^( *)for \((\w+), (\w+)\) in (self\.\w+)\.iter\(\)\.enumerate\(\) \{\n', jf, re.M)
    if not m or len(re.findall(r'\.iter\(\)\.enumerate\(\)', jf)) != 1:
        raise ExtractError('R-enumerate: outer loop of get_jacobian changed')
    jf = jf[:m.start()] + '%sfor %s in 0..%s.len()   // R-enumerate\n/*@jinv1*/%s{\n%s    let %s = &%s[%s];   // R-enumerate\n%s    let ghost m_ = %s.vars_spec();\n' % (
        m.group(1), m.group(2), m.group(4), m.group(1), m.group(1), m.group(3), m.group(4), m.group(2), m.group(1), m.group(3)) + jf[m.end():]
    trace.fire('R-enumerate')
    old = '            for (v, p) in self.vars {\n'
    if jf.count(old) != 1:
        raise ExtractError('get_jacobian: parameter loop header changed')
    jf = jf.replace(old, '            for (v, p) in it2: self.vars.iter()   // R-intoiter\n/*@jinv2*/            {\n')
    trace.fire('R-intoiter')
    m = re.search(r'^( *)let (Some\(\w+\)) = ([^;{]+?) else \{\s*continue;\s*\};\n', jf, re.M)
    if not m or len(re.findall(r'\bcontinue\b', jf)) != 1:
        raise ExtractError('R-continue: get_jacobian has no single let-else-continue')
    ob = jf.rfind('/*@jinv2*/            {', 0, m.start())
    if ob < 0:
        raise ExtractError('R-continue: let-else is not in the parameter loop')
    ob = jf.index('{', ob + len('/*@jinv2*/'))
    cb = rsx.match_brace(jf, ob)
    jf = jf[:m.start()] + '%sif let %s = %s {   // R-continue\n' % (m.group(1), m.group(2), m.group(3)) + jf[m.end():cb] + '    }   // R-continue\n' + ' ' * 12 + jf[cb:]
    trace.fire('R-continue')
    jf, n = re.subn(r'\bself\.grad_index\[(\w+)\]', r'*self.grad_index.get(\1).unwrap()', jf)
    if n != 1:
        raise ExtractError('R-hashindex: expected one HashMap index in get_jacobian')
    trace.fire('R-hashindex', n)
    # R-itermut: `for (j, e) in ROW.iter_mut().enumerate() { *e = X; }` -> `for j in 0..ROW.len() { ROW[j] = X; }`
    m = re.search(r'^( *)for \((\w+), (\w+)\) in (\w+)\.iter_mut\(\)\.enumerate\(\) \{\n', jf, re.M)
    if not m:
        raise ExtractError('R-itermut: seed loop of get_jacobian changed')
    ob = m.end() - 2
    cb = rsx.match_brace(jf, ob)
    body_ = jf[ob + 1:cb]
    el = m.group(3)
    if len(re.findall(r'\*%s = ' % el, body_)) != 1 or len(re.findall(r'\b%s\b' % el, body_)) != 1:
        raise ExtractError('R-itermut: the element of the seed loop is used other than by one assignment')
    body_ = body_.replace('*%s = ' % el, '%s[%s] = ' % (m.group(4), m.group(2)))
    jf = jf[:m.start()] + '%sfor %s in 0..%s.len()   // R-itermut\n%s%s{' % (m.group(1), m.group(2), m.group(4), JAC_INV3.lstrip('\n').replace('@ROW@', m.group(4)).replace('@J@', m.group(2)), m.group(1)) + body_ + jf[cb:]
    trace.fire('R-itermut')
    old = '            for gi in 0..self.grad_index.len() {\n'
    if jf.count(old) != 1:
        raise ExtractError('get_jacobian: read-out loop header changed')
    jf = jf.replace(old, '            for gi in 0..self.grad_index.len()\n/*@jinv4*/            {\n')
    # ---- BulkOutput: Index impl (real text of eval/bulk.rs) and Grad::{new, d} (real text of types/grad.rs)
    bk = rsx.clean(open('%s/%s' % (repo, BULK_RS)).read(), trace)
    i4, j4, k4 = rsx.find_item(bk, r"^impl<'a, T> std::ops::Index<usize> for BulkOutput<'a, T>", 0, 'impl Index for BulkOutput')
    bidx = bk[i4:k4]
    old = "    fn index(&self, i: usize) -> &'a Self::Output {"
    if bidx.count(old) != 1:
        raise ExtractError('impl Index for BulkOutput changed')
    bidx = bidx.replace(old, "    fn index(&self, i: usize) -> (r: &'a Self::Output)\n        ensures r@ == self.data@[i as int]@.subrange(0, self.len as int)\n    {")
    trace.items.append((BULK_RS, 'impl Index<usize> for BulkOutput'))
    gr = rsx.clean(open('%s/%s' % (repo, GRAD_RS)).read(), trace)
    a4, b4 = rsx.impl_block(gr, r'^impl Grad\b', 'impl Grad')
    gfns = []
    for name in ('new', 'd'):
        i5, j5, k5 = rsx.find_fn(gr, name, a4, b4)
        gfns.append(gr[rsx.line_start(gr, i5):k5])
    trace.items.append((GRAD_RS, 'Grad::new, Grad::d'))
    gimpl = 'impl Grad {\n' + '\n\n'.join(gfns) + '\n}\n'
    text = base
    if text.count('\nverus! {\n') != 1:
        raise ExtractError('unit shape text has no single verus! opening')
    text = text.replace('\nverus! {\n', '\nuse std::collections::HashMap;\nuse vstd::std_specs::core::IndexSpecImpl;\nverus! {\n')
    items = par + '\n\n' + st + '\n\n' + hdr + '{\n' + fn + '\n\n' + jf + '\n}\n\n' + bidx + '\n\n' + gimpl
    marker = '\n} // verus!'
    if text.count(marker) != 1:
        raise ExtractError('unit shape text has no verus! end marker')
    text = text.replace(marker, '\n' + items + marker + EXTERNAL_IMPLS)
    inj = Injector(text, trace)
    inj.spec('Solver::get_err', 'r: f32', GET_ERR_SPEC)
    inj.replace_once('/*@inv1*/', OUTER_INV.lstrip('\n'), 'R-iter-name')
    inj.replace_once('/*@inv2*/', INNER_INV.lstrip('\n'), 'R-iter-name')
    inj.attr('Solver::get_err', '#[verifier::loop_isolation(false)]')
    inj.proof('Solver::get_err', '$START', "        proof { ax_float_total_solver(); }\n        broadcast use vstd::std_specs::hash::group_hash_axioms;\n        let ghost mut args_: Seq<Seq<f32>> = Seq::empty();")
    inj.proof('Solver::get_err', 'let gi = *self.grad_index.get(v).unwrap();', "                        proof { assert(self.vars@.dom().contains(*v) && self.vars@[*v] == *p); }", before=True)
    inj.proof('Solver::get_err', '            let (out, _t) =', """            proof {
                assert(pbound(self.input_point@, m_, self.vars@, self.grad_index@, cur@, delta@));
                lemma_err_sum_ext::<F::PointEval>(self.point_tapes@, args_, args_.push(self.input_point@), args_.len() as int);
                args_ = args_.push(self.input_point@);
            }""", before=True)
    # ---- get_jacobian: contract, invariants, ghost state
    inj.spec('Solver::get_jacobian', None, GET_JAC_SPEC)
    inj.replace_once('/*@jinv1*/', JAC_INV1.lstrip('\n'), 'R-enumerate')
    inj.replace_once('/*@jinv2*/', JAC_INV2.lstrip('\n'), 'R-intoiter')
    inj.replace_once('/*@jinv4*/', JAC_INV4.lstrip('\n'), 'R-iter-name')
    inj.attr('Solver::get_jacobian', '#[verifier::loop_isolation(false)]')
    inj.proof('Solver::get_jacobian', '$START', """        broadcast use vstd::std_specs::hash::group_hash_axioms;
        let ghost mut mats_: Seq<Seq<Vec<Grad>>> = Seq::empty();
        let ghost n_ = choose|n: int| 1 <= n && n * 3 + 2 <= usize::MAX && old(self).grad_index@.len() <= n * 3 && #[trigger] uniform(old(self).input_grad@, n);""")
    inj.proof('Solver::get_jacobian', 'let gi = *self.grad_index.get(v).unwrap();', "                        proof { assert(self.vars@.dom().contains(*v) && self.vars@[*v] == *p); }", before=True)
    inj.proof('Solver::get_jacobian', '            let out = self.grad_eval.eval(', """            proof { assert(gbound(self.input_grad@, m_, self.vars@, self.grad_index@, cur@)); mats_ = mats_.push(self.input_grad@); }""", before=True)
    inj.proof('Solver::get_jacobian', 'let out = self.grad_eval.eval(tape, &self.input_grad).unwrap();', """            proof { assert(bsize(self.input_grad@) == n_); assert(out.len == n_); assert(out.data@[0]@.len() >= out.len); }""")
    inj.spec('Grad::new', 'r: Self', '\n        ensures r == (Grad { v, dx, dy, dz })\n')
    inj.spec('Grad::d', 'r: f32', '\n        requires i < 3\n        ensures r == gd_lane(*self, i as int)\n')
    inj.append_items(JAC_ITEMS)
    inj.append_items(SPEC_ITEMS)
    obls = [Obligation('solver::Solver::get_jacobian', 'solver', 'Solver::get_jacobian', props=PROPS), Obligation('solver::Grad::new', 'solver', 'Grad::new', props=PROPS), Obligation('solver::Grad::d', 'solver', 'Grad::d', props=PROPS),
            Obligation('solver::<BulkOutput as Index>::index', 'solver', 'BulkOutput::index', props=PROPS),
            Obligation('solver::Solver::get_err', 'solver', 'Solver::get_err', props=PROPS),
            Obligation('solver::lemma_err_sum_ext', 'solver', 'lemma_err_sum_ext', props=PROPS, kind='lemma')]
    return {'texts': {'base': inj.s}, 'obligations': obls, 'canary_fns': ['Solver::get_err', 'Solver::get_jacobian'], 'verus_args': sh.get('verus_args', [])}
