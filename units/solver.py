"""Unit `solver` (C14, solver call site): `Solver::get_err` of fidget-solver/src/lib.rs on its real text.

The solver keeps ONE argument array (`input_point`) for all equations, although every equation's tape numbers its variables in
its own first-encounter order; before each evaluation it walks the parameter map (a HashMap) and writes every parameter the tape
uses into the slot the tape's own variable map assigns to it.  Contract (get_err): for every equation t, the argument vector the
point evaluator is called with binds, by identity, every parameter that occurs in tape t's variable map - the fixed value for a
Fixed parameter, cur[gi] - delta[gi] with gi = grad_index[v] for a Free one - whatever the other tapes wrote before; the result
is the sum of the squared first outputs; no panic (both `unwrap`s, every index).

The declarations the function depends on (Var, VarIndex, VarMap stub, traits Tape / TracingEvaluator / BulkEvaluator with their
spec twins, Grad stand-in) are the ones unit `shape` extracts: this unit is the text of unit `shape` plus the solver items.
`Solver::get_jacobian` (enumerate over iter_mut, nalgebra DMatrix::get_mut, slice::fill) and `Solver::new` / `solve` (iterator
chains, SVD) are outside the verifier subset: bounded contract `solver_bind`."""
import re
from lib import rsx
from lib.rsx import ExtractError
from lib.verus_engine import Injector, Obligation
from units import shape as shape_unit

SOLVER_RS = 'fidget-solver/src/lib.rs'
EVAL_RS = 'fidget-core/src/eval/mod.rs'
PROPS = ['C14']

SPEC_ITEMS = r'''
// =================== unit solver: stand-ins and specification ===================
/// trait Function, reduced to the two associated types the solver uses (bounds `Data = f32` / `Data = Grad` as in the real
/// declaration, checked by the extractor)
pub trait Function {
    type PointEval: TracingEvaluator<Data = f32>;
    type GradSliceEval: BulkEvaluator<Data = Grad>;
}
pub uninterp spec fn powi_spec(a: f32, n: int) -> f32;
pub assume_specification [f32::powi] (x: f32, n: i32) -> (r: f32) ensures r == powi_spec(x, n as int);
/// AX-float-total (the part used here): f32 `+` and `-` are total and equal their spec functions
pub proof fn ax_float_total_solver()
    ensures
        <f32 as AddSpec<f32>>::obeys_add_spec(), forall|a: f32, b: f32| #[trigger] <f32 as AddSpec<f32>>::add_req(a, b),
        <f32 as SubSpec<f32>>::obeys_sub_spec(), forall|a: f32, b: f32| #[trigger] <f32 as SubSpec<f32>>::sub_req(a, b),
{ admit(); }
impl VarMap {
    /// `VarMap::get`: the index of a variable, if the map has it (HashMap lookup; stub)
    #[verifier::external_body]
    pub fn get(&self, v: &Var) -> (r: Option<usize>)
        ensures r is Some <==> exists|k: int| 0 <= k < self.entries().len() && (#[trigger] self.entries()[k]).0 == *v,
            r is Some ==> exists|k: int| 0 <= k < self.entries().len() && (#[trigger] self.entries()[k]) == (*v, r->Some_0),
    { unimplemented!() }
}
/// the value a parameter has during this error evaluation
pub open spec fn pval(p: Parameter, v: Var, gi: Map<Var, usize>, cur: Seq<f32>, delta: Seq<f32>) -> f32 {
    match p { Parameter::Free(_) => cur[gi[v] as int].sub_spec(delta[gi[v] as int]), Parameter::Fixed(f) => f }
}
/// the argument vector binds, by identity, every parameter that the tape uses
pub open spec fn pbound(s: Seq<f32>, m: VarMap, vars: Map<Var, Parameter>, gi: Map<Var, usize>, cur: Seq<f32>, delta: Seq<f32>) -> bool {
    forall|k: int| 0 <= k < m.entries().len() && vars.dom().contains((#[trigger] m.entries()[k]).0)
        ==> s[m.entries()[k].1 as int] == pval(vars[m.entries()[k].0], m.entries()[k].0, gi, cur, delta)
}
/// sum of the squared first outputs of the first n equations, each on its own argument vector
pub open spec fn err_sum<E: TracingEvaluator<Data = f32>>(tapes: Seq<E::Tape>, args: Seq<Seq<f32>>, n: int) -> f32
    decreases n
{
    if n <= 0 { 0f32 } else { err_sum::<E>(tapes, args, n - 1).add_spec(powi_spec(E::out_spec(&tapes[n - 1], args[n - 1])[0], 2)) }
}
pub proof fn lemma_err_sum_ext<E: TracingEvaluator<Data = f32>>(tapes: Seq<E::Tape>, a: Seq<Seq<f32>>, b: Seq<Seq<f32>>, n: int)
    requires forall|t: int| 0 <= t < n ==> a[t] == b[t],
    ensures err_sum::<E>(tapes, a, n) == err_sum::<E>(tapes, b, n),
    decreases n
{
    if n > 0 { lemma_err_sum_ext::<E>(tapes, a, b, n - 1); }
}
'''

EXTERNAL_IMPLS = '''
// outside verus!: trait impls the real derives provide (Debug for `unwrap`, Hash for HashMap keys); no run-time meaning here
impl std::fmt::Debug for TracingEvalError { fn fmt(&self, _f: &mut std::fmt::Formatter<'_>) -> std::fmt::Result { Ok(()) } }
impl std::fmt::Debug for BulkEvalError { fn fmt(&self, _f: &mut std::fmt::Formatter<'_>) -> std::fmt::Result { Ok(()) } }
impl std::hash::Hash for Var { fn hash<H: std::hash::Hasher>(&self, _h: &mut H) {} }
'''

GET_ERR_SPEC = """
        requires
            // derived Hash/Eq of Var are consistent (std HashMap model of vstd)
            vstd::std_specs::hash::obeys_key_model::<Var>(),
            // established by Solver::new (not under contract): every tape's variable map is well-formed and fits the shared array; one output
            forall|t: int| 0 <= t < old(self).point_tapes@.len() ==> (#[trigger] old(self).point_tapes@[t]).vars_spec().wf()
                && old(self).point_tapes@[t].vars_spec().entries().len() <= old(self).input_point@.len() && old(self).point_tapes@[t].noutputs() >= 1,
            // grad_index numbers exactly the free parameters, below the length of cur/delta
            forall|v: Var| #[trigger] old(self).vars@.dom().contains(v) && old(self).vars@[v] is Free ==> old(self).grad_index@.dom().contains(v) && old(self).grad_index@[v] < cur@.len(),
            cur@.len() == delta@.len(),
        ensures
            exists|args: Seq<Seq<f32>>| args.len() == old(self).point_tapes@.len()
                && (forall|t: int| 0 <= t < args.len() ==> pbound(#[trigger] args[t], old(self).point_tapes@[t].vars_spec(), old(self).vars@, old(self).grad_index@, cur@, delta@))
                && r == err_sum::<F::PointEval>(old(self).point_tapes@, args, args.len() as int),
"""

OUTER_INV = """
            invariant self.point_tapes@ == old(self).point_tapes@, self.vars == old(self).vars, self.grad_index@ == old(self).grad_index@, self.input_point@.len() == old(self).input_point@.len(),
                args_.len() == it1.index(),
                forall|t: int| 0 <= t < args_.len() ==> pbound(#[trigger] args_[t], self.point_tapes@[t].vars_spec(), self.vars@, self.grad_index@, cur@, delta@),
                err == err_sum::<F::PointEval>(self.point_tapes@, args_, args_.len() as int),
"""

INNER_INV = """
                invariant self.point_tapes@ == old(self).point_tapes@, self.vars == old(self).vars, self.grad_index@ == old(self).grad_index@, self.input_point@.len() == old(self).input_point@.len(),
                    m_ == tape.vars_spec(), m_.wf(), m_.entries().len() <= self.input_point@.len(),
                    // every parameter visited so far sits in the slot this tape's map gives it (distinct keys, distinct indices: later writes keep it)
                    forall|j: int, k: int| 0 <= j < it2.index() && 0 <= k < m_.entries().len() && (#[trigger] m_.entries()[k]).0 == *(#[trigger] it2.seq()[j]).0
                        ==> self.input_point@[m_.entries()[k].1 as int] == pval(*it2.seq()[j].1, *it2.seq()[j].0, self.grad_index@, cur@, delta@),
"""


def build(repo, trace):
    sh = shape_unit.build(repo, trace)
    base = sh['texts']['base']
    so = rsx.clean(open('%s/%s' % (repo, SOLVER_RS)).read(), trace)
    ev = rsx.clean(open('%s/%s' % (repo, EVAL_RS)).read(), trace)
    # the reduced trait Function must agree with the real declaration on the two associated types
    i, j, k = rsx.find_item(ev, r'^trait Function\b', 0, 'trait Function')
    ft = re.sub(r'\s+', ' ', ev[i:k])
    if 'type PointEval: TracingEvaluator< Data = f32,' not in ft or 'type GradSliceEval: BulkEvaluator<Data = Grad,' not in ft:
        raise ExtractError('trait Function: PointEval / GradSliceEval bounds changed')
    trace.drop('trait Function reduced to `type PointEval: TracingEvaluator<Data = f32>` and `type GradSliceEval: BulkEvaluator<Data = Grad>` (other associated types and all methods are not used by the solver workspace)')
    par = rsx.get_item(so, r'^enum Parameter\b', 0, 'enum Parameter')
    par = re.sub(r'#\[derive\([^\]]*\)\]\n?', '', par).strip()
    par = '#[derive(Copy, Clone)]\npub ' + par[par.index('enum Parameter'):]
    st = rsx.get_item(so, r"^struct Solver<'a, F: Function>", 0, 'struct Solver')
    i, j, k = rsx.find_item(so, r"^impl<'a, F: Function> Solver<'a, F>", 0, 'impl Solver')
    hdr = so[i:j]
    i2, j2, k2 = rsx.find_fn(so, 'get_err', j + 1, k - 1)
    fn = so[rsx.line_start(so, i2):k2]
    trace.items.append((SOLVER_RS, 'enum Parameter, struct Solver, Solver::get_err'))
    trace.drop('Solver::new, Solver::get_jacobian, solve (iterator chains, enumerate over iter_mut, nalgebra DMatrix/DVector/SVD): bounded contract solver_bind')
    # R-iter-name: the two loops get a named ghost iterator; `for x in &map` is `for x in map.iter()` (std: IntoIterator for &HashMap)
    old = '        for tape in self.point_tapes.iter() {\n'
    if fn.count(old) != 1:
        raise ExtractError('get_err: outer loop header changed')
    fn = fn.replace(old, '        for tape in it1: self.point_tapes.iter()\n/*@inv1*/        {\n            let ghost m_ = tape.vars_spec();\n            proof { assert(*tape == self.point_tapes@[it1.index()]); }\n')
    old = '            for (v, p) in self.vars {\n'
    if fn.count(old) != 1:
        raise ExtractError('get_err: parameter loop header changed')
    fn = fn.replace(old, '            for (v, p) in it2: self.vars.iter()   // R-intoiter\n/*@inv2*/            {\n')
    trace.fire('R-intoiter')
    # R-continue: `let P = E else { continue; }; REST` at the top level of a for body -> `if let P = E { REST }` (Verus: no continue in for loops)
    m = re.search(r'^( *)let (Some\(\w+\)) = ([^;{]+?) else \{\s*continue;\s*\};\n', fn, re.M)
    if not m or len(re.findall(r'\bcontinue\b', fn)) != 1:
        raise ExtractError('R-continue: get_err has no single let-else-continue')
    # the enclosing for body: the innermost `{` before the match that is the parameter loop's body
    ob = fn.rfind('/*@inv2*/            {', 0, m.start())
    if ob < 0:
        raise ExtractError('R-continue: let-else is not in the parameter loop')
    ob = fn.index('{', ob + len('/*@inv2*/'))
    cb = rsx.match_brace(fn, ob)
    fn = fn[:m.start()] + '%sif let %s = %s {   // R-continue\n' % (m.group(1), m.group(2), m.group(3)) + fn[m.end():cb] + '    }   // R-continue\n' + ' ' * 12 + fn[cb:]
    trace.fire('R-continue')
    # R-hashindex: `map[k]` on a HashMap is `*map.get(k).expect(..)` (std: Index for HashMap); vstd specifies `get`
    fn, n = re.subn(r'\bself\.grad_index\[(\w+)\]', r'*self.grad_index.get(\1).unwrap()', fn)
    if n != 1:
        raise ExtractError('R-hashindex: expected one HashMap index in get_err')
    trace.fire('R-hashindex', n)
    # R-compound: `x += e` on f32 -> `x = x + e` (the compound form crashes this Verus build)
    fn, n = re.subn(r'^(\s*)(\w+) \+= ([^;]+);', r'\1\2 = \2 + \3;', fn, flags=re.M)
    trace.fire('R-compound', n)
    text = base
    if text.count('\nverus! {\n') != 1:
        raise ExtractError('unit shape text has no single verus! opening')
    text = text.replace('\nverus! {\n', '\nuse std::collections::HashMap;\nverus! {\n')
    items = par + '\n\n' + st + '\n\n' + hdr + '{\n' + fn + '\n}\n'
    marker = '\n} // verus!'
    if text.count(marker) != 1:
        raise ExtractError('unit shape text has no verus! end marker')
    text = text.replace(marker, '\n' + items + marker + EXTERNAL_IMPLS)
    inj = Injector(text, trace)
    inj.spec('Solver::get_err', 'r: f32', GET_ERR_SPEC)
    inj.replace_once('/*@inv1*/', OUTER_INV.lstrip('\n'), 'R-iter-name')
    inj.replace_once('/*@inv2*/', INNER_INV.lstrip('\n'), 'R-iter-name')
    inj.attr('Solver::get_err', '#[verifier::loop_isolation(false)]')
    inj.proof('Solver::get_err', '$START', "        proof { ax_float_total_solver(); }\n        broadcast use vstd::std_specs::hash::group_hash_axioms;\n        let ghost mut args_: Seq<Seq<f32>> = Seq::empty();")
    inj.proof('Solver::get_err', 'let gi = *self.grad_index.get(v).unwrap();', "                        proof { assert(self.vars@.dom().contains(*v) && self.vars@[*v] == *p); }", before=True)
    inj.proof('Solver::get_err', '            let (out, _t) =', """            proof {
                assert(pbound(self.input_point@, m_, self.vars@, self.grad_index@, cur@, delta@));
                lemma_err_sum_ext::<F::PointEval>(self.point_tapes@, args_, args_.push(self.input_point@), args_.len() as int);
                args_ = args_.push(self.input_point@);
            }""", before=True)
    inj.append_items(SPEC_ITEMS)
    obls = [Obligation('solver::Solver::get_err', 'solver', 'Solver::get_err', props=PROPS),
            Obligation('solver::lemma_err_sum_ext', 'solver', 'lemma_err_sum_ext', props=PROPS, kind='lemma')]
    return {'texts': {'base': inj.s}, 'obligations': obls, 'canary_fns': ['Solver::get_err']}
