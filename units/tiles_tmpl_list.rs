pub fn tile_list(tile_sizes: TileSizesRef<'_>, width: usize, height: usize) -> (tiles: Vec<Tile<2>>)
/*G*/    requires tile_sizes.0@.len() >= 1, tile_sizes.0@[0] >= 1, width + tile_sizes.0@[0] <= usize::MAX, height + tile_sizes.0@[0] <= usize::MAX,
/*G*/    ensures ({
/*G*/        let t = tile_sizes.0@[0] as int;
/*G*/        // one tile per root tile of the image, each aligned and starting inside the image, no tile twice, every pixel covered
/*G*/        &&& forall|k: int| 0 <= k < tiles@.len() ==> (#[trigger] tiles@[k]).corner.x as int % t == 0 && tiles@[k].corner.y as int % t == 0 && tiles@[k].corner.x < width && tiles@[k].corner.y < height
/*G*/        &&& forall|k1: int, k2: int| 0 <= k1 < k2 < tiles@.len() ==> (#[trigger] tiles@[k1]).corner != (#[trigger] tiles@[k2]).corner
/*G*/        &&& forall|x: int, y: int| 0 <= x < width && 0 <= y < height ==> covers(tiles@, t, x, y)
/*G*/    })
{
    let mut tiles = Vec::new();
    let t = *tile_sizes.index(0);
/*G*/    let ghost t_ = t as int;
/*G*/    let ghost nx = div_ceil_spec(width as int, t_);
/*G*/    let ghost ny = div_ceil_spec(height as int, t_);
/*G*/    proof { lemma_div_ceil(width as int, t_); lemma_div_ceil(height as int, t_); assert(0 * ny == 0); }
    let nx_ = div_ceil_usize(width, t);   // R-hoist-range
    for i in 0..nx_
/*G*/        invariant t_ == t, t_ >= 1, t == tile_sizes.0@[0], tile_sizes.0@.len() >= 1, nx_ == nx, nx == div_ceil_spec(width as int, t_), ny == div_ceil_spec(height as int, t_), nx >= 0, ny >= 0,
/*G*/            nx * t >= width, (nx - 1) * t < (width as int) || (width == 0 && nx == 0), ny * t >= height, (ny - 1) * t < (height as int) || (height == 0 && ny == 0),
/*G*/            width + t <= usize::MAX, height + t <= usize::MAX,
/*G*/            tile_grid(tiles@, t_, i as int, ny),
    {
/*G*/        proof { assert(i * ny + 0 == i * ny); assert(i * t <= (nx - 1) * t) by (nonlinear_arith) requires 0 <= i <= nx - 1, t >= 1; }
        let ny_ = div_ceil_usize(height, t);   // R-hoist-range
        for j in 0..ny_
/*G*/            invariant t_ == t, t_ >= 1, t == tile_sizes.0@[0], tile_sizes.0@.len() >= 1, 0 <= i < nx, i * t <= (nx - 1) * t, (nx - 1) * t < (width as int), ny_ == ny, ny >= 0, ny * t >= height, (ny - 1) * t < (height as int) || (height == 0 && ny == 0),
/*G*/                width + t <= usize::MAX, height + t <= usize::MAX,
/*G*/                tiles@.len() == i * ny + j,
/*G*/                forall|a: int, b: int| (0 <= a < i && 0 <= b < ny) || (a == i && 0 <= b < j) ==> (#[trigger] tiles@[a * ny + b]).corner.x == a * t_ && tiles@[a * ny + b].corner.y == b * t_,
        {
/*G*/            proof { assert(j * t <= (ny - 1) * t) by (nonlinear_arith) requires 0 <= j <= ny - 1, t >= 1; }
/*G*/            let ghost old_ = tiles@;
            tiles.push(Tile::new(Point2::new(
                i * *tile_sizes.index(0),
                j * *tile_sizes.index(0),
            )));
/*G*/            proof {
/*G*/                assert forall|a: int, b: int| (0 <= a < i && 0 <= b < ny) || (a == i && 0 <= b < j + 1) implies (#[trigger] tiles@[a * ny + b]).corner.x == a * t_ && tiles@[a * ny + b].corner.y == b * t_ by {
/*G*/                    if a < i { assert(a * ny + b < i * ny) by (nonlinear_arith) requires 0 <= a < i, 0 <= b < ny; assert(a * ny + b >= 0) by (nonlinear_arith) requires 0 <= a, 0 <= b, ny >= 0; assert(tiles@[a * ny + b] == old_[a * ny + b]); }
/*G*/                    else if b < j { assert(tiles@[a * ny + b] == old_[a * ny + b]); }
/*G*/                }
/*G*/            }
        }
/*G*/        proof { assert((i + 1) * ny == i * ny + ny) by (nonlinear_arith); }
    }
/*G*/    proof { lemma_grid(tiles@, t_, nx, ny, width as int, height as int); }
    tiles
}