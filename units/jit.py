"""Unit `jit` (C02; legs of C10, C11, C20): the Rust drivers around the emitted machine code, fidget-jit/src/lib.rs, on their real text.

* `JitBulkEval::eval` (the many-point driver: scratch copy for n < SIMD, round-down call, re-evaluation of the last full vector)
* `JitTracingEval::eval` (the single-point / interval driver: trace and output arrays sized and cleared before every call)
* the two `impl SimdSize` blocks (`SIMD_SIZE` within 1..=MAX_SIMD_WIDTH, for both architectures' SIMD_WIDTH)

The emitted function itself is outside verifier reach.  It appears as ONE trusted stand-in per driver, `call_bulk` / `call_trace`,
whose contract is what the machine code is *assumed* to do (and what the bounded contracts jit_point / jit_bulk / jit_trace / reuse
exercise natively): given pointers that are valid for `count` elements, it reads exactly `count` elements from every input pointer and
writes `sem(k, column)` to exactly `count` elements of every output pointer.  Everything the property says about slice lengths is then
a proof obligation on the driver: every pointer handed to the machine code is valid for the count passed with it (no read or write
outside the caller's slices / the evaluator's own arrays, `ptr::add` stays inside its allocation), the count is a multiple of the SIMD
width, and the returned matrix has one row per output with exactly one result per input sample, for every n (0, < SIMD, not a multiple).

Raw pointers are replaced by ghost-carrying stand-ins (R-ptr): `*const T` -> `CPtr<T>` (contents of the allocation it was taken from,
offset), `*mut T` -> `MPtr<T>` (row of the output matrix, length of that row when the pointer was taken, offset); `as_ptr`/`as_mut_ptr`/
`add` keep their call shapes.  The call through the function pointer gets the evaluator's output matrix as an explicit frame (R-call):
that is where the `*mut` pointers point, which the precondition of the stand-in checks (row k, current length)."""
import re
from lib import rsx
from lib.rsx import ExtractError
from lib.verus_engine import Injector, Obligation
from units import jit_dispatch

JIT_RS = 'fidget-jit/src/lib.rs'
VM_RS = 'fidget-core/src/vm/mod.rs'
CHOICE_RS = 'fidget-core/src/vm/choice.rs'
BULK_RS = 'fidget-core/src/eval/bulk.rs'
PROPS = ['C02']

PRELUDE = r'''
// =================== stand-ins for raw pointers (R-ptr) ===================
/// `*const T`: ghost description of the address - contents of the allocation it was taken from, and the offset into it
pub struct CPtr<T> { pub data: Ghost<Seq<T>>, pub off: Ghost<int> }
/// `*mut T` into the output matrix: which row, how long that row was when the pointer was taken, offset
pub struct MPtr<T> { pub row: Ghost<int>, pub len: Ghost<int>, pub off: Ghost<int>, pub _p: core::marker::PhantomData<T> }
impl<T> Clone for CPtr<T> { fn clone(&self) -> (r: Self) ensures r == *self { CPtr { data: self.data, off: self.off } } }
impl<T> Copy for CPtr<T> {}
impl<T> Clone for MPtr<T> { fn clone(&self) -> (r: Self) ensures r == *self { MPtr { row: self.row, len: self.len, off: self.off, _p: core::marker::PhantomData } } }
impl<T> Copy for MPtr<T> {}
impl<T> CPtr<T> {
    /// `ptr::add`: the result must stay inside the allocation (std's safety requirement)
    #[verifier::external_body]
    pub fn add(self, k: usize) -> (r: CPtr<T>) requires 0 <= self.off@ + k <= self.data@.len() ensures r.data@ == self.data@, r.off@ == self.off@ + k { unimplemented!() }
}
impl<T> MPtr<T> {
    #[verifier::external_body]
    pub fn add(self, k: usize) -> (r: MPtr<T>) requires 0 <= self.off@ + k <= self.len@ ensures r.row@ == self.row@, r.len@ == self.len@, r.off@ == self.off@ + k { unimplemented!() }
}
/// `as_ptr` of a slice-like container
pub trait AsCPtr<T> {
    spec fn seq_(&self) -> Seq<T>;
    fn as_cptr(&self) -> (r: CPtr<T>) ensures r.data@ == self.seq_(), r.off@ == 0;
}
impl<T> AsCPtr<T> for Vec<T> {
    open spec fn seq_(&self) -> Seq<T> { self@ }
    #[verifier::external_body]
    fn as_cptr(&self) -> (r: CPtr<T>) { unimplemented!() }
}
impl<T, const N: usize> AsCPtr<T> for [T; N] {
    open spec fn seq_(&self) -> Seq<T> { self@ }
    #[verifier::external_body]
    fn as_cptr(&self) -> (r: CPtr<T>) { unimplemented!() }
}
/// `as_mut_ptr` of row `row` of the output matrix (the row index is known to the rewrite of `iter_mut().map(..)` into an index loop)
#[verifier::external_body]
pub fn as_mptr<T>(v: &mut Vec<T>, row: Ghost<int>) -> (r: MPtr<T>) ensures r.row@ == row@, r.len@ == old(v)@.len(), r.off@ == 0, final(v)@ == old(v)@ { unimplemented!() }

// =================== std ===================
/// R-nanconst: `f32::NAN.into()` at a generic `T: From<f32>`; the value is never constrained
#[verifier::external_body]
pub fn nan_of<T: From<f32>>() -> T { f32::NAN.into() }
pub assume_specification<T, A: core::alloc::Allocator, F: FnMut() -> T>[ Vec::<T, A>::resize_with ](v: &mut Vec<T, A>, new_len: usize, f: F)
    ensures final(v)@.len() == new_len;
pub assume_specification<T: Clone>[ <[T]>::fill ](s: &mut [T], value: T)
    ensures final(s)@.len() == old(s)@.len(),
        forall|i: int| 0 <= i < old(s)@.len() ==> cloned(value, #[trigger] final(s)@[i]);
/// R-copyprefix: `dst[0..n].copy_from_slice(src)` (std: panics unless n <= N and src has length n; then copies element by element)
pub fn copy_prefix_arr<T: Copy, const N: usize>(dst: &mut [T; N], src: &Vec<T>, n: usize)
    requires N >= n, src@.len() == n
    ensures forall|j: int| 0 <= j < n ==> #[trigger] final(dst)@[j] == src@[j],
        forall|j: int| n <= j < N ==> #[trigger] final(dst)@[j] == old(dst)@[j],
{
    let mut j: usize = 0;
    while j < n
        invariant 0 <= j <= n, N >= n, src@.len() == n,
            forall|q: int| 0 <= q < j ==> #[trigger] dst@[q] == src@[q],
            forall|q: int| j <= q < N ==> #[trigger] dst@[q] == old(dst)@[q],
        decreases n - j
    {
        dst[j] = src[j];
        j += 1;
    }
}
/// `usize::min` / `usize::max` (R-minmax)
pub fn min_usize(a: usize, b: usize) -> (r: usize) ensures r == (if a <= b { a } else { b }) { if a <= b { a } else { b } }
pub fn max_usize(a: usize, b: usize) -> (r: usize) ensures r == (if a >= b { a } else { b }) { if a >= b { a } else { b } }

// =================== the compiled functions (trusted stand-ins: what the machine code is assumed to do) ===================
pub struct JitBulkFn<T> { pub output_count: usize, pub _p: core::marker::PhantomData<T> }
impl<T> JitBulkFn<T> {
    pub fn output_count(&self) -> (r: usize) ensures r == self.output_count { self.output_count }
    /// number of input rows the function reads (length of its variable map)
    pub uninterp spec fn var_count(&self) -> nat;
    /// value of output `k` on one input column
    pub uninterp spec fn sem(&self, k: int, col: Seq<T>) -> T;
}
pub struct JitTracingFn<T> { pub choice_count: usize, pub output_count: usize, pub _p: core::marker::PhantomData<T> }
impl<T> JitTracingFn<T> {
    pub uninterp spec fn var_count(&self) -> nat;
    pub uninterp spec fn sem(&self, k: int, vars: Seq<T>) -> T;
    /// the choice taken at clause `i`
    pub uninterp spec fn tr(&self, i: int, vars: Seq<T>) -> Choice;
}
pub open spec fn incol<T>(ins: Seq<CPtr<T>>, j: int) -> Seq<T> { Seq::new(ins.len(), |i: int| ins[i].data@[ins[i].off@ + j]) }
pub open spec fn dec(c: Choice) -> bool { c == Choice::Left || c == Choice::Right }
pub open spec fn ch_or(a: Choice, b: Choice) -> Choice {
    match (a, b) {
        (Choice::Unknown, x) => x,
        (x, Choice::Unknown) => x,
        (Choice::Left, Choice::Left) => Choice::Left,
        (Choice::Right, Choice::Right) => Choice::Right,
        _ => Choice::Both,
    }
}
impl Clone for Choice { fn clone(&self) -> (r: Self) ensures r == *self { match self { Choice::Unknown => Choice::Unknown, Choice::Left => Choice::Left, Choice::Right => Choice::Right, Choice::Both => Choice::Both } } }
impl Copy for Choice {}

/// R-call: `(tape.fn_bulk)(input_ptrs.as_ptr(), output_ptrs.as_ptr(), count)`; `mem` is the matrix the output pointers point into.
/// Preconditions = validity of every pointer for `count` elements; postcondition = exactly those elements are written.
#[verifier::external_body]
pub fn call_bulk<T: SimdSize>(f: &JitBulkFn<T>, ins: &Vec<CPtr<T>>, outs: &Vec<MPtr<T>>, count: u64, mem: &mut Vec<Vec<T>>)
    requires
        T::SIMD_SIZE > 0, count as int % T::SIMD_SIZE as int == 0,
        ins@.len() >= f.var_count(),
        forall|i: int| 0 <= i < ins@.len() ==> 0 <= (#[trigger] ins@[i]).off@ && ins@[i].off@ + count <= ins@[i].data@.len(),
        outs@.len() == f.output_count, old(mem)@.len() == f.output_count,
        forall|k: int| 0 <= k < outs@.len() ==> (#[trigger] outs@[k]).row@ == k && outs@[k].len@ == old(mem)@[k]@.len() && 0 <= outs@[k].off@ && outs@[k].off@ + count <= outs@[k].len@,
    ensures
        final(mem)@.len() == old(mem)@.len(),
        forall|k: int| 0 <= k < outs@.len() ==> (#[trigger] final(mem)@[k])@.len() == old(mem)@[k]@.len(),
        forall|k: int, j: int| 0 <= k < outs@.len() && 0 <= j < old(mem)@[k]@.len() ==> #[trigger] final(mem)@[k]@[j] == (
            if outs@[k].off@ <= j < outs@[k].off@ + count { f.sem(k, incol(ins@, j - outs@[k].off@)) } else { old(mem)@[k]@[j] }),
{ unimplemented!() }

/// R-call: `(tape.fn_trace)(vars.as_ptr(), choices.as_mut_ptr() as *mut u8, &mut simplify, out.as_mut_ptr())`.
/// The machine code ORs one choice per clause into the trace, sets the flag when a clause is decided, writes every output.
#[verifier::external_body]
pub fn call_trace<T>(f: &JitTracingFn<T>, vars: &[T], choices: &mut VmTrace, simplify: &mut u8, out: &mut Vec<T>)
    requires vars@.len() >= f.var_count(), old(choices).0@.len() == f.choice_count, old(out)@.len() == f.output_count,
    ensures final(choices).0@.len() == f.choice_count, final(out)@.len() == f.output_count,
        forall|k: int| 0 <= k < f.output_count ==> #[trigger] final(out)@[k] == f.sem(k, vars@),
        forall|i: int| 0 <= i < f.choice_count ==> #[trigger] final(choices).0@[i] == ch_or(old(choices).0@[i], f.tr(i, vars@)),
        (*final(simplify) != 0) <==> (*old(simplify) != 0 || exists|i: int| 0 <= i < f.choice_count && dec(#[trigger] f.tr(i, vars@))),
{ unimplemented!() }

// =================== specification vocabulary ===================
pub open spec fn bsize<T>(vars: Seq<Vec<T>>) -> int { if vars.len() > 0 { vars[0]@.len() as int } else { 0 } }
pub open spec fn vcol<T>(vars: Seq<Vec<T>>, j: int) -> Seq<T> { Seq::new(vars.len(), |i: int| vars[i]@[j]) }
pub open spec fn uniform<T>(vars: Seq<Vec<T>>) -> bool { forall|i: int| 0 <= i < vars.len() ==> (#[trigger] vars[i])@.len() == vars[0]@.len() }
pub open spec fn simd_ok<T: SimdSize>() -> bool { 1 <= T::SIMD_SIZE <= MAX_SIMD_WIDTH }
pub proof fn lemma_round_down(n: int, w: int)
    requires n >= w, w >= 1
    ensures (n / w) * w <= n, (n / w) * w >= w, ((n / w) * w) % w == 0, n - (n / w) * w < w
{
    vstd::arithmetic::div_mod::lemma_fundamental_div_mod(n, w);
    vstd::arithmetic::div_mod::lemma_mod_multiples_basic(n / w, w);
    assert(n / w >= 1) by { vstd::arithmetic::div_mod::lemma_div_is_ordered(w, n, w); vstd::arithmetic::div_mod::lemma_div_basics(w); }
    assert((n / w) * w == w * (n / w)) by (nonlinear_arith);
    assert((n / w) * w >= w) by (nonlinear_arith) requires n / w >= 1, w >= 1;
}
'''

BULK_SPEC = '''
        requires simd_ok::<T>(), uniform(vars@), vars@.len() >= tape.var_count(),
        ensures
            // one row per output, exactly one result per input sample, whatever the evaluator held before
            r.len == bsize(vars@), r.data@.len() == tape.output_count,
            forall|k: int| 0 <= k < tape.output_count ==> (#[trigger] r.data@[k])@.len() >= r.len,
            forall|k: int, j: int| 0 <= k < tape.output_count && 0 <= j < r.len ==> #[trigger] r.data@[k]@[j] == tape.sem(k, vcol(vars@, j)),
'''

TRACE_SPEC = '''
        requires vars@.len() >= tape.var_count(),
        ensures
            r.0@.len() == tape.output_count,
            forall|k: int| 0 <= k < tape.output_count ==> #[trigger] r.0@[k] == tape.sem(k, vars@),
            // a trace is returned exactly when some clause is decided; it holds one choice per clause, whatever it held before
            r.1 is Some <==> exists|i: int| 0 <= i < tape.choice_count && dec(#[trigger] tape.tr(i, vars@)),
            r.1 is Some ==> r.1->Some_0.0@.len() == tape.choice_count && forall|i: int| 0 <= i < tape.choice_count ==> #[trigger] r.1->Some_0.0@[i] == tape.tr(i, vars@),
'''


def norm(s):
    return re.sub(r'\s+', '', s)


def balanced_call(s, open_idx):
    """s[open_idx] == '(' : index of the matching ')'"""
    return rsx.match_brace(s, open_idx, '(', ')')


def rw_extend_maps(body, trace):
    """R-extendmap: `DST.extend(SRC.iter().map(|x| E))` / `SRC.iter_mut().map(..)` -> an index loop that pushes E[x := SRC[i]].
    `SRC` of the form `B[..K]` keeps its slicing obligation as an assertion (K <= B.len()).  Returns the new body and the list of loop keys."""
    keys = []
    pat = re.compile(r'(self\.(?:input_ptrs|output_ptrs))\s*\.extend\(')
    pos = 0
    while True:
        m = pat.search(body, pos)
        if not m:
            break
        op = m.end() - 1
        cl = balanced_call(body, op)
        arg = body[op + 1:cl].strip().rstrip(',').strip()
        m2 = re.match(r'^(?P<src>[\w\.]+(?:\[\.\.(?P<bound>[^\]]+)\])?)\s*\.\s*(?P<it>iter|iter_mut)\(\)\s*\.\s*map\(\|(?P<x>\w+)\|\s*(?P<e>.*)\)$', arg, re.S)
        if not m2:
            raise ExtractError('R-extendmap: argument of %s.extend changed: %r' % (m.group(1), norm(arg)[:90]))
        dst, src, bound, it, x, e = m.group(1), m2.group('src'), m2.group('bound'), m2.group('it'), m2.group('x'), m2.group('e').strip()
        base = re.sub(r'\[\.\..*\]$', '', src)
        ls = rsx.line_start(body, m.start())
        ind = ' ' * (m.start() - ls)
        end = cl + 1
        if body[end:end + 1] == ';':
            end += 1
        idx = 'k_' if it == 'iter_mut' else 'i_'
        e_i = re.sub(r'\b%s\b' % x, '%s[%s]' % (base, idx), e)
        key = '%s<-%s' % (dst.split('.')[-1], norm(src))
        occ = sum(1 for k in keys if k.split('#')[0] == key)
        tag = '%s#%d' % (key, occ)
        keys.append(tag)
        if it == 'iter_mut':
            # as_mut_ptr of row k_: the row index is what the loop knows
            e_i2, n = re.subn(r'%s\[k_\]\.as_mut_ptr\(\)' % re.escape(base), 'as_mptr(&mut %s[k_], Ghost(k_ as int))' % base, e_i)
            if n != 1:
                raise ExtractError('R-ptr: as_mut_ptr in %s.extend changed' % dst)
            trace.fire('R-ptr')
            loop = ('let mut k_: usize = 0;   // R-extendmap %s\n' % tag + ind + 'while k_ < %s.len()\n' % base + ind + '/*@inv %s*/\n' % tag
                    + ind + '{\n' + ind + '    let p_ = %s;\n' % e_i2 + ind + '    %s.push(p_);\n' % dst + ind + '    k_ += 1;\n' + ind + '}')
        else:
            e_i2, n = re.subn(r'\.as_ptr\(\)', '.as_cptr()', e_i)
            if n != 1:
                raise ExtractError('R-ptr: as_ptr in %s.extend changed' % dst)
            trace.fire('R-ptr')
            bnd = bound.strip() if bound else '%s.len()' % base
            pre = ('assert(%s <= %s.len());   // the obligation of `%s`\n' % (bnd, base, src) + ind) if bound else ''
            loop = (pre + 'let mut i_: usize = 0;   // R-extendmap %s\n' % tag + ind + 'while i_ < %s\n' % bnd + ind + '/*@inv %s*/\n' % tag
                    + ind + '{\n' + ind + '    %s.push(%s);\n' % (dst, e_i2) + ind + '    i_ += 1;\n' + ind + '}')
        body = body[:m.start()] + loop + body[end:]
        trace.fire('R-extendmap')
        pos = m.start() + len(loop)
    return body, keys


def build_bulk(src, trace):
    a, b = rsx.impl_block(src, r'^impl<T: From<f32> \+ Copy \+ SimdSize> JitBulkEval<T>', 'impl JitBulkEval')
    i, j, k = rsx.find_fn(src, 'eval', a, b)
    f = src[rsx.line_start(src, i):k]
    trace.items.append((JIT_RS, 'JitBulkEval::eval'))
    # R-deref: the generic `V: Deref<Target = [T]>` is instantiated with Vec<T>
    old_s = 'fn eval<V: std::ops::Deref<Target = [T]>>('
    if f.count(old_s) != 1 or f.count('vars: &[V],') != 1:
        raise ExtractError('R-deref: JitBulkEval::eval signature changed')
    f = f.replace(old_s, 'fn eval(').replace('vars: &[V],', 'vars: &[Vec<T>],')
    trace.fire('R-deref')
    # R-let: the closure of `vars.first().map(|v| v.deref().len())` gets its type and postcondition
    old_l = 'vars.first().map(|v| v.deref().len())'
    if f.count(old_l) != 1:
        raise ExtractError('R-let: first().map closure of JitBulkEval::eval changed')
    f = f.replace(old_l, 'vars.first().map(|v: &Vec<T>| -> (r: usize) ensures r == v@.len() { v.len() })')
    trace.fire('R-let')
    # R-nanconst
    f, n = re.subn(r'\bf32::NAN\.into\(\)', 'nan_of::<T>()', f)
    trace.fire('R-nanconst', n)
    # R-minmax: `a.max(b)` on usize
    f, n = re.subn(r'\b(\w+)\.max\((\w+(?:::\w+)*)\)', r'max_usize(\1, \2)', f)
    trace.fire('R-minmax', n)
    # R-itermut: `for X in &mut E { BODY }` -> index loop over E
    m = re.search(r'^( *)for (\w+) in &mut (self\.\w+) \{\n', f, re.M)
    if not m:
        raise ExtractError('R-itermut: sizing loop of JitBulkEval::eval changed')
    ob = m.end() - 2
    cb = rsx.match_brace(f, ob)
    ind, x, e = m.group(1), m.group(2), m.group(3)
    inner = re.sub(r'\b%s\b' % x, '%s[j_]' % e, f[ob + 1:cb])
    loop = (ind + 'let mut j_: usize = 0;   // R-itermut\n' + ind + 'while j_ < %s.len()\n' % e + ind + '/*@inv sizing*/\n' + ind + '{' + inner + '    j_ += 1;\n' + ind + '}')
    f = f[:m.start()] + loop + f[cb + 1:]
    trace.fire('R-itermut')
    # R-zip: `for (A, B) in E1.iter().zip(E2.iter_mut()) { BODY }` -> index loop up to the shorter length
    m = re.search(r'^( *)for \((\w+), (\w+)\) in ([\w\.]+)\.iter\(\)\.zip\(([\w\.]+)\.iter_mut\(\)\) \{\n', f, re.M)
    if not m:
        raise ExtractError('R-zip: scratch copy loop of JitBulkEval::eval changed')
    ob = m.end() - 2
    cb = rsx.match_brace(f, ob)
    ind, va_, vb_, e1, e2 = m.groups()
    inner = f[ob + 1:cb]
    inner = re.sub(r'\b%s\b' % vb_, '%s[i_]' % e2, inner)
    inner = re.sub(r'\b%s\b' % va_, '&%s[i_]' % e1, inner)
    # R-copyprefix: `D[0..n].copy_from_slice(S)`
    inner, n = re.subn(r'(\S+)\[0\.\.(\w+)\]\.copy_from_slice\(([^;]*)\);', r'copy_prefix_arr(&mut \1, \3, \2);   // R-copyprefix', inner)
    if n != 1:
        raise ExtractError('R-copyprefix: copy_from_slice of the scratch loop changed')
    trace.fire('R-copyprefix')
    loop = (ind + 'let zn_ = min_usize(%s.len(), %s.len());   // R-zip\n' % (e1, e2) + ind + 'let mut i_: usize = 0;\n' + ind + 'while i_ < zn_\n' + ind + '/*@inv zip*/\n' + ind + '{' + inner + '    i_ += 1;\n' + ind + '}')
    f = f[:m.start()] + loop + f[cb + 1:]
    trace.fire('R-zip')
    f, keys = rw_extend_maps(f, trace)
    # R-call
    f, n = re.subn(r'\(tape\.fn_bulk\)\(\s*self\.input_ptrs\.as_ptr\(\),\s*self\.output_ptrs\.as_ptr\(\),\s*([^,;]+?),?\s*\);',
                   lambda m_: 'call_bulk(tape, &self.input_ptrs, &self.output_ptrs, %s, &mut self.out);   // R-call' % m_.group(1).strip(), f)
    if n < 1 or '.fn_bulk' in f:
        raise ExtractError('R-call: call through tape.fn_bulk changed')
    trace.fire('R-call', n)
    f = f.replace('assert!(', 'assert(')
    return f, keys


def build_tracing(src, trace):
    a, b = rsx.impl_block(src, r'^impl<T: From<f32> \+ Clone> JitTracingEval<T>', 'impl JitTracingEval')
    i, j, k = rsx.find_fn(src, 'eval', a, b)
    f = src[rsx.line_start(src, i):k]
    trace.items.append((JIT_RS, 'JitTracingEval::eval'))
    f, n = re.subn(r'\bf32::NAN\.into\(\)', 'nan_of::<T>()', f)
    trace.fire('R-nanconst', n)
    f, n = re.subn(r'\(tape\.fn_trace\)\(\s*vars\.as_ptr\(\),\s*self\.choices\.as_mut_ptr\(\) as \*mut u8,\s*&mut simplify,\s*self\.out\.as_mut_ptr\(\),?\s*\)',
                   'call_trace(tape, vars, &mut self.choices, &mut simplify, &mut self.out)   /* R-call */', f)
    if n != 1 or '.fn_trace' in f:
        raise ExtractError('R-call: call through tape.fn_trace changed')
    trace.fire('R-call')
    old = 'let mut simplify = 0;'
    if f.count(old) != 1:
        raise ExtractError('JitTracingEval::eval: flag declaration changed')
    f = f.replace(old, 'let mut simplify: u8 = 0;')   # the type the function pointer's `*mut u8` parameter fixes
    return f


def type_alias(src, name):
    m = re.search(r'^type %s<T> = [^;]*;' % name, src, re.M)
    if not m:
        raise ExtractError('type alias not found: ' + name)
    return m.group(0)


def tuple_struct(src, name):
    m = re.search(r'^struct %s\b[^;{]*;' % name, src, re.M)
    if not m:
        raise ExtractError('tuple struct not found: ' + name)
    return m.group(0)


INV = {
 'sizing': '''            invariant 0 <= j_ <= self.out@.len(), self.out@.len() == tape.output_count, n == bsize(vars@),
                forall|k: int| 0 <= k < j_ ==> (#[trigger] self.out@[k])@.len() == (if n >= T::SIMD_SIZE { n } else { T::SIMD_SIZE }),
            decreases self.out@.len() - j_''',
 'zip': '''                invariant 0 <= i_ <= zn_, zn_ == vars@.len(), self.scratch@.len() == vars@.len(), uniform(vars@), n == bsize(vars@), n <= MAX_SIMD_WIDTH,
                    forall|i: int, j: int| 0 <= i < i_ && 0 <= j < n ==> #[trigger] self.scratch@[i]@[j] == vars@[i]@[j],
                decreases zn_ - i_''',
 'input_ptrs<-self.scratch[..vars.len()]#0': '''                invariant 0 <= i_ <= vars@.len(), vars@.len() <= self.scratch@.len(), self.input_ptrs@.len() == i_,
                    forall|i: int| 0 <= i < i_ ==> (#[trigger] self.input_ptrs@[i]).data@ == self.scratch@[i]@ && self.input_ptrs@[i].off@ == 0,
                decreases vars@.len() - i_''',
 'output_ptrs<-self.out#0': '''                invariant 0 <= k_ <= self.out@.len(), self.output_ptrs@.len() == k_, self.out@.len() == tape.output_count,
                    forall|k: int| 0 <= k < self.out@.len() ==> (#[trigger] self.out@[k])@.len() == T::SIMD_SIZE,
                    forall|k: int| 0 <= k < k_ ==> (#[trigger] self.output_ptrs@[k]).row@ == k && self.output_ptrs@[k].len@ == self.out@[k]@.len() && self.output_ptrs@[k].off@ == 0,
                decreases self.out@.len() - k_''',
 'input_ptrs<-vars#0': '''                invariant 0 <= i_ <= vars@.len(), self.input_ptrs@.len() == i_,
                    forall|i: int| 0 <= i < i_ ==> (#[trigger] self.input_ptrs@[i]).data@ == vars@[i]@ && self.input_ptrs@[i].off@ == 0,
                decreases vars@.len() - i_''',
 'output_ptrs<-self.out#1': '''                invariant 0 <= k_ <= self.out@.len(), self.output_ptrs@.len() == k_, self.out@.len() == tape.output_count,
                    forall|k: int| 0 <= k < self.out@.len() ==> (#[trigger] self.out@[k])@.len() == n,
                    forall|k: int| 0 <= k < k_ ==> (#[trigger] self.output_ptrs@[k]).row@ == k && self.output_ptrs@[k].len@ == self.out@[k]@.len() && self.output_ptrs@[k].off@ == 0,
                decreases self.out@.len() - k_''',
 'input_ptrs<-vars#1': '''                    invariant 0 <= i_ <= vars@.len(), self.input_ptrs@.len() == i_, n >= T::SIMD_SIZE,
                        forall|i: int| 0 <= i < vars@.len() ==> (#[trigger] vars@[i])@.len() == n,
                        forall|i: int| 0 <= i < i_ ==> (#[trigger] self.input_ptrs@[i]).data@ == vars@[i]@ && self.input_ptrs@[i].off@ == n - T::SIMD_SIZE,
                    decreases vars@.len() - i_''',
 'output_ptrs<-self.out#2': '''                    invariant 0 <= k_ <= self.out@.len(), self.output_ptrs@.len() == k_, self.out@.len() == tape.output_count, n >= T::SIMD_SIZE,
                        out1_.len() == self.out@.len(),
                        forall|k: int| 0 <= k < self.out@.len() ==> (#[trigger] self.out@[k])@ == out1_[k]@,
                        forall|k: int| 0 <= k < self.out@.len() ==> (#[trigger] self.out@[k])@.len() == n,
                        forall|k: int| 0 <= k < k_ ==> (#[trigger] self.output_ptrs@[k]).row@ == k && self.output_ptrs@[k].len@ == self.out@[k]@.len() && self.output_ptrs@[k].off@ == n - T::SIMD_SIZE,
                    decreases self.out@.len() - k_''',
}

PROOF_SCRATCH = '''            proof {
                assert forall|k: int, j: int| 0 <= k < tape.output_count && 0 <= j < n implies #[trigger] self.out@[k]@[j] == tape.sem(k, vcol(vars@, j)) by {
                    assert(incol(self.input_ptrs@, j - self.output_ptrs@[k].off@) =~= vcol(vars@, j));
                }
            }'''
PROOF_MAIN = '''            proof {
                assert forall|k: int, j: int| 0 <= k < tape.output_count && 0 <= j < m implies #[trigger] self.out@[k]@[j] == tape.sem(k, vcol(vars@, j)) by {
                    assert(incol(self.input_ptrs@, j - self.output_ptrs@[k].off@) =~= vcol(vars@, j));
                }
            }'''
PROOF_TAIL = '''                    proof {
                        assert forall|k: int, j: int| 0 <= k < tape.output_count && 0 <= j < n implies #[trigger] self.out@[k]@[j] == tape.sem(k, vcol(vars@, j)) by {
                            if j >= n - T::SIMD_SIZE {
                                assert(incol(self.input_ptrs@, j - self.output_ptrs@[k].off@) =~= vcol(vars@, j));
                            } else {
                                assert(self.out@[k]@[j] == out1_[k]@[j]);
                            }
                        }
                    }'''


def build(repo, trace):
    src = rsx.clean(open('%s/%s' % (repo, JIT_RS)).read(), trace)
    trace.lost = {}
    # ---- SimdSize and its impls (both architectures' widths)
    tr = rsx.get_item(src, r'^trait SimdSize\b', 0, 'trait SimdSize').replace('trait SimdSize', 'pub trait SimdSize')
    m = re.search(r'^const MAX_SIMD_WIDTH: usize = (\d+);', src, re.M)
    if not m:
        raise ExtractError('const MAX_SIMD_WIDTH changed')
    maxw = 'pub ' + m.group(0)
    fs = rsx.clean(open('%s/fidget-jit/src/float_slice.rs' % repo).read(), trace)
    gs = rsx.clean(open('%s/fidget-jit/src/grad_slice.rs' % repo).read(), trace)
    imp_f = rsx.get_item(fs, r'^impl SimdSize for f32\b', 0, 'impl SimdSize for f32')
    imp_g = rsx.get_item(gs, r'^impl SimdSize for Grad\b', 0, 'impl SimdSize for Grad')
    widths = {}
    for arch in ('x86_64', 'aarch64'):
        a_src = rsx.clean(open('%s/fidget-jit/src/%s/float_slice.rs' % (repo, arch)).read(), trace)
        mw = re.search(r'^const SIMD_WIDTH: usize = (\d+);', a_src, re.M)
        if not mw:
            raise ExtractError('%s SIMD_WIDTH changed' % arch)
        widths[arch] = mw.group(0)
    trace.items += [(JIT_RS, 'trait SimdSize, const MAX_SIMD_WIDTH'), ('fidget-jit/src/float_slice.rs', 'impl SimdSize for f32'), ('fidget-jit/src/grad_slice.rs', 'impl SimdSize for Grad'),
                    ('fidget-jit/src/x86_64/float_slice.rs', 'const SIMD_WIDTH'), ('fidget-jit/src/aarch64/float_slice.rs', 'const SIMD_WIDTH')]
    # ---- evaluator structs
    jb = rsx.get_item(src, r'^struct JitBulkEval<T>', 0, 'struct JitBulkEval')
    for fld, ty in (('input_ptrs', 'Vec<*const T>'), ('output_ptrs', 'Vec<*mut T>'), ('scratch', 'Vec<[T; MAX_SIMD_WIDTH]>'), ('out', 'Vec<Vec<T>>')):
        if not re.search(r'^    %s: %s,' % (fld, re.escape(ty)), jb, re.M):
            raise ExtractError('struct JitBulkEval: field %s changed' % fld)
    jb = jb.replace('struct JitBulkEval', 'pub struct JitBulkEval').replace('Vec<*const T>', 'Vec<CPtr<T>>').replace('Vec<*mut T>', 'Vec<MPtr<T>>')
    jb = re.sub(r'^    (\w+):', r'    pub \1:', jb, flags=re.M)
    trace.fire('R-ptr', 2)
    jt = rsx.get_item(src, r'^struct JitTracingEval<T>', 0, 'struct JitTracingEval')
    for fld, ty in (('choices', 'VmTrace'), ('out', 'Vec<T>')):
        if not re.search(r'^    %s: %s,' % (fld, re.escape(ty)), jt, re.M):
            raise ExtractError('struct JitTracingEval: field %s changed' % fld)
    jt = re.sub(r'^    (\w+):', r'    pub \1:', jt.replace('struct JitTracingEval', 'pub struct JitTracingEval'), flags=re.M)
    # the handles: only the fields the drivers read are kept (the stand-ins above); check they are still there
    for st, flds in (('JitBulkFn', ('output_count: usize', 'fn_bulk: JitBulkFnPointer<T>')), ('JitTracingFn', ('choice_count: usize', 'output_count: usize', 'fn_trace: JitTracingFnPointer<T>'))):
        it = rsx.get_item(src, r'^struct %s<T>' % st, 0, 'struct ' + st)
        for fl in flds:
            if fl not in it:
                raise ExtractError('struct %s: field %s changed' % (st, fl))
    a, b = rsx.impl_block(src, r'^impl<T: Clone> Tape for JitBulkFn<T>', 'impl Tape for JitBulkFn')
    i, j, k = rsx.find_fn(src, 'output_count', a, b)
    if norm(src[j:k]) != '{self.output_count}':
        raise ExtractError('JitBulkFn::output_count changed')
    ptr_t = type_alias(src, 'JitBulkFnPointer')
    if norm(ptr_t) != norm('type JitBulkFnPointer<T> = jit_fn!(unsafe fn(*const *const T, *const *mut T, u64,));'):
        raise ExtractError('type JitBulkFnPointer changed: %s' % norm(ptr_t))
    ptr_t = type_alias(src, 'JitTracingFnPointer')
    if norm(ptr_t) != norm('type JitTracingFnPointer<T> = jit_fn!(unsafe fn(*const T, *mut u8, *mut u8, *mut T,));'):
        raise ExtractError('type JitTracingFnPointer changed: %s' % norm(ptr_t))
    trace.items.append((JIT_RS, 'struct JitBulkEval, struct JitTracingEval; shape of JitBulkFn / JitTracingFn and of the two function-pointer types'))
    # ---- BulkOutput::new, Choice, VmTrace
    bk = rsx.clean(open('%s/%s' % (repo, BULK_RS)).read(), trace)
    bo = rsx.get_item(bk, r"^struct BulkOutput<'a, T>", 0, 'struct BulkOutput')
    bo = bo.replace("struct BulkOutput<'a, T>", "pub struct BulkOutput<'a, T>").replace('    data:', '    pub data:').replace('    len:', '    pub len:')
    a, b = rsx.impl_block(bk, r"^impl<'a, T> BulkOutput<'a, T>", 'impl BulkOutput')
    i, j, k = rsx.find_fn(bk, 'new', a, b)
    bo_new = bk[rsx.line_start(bk, i):k]
    trace.items.append((BULK_RS, 'BulkOutput::new'))
    ch = rsx.clean(open('%s/%s' % (repo, CHOICE_RS)).read(), trace)
    en = rsx.get_item(ch, r'^enum Choice\b', 0, 'enum Choice')
    en = re.sub(r'#\[derive\([^\]]*\)\]\n?', '', en)
    en = re.sub(r'#\[repr\(u8\)\]\n?', '', en)
    en = '#[derive(PartialEq, Eq, Structural)]\npub ' + en[en.index('enum Choice'):]
    trace.fire('R-derive-structural')
    vm = rsx.clean(open('%s/%s' % (repo, VM_RS)).read(), trace)
    vt = tuple_struct(vm, 'VmTrace').replace('struct VmTrace(Vec<Choice>)', 'pub struct VmTrace(pub Vec<Choice>)')
    a, b = rsx.impl_block(vm, r'^impl VmTrace\b', 'impl VmTrace')
    vfns = []
    for name in ('fill', 'resize'):
        i, j, k = rsx.find_fn(vm, name, a, b)
        vfns.append(vm[rsx.line_start(vm, i):k])
        trace.items.append((VM_RS, 'VmTrace::' + name))
    i, j, k = rsx.find_fn(vm, 'as_mut_ptr', a, b)
    if norm(vm[j:k]) != '{self.0.as_mut_ptr()}':
        raise ExtractError('VmTrace::as_mut_ptr changed: R-call not applicable')
    f_bulk, keys = build_bulk(src, trace)
    f_tr = build_tracing(src, trace)
    trace.drop('everything else of fidget-jit/src/lib.rs (assembler trait, MmapAssembler, JitFunction, Tape impls, evaluator wrappers): not in this unit; the function-pointer fields of JitBulkFn / JitTracingFn (replaced by the stand-ins call_bulk / call_trace)')
    d = jit_dispatch.build_dispatch(repo, src, trace)
    text = ('#![feature(allocator_api)]\nuse vstd::prelude::*;\nverus! {\n' + en + '\n\n' + vt + '\n\nimpl VmTrace {\n' + '\n\n'.join(vfns) + '\n}\n\n' + tr + '\n\n' + maxw + '\n'
            + 'pub ' + widths['x86_64'].replace('SIMD_WIDTH', 'SIMD_WIDTH_X86') + '\npub ' + widths['aarch64'].replace('SIMD_WIDTH', 'SIMD_WIDTH_A64') + '\n'
            + 'pub struct Grad { pub v: f32, pub dx: f32, pub dy: f32, pub dz: f32 }\n/// the aarch64 build of `impl SimdSize for f32` (same text, the other architecture\'s SIMD_WIDTH)\npub struct F32A64(pub f32);\n'
            + imp_f.replace('SIMD_WIDTH', 'SIMD_WIDTH_X86') + '\n' + imp_f.replace('SIMD_WIDTH', 'SIMD_WIDTH_A64').replace('for f32', 'for F32A64') + '\n' + imp_g + '\n'
            + PRELUDE + '\n' + bo + "\n\nimpl<'a, T> BulkOutput<'a, T> {\n" + bo_new + '\n}\n\n' + jb + '\n\n' + jt + '\n\n'
            + 'impl<T: From<f32> + Copy + SimdSize> JitBulkEval<T> {\n' + f_bulk + '\n}\n\n'
            + 'impl<T: From<f32> + Clone> JitTracingEval<T> {\n' + f_tr + '\n}\n'
            + '''
pub proof fn simd_ok_f32_x86_64() ensures simd_ok::<f32>() {}
pub proof fn simd_ok_f32_aarch64() ensures simd_ok::<F32A64>() {}
pub proof fn simd_ok_grad() ensures simd_ok::<Grad>() {}
'''
            + '\n// ===================================== RegOp -> assembler dispatch =====================================\n'
            + d['head'] + d['regop'] + jit_dispatch.STATIC + d['sem'] + d['reg'] + d['trait'] + '\n' + d['fn'] + '\n' + d['frame'] + '\n'
            + '\n} // verus!\nfn main() {}\n')
    # place the loop invariants (keyed by what the loop fills from what)
    for key, inv in INV.items():
        mark = '/*@inv %s*/' % key
        if text.count(mark) != 1:
            trace.lost.setdefault('JitBulkEval::eval', []).append(mark)
            continue
        text = text.replace(mark, inv)
    left = re.findall(r'/\*@inv [^*]*\*/', text)
    if left:
        trace.lost.setdefault('JitBulkEval::eval', []).extend(left)
        for l in left:
            text = text.replace(l, '')
    inj = Injector(text, trace)
    inj.spec('JitBulkEval::eval', 'r: BulkOutput<\'_, T>', BULK_SPEC)
    inj.spec('JitTracingEval::eval', 'r: (&[T], Option<&VmTrace>)', TRACE_SPEC)
    inj.spec('BulkOutput::new', 'r: Self', '\n        ensures *r.data == *data, r.len == len\n')
    inj.spec('VmTrace::fill', None, '\n        ensures final(self).0@.len() == old(self).0@.len(), forall|i: int| 0 <= i < old(self).0@.len() ==> #[trigger] final(self).0@[i] == v\n')
    inj.spec('VmTrace::resize', None, '\n        ensures final(self).0@.len() == n\n')
    q = 'JitBulkEval::eval'
    inj.proof(q, 're:let m = \\(n / T::SIMD_SIZE\\) \\* T::SIMD_SIZE;', '            proof { lemma_round_down(n as int, T::SIMD_SIZE as int); }', before=True)
    inj.proof(q, 'call_bulk(tape, &self.input_ptrs, &self.output_ptrs, T::SIMD_SIZE as u64, &mut self.out);   // R-call', PROOF_SCRATCH, occ=0)
    inj.proof(q, 'call_bulk(tape, &self.input_ptrs, &self.output_ptrs, m as u64, &mut self.out);   // R-call',
              '            assert forall|i: int| 0 <= i < vars@.len() implies (#[trigger] vars@[i])@.len() == n by { assert(vars@[i]@.len() == vars@[0]@.len()); }', before=True)
    inj.proof(q, 'call_bulk(tape, &self.input_ptrs, &self.output_ptrs, m as u64, &mut self.out);   // R-call', PROOF_MAIN)
    inj.proof(q, 'if n != m {', '                let ghost out1_ = self.out@;')
    inj.proof(q, 'call_bulk(tape, &self.input_ptrs, &self.output_ptrs, T::SIMD_SIZE as u64, &mut self.out);   // R-call', PROOF_TAIL, occ=1)
    inj.proof(q, 're:let zn_ = min_usize\\(', '            assert(vars@[i_ as int]@.len() == vars@[0]@.len());', before=False) if False else None
    inj.proof(q, 'copy_prefix_arr(&mut self.scratch[i_], &vars[i_], n);   // R-copyprefix', '                assert(vars@[i_ as int]@.len() == vars@[0]@.len());', before=True)
    inj.proof('JitTracingEval::eval', 'call_trace(tape, vars, &mut self.choices, &mut simplify, &mut self.out)', '        let ghost ch0_ = self.choices.0@;', before=True)
    obls = [Obligation('jit::JitBulkEval::eval', 'jit', 'JitBulkEval::eval', props=['C02', 'C10', 'C11', 'C20']),
            Obligation('jit::JitTracingEval::eval', 'jit', 'JitTracingEval::eval', props=['C02', 'C10', 'C11', 'C20', 'C04']),
            Obligation('jit::BulkOutput::new', 'jit', 'BulkOutput::new', props=['C02', 'C20']),
            Obligation('jit::VmTrace::fill', 'jit', 'VmTrace::fill', props=['C02', 'C10', 'C20']),
            Obligation('jit::VmTrace::resize', 'jit', 'VmTrace::resize', props=['C02', 'C10', 'C20']),
            Obligation('jit::copy_prefix_arr', 'jit', 'copy_prefix_arr', props=['C02'], kind='lemma', note='model of std range copy'),
            Obligation('jit::lemma_round_down', 'jit', 'lemma_round_down', props=['C02'], kind='lemma')]
    for nm in ('simd_ok_f32_x86_64', 'simd_ok_f32_aarch64', 'simd_ok_grad'):
        obls.append(Obligation('jit::' + nm, 'jit', nm, props=['C02', 'C11'], kind='lemma', note='impl SimdSize: 1 <= SIMD_SIZE <= MAX_SIMD_WIDTH'))
    inj.proof('build_asm_fn_with_storage', '        k_ += 1;', '        proof { A::imm_reg_outside(); }')
    inj.proof('build_asm_fn_with_storage', 're:let size_estimate = t\\.len\\(\\) \\* A::bytes_per_clause\\(\\);', '''    proof {
        assert forall|b: int| 0 <= b <= 64 implies #[trigger] (t.ops().len() * b) <= t.ops().len() * 64 by {
            assert(t.ops().len() * b <= t.ops().len() * 64) by (nonlinear_arith) requires 0 <= b <= 64;
        }
    }''', before=True)
    obls.append(Obligation('jit::build_asm_fn_with_storage', 'jit', 'build_asm_fn_with_storage', props=['C02', 'C11']))
    for nm, has_body in d['names']:
        if has_body:
            obls.append(Obligation('jit::Assembler::' + nm, 'jit', 'Assembler::' + nm, props=['C02'], note='default method of the trait'))
    obls.append(Obligation('jit::AssemblerData::prepare_stack', 'jit', 'AssemblerData::prepare_stack', props=['C02', 'C11']))
    obls.append(Obligation('jit::AssemblerData::stack_pos', 'jit', 'AssemblerData::stack_pos', props=['C02', 'C11']))
    obls.append(Obligation('jit::lemma_frame', 'jit', 'lemma_frame', props=['C02'], kind='lemma'))
    for suf in ('X86', 'A64'):
        obls.append(Obligation('jit::reg_' + suf, 'jit', 'reg_' + suf, props=['C02', 'C11'], note='fn reg with the constants of that architecture'))
        obls.append(Obligation('jit::imm_outside_' + suf, 'jit', 'imm_outside_' + suf, props=['C02'], kind='lemma'))
    return {'texts': {'base': inj.s}, 'obligations': obls, 'canary_fns': ['JitBulkEval::eval', 'JitTracingEval::eval', 'build_asm_fn_with_storage']}
