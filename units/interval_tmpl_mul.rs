    fn mul(self, rhs: Self) -> (r: Self)
/*G*/        requires valid(self), valid(rhs)
/*G*/        ensures valid(r),
/*G*/            // finite bounds: the product of members is enclosed (an infinite bound may meet a zero: the NaN corner is dropped, known finding K4)
/*G*/            (ffin(self.lower) && ffin(self.upper) && ffin(rhs.lower) && ffin(rhs.upper)) ==>
/*G*/                forall|x: f32, y: f32| mem(x, self) && mem(y, rhs) && !fnan(#[trigger] x.mul_spec(y)) ==> mem(x.mul_spec(y), r)
    {
/*G*/        proof { ax_ops(self.lower, rhs.lower); ax_ops(self.lower, rhs.upper); ax_ops(self.upper, rhs.lower); ax_ops(self.upper, rhs.upper); }
/*G*/        proof { ax_fin(self.lower, self.lower, self.lower); ax_fin(self.upper, self.upper, self.upper); ax_fin(rhs.lower, rhs.lower, rhs.lower); ax_fin(rhs.upper, rhs.upper, rhs.upper); }
        if self.has_nan() || rhs.has_nan() {
            return nan_interval();
        }
        let mut out = [0.0; 4];
        let mut k = 0;
        {   // R-unroll: for i in [self.lower, self.upper]
            let i = self.lower;
            {
                let j = rhs.lower;
                out[k] = i * j;
                k += 1;
            }
            {
                let j = rhs.upper;
                out[k] = i * j;
                k += 1;
            }
        }
        {
            let i = self.upper;
            {
                let j = rhs.lower;
                out[k] = i * j;
                k += 1;
            }
            {
                let j = rhs.upper;
                out[k] = i * j;
                k += 1;
            }
        }
        let mut lower = out[0];
        let mut upper = out[0];
/*G*/        let ghost c0 = self.lower.mul_spec(rhs.lower);
/*G*/        let ghost c1 = self.lower.mul_spec(rhs.upper);
/*G*/        let ghost c2 = self.upper.mul_spec(rhs.lower);
/*G*/        let ghost c3 = self.upper.mul_spec(rhs.upper);
/*G*/        proof { assert(out@[0] == c0 && out@[1] == c1 && out@[2] == c2 && out@[3] == c3); }
        {   // R-unroll: for &v in &out[1..]
            let v = out[1];
/*G*/            proof { ax_minmax(lower, v); ax_minmax(upper, v); }
            lower = lower.min(v);
            upper = upper.max(v);
        }
/*G*/        let ghost l1 = lower; let ghost u1 = upper;
        {
            let v = out[2];
/*G*/            proof { ax_minmax(lower, v); ax_minmax(upper, v); }
            lower = lower.min(v);
            upper = upper.max(v);
        }
/*G*/        let ghost l2 = lower; let ghost u2 = upper;
        {
            let v = out[3];
/*G*/            proof { ax_minmax(lower, v); ax_minmax(upper, v); }
            lower = lower.min(v);
            upper = upper.max(v);
        }
/*G*/        proof {
/*G*/            // totality: both NaN, or both numbers with lower <= upper
/*G*/            ax_ops(c0, c0); ax_le_refl(c0);
/*G*/            lemma_minmax_step(c0, c0, c1, l1, u1);
/*G*/            lemma_minmax_step(l1, u1, c2, l2, u2);
/*G*/            lemma_minmax_step(l2, u2, c3, lower, upper);
/*G*/            ax_ops(upper, lower);
/*G*/            if ffin(self.lower) && ffin(self.upper) && ffin(rhs.lower) && ffin(rhs.upper) {
/*G*/                ax_mul_fin(self.lower, rhs.lower); ax_mul_fin(self.lower, rhs.upper); ax_mul_fin(self.upper, rhs.lower); ax_mul_fin(self.upper, rhs.upper);
/*G*/                // lower <= every corner <= upper
/*G*/                ax_le_trans(lower, l2, l1); ax_le_trans(l2, l1, c0); ax_le_trans(lower, l2, c0); ax_le_trans(lower, l1, c0); ax_le_trans(lower, l1, c1); ax_le_trans(lower, l2, c2);
/*G*/                ax_le_trans(u1, u2, upper); ax_le_trans(c0, u1, u2); ax_le_trans(c0, u2, upper); ax_le_trans(c0, u1, upper); ax_le_trans(c1, u1, upper); ax_le_trans(c2, u2, upper);
/*G*/                assert(fle(lower, c0) && fle(lower, c1) && fle(lower, c2) && fle(lower, c3));
/*G*/                assert(fle(c0, upper) && fle(c1, upper) && fle(c2, upper) && fle(c3, upper));
/*G*/                assert forall|x: f32, y: f32| mem(x, self) && mem(y, rhs) && !fnan(#[trigger] x.mul_spec(y)) implies fle(lower, x.mul_spec(y)) && fle(x.mul_spec(y), upper) by {
/*G*/                    lemma_mul_corners(self.lower, self.upper, rhs.lower, rhs.upper, x, y, lower, upper);
/*G*/                }
/*G*/            }
/*G*/        }
        Interval::new(lower, upper)
    }