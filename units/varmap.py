"""Unit `varmap` (C14, first mechanism: "VarMap index assignment on first insertion"): `VarMap::{len, is_empty, get, insert}` of
fidget-core/src/var/mod.rs on their real text (std `HashMap` entry API and `Option::get_or_insert` through the specifications of
vstd).

Contract: the map assigns each variable at most one index (`idx`), indices are pairwise distinct and below `len` (`wf`);
`insert(v)` keeps that invariant, leaves everything unchanged when `v` is present, and otherwise gives `v` the index `len` (the
next free one) and changes no other variable's index - so an index, once assigned, never changes and never collides, whatever
the order of insertion; `get` returns exactly the assigned index; `len` counts the assigned variables.

This is the invariant the other units assume of their opaque `VarMap` stand-in (`wf` over `entries()`); `VarMap::iter` (a chain of
three option iterators and the hash-map iterator) is not under contract, so that `entries()` enumerates `idx` is still assumed."""
import re
from lib import rsx
from lib.rsx import ExtractError
from lib.verus_engine import Injector, Obligation

VAR_RS = 'fidget-core/src/var/mod.rs'
PROPS = ['C14']

SPEC_FNS = '''
    /// the index assigned to a variable, if any
    pub open spec fn idx(&self, var: Var) -> Option<usize> {
        match var {
            Var::X => self.x, Var::Y => self.y, Var::Z => self.z,
            Var::V(i) => if self.v@.dom().contains(i) { Some(self.v@[i]) } else { None },
        }
    }
    pub open spec fn len_spec(&self) -> int {
        (if self.x is Some { 1int } else { 0 }) + (if self.y is Some { 1int } else { 0 }) + (if self.z is Some { 1int } else { 0 }) + self.v@.len()
    }
    /// every variable at most once (a map), indices pairwise distinct and below the length
    pub open spec fn wf(&self) -> bool {
        &&& self.v@.dom().finite()
        &&& forall|a: Var| (#[trigger] self.idx(a)) is Some ==> (self.idx(a)->Some_0 as int) < self.len_spec()
        &&& forall|a: Var, b: Var| (#[trigger] self.idx(a)) is Some && (#[trigger] self.idx(b)) is Some && a != b ==> self.idx(a)->Some_0 != self.idx(b)->Some_0
    }
'''

KEY = 'vstd::std_specs::hash::obeys_key_model::<VarIndex>()'
SPECS = {
 'VarMap::len': ('r: usize', '\n        requires self.len_spec() <= usize::MAX, %s,\n        ensures r == self.len_spec()\n' % KEY),
 'VarMap::is_empty': ('r: bool', '\n        requires %s,\n        ensures r <==> self.len_spec() == 0\n' % KEY),
 'VarMap::get': ('r: Option<usize>', '\n        requires %s,\n        ensures r == self.idx(*v)\n' % KEY),
 'VarMap::insert': (None, '''
        requires old(self).wf(), old(self).len_spec() < usize::MAX, %s,
        ensures final(self).wf(),
            // a variable that is present keeps its index and nothing changes; a new one gets the next index, all others keep theirs
            old(self).idx(v) is Some ==> (forall|a: Var| #[trigger] final(self).idx(a) == old(self).idx(a)) && final(self).len_spec() == old(self).len_spec(),
            old(self).idx(v) is None ==> final(self).idx(v) == Some(old(self).len_spec() as usize) && final(self).len_spec() == old(self).len_spec() + 1
                && (forall|a: Var| a != v ==> #[trigger] final(self).idx(a) == old(self).idx(a)),
''' % KEY),
}

INSERT_PROOF = """        proof {
            assert forall|a: Var| (#[trigger] self.idx(a)) is Some implies (self.idx(a)->Some_0 as int) < self.len_spec() by {
                if a != v { assert(self.idx(a) == old(self).idx(a)); }
            }
            assert forall|a: Var, b: Var| (#[trigger] self.idx(a)) is Some && (#[trigger] self.idx(b)) is Some && a != b implies self.idx(a)->Some_0 != self.idx(b)->Some_0 by {
                if a != v { assert(self.idx(a) == old(self).idx(a)); }
                if b != v { assert(self.idx(b) == old(self).idx(b)); }
            }
        }"""


def tuple_struct(src, name):
    m = re.search(r'^struct %s\b[^;{]*;' % name, src, re.M)
    if not m:
        raise ExtractError('tuple struct not found: ' + name)
    return m.group(0)


def build(repo, trace):
    va = rsx.clean(open('%s/%s' % (repo, VAR_RS)).read(), trace)
    var = rsx.get_item(va, r'^enum Var\b', 0, 'enum Var')
    var = re.sub(r'#\[derive\([^\]]*\)\]', '', var, flags=re.S).strip()
    var = '#[derive(Copy, Clone, PartialEq, Eq, Structural)]\npub ' + var[var.index('enum Var'):]
    vi = tuple_struct(va, 'VarIndex')
    vi = '#[derive(Copy, Clone, PartialEq, Eq, Structural)]\npub ' + vi.replace('struct VarIndex(u64)', 'struct VarIndex(pub u64)')
    trace.fire('R-derive-structural', 2)
    st = rsx.get_item(va, r'^struct VarMap\b', 0, 'struct VarMap')
    st = re.sub(r'#\[derive\([^\]]*\)\]\n?', '', st)
    st = st.replace('struct VarMap', 'pub struct VarMap')
    for f in ('x', 'y', 'z', 'v'):
        if len(re.findall(r'^    %s:' % f, st, re.M)) != 1:
            raise ExtractError('struct VarMap: field %s changed' % f)
        st = re.sub(r'^    %s:' % f, '    pub %s:' % f, st, flags=re.M)
    a, b = rsx.impl_block(va, r'^impl VarMap\b', 'impl VarMap')
    fns = []
    for name in ('len', 'is_empty', 'get', 'insert'):
        i, j, k = rsx.find_fn(va, name, a, b)
        fns.append(va[rsx.line_start(va, i):k])
        trace.items.append((VAR_RS, 'VarMap::' + name))
    trace.items.append((VAR_RS, 'enum Var, struct VarIndex, struct VarMap'))
    trace.drop('VarMap::{new (derive Default), iter (chained iterators), check_*_arguments (units vm / bounded total), Index impl}; Serialize/Deserialize derives')
    text = ('use vstd::prelude::*;\nuse std::collections::HashMap;\nverus! {\n' + vi + '\n\n' + var + '\n\n' + st + '\n\nimpl VarMap {\n' + SPEC_FNS + '\n' + '\n\n'.join(fns) + '\n}\n'
            + '\n} // verus!\n// outside verus!: the derived Hash of the key type (no run-time meaning here)\nimpl std::hash::Hash for VarIndex { fn hash<H: std::hash::Hasher>(&self, _h: &mut H) {} }\nfn main() {}\n')
    inj = Injector(text, trace)
    for q, (ret, t) in SPECS.items():
        inj.spec(q, ret, t)
        inj.proof(q, '$START', '        broadcast use vstd::std_specs::hash::group_hash_axioms;')
    inj.proof('VarMap::insert', '$END', INSERT_PROOF)
    obls = [Obligation('varmap::VarMap::' + f, 'varmap', 'VarMap::' + f, props=PROPS) for f in ('len', 'is_empty', 'get', 'insert')]
    return {'texts': {'base': inj.s}, 'obligations': obls, 'canary_fns': ['VarMap::insert', 'VarMap::get']}
