"""Unit `varmap` (C14, first mechanism: "VarMap index assignment on first insertion"): `VarMap::{len, is_empty, get, insert}` of
fidget-core/src/var/mod.rs on their real text (std `HashMap` entry API and `Option::get_or_insert` through the specifications of
vstd).

Contract: the map assigns each variable at most one index (`idx`), indices are pairwise distinct and below `len` (`wf`);
`insert(v)` keeps that invariant, leaves everything unchanged when `v` is present, and otherwise gives `v` the index `len` (the
next free one) and changes no other variable's index - so an index, once assigned, never changes and never collides, whatever
the order of insertion; `get` returns exactly the assigned index; `len` counts the assigned variables.

This is the invariant the other units assume of their opaque `VarMap` stand-in (`wf` over `entries()`); `VarMap::iter` (a chain of
three option iterators and the hash-map iterator) is not under contract, so that `entries()` enumerates `idx` is still assumed."""
import re
from lib import rsx
from lib.rsx import ExtractError
from lib.verus_engine import Injector, Obligation

VAR_RS = 'fidget-core/src/var/mod.rs'
PROPS = ['C14']

SPEC_FNS = '''
    /// the index assigned to a variable, if any
    pub open spec fn idx(&self, var: Var) -> Option<usize> {
        match var {
            Var::X => self.x, Var::Y => self.y, Var::Z => self.z,
            Var::V(i) => if self.v@.dom().contains(i) { Some(self.v@[i]) } else { None },
        }
    }
    pub open spec fn len_spec(&self) -> int {
        (if self.x is Some { 1int } else { 0 }) + (if self.y is Some { 1int } else { 0 }) + (if self.z is Some { 1int } else { 0 }) + self.v@.len()
    }
    /// every variable at most once (a map), indices pairwise distinct and below the length
    pub open spec fn wf(&self) -> bool {
        &&& self.v@.dom().finite()
        &&& forall|a: Var| (#[trigger] self.idx(a)) is Some ==> (self.idx(a)->Some_0 as int) < self.len_spec()
        &&& forall|a: Var, b: Var| (#[trigger] self.idx(a)) is Some && (#[trigger] self.idx(b)) is Some && a != b ==> self.idx(a)->Some_0 != self.idx(b)->Some_0
    }
'''

KEY = 'vstd::std_specs::hash::obeys_key_model::<VarIndex>()'
SPECS = {
 'VarMap::len': ('r: usize', '\n        requires self.len_spec() <= usize::MAX, %s,\n        ensures r == self.len_spec()\n' % KEY),
 'VarMap::is_empty': ('r: bool', '\n        requires %s,\n        ensures r <==> self.len_spec() == 0\n' % KEY),
 'VarMap::get': ('r: Option<usize>', '\n        requires %s,\n        ensures r == self.idx(*v)\n' % KEY),
 'VarMap::insert': (None, '''
        requires old(self).wf(), old(self).len_spec() < usize::MAX, %s,
        ensures final(self).wf(),
            // a variable that is present keeps its index and nothing changes; a new one gets the next index, all others keep theirs
            old(self).idx(v) is Some ==> (forall|a: Var| #[trigger] final(self).idx(a) == old(self).idx(a)) && final(self).len_spec() == old(self).len_spec(),
            old(self).idx(v) is None ==> final(self).idx(v) == Some(old(self).len_spec() as usize) && final(self).len_spec() == old(self).len_spec() + 1
                && (forall|a: Var| a != v ==> #[trigger] final(self).idx(a) == old(self).idx(a)),
''' % KEY),
}

LINK = '''
pub open spec fn uniform<T>(vars: Seq<Vec<T>>) -> bool { forall|i: int| 0 <= i < vars.len() ==> (#[trigger] vars[i])@.len() == vars[0]@.len() }
impl FromSpecImpl<MismatchedSlices> for BulkArgError {
    open spec fn obeys_from_spec() -> bool { true }
    open spec fn from_spec(e: MismatchedSlices) -> Self { BulkArgError::MismatchedSlices(e) }
}
impl From<MismatchedSlices> for BulkArgError { fn from(e: MismatchedSlices) -> (r: Self) { BulkArgError::MismatchedSlices(e) } }
// =================== link to the opaque stand-in of the other units ===================
/// what is assumed of `VarMap::iter` (not under contract): it yields every assigned (variable, index) pair exactly once
pub open spec fn enumerates(e: Seq<(Var, usize)>, m: VarMap) -> bool {
    &&& e.len() == m.len_spec()
    &&& forall|k: int| 0 <= k < e.len() ==> m.idx((#[trigger] e[k]).0) == Some(e[k].1)
    &&& forall|i: int, j: int| 0 <= i < j < e.len() ==> (#[trigger] e[i]).0 != (#[trigger] e[j]).0
}
/// the well-formedness the units shape / solver / vm assume of their stand-in's `entries()`
pub open spec fn entries_wf(e: Seq<(Var, usize)>) -> bool {
    &&& forall|i: int| 0 <= i < e.len() ==> (#[trigger] e[i]).1 < e.len()
    &&& forall|i: int, j: int| 0 <= i < j < e.len() ==> (#[trigger] e[i]).1 != (#[trigger] e[j]).1
    &&& forall|i: int, j: int| 0 <= i < j < e.len() ==> (#[trigger] e[i]).0 != (#[trigger] e[j]).0
}
/// ... follows from the invariant that `insert` maintains, for any enumeration of the map
pub proof fn lemma_entries_wf(e: Seq<(Var, usize)>, m: VarMap)
    requires m.wf(), enumerates(e, m)
    ensures entries_wf(e)
{
    assert forall|i: int| 0 <= i < e.len() implies (#[trigger] e[i]).1 < e.len() by { assert(m.idx(e[i].0) == Some(e[i].1)); }
    assert forall|i: int, j: int| 0 <= i < j < e.len() implies (#[trigger] e[i]).1 != (#[trigger] e[j]).1 by {
        assert(m.idx(e[i].0) == Some(e[i].1)); assert(m.idx(e[j].0) == Some(e[j].1));
    }
}
'''

INSERT_PROOF = """        proof {
            assert forall|a: Var| (#[trigger] self.idx(a)) is Some implies (self.idx(a)->Some_0 as int) < self.len_spec() by {
                if a != v { assert(self.idx(a) == old(self).idx(a)); }
            }
            assert forall|a: Var, b: Var| (#[trigger] self.idx(a)) is Some && (#[trigger] self.idx(b)) is Some && a != b implies self.idx(a)->Some_0 != self.idx(b)->Some_0 by {
                if a != v { assert(self.idx(a) == old(self).idx(a)); }
                if b != v { assert(self.idx(b) == old(self).idx(b)); }
            }
        }"""


def tuple_struct(src, name):
    m = re.search(r'^struct %s\b[^;{]*;' % name, src, re.M)
    if not m:
        raise ExtractError('tuple struct not found: ' + name)
    return m.group(0)


def build(repo, trace):
    va = rsx.clean(open('%s/%s' % (repo, VAR_RS)).read(), trace)
    var = rsx.get_item(va, r'^enum Var\b', 0, 'enum Var')
    var = re.sub(r'#\[derive\([^\]]*\)\]', '', var, flags=re.S).strip()
    var = '#[derive(Copy, Clone, PartialEq, Eq, Structural)]\npub ' + var[var.index('enum Var'):]
    vi = tuple_struct(va, 'VarIndex')
    vi = '#[derive(Copy, Clone, PartialEq, Eq, Structural)]\npub ' + vi.replace('struct VarIndex(u64)', 'struct VarIndex(pub u64)')
    trace.fire('R-derive-structural', 2)
    st = rsx.get_item(va, r'^struct VarMap\b', 0, 'struct VarMap')
    st = re.sub(r'#\[derive\([^\]]*\)\]\n?', '', st)
    st = st.replace('struct VarMap', 'pub struct VarMap')
    for f in ('x', 'y', 'z', 'v'):
        if len(re.findall(r'^    %s:' % f, st, re.M)) != 1:
            raise ExtractError('struct VarMap: field %s changed' % f)
        st = re.sub(r'^    %s:' % f, '    pub %s:' % f, st, flags=re.M)
    a, b = rsx.impl_block(va, r'^impl VarMap\b', 'impl VarMap')
    fns = []
    for name in ('len', 'is_empty', 'get', 'insert'):
        i, j, k = rsx.find_fn(va, name, a, b)
        fns.append(va[rsx.line_start(va, i):k])
        trace.items.append((VAR_RS, 'VarMap::' + name))
    trace.items.append((VAR_RS, 'enum Var, struct VarIndex, struct VarMap'))
    # ---- argument checks (C11: "argument checking before evaluation") and their error types
    errs = []
    for kind, name in (('struct', 'BadVarSlice'), ('struct', 'MismatchedSlices'), ('enum', 'BulkArgError'), ('enum', 'TracingArgError')):
        it = rsx.get_item(va, r'^%s %s\b' % (kind, name), 0, '%s %s' % (kind, name))
        it = re.sub(r'^\s*#\[error\((?:[^()]|\([^()]*\))*\)\]\n', '', it, flags=re.M | re.S)
        it = re.sub(r'#\[error\(.*?\)\]\n', '', it, flags=re.S)
        it = re.sub(r'#\[derive\([^\]]*\)\]\n', '', it).replace('#[from] ', '')
        it = it.replace('%s %s' % (kind, name), 'pub %s %s' % (kind, name))
        if kind == 'struct':
            it = re.sub(r'^    (\w+):', r'    pub \1:', it, flags=re.M)
        errs.append(it)
    trace.fire('R-derive-from')
    cf = []
    for name in ('check_tracing_arguments', 'check_bulk_arguments'):
        i, j, k = rsx.find_fn(va, name, a, b)
        cf.append(va[rsx.line_start(va, i):k])
        trace.items.append((VAR_RS, 'VarMap::' + name))
    ctr, cbk = cf
    # R-deref: the generic `V: Deref<Target = [T]>` is instantiated with Vec<T>
    old_s = 'fn check_bulk_arguments<T, V: std::ops::Deref<Target = [T]>>('
    if cbk.count(old_s) != 1 or cbk.count('vars: &[V],') != 1:
        raise ExtractError('R-deref: VarMap::check_bulk_arguments signature changed')
    cbk = cbk.replace(old_s, 'fn check_bulk_arguments<T>(').replace('vars: &[V],', 'vars: &[Vec<T>],')
    trace.fire('R-deref')
    # R-let: the closure of `vars.first().map(|v| v.len())` gets its type and postcondition
    old_l = 'vars.first().map(|v| v.len())'
    if cbk.count(old_l) != 1:
        raise ExtractError('R-let: first().map closure of check_bulk_arguments changed')
    cbk = cbk.replace(old_l, 'vars.first().map(|v: &Vec<T>| -> (r: usize) ensures r == v@.len() { v.len() })')
    trace.fire('R-let')
    # R-find: `S.iter().enumerate().find(|(_i, v)| P(v))` -> a loop that stops at the first index whose element satisfies P
    m = re.search(r'if let Some\(\((\w+), (\w+)\)\) =\s*(\w+)\.iter\(\)\.enumerate\(\)\.find\(\|\(_\w+, (\w+)\)\| ([^\n]+?)\)\s*\{', cbk)
    if not m:
        raise ExtractError('R-find: search of check_bulk_arguments changed')
    seqv, elem, pred = m.group(3), m.group(4), m.group(5)
    pred_i = re.sub(r'\b%s\b' % elem, '%s[i_]' % seqv, pred)
    pred_spec = re.sub(r'\b%s\.len\(\)' % elem, '%s@[k]@.len()' % seqv, pred)
    if pred_spec == pred:
        raise ExtractError('R-find: predicate %r does not look at the length of the element' % pred)
    hit_spec = re.sub(r'\b%s\.len\(\)' % elem, '%s@[found_->Some_0.0 as int]@.len()' % seqv, pred)
    ls = rsx.line_start(cbk, m.start())
    ind = ' ' * (m.start() - ls)
    loop = ('// R-find\n' + ind + 'let mut found_: Option<(usize, &Vec<T>)> = None;\n' + ind + 'let mut i_: usize = 0;\n' + ind + 'while i_ < %s.len() && found_.is_none()\n' % seqv
            + ind + '    invariant 0 <= i_ <= %s@.len(),\n' % seqv
            + ind + '        found_ is None ==> forall|k: int| #![trigger %s@[k]] 0 <= k < i_ ==> !(%s),\n' % (seqv, pred_spec)
            + ind + '        found_ is Some ==> found_->Some_0.0 < %s@.len() && %s && *found_->Some_0.1 == %s@[found_->Some_0.0 as int],\n' % (seqv, hit_spec, seqv)
            + ind + '    decreases %s@.len() - i_\n' % seqv
            + ind + '{\n' + ind + '    if %s { found_ = Some((i_, &%s[i_])); }\n' % (pred_i, seqv) + ind + '    i_ += 1;\n' + ind + '}\n'
            + ind + 'if let Some((%s, %s)) = found_ {' % (m.group(1), m.group(2)))
    cbk = cbk[:m.start()] + loop + cbk[m.end():]
    trace.fire('R-find')
    trace.drop('VarMap::{new (derive Default), iter (chained iterators), check_*_arguments (units vm / bounded total), Index impl}; Serialize/Deserialize derives')
    text = ('use vstd::prelude::*;\nuse vstd::std_specs::convert::*;\nuse std::collections::HashMap;\nverus! {\n' + vi + '\n\n' + var + '\n\n' + st + '\n\n' + '\n\n'.join(errs) + '\n\nimpl VarMap {\n' + SPEC_FNS + '\n' + '\n\n'.join(fns) + '\n\n' + ctr + '\n\n' + cbk + '\n}\n'
            + '\n} // verus!\n// outside verus!: the derived Hash of the key type (no run-time meaning here)\nimpl std::hash::Hash for VarIndex { fn hash<H: std::hash::Hasher>(&self, _h: &mut H) {} }\nfn main() {}\n')
    inj = Injector(text, trace)
    for q, (ret, t) in SPECS.items():
        inj.spec(q, ret, t)
        inj.proof(q, '$START', '        broadcast use vstd::std_specs::hash::group_hash_axioms;')
    inj.proof('VarMap::insert', '$END', INSERT_PROOF)
    inj.spec('VarMap::check_tracing_arguments', 'r: Result<(), TracingArgError>', '\n        requires self.len_spec() <= usize::MAX, %s,\n        ensures r is Ok <==> vars@.len() >= self.len_spec()\n' % KEY)
    inj.spec('VarMap::check_bulk_arguments', 'r: Result<(), BulkArgError>', '\n        requires self.len_spec() <= usize::MAX, %s,\n        // enough slices (extra ones are fine) and all of one length\n        ensures r is Ok <==> (vars@.len() >= self.len_spec() && uniform(vars@))\n' % KEY)
    inj.append_items(LINK)
    obls = [Obligation('varmap::VarMap::' + f, 'varmap', 'VarMap::' + f, props=PROPS) for f in ('len', 'is_empty', 'get', 'insert')]
    obls += [Obligation('varmap::VarMap::' + f, 'varmap', 'VarMap::' + f, props=['C11', 'C14']) for f in ('check_tracing_arguments', 'check_bulk_arguments')]
    obls.append(Obligation('varmap::lemma_entries_wf', 'varmap', 'lemma_entries_wf', props=PROPS, kind='lemma'))
    return {'texts': {'base': inj.s}, 'obligations': obls, 'canary_fns': ['VarMap::insert', 'VarMap::get']}
