"""Unit `shape`: the Shape-level evaluator wrappers of fidget-core/src/shape/mod.rs on their real text (C14, binding clause; C11).

`ShapeTracingEval::eval_raw` (generic over the evaluator `E: TracingEvaluator`, over the coordinate type `F: Into<E::Data>` and
the variable-value type `V: Into<E::Data>`) is proved to call the wrapped evaluator on an argument vector in which, for
EVERY entry `(var, index)` of the tape's variable map, slot `index` holds the value of `var`: the (transformed) x, y or z
for the axes, the supplied value of `VarIndex i` (converted) for `Var::V(i)` - whatever order the map enumerates its entries in
and whatever else is in `vars`; a variable of the map that is not supplied is the `MissingVar` error, and nothing else is an
error; the inner evaluator's argument error is unreachable (the `unreachable!()` is an obligation).  The four public wrappers
(`eval`, `eval_with_transform`, `eval_with_vars`, `eval_with_transform_and_vars`) are proved to be `eval_raw` with the
corresponding arguments.

`ShapeBulkEval::eval_raw` (generic over `E: BulkEvaluator` and over the closure that fills the rows of free variables), with
`eval` and `eval_with_transform`: slices of different lengths are an error; the argument matrix has max(#variables, 1) rows of
exactly n samples whatever the evaluator object held before; the closure is called once per free variable of the map with that
variable's own row and index; the rows of the axes hold the (transformed) positions at the map's indices for every sample; the
result is the first output row (n samples) of the wrapped evaluator on that matrix; no panic (both `unreachable!()` arms, every
index, `BulkOutput::borrow`).  Hypotheses on the closure: it accepts every row, and it cannot change the length of the slice
it is handed (no `&mut [T]` can; Verus does not know this by itself).

Trusted: `VarMap` is an opaque stub (HashMap inside): `entries()` is the sequence its `iter()` yields, assumed to have
distinct variables and distinct indices below `len()` (this is the content of `VarMap::insert`, bounded contract `flatten`);
R-iter turns `for (var, index) in vs.iter()` into an index loop over `iter_vec()` (a stub: `iter().collect()`); `ShapeVars`
(HashMap) is a stub map; `Matrix4` is opaque; the wrapped evaluator is specified by the trait contract (`out_spec`), which
the VM evaluators satisfy by unit `vm`; `Transformable::transform` is specified by the trait's spec twin `tr`."""
import re
from lib import rsx
from lib.rsx import ExtractError
from lib.verus_engine import Injector, Obligation

SHAPE_RS = 'fidget-core/src/shape/mod.rs'
VAR_RS = 'fidget-core/src/var/mod.rs'
EVAL_RS = 'fidget-core/src/eval/mod.rs'
TRACING_RS = 'fidget-core/src/eval/tracing.rs'
PROPS = ['C14', 'C11', 'C10']

RESIZE_ANCHOR = None

PRELUDE = r'''
// =================== stand-ins for external types (trusted; listed as assumptions) ===================
#[verifier::external_body]
#[verifier::reject_recursive_types(T)]
pub struct Matrix4<T> { p: core::marker::PhantomData<T> }
impl Matrix4<f32> {
    /// entry (row, column) of the matrix
    pub uninterp spec fn m(&self, i: int, j: int) -> f32;
    /// nalgebra's `row(i)` view, as the four entries of the row; an index outside 0..4 panics there (precondition here)
    #[verifier::external_body]
    pub fn row(&self, i: usize) -> (r: [f32; 4]) requires i < 4 ensures forall|k: int| 0 <= k < 4 ==> r@[k] == self.m(i as int, k) { unimplemented!() }
}
@DATA_STUBS@
#[verifier::external_body]
pub struct VarMap { p: u8 }
impl VarMap {
    /// the (variable, index) pairs in the order `iter()` yields them
    pub uninterp spec fn entries(&self) -> Seq<(Var, usize)>;
    /// what `VarMap::insert` maintains: every variable once, indices distinct and below the length
    pub open spec fn wf(&self) -> bool {
        &&& forall|i: int| 0 <= i < self.entries().len() ==> (#[trigger] self.entries()[i]).1 < self.entries().len()
        &&& forall|i: int, j: int| 0 <= i < j < self.entries().len() ==> (#[trigger] self.entries()[i]).1 != (#[trigger] self.entries()[j]).1
        &&& forall|i: int, j: int| 0 <= i < j < self.entries().len() ==> (#[trigger] self.entries()[i]).0 != (#[trigger] self.entries()[j]).0
    }
    #[verifier::external_body]
    pub fn len(&self) -> (r: usize) ensures r == self.entries().len() { unimplemented!() }
    /// R-iter: `iter().collect::<Vec<_>>()`
    #[verifier::external_body]
    pub fn iter_vec(&self) -> (r: Vec<(Var, usize)>) ensures r@ == self.entries() { unimplemented!() }
}
/// `ShapeVars<F>(HashMap<VarIndex, F>)`: a finite map
#[verifier::external_body]
#[verifier::reject_recursive_types(F)]
pub struct ShapeVars<F> { p: core::marker::PhantomData<F> }
impl<F> ShapeVars<F> {
    pub uninterp spec fn m(&self) -> Map<VarIndex, F>;
    #[verifier::external_body]
    pub fn new() -> (r: Self) ensures r.m() == Map::<VarIndex, F>::empty() { unimplemented!() }
    #[verifier::external_body]
    pub fn get(&self, i: VarIndex) -> (r: Option<&F>) ensures r is Some <==> self.m().dom().contains(i), r is Some ==> *r->Some_0 == self.m()[i] { unimplemented!() }
}
pub struct BadVarSlice { pub actual: usize, pub expected: usize }
/// R-derive-from: thiserror `#[from]`
impl FromSpecImpl<MissingVar> for ShapeTracingEvalError {
    open spec fn obeys_from_spec() -> bool { true }
    open spec fn from_spec(e: MissingVar) -> Self { ShapeTracingEvalError::MissingVar(e) }
}
impl From<MissingVar> for ShapeTracingEvalError { fn from(e: MissingVar) -> (r: Self) { ShapeTracingEvalError::MissingVar(e) } }
impl FromSpecImpl<MissingVar> for ShapeBulkEvalError {
    open spec fn obeys_from_spec() -> bool { true }
    open spec fn from_spec(e: MissingVar) -> Self { ShapeBulkEvalError::MissingVar(e) }
}
impl From<MissingVar> for ShapeBulkEvalError { fn from(e: MissingVar) -> (r: Self) { ShapeBulkEvalError::MissingVar(e) } }
pub assume_specification<T, A: core::alloc::Allocator, F: FnMut() -> T>[ Vec::<T, A>::resize_with ](v: &mut Vec<T, A>, new_len: usize, f: F)
    ensures final(v)@.len() == new_len;
pub assume_specification<T: Clone>[ <[T]>::fill ](s: &mut [T], value: T)
    ensures final(s)@.len() == old(s)@.len(), forall|i: int| 0 <= i < old(s)@.len() ==> final(s)@[i] == value;

// =================== specification of binding ===================
/// the conversion `Into<D>` of a coordinate or of a supplied variable value
pub open spec fn cv<F: Into<D>, D>(x: F) -> D { <F as IntoSpec<D>>::into_spec(x) }
/// the coordinates handed to the evaluator: converted, then transformed when a matrix is given
pub open spec fn coords<F: Into<D>, D: Transformable>(x: F, y: F, z: F, t: Option<&Matrix4<f32>>) -> (D, D, D) {
    if t is Some { D::tr(cv::<F, D>(x), cv::<F, D>(y), cv::<F, D>(z), t->Some_0) } else { (cv::<F, D>(x), cv::<F, D>(y), cv::<F, D>(z)) }
}
/// value bound to a variable: the (transformed) coordinates for the axes, the supplied value for a free variable
pub open spec fn bind<D, V: Into<D>>(var: Var, x: D, y: D, z: D, vars: Map<VarIndex, V>) -> D {
    match var { Var::X => x, Var::Y => y, Var::Z => z, Var::V(i) => cv::<V, D>(vars[i]) }
}
/// the argument vector binds every variable of the map by identity
pub open spec fn bound<D, V: Into<D>>(s: Seq<D>, m: VarMap, x: D, y: D, z: D, vars: Map<VarIndex, V>) -> bool {
    s.len() == m.entries().len()
    && forall|k: int| 0 <= k < m.entries().len() ==> s[(#[trigger] m.entries()[k]).1 as int] == bind::<D, V>(m.entries()[k].0, x, y, z, vars)
}
// ---- many-point wrapper
pub open spec fn bsize<T>(vars: Seq<Vec<T>>) -> int { if vars.len() > 0 { vars[0]@.len() as int } else { 0 } }
pub open spec fn rows_len<T>(m: Seq<Vec<T>>, n: int) -> bool { forall|k: int| 0 <= k < m.len() ==> (#[trigger] m[k])@.len() == n }
/// the value an axis variable takes at sample i
pub open spec fn axis_val<D: Transformable>(var: Var, xi: D, yi: D, zi: D, t: Option<&Matrix4<f32>>) -> D {
    let c = if t is Some { D::tr(xi, yi, zi, t->Some_0) } else { (xi, yi, zi) };
    match var { Var::X => c.0, Var::Y => c.1, Var::Z => c.2, Var::V(_) => c.0 }
}
/// rows of the axes hold the (transformed) positions for the first `upto` samples, at the map's indices
pub open spec fn axis_bound<D: Transformable>(m: Seq<Vec<D>>, map: VarMap, x: Seq<D>, y: Seq<D>, z: Seq<D>, t: Option<&Matrix4<f32>>, upto: int) -> bool {
    forall|k: int, i: int| 0 <= k < map.entries().len() && 0 <= i < upto && !(map.entries()[k].0 is V)
        ==> (#[trigger] m[map.entries()[k].1 as int]@[i]) == axis_val(map.entries()[k].0, x[i], y[i], z[i], t)
}
pub open spec fn mat_ok<D: Transformable>(m: Seq<Vec<D>>, map: VarMap, x: Seq<D>, y: Seq<D>, z: Seq<D>, t: Option<&Matrix4<f32>>) -> bool {
    m.len() == (if map.entries().len() >= 1 { map.entries().len() } else { 1 }) && rows_len(m, x.len() as int) && axis_bound(m, map, x, y, z, t, x.len() as int)
}
/// what the row filler may have written into a row for the free variable i: the final contents of some slice it returned Ok on
#[verifier::prophetic]
pub open spec fn wrote<D, F: Fn(&mut [D], VarIndex) -> Result<(), ShapeBulkEvalError>>(f: F, i: VarIndex, row: Seq<D>) -> bool {
    exists|a: &mut [D]| #[trigger] f.ensures((a, i), Ok(())) && final(a)@ == row
}
/// the row filler may fail for the free variable i on a row of n samples
pub open spec fn failed<D, F: Fn(&mut [D], VarIndex) -> Result<(), ShapeBulkEvalError>>(f: F, i: VarIndex, n: int) -> bool {
    exists|a: &mut [D], e: ShapeBulkEvalError| #[trigger] f.ensures((a, i), Err(e)) && a@.len() == n
}
/// the row of every free variable of the map holds what the row filler wrote for that variable's own index
#[verifier::prophetic]
pub open spec fn vars_bound<D, F: Fn(&mut [D], VarIndex) -> Result<(), ShapeBulkEvalError>>(m: Seq<Vec<D>>, map: VarMap, f: F, upto: int) -> bool {
    forall|k: int| 0 <= k < upto && (#[trigger] map.entries()[k]).0 is V ==> wrote(f, map.entries()[k].0->V_0, m[map.entries()[k].1 as int]@)
}
/// the row of every free variable holds, in every sample, the value supplied under that variable's identity
pub open spec fn vals_bound<D, G: Into<D>>(m: Seq<Vec<D>>, map: VarMap, vars: Map<VarIndex, G>) -> bool {
    forall|k: int, j: int| 0 <= k < map.entries().len() && (#[trigger] map.entries()[k]).0 is V && 0 <= j < m[map.entries()[k].1 as int]@.len()
        ==> #[trigger] m[map.entries()[k].1 as int]@[j] == cv::<G, D>(vars[map.entries()[k].0->V_0])
}
/// the row of every free variable holds, sample by sample, the array supplied under that variable's identity
pub open spec fn arrs_bound<D, G: Into<D>>(m: Seq<Vec<D>>, map: VarMap, vars: Map<VarIndex, Vec<G>>) -> bool {
    forall|k: int, j: int| 0 <= k < map.entries().len() && (#[trigger] map.entries()[k]).0 is V && 0 <= j < m[map.entries()[k].1 as int]@.len()
        ==> #[trigger] m[map.entries()[k].1 as int]@[j] == cv::<G, D>(vars[map.entries()[k].0->V_0]@[j])
}
/// the array supplied for some variable of the map has another length than the position arrays
pub open spec fn bad_len<G>(m: VarMap, vars: Map<VarIndex, Vec<G>>, n: int) -> bool {
    exists|k: int| 0 <= k < m.entries().len() && (#[trigger] m.entries()[k]).0 is V && vars.dom().contains(m.entries()[k].0->V_0) && vars[m.entries()[k].0->V_0]@.len() != n
}
/// some variable of the map is not supplied
pub open spec fn missing<V>(m: VarMap, vars: Map<VarIndex, V>) -> bool {
    exists|k: int| 0 <= k < m.entries().len() && (#[trigger] m.entries()[k]).0 is V && !vars.dom().contains(m.entries()[k].0->V_0)
}
'''

DATA_STUB = '''// ---- @T@ as `Transformable::transform` sees it: Copy, `+`, `/`, `* f32`, `From<f32>` (stubs with uninterpreted meanings; the
// operators themselves are under contract in units interval / grad)
pub struct @T@ { @F@ }
impl Clone for @T@ { fn clone(&self) -> (r: Self) ensures r == *self { *self } }
impl Copy for @T@ {}
pub uninterp spec fn @p@_add(a: @T@, b: @T@) -> @T@;
pub uninterp spec fn @p@_div(a: @T@, b: @T@) -> @T@;
pub uninterp spec fn @p@_scale(a: @T@, x: f32) -> @T@;
pub uninterp spec fn @p@_from(x: f32) -> @T@;
impl FromSpecImpl<f32> for @T@ {
    open spec fn obeys_from_spec() -> bool { true }
    open spec fn from_spec(e: f32) -> Self { @p@_from(e) }
}
impl From<f32> for @T@ { #[verifier::external_body] fn from(f: f32) -> (r: Self) { unimplemented!() } }
impl AddSpecImpl<@T@> for @T@ {
    open spec fn obeys_add_spec() -> bool { true }
    open spec fn add_req(self, rhs: @T@) -> bool { true }
    open spec fn add_spec(self, rhs: @T@) -> @T@ { @p@_add(self, rhs) }
}
impl std::ops::Add<@T@> for @T@ { type Output = @T@; #[verifier::external_body] fn add(self, rhs: @T@) -> @T@ { unimplemented!() } }
impl DivSpecImpl<@T@> for @T@ {
    open spec fn obeys_div_spec() -> bool { true }
    open spec fn div_req(self, rhs: @T@) -> bool { true }
    open spec fn div_spec(self, rhs: @T@) -> @T@ { @p@_div(self, rhs) }
}
impl std::ops::Div<@T@> for @T@ { type Output = @T@; #[verifier::external_body] fn div(self, rhs: @T@) -> @T@ { unimplemented!() } }
impl MulSpecImpl<f32> for @T@ {
    open spec fn obeys_mul_spec() -> bool { true }
    open spec fn mul_req(self, rhs: f32) -> bool { true }
    open spec fn mul_spec(self, rhs: f32) -> @T@ { @p@_scale(self, rhs) }
}
impl std::ops::Mul<f32> for @T@ { type Output = @T@; #[verifier::external_body] fn mul(self, rhs: f32) -> @T@ { unimplemented!() } }
/// row i of M·(x, y, z, 1) in the type's own arithmetic
pub open spec fn @p@_hom(x: @T@, y: @T@, z: @T@, mat: &Matrix4<f32>, i: int) -> @T@ {
    @p@_add(@p@_add(@p@_add(@p@_scale(x, mat.m(i, 0)), @p@_scale(y, mat.m(i, 1))), @p@_scale(z, mat.m(i, 2))), @p@_from(mat.m(i, 3)))
}
/// the transformed position: M·(x, y, z, 1) divided by its homogeneous coordinate
pub open spec fn @p@_tr(x: @T@, y: @T@, z: @T@, mat: &Matrix4<f32>) -> (@T@, @T@, @T@) {
    (@p@_div(@p@_hom(x, y, z, mat, 0), @p@_hom(x, y, z, mat, 3)), @p@_div(@p@_hom(x, y, z, mat, 1), @p@_hom(x, y, z, mat, 3)), @p@_div(@p@_hom(x, y, z, mat, 2), @p@_hom(x, y, z, mat, 3)))
}
'''


def data_stub(T, p, fields):
    return DATA_STUB.replace('@T@', T).replace('@p@', p).replace('@F@', fields)


def array_map(body, trace):
    '''R-arraymap: `[c0, c1, ..].map(|i| { BODY })` -> `[{ let i = c0; BODY }, { let i = c1; BODY }, ..]` (array::map applies the
    closure to the elements in order; the closure captures by reference and has no effect)'''
    m = re.search(r'\[((?:\d+, )*\d+)\]\.map\(\|(\w+)\| \{', body)
    if not m:
        raise ExtractError('R-arraymap: no `[..].map(|i| {` in Transformable::transform')
    ob = m.end() - 1
    cb = rsx.match_brace(body, ob)
    if body[cb + 1] != ')':
        raise ExtractError('R-arraymap: closure is not the only argument')
    inner = body[ob + 1:cb]
    elems = ['{ let %s = %s;%s}' % (m.group(2), c, inner) for c in m.group(1).split(', ')]
    trace.fire('R-arraymap')
    return body[:m.start()] + '[' + ', '.join(elems) + ']' + body[cb + 2:]


def tuple_struct(src, name):
    m = re.search(r'^struct %s\b[^;{]*;' % name, src, re.M)
    if not m:
        raise ExtractError('tuple struct not found: ' + name)
    return m.group(0)


def build(repo, trace):
    sh = rsx.clean(open('%s/%s' % (repo, SHAPE_RS)).read(), trace)
    va = rsx.clean(open('%s/%s' % (repo, VAR_RS)).read(), trace)
    ev = rsx.clean(open('%s/%s' % (repo, EVAL_RS)).read(), trace)
    tr = rsx.clean(open('%s/%s' % (repo, TRACING_RS)).read(), trace)
    # ---- var/mod.rs
    var = rsx.get_item(va, r'^enum Var\b', 0, 'enum Var')
    var = re.sub(r'#\[derive\([^\]]*\)\]', '', var, flags=re.S).strip()
    var = '#[derive(Copy, Clone, PartialEq, Eq, Structural)]\npub ' + var[var.index('enum Var'):]
    vi = tuple_struct(va, 'VarIndex')
    vi = '#[derive(Copy, Clone, PartialEq, Eq, Structural)]\npub ' + vi.replace('struct VarIndex(u64)', 'struct VarIndex(pub u64)')
    a, b = rsx.impl_block(va, r'^impl VarMap\b', 'impl VarMap')
    rsx.find_fn(va, 'iter', a, b)
    trace.items.append((VAR_RS, 'enum Var, struct VarIndex'))
    trace.drop('VarMap (HashMap, chained iterator): opaque stub with entries()/wf()/len()/iter_vec(); VarMap::iter inlined by R-iter')
    trace.fire('R-derive-structural', 2)
    tae = rsx.get_item(va, r'^enum TracingArgError\b', 0, 'enum TracingArgError')
    tae = re.sub(r'^\s*#\[error\([^\]]*\)\]\n', '', tae, flags=re.M)
    tae = re.sub(r'#\[derive\([^\]]*\)\]\n?', '', tae).replace('enum TracingArgError', 'pub enum TracingArgError')
    # ---- eval: trait Tape, trait TracingEvaluator, TracingEvalError
    i, j, k = rsx.find_item(ev, r'^trait Tape\b', 0, 'trait Tape')
    tape_tr = ev[i:k].replace('trait Tape: Send + Sync + Clone', 'pub trait Tape: Clone')
    trace.drop('Send + Sync bounds of trait Tape (marker traits, no run-time meaning)')
    i, j, k = rsx.find_item(tr, r'^trait TracingEvaluator\b', 0, 'trait TracingEvaluator')
    te = tr[i:k].replace('trait TracingEvaluator', 'pub trait TracingEvaluator')
    if not re.search(r'^type TracingResult<\'a, Data, Trace> = \(&\'a \[Data\], Option<&\'a Trace>\);', tr, re.M):
        raise ExtractError('type TracingResult changed')
    te = te.replace("Result<TracingResult<'_, Self::Data, Self::Trace>, TracingEvalError>", 'Result<(&[Self::Data], Option<&Self::Trace>), TracingEvalError>')
    trace.fire('R-alias')   # the type alias TracingResult is expanded
    if not re.search(r'^struct TracingEvalError\(#\[from\] TracingArgError\);', tr, re.M):
        raise ExtractError('TracingEvalError changed')
    trace.items += [(EVAL_RS, 'trait Tape'), (TRACING_RS, 'trait TracingEvaluator, struct TracingEvalError')]
    # ---- shape/mod.rs
    st = rsx.get_item(sh, r'^struct ShapeTape<T>', 0, 'struct ShapeTape')
    st = re.sub(r'#\[derive\([^\]]*\)\]\n', '', st).replace('struct ShapeTape<T>', 'pub struct ShapeTape<T>').replace('    tape: T,', '    pub tape: T,')
    a, b = rsx.impl_block(sh, r'^impl<T: Tape> ShapeTape<T>', 'impl ShapeTape')
    i, j, k = rsx.find_fn(sh, 'vars', a, b)
    st_vars = sh[rsx.line_start(sh, i):k]
    mv = rsx.get_item(sh, r'^struct MissingVar\b', 0, 'struct MissingVar')
    mv = re.sub(r'#\[error\([^\]]*\)\]\n', '', mv)
    mv = re.sub(r'#\[derive\([^\]]*\)\]\n', '', mv).replace('struct MissingVar', 'pub struct MissingVar').replace('    var:', '    pub var:')
    ste = rsx.get_item(sh, r'^enum ShapeTracingEvalError\b', 0, 'enum ShapeTracingEvalError')
    ste = re.sub(r'^\s*#\[error\([^\]]*\)\]\n', '', ste, flags=re.M)
    ste = re.sub(r'#\[derive\([^\]]*\)\]\n', '', ste).replace('#[from] ', '').replace('enum ShapeTracingEvalError', 'pub enum ShapeTracingEvalError')
    trace.fire('R-derive-from')
    sev = rsx.get_item(sh, r'^struct ShapeTracingEval<E: TracingEvaluator>', 0, 'struct ShapeTracingEval')
    sev = re.sub(r'#\[derive\([^\]]*\)\]\n', '', sev).replace('struct ShapeTracingEval', 'pub struct ShapeTracingEval').replace('    eval: E,', '    pub eval: E,').replace('    scratch:', '    pub scratch:')
    i, j, k = rsx.find_item(sh, r'^impl<E: TracingEvaluator> ShapeTracingEval<E>\nwhere', 0, 'impl ShapeTracingEval')
    hdr = sh[i:j]
    fns = []
    names = ['eval', 'eval_with_transform', 'eval_with_transform_and_vars', 'eval_with_vars', 'eval_raw']
    for name in names:
        i2, j2, k2 = rsx.find_fn(sh, name, j + 1, k - 1)
        fns.append(sh[rsx.line_start(sh, i2):k2])
        trace.items.append((SHAPE_RS, 'ShapeTracingEval::' + name))
    i, j, k = rsx.find_item(sh, r'^trait Transformable\b', 0, 'trait Transformable')
    trf = sh[i:k].replace('trait Transformable', 'pub trait Transformable')
    trace.items.append((SHAPE_RS, 'struct ShapeTape, ShapeTape::vars, struct MissingVar, enum ShapeTracingEvalError, struct ShapeTracingEval, trait Transformable'))
    trace.drop('impl Transformable for f32 (nalgebra transform_point; bounded contract shape_transform stands in), BoundShape, ShapeRenderHints')
    timpls = []
    for T, p in (('Interval', 'iv'), ('Grad', 'gd')):
        i, j, k = rsx.find_item(sh, r'^impl Transformable for %s\b' % T, 0, 'impl Transformable for ' + T)
        try:
            t = array_map(sh[i:k], trace)
        except ExtractError as e:
            # left as written: the pre-check decides whether Verus can take the function (outside the subset -> that obligation alone is undecided)
            t = sh[i:k]
            trace.drop('R-arraymap not applicable to <%s as Transformable>::transform (%s)' % (T, e))
        old = '    fn transform('
        if t.count(old) != 1:
            raise ExtractError('impl Transformable for %s changed' % T)
        t = t.replace(old, '    open spec fn tr(x: %s, y: %s, z: %s, mat: &Matrix4<f32>) -> (%s, %s, %s) { %s_tr(x, y, z, mat) }\n' % (T, T, T, T, T, T, p) + old)
        timpls.append(t)
        trace.items.append((SHAPE_RS, '<%s as Transformable>::transform' % T))
    trf = trf + '\n\n' + '\n\n'.join(timpls)
    body = hdr + '{\n' + '\n\n'.join(fns) + '\n}\n'
    body = body.replace('Matrix4<f32>', 'Matrix4<f32>')
    # drop-fmt-args has already turned assert_eq!(a, b, msg) into assert!(a == b)
    # R-iter
    old = '        for (var, index) in vs.iter() {\n'
    if body.count(old) != 1:
        raise ExtractError('R-iter: loop header of eval_raw changed')
    body = body.replace(old, '        let it_ = vs.iter_vec();   // R-iter: vs.iter() collected\n        let mut q_: usize = 0;\n        while q_ < it_.len() {\n            let (var, index) = it_[q_];\n            q_ += 1;\n')
    trace.fire('R-iter')
    # the inner evaluator's argument error: nested pattern with `..` on an external enum -> wildcard
    old = 'Err(TracingEvalError(TracingArgError::BadVarSlice(..))) => {'
    if body.count(old) != 1:
        raise ExtractError('eval_raw: error arm changed')
    # ---- bulk wrapper: BulkOutput, BulkEvaluator, ShapeBulkEvalError, ShapeBulkEval::{eval_raw, eval, eval_with_transform, no_vars}
    bk = rsx.clean(open('%s/fidget-core/src/eval/bulk.rs' % repo).read(), trace)
    bo = rsx.get_item(bk, r"^struct BulkOutput<'a, T>", 0, 'struct BulkOutput')
    bo = bo.replace("struct BulkOutput<'a, T>", "pub struct BulkOutput<'a, T>").replace('    data:', '    pub data:').replace('    len:', '    pub len:')
    bo_fns = []
    for hdr_occ, name in ((0, 'new'), (None, 'borrow')):
        found = None
        for m in re.finditer(r"^impl<'a, T> BulkOutput<'a, T> \{", bk, re.M):
            ob = m.end() - 1
            cb = rsx.match_brace(bk, ob)
            try:
                i2, j2, k2 = rsx.find_fn(bk, name, ob, cb)
                found = bk[rsx.line_start(bk, i2):k2]
                break
            except ExtractError:
                continue
        if found is None:
            raise ExtractError('BulkOutput::%s not found' % name)
        bo_fns.append(found)
    i, j, k = rsx.find_item(bk, r'^trait BulkEvaluator\b', 0, 'trait BulkEvaluator')
    be = bk[i:k].replace('trait BulkEvaluator', 'pub trait BulkEvaluator')
    # R-deref: the generic parameter `V: Deref<Target = [Self::Data]>` of BulkEvaluator::eval is instantiated with Vec<Self::Data>
    old_sig = 'fn eval<V: std::ops::Deref<Target = [Self::Data]>>('
    if be.count(old_sig) != 1 or be.count('vars: &[V],') != 1:
        raise ExtractError('R-deref: BulkEvaluator::eval changed')
    be = be.replace(old_sig, 'fn eval(').replace('vars: &[V],', 'vars: &[Vec<Self::Data>],')
    trace.fire('R-deref')
    if not re.search(r'^struct BulkEvalError\(#\[from\] BulkArgError\);', bk, re.M):
        raise ExtractError('BulkEvalError changed')
    ms = rsx.get_item(va, r'^struct MismatchedSlices\b', 0, 'struct MismatchedSlices')
    ms = re.sub(r'#\[error\([^\]]*\)\]\n', '', ms, flags=re.S)
    ms = re.sub(r'#\[derive\([^\]]*\)\]\n', '', ms).replace('struct MismatchedSlices', 'pub struct MismatchedSlices')
    bae = rsx.get_item(va, r'^enum BulkArgError\b', 0, 'enum BulkArgError')
    bae = re.sub(r'^\s*#\[error\([^\]]*\)\]\n', '', bae, flags=re.M)
    bae = re.sub(r'#\[derive\([^\]]*\)\]\n', '', bae).replace('#[from] ', '').replace('enum BulkArgError', 'pub enum BulkArgError')
    sbe = rsx.get_item(sh, r'^enum ShapeBulkEvalError\b', 0, 'enum ShapeBulkEvalError')
    sbe = re.sub(r'^\s*#\[error\([^\]]*\)\]\n', '', sbe, flags=re.M | re.S)
    sbe = re.sub(r'#\[error\(.*?\)\]\n', '', sbe, flags=re.S)
    sbe = re.sub(r'#\[derive\([^\]]*\)\]\n', '', sbe).replace('#[from] ', '').replace('enum ShapeBulkEvalError', 'pub enum ShapeBulkEvalError')
    sbv = rsx.get_item(sh, r'^struct ShapeBulkEval<E: BulkEvaluator>', 0, 'struct ShapeBulkEval')
    sbv = re.sub(r'#\[derive\([^\]]*\)\]\n', '', sbv).replace('struct ShapeBulkEval', 'pub struct ShapeBulkEval').replace('    eval: E,', '    pub eval: E,').replace('    scratch:', '    pub scratch:')
    i, j, k = rsx.find_item(sh, r'^impl<E: BulkEvaluator> ShapeBulkEval<E>\nwhere', 0, 'impl ShapeBulkEval')
    bhdr = sh[i:j]
    bfns = []
    for name in ['eval', 'eval_with_transform', 'eval_with_var_arrays', 'eval_with_transform_and_var_arrays', 'eval_with_vars', 'eval_with_transform_and_vars', 'no_vars', 'var_array', 'var_value', 'eval_raw']:
        i2, j2, k2 = rsx.find_fn(sh, name, j + 1, k - 1)
        bfns.append(sh[rsx.line_start(sh, i2):k2])
        trace.items.append((SHAPE_RS, 'ShapeBulkEval::' + name))
    bbody = bhdr + '{\n' + '\n\n'.join(bfns) + '\n}\n'
    # the contract of eval_raw is placed after its `where` clause (Verus' order: signature, where, requires/ensures)
    old_w = ') -> Result<&[E::Data], ShapeBulkEvalError>\n    where\n        F: Fn(&mut [E::Data], VarIndex) -> Result<(), ShapeBulkEvalError>,\n    {'
    if bbody.count(old_w) != 1:
        raise ExtractError('signature of ShapeBulkEval::eval_raw changed')
    bbody = bbody.replace(old_w, ') -> (r: Result<&[E::Data], ShapeBulkEvalError>)\n    where\n        F: Fn(&mut [E::Data], VarIndex) -> Result<(), ShapeBulkEvalError>,\n/*@spec*/' + BULK_RAW.rstrip('\n') + '\n/*@endspec*/    {')
    # R-deref: the generic parameter `V: Deref<Target = [G]>` of the array wrappers is instantiated with Vec<G>
    n_d = bbody.count('        V: std::ops::Deref<Target = [G]>,\n')
    if n_d != 3:
        raise ExtractError('R-deref: expected 3 functions generic over V: Deref<Target = [G]> in ShapeBulkEval, found %d' % n_d)
    bbody = bbody.replace('        V: std::ops::Deref<Target = [G]>,\n', '')
    if bbody.count('vars: &ShapeVars<V>,') != 3:
        raise ExtractError('R-deref: ShapeVars<V> parameters changed')
    bbody = bbody.replace('vars: &ShapeVars<V>,', 'vars: &ShapeVars<Vec<G>>,')
    trace.fire('R-deref', 3)
    # R-zipmut: `for (a, b) in D.iter_mut().zip(S.deref().iter()) { *a = (*b).into(); }` -> index loop over D (the two lengths are
    # equal here: the preceding statement returns an error otherwise, and the index into S is an obligation)
    old_z = '            for (a, b) in data.iter_mut().zip(vars.deref().iter()) {\n                *a = (*b).into();\n            }\n'
    if bbody.count(old_z) != 1:
        raise ExtractError('R-zipmut: copy loop of ShapeBulkEval::var_array changed')
    bbody = bbody.replace(old_z, '            for j_ in 0..data.len()   // R-zipmut\n                invariant data@.len() == old(data)@.len(), vars@.len() == data@.len(), <G as IntoSpec<E::Data>>::obeys_into_spec(), forall|k: int| 0 <= k < j_ ==> #[trigger] data@[k] == cv::<G, E::Data>(vars@[k]),\n            {\n                data[j_] = (vars[j_]).into();\n            }\n')
    trace.fire('R-zipmut')
    old_c = '        |data: &mut [E::Data], i: VarIndex| {\n            let vars = vars.get(i)'
    if bbody.count(old_c) != 1:
        raise ExtractError('closure of ShapeBulkEval::var_array changed')
    bbody = bbody.replace(old_c, '        |data: &mut [E::Data], i: VarIndex| -> (r: Result<(), ShapeBulkEvalError>)\n' + VAR_ARRAY_CLOSURE.strip('\n') + '\n        {\n            let ghost vm_ = vars.m();\n            let vars = vars.get(i)')
    trace.fire('R-let')
    # the closure built by var_value gets its contract (R-let style: a postcondition on the closure header)
    old_c = '        |data: &mut [E::Data], i: VarIndex| {\n            let value = vars.get(i)'
    if bbody.count(old_c) != 1:
        raise ExtractError('closure of ShapeBulkEval::var_value changed')
    bbody = bbody.replace(old_c, '        |data: &mut [E::Data], i: VarIndex| -> (r: Result<(), ShapeBulkEvalError>)\n' + VAR_VALUE_CLOSURE.strip('\n') + '\n        {\n            let value = vars.get(i)')
    trace.fire('R-let')
    # R-armblock: the three axis arms of the entries loop get a block (a ghost witness is recorded there)
    for ax, k in (('X', 0), ('Y', 1), ('Z', 2)):
        o = '                Var::%s => axes[%d] = Some(index),\n' % (ax, k)
        if bbody.count(o) != 1:
            raise ExtractError('R-armblock: axis arm %s of ShapeBulkEval::eval_raw changed' % ax)
        bbody = bbody.replace(o, '                Var::%s => { axes[%d] = Some(index); proof { k%s_ = q_ - 1; } }\n' % (ax, k, ax.lower()))
        trace.fire('R-armblock')
    # R-underscore-param: `_: T` parameter gets a name
    bbody, n = re.subn(r'^(\s*)_: &mut \[E::Data\],', r'\1unused_: &mut [E::Data],', bbody, flags=re.M)
    trace.fire('R-underscore-param', n)
    # R-itermut: `for s in &mut self.scratch { s.resize(n, 0.0.into()); }`
    # R-itermut: `for s in &mut V { s.resize(n, e); }` / `for s in &mut V[..K] { .. }` -> index loop over V (up to K)
    pat = re.compile(r'        for s in &mut self\.scratch(\[\.\.(\w+)\])? \{\n            s\.resize\(n, 0\.0\.into\(\)\);\n        \}\n')
    mm = pat.search(bbody)
    if not mm or len(pat.findall(bbody)) != 1:
        raise ExtractError('R-itermut: ShapeBulkEval::eval_raw resize loop changed')
    bound = mm.group(2) if mm.group(1) else 'self.scratch.len()'
    global RESIZE_ANCHOR
    RESIZE_ANCHOR = 'while j_ < %s' % bound
    bbody = bbody[:mm.start()] + ('        let mut j_: usize = 0;   // R-itermut\n        while j_ < %s {\n            self.scratch[j_].resize(n, 0.0.into());\n            j_ += 1;\n        }\n' % bound) + bbody[mm.end():]
    trace.fire('R-itermut')
    old = '        for (var, index) in vs.iter() {\n'
    if bbody.count(old) != 1:
        raise ExtractError('R-iter: loop header of ShapeBulkEval::eval_raw changed')
    bbody = bbody.replace(old, '        let it_ = vs.iter_vec();   // R-iter: vs.iter() collected\n        let mut q_: usize = 0;\n        while q_ < it_.len() {\n            let (var, index) = it_[q_];\n            q_ += 1;\n')
    trace.fire('R-iter')
    bulk_text = (bo + "\n\nimpl<'a, T> BulkOutput<'a, T> {\n" + '\n\n'.join(bo_fns) + '\n}\n\n' + ms + '\n\n' + bae + '\n\npub struct BulkEvalError(pub BulkArgError);\n\n'
                 + be + '\n\n' + sbe + '\n\n' + sbv + '\n\n' + bbody)
    trace.items.append((SHAPE_RS, 'enum ShapeBulkEvalError, struct ShapeBulkEval'))
    text = ('#![feature(allocator_api)]\nuse vstd::prelude::*;\nuse vstd::std_specs::convert::*;\nuse vstd::std_specs::ops::*;\nverus! {\n' + vi + '\n\n' + var + '\n\n' + tae + '\n\npub struct TracingEvalError(pub TracingArgError);\n\n'
            + tape_tr + '\n\n' + te + '\n\n' + st + '\n\nimpl<T: Tape> ShapeTape<T> {\n' + st_vars + '\n}\n\n' + mv + '\n\n' + ste + '\n\n' + sev + '\n\n' + trf + '\n\n' + body + '\n' + bulk_text
            + '\n} // verus!\nfn main() {}\n')
    inj = Injector(text, trace)
    # spec twins and contracts inside the trait declarations (R-spec-in-trait)
    inj.replace_once('    fn vars(&self) -> &VarMap;', """    spec fn vars_spec(&self) -> VarMap;
    spec fn noutputs(&self) -> nat;
    fn vars(&self) -> (r: &VarMap) ensures *r == self.vars_spec();""", 'R-spec-in-trait')
    inj.replace_once('    fn output_count(&self) -> usize;', '    fn output_count(&self) -> (r: usize) ensures r == self.noutputs();', 'R-spec-in-trait')
    m = re.search(r'    fn eval\(\n        &mut self,\n        tape: &Self::Tape,\n        vars: &\[Self::Data\],\n    \) -> Result<\(&\[Self::Data\], Option<&Self::Trace>\), TracingEvalError>;', inj.s)
    if not m:
        raise ExtractError('TracingEvaluator::eval declaration changed')
    inj.s = inj.s[:m.start()] + """    /// the outputs the evaluator computes for a tape and an argument vector
    spec fn out_spec(tape: &Self::Tape, vars: Seq<Self::Data>) -> Seq<Self::Data>;
    fn eval(
        &mut self,
        tape: &Self::Tape,
        vars: &[Self::Data],
    ) -> (r: Result<(&[Self::Data], Option<&Self::Trace>), TracingEvalError>)
        requires tape.vars_spec().wf()
        ensures r is Err <==> vars@.len() < tape.vars_spec().entries().len(),
            r is Ok ==> r->Ok_0.0@ == Self::out_spec(tape, vars@) && r->Ok_0.0@.len() == tape.noutputs();""" + inj.s[m.end():]
    m = re.search(r'    fn transform\(\n        x: Self,\n        y: Self,\n        z: Self,\n        mat: &Matrix4<f32>,\n    \) -> \(Self, Self, Self\)\n    where\n        Self: Sized;', inj.s)
    if not m:
        raise ExtractError('Transformable::transform declaration changed')
    inj.s = inj.s[:m.start()] + """    spec fn tr(x: Self, y: Self, z: Self, mat: &Matrix4<f32>) -> (Self, Self, Self) where Self: Sized;
    fn transform(
        x: Self,
        y: Self,
        z: Self,
        mat: &Matrix4<f32>,
    ) -> (r: (Self, Self, Self))
    where
        Self: Sized,
        ensures r == Self::tr(x, y, z, mat);""" + inj.s[m.end():]
    m = re.search(r'    fn eval\(\n        &mut self,\n        tape: &Self::Tape,\n        vars: &\[Vec<Self::Data>\],\n    \) -> Result<BulkOutput<\'_, Self::Data>, BulkEvalError>;', inj.s)
    if not m:
        raise ExtractError('BulkEvaluator::eval declaration changed')
    inj.s = inj.s[:m.start()] + """    /// the output matrix (outputs x samples) the evaluator computes for a tape and an argument matrix
    spec fn bulk_spec(tape: &Self::Tape, vars: Seq<Vec<Self::Data>>) -> Seq<Seq<Self::Data>>;
    fn eval(
        &mut self,
        tape: &Self::Tape,
        vars: &[Vec<Self::Data>],
    ) -> (r: Result<BulkOutput<'_, Self::Data>, BulkEvalError>)
        requires tape.vars_spec().wf()
        ensures
            r is Err <==> (vars@.len() < tape.vars_spec().entries().len() || exists|i: int| 0 <= i < vars@.len() && (#[trigger] vars@[i])@.len() != vars@[0]@.len()),
            r is Ok ==> r->Ok_0.data@.len() == tape.noutputs() && r->Ok_0.len == bsize(vars@)
                && (forall|k: int| 0 <= k < r->Ok_0.data@.len() ==> (#[trigger] r->Ok_0.data@[k])@.len() >= r->Ok_0.len)
                && (forall|k: int, i: int| 0 <= k < tape.noutputs() && 0 <= i < bsize(vars@) ==> (#[trigger] r->Ok_0.data@[k]@[i]) == Self::bulk_spec(tape, vars@)[k][i]);""" + inj.s[m.end():]
    for q, (ret, t) in SPECS.items():
        inj.spec(q, ret, t)
    for (q, anchor, occ, before, proof) in PROOFS:
        inj.proof(q, anchor, proof, occ=occ, before=before)
    for (q, anchor, inv) in LOOPS:
        inj.loop_inv(q, RESIZE_ANCHOR if anchor == '@RESIZE@' else anchor, inv)
    inj.attr('ShapeTracingEval::eval_raw', '#[verifier::loop_isolation(false)]')
    inj.attr('ShapeBulkEval::eval_raw', '#[verifier::loop_isolation(false)]')
    inj.append_items(PRELUDE.replace('@DATA_STUBS@', data_stub('Interval', 'iv', 'pub lower: f32, pub upper: f32') + data_stub('Grad', 'gd', 'pub v: f32, pub dx: f32, pub dy: f32, pub dz: f32')))
    fns = ['BulkOutput::new', 'BulkOutput::borrow', 'ShapeBulkEval::eval_raw', 'ShapeBulkEval::eval', 'ShapeBulkEval::eval_with_transform', 'ShapeBulkEval::no_vars', 'ShapeBulkEval::var_value', 'ShapeBulkEval::eval_with_vars', 'ShapeBulkEval::eval_with_transform_and_vars', 'ShapeBulkEval::var_array', 'ShapeBulkEval::eval_with_var_arrays', 'ShapeBulkEval::eval_with_transform_and_var_arrays', 'ShapeTape::vars', 'ShapeTracingEval::eval_raw', 'ShapeTracingEval::eval', 'ShapeTracingEval::eval_with_transform',
           'ShapeTracingEval::eval_with_transform_and_vars', 'ShapeTracingEval::eval_with_vars']
    obls = [Obligation('shape::' + f, 'shape', f, props=PROPS) for f in fns]
    obls += [Obligation('shape::<%s as Transformable>::transform' % T, 'shape', '*%s::transform' % T, props=['C14', 'C03' if T == 'Interval' else 'C05']) for T in ('Interval', 'Grad')]
    return {'texts': {'base': inj.s}, 'obligations': obls, 'canary_fns': ['ShapeTracingEval::eval_raw', 'ShapeTracingEval::eval', 'ShapeBulkEval::eval_raw', 'ShapeBulkEval::eval'],
            'verus_args': ['--edition=2024']}   # the crate's edition (capture rules of `impl Trait` in return position)


COORD = "coords::<F, E::Data>(x, y, z, transform)"

RAW_ENSURES = """
        requires tape.tape.vars_spec().wf(), tape.tape.noutputs() == 1,
            <F as IntoSpec<E::Data>>::obeys_into_spec(), <V as IntoSpec<E::Data>>::obeys_into_spec(),
        ensures
            // a variable of the tape that is not supplied is the only error
            r is Err <==> missing(tape.tape.vars_spec(), vars.m()),
            // otherwise the result is the wrapped evaluator's first output on an argument vector that binds every variable by identity
            r is Ok ==> exists|s: Seq<E::Data>| #[trigger] bound(s, tape.tape.vars_spec(), %(c)s.0, %(c)s.1, %(c)s.2, vars.m())
                && r->Ok_0.0 == E::out_spec(&tape.tape, s)[0],
"""

def wrap_spec(tr, vars_m, vty, conv_req):
    c = "coords::<F, E::Data>(x, y, z, %s)" % tr
    return """
        requires tape.tape.vars_spec().wf(), tape.tape.noutputs() == 1, <F as IntoSpec<E::Data>>::obeys_into_spec(), %s
        ensures
            r is Err <==> missing(tape.tape.vars_spec(), %s),
            r is Ok ==> exists|s: Seq<E::Data>| #[trigger] bound::<E::Data, %s>(s, tape.tape.vars_spec(), %s.0, %s.1, %s.2, %s)
                && r->Ok_0.0 == E::out_spec(&tape.tape, s)[0],
""" % (conv_req, vars_m, vty, c, c, c, vars_m)


BULK_RAW = """
        requires tape.tape.vars_spec().wf(), tape.tape.noutputs() == 1,
            // the closure accepts every row and cannot change the length of the slice it is handed (no `&mut [T]` can)
            forall|a: &mut [E::Data], b: VarIndex| copy_vars.requires((a, b)),
            forall|a: &mut [E::Data], b: VarIndex, r: Result<(), ShapeBulkEvalError>| copy_vars.ensures((a, b), r) ==> final(a)@.len() == a@.len(),
        ensures
            (x@.len() != y@.len() || x@.len() != z@.len()) ==> r is Err,
            // the only other error is a failure of the row filler on a free variable of the shape
            r is Err ==> (x@.len() != y@.len() || x@.len() != z@.len())
                || exists|k: int| 0 <= k < tape.tape.vars_spec().entries().len() && (#[trigger] tape.tape.vars_spec().entries()[k]).0 is V && failed(copy_vars, tape.tape.vars_spec().entries()[k].0->V_0, x@.len() as int),
            // one sample per input position; the axes rows of the argument matrix hold the (transformed) positions at the map's indices
            r is Ok ==> r->Ok_0@.len() == x@.len()
                && exists|m: Seq<Vec<E::Data>>| #[trigger] mat_ok(m, tape.tape.vars_spec(), x@, y@, z@, transform)
                    // the row of every free variable is what the row filler wrote when called with that variable's own index
                    && vars_bound(m, tape.tape.vars_spec(), copy_vars, tape.tape.vars_spec().entries().len() as int)
                    && forall|i: int| 0 <= i < x@.len() ==> (#[trigger] r->Ok_0@[i]) == E::bulk_spec(&tape.tape, m)[0][i],
"""

VAR_VALUE_CLOSURE = """
            ensures final(data)@.len() == old(data)@.len(),
                r is Ok <==> vars.m().dom().contains(i),
                r is Ok ==> (forall|k: int| 0 <= k < old(data)@.len() ==> #[trigger] final(data)@[k] == cv::<G, E::Data>(vars.m()[i])),
"""

VAR_ARRAY_CLOSURE = """
            ensures final(data)@.len() == old(data)@.len(),
                r is Ok <==> (vars.m().dom().contains(i) && vars.m()[i]@.len() == old(data)@.len()),
                r is Ok ==> (forall|k: int| 0 <= k < old(data)@.len() ==> #[trigger] final(data)@[k] == cv::<G, E::Data>(vars.m()[i]@[k])),
"""

VAR_ARRAY = """
        requires <G as IntoSpec<E::Data>>::obeys_into_spec(),
        ensures
            forall|d: &mut [E::Data], i: VarIndex| f.requires((d, i)),
            // the row filler copies, sample by sample, the array supplied under the variable's own identity; it fails exactly for a
            // variable that is not supplied or whose array has another length than the row
            forall|d: &mut [E::Data], i: VarIndex, r: Result<(), ShapeBulkEvalError>| #[trigger] f.ensures((d, i), r) ==>
                final(d)@.len() == d@.len() && (r is Ok <==> (vars.m().dom().contains(i) && vars.m()[i]@.len() == d@.len()))
                && (r is Ok ==> forall|k: int| 0 <= k < d@.len() ==> #[trigger] final(d)@[k] == cv::<G, E::Data>(vars.m()[i]@[k])),
"""

BULK_ARRS = """
        requires tape.tape.vars_spec().wf(), tape.tape.noutputs() == 1, <G as IntoSpec<E::Data>>::obeys_into_spec(),
        ensures
            // unequal lengths (of x, y, z, or of the array of a variable of the shape) and a variable of the shape that is not supplied are the only errors
            r is Err <==> (x@.len() != y@.len() || x@.len() != z@.len() || missing(tape.tape.vars_spec(), vars.m()) || bad_len(tape.tape.vars_spec(), vars.m(), x@.len() as int)),
            r is Ok ==> r->Ok_0@.len() == x@.len()
                && exists|m: Seq<Vec<E::Data>>| #[trigger] mat_ok(m, tape.tape.vars_spec(), x@, y@, z@, %(t)s)
                    && arrs_bound::<E::Data, G>(m, tape.tape.vars_spec(), vars.m())
                    && forall|i: int| 0 <= i < x@.len() ==> (#[trigger] r->Ok_0@[i]) == E::bulk_spec(&tape.tape, m)[0][i],
"""

VAR_VALUE = """
        requires <G as IntoSpec<E::Data>>::obeys_into_spec(),
        ensures
            forall|d: &mut [E::Data], i: VarIndex| f.requires((d, i)),
            // the row filler writes the value supplied under the variable's own identity into every sample, and fails exactly for a variable that is not supplied
            forall|d: &mut [E::Data], i: VarIndex, r: Result<(), ShapeBulkEvalError>| #[trigger] f.ensures((d, i), r) ==>
                final(d)@.len() == d@.len() && (r is Ok <==> vars.m().dom().contains(i))
                && (r is Ok ==> forall|k: int| 0 <= k < d@.len() ==> #[trigger] final(d)@[k] == cv::<G, E::Data>(vars.m()[i])),
"""

BULK_VARS = """
        requires tape.tape.vars_spec().wf(), tape.tape.noutputs() == 1, <G as IntoSpec<E::Data>>::obeys_into_spec(),
        ensures
            // unequal lengths and a variable of the shape that is not supplied are the only errors
            r is Err <==> (x@.len() != y@.len() || x@.len() != z@.len() || missing(tape.tape.vars_spec(), vars.m())),
            // otherwise: one sample per position, computed on an argument matrix whose axes rows hold the (transformed) positions and whose
            // row for each free variable holds, in every sample, the value supplied under that variable's identity
            r is Ok ==> r->Ok_0@.len() == x@.len()
                && exists|m: Seq<Vec<E::Data>>| #[trigger] mat_ok(m, tape.tape.vars_spec(), x@, y@, z@, %(t)s)
                    && vals_bound::<E::Data, G>(m, tape.tape.vars_spec(), vars.m())
                    && forall|i: int| 0 <= i < x@.len() ==> (#[trigger] r->Ok_0@[i]) == E::bulk_spec(&tape.tape, m)[0][i],
"""

BULK_WRAP = """
        requires tape.tape.vars_spec().wf(), tape.tape.noutputs() == 1,
        ensures
            (x@.len() != y@.len() || x@.len() != z@.len()) ==> r is Err,
            r is Ok ==> r->Ok_0@.len() == x@.len()
                && exists|m: Seq<Vec<E::Data>>| #[trigger] mat_ok(m, tape.tape.vars_spec(), x@, y@, z@, %(t)s)
                    && forall|i: int| 0 <= i < x@.len() ==> (#[trigger] r->Ok_0@[i]) == E::bulk_spec(&tape.tape, m)[0][i],
"""

RET = 'r: Result<(E::Data, Option<&E::Trace>), ShapeTracingEvalError>'
BRET = 'r: Result<&[E::Data], ShapeBulkEvalError>'
SPECS = {
 'BulkOutput::new': ('r: Self', '\n        ensures *r.data == *data, r.len == len\n'),
 'BulkOutput::borrow': ("r: &'a [T]", '\n        requires i < self.data@.len(), self.data@[i as int]@.len() >= self.len\n        ensures r@ == self.data@[i as int]@.subrange(0, self.len as int)\n'),
 'ShapeBulkEval::no_vars': ('r: Result<(), ShapeBulkEvalError>', '\n        ensures r is Err, final(unused_)@ == old(unused_)@\n'),
 'ShapeBulkEval::var_array': ('f: impl Fn(&mut [E::Data], VarIndex) -> Result<(), ShapeBulkEvalError>', VAR_ARRAY),
 'ShapeBulkEval::eval_with_var_arrays': (BRET, BULK_ARRS % {'t': 'None'}),
 'ShapeBulkEval::eval_with_transform_and_var_arrays': (BRET, BULK_ARRS % {'t': 'Some(transform)'}),
 'ShapeBulkEval::var_value': ('f: impl Fn(&mut [E::Data], VarIndex) -> Result<(), ShapeBulkEvalError>', VAR_VALUE),
 'ShapeBulkEval::eval_with_vars': (BRET, BULK_VARS % {'t': 'None'}),
 'ShapeBulkEval::eval_with_transform_and_vars': (BRET, BULK_VARS % {'t': 'Some(transform)'}),
 'ShapeBulkEval::eval': (BRET, BULK_WRAP % {'t': 'None'}),
 'ShapeBulkEval::eval_with_transform': (BRET, BULK_WRAP % {'t': 'Some(transform)'}),
 'ShapeTracingEval::eval': (RET, wrap_spec('None', 'Map::<VarIndex, f32>::empty()', 'f32', '<f32 as IntoSpec<E::Data>>::obeys_into_spec(),')),
 'ShapeTracingEval::eval_with_transform': (RET, wrap_spec('Some(transform)', 'Map::<VarIndex, f32>::empty()', 'f32', '<f32 as IntoSpec<E::Data>>::obeys_into_spec(),')),
 'ShapeTracingEval::eval_with_transform_and_vars': (RET, wrap_spec('Some(transform)', 'vars.m()', 'V', '<V as IntoSpec<E::Data>>::obeys_into_spec(),')),
 'ShapeTracingEval::eval_with_vars': (RET, wrap_spec('None', 'vars.m()', 'V', '<V as IntoSpec<E::Data>>::obeys_into_spec(),')),
 'ShapeTape::vars': ('r: &VarMap', '\n        ensures *r == self.tape.vars_spec()\n'),
 'ShapeTracingEval::eval_raw': ('r: Result<(E::Data, Option<&E::Trace>), ShapeTracingEvalError>', RAW_ENSURES % {'c': COORD}),
}

PROOFS = [
 ('ShapeTracingEval::eval_raw', '$START', 0, False, "        let ghost x0_ = x; let ghost y0_ = y; let ghost z0_ = z;"),
 ('ShapeTracingEval::eval_raw', '        let (out, trace) = match self.eval.eval(', 0, True, """        proof {
            assert(bound::<E::Data, V>(self.scratch@, tape.tape.vars_spec(), coords::<F, E::Data>(x0_, y0_, z0_, transform).0, coords::<F, E::Data>(x0_, y0_, z0_, transform).1,
                                       coords::<F, E::Data>(x0_, y0_, z0_, transform).2, vars.m()));
            assert(!missing(tape.tape.vars_spec(), vars.m()));
        }"""),
 ('ShapeTracingEval::eval_raw', 'return Err(MissingVar { var: i }.into());', 0, True, """                        proof { assert(vs.entries()[q_ - 1].0 is V && !vars.m().dom().contains(vs.entries()[q_ - 1].0->V_0)); }"""),
]
PROOFS += [
 ('ShapeBulkEval::eval_raw', '$START', 0, False, "        let ghost x0_ = x; let ghost y0_ = y; let ghost z0_ = z;"),
 ('ShapeBulkEval::eval_raw', '        let mut j_: usize = 0;   // R-itermut', 0, True, "        let ghost nrows_ = self.scratch@.len();"),
 ('ShapeBulkEval::eval_raw', 'let mut axes = [None; 3];', 0, False, "        let ghost mut kx_: int = -1; let ghost mut ky_: int = -1; let ghost mut kz_: int = -1;\n        proof { assert(rows_len(self.scratch@, n as int)); }"),
 ('ShapeBulkEval::eval_raw', r're:copy_vars\([^;]*\)\?;', 0, False, """                    proof {
                        assert(rows_len(self.scratch@, n as int));
                        assert(wrote(copy_vars, i, self.scratch@[index as int]@));
                        assert(vs.entries()[q_ - 1] == (Var::V(i), index));
                    }"""),
 ('ShapeBulkEval::eval_raw', '        for i in 0..n', 0, True, "        let ghost sc_ = self.scratch@;"),
 ('ShapeBulkEval::eval_raw', '        let out = match self.eval.eval(', 0, True, """        proof {
            assert(vars_bound(self.scratch@, *vs, copy_vars, vs.entries().len() as int)) by {
                assert forall|k: int| 0 <= k < vs.entries().len() && (#[trigger] vs.entries()[k]).0 is V implies wrote(copy_vars, vs.entries()[k].0->V_0, self.scratch@[vs.entries()[k].1 as int]@) by {
                    assert(wrote(copy_vars, vs.entries()[k].0->V_0, sc_[vs.entries()[k].1 as int]@));
                }
            }
            assert(mat_ok(self.scratch@, tape.tape.vars_spec(), x0_@, y0_@, z0_@, transform));
            assert(bsize(self.scratch@) == n);
        }"""),
]
WRAP = {
 'ShapeTracingEval::eval': ('None', 'ShapeVars::<f32>::new().m()', 'f32'),
}
LOOPS = [
 ('ShapeBulkEval::eval_raw', '@RESIZE@', """            invariant 0 <= j_ <= self.scratch@.len(), self.scratch@.len() == nrows_,
                forall|k: int| 0 <= k < j_ ==> (#[trigger] self.scratch@[k])@.len() == n,
            decreases self.scratch@.len() - j_"""),
 ('ShapeBulkEval::eval_raw', 'while q_ < it_.len()', """            invariant
                0 <= q_ <= it_.len(), self.scratch@.len() == nrows_, rows_len(self.scratch@, n as int),
                forall|k: int| 0 <= k < q_ && (#[trigger] vs.entries()[k]).0 is X ==> axes@[0] == Some(vs.entries()[k].1),
                forall|k: int| 0 <= k < q_ && (#[trigger] vs.entries()[k]).0 is Y ==> axes@[1] == Some(vs.entries()[k].1),
                forall|k: int| 0 <= k < q_ && (#[trigger] vs.entries()[k]).0 is Z ==> axes@[2] == Some(vs.entries()[k].1),
                axes@[0] is Some ==> (0 <= kx_ < q_ && vs.entries()[kx_] == (Var::X, axes@[0]->Some_0)),
                axes@[1] is Some ==> (0 <= ky_ < q_ && vs.entries()[ky_] == (Var::Y, axes@[1]->Some_0)),
                axes@[2] is Some ==> (0 <= kz_ < q_ && vs.entries()[kz_] == (Var::Z, axes@[2]->Some_0)),
                it_@ == vs.entries(), vs.wf(), nrows_ >= vs.entries().len(),
                vars_bound(self.scratch@, *vs, copy_vars, q_ as int),
            decreases it_.len() - q_"""),
 ('ShapeBulkEval::eval_raw', 'for i in 0..n', """            invariant
                self.scratch@.len() == nrows_, rows_len(self.scratch@, n as int),
                axis_bound(self.scratch@, *vs, x0_@, y0_@, z0_@, transform, i as int),
                forall|k: int| 0 <= k < vs.entries().len() && (#[trigger] vs.entries()[k]).0 is V ==> self.scratch@[vs.entries()[k].1 as int]@ == sc_[vs.entries()[k].1 as int]@,"""),
 ('ShapeTracingEval::eval_raw', 'while q_ < it_.len()', """            invariant
                0 <= q_ <= it_.len(), it_@ == vs.entries(), vs.wf(), *vs == tape.tape.vars_spec(), self.scratch@.len() == vs.entries().len(),
                forall|k: int| 0 <= k < q_ ==> !((#[trigger] vs.entries()[k]).0 is V && !vars.m().dom().contains(vs.entries()[k].0->V_0)),
                forall|k: int| 0 <= k < q_ ==> self.scratch@[(#[trigger] vs.entries()[k]).1 as int] == bind::<E::Data, V>(vs.entries()[k].0, x, y, z, vars.m()),
            decreases it_.len() - q_"""),
]

