/// finite numbers (neither NaN nor infinite)
pub uninterp spec fn ffin(a: f32) -> bool;
pub uninterp spec fn fmin_spec(a: f32, b: f32) -> f32;
pub uninterp spec fn fmax_spec(a: f32, b: f32) -> f32;
pub assume_specification [f32::min] (a: f32, b: f32) -> (r: f32) ensures r == fmin_spec(a, b);
pub assume_specification [f32::max] (a: f32, b: f32) -> (r: f32) ensures r == fmax_spec(a, b);
/// AX-minmax: f32::min / f32::max (IEEE minNum / maxNum): a NaN operand is ignored; of two numbers one of them is returned, in order
proof fn ax_minmax(a: f32, b: f32)
    ensures
        fnan(a) ==> fmin_spec(a, b) == b && fmax_spec(a, b) == b,
        (fnan(b) && !fnan(a)) ==> fmin_spec(a, b) == a && fmax_spec(a, b) == a,
        (!fnan(a) && !fnan(b)) ==> (fmin_spec(a, b) == a || fmin_spec(a, b) == b) && fle(fmin_spec(a, b), a) && fle(fmin_spec(a, b), b)
            && (fmax_spec(a, b) == a || fmax_spec(a, b) == b) && fle(a, fmax_spec(a, b)) && fle(b, fmax_spec(a, b)),
{ admit(); }
/// AX-fin: a finite number is a number; what lies between finite numbers is finite; the product of finite numbers is a number (possibly infinite)
proof fn ax_fin(a: f32, x: f32, b: f32) ensures ffin(a) ==> !fnan(a), (ffin(a) && ffin(b) && fle(a, x) && fle(x, b)) ==> ffin(x) { admit(); }
proof fn ax_mul_fin(a: f32, b: f32) ensures (ffin(a) && ffin(b)) ==> !fnan(a.mul_spec(b)) { admit(); }
/// AX-mul-comm: IEEE multiplication is commutative
proof fn ax_mul_comm(a: f32, b: f32) ensures a.mul_spec(b) == b.mul_spec(a) { admit(); }

/// one step of the running minimum / maximum over the corner products
proof fn lemma_minmax_step(l: f32, u: f32, v: f32, l2: f32, u2: f32)
    requires l2 == fmin_spec(l, v), u2 == fmax_spec(u, v), (fnan(l) && fnan(u)) || (!fnan(l) && !fnan(u) && fle(l, u))
    ensures (fnan(l2) && fnan(u2)) || (!fnan(l2) && !fnan(u2) && fle(l2, u2)),
        (!fnan(l) && !fnan(u) && !fnan(v)) ==> fle(l2, l) && fle(l2, v) && fle(u, u2) && fle(v, u2),
{
    ax_minmax(l, v); ax_minmax(u, v);
    ax_le_refl(v);
    ax_le_trans(l2, l, u); ax_le_trans(l, u, u2); ax_le_trans(l2, l, u2); ax_le_trans(l2, v, u2); ax_le_trans(l2, u, u2);
}
/// the product of members lies between the least and the greatest corner product (all bounds finite)
proof fn lemma_mul_corners(al: f32, au: f32, bl: f32, bu: f32, x: f32, y: f32, lo: f32, hi: f32)
    requires ffin(al), ffin(au), ffin(bl), ffin(bu), fle(al, x), fle(x, au), fle(bl, y), fle(y, bu), !fnan(x.mul_spec(y)),
        fle(lo, al.mul_spec(bl)), fle(lo, al.mul_spec(bu)), fle(lo, au.mul_spec(bl)), fle(lo, au.mul_spec(bu)),
        fle(al.mul_spec(bl), hi), fle(al.mul_spec(bu), hi), fle(au.mul_spec(bl), hi), fle(au.mul_spec(bu), hi),
    ensures fle(lo, x.mul_spec(y)), fle(x.mul_spec(y), hi)
{
    ax_fin(al, x, au); ax_fin(bl, y, bu); ax_fin(x, x, x); ax_fin(y, y, y); ax_fin(al, al, al); ax_fin(au, au, au); ax_fin(bl, bl, bl); ax_fin(bu, bu, bu);
    ax_mul_fin(al, y); ax_mul_fin(au, y); ax_mul_fin(al, bl); ax_mul_fin(al, bu); ax_mul_fin(au, bl); ax_mul_fin(au, bu);
    ax_total(0.0f32, y); ax_total(0.0f32, al); ax_total(0.0f32, au); ax_nan_prop(0.0f32, 0.0f32);
    // x*y between al*y and au*y
    ax_mul_mono(al, x, y); ax_mul_mono(x, au, y);
    // al*y and au*y between their corner products (monotone in the second argument, by commutativity)
    ax_mul_comm(al, y); ax_mul_comm(al, bl); ax_mul_comm(al, bu); ax_mul_comm(au, y); ax_mul_comm(au, bl); ax_mul_comm(au, bu);
    ax_mul_mono(bl, y, al); ax_mul_mono(y, bu, al); ax_mul_mono(bl, y, au); ax_mul_mono(y, bu, au);
    let p = x.mul_spec(y); let a = al.mul_spec(y); let b = au.mul_spec(y);
    ax_le_trans(lo, al.mul_spec(bl), a); ax_le_trans(lo, al.mul_spec(bu), a); ax_le_trans(lo, au.mul_spec(bl), b); ax_le_trans(lo, au.mul_spec(bu), b);
    ax_le_trans(a, al.mul_spec(bl), hi); ax_le_trans(a, al.mul_spec(bu), hi); ax_le_trans(b, au.mul_spec(bl), hi); ax_le_trans(b, au.mul_spec(bu), hi);
    ax_le_trans(lo, a, p); ax_le_trans(lo, b, p); ax_le_trans(p, a, hi); ax_le_trans(p, b, hi);
}

/// AX-div: f32 division is total and equals its spec function
proof fn ax_div(a: f32, b: f32) ensures <f32 as DivSpec<f32>>::obeys_div_spec(), <f32 as DivSpec<f32>>::div_req(a, b) { admit(); }
/// AX-div-fin: the quotient of finite numbers by a non-zero divisor is a number (possibly infinite)
proof fn ax_div_fin(a: f32, b: f32) ensures (ffin(a) && ffin(b) && (flt(0.0f32, b) || flt(b, 0.0f32))) ==> !fnan(a.div_spec(b)) { admit(); }
/// AX-div-mono: correctly rounded division is monotone in the numerator for a positive divisor, antitone for a negative one; for divisors
/// of one sign it is antitone in the divisor for a non-negative numerator and monotone for a negative one (whenever the results are numbers)
proof fn ax_div_mono(a: f32, b: f32, k: f32)
    ensures
        fle(a, b) && flt(0.0f32, k) && !fnan(a.div_spec(k)) && !fnan(b.div_spec(k)) ==> fle(a.div_spec(k), b.div_spec(k)),
        fle(a, b) && flt(k, 0.0f32) && !fnan(a.div_spec(k)) && !fnan(b.div_spec(k)) ==> fle(b.div_spec(k), a.div_spec(k)),
        fle(a, b) && (flt(0.0f32, a) || flt(b, 0.0f32)) && fle(0.0f32, k) && !fnan(k.div_spec(a)) && !fnan(k.div_spec(b)) ==> fle(k.div_spec(b), k.div_spec(a)),
        fle(a, b) && (flt(0.0f32, a) || flt(b, 0.0f32)) && flt(k, 0.0f32) && !fnan(k.div_spec(a)) && !fnan(k.div_spec(b)) ==> fle(k.div_spec(a), k.div_spec(b)),
{ admit(); }
/// the quotient of members lies between the least and the greatest corner quotient (all bounds finite, the divisor interval on one side of zero)
proof fn lemma_div_corners(al: f32, au: f32, bl: f32, bu: f32, x: f32, y: f32, lo: f32, hi: f32)
    requires ffin(al), ffin(au), ffin(bl), ffin(bu), fle(al, x), fle(x, au), fle(bl, y), fle(y, bu), !fnan(x.div_spec(y)), flt(0.0f32, bl) || flt(bu, 0.0f32),
        fle(lo, al.div_spec(bl)), fle(lo, al.div_spec(bu)), fle(lo, au.div_spec(bl)), fle(lo, au.div_spec(bu)),
        fle(al.div_spec(bl), hi), fle(al.div_spec(bu), hi), fle(au.div_spec(bl), hi), fle(au.div_spec(bu), hi),
    ensures fle(lo, x.div_spec(y)), fle(x.div_spec(y), hi)
{
    ax_fin(al, x, au); ax_fin(bl, y, bu); ax_fin(x, x, x); ax_fin(y, y, y); ax_fin(al, al, al); ax_fin(au, au, au); ax_fin(bl, bl, bl); ax_fin(bu, bu, bu);
    ax_le_trans(bl, y, bu);
    ax_lt_le_trans(0.0f32, bl, y); ax_le_lt_trans(y, bu, 0.0f32); ax_lt_le_trans(0.0f32, bl, bu); ax_le_lt_trans(bl, bu, 0.0f32);
    ax_div_fin(al, y); ax_div_fin(au, y); ax_div_fin(al, bl); ax_div_fin(al, bu); ax_div_fin(au, bl); ax_div_fin(au, bu);
    ax_total(0.0f32, al); ax_total(0.0f32, au); ax_nan_prop(0.0f32, 0.0f32);
    ax_div_mono(al, x, y); ax_div_mono(x, au, y);
    ax_div_mono(bl, y, al); ax_div_mono(y, bu, al); ax_div_mono(bl, y, au); ax_div_mono(y, bu, au);
    let p = x.div_spec(y); let a = al.div_spec(y); let b = au.div_spec(y);
    ax_le_trans(lo, al.div_spec(bl), a); ax_le_trans(lo, al.div_spec(bu), a); ax_le_trans(lo, au.div_spec(bl), b); ax_le_trans(lo, au.div_spec(bu), b);
    ax_le_trans(a, al.div_spec(bl), hi); ax_le_trans(a, al.div_spec(bu), hi); ax_le_trans(b, au.div_spec(bl), hi); ax_le_trans(b, au.div_spec(bu), hi);
    ax_le_trans(lo, a, p); ax_le_trans(lo, b, p); ax_le_trans(p, a, hi); ax_le_trans(p, b, hi);
}


