// ---------- geometry stand-ins (nalgebra)
#[derive(Copy, Clone)]
pub struct Point2<T> { pub x: T, pub y: T }
#[derive(Copy, Clone)]
pub struct Vector2<T> { pub x: T, pub y: T }
impl<T> Point2<T> { pub fn new(x: T, y: T) -> (r: Self) ensures r.x == x, r.y == y { Point2 { x, y } } }
impl<T> Vector2<T> { pub fn new(x: T, y: T) -> (r: Self) ensures r.x == x, r.y == y { Vector2 { x, y } } }
pub fn pt_add(p: Point2<usize>, v: Vector2<usize>) -> (r: Point2<usize>)
    requires p.x + v.x <= usize::MAX, p.y + v.y <= usize::MAX
    ensures r.x == p.x + v.x, r.y == p.y + v.y
{ Point2 { x: p.x + v.x, y: p.y + v.y } }
pub fn vec_scale(v: Vector2<usize>, k: usize) -> (r: Vector2<usize>)
    requires v.x * k <= usize::MAX, v.y * k <= usize::MAX
    ensures r.x == v.x * k, r.y == v.y * k
{ Vector2 { x: v.x * k, y: v.y * k } }
pub uninterp spec fn f_of(n: usize) -> f32;
#[verifier::external_body]
pub fn cast_f32(n: usize) -> (r: f32) ensures r == f_of(n) { n as f32 }

// ---------- floats
pub uninterp spec fn fnan(a: f32) -> bool;
pub open spec fn fle(a: f32, b: f32) -> bool { a.partial_cmp_spec(&b) == Some(Ordering::Less) || a.partial_cmp_spec(&b) == Some(Ordering::Equal) }
pub open spec fn flt(a: f32, b: f32) -> bool { a.partial_cmp_spec(&b) == Some(Ordering::Less) }
pub uninterp spec fn fadd(a: f32, b: f32) -> f32;
#[verifier::external_body]
pub fn add_f32(a: f32, b: f32) -> (r: f32) ensures r == fadd(a, b) { a + b }
proof fn ax_cmp(a: f32, b: f32)
    ensures <f32 as PartialOrdSpec<f32>>::obeys_partial_cmp_spec(),
        (a.partial_cmp_spec(&b) == Some(Ordering::Greater)) <==> (b.partial_cmp_spec(&a) == Some(Ordering::Less)),
{ admit(); }
proof fn ax_le_lt_trans(a: f32, b: f32, c: f32) ensures fle(a, b) && flt(b, c) ==> flt(a, c) { admit(); }
proof fn ax_lt_le_trans(a: f32, b: f32, c: f32) ensures flt(a, b) && fle(b, c) ==> flt(a, c) { admit(); }
/// pixel coordinates are exactly representable and ordered as their integers (sizes far below 2^24), and x <= x + t for t >= 0
proof fn ax_cast_mono(a: usize, b: usize) ensures a <= b ==> fle(f_of(a), f_of(b)), !fnan(f_of(a)) { admit(); }
proof fn ax_le_refl(a: f32) ensures !fnan(a) ==> fle(a, a) { admit(); }
proof fn ax_add_cast(a: usize, t: usize) ensures a + t <= 16777216 ==> fadd(f_of(a), f_of(t)) == f_of((a + t) as usize) { admit(); }

#[derive(Copy, Clone)]
pub struct Interval { pub lower: f32, pub upper: f32 }
impl Interval {
    #[verifier::external_body]
    pub fn new(lower: f32, upper: f32) -> (r: Self) ensures r.lower == lower, r.upper == upper { unimplemented!() }
    pub fn lower(&self) -> (r: f32) ensures r == self.lower { self.lower }
    pub fn upper(&self) -> (r: f32) ensures r == self.upper { self.upper }
    /// fidget_core::types::Interval::contains: `v >= self.lower && v <= self.upper` (false for the NaN interval); declared so that an edit
    /// that decides fills with it is decided by the proof instead of leaving the verifier subset
    #[verifier::external_body]
    pub fn contains(&self, v: f32) -> (r: bool) ensures r == (fle(self.lower, v) && fle(v, self.upper)) { unimplemented!() }
}
pub open spec fn mem(v: f32, i: Interval) -> bool { fle(i.lower, v) && fle(v, i.upper) }

// ---------- the shape function behind a handle (ghost)
/// identity of the function a handle evaluates
pub type Fn_ = int;
/// value of function f at screen position (x, y, z) under the worker's transform and variables
pub uninterp spec fn fval(f: Fn_, x: f32, y: f32, z: f32) -> f32;
#[verifier::external_body]
pub struct ITape { _p: u8 }
#[verifier::external_body]
pub struct FTape { _p: u8 }
impl ITape { pub uninterp spec fn f(&self) -> Fn_; }
impl FTape { pub uninterp spec fn f(&self) -> Fn_; }
/// the box a trace was recorded on, and for which function
pub uninterp spec fn tr_ok<T>(t: &T, f: Fn_, x: Interval, y: Interval, z: Interval) -> bool;
pub open spec fn agree_on(g: Fn_, f: Fn_, bx: Interval, by: Interval, bz: Interval) -> bool {
    forall|x: f32, y: f32, z: f32| mem(x, bx) && mem(y, by) && mem(z, bz) ==> #[trigger] fval(g, x, y, z) == fval(f, x, y, z)
}
/// the part of fidget_core::eval::{Function, TracingEvaluator, BulkEvaluator} the worker's types mention
pub trait TracingEvaluator { type Trace; }
pub trait BulkEvaluator { }
pub trait Function {
    type Trace;
    type Storage;
    type Workspace: Default;
    type TapeStorage;
    type IntervalEval: TracingEvaluator<Trace = Self::Trace>;
    type FloatSliceEval: BulkEvaluator;
}
#[verifier::external_body]
#[verifier::accept_recursive_types(T)]
pub struct ShapeVars<T> { _p: core::marker::PhantomData<T> }
#[verifier::external_body]
#[verifier::accept_recursive_types(T)]
pub struct Matrix4<T> { _p: core::marker::PhantomData<T> }
#[verifier::external_body]
#[verifier::accept_recursive_types(F)]
pub struct RenderHandle<F: Function> { _p: core::marker::PhantomData<F> }
impl<F: Function> RenderHandle<F> {
    pub uninterp spec fn f(&self) -> Fn_;
    #[verifier::external_body]
    pub fn i_tape(&mut self, storage: &mut Vec<F::TapeStorage>) -> (r: &ITape) ensures r.f() == old(self).f(), final(self).f() == old(self).f() { unimplemented!() }
    #[verifier::external_body]
    pub fn f_tape(&mut self, storage: &mut Vec<F::TapeStorage>) -> (r: &FTape) ensures r.f() == old(self).f(), final(self).f() == old(self).f() { unimplemented!() }
    /// C04 (ASSUMED here; proved for the VM in unit simplify, bounded simplify_sem / render_handle): the simplified function agrees with
    /// the parent on every box the trace is valid for; the parent keeps its function
    #[verifier::external_body]
    pub fn simplify(&mut self, trace: &F::Trace, workspace: &mut F::Workspace, shape_storage: &mut Vec<F::Storage>, tape_storage: &mut Vec<F::TapeStorage>) -> (r: &mut Self)
        ensures final(self).f() == old(self).f(),
            forall|bx: Interval, by: Interval, bz: Interval| #[trigger] tr_ok(trace, old(self).f(), bx, by, bz) ==> agree_on(r.f(), old(self).f(), bx, by, bz),
    { unimplemented!() }
}
pub enum ShapeTracingEvalError { MissingVar(u8) }
pub enum ShapeBulkEvalError { MissingVar(u8), MismatchedVarSlices { a: u8 } }
pub struct ShapeTracingEval<E: TracingEvaluator> { pub p: core::marker::PhantomData<E> }
impl<E: TracingEvaluator> Default for ShapeTracingEval<E> { fn default() -> Self { ShapeTracingEval { p: core::marker::PhantomData } } }
impl<E: TracingEvaluator> ShapeTracingEval<E> {
    /// C03 + C14 (ASSUMED here; units interval / vm / shape, bounded interp_interval, jit_interval, shape_transform): the sign the interval
    /// result decides is the sign of the function at every point of the box; a returned trace is valid on that box
    #[verifier::external_body]
    pub fn eval_with_transform_and_vars(&mut self, tape: &ITape, x: Interval, y: Interval, z: Interval, mat: &Matrix4<f32>, vars: &ShapeVars<f32>) -> (r: Result<(Interval, Option<&E::Trace>), ShapeTracingEvalError>)
        ensures r is Ok,
            forall|px: f32, py: f32, pz: f32| mem(px, x) && mem(py, y) && mem(pz, z) ==> {
                let v = #[trigger] fval(tape.f(), px, py, pz);
                (flt(r->Ok_0.0.upper, 0.0f32) ==> flt(v, 0.0f32)) && (flt(0.0f32, r->Ok_0.0.lower) ==> flt(0.0f32, v)) },
            r->Ok_0.1 is Some ==> tr_ok(r->Ok_0.1->Some_0, tape.f(), x, y, z),
    { unimplemented!() }
}
pub struct ShapeBulkEval<E: BulkEvaluator> { pub p: core::marker::PhantomData<E> }
impl<E: BulkEvaluator> Default for ShapeBulkEval<E> { fn default() -> Self { ShapeBulkEval { p: core::marker::PhantomData } } }
impl<E: BulkEvaluator> ShapeBulkEval<E> {
    /// C01/C02 + C14 (ASSUMED here; units vm / jit / shape and the bounded JIT contracts): one value per sample, the function at that sample
    #[verifier::external_body]
    pub fn eval_with_transform_and_vars(&mut self, tape: &FTape, x: &Vec<f32>, y: &Vec<f32>, z: &Vec<f32>, mat: &Matrix4<f32>, vars: &ShapeVars<f32>) -> (r: Result<&[f32], ShapeBulkEvalError>)
        requires x@.len() == y@.len(), y@.len() == z@.len()
        ensures r is Ok, r->Ok_0@.len() == x@.len(),
            forall|k: int| 0 <= k < x@.len() ==> #[trigger] r->Ok_0@[k] == fval(tape.f(), x@[k], y@[k], z@[k]),
    { unimplemented!() }
}

// ---------- pixels
#[derive(Copy, Clone)]
pub struct RawDistancePixel(pub f32);
/// `#[derive(Default)]` of the real type
impl Default for RawDistancePixel { #[verifier::external_body] fn default() -> Self { RawDistancePixel(0.0) } }
#[derive(Copy, Clone)]
pub enum DistancePixel { Value(f32), Fill { depth: u8, inside: bool } }
pub uninterp spec fn px_fill(depth: u8, inside: bool) -> RawDistancePixel;
pub uninterp spec fn px_val(v: f32) -> RawDistancePixel;
#[verifier::external_body]
pub fn px_from(p: DistancePixel) -> (r: RawDistancePixel)
    ensures r == (match p { DistancePixel::Value(f) => px_val(f), DistancePixel::Fill { depth, inside } => px_fill(depth, inside) }) { unimplemented!() }
#[verifier::external_body]
pub fn px_from_f32(p: f32) -> (r: RawDistancePixel) ensures r == px_val(p) { unimplemented!() }

/*@IMAGE@*/
/// `image[start..][..n].fill(v)`
pub fn fill_range(img: &mut Image, start: usize, n: usize, v: RawDistancePixel)
    requires start <= old(img).data@.len(), n <= old(img).data@.len() - start
    ensures final(img).data@.len() == old(img).data@.len(),
        forall|k: int| 0 <= k < old(img).data@.len() ==> #[trigger] final(img).data@[k] == (if start <= k < start + n { v } else { old(img).data@[k] }),
{
    let mut k: usize = 0;
    let len_ = img.data.len();
    while k < n
        invariant 0 <= k <= n, start + n <= img.data@.len(), img.data@.len() == old(img).data@.len(), img.data@.len() == len_,
            forall|q: int| 0 <= q < img.data@.len() ==> #[trigger] img.data@[q] == (if start <= q < start + k { v } else { old(img).data@[q] }),
        decreases n - k
    {
        img.data[start + k] = v;
        k += 1;
    }
}


/// R-cast: `Point2::from(p).cast::<f32>()`
pub fn cast_pt(p: Point2<usize>) -> (r: Point2<f32>) ensures r.x == f_of(p.x), r.y == f_of(p.y) { Point2 { x: cast_f32(p.x), y: cast_f32(p.y) } }
