/// what a pixel may hold for function f at screen position (x, y, z): the value, or (unless pixel-perfect) a fill whose flag has the sign of the value
pub open spec fn px_ok(pp: bool, f: Fn_, p: RawDistancePixel, x: f32, y: f32, z: f32) -> bool {
    ||| p == px_val(fval(f, x, y, z))
    ||| (!pp && exists|d: u8| p == px_fill(d, true) && flt(fval(f, x, y, z), 0.0f32))
    ||| (!pp && exists|d: u8| p == px_fill(d, false) && flt(0.0f32, fval(f, x, y, z)))
}
pub open spec fn t0<F: Function>(w: &Worker<'_, F>) -> int { w.tile_sizes.0@[0] as int }
/// data index of the pixel at absolute position (ax, ay) inside its root tile
pub open spec fn off(t: int, ax: int, ay: int) -> int { (ax % t) + (ay % t) * t }
pub open spec fn in_tile(ax: int, ay: int, cx: int, cy: int, size: int) -> bool { cx <= ax < cx + size && cy <= ay < cy + size }
/// the tile [cx, cx+size) x [cy, cy+size) lies inside one root tile
pub open spec fn in_root(t: int, cx: int, cy: int, size: int) -> bool { cx >= 0 && cy >= 0 && (cx % t) + size <= t && (cy % t) + size <= t }
pub open spec fn same_root(t: int, cx: int, cy: int, ax: int, ay: int) -> bool { ax >= 0 && ay >= 0 && ax / t == cx / t && ay / t == cy / t }
/// every pixel of the tile holds the value of f there, or a fill with the sign of that value
pub open spec fn tile_ok(pp: bool, f: Fn_, img: Seq<RawDistancePixel>, t: int, cx: int, cy: int, size: int, z: f32) -> bool {
    forall|ax: int, ay: int| in_tile(ax, ay, cx, cy, size) ==> px_ok(pp, f, #[trigger] img[off(t, ax, ay)], f_of(ax as usize), f_of(ay as usize), z)
}
/// no pixel of the root tile outside the tile is written
pub open spec fn frame(old_img: Seq<RawDistancePixel>, new_img: Seq<RawDistancePixel>, t: int, cx: int, cy: int, size: int) -> bool {
    &&& new_img.len() == old_img.len()
    &&& forall|ax: int, ay: int| same_root(t, cx, cy, ax, ay) && !in_tile(ax, ay, cx, cy, size) ==> #[trigger] new_img[off(t, ax, ay)] == old_img[off(t, ax, ay)]
}
pub open spec fn wwf<F: Function>(w: &Worker<'_, F>) -> bool {
    &&& w.tile_sizes.wf()
    &&& w.image.data@.len() == t0(w) * t0(w)
    &&& w.scratch.x@.len() == w.tile_sizes.0@[w.tile_sizes.0@.len() - 1] * w.tile_sizes.0@[w.tile_sizes.0@.len() - 1]
    &&& w.scratch.y@.len() == w.scratch.x@.len() && w.scratch.z@.len() == w.scratch.x@.len()
    &&& !fnan(w.z)
}

// ---------- index arithmetic
pub open spec fn sizes_wf(s: Seq<usize>) -> bool {
    &&& 1 <= s.len() <= usize::MAX
    &&& forall|i: int| 0 <= i < s.len() ==> #[trigger] s[i] >= 1
    &&& forall|i: int| 0 <= i < s.len() - 1 ==> #[trigger] step_ok(s, i)
    &&& s[0] * s[0] <= 16777216
}
/// each tile size is larger than, and a multiple of, the next
pub open spec fn step_ok(s: Seq<usize>, i: int) -> bool { s[i] > s[i + 1] && s[i] % s[i + 1] == 0 }
pub proof fn lemma_sizes_desc(s: Seq<usize>, a: int, b: int)
    requires sizes_wf(s), 0 <= a <= b < s.len()
    ensures s[b] <= s[a]
    decreases b - a
{
    if a < b { assert(step_ok(s, b - 1)); lemma_sizes_desc(s, a, b - 1); }
}
pub proof fn lemma_mod_shift(c: int, i: int, t: int)
    requires t > 0, c >= 0, 0 <= i, (c % t) + i < t
    ensures (c + i) % t == (c % t) + i, (c + i) / t == c / t
{
    vstd::arithmetic::div_mod::lemma_fundamental_div_mod(c, t);
    assert(t * (c / t) == (c / t) * t) by (nonlinear_arith);
    assert(c + i == (c / t) * t + ((c % t) + i));
    vstd::arithmetic::div_mod::lemma_fundamental_div_mod_converse(c + i, t, c / t, (c % t) + i);
}
pub proof fn lemma_loc_bound(t: int, a: int, b: int)
    requires 0 <= a < t, 0 <= b < t
    ensures 0 <= a + b * t < t * t
{
    assert(b * t <= (t - 1) * t) by (nonlinear_arith) requires 0 <= b < t, t > 0;
    assert((t - 1) * t + t == t * t) by (nonlinear_arith);
    assert(0 <= b * t) by (nonlinear_arith) requires 0 <= b, t > 0;
}
pub proof fn lemma_loc_inj(t: int, a: int, b: int, c: int, d: int)
    requires 0 <= a < t, 0 <= c < t, 0 <= b, 0 <= d, a + b * t == c + d * t
    ensures a == c, b == d
{
    vstd::arithmetic::div_mod::lemma_fundamental_div_mod_converse(a + b * t, t, b, a);
    vstd::arithmetic::div_mod::lemma_fundamental_div_mod_converse(c + d * t, t, d, c);
}
pub proof fn lemma_divmod_idx(n: int, j: int, i: int)
    requires n > 0, 0 <= i < n, 0 <= j
    ensures (j * n + i) % n == i, (j * n + i) / n == j
{
    vstd::arithmetic::div_mod::lemma_fundamental_div_mod_converse(j * n + i, n, j, i);
}
pub proof fn lemma_off_bound(t: int, ax: int, ay: int)
    requires t > 0, ax >= 0, ay >= 0
    ensures 0 <= off(t, ax, ay) < t * t
{
    vstd::arithmetic::div_mod::lemma_mod_pos_bound(ax, t);
    vstd::arithmetic::div_mod::lemma_mod_pos_bound(ay, t);
    lemma_loc_bound(t, ax % t, ay % t);
}
/// a pixel of a tile that lies inside one root tile: its data index, and it is in the same root tile as the corner
pub proof fn lemma_off(t: int, cx: int, cy: int, size: int, ax: int, ay: int)
    requires t > 0, in_root(t, cx, cy, size), in_tile(ax, ay, cx, cy, size)
    ensures off(t, ax, ay) == ((cx % t) + (ax - cx)) + ((cy % t) + (ay - cy)) * t, 0 <= off(t, ax, ay) < t * t, same_root(t, cx, cy, ax, ay)
{
    lemma_mod_shift(cx, ax - cx, t);
    lemma_mod_shift(cy, ay - cy, t);
    vstd::arithmetic::div_mod::lemma_mod_pos_bound(cx, t);
    vstd::arithmetic::div_mod::lemma_mod_pos_bound(cy, t);
    lemma_loc_bound(t, (cx % t) + (ax - cx), (cy % t) + (ay - cy));
}
/// two pixels of one root tile with the same data index are the same pixel
pub proof fn lemma_off_inj(t: int, cx: int, cy: int, ax: int, ay: int, bx: int, by: int)
    requires t > 0, same_root(t, cx, cy, ax, ay), same_root(t, cx, cy, bx, by), off(t, ax, ay) == off(t, bx, by)
    ensures ax == bx, ay == by
{
    vstd::arithmetic::div_mod::lemma_mod_pos_bound(ax, t);
    vstd::arithmetic::div_mod::lemma_mod_pos_bound(ay, t);
    vstd::arithmetic::div_mod::lemma_mod_pos_bound(bx, t);
    vstd::arithmetic::div_mod::lemma_mod_pos_bound(by, t);
    lemma_loc_inj(t, ax % t, ay % t, bx % t, by % t);
    vstd::arithmetic::div_mod::lemma_fundamental_div_mod(ax, t);
    vstd::arithmetic::div_mod::lemma_fundamental_div_mod(ay, t);
    vstd::arithmetic::div_mod::lemma_fundamental_div_mod(bx, t);
    vstd::arithmetic::div_mod::lemma_fundamental_div_mod(by, t);
}

