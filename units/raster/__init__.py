"""Unit `raster` (C06): the per-tile recursion of the 2D renderer, fidget-raster/src/pixel.rs `Worker::{render_tile_recurse,
render_tile_pixels}`, and the tile helpers of fidget-raster/src/lib.rs `Tile::{new, add}`, `TileSizesRef::{index, get, pixel_offset}`,
on their real text, generic over `F: Function`.

What is proved (for every tile-size list that `TileSizes::new` accepts, every depth, every tile position inside one root tile, whatever
the image held before): after `render_tile_recurse(shape, depth, tile)` EVERY pixel of the tile holds either the value of the shape at
that pixel's sample position (the pixel coordinates as f32, the worker's z) or - unless pixel-perfect - a fill whose inside flag is the sign
of that value; NO pixel of the root tile outside the tile is written (`frame`); no panic (indices into the tile image and the scratch
arrays, the `unreachable!()` arms, usize arithmetic).  "Skipping whole tiles on interval evidence and evaluating simplified tapes inside
tiles is unobservable" is exactly this postcondition: it is stated about the ORIGINAL function of the handle.

What is ASSUMED (the three hypotheses the renderer composes; each is a claimed property of its own, stated as the contract of a trusted
stand-in): C03+C14 - the sign decided by the interval result of `ShapeTracingEval::eval_with_transform_and_vars` is the sign of the
function at every point of the box, and a returned trace is valid on that box; C04 - `RenderHandle::simplify` yields a function that
agrees with its parent on every box its trace is valid for; C01/C02+C14 - `ShapeBulkEval::eval_with_transform_and_vars` returns, per sample,
the function at that sample.  Float facts used: pixel coordinates below 2^24 convert exactly and monotonically to f32 (`ax_cast_mono`,
`ax_add_cast`), `<=`/`<` chain (`ax_le_lt_trans`, `ax_lt_le_trans`, `ax_le_refl`), comparison operators equal their specification (`ax_cmp`).

nalgebra's `Point2`/`Vector2` are two-field stand-ins (R-opoint: `OPoint<usize, Const<N>>` is `Point2<usize>` for N = 2, the only
instantiation; R-ptindex: `p[0]`/`p[1]` are `p.x`/`p.y`; R-opcall: `p + v`, `v * k` as the functions the operator impls are), the tile image is
`Image { data }` with R-imgindex (`image[i]` is `image.data[i]`: checked against the two Index impls) and R-fillrange
(`image[s..][..n].fill(v)` as the verified helper `fill_range`, a model of std's slicing + fill)."""
import os, re
from lib import rsx
from lib.rsx import ExtractError
from lib.verus_engine import Injector, Obligation

LIB_RS = 'fidget-raster/src/lib.rs'
PIX_RS = 'fidget-raster/src/pixel.rs'
HERE = os.path.dirname(os.path.abspath(__file__))
PROPS = ['C06']


def norm(s):
    return re.sub(r'\s+', '', s)


def sub_once(text, old, new, what):
    if text.count(old) != 1:
        raise ExtractError('%s: expected exactly one %r, found %d' % (what, old[:70], text.count(old)))
    return text.replace(old, new)


def nth_replace(text, old, new, n, what):
    """replace the n-th (0-based) occurrence of old"""
    pos = -1
    for _ in range(n + 1):
        pos = text.find(old, pos + 1)
        if pos < 0:
            raise ExtractError('%s: occurrence %d of %r not found' % (what, n, old[:70]))
    return text[:pos] + new + text[pos + len(old):]


RECURSE_SPEC = '''
        requires wwf(old(self)), depth < old(self).tile_sizes.0@.len(),
            in_root(t0(old(self)), tile.corner.x as int, tile.corner.y as int, old(self).tile_sizes.0@[depth as int] as int),
            tile.corner.x + old(self).tile_sizes.0@[depth as int] <= 16777216, tile.corner.y + old(self).tile_sizes.0@[depth as int] <= 16777216,
        ensures wwf(final(self)), final(self).tile_sizes == old(self).tile_sizes, final(self).z == old(self).z, final(self).pixel_perfect == old(self).pixel_perfect,
            final(shape).f() == old(shape).f(),
            // every pixel of the tile: the value of the ORIGINAL function there, or a fill with the sign of that value
            tile_ok(final(self).pixel_perfect, old(shape).f(), final(self).image.data@, t0(old(self)), tile.corner.x as int, tile.corner.y as int, old(self).tile_sizes.0@[depth as int] as int, old(self).z),
            // nothing outside the tile is written
            frame(old(self).image.data@, final(self).image.data@, t0(old(self)), tile.corner.x as int, tile.corner.y as int, old(self).tile_sizes.0@[depth as int] as int),
        decreases old(self).tile_sizes.0@.len() - depth
'''
PIXELS_SPEC = '''
        requires wwf(old(self)), tile_size == old(self).tile_sizes.0@[old(self).tile_sizes.0@.len() - 1],
            in_root(t0(old(self)), tile.corner.x as int, tile.corner.y as int, tile_size as int),
            tile.corner.x + tile_size <= 16777216, tile.corner.y + tile_size <= 16777216,
        ensures wwf(final(self)), final(self).tile_sizes == old(self).tile_sizes, final(self).z == old(self).z, final(self).pixel_perfect == old(self).pixel_perfect,
            final(shape).f() == old(shape).f(),
            tile_ok(final(self).pixel_perfect, old(shape).f(), final(self).image.data@, t0(old(self)), tile.corner.x as int, tile.corner.y as int, tile_size as int, old(self).z),
            frame(old(self).image.data@, final(self).image.data@, t0(old(self)), tile.corner.x as int, tile.corner.y as int, tile_size as int),
'''

# ---- proof text of render_tile_pixels
PX_START = '''        let ghost n_ = tile_size as int;
        proof {
            let l_ = self.tile_sizes.0@.len() - 1;
            assert(self.tile_sizes.0@[l_] >= 1);
            lemma_sizes_desc(self.tile_sizes.0@, 0, l_);
            assert(n_ * n_ <= 16777216) by (nonlinear_arith) requires 1 <= n_ <= t0(self), t0(self) * t0(self) <= 16777216;
            assert(0 * n_ == 0);
        }'''
PX_INV_J1 = '''            invariant index == j * n_, n_ == tile_size, n_ >= 1, wwf(self), self.tile_sizes == old(self).tile_sizes, self.z == old(self).z, self.pixel_perfect == old(self).pixel_perfect, self.image == old(self).image,
                self.scratch.x@.len() == n_ * n_, n_ * n_ <= 16777216,
                tile.corner.x + n_ <= 16777216, tile.corner.y + n_ <= 16777216,
                forall|k: int| 0 <= k < index ==> #[trigger] self.scratch.x@[k] == f_of((tile.corner.x + k % n_) as usize) && self.scratch.y@[k] == f_of((tile.corner.y + k / n_) as usize) && self.scratch.z@[k] == self.z,'''
PX_J1_BODY = '''            proof { assert((j + 1) * n_ <= n_ * n_) by (nonlinear_arith) requires 0 <= j < n_; assert((j + 1) * n_ == j * n_ + n_) by (nonlinear_arith); }'''
PX_INV_I1 = '''                invariant index == j * n_ + i, 0 <= j < n_, n_ == tile_size, wwf(self), self.tile_sizes == old(self).tile_sizes, self.z == old(self).z, self.pixel_perfect == old(self).pixel_perfect, self.image == old(self).image,
                    self.scratch.x@.len() == n_ * n_, (j + 1) * n_ <= n_ * n_, (j + 1) * n_ == j * n_ + n_, n_ * n_ <= 16777216,
                    tile.corner.x + n_ <= 16777216, tile.corner.y + n_ <= 16777216,
                    forall|k: int| 0 <= k < index ==> #[trigger] self.scratch.x@[k] == f_of((tile.corner.x + k % n_) as usize) && self.scratch.y@[k] == f_of((tile.corner.y + k / n_) as usize) && self.scratch.z@[k] == self.z,'''
PX_I1_BODY = '''                proof { lemma_divmod_idx(n_, j as int, i as int); }'''
PX_MID = '''        let ghost f_ = shape.f();
        let ghost t_ = t0(old(self));
        let ghost sc_ = self.scratch;
        let ghost cx_ = tile.corner.x as int;
        let ghost cy_ = tile.corner.y as int;
        let ghost img0_ = old(self).image.data@;'''
PX_INV_J2 = '''            invariant index == j * n_, n_ == tile_size, n_ >= 1, self.tile_sizes == old(self).tile_sizes, self.z == old(self).z, self.pixel_perfect == old(self).pixel_perfect, self.scratch == sc_, self.tile_sizes.wf(), t_ == self.tile_sizes.0@[0], self.image.data@.len() == t_ * t_, img0_.len() == t_ * t_,
                out@.len() == n_ * n_, cx_ == tile.corner.x, cy_ == tile.corner.y, in_root(t_, cx_, cy_, n_), cx_ + n_ <= 16777216, cy_ + n_ <= 16777216,
                forall|k: int| 0 <= k < n_ * n_ ==> #[trigger] out@[k] == fval(f_, f_of((cx_ + k % n_) as usize), f_of((cy_ + k / n_) as usize), self.z),
                forall|ax: int, ay: int| in_tile(ax, ay, cx_, cy_, n_) && ay < cy_ + j ==> #[trigger] self.image.data@[off(t_, ax, ay)] == px_val(fval(f_, f_of(ax as usize), f_of(ay as usize), self.z)),
                forall|ax: int, ay: int| same_root(t_, cx_, cy_, ax, ay) && !in_tile(ax, ay, cx_, cy_, n_) ==> #[trigger] self.image.data@[off(t_, ax, ay)] == img0_[off(t_, ax, ay)],'''
PX_J2_BODY = '''            proof { assert((j + 1) * n_ <= n_ * n_) by (nonlinear_arith) requires 0 <= j < n_; assert((j + 1) * n_ == j * n_ + n_) by (nonlinear_arith); lemma_off(t_, cx_, cy_, n_, cx_, cy_ + j); }'''
PX_INV_I2 = '''                invariant index == j * n_ + i, 0 <= j < n_, n_ == tile_size, self.tile_sizes == old(self).tile_sizes, self.z == old(self).z, self.pixel_perfect == old(self).pixel_perfect, self.scratch == sc_, self.tile_sizes.wf(), t_ == self.tile_sizes.0@[0], self.image.data@.len() == t_ * t_, img0_.len() == t_ * t_,
                    out@.len() == n_ * n_, (j + 1) * n_ <= n_ * n_, (j + 1) * n_ == j * n_ + n_, cx_ == tile.corner.x, cy_ == tile.corner.y, in_root(t_, cx_, cy_, n_), cx_ + n_ <= 16777216, cy_ + n_ <= 16777216,
                    o == off(t_, cx_, cy_ + j),
                    forall|k: int| 0 <= k < n_ * n_ ==> #[trigger] out@[k] == fval(f_, f_of((cx_ + k % n_) as usize), f_of((cy_ + k / n_) as usize), self.z),
                    forall|ax: int, ay: int| in_tile(ax, ay, cx_, cy_, n_) && (ay < cy_ + j || (ay == cy_ + j && ax < cx_ + i)) ==> #[trigger] self.image.data@[off(t_, ax, ay)] == px_val(fval(f_, f_of(ax as usize), f_of(ay as usize), self.z)),
                    forall|ax: int, ay: int| same_root(t_, cx_, cy_, ax, ay) && !in_tile(ax, ay, cx_, cy_, n_) ==> #[trigger] self.image.data@[off(t_, ax, ay)] == img0_[off(t_, ax, ay)],'''
PX_I2_BODY = '''                proof {
                    lemma_divmod_idx(n_, j as int, i as int);
                    lemma_off(t_, cx_, cy_, n_, cx_ + i, cy_ + j);
                    lemma_off(t_, cx_, cy_, n_, cx_, cy_ + j);
                    assert(o + i == off(t_, cx_ + i, cy_ + j));
                    assert forall|ax: int, ay: int| same_root(t_, cx_, cy_, ax, ay) && (ax != cx_ + i || ay != cy_ + j) implies #[trigger] off(t_, ax, ay) != off(t_, cx_ + i, cy_ + j) by {
                        if off(t_, ax, ay) == off(t_, cx_ + i, cy_ + j) { lemma_off_inj(t_, cx_, cy_, ax, ay, cx_ + i, cy_ + j); }
                    }
                    assert forall|ax: int, ay: int| in_tile(ax, ay, cx_, cy_, n_) implies same_root(t_, cx_, cy_, ax, ay) by { lemma_off(t_, cx_, cy_, n_, ax, ay); }
                }'''

# ---- proof text of render_tile_recurse
RC_GHOSTS = '''        let ghost t_ = t0(old(self));
        let ghost cx_ = tile.corner.x as int;
        let ghost cy_ = tile.corner.y as int;
        let ghost n_ = tile_size as int;
        let ghost f_ = shape.f();
        let ghost img0_ = self.image.data@;
        let ghost pp_ = self.pixel_perfect;
        let ghost z_ = self.z;'''
RC_BOX = '''        proof {
            lemma_sizes_desc(self.tile_sizes.0@, 0, depth as int);
            assert(self.tile_sizes.0@[depth as int] >= 1);
            // every pixel of the tile is a point of the box (x, y, z)
            ax_add_cast(tile.corner.x, tile_size); ax_add_cast(tile.corner.y, tile_size); ax_le_refl(self.z);
            assert forall|ax: int, ay: int| in_tile(ax, ay, cx_, cy_, n_) implies mem(#[trigger] f_of(ax as usize), x) && mem(#[trigger] f_of(ay as usize), y) && mem(z_, z) by {
                ax_cast_mono(tile.corner.x, ax as usize); ax_cast_mono(ax as usize, (cx_ + n_) as usize);
                ax_cast_mono(tile.corner.y, ay as usize); ax_cast_mono(ay as usize, (cy_ + n_) as usize);
            }
            assert forall|ax: int, ay: int| in_tile(ax, ay, cx_, cy_, n_) implies same_root(t_, cx_, cy_, ax, ay) by { lemma_off(t_, cx_, cy_, n_, ax, ay); }
        }'''
RC_CMP = '''            proof { ax_cmp(i.upper, 0.0f32); ax_cmp(i.lower, 0.0f32); }'''
RC_INV_FILL = '''                    invariant self.tile_sizes == old(self).tile_sizes, self.z == old(self).z, self.pixel_perfect == old(self).pixel_perfect, self.scratch == old(self).scratch, self.tile_sizes.wf(), t_ == self.tile_sizes.0@[0], self.image.data@.len() == t_ * t_, img0_.len() == t_ * t_,
                        cx_ == tile.corner.x, cy_ == tile.corner.y, n_ == tile_size, in_root(t_, cx_, cy_, n_), cx_ + n_ <= 16777216, cy_ + n_ <= 16777216, n_ >= 1,
                        forall|ax: int, ay: int| in_tile(ax, ay, cx_, cy_, n_) ==> same_root(t_, cx_, cy_, ax, ay),
                        forall|ax: int, ay: int| in_tile(ax, ay, cx_, cy_, n_) && ay < cy_ + y ==> #[trigger] self.image.data@[off(t_, ax, ay)] == fill,
                        forall|ax: int, ay: int| same_root(t_, cx_, cy_, ax, ay) && !in_tile(ax, ay, cx_, cy_, n_) ==> #[trigger] self.image.data@[off(t_, ax, ay)] == img0_[off(t_, ax, ay)],'''
RC_FILL_PRE = '''                    proof { lemma_off(t_, cx_, cy_, n_, cx_, cy_ + y); lemma_off(t_, cx_, cy_, n_, cx_ + n_ - 1, cy_ + y); }'''
RC_FILL_POST = '''                    proof {
                        // the range [start, start + n) is exactly row y of the tile
                        assert forall|ax: int, ay: int| same_root(t_, cx_, cy_, ax, ay) implies 0 <= #[trigger] off(t_, ax, ay) < t_ * t_ && ((start <= off(t_, ax, ay) < start + n_) <==> (ay == cy_ + y && cx_ <= ax < cx_ + n_)) by {
                            lemma_off_bound(t_, ax, ay);
                            if ay == cy_ + y && cx_ <= ax < cx_ + n_ {
                                lemma_off(t_, cx_, cy_, n_, ax, ay);
                            } else if start <= off(t_, ax, ay) < start + n_ {
                                let bx = cx_ + (off(t_, ax, ay) - start);
                                lemma_off(t_, cx_, cy_, n_, bx, cy_ + y);
                                lemma_off_inj(t_, cx_, cy_, ax, ay, bx, cy_ + y);
                            }
                        }
                    }'''
RC_FILL_DONE = '''                proof {
                    assert forall|ax: int, ay: int| in_tile(ax, ay, cx_, cy_, n_) implies px_ok(pp_, f_, #[trigger] self.image.data@[off(t_, ax, ay)], f_of(ax as usize), f_of(ay as usize), z_) by {
                        let v = fval(f_, f_of(ax as usize), f_of(ay as usize), z_);
                        assert(mem(f_of(ax as usize), x) && mem(f_of(ay as usize), y) && mem(z_, z));
                    }
                }'''
RC_SUB = '''        let ghost g_ = sub_tape.f();
        proof {
            // on the pixels of this tile the (possibly simplified) function is the function
            assert forall|ax: int, ay: int| in_tile(ax, ay, cx_, cy_, n_) implies #[trigger] fval(g_, f_of(ax as usize), f_of(ay as usize), z_) == fval(f_, f_of(ax as usize), f_of(ay as usize), z_) by {
                ax_cast_mono(tile.corner.x, ax as usize); ax_cast_mono(ax as usize, (cx_ + n_) as usize);
                ax_cast_mono(tile.corner.y, ay as usize); ax_cast_mono(ay as usize, (cy_ + n_) as usize);
                assert(mem(f_of(ax as usize), x) && mem(f_of(ay as usize), y) && mem(z_, z));
                if g_ != f_ { assert(agree_on(g_, f_, x, y, z)); }
            }
        }'''
RC_N = '''            let ghost m_ = next_tile_size as int;
            proof {
                assert(step_ok(self.tile_sizes.0@, depth as int));
                assert(self.tile_sizes.0@[depth + 1] >= 1);
                vstd::arithmetic::div_mod::lemma_fundamental_div_mod(n_, m_);
                assert(n * m_ == n_) by (nonlinear_arith) requires n_ == m_ * (n as int) + 0;
                assert(0 * m_ == 0);
            }'''
RC_INV_J = '''                invariant wwf(self), self.tile_sizes == old(self).tile_sizes, self.z == old(self).z, self.pixel_perfect == old(self).pixel_perfect, t_ == self.tile_sizes.0@[0], img0_.len() == t_ * t_,
                    cx_ == tile.corner.x, cy_ == tile.corner.y, n_ == tile_size, in_root(t_, cx_, cy_, n_), cx_ + n_ <= 16777216, cy_ + n_ <= 16777216,
                    m_ == next_tile_size, m_ == self.tile_sizes.0@[depth + 1], m_ >= 1, n * m_ == n_, depth + 1 < self.tile_sizes.0@.len(), sub_tape.f() == g_, pp_ == old(self).pixel_perfect, z_ == old(self).z, n_ >= 1,
                    forall|ax: int, ay: int| in_tile(ax, ay, cx_, cy_, n_) ==> same_root(t_, cx_, cy_, ax, ay),
                    forall|ax: int, ay: int| in_tile(ax, ay, cx_, cy_, n_) && ay < cy_ + j * m_ ==> px_ok(pp_, g_, #[trigger] self.image.data@[off(t_, ax, ay)], f_of(ax as usize), f_of(ay as usize), z_),
                    forall|ax: int, ay: int| same_root(t_, cx_, cy_, ax, ay) && !in_tile(ax, ay, cx_, cy_, n_) ==> #[trigger] self.image.data@[off(t_, ax, ay)] == img0_[off(t_, ax, ay)],'''
RC_J_BODY = '''                proof { assert((j + 1) * m_ <= n * m_) by (nonlinear_arith) requires 0 <= j < n, m_ >= 1; assert((j + 1) * m_ == j * m_ + m_) by (nonlinear_arith); assert(j * m_ >= 0) by (nonlinear_arith) requires j >= 0, m_ >= 1; }'''
RC_INV_I = '''                    invariant wwf(self), self.tile_sizes == old(self).tile_sizes, self.z == old(self).z, self.pixel_perfect == old(self).pixel_perfect, t_ == self.tile_sizes.0@[0], img0_.len() == t_ * t_,
                        cx_ == tile.corner.x, cy_ == tile.corner.y, n_ == tile_size, in_root(t_, cx_, cy_, n_), cx_ + n_ <= 16777216, cy_ + n_ <= 16777216,
                        m_ == next_tile_size, m_ == self.tile_sizes.0@[depth + 1], m_ >= 1, n * m_ == n_, depth + 1 < self.tile_sizes.0@.len(), sub_tape.f() == g_, pp_ == old(self).pixel_perfect, z_ == old(self).z,
                        0 <= j < n, (j + 1) * m_ <= n_, (j + 1) * m_ == j * m_ + m_, j * m_ >= 0, n_ >= 1,
                        forall|ax: int, ay: int| in_tile(ax, ay, cx_, cy_, n_) ==> same_root(t_, cx_, cy_, ax, ay),
                        forall|ax: int, ay: int| in_tile(ax, ay, cx_, cy_, n_) && (ay < cy_ + j * m_ || (ay < cy_ + (j + 1) * m_ && ax < cx_ + i * m_)) ==> px_ok(pp_, g_, #[trigger] self.image.data@[off(t_, ax, ay)], f_of(ax as usize), f_of(ay as usize), z_),
                        forall|ax: int, ay: int| same_root(t_, cx_, cy_, ax, ay) && !in_tile(ax, ay, cx_, cy_, n_) ==> #[trigger] self.image.data@[off(t_, ax, ay)] == img0_[off(t_, ax, ay)],'''
RC_CALL_PRE = '''                    proof {
                        assert((i + 1) * m_ <= n * m_) by (nonlinear_arith) requires 0 <= i < n, m_ >= 1; assert((i + 1) * m_ == i * m_ + m_) by (nonlinear_arith); assert(i * m_ >= 0) by (nonlinear_arith) requires i >= 0, m_ >= 1;
                        lemma_mod_shift(cx_, i * m_, t_); lemma_mod_shift(cy_, j * m_, t_);
                    }
                    let ghost img1_ = self.image.data@;
                    let ghost sx_ = cx_ + i * m_;
                    let ghost sy_ = cy_ + j * m_;'''
RC_CALL_POST = '''                    proof {
                        assert(tile_ok(pp_, g_, self.image.data@, t_, sx_, sy_, m_, z_));
                        assert(frame(img1_, self.image.data@, t_, sx_, sy_, m_));
                        // pixels of the tile outside this sub-tile, and pixels outside the tile, keep what they held (same root tile)
                        assert forall|ax: int, ay: int| same_root(t_, cx_, cy_, ax, ay) && !in_tile(ax, ay, sx_, sy_, m_) implies #[trigger] self.image.data@[off(t_, ax, ay)] == img1_[off(t_, ax, ay)] by {
                            assert(same_root(t_, sx_, sy_, ax, ay));
                        }
                        assert forall|ax: int, ay: int| in_tile(ax, ay, cx_, cy_, n_) && (ay < cy_ + j * m_ || (ay < cy_ + (j + 1) * m_ && ax < cx_ + (i + 1) * m_)) implies px_ok(pp_, g_, #[trigger] self.image.data@[off(t_, ax, ay)], f_of(ax as usize), f_of(ay as usize), z_) by {
                            if in_tile(ax, ay, sx_, sy_, m_) {
                            } else {
                                assert(self.image.data@[off(t_, ax, ay)] == img1_[off(t_, ax, ay)]);
                            }
                        }
                        assert forall|ax: int, ay: int| same_root(t_, cx_, cy_, ax, ay) && !in_tile(ax, ay, cx_, cy_, n_) implies #[trigger] self.image.data@[off(t_, ax, ay)] == img0_[off(t_, ax, ay)] by {
                            assert(self.image.data@[off(t_, ax, ay)] == img1_[off(t_, ax, ay)]);
                        }
                    }'''


def _hit(l, line):
    """a line matches an anchor literally (modulo blanks) or, for anchors `re:<pattern>`, by a full regular-expression match: such anchors
    tolerate edits INSIDE the anchored statement, which then fail the proof instead of losing the anchor"""
    if line.startswith('re:'):
        return re.fullmatch(line[3:], l.strip()) is not None
    return l.strip() == line.strip()


RENDER_SPEC = """
    requires render_config.image_size.w as int * render_config.image_size.h as int <= usize::MAX,
        eval_config.tile_sizes is Some ==> sizes_wf(eval_config.tile_sizes->Some_0.0@),
    ensures r is Some ==> {
        let (w, h) = (render_config.image_size.w as int, render_config.image_size.h as int);
        &&& r->Some_0.data@.len() == w * h
        // every pixel of the image: the value of the shape at that pixel, or a fill with the sign of that value
        &&& forall|x: int, y: int| 0 <= x < w && 0 <= y < h ==> px_ok(render_config.pixel_perfect, b.sh().f(), #[trigger] r->Some_0.data@[pidx(w, x, y)], f_of(x as usize), f_of(y as usize), render_config.z)
    }
"""
RD_START = """    let ghost t_ = tile_sizes.0@[0] as int;
    let ghost f_ = b.sh().f();
    let ghost pp_ = render_config.pixel_perfect;
    let ghost z_ = render_config.z;
    let ghost w_ = width as int;
    let ghost h_ = height as int;
    proof {
        if eval_config.tile_sizes is Some { lemma_suffix_wf(tile_sizes.0@, eval_config.tile_sizes->Some_0.0@); } else { lemma_suffix_wf(tile_sizes.0@, default_tile_sizes.0@); }
        assert(t_ >= 1 && t_ * t_ <= 16777216);
        assert(t_ <= 16777216) by (nonlinear_arith) requires t_ >= 1, t_ * t_ <= 16777216;
    }"""
RD_COMMON = """image.size == render_config.image_size, image.data@.len() == w_ * h_, w_ == render_config.image_size.w, h_ == render_config.image_size.h, w_ * h_ <= usize::MAX, width == w_, height == h_,
            t_ == tile_sizes.0@[0], t_ >= 1, t_ <= 16777216, t_ * t_ <= 16777216, tile_sizes.0@.len() >= 1,"""
RD_INV_K = """        invariant """ + RD_COMMON + """ f_ == shape.f(), pp_ == render_config.pixel_perfect, z_ == render_config.z,
            forall|k: int| 0 <= k < tiles@.len() ==> {
                let e = #[trigger] tiles@[k];
                e.0.corner.x % (t_ as usize) == 0 && e.0.corner.y % (t_ as usize) == 0 && e.1.data@.len() == t_ * t_ && e.0.corner.x < w_ && e.0.corner.y < h_
                && tile_ok(pp_, f_, e.1.data@, t_, e.0.corner.x as int, e.0.corner.y as int, t_, z_) },
            forall|x: int, y: int| 0 <= x < w_ && 0 <= y < h_ && covered(tiles@, k_ as int, t_, x, y) ==> px_ok(pp_, f_, #[trigger] image.data@[pidx(w_, x, y)], f_of(x as usize), f_of(y as usize), z_),"""
RD_K_BODY = """        let ghost cx_ = tile.corner.x as int;
        let ghost cy_ = tile.corner.y as int;
        proof { assert(tiles@[k_ as int].0.corner.x == cx_); assert(0 * t_ == 0); }"""
RD_TILE = """cx_ == tile.corner.x, cy_ == tile.corner.y, cx_ < w_, cy_ < h_, cx_ % t_ == 0, cy_ % t_ == 0,
                data.data@.len() == t_ * t_, tile_ok(pp_, f_, data.data@, t_, cx_, cy_, t_, z_), 0 <= k_ < tiles@.len(), *tile == tiles@[k_ as int].0,"""
RD_INV_J = """            invariant """ + RD_COMMON + """ index == j * t_, """ + RD_TILE + """
                forall|x: int, y: int| 0 <= x < w_ && 0 <= y < h_ && (covered(tiles@, k_ as int, t_, x, y) || (cx_ <= x < cx_ + t_ && cy_ <= y < cy_ + j)) ==> px_ok(pp_, f_, #[trigger] image.data@[pidx(w_, x, y)], f_of(x as usize), f_of(y as usize), z_),"""
RD_J_BODY = """            proof { assert((j + 1) * t_ <= t_ * t_) by (nonlinear_arith) requires 0 <= j < t_; assert((j + 1) * t_ == j * t_ + t_) by (nonlinear_arith); }"""
RD_INV_I = """                invariant """ + RD_COMMON + """ index == j * t_ + i, 0 <= j < t_, (j + 1) * t_ <= t_ * t_, (j + 1) * t_ == j * t_ + t_, y == j + cy_, """ + RD_TILE + """
                    forall|x: int, y2: int| 0 <= x < w_ && 0 <= y2 < h_ && (covered(tiles@, k_ as int, t_, x, y2) || (cx_ <= x < cx_ + t_ && (cy_ <= y2 < cy_ + j || (y2 == cy_ + j && x < cx_ + i)))) ==> px_ok(pp_, f_, #[trigger] image.data@[pidx(w_, x, y2)], f_of(x as usize), f_of(y2 as usize), z_),"""
RD_WRITE = """                    proof {
                        lemma_root_off(t_, cx_, cy_, i as int, j as int);
                        assert(in_tile(x as int, y as int, cx_, cy_, t_));
                        assert(index == off(t_, x as int, y as int));
                        assert(px_ok(pp_, f_, data.data@[off(t_, x as int, y as int)], f_of(x), f_of(y), z_));
                        assert(pidx(w_, x as int, y as int) < w_ * h_) by (nonlinear_arith) requires 0 <= x < w_, 0 <= y < h_;
                        // the written index is the index of no other pixel
                        assert forall|x2: int, y2: int| 0 <= x2 < w_ && 0 <= y2 < h_ && (x2 != x || y2 != y) implies #[trigger] pidx(w_, x2, y2) != pidx(w_, x as int, y as int) by {
                            if pidx(w_, x2, y2) == pidx(w_, x as int, y as int) { lemma_loc_inj(w_, x2, y2, x as int, y as int); }
                        }
                    }"""
RD_K_END = """        proof {
            // every pixel of the image covered by this root tile has now been written
            assert forall|x: int, y: int| 0 <= x < w_ && 0 <= y < h_ && covered(tiles@, k_ + 1, t_, x, y) implies px_ok(pp_, f_, #[trigger] image.data@[pidx(w_, x, y)], f_of(x as usize), f_of(y as usize), z_) by {
                if !covered(tiles@, k_ as int, t_, x, y) {
                    let k = choose|k: int| 0 <= k < k_ + 1 && (#[trigger] tiles@[k]).0.corner.x == x - x % t_ && tiles@[k].0.corner.y == y - y % t_;
                    assert(k == k_);
                    vstd::arithmetic::div_mod::lemma_mod_pos_bound(x, t_);
                    vstd::arithmetic::div_mod::lemma_mod_pos_bound(y, t_);
                }
            }
        }"""
RD_END = """    proof {
        assert forall|x: int, y: int| 0 <= x < w_ && 0 <= y < h_ implies px_ok(pp_, f_, #[trigger] image.data@[pidx(w_, x, y)], f_of(x as usize), f_of(y as usize), z_) by {
            assert(covers(tiles@, t_, x, y));
            assert(covered(tiles@, tiles@.len() as int, t_, x, y));
        }
    }"""


def build_render(f, trace):
    q = 'render'
    f = sub_once(f, 'render_config.width().max(render_config.height())', 'max_u32(render_config.width(), render_config.height())', q)
    trace.fire('R-minmax')
    f = sub_once(f, 'super::render_tiles::<F, Worker<F>, _>(', 'render_tiles::<F>(   // R-stub: the worker type and the config type are fixed in the stand-in', q)
    f = sub_once(f, '    for (tile, data) in tiles.iter() {\n', '    for k_ in 0..tiles.len() {\n        let (tile, data) = (&tiles[k_].0, &tiles[k_].1);   // R-iter-tuple\n', q)
    trace.fire('R-iter-tuple')
    f, n = re.subn(r'\btile_sizes\[0\]', '*tile_sizes.index(0)', f)
    if n != 2:
        raise ExtractError('render: R-index expected 2 uses of tile_sizes[0], found %d' % n)
    trace.fire('R-index', n)
    f, n = re.subn(r'image\[\((\w+), (\w+)\)\] = data\[(\w+)\];', r'let p_ = image.decode_position((\1, \2));   // R-imgindex: IndexMut<(usize, usize)> / Index<usize> of Image\n                    image.data[p_] = data.data[\3];', f)
    if n != 1:
        raise ExtractError('render: R-imgindex expected one pixel copy, found %d' % n)
    trace.fire('R-imgindex', 2)
    f = sub_once(f, ') -> Option<Image> {', ') -> (r: Option<Image>)\n/*@spec*/' + RENDER_SPEC.rstrip('\n') + '\n/*@endspec*/{', q)
    return f


def place_render_proofs(text, trace):
    from lib.verus_engine import locate_fn
    i, j, k = locate_fn(text, 'render')
    seg = text[i:k]
    q = 'render'
    try:
        seg = after_line(seg, 'let mut image = Image::new(render_config.image_size);', RD_START, q)
        seg = loop_inv(seg, r're:for k_ in \S+\.\.\S+', RD_INV_K, q)
        seg = after_line(seg, 'let mut index = 0;', RD_K_BODY, q)
        seg = loop_inv(seg, r're:for j in \S+\.\.\S+', RD_INV_J, q)
        seg = before_line(seg, r're:let y = .*;', RD_J_BODY, q)
        seg = loop_inv(seg, r're:for i in \S+\.\.\S+', RD_INV_I, q)
        seg = before_line(seg, r're:let p_ = image\.decode_position\(.*', RD_WRITE, q)
        seg = before_line(seg, 'Some(image)', RD_END, q)
        # end of the k_ loop body: the closing brace of the j loop is followed by the closing brace of the k_ loop
        m = re.search(r'\n        \}\n    \}\n(?=    proof \{\n        assert forall\|x: int, y: int\| 0 <= x < w_ && 0 <= y < h_ implies)', seg)
        if not m:
            raise LostAnchor('render: end of the tile loop not found')
        seg = seg[:m.start()] + '\n        }\n' + RD_K_END + '\n    }\n' + seg[m.end():]
    except LostAnchor as e:
        trace.lost.setdefault('render', []).append(str(e))
        return text
    return text[:i] + seg + text[k:]


def after_line(text, line, add, what, occ=0):
    """insert `add` after the occ-th line equal (modulo leading/trailing blanks) to `line`"""
    lines = text.split('\n')
    hits = [k for k, l in enumerate(lines) if _hit(l, line)]
    if len(hits) <= occ:
        raise LostAnchor('%s: line %r (occurrence %d) not found' % (what, line.strip()[:70], occ))
    k = hits[occ]
    return '\n'.join(lines[:k + 1] + [add] + lines[k + 1:])


def before_line(text, line, add, what, occ=0):
    lines = text.split('\n')
    hits = [k for k, l in enumerate(lines) if _hit(l, line)]
    if len(hits) <= occ:
        raise LostAnchor('%s: line %r (occurrence %d) not found' % (what, line.strip()[:70], occ))
    k = hits[occ]
    return '\n'.join(lines[:k] + [add] + lines[k:])


class LostAnchor(Exception):
    pass


def loop_inv(text, header, inv, what, occ=0):
    """`for V in R {` (the occ-th line with that header) gets its invariant"""
    lines = text.split('\n')
    hits = [k for k, l in enumerate(lines) if (re.fullmatch(header[3:] + r' \{', l.strip()) if header.startswith('re:') else l.strip() == header.strip() + ' {')]
    if len(hits) <= occ:
        raise LostAnchor('%s: loop %r (occurrence %d) not found' % (what, header, occ))
    k = hits[occ]
    ind = lines[k][:len(lines[k]) - len(lines[k].lstrip())]
    lines[k] = ind + lines[k].strip()[:-2] + '\n' + inv + '\n' + ind + '{'
    return '\n'.join(lines)


def rewrite_common(f, trace, what):
    # R-index: the user Index impl of TileSizesRef called by name
    f, n = re.subn(r'\bself\.tile_sizes\[(\w+)\]', r'*self.tile_sizes.index(\1)', f)
    trace.fire('R-index', n)
    # R-ptindex
    f, n = re.subn(r'\btile\.corner\[0\]', 'tile.corner.x', f)
    f, n2 = re.subn(r'\btile\.corner\[1\]', 'tile.corner.y', f)
    trace.fire('R-ptindex', n + n2)
    return f


def build_recurse(f, trace):
    q = 'Worker::render_tile_recurse'
    f = rewrite_common(f, trace, q)
    f = sub_once(f, 'let base = Point2::from(tile.corner).cast::<f32>();', 'let base = cast_pt(tile.corner);   // R-cast', q)
    f, n = re.subn(r'base\.(x|y) \+ tile_size as f32', r'add_f32(base.\1, cast_f32(tile_size))', f)
    if n != 2:
        raise ExtractError('%s: R-fadd expected 2 box bounds, found %d' % (q, n))
    trace.fire('R-cast', 3)
    trace.fire('R-fadd', 2)
    f = sub_once(f, 'let fill = pixel.into();', 'let fill = px_from(pixel);   // R-into', q)
    trace.fire('R-into')
    f, n = re.subn(r'self\.image\[start\.\.\]\[\.\.tile_size\]\.fill\(fill\);', 'fill_range(&mut self.image, start, tile_size, fill);   // R-fillrange', f)
    if n != 1:
        raise ExtractError('%s: R-fillrange site changed' % q)
    trace.fire('R-fillrange')
    f, n = re.subn(r'tile\.corner \+ Vector2::new\(i, j\) \* next_tile_size', 'pt_add(tile.corner, vec_scale(Vector2::new(i, j), next_tile_size))', f)
    if n != 1:
        raise ExtractError('%s: R-opcall sub-tile corner changed' % q)
    trace.fire('R-opcall', 2)
    return f


def build_pixels(f, trace):
    q = 'Worker::render_tile_pixels'
    f = rewrite_common(f, trace, q)
    f, n = re.subn(r'\((tile\.corner\.[xy] \+ [ij])\) as f32', r'cast_f32(\1)', f)
    if n != 2:
        raise ExtractError('%s: R-cast expected 2 coordinate casts, found %d' % (q, n))
    trace.fire('R-cast', 2)
    f = sub_once(f, 'self.image[o + i] = out[index].into();', 'self.image.data[o + i] = px_from_f32(out[index]);   // R-imgindex, R-into', q)
    trace.fire('R-imgindex')
    trace.fire('R-into')
    return f


def place_proofs(text, trace):
    """insert ghost code; a lost anchor makes only that function undecided"""
    def guard(q, steps):
        nonlocal text
        i, j, k = locate(text, q)
        seg = text[i:k]
        try:
            for fn_, args in steps:
                seg = fn_(seg, *args)
        except LostAnchor as e:
            trace.lost.setdefault(q, []).append(str(e))
            return
        text = text[:i] + seg + text[k:]
    q = 'render_tile_pixels'
    guard('Worker::render_tile_pixels', [
        (after_line, ('let mut index = 0;', PX_START, q, 0)),
        (loop_inv, (r're:for j in \S+\.\.\S+', PX_INV_J1, q, 0)),
        (before_line, (r're:for i in \S+\.\.\S+ \{', PX_J1_BODY, q, 0)),
        (loop_inv, (r're:for i in \S+\.\.\S+', PX_INV_I1, q, 0)),
        (before_line, (r're:self\.scratch\.x\[index\] = .*;', PX_I1_BODY, q, 0)),
        (after_line, ('let mut index = 0;', PX_MID, q, 1)),
        (loop_inv, (r're:for j in \S+\.\.\S+', PX_INV_J2, q, 0)),     # the first one now carries an invariant: occurrence 0 of the bare header again
        (loop_inv, (r're:for i in \S+\.\.\S+', PX_INV_I2, q, 0)),
        (before_line, ('let o = self.tile_sizes.pixel_offset(tile.add(Vector2::new(0, j)));', PX_J2_BODY, q, 0)),
        (before_line, ('self.image.data[o + i] = px_from_f32(out[index]);   // R-imgindex, R-into', PX_I2_BODY, q, 0)),
    ])
    # the body proof of the first j loop goes right after its (now invariant-carrying) header: anchor on the inner loop header
    q = 'render_tile_recurse'
    guard('Worker::render_tile_recurse', [
        (after_line, ('let tile_size = *self.tile_sizes.index(depth);', RC_GHOSTS, q, 0)),
        (after_line, ('let z = Interval::new(self.z, self.z);', RC_BOX, q, 0)),
        (before_line, (r're:let pixel = if .* \{', RC_CMP, q, 0)),
        (loop_inv, (r're:for y in \S+\.\.\S+', RC_INV_FILL, q, 0)),
        (before_line, ('let start = self', RC_FILL_PRE, q, 0)),
        (after_line, ('fill_range(&mut self.image, start, tile_size, fill);   // R-fillrange', RC_FILL_POST, q, 0)),
        (before_line, ('return;', RC_FILL_DONE, q, 0)),
        (before_line, ('if let Some(next_tile_size) = self.tile_sizes.get(depth + 1) {', RC_SUB, q, 0)),
        (after_line, (r're:let n = .*;', RC_N, q, 0)),
        (loop_inv, (r're:for j in \S+\.\.\S+', RC_INV_J, q, 0)),
        (before_line, (r're:for i in \S+\.\.\S+ \{', RC_J_BODY, q, 0)),
        (loop_inv, (r're:for i in \S+\.\.\S+', RC_INV_I, q, 0)),
        (before_line, ('self.render_tile_recurse(', RC_CALL_PRE, q, 0)),
    ])
    return text


def locate(text, q):
    from lib.verus_engine import locate_fn
    return locate_fn(text, q)


def build(repo, trace):
    trace.lost = {}
    lib = rsx.clean(open('%s/%s' % (repo, LIB_RS)).read(), trace)
    pix = rsx.clean(open('%s/%s' % (repo, PIX_RS)).read(), trace)
    # ---- Tile
    i, j, k = rsx.find_item(lib, r'^struct Tile<const N: usize>', 0, 'struct Tile')
    tile = lib[i:k]
    tile = sub_once(tile, 'corner: OPoint<usize, Const<N>>,', 'pub corner: Point2<usize>,   // R-opoint', 'struct Tile')
    tile = '#[derive(Copy, Clone)]\npub ' + tile[tile.index('struct Tile'):]
    a, b = rsx.impl_block(lib, r'^impl<const N: usize> Tile<N>', 'impl Tile')
    tfns = []
    for name in ('new', 'add'):
        i, j, k = rsx.find_fn(lib, name, a, b)
        tfns.append(lib[rsx.line_start(lib, i):k])
        trace.items.append((LIB_RS, 'Tile::' + name))
    t_new = sub_once(tfns[0], 'corner: OPoint<usize, Const<N>>', 'corner: Point2<usize>', 'Tile::new')
    trace.fire('R-opoint', 2)
    t_add = sub_once(tfns[1], 'Point2::new(self.corner[0], self.corner[1])', 'Point2::new(self.corner.x, self.corner.y)', 'Tile::add')
    trace.fire('R-ptindex', 2)
    t_add = sub_once(t_add, '        corner + pos\n', '        pt_add(corner, pos)   // R-opcall\n', 'Tile::add')
    trace.fire('R-opcall')
    # ---- TileSizesRef
    m = re.search(r"^struct TileSizesRef<'a>\(&'a \[usize\]\);", lib, re.M)
    if not m:
        raise ExtractError('struct TileSizesRef changed')
    tsr = "#[derive(Copy, Clone)]\npub struct TileSizesRef<'a>(pub &'a [usize]);"
    a, b = rsx.impl_block(lib, r"^impl<'a> std::ops::Index<usize> for TileSizesRef<'a>", 'impl Index for TileSizesRef')
    i, j, k = rsx.find_fn(lib, 'index', a, b)
    f_index = lib[rsx.line_start(lib, i):k]
    if norm(f_index) != norm('fn index(&self, i: usize) -> &Self::Output { &self.0[i] }'):
        raise ExtractError('TileSizesRef::index changed')
    f_index = f_index.replace('&Self::Output', '&usize')
    trace.fire('R-traitfn')
    a, b = rsx.impl_block(lib, r"^impl TileSizesRef<'_>", 'impl TileSizesRef')
    i, j, k = rsx.find_fn(lib, 'get', a, b)
    f_get = lib[rsx.line_start(lib, i):k]
    # R-get-copied: `slice.get(i).copied()` is `if i < len { Some(slice[i]) } else { None }` (std)
    f_get = sub_once(f_get, 'self.0.get(i).copied()', 'if i < self.0.len() { Some(self.0[i]) } else { None }   // R-get-copied', 'TileSizesRef::get')
    trace.fire('R-get-copied')
    i, j, k = rsx.find_fn(lib, 'pixel_offset', a, b)
    f_off = lib[rsx.line_start(lib, i):k]
    for nm in ('index', 'get', 'pixel_offset'):
        trace.items.append((LIB_RS, 'TileSizesRef::' + nm))
    # the Index impls of Image that R-imgindex / R-fillrange stand for
    for hdr, body in ((r'^impl<P, S> std::ops::Index<usize> for Image<P, S>', '&self.data[index]'), (r'^impl<P, S> std::ops::IndexMut<usize> for Image<P, S>', '&mut self.data[index]')):
        a, b = rsx.impl_block(lib, hdr, hdr)
        if body not in lib[a:b]:
            raise ExtractError('Index impl of Image changed: R-imgindex not applicable')
    if not re.search(r'define_image_index!', lib) or '&mut self.data[index]' not in lib:
        raise ExtractError('range Index impls of Image changed: R-fillrange not applicable')
    # ---- Scratch, Worker
    sc = rsx.get_item(pix, r'^struct Scratch\b', 0, 'struct Scratch')
    sc = re.sub(r'^    (\w+):', r'    pub \1:', sc.replace('struct Scratch', 'pub struct Scratch'), flags=re.M)
    i, j, k = rsx.find_item(pix, r"^struct Worker<'a, F: Function>", 0, 'struct Worker')
    wk = pix[i:k]
    wk = sub_once(wk, 'transform: nalgebra::Matrix4<f32>,', 'transform: Matrix4<f32>,', 'struct Worker')
    for fld in ('tile_sizes', 'vars', 'z', 'pixel_perfect', 'scratch', 'transform', 'eval_float_slice', 'eval_interval', 'tape_storage', 'shape_storage', 'workspace', 'image'):
        if len(re.findall(r'^    %s:' % fld, wk, re.M)) != 1:
            raise ExtractError('struct Worker: field %s changed' % fld)
    wk = re.sub(r'^    (\w+):', r'    pub \1:', wk.replace('struct Worker', 'pub struct Worker'), flags=re.M)
    trace.items.append((PIX_RS, 'struct Scratch, struct Worker'))
    a, b = rsx.impl_block(pix, r"^impl<F: Function> Worker<'_, F>", 'impl Worker')
    i, j, k = rsx.find_fn(pix, 'render_tile_recurse', a, b)
    f_rec = build_recurse(pix[rsx.line_start(pix, i):k], trace)
    i, j, k = rsx.find_fn(pix, 'render_tile_pixels', a, b)
    f_pix = build_pixels(pix[rsx.line_start(pix, i):k], trace)
    trace.items += [(PIX_RS, 'Worker::render_tile_recurse'), (PIX_RS, 'Worker::render_tile_pixels')]
    trace.drop('everything else of fidget-raster (RenderConfig, RawDistancePixel packing, Worker::new / render_tile, render, render_tiles, voxel.rs, effects.rs); '
               'the real ShapeTracingEval / ShapeBulkEval / RenderHandle / Interval / nalgebra types (stand-ins with stated contracts)')
    # ---- whole-image assembly: RenderSize, Image (as GenericImage), RenderConfig, render
    i, j, k = rsx.find_item(lib, r'^trait RenderSize\b', 0, 'trait RenderSize')
    rs_tr = lib[i:k]
    if norm(rs_tr) != norm('trait RenderSize { fn width(&self) -> u32; fn height(&self) -> u32; }'):
        raise ExtractError('trait RenderSize changed')
    rs_tr = ('pub trait RenderSize {\n    spec fn w_(&self) -> u32;\n    spec fn h_(&self) -> u32;\n    fn width(&self) -> (r: u32) ensures r == self.w_();\n    fn height(&self) -> (r: u32) ensures r == self.h_();\n}')
    i, j, k = rsx.find_item(lib, r'^impl RenderSize for pixel::RenderSize', 0, 'impl RenderSize for pixel::RenderSize')
    rs_impl = lib[i:k]
    rs_impl = sub_once(rs_impl, 'impl RenderSize for pixel::RenderSize {', 'impl RenderSize for ImageSize {   // pixel::RenderSize is fidget_core::render::ImageSize\n    open spec fn w_(&self) -> u32 { self.w }\n    open spec fn h_(&self) -> u32 { self.h }', 'impl RenderSize for pixel::RenderSize')
    i, j, k = rsx.find_item(lib, r'^struct Image<P, S = ImageSize>', 0, 'struct Image')
    img = re.sub(r'#\[derive\([^\]]*\)\]\n', '', lib[i:k])
    if norm(img) != norm('struct Image<P, S = ImageSize> { data: Vec<P>, size: S, }'):
        raise ExtractError('struct Image changed')
    img = 'pub struct GenericImage<P, S = ImageSize> {   // R-alias: pixel.rs imports `Image as GenericImage`\n    pub data: Vec<P>,\n    pub size: S,\n}'
    a, b = rsx.impl_block(lib, r'^impl<P, S: RenderSize> Image<P, S>', 'impl Image (width, height, decode_position)')
    ifns = []
    for name in ('width', 'height', 'decode_position'):
        i2, j2, k2 = rsx.find_fn(lib, name, a, b)
        ifns.append(lib[rsx.line_start(lib, i2):k2])
        trace.items.append((LIB_RS, 'Image::' + name))
    a, b = rsx.impl_block(lib, r'^impl<P: Default \+ Clone, S: RenderSize> Image<P, S>', 'impl Image (new)')
    i2, j2, k2 = rsx.find_fn(lib, 'new', a, b)
    f_inew = lib[rsx.line_start(lib, i2):k2]
    m_v = re.search(r'vec!\[\s*P::default\(\);\s*([^\]]+?)\s*\]', f_inew)
    if not m_v:
        raise ExtractError('Image::new: vec! initialiser changed')
    f_inew = f_inew[:m_v.start()] + 'vec_default(\n                ' + m_v.group(1) + '\n            )' + f_inew[m_v.end():]   # R-vecmacro
    trace.fire('R-vecmacro')
    trace.items.append((LIB_RS, 'Image::new'))
    # the (row, col) Index impls that R-imgindex stands for
    for hdr, body in ((r'^impl<P, S: RenderSize> std::ops::Index<\(usize, usize\)> for Image<P, S>', 'let index = self.decode_position(pos); &self.data[index]'),
                      (r'^impl<P, S: RenderSize> std::ops::IndexMut<\(usize, usize\)> for Image<P, S>', 'let index = self.decode_position(pos); &mut self.data[index]')):
        a, b = rsx.impl_block(lib, hdr, hdr)
        if norm(body) not in norm(lib[a:b]):
            raise ExtractError('(row, col) Index impl of Image changed: R-imgindex not applicable')
    image_text = ('#[derive(Copy, Clone)]\npub struct ImageSize { pub w: u32, pub h: u32 }\nimpl ImageSize {\n    pub fn width(&self) -> (r: u32) ensures r == self.w { self.w }\n    pub fn height(&self) -> (r: u32) ensures r == self.h { self.h }\n}\n'
                  + rs_tr + '\n' + rs_impl + '\n' + img + '\npub type Image = GenericImage<RawDistancePixel>;\n'
                  + 'impl<P, S: RenderSize> GenericImage<P, S> {\n' + '\n\n'.join(ifns) + '\n}\n'
                  + '/// R-vecmacro: `vec![P::default(); n]`\n#[verifier::external_body]\npub fn vec_default<P: Default + Clone>(n: usize) -> (r: Vec<P>) ensures r@.len() == n { vec![P::default(); n] }\n'
                  + 'impl<P: Default + Clone, S: RenderSize> GenericImage<P, S> {\n' + f_inew + '\n}\n')
    if not re.search(r'^type Image = GenericImage<RawDistancePixel>;', pix, re.M) or 'Image as GenericImage' not in pix:
        raise ExtractError('pixel.rs: type Image alias changed')
    asm, f_render = '', ''
    try:
        i, j, k = rsx.find_item(pix, r'^struct RenderConfig\b', 0, 'struct RenderConfig')
        rc = pix[i:k]
        for fld, ty in (('image_size', 'RenderSize'), ('world_to_model', 'Matrix3<f32>'), ('pixel_perfect', 'bool'), ('z', 'f32')):
            if not re.search(r'^    %s: %s,' % (fld, re.escape(ty)), rc, re.M):
                raise ExtractError('struct RenderConfig: field %s changed' % fld)
        rc = rc.replace('image_size: RenderSize,', 'image_size: ImageSize,   // type RenderSize = ImageSize')
        rc = re.sub(r'^    (\w+):', r'    pub \1:', rc.replace('struct RenderConfig', 'pub struct RenderConfig'), flags=re.M)
        rc = re.sub(r'#\[derive\([^\]]*\)\]\n', '', rc)
        i, j, k = rsx.find_item(pix, r'^impl crate::RenderSize for RenderConfig', 0, 'impl RenderSize for RenderConfig')
        rc_impl = pix[i:k]
        rc_impl = sub_once(rc_impl, 'impl crate::RenderSize for RenderConfig {', 'impl RenderSize for RenderConfig {\n    open spec fn w_(&self) -> u32 { self.image_size.w }\n    open spec fn h_(&self) -> u32 { self.image_size.h }', 'impl RenderSize for RenderConfig')
        ec = rsx.get_item(pix, r"^struct EvalConfig<'a>", 0, 'struct EvalConfig')
        if not re.search(r'^    tile_sizes: Option<TileSizes>,', ec, re.M):
            raise ExtractError('struct EvalConfig: field tile_sizes changed')
        i, j, k = rsx.find_fn(pix, 'render', 0, None)
        f_render = build_render(pix[rsx.line_start(pix, i):k], trace)
        # Scratch::new, Worker::new: what establishes the scratch sizes the recursion relies on
        a3, b3 = rsx.impl_block(pix, r'^impl Scratch\b', 'impl Scratch')
        i3, j3, k3 = rsx.find_fn(pix, 'new', a3, b3)
        f_sn = pix[rsx.line_start(pix, i3):k3]
        f_sn, n3 = re.subn(r'vec!\[0\.0; (\w+)\]', r'vec_f32(0.0, \1)', f_sn)
        if n3 < 1:
            raise ExtractError('Scratch::new: R-vecmacro sites changed')
        trace.fire('R-vecmacro', n3)
        a3, b3 = rsx.impl_block(pix, r"^impl<'a, F: Function> RenderWorker<'a, F> for Worker<'a, F>", 'impl RenderWorker for Worker')
        i3, j3, k3 = rsx.find_fn(pix, 'new', a3, b3)
        f_wn = pix[rsx.line_start(pix, i3):k3]
        f_wn = sub_once(f_wn, "cfg: &'a Self::Config,", "cfg: &'a RenderConfig,   // type Config = RenderConfig", 'Worker::new')
        f_wn, n3 = re.subn(r'(\w+)\[\(2, 2\)\] = ([^;]+);', r'\1.set22(\2);   // R-matset', f_wn)
        trace.fire('R-matset', n3)
        f_wn, n3 = re.subn(r'(tile_sizes\.last\(\))\.pow\(2\)', r'pow2(\1)', f_wn)
        trace.fire('R-pow', n3)
        f_wn = f_wn.replace('vec![]', 'Vec::new()')
        f_wn = sub_once(f_wn, ') -> Self {', ") -> Worker<'a, F> {", 'Worker::new')
        i3, j3, k3 = rsx.find_fn(pix, 'render_tile', a3, b3)
        f_rt = pix[rsx.line_start(pix, i3):k3]
        f_rt, n3 = re.subn(r'Image::new\(\(([^()]+)\)\.into\(\)\)', r'Image::new(image_size_from(\1))', f_rt)
        trace.fire('R-into', n3)
        f_rt, n3 = re.subn(r'\bself\.tile_sizes\[0\]', '*self.tile_sizes.index(0)', f_rt)
        trace.fire('R-index', n3)
        f_rt = sub_once(f_rt, 'std::mem::take(&mut self.image)', 'take_image(&mut self.image)   // R-memtake', 'Worker::render_tile')
        f_rt = sub_once(f_rt, ') -> Self::Output {', ') -> Image {', 'Worker::render_tile')
        f_render += '\nimpl Scratch {\n' + f_sn + '\n}\n\n' + "impl<'a, F: Function> Worker<'a, F> {\n" + f_wn + '\n\n' + f_rt + '\n}\n'
        trace.items.append((PIX_RS, 'Worker::render_tile (trait method of RenderWorker, as an inherent function)'))
        trace.items += [(PIX_RS, 'Scratch::new'), (PIX_RS, 'Worker::new (trait method of RenderWorker, as an inherent function: R-traitfn)')]
        trace.items += [(LIB_RS, 'trait RenderSize, impl RenderSize for pixel::RenderSize, struct Image'), (PIX_RS, 'struct RenderConfig, impl RenderSize for RenderConfig, render')]
        asm = open(os.path.join(HERE, 'static_asm.rs')).read().replace('/*@RENDERCONFIG@*/', rc + '\n' + rc_impl)
    except ExtractError as e:
        # the assembly part alone is undecided; the worker part of the unit is unaffected
        for q_ in ('render', 'lemma_suffix_wf', 'lemma_root_off'):
            trace.lost.setdefault(q_, []).append('assembly part not extracted: %s' % e)
        asm, f_render = '', ''
    pre = open(os.path.join(HERE, 'static_pre.rs')).read().replace('/*@IMAGE@*/', image_text)
    voc = open(os.path.join(HERE, 'static_voc.rs')).read()
    text = ('use vstd::prelude::*;\nuse vstd::std_specs::cmp::*;\nuse core::cmp::Ordering;\nverus! {\n' + pre + '\n// ---------- tiles (real text of fidget-raster/src/lib.rs)\n'
            + tile + '\n\nimpl<const N: usize> Tile<N> {\n' + t_new + '\n\n' + t_add + '\n}\n\n' + tsr + "\n\nimpl<'a> TileSizesRef<'a> {\n    pub open spec fn wf(&self) -> bool { sizes_wf(self.0@) }\n"
            + f_index + '\n\n' + f_get + '\n\n' + f_off + '\n}\n\n// ---------- the worker (real text of fidget-raster/src/pixel.rs)\n' + sc + '\n\n' + wk + '\n\n' + voc
            + "\nimpl<F: Function> Worker<'_, F> {\n" + f_rec + '\n\n' + f_pix + '\n}\n' + asm + '\n' + f_render + '\n' + '\n} // verus!\nfn main() {}\n')
    text = text.replace('verus! {\n', 'verus! {\nglobal size_of usize == 8;   // x86_64 / aarch64\n', 1)
    text = place_proofs(text, trace)
    if f_render:
        text = place_render_proofs(text, trace)
    # the call site proof goes after the closing `);` of the recursive call
    m = re.search(r'\n( *)self\.render_tile_recurse\(\n(?:.*\n)*?\1\);\n', text)
    if m and 'Worker::render_tile_recurse' not in trace.lost:
        text = text[:m.end()] + RC_CALL_POST + '\n' + text[m.end():]
    elif 'Worker::render_tile_recurse' not in trace.lost:
        trace.lost.setdefault('Worker::render_tile_recurse', []).append('recursive call site')
    # body proofs of the two outer j loops of render_tile_pixels / the j loop of render_tile_recurse: right after the invariant-carrying header
    inj = Injector(text, trace)
    inj.spec('Worker::render_tile_recurse', None, RECURSE_SPEC)
    inj.spec('Worker::render_tile_pixels', None, PIXELS_SPEC)
    inj.spec('GenericImage::width', 'r: usize', '\n        ensures r == self.size.w_()\n')
    inj.spec('GenericImage::height', 'r: usize', '\n        ensures r == self.size.h_()\n')
    inj.spec('GenericImage::decode_position', 'r: usize', '\n        requires pos.0 < self.size.h_(), pos.1 < self.size.w_(), self.size.h_() * self.size.w_() <= usize::MAX   // the two assertions of the function\n        ensures r == pos.0 * self.size.w_() + pos.1\n')
    inj.proof('GenericImage::decode_position', 're:assert!\\(col < self\\.width\\(\\)\\);', '        proof { assert(row * self.size.w_() + col < self.size.h_() * self.size.w_()) by (nonlinear_arith) requires row < self.size.h_(), col < self.size.w_(); }')
    if f_render and 'impl Scratch' in f_render:
        inj.spec('Scratch::new', 'r: Self', '\n        ensures r.x@.len() == size, r.y@.len() == size, r.z@.len() == size\n')
        inj.spec('Worker::new', "r: Worker<'a, F>", '\n        requires tile_sizes.wf()\n        // what render_tile_recurse / render_tile_pixels require of the scratch arrays\n        ensures r.tile_sizes == tile_sizes, r.z == cfg.z, r.pixel_perfect == cfg.pixel_perfect,\n            r.scratch.x@.len() == tile_sizes.0@[tile_sizes.0@.len() - 1] * tile_sizes.0@[tile_sizes.0@.len() - 1], r.scratch.y@.len() == r.scratch.x@.len(), r.scratch.z@.len() == r.scratch.x@.len()\n')
        inj.proof('Worker::new', '$START', '''        proof {
            let l_ = tile_sizes.0@.len() - 1;
            lemma_sizes_desc(tile_sizes.0@, 0, l_);
            let n_ = tile_sizes.0@[l_] as int; let t_ = tile_sizes.0@[0] as int;
            assert(n_ * n_ <= 16777216) by (nonlinear_arith) requires 0 <= n_ <= t_, t_ * t_ <= 16777216;
        }''')
    if f_render and 'fn render_tile(' in f_render:
        inj.spec('Worker::render_tile', 'r: Image', '''
        requires old(self).tile_sizes.wf(), !fnan(old(self).z),
            old(self).scratch.x@.len() == old(self).tile_sizes.0@[old(self).tile_sizes.0@.len() - 1] * old(self).tile_sizes.0@[old(self).tile_sizes.0@.len() - 1],
            old(self).scratch.y@.len() == old(self).scratch.x@.len(), old(self).scratch.z@.len() == old(self).scratch.x@.len(),
            tile.corner.x % old(self).tile_sizes.0@[0] == 0, tile.corner.y % old(self).tile_sizes.0@[0] == 0,
            tile.corner.x + old(self).tile_sizes.0@[0] <= 16777216, tile.corner.y + old(self).tile_sizes.0@[0] <= 16777216,
        // exactly what the stand-in of render_tiles promises per root tile
        ensures final(shape).f() == old(shape).f(), r.data@.len() == t0(old(self)) * t0(old(self)),
            tile_ok(old(self).pixel_perfect, old(shape).f(), r.data@, t0(old(self)), tile.corner.x as int, tile.corner.y as int, t0(old(self)), old(self).z)
''')
        inj.proof('Worker::render_tile', '$START', '''        proof {
            let t_ = self.tile_sizes.0@[0] as int;
            assert(t_ <= 16777216) by (nonlinear_arith) requires t_ >= 1, t_ * t_ <= 16777216;
        }''')
    inj.spec('GenericImage::new', 'r: Self', '\n        requires size.w_() * size.h_() <= usize::MAX\n        ensures r.size == size, r.data@.len() == size.w_() * size.h_()\n')
    inj.spec('Tile::new', 'r: Tile<N>', '\n        ensures r.corner == corner\n')
    inj.spec('Tile::add', 'r: Point2<usize>', '\n        requires self.corner.x + pos.x <= usize::MAX, self.corner.y + pos.y <= usize::MAX\n        ensures r.x == self.corner.x + pos.x, r.y == self.corner.y + pos.y\n')
    inj.spec('TileSizesRef::index', 'r: &usize', '\n        requires i < self.0@.len()\n        ensures *r == self.0@[i as int]\n')
    inj.spec('TileSizesRef::get', 'r: Option<usize>', '\n        ensures i < self.0@.len() ==> r == Some(self.0@[i as int]), i >= self.0@.len() ==> r is None\n')
    inj.spec('TileSizesRef::pixel_offset', 'r: usize', '\n        requires self.0@.len() >= 1, self.0@[0] >= 1, self.0@[0] * self.0@[0] <= usize::MAX\n        ensures r == (pos.x % self.0@[0]) + (pos.y % self.0@[0]) * self.0@[0]\n')
    inj.proof('TileSizesRef::pixel_offset', 're:let y = pos\\.y % [^;]*;',
              '        proof { assert(y * self.0@[0] <= (self.0@[0] - 1) * self.0@[0]) by (nonlinear_arith) requires 0 <= y < self.0@[0]; assert((self.0@[0] - 1) * self.0@[0] + self.0@[0] == self.0@[0] * self.0@[0]) by (nonlinear_arith); }')
    obls = [Obligation('raster::Worker::render_tile_recurse', 'raster', 'Worker::render_tile_recurse', props=PROPS),
            Obligation('raster::Worker::render_tile_pixels', 'raster', 'Worker::render_tile_pixels', props=PROPS)]
    for f in ('Tile::new', 'Tile::add', 'TileSizesRef::index', 'TileSizesRef::get', 'TileSizesRef::pixel_offset'):
        obls.append(Obligation('raster::' + f, 'raster', f, props=PROPS))
    obls.append(Obligation('raster::render', 'raster', 'render', props=PROPS, note='assembly of the root tiles into the image; render_tiles is a stand-in'))
    if f_render and 'impl Scratch' in f_render:
        for f in ('Scratch::new', 'Worker::new'):
            obls.append(Obligation('raster::' + f, 'raster', f, props=PROPS, note='establishes the scratch sizes the tile recursion requires'))
        obls.append(Obligation('raster::Worker::render_tile', 'raster', 'Worker::render_tile', props=PROPS, note='one root tile: fresh tile image, recursion at depth 0'))
    for f in ('GenericImage::width', 'GenericImage::height', 'GenericImage::decode_position', 'GenericImage::new'):
        obls.append(Obligation('raster::' + f.replace('GenericImage', 'Image'), 'raster', f, props=PROPS))
    for l in ('lemma_suffix_wf', 'lemma_root_off'):
        obls.append(Obligation('raster::' + l, 'raster', l, props=PROPS, kind='lemma'))
    obls.append(Obligation('raster::fill_range', 'raster', 'fill_range', props=PROPS, kind='lemma', note='model of `image[s..][..n].fill(v)`'))
    for l in ('lemma_sizes_desc', 'lemma_mod_shift', 'lemma_loc_bound', 'lemma_loc_inj', 'lemma_divmod_idx', 'lemma_off_bound', 'lemma_off', 'lemma_off_inj'):
        obls.append(Obligation('raster::' + l, 'raster', l, props=PROPS, kind='lemma'))
    return {'texts': {'base': inj.s}, 'obligations': obls, 'canary_fns': ['Worker::render_tile_recurse', 'Worker::render_tile_pixels', 'TileSizesRef::pixel_offset', 'render']}
