// ---------- whole-image assembly (real text of pixel.rs `render`)
#[verifier::external_body]
#[verifier::accept_recursive_types(F)]
pub struct Shape<F: Function> { _p: core::marker::PhantomData<F> }
impl<F: Function> Shape<F> {
    pub uninterp spec fn f(&self) -> Fn_;
}
impl<F: Function> Clone for Shape<F> {
    #[verifier::external_body]
    fn clone(&self) -> (r: Self) ensures r.f() == self.f() { unimplemented!() }
}
#[verifier::external_body]
#[verifier::accept_recursive_types(F)]
#[verifier::accept_recursive_types(D)]
pub struct BoundShape<F: Function, D> { _p: core::marker::PhantomData<(F, D)> }
impl<F: Function, D> BoundShape<F, D> {
    pub uninterp spec fn sh(&self) -> Shape<F>;
    #[verifier::external_body]
    pub fn shape(&self) -> (r: &Shape<F>) ensures *r == self.sh() { unimplemented!() }
    #[verifier::external_body]
    pub fn vars(&self) -> (r: &ShapeVars<D>) { unimplemented!() }
}
pub struct TileSizes(pub Vec<usize>);
pub trait RenderHints {
    /// TileSizes::new accepts only lists that satisfy sizes_wf's ordering clauses; the bound on the root tile is the unit's assumption
    fn tile_sizes_2d() -> (r: TileSizes) ensures sizes_wf(r.0@);
}
#[verifier::external_body]
#[verifier::accept_recursive_types(T)]
pub struct Matrix3<T> { _p: core::marker::PhantomData<T> }
#[verifier::external_body]
pub struct ThreadPoolRef { _p: u8 }
#[verifier::external_body]
pub struct CancelToken { _p: u8 }
/*@RENDERCONFIG@*/
pub struct EvalConfig {
    pub tile_sizes: Option<TileSizes>,
    pub threads: Option<ThreadPoolRef>,
    pub cancel: CancelToken,
}
/// a suffix of a well-formed tile-size list
pub open spec fn is_suffix(s: Seq<usize>, full: Seq<usize>) -> bool { exists|k: int| 0 <= k < full.len() && s == full.subrange(k, full.len() as int) }
impl<'a> TileSizesRef<'a> {
    /// stand-in for TileSizesRef::new (iterator `position`): the sizes from the last one that is not smaller than the image on
    #[verifier::external_body]
    pub fn new(tiles: &'a TileSizes, max_size: usize) -> (r: TileSizesRef<'a>) ensures is_suffix(r.0@, tiles.0@) { unimplemented!() }
}
pub open spec fn covers(tiles: Seq<(Tile<2>, Image)>, t: int, x: int, y: int) -> bool {
    exists|k: int| 0 <= k < tiles.len() && (#[trigger] tiles[k]).0.corner.x == x - x % t && tiles[k].0.corner.y == y - y % t
}
/// ASSUMED (rayon workers, not under contract; exercised by bounded render2d): one entry per root tile of the image, each the output
/// of Worker::render_tile for that tile - i.e. satisfying the postcondition proved for render_tile_recurse at depth 0
#[verifier::external_body]
pub fn render_tiles<'a, F: Function>(shape: Shape<F>, vars: &'a ShapeVars<f32>, render_config: &'a RenderConfig, eval_config: &'a EvalConfig, tile_sizes: TileSizesRef<'a>) -> (r: Option<Vec<(Tile<2>, Image)>>)
    ensures r is Some ==> {
        let t = tile_sizes.0@[0] as int;
        &&& forall|k: int| 0 <= k < r->Some_0@.len() ==> {
                let e = #[trigger] r->Some_0@[k];
                e.0.corner.x % (t as usize) == 0 && e.0.corner.y % (t as usize) == 0 && e.1.data@.len() == t * t && e.0.corner.x < render_config.image_size.w && e.0.corner.y < render_config.image_size.h
                && tile_ok(render_config.pixel_perfect, shape.f(), e.1.data@, t, e.0.corner.x as int, e.0.corner.y as int, t, render_config.z) }
        &&& forall|x: int, y: int| 0 <= x < render_config.image_size.w && 0 <= y < render_config.image_size.h ==> covers(r->Some_0@, t, x, y)
    }
{ unimplemented!() }


pub proof fn lemma_suffix_wf(s: Seq<usize>, full: Seq<usize>)
    requires sizes_wf(full), is_suffix(s, full)
    ensures sizes_wf(s)
{
    let k = choose|k: int| 0 <= k < full.len() && s == full.subrange(k, full.len() as int);
    assert forall|i: int| 0 <= i < s.len() implies #[trigger] s[i] >= 1 by { assert(s[i] == full[k + i]); }
    assert forall|i: int| 0 <= i < s.len() - 1 implies #[trigger] step_ok(s, i) by { assert(step_ok(full, k + i)); assert(s[i] == full[k + i]); assert(s[i + 1] == full[k + i + 1]); }
    lemma_sizes_desc(full, 0, k);
    assert(s[0] == full[k]);
    assert(s[0] * s[0] <= full[0] * full[0]) by (nonlinear_arith) requires 0 <= s[0] <= full[0];
}
/// a pixel of the root tile with corner (cx, cy), both multiples of t: its index in the tile image is off(t, x, y) = (x - cx) + (y - cy) * t
pub proof fn lemma_root_off(t: int, cx: int, cy: int, i: int, j: int)
    requires t > 0, cx >= 0, cy >= 0, cx % t == 0, cy % t == 0, 0 <= i < t, 0 <= j < t
    ensures off(t, cx + i, cy + j) == i + j * t, (cx + i) - (cx + i) % t == cx, (cy + j) - (cy + j) % t == cy
{
    lemma_mod_shift(cx, i, t);
    lemma_mod_shift(cy, j, t);
}
/// row-major index of pixel (x, y) in an image of width w
pub open spec fn pidx(w: int, x: int, y: int) -> int { y * w + x }
pub open spec fn covered(tiles: Seq<(Tile<2>, Image)>, n: int, t: int, x: int, y: int) -> bool {
    exists|k: int| 0 <= k < n && (#[trigger] tiles[k]).0.corner.x == x - x % t && tiles[k].0.corner.y == y - y % t
}
// ---------- Worker::new / Scratch::new
/// nalgebra: the 3x3 screen-to-model matrix widened to 4x4 with z preserved (not under contract: the matrix is only handed on to the evaluators)
#[verifier::external_body]
pub struct Matrix4x3 { _p: u8 }
impl Matrix3<f32> { #[verifier::external_body] pub fn insert_row(self, i: usize, v: f32) -> Matrix4x3 { unimplemented!() } }
impl Matrix4x3 { #[verifier::external_body] pub fn insert_column(self, i: usize, v: f32) -> Matrix4<f32> { unimplemented!() } }
impl Matrix4<f32> { /** R-matset: `m[(2, 2)] = v` */ #[verifier::external_body] pub fn set22(&mut self, v: f32) { unimplemented!() } }
impl RenderConfig { #[verifier::external_body] pub fn mat(&self) -> Matrix3<f32> { unimplemented!() } }
impl<'a> TileSizesRef<'a> {
    /// TileSizesRef::last (proved in unit tiles)
    #[verifier::external_body]
    pub fn last(&self) -> (r: usize) requires self.0@.len() >= 1 ensures r == self.0@[self.0@.len() - 1] { unimplemented!() }
}
/// R-into: `(t as u32).into()` (From<u32> for ImageSize: a square image)
pub fn image_size_from(v: u32) -> (r: ImageSize) ensures r.w == v, r.h == v { ImageSize { w: v, h: v } }
/// R-memtake: `std::mem::take(&mut self.image)`
#[verifier::external_body]
pub fn take_image(img: &mut Image) -> (r: Image) ensures r == *old(img) { unimplemented!() }
/// R-vecmacro: `vec![v; n]`
#[verifier::external_body]
pub fn vec_f32(v: f32, n: usize) -> (r: Vec<f32>) ensures r@.len() == n { vec![v; n] }
/// R-pow: `n.pow(2)`
pub fn pow2(n: usize) -> (r: usize) requires n * n <= usize::MAX ensures r == n * n { n * n }
impl Default for Image { #[verifier::external_body] fn default() -> Self { unimplemented!() } }
pub fn max_u32(a: u32, b: u32) -> (r: u32) ensures r == (if a >= b { a } else { b }) { if a >= b { a } else { b } }
