"""Unit `lru`: fidget-core/src/compiler/lru.rs — every function of `Lru<N>` against the sequence
view (newest -> oldest).  No assumption is left in this unit.

The real text of `struct LruNode`, `struct Lru` and `impl<const N: usize> Lru<N>` is cut out of the
current source; contracts and proof blocks are injected at anchors (source lines)."""
import re
from lib import rsx
from lib.verus_engine import Injector, Obligation

SRC = 'fidget-core/src/compiler/lru.rs'
PROPS = ['C01', 'C04', 'C10']

SPEC_ITEMS = r'''
// ---- spec: sequence view of the LRU list --------------------------------------------------
impl<const N: usize> Lru<N> {
    /// `o` lists nodes from newest (index 0 = head) to oldest (index N-1)
    spec fn wf_with(&self, o: Seq<u8>) -> bool {
        &&& 1 <= N <= 255
        &&& o.len() == N
        &&& o[0] == self.head
        &&& forall|k: int| 0 <= k < N ==> (#[trigger] o[k] as int) < N
        &&& forall|j: int, k: int| 0 <= j < k < N ==> o[j] != o[k]
        &&& forall|v: u8| (v as int) < N ==> #[trigger] o.contains(v)
        &&& forall|k: int| 0 <= k < N - 1 ==> self.data[#[trigger] o[k] as int].next == o[k + 1]
        &&& self.data[o[N - 1] as int].next == o[0]
        &&& forall|k: int| 1 <= k < N ==> self.data[#[trigger] o[k] as int].prev == o[k - 1]
        &&& self.data[o[0] as int].prev == o[N - 1]
    }
    spec fn wf(&self) -> bool { exists|o: Seq<u8>| self.wf_with(o) }
    spec fn order(&self) -> Seq<u8> { choose|o: Seq<u8>| self.wf_with(o) }

    proof fn lemma_unique(&self, o1: Seq<u8>, o2: Seq<u8>)
        requires self.wf_with(o1), self.wf_with(o2)
        ensures o1 == o2
    {
        assert forall|k: int| 0 <= k < N implies o1[k] == o2[k] by {
            Self::lemma_unique_ind(*self, o1, o2, k);
        }
        assert(o1 =~= o2);
    }
    proof fn lemma_unique_ind(s: Self, o1: Seq<u8>, o2: Seq<u8>, k: int)
        requires s.wf_with(o1), s.wf_with(o2), 0 <= k < N
        ensures o1[k] == o2[k]
        decreases k
    {
        if k > 0 { Self::lemma_unique_ind(s, o1, o2, k - 1); }
    }
    proof fn lemma_order(&self, o: Seq<u8>)
        requires self.wf_with(o)
        ensures self.wf(), self.order() == o
    {
        self.lemma_unique(o, self.order());
    }
    /// facts about `order()` that callers use without looking inside `wf_with`
    proof fn lemma_order_props(&self)
        requires self.wf()
        ensures
            self.order().len() == N, 1 <= N <= 255,
            self.order()[0] == self.head,
            forall|k: int| 0 <= k < N ==> (#[trigger] self.order()[k] as int) < N,
            forall|j: int, k: int| 0 <= j < k < N ==> self.order()[j] != self.order()[k],
            forall|v: u8| (v as int) < N ==> #[trigger] self.order().contains(v),
    {
    }

    /// link structure after `remove(i); insert_before(i, head)` for a node in the middle of the order
    spec fn mid_done(d: Seq<LruNode>, o: Seq<u8>, i: u8, idx: int) -> bool {
        &&& forall|k: int| 0 <= k < N && k != idx && k != idx - 1 && k != N - 1 ==> d[#[trigger] o[k] as int].next == o[k + 1]
        &&& d[o[idx - 1] as int].next == o[idx + 1]
        &&& d[o[N - 1] as int].next == i
        &&& d[i as int].next == o[0]
        &&& forall|k: int| 1 <= k < N && k != idx && k != idx + 1 ==> d[#[trigger] o[k] as int].prev == o[k - 1]
        &&& d[o[idx + 1] as int].prev == o[idx - 1]
        &&& d[o[0] as int].prev == i
        &&& d[i as int].prev == o[N - 1]
    }
    proof fn lemma_poke_last(s0: Self, s1: Self, o: Seq<u8>, i: u8)
        requires s0.wf_with(o), o[N as int - 1] == i, s1.head == i, s1.data@ == s0.data@, N >= 2,
        ensures s1.wf(), s1.order() == poke_order(o, i)
    {
        let no = poke_order(o, i);
        assert(o.contains(i)) by { assert(o[N as int - 1] == i); }
        assert(o.index_of(i) == N as int - 1);
        lemma_poke_order_contains(o, i);
        assert forall|k: int| 1 <= k < N implies #[trigger] no[k] == o[k - 1] by {}
        assert(s1.wf_with(no));
        s1.lemma_order(no);
    }

    proof fn lemma_poke_mid(s0: Self, s1: Self, o: Seq<u8>, i: u8, idx: int)
        requires s0.wf_with(o), 0 < idx < N - 1, o[idx] == i,
            s1.head == s0.head,
            s1.data@ == s0.data@
                .update(o[idx - 1] as int, LruNode { prev: s0.data[o[idx-1] as int].prev, next: o[idx + 1] })
                .update(o[idx + 1] as int, LruNode { prev: o[idx - 1], next: s0.data[o[idx+1] as int].next })
                .update(o[N - 1] as int, LruNode { prev: if idx + 1 == N - 1 { o[idx - 1] } else { o[N - 2] }, next: i })
                .update(o[0] as int, LruNode { prev: i, next: if idx == 1 { o[2] } else { o[1] } })
                .update(i as int, LruNode { next: o[0], prev: o[N - 1] }),
        ensures Self::mid_done(s1.data@, o, i, idx),
    {
        let n = N as int;
        let a = o[idx - 1] as int; let b = o[idx + 1] as int; let l = o[n - 1] as int; let h = o[0] as int; let ii = i as int;
        assert(a != ii && b != ii && l != ii && h != ii);
        assert(a != b);
        assert(a != l);
        assert(b != h);
        assert(l != h);
        assert((a == h) == (idx == 1));
        assert((b == l) == (idx + 1 == n - 1));
        let d0 = s0.data@;
        let d1 = d0.update(a, LruNode { prev: s0.data[a].prev, next: o[idx + 1] });
        let d2 = d1.update(b, LruNode { prev: o[idx - 1], next: s0.data[b].next });
        let d3 = d2.update(l, LruNode { prev: if idx + 1 == n - 1 { o[idx - 1] } else { o[n - 2] }, next: i });
        let d4 = d3.update(h, LruNode { prev: i, next: if idx == 1 { o[2] } else { o[1] } });
        let d5 = d4.update(ii, LruNode { next: o[0], prev: o[n - 1] });
        assert(s1.data@ == d5);
        assert forall|k: int| 0 <= k < n && k != idx && k != idx - 1 && k != n - 1 implies s1.data[#[trigger] o[k] as int].next == o[k + 1] by {
            let x = o[k] as int;
            assert(x != ii); assert(x != a); assert(x != l);
            if k == 0 { assert(x == h); if idx == 1 { assert(false); } }
            else if k == idx + 1 { assert(x == b); assert(x != h); assert(d5[x] == d2[x]); }
            else { assert(x != b); assert(x != h); assert(d5[x] == d0[x]); }
        }
        assert forall|k: int| 1 <= k < n && k != idx && k != idx + 1 implies s1.data[#[trigger] o[k] as int].prev == o[k - 1] by {
            let x = o[k] as int;
            assert(x != ii); assert(x != b); assert(x != h);
            if k == n - 1 { assert(x == l); }
            else if k == idx - 1 { assert(x == a); assert(x != l); assert(d5[x] == d1[x]); }
            else { assert(x != a); assert(x != l); assert(d5[x] == d0[x]); }
        }
    }

    proof fn lemma_poke_fin(s0: Self, s1: Self, o: Seq<u8>, i: u8, idx: int)
        requires s0.wf_with(o), 0 < idx < N - 1, o[idx] == i, s1.head == i, Self::mid_done(s1.data@, o, i, idx),
        ensures s1.wf(), s1.order() == poke_order(o, i)
    {
        let no = poke_order(o, i);
        assert(o.index_of(i) == idx);
        assert(o.contains(i));
        lemma_poke_order_contains(o, i);
        assert(s1.wf_with(no));
        s1.lemma_order(no);
    }
}

proof fn lemma_poke_order_contains(o: Seq<u8>, i: u8)
    requires o.contains(i)
    ensures forall|v: u8| o.contains(v) ==> #[trigger] poke_order(o, i).contains(v)
{
    let idx = o.index_of(i);
    let no = poke_order(o, i);
    assert forall|v: u8| o.contains(v) implies #[trigger] no.contains(v) by {
        let k = choose|k: int| 0 <= k < o.len() && o[k] == v;
        if v == i { assert(no[0] == v); }
        else if k < idx { assert(no[k + 1] == v); }
        else { assert(k != idx); assert(no[k] == v); }
    }
}
/// the order after marking `i` newest: `i` first, the others keep their relative order
spec fn poke_order(o: Seq<u8>, i: u8) -> Seq<u8> {
    let idx = o.index_of(i);
    Seq::new(o.len(), |k: int| if k == 0 { i } else if k - 1 < idx { o[k - 1] } else { o[k] })
}

proof fn lemma_perm_contains<const N: usize>(s: Lru<N>, o: Seq<u8>, i: u8)
    requires s.wf_with(o), (i as int) < N
    ensures o.contains(i)
{}
'''

SPECS = {
 'Lru::new': ('out: Self', """
        requires 1 <= N <= 255
        ensures out.wf(), out.order() == Seq::new(N as nat, |k: int| k as u8)
"""),
 'Lru::pop': ('out: u8', """
        requires old(self).wf(),
        ensures
            final(self).wf(),
            out == old(self).order()[N as int - 1],
            final(self).order() == seq![out] + old(self).order().subrange(0, N as int - 1),
"""),
 'Lru::remove': (None, """
        requires (i as int) < N,
            (old(self).data[i as int].prev as int) < N,
            (old(self).data[i as int].next as int) < N,
        ensures
            final(self).head == old(self).head,
            final(self).data@ == old(self).data@
                .update(old(self).data[i as int].prev as int, LruNode { prev: old(self).data[old(self).data[i as int].prev as int].prev, next: old(self).data[i as int].next })
                .update(old(self).data[i as int].next as int, LruNode {
                      prev: old(self).data[i as int].prev,
                      next: if old(self).data[i as int].next == old(self).data[i as int].prev { old(self).data[i as int].next } else { old(self).data[old(self).data[i as int].next as int].next } })
"""),
 'Lru::insert_before': (None, """
        requires (i as int) < N, (next as int) < N,
            (old(self).data[next as int].prev as int) < N,
        ensures
            final(self).head == old(self).head,
            final(self).data@ == old(self).data@
                .update(old(self).data[next as int].prev as int, LruNode { prev: old(self).data[old(self).data[next as int].prev as int].prev, next: i })
                .update(next as int, LruNode { prev: i, next: if old(self).data[next as int].prev == next { i } else { old(self).data[next as int].next } })
                .update(i as int, LruNode { next, prev: old(self).data[next as int].prev }),
"""),
 'Lru::poke': (None, """
        requires old(self).wf(), (i as int) < N,
        ensures
            final(self).wf(),
            final(self).order() == poke_order(old(self).order(), i),
"""),
}

# (function, anchor, occurrence, before?, proof text)
PROOFS = [
 ('Lru::new', '        out\n', 0, True, """        proof {
            let o = Seq::new(N as nat, |k: int| k as u8);
            assert forall|v: u8| (v as int) < N implies #[trigger] o.contains(v) by { assert(o[v as int] == v); }
            assert forall|k: int| 0 <= k < N - 1 implies out.data[#[trigger] o[k] as int].next == o[k + 1] by {
                vstd::arithmetic::div_mod::lemma_small_mod((k + 1) as nat, N as nat);
            }
            assert(out.data[o[N as int - 1] as int].next == o[0]) by {
                vstd::arithmetic::div_mod::lemma_mod_self_0(N as int);
            }
            assert(out.wf_with(o));
            out.lemma_order(o);
        }"""),
 ('Lru::pop', '$START', 0, False, "        let ghost o = self.order();"),
 ('Lru::pop', 'self.head = out;', 0, False, """        proof {
            let n = N as int;
            let no = seq![out] + o.subrange(0, n - 1);
            assert forall|v: u8| (v as int) < N implies #[trigger] no.contains(v) by {
                assert(o.contains(v));
                let k = choose|k: int| 0 <= k < o.len() && o[k] == v;
                if k == n - 1 { assert(no[0] == v); } else { assert(no[k + 1] == v); }
            }
            assert(self.wf_with(no));
            self.lemma_order(no);
        }"""),
 ('Lru::poke', '$START', 0, False, """        let ghost o = self.order();
        let ghost idx = o.index_of(i);
        proof {
            lemma_perm_contains::<N>(*self, o, i);
            assert(o.contains(i));
            assert(0 <= idx < N && o[idx] == i);
        }"""),
 ('Lru::poke', 'return;', 0, True, """            proof {
                assert(idx == 0);
                assert(poke_order(o, i) =~= o);
            }"""),
 ('Lru::poke', 'self.remove(i);', 0, True, """            proof {
                assert(0 < idx < N - 1);
                assert(self.data[i as int].prev == o[idx - 1]);
                assert(self.data[i as int].next == o[idx + 1]);
                assert(o[idx - 1] != o[idx + 1]);
            }"""),
 ('Lru::poke', 'self.remove(i);', 0, False, """            let ghost sa = *self;
            proof {
                assert(o[0] != o[idx + 1]);
                assert(o[0] != o[N as int - 1]);
                assert(sa.data[o[0] as int].prev == o[N as int - 1]);
                assert(sa.data[o[N as int - 1] as int].prev == if idx + 1 == N as int - 1 { o[idx - 1] } else { o[N as int - 2] });
                assert(sa.data[o[0] as int].next == if idx == 1 { o[2] } else { o[1] });
            }"""),
 ('Lru::poke', 'self.insert_before(i, self.head);', 0, False,
  "            proof { Self::lemma_poke_mid(*old(self), *self, o, i, idx); }"),
 ('Lru::poke', 'self.head = i;', 0, False, """        proof {
            if old(self).data[old(self).head as int].prev != i {
                assert(0 < idx < N - 1);
                Self::lemma_poke_fin(*old(self), *self, o, i, idx);
            } else {
                assert(idx == N - 1);
                assert(N >= 2);
                Self::lemma_poke_last(*old(self), *self, o, i);
            }
        }"""),
]

LOOPS = [
 ('Lru::new', 'for i in 0..N', """            invariant out.head == 0, 1 <= N <= 255,
                forall|k: int| 0 <= k < i ==> (#[trigger] out.data[k]).next == ((k + 1) % (N as int)) as u8
                    && out.data[k].prev == (if k == 0 { N as int - 1 } else { k - 1 }) as u8,"""),
]

FUNCS = ['Lru::new', 'Lru::pop', 'Lru::remove', 'Lru::insert_before', 'Lru::poke']
LEMMAS = ['Lru::lemma_unique', 'Lru::lemma_unique_ind', 'Lru::lemma_order', 'Lru::lemma_order_props', 'Lru::lemma_poke_last',
          'Lru::lemma_poke_mid', 'Lru::lemma_poke_fin', 'lemma_poke_order_contains', 'lemma_perm_contains']


def extract(repo, trace):
    """Real text of lru.rs items (cleaned), not yet annotated."""
    src = open('%s/%s' % (repo, SRC)).read()
    src = rsx.clean(src, trace)
    parts = []
    for hdr, what in ((r'^struct LruNode\b', 'struct LruNode'), (r'^struct Lru<', 'struct Lru'),
                      (r'^impl<const N: usize> Lru<N>', 'impl Lru<N>')):
        parts.append(rsx.get_item(src, hdr, 0, what))
        trace.items.append((SRC, what))
    # anything else in the file that is not one of the three items (must be nothing but `use`/blank)
    rest = src
    for p in parts:
        rest = rest.replace(p, '')
    rest = '\n'.join(l for l in rest.split('\n') if l.strip() and not l.strip().startswith('use '))
    if rest.strip():
        raise rsx.ExtractError('lru.rs has items the lru unit does not know: %r' % rest.strip()[:200])
    return '\n\n'.join(parts) + '\n'


def annotate(inj):
    for qual, (ret, text) in SPECS.items():
        inj.spec(qual, ret, text)
    for qual, anchor, occ, before, proof in PROOFS:
        inj.proof(qual, anchor, proof, occ=occ, before=before)
    for qual, anchor, inv in LOOPS:
        inj.loop_inv(qual, anchor, inv)


def build(repo, trace):
    body = extract(repo, trace)
    text = 'use vstd::prelude::*;\nverus! {\n' + body + '\n} // verus!\nfn main() {}\n'
    inj = Injector(text, trace)
    annotate(inj)
    inj.append_items(SPEC_ITEMS)
    obls = [Obligation('lru::' + f, 'lru', f, props=PROPS) for f in FUNCS]
    obls += [Obligation('lru::' + f, 'lru', f, props=PROPS, kind='lemma') for f in LEMMAS]
    return {'texts': {'base': inj.s}, 'obligations': obls, 'canary_fns': FUNCS}
