"""Unit `flatten` (leg of C01): the per-node translation of `SsaTape::new` (fidget-core/src/compiler/ssa_tape.rs) - the block
`let op = match op { Op::Input(..) => .., Op::Const(..) => .., Op::Binary(op, lhs, rhs) => { <table>; <operand-form match> }, Op::Unary(op, lhs) => { <table> } };`
taken out of the second loop of the function as a function of its own (R-block), on its real text.

What is proved: for every graph node kind, every opcode and every assignment of slots to its operands, the emitted SSA clause
  * writes the node's own slot (`out`),
  * has, as its REFERENCE meaning (the opcode-documentation table of unit `vm`: P_UN / P_BIN, against which the four interpreters are
    proved), exactly the graph meaning of the node (`un_sem` / `bin_sem`: what `UnaryOpcode::eval` / `BinaryOpcode::eval` compute, proved in
    unit `context`) applied to the values of its operands - a register operand read from its slot, a constant operand as the immediate, in
    the RIGHT ORDER (`SubImmReg(out, arg, imm)` for `imm - arg`, the commutative opcodes reusing their RegImm form),
  * is a choice clause exactly for min / max / and / or (what `choice_count` counts),
  * an input node reads the variable's index in the variable map.
No panic under the stated preconditions: not both operands constant, and/or never with a constant on the left (both are what the
constructors of `Context` establish: constant folding, and/or collapse - unit `context`), the operand of a unary node is not a constant,
variable indices fit in u32.

Also proved: the loop over the roots that emits the output clauses (second block: `outputs`): root k gives Output(its register, k), a
constant root a fresh slot with Output + CopyImm, in root order.

NOT proved (bounded contract `flatten` only): the graph walk of SsaTape::new around these blocks - the DFS that assigns slots and counts
parents, the parent-count driven topological order.  This unit pins the opcode table and the operand order; the order
of the clauses stays an assumption of C01/C04/C20.

Rewrites: R-block; R-table3 (the tuple of three constructor function pointers / panicking closures selected by opcode, then applied by
operand form, becomes one match on (opcode, form) whose arms are generated from the PARSED real table, so a wrong entry is reproduced in
the verified text); R-table1 (same for the unary table); R-hashindex; R-tryinto."""
import re
from lib import rsx, opcodes
from lib.rsx import ExtractError
from lib.verus_engine import Injector, Obligation
from units.alloc.gen_sem import split_variant
from units.vm import spec as VS
from lib.weave import weave, GMARK, LostAnchor

SRC = 'fidget-core/src/compiler/ssa_tape.rs'
OP_RS = 'fidget-core/src/context/op.rs'
PROPS = ['C01', 'C20']   # C20: the choice counter is advanced exactly for the choice clauses

# graph-side meaning of the opcodes: the same vocabulary as units context / vm (tags of the uninterpreted f32 library functions)
G_UN = dict(VS.P_UN)
G_BIN = dict(VS.P_BIN)


def parse_enum(src, name):
    en = rsx.get_item(src, r'^enum %s\b' % name, 0, 'enum ' + name)
    body = en[en.index('{') + 1:en.rindex('}')]
    return [v.strip() for v in rsx.split_top(body) if v.strip()]


def build(repo, trace):
    trace.lost = {}
    src = rsx.clean(open('%s/%s' % (repo, SRC)).read(), trace)
    ops = rsx.clean(open('%s/%s' % (repo, OP_RS)).read(), trace)
    enums = opcodes.parse(repo, trace)
    un_names = parse_enum(ops, 'UnaryOpcode')
    bin_names = parse_enum(ops, 'BinaryOpcode')
    i, j, k = rsx.find_fn(src, 'new', 0, None)
    body = src[j:k]
    # ---- the block
    m0 = re.search(r'\n( *)let op = match op \{\n', body)
    if not m0:
        raise ExtractError('SsaTape::new: the translation block `let op = match op {` not found')
    ob = body.index('{', m0.start() + 1 + len(m0.group(1)) + len('let op = match op '))
    cb = rsx.match_brace(body, ob)
    block = body[m0.start() + 1:cb + 1]      # `let op = match op { ... }`
    if not body[cb + 1:].lstrip().startswith(';'):
        raise ExtractError('SsaTape::new: end of the translation block changed')
    # ---- binary table
    mt = re.search(r'let f: \(RegFn, ImmFn, ImmFn\) = match op \{', block)
    if not mt:
        raise ExtractError('SsaTape::new: binary table changed')
    tb0 = block.index('{', mt.start())
    tb1 = rsx.match_brace(block, tb0)
    table = {}
    for arm in rsx.split_top(block[tb0 + 1:tb1]):
        arm = arm.strip()
        if not arm:
            continue
        ma = re.match(r'BinaryOpcode::(\w+)\s*=>\s*\((.*)\)\s*$', arm, re.S)
        if not ma:
            raise ExtractError('SsaTape::new: binary table arm %r' % arm[:60])
        inner = re.sub(r'\|_out, _lhs, _rhs\| \{\s*panic!\([^)]*\)\s*;?\s*\}', '@PANIC@', ma.group(2))   # a closure whose body is a panic
        ents = [e.strip() for e in rsx.split_top(inner) if e.strip()]
        if len(ents) != 3:
            raise ExtractError('SsaTape::new: binary table arm %s has %d entries' % (ma.group(1), len(ents)))
        row = []
        for e in ents:
            me = re.match(r'^SsaOp::(\w+)$', e)
            if me:
                row.append(me.group(1))
            elif e == '@PANIC@':
                row.append(None)    # a closure that panics
            else:
                raise ExtractError('SsaTape::new: binary table entry %r' % e[:60])
        table[ma.group(1)] = row
    if set(table) != set(bin_names):
        raise ExtractError('SsaTape::new: binary table does not cover BinaryOpcode: %s' % sorted(set(bin_names) ^ set(table)))
    trace.fire('R-table3', len(table))
    # the operand-form match that applies the table
    mf = re.search(r'match \(lhs, rhs\) \{', block)
    if not mf:
        raise ExtractError('SsaTape::new: operand-form match changed')
    f0 = block.index('{', mf.start())
    f1 = rsx.match_brace(block, f0)
    forms = norm(block[f0 + 1:f1])
    want = norm('(Slot::Reg(lhs), Slot::Reg(rhs)) => f.0(i, lhs, rhs), (Slot::Reg(arg), Slot::Immediate(imm)) => { f.1(i, arg, imm) } (Slot::Immediate(imm), Slot::Reg(arg)) => { f.2(i, arg, imm) } (Slot::Immediate(..), Slot::Immediate(..)) => { panic!() }')
    if forms != want:
        raise ExtractError('SsaTape::new: operand-form match changed: R-table3 not applicable')
    arms = []
    for opc in bin_names:
        r = table[opc]
        def ent(e, args):
            return 'SsaOp::%s(%s)' % (e, args) if e else 'panic!()'
        arms.append('                    (BinaryOpcode::%s, Slot::Reg(lhs), Slot::Reg(rhs)) => %s,' % (opc, ent(r[0], 'i, lhs, rhs')))
        arms.append('                    (BinaryOpcode::%s, Slot::Reg(arg), Slot::Immediate(imm)) => %s,' % (opc, ent(r[1], 'i, arg, imm')))
        arms.append('                    (BinaryOpcode::%s, Slot::Immediate(imm), Slot::Reg(arg)) => %s,' % (opc, ent(r[2], 'i, arg, imm')))
    arms.append('                    (_, Slot::Immediate(_), Slot::Immediate(_)) => panic!(),')
    # what stands between the table and the form match (the choice counter) is kept
    mid = block[tb1 + 1:mf.start()]
    mid = mid.lstrip().lstrip(';')
    new_bin = ('let lhs = lhs_slot;   // R-hashindex: mapping[lhs]\n                    let rhs = rhs_slot;   // R-hashindex: mapping[rhs]\n'
               + '                    ' + mid.strip() + '\n                    match (op, lhs, rhs) {   // R-table3\n' + '\n'.join(arms) + '\n                    }')
    mb = re.search(r'Op::Binary\(op, lhs, rhs\) => \{', block)
    if not mb:
        raise ExtractError('SsaTape::new: Binary arm changed')
    b0 = block.index('{', mb.start() + len('Op::Binary(op, lhs, rhs) => ') - 1)
    b1 = rsx.match_brace(block, b0)
    head = block[b0 + 1:mt.start()]
    if norm(head) != norm('let lhs = mapping[lhs]; let rhs = mapping[rhs]; type RegFn = fn(u32, u32, u32) -> SsaOp; type ImmFn = fn(u32, u32, f32) -> SsaOp;'):
        raise ExtractError('SsaTape::new: head of the Binary arm changed')
    block = block[:b0 + 1] + '\n                    ' + new_bin + '\n                ' + block[b1:]
    trace.fire('R-hashindex', 2)
    # ---- unary table
    mu = re.search(r'Op::Unary\(op, lhs\) => \{', block)
    if not mu:
        raise ExtractError('SsaTape::new: Unary arm changed')
    u0 = block.index('{', mu.start() + len('Op::Unary(op, lhs) => ') - 1)
    u1 = rsx.match_brace(block, u0)
    ub = block[u0 + 1:u1]
    mtab = re.search(r'let op = match op \{', ub)
    if not mtab:
        raise ExtractError('SsaTape::new: unary table changed')
    t0 = ub.index('{', mtab.start())
    t1 = rsx.match_brace(ub, t0)
    utable = {}
    for arm in rsx.split_top(ub[t0 + 1:t1]):
        arm = arm.strip()
        if not arm:
            continue
        ma = re.match(r'^UnaryOpcode::(\w+)\s*=>\s*SsaOp::(\w+)$', arm)
        if not ma:
            raise ExtractError('SsaTape::new: unary table arm %r' % arm[:60])
        utable[ma.group(1)] = ma.group(2)
    if set(utable) != set(un_names):
        raise ExtractError('SsaTape::new: unary table does not cover UnaryOpcode')
    # shape of the arm, whatever the locals are called and in whichever order the two slot arms stand:
    #   let <a> = match mapping[lhs] { Slot::Reg(<r>) => <r>, Slot::Immediate(..) => { panic!() } }; let op = match op { table }; op(i, <a>)
    mh = re.match(r'^let(\w+)=matchmapping\[lhs\]\{(.*)\};$', norm(ub[:mtab.start()]))
    ok = False
    if mh:
        inner, n1 = re.subn(r'Slot::Reg\((\w+)\)=>\1,?', '', mh.group(2))
        inner, n2 = re.subn(r'Slot::Immediate\(\.\.\)=>\{panic!\(\)\},?', '', inner)
        ok = n1 == 1 and n2 == 1 and inner == '' and norm(ub[t1 + 1:]) == ';op(i,%s)' % mh.group(1)
    if not ok:
        raise ExtractError('SsaTape::new: Unary arm changed: R-table1 not applicable')
    trace.fire('R-table1', len(utable))
    uarms = '\n'.join('                        UnaryOpcode::%s => SsaOp::%s(i, lhs),' % (o, utable[o]) for o in un_names)
    new_un = ('\n                    let lhs = match lhs_slot {   // R-hashindex: mapping[lhs]\n                        Slot::Reg(r) => r,\n                        Slot::Immediate(..) => {\n                            panic!()\n                        }\n                    };\n'
              '                    match op {   // R-table1\n' + uarms + '\n                    }\n                ')
    block = block[:u0 + 1] + new_un + block[u1:]
    trace.fire('R-hashindex')
    # ---- input arm
    block, n = re.subn(r'let arg = vars\[v\];', 'let arg = var_index;   // R-hashindex: vars[v]', block)
    if n != 1:
        raise ExtractError('SsaTape::new: Input arm changed')
    block, n = re.subn(r'\barg\.try_into\(\)\.unwrap\(\)', 'to_u32(arg)', block)
    trace.fire('R-tryinto', n)
    block = re.sub(r'unreachable!\([^)]*\)', 'unreachable!()', block)
    # choice counter: a local of the enclosing function, here a by-reference parameter
    block = re.sub(r'(?<![\w*])choice_count\b', '*choice_count', block)
    fn = ('fn emit(op: &Op, i: u32, lhs_slot: Slot, rhs_slot: Slot, var_index: usize, choice_count: &mut usize) -> (r: SsaOp)\n{\n    '
          + block.strip().replace('let op = match op {', 'let op_ = match op {', 1) + ';\n    op_\n}')
    fn = fn.replace('Op::Binary(op, lhs, rhs) =>', 'Op::Binary(op, _lhs, _rhs) =>').replace('Op::Unary(op, lhs) =>', 'Op::Unary(op, _lhs) =>')
    trace.fire('R-block')
    trace.items.append((SRC, 'SsaTape::new: the per-node translation block (as the function emit of its own; mapping[..] / vars[..] lookups become parameters)'))
    trace.drop('the rest of SsaTape::new (graph walk, slot assignment, parent counts, output clauses): bounded contract flatten only')
    # ---- the output clauses: the loop over the roots, as a function of its own (R-block)
    outs = ''
    try:
        mo = re.search(r'\n( *)for \(i, r\) in roots\.iter\(\)\.enumerate\(\) \{\n', body)
        if not mo:
            raise ExtractError('SsaTape::new: the loop over the roots changed')
        o0 = body.index('{', mo.start() + 1 + len(mo.group(1)))
        o1 = rsx.match_brace(body, o0)
        loop = body[mo.start() + 1:o1 + 1]
        loop = loop.replace('for (i, r) in roots.iter().enumerate() {', 'for i_ in 0..root_slots.len() {\n' + mo.group(1) + '    let i = i_;   // R-enumerate', 1)
        loop, n = re.subn(r'\bmapping\[r\]', 'root_slots[i_]', loop)
        if n != 1:
            raise ExtractError('SsaTape::new: the lookup of the root slot changed')
        trace.fire('R-enumerate'); trace.fire('R-hashindex')
        real = ('fn outputs(root_slots: &Vec<Slot>, slot_count0: u32) -> (r: (Vec<SsaOp>, u32))\n{\n    let mut slot_count = slot_count0;\n    let mut tape = Vec::new();\n'
                + '\n'.join(l[4:] if l.startswith('        ') else l for l in loop.split('\n')) + '\n    (tape, slot_count)\n}')
        outs, m_, n_ = weave(OUTS_TMPL, real, 'SsaTape::new[output clauses]')
        if m_ != n_:
            trace.fire('weave-unmatched-lines', n_ - m_)
        trace.items.append((SRC, 'SsaTape::new: the loop that emits the output clauses (as the function outputs of its own; the mapping lookups of the roots become a parameter)'))
    except (ExtractError, LostAnchor) as e:
        trace.lost.setdefault('outputs', []).append('not extracted: %s' % e)
        outs = ''
    # ---- specification text
    un_enum = '#[derive(Copy, Clone)]\npub enum UnaryOpcode { ' + ', '.join(un_names) + ' }'
    bin_enum = '#[derive(Copy, Clone)]\npub enum BinaryOpcode { ' + ', '.join(bin_names) + ' }'
    ssa = ['#[derive(Copy, Clone)]\npub enum SsaOp {'] + ['    %s(%s),' % (v, ', '.join(fs)) for v, fs in enums['SsaOp']] + ['}']
    # reference meaning of an SSA clause (value written to its output slot), generated from the variant list and P_UN / P_BIN
    val_arms, out_arms, ch_arms = [], [], []
    for v, fs in enums['SsaOp']:
        base, form = split_variant(v)
        if form == 'special':
            if v == 'Input':
                val_arms.append('        SsaOp::Input(o, k) => inputs(k),')
                out_arms.append('        SsaOp::Input(o, k) => o,')
            elif v == 'CopyImm':
                val_arms.append('        SsaOp::CopyImm(o, c) => c,')
                out_arms.append('        SsaOp::CopyImm(o, c) => o,')
            elif v == 'Output':
                val_arms.append('        SsaOp::Output(a, k) => regs(a),')
                out_arms.append('        SsaOp::Output(a, k) => a,')
            else:
                val_arms.append('        SsaOp::%s(o, a) => regs(a),' % v)
                out_arms.append('        SsaOp::%s(o, a) => o,' % v)
            continue
        if form == 'Reg' and base == 'Copy':
            val_arms.append('        SsaOp::%s(o, a) => regs(a),' % v)
            out_arms.append('        SsaOp::%s(o, a) => o,' % v)
            continue
        if form == 'Reg':
            e = VS.P_UN[base].replace('x', 'regs(a)') if False else re.sub(r'\bx\b', 'regs(a)', VS.P_UN[base])
            val_arms.append('        SsaOp::%s(o, a) => %s,' % (v, e))
            out_arms.append('        SsaOp::%s(o, a) => o,' % v)
        else:
            a_, b_ = {'RegReg': ('regs(l)', 'regs(r)'), 'RegImm': ('regs(l)', 'r'), 'ImmReg': ('r', 'regs(l)')}[form]
            e = re.sub(r'\bb\b', b_, re.sub(r'\ba\b', '@A@', VS.P_BIN[base])).replace('@A@', a_)
            val_arms.append('        SsaOp::%s(o, l, r) => %s,' % (v, e))
            out_arms.append('        SsaOp::%s(o, l, r) => o,' % v)
            if base in VS.P_CH:
                ch_arms.append('SsaOp::%s(..)' % v)
    g_un = '\n'.join('        UnaryOpcode::%s => %s,' % (o, G_UN[o]) for o in un_names)
    g_bin = '\n'.join('        BinaryOpcode::%s => %s,' % (o, G_BIN[o]) for o in bin_names)
    tags = sorted(set(re.findall(r'T_(\w+)\(\)', ' '.join(list(G_UN.values()) + list(G_BIN.values())))))
    static = ('''
// ---------- stand-ins
#[derive(Copy, Clone)]
pub struct Node(pub usize);
#[derive(Copy, Clone)]
pub struct OrderedFloat<T>(pub T);
#[derive(Copy, Clone)]
pub enum Var { X, Y, Z, V(u64) }
#[derive(Copy, Clone)]
pub enum Op { Input(Var), Const(OrderedFloat<f32>), Binary(BinaryOpcode, Node, Node), Unary(UnaryOpcode, Node) }   // checked against context/op.rs
#[derive(Copy, Clone)]
pub enum Slot { Reg(u32), Immediate(f32) }   // the local enum of SsaTape::new
/// R-tryinto: `usize -> u32` by `try_into().unwrap()`
pub fn to_u32(n: usize) -> (r: u32) requires n <= u32::MAX ensures r == n { n as u32 }
pub enum Choice { Unknown, Left, Right, Both }
// ---------- the shared vocabulary of units vm / context: f32 library functions and FloatExt functions as uninterpreted functions
pub uninterp spec fn fneg_spec(a: f32) -> f32;
pub uninterp spec fn fun1(tag: int, a: f32) -> f32;
pub uninterp spec fn fun2(tag: int, a: f32, b: f32) -> f32;
pub uninterp spec fn fx_max_choice(a: f32, other: f32) -> (f32, Choice);
pub uninterp spec fn fx_min_choice(a: f32, other: f32) -> (f32, Choice);
pub uninterp spec fn fx_and_choice(a: f32, other: f32) -> (f32, Choice);
pub uninterp spec fn fx_or_choice(a: f32, other: f32) -> (f32, Choice);
pub uninterp spec fn fx_compare(a: f32, other: f32) -> f32;
pub uninterp spec fn fx_rand(a: f32) -> f32;
pub uninterp spec fn fx_mix(a: f32, other: f32) -> f32;
pub open spec fn bool_f32(b: bool) -> f32 { if b { 1.0f32 } else { 0.0f32 } }
''' + '\n'.join('pub open spec fn T_%s() -> int { %d }' % (t, n + 1) for n, t in enumerate(tags)) + '''
/// graph meaning of the opcodes: what UnaryOpcode::eval / BinaryOpcode::eval compute (proved in unit context against the same table)
pub open spec fn un_sem(o: UnaryOpcode, x: f32) -> f32 {
    match o {
''' + g_un + '''
    }
}
pub open spec fn bin_sem(o: BinaryOpcode, a: f32, b: f32) -> f32 {
    match o {
''' + g_bin + '''
    }
}
/// reference meaning of an SSA clause: the value it writes (generated from the variant list: which operand is read from a slot, which
/// is the immediate, and in which order - the table the four interpreters of unit vm are proved against)
pub open spec fn ssa_val(op: SsaOp, regs: spec_fn(u32) -> f32, inputs: spec_fn(u32) -> f32) -> f32 {
    match op {
''' + '\n'.join(val_arms) + '''
    }
}
pub open spec fn ssa_out(op: SsaOp) -> u32 {
    match op {
''' + '\n'.join(out_arms) + '''
    }
}
pub open spec fn ssa_choice(op: SsaOp) -> bool { matches!(op, ''' + ' | '.join(ch_arms) + ''') }
pub open spec fn slot_val(s: Slot, regs: spec_fn(u32) -> f32) -> f32 { match s { Slot::Reg(r) => regs(r), Slot::Immediate(c) => c } }
pub open spec fn is_choice_opcode(o: BinaryOpcode) -> bool { matches!(o, BinaryOpcode::Min | BinaryOpcode::Max | BinaryOpcode::And | BinaryOpcode::Or) }
''')
    spec = '''
        requires *old(choice_count) < usize::MAX,
            !(op is Const),                                   // constants are skipped before the block (`let Slot::Reg(i) = mapping[&node] else { continue }`)
            op is Input ==> var_index <= u32::MAX,
            op is Unary ==> lhs_slot is Reg,                  // constant folding: no unary node over a constant
            op is Binary ==> !(lhs_slot is Immediate && rhs_slot is Immediate),
            // Context::and / Context::or collapse a constant on the left
            (op is Binary && (op->Binary_0 is And || op->Binary_0 is Or)) ==> lhs_slot is Reg,
            // Context::op_binary_commutative keeps a constant operand of add / mul / min / max on the right (repair bcd48ab): the table reuses
            // the RegImm form for (constant, register), which is the same value only up to commutativity - never needed
            (op is Binary && (op->Binary_0 is Add || op->Binary_0 is Mul || op->Binary_0 is Min || op->Binary_0 is Max)) ==> lhs_slot is Reg,
        ensures ssa_out(r) == i,
            forall|regs: spec_fn(u32) -> f32, inputs: spec_fn(u32) -> f32| #[trigger] ssa_val(r, regs, inputs) == (match *op {
                Op::Input(v) => inputs(var_index as u32),
                Op::Const(c) => c.0,
                Op::Binary(o, a, b) => bin_sem(o, slot_val(lhs_slot, regs), slot_val(rhs_slot, regs)),
                Op::Unary(o, a) => un_sem(o, slot_val(lhs_slot, regs)),
            }),
            ssa_choice(r) == (op is Binary && is_choice_opcode(op->Binary_0)),
            *final(choice_count) == *old(choice_count) + (if ssa_choice(r) { 1int } else { 0int }),
'''
    text = ('use vstd::prelude::*;\nuse vstd::std_specs::ops::*;\nuse vstd::std_specs::cmp::*;\nverus! {\n' + un_enum + '\n' + bin_enum + '\n' + '\n'.join(ssa) + '\n' + static + '\n' + fn + '\n' + (OUTS_SPEC + outs if outs else '') + '\n} // verus!\nfn main() {}\n')
    inj = Injector(text, trace)
    inj.spec('emit', None, spec)
    obls = [Obligation('flatten::SsaTape::new[translation block]', 'flatten', 'emit', props=PROPS, rlimit=50,
                       note='per-node opcode table and operand order of SsaTape::new against the reference meanings of units vm and context')]
    if outs:
        obls.append(Obligation('flatten::SsaTape::new[output clauses]', 'flatten', 'outputs', props=['C01', 'C04'], note='root k gives Output(its register, k), a constant root a fresh slot with Output + CopyImm: output order and indices'))
    return {'texts': {'base': inj.s}, 'obligations': obls, 'canary_fns': ['emit'] + (['outputs'] if outs else []), 'verus_args': ['--edition=2024']}


def norm(s):
    return re.sub(r'\s+', '', s)


OUTS_SPEC = """
/// the clauses for the first n roots: root k gives Output(its register, k), or - a constant root - Output(a fresh slot, k) followed by
/// CopyImm(that slot, the constant); fresh slots are handed out in order from s0
pub open spec fn outs_spec(slots: Seq<Slot>, s0: int, n: int) -> (Seq<SsaOp>, int)
    decreases n
{
    if n <= 0 { (Seq::empty(), s0) } else {
        let (t, s) = outs_spec(slots, s0, n - 1);
        match slots[n - 1] {
            Slot::Reg(r) => (t.push(SsaOp::Output(r, (n - 1) as u32)), s),
            Slot::Immediate(c) => (t.push(SsaOp::Output(s as u32, (n - 1) as u32)).push(SsaOp::CopyImm(s as u32, c)), s + 1),
        }
    }
}
"""
OUTS_TMPL = """fn outputs(root_slots: &Vec<Slot>, slot_count0: u32) -> (r: (Vec<SsaOp>, u32))
/*G*/    requires root_slots@.len() + slot_count0 <= u32::MAX,
/*G*/    ensures r.0@ == outs_spec(root_slots@, slot_count0 as int, root_slots@.len() as int).0, r.1 == outs_spec(root_slots@, slot_count0 as int, root_slots@.len() as int).1,
{
    let mut slot_count = slot_count0;
    let mut tape = Vec::new();
    for i_ in 0..root_slots.len()
/*G*/        invariant root_slots@.len() + slot_count0 <= u32::MAX, slot_count0 <= slot_count <= slot_count0 + i_,
/*G*/            tape@ == outs_spec(root_slots@, slot_count0 as int, i_ as int).0, slot_count == outs_spec(root_slots@, slot_count0 as int, i_ as int).1,
    {
        let i = i_;   // R-enumerate
        let i = i as u32;
        match root_slots[i_] {
            Slot::Reg(out_reg) => tape.push(SsaOp::Output(out_reg, i)),
            Slot::Immediate(imm) => {
                let o = slot_count;
                slot_count += 1;
                tape.push(SsaOp::Output(o, i));
                tape.push(SsaOp::CopyImm(o, imm));
            }
        }
    }
    (tape, slot_count)
}""".replace('/*G*/', GMARK)
