"""Unit `canvas` (C18): the stateful canvases of fidget-gui/src/lib.rs on their real text - `Canvas2::{new, from_components, interact, begin_drag,
drag, end_drag, zoom, resize}` and `Canvas3::{new, interact, begin_drag, screen_to_world, drag, end_drag, zoom}`.

C18 is stated "for any sequence of canvas interactions".  The per-step clauses (frame conditions, pitch range, changed flag of
`View2` / `View3`) are decided for all f32 by the Kani harnesses; what makes them a statement about SEQUENCES is the state machine of the
canvas, and that is a per-call contract, proved here for every canvas state (hence every history):
  * `interact` computes exactly: the image size stored; the drag bookkeeping (a drag in progress keeps working with its handle -
    `begin_drag` is idempotent - and after the zoom of the step a pan is re-based on the zoomed view, keeping the grabbed point (repair of K11: the
    handle holds the matrix of the view it was taken from); a cursor that is not dragging, or no cursor, ends the drag; a new drag takes its handle from the CURRENT view
    at the CURRENT cursor position, in the requested mode); the view = the handle's translate / rotate of the old view to the cursor position,
    then the zoom by exp2(scroll / 100) about the cursor position (or without a position when there is no cursor); so every intermediate
    view of a sequence is a composition of the View operations the Kani harnesses cover, with the handle of the drag's FIRST step;
  * the returned flag is true only if the view's bits differ from the view before the call (the property's clause, for any history);
  * `drag` without a drag in progress changes nothing and returns false; `end_drag`, `resize` touch only their field.
`View2` / `View3`, the handles, `ImageSize` / `VoxelSize` (nalgebra) are stand-ins whose operations are uninterpreted spec functions (so
nothing is assumed about WHAT a translate or zoom does, only that the canvas calls the right one with the right arguments); `bits_differ` is
the negation of bit-equality (`vb_eq`), as its Kani harness shows.  Rewrites: R-optmap (`opt.map(|p| E(p))` with a closure that only reads
`self` as a `match`), R-boolor (`b |= e`), R-traitfn none."""
import re
from lib import rsx
from lib.rsx import ExtractError
from lib.verus_engine import Injector, Obligation

SRC = 'fidget-gui/src/lib.rs'
PROPS = ['C18']

STATIC = r'''
// ---------- stand-ins: nalgebra points, the two view types with their handles, the size types (operations uninterpreted)
#[derive(Copy, Clone)]
pub struct Point2<T> { pub x: T, pub y: T }
#[derive(Copy, Clone)]
pub struct Point3<T> { pub x: T, pub y: T, pub z: T }
impl<T> Point3<T> { pub fn new(x: T, y: T, z: T) -> (r: Self) ensures r.x == x, r.y == y, r.z == z { Point3 { x, y, z } } }
#[derive(Copy, Clone)]
pub struct ImageSize { pub w: u32, pub h: u32 }
#[derive(Copy, Clone)]
pub struct VoxelSize { pub w: u32, pub h: u32, pub d: u32 }
pub uninterp spec fn tp2(s: ImageSize, p: Point2<i32>) -> Point2<f32>;
pub uninterp spec fn tp3(s: VoxelSize, p: Point3<i32>) -> Point3<f32>;
impl ImageSize { #[verifier::external_body] pub fn transform_point(&self, p: Point2<i32>) -> (r: Point2<f32>) ensures r == tp2(*self, p) { unimplemented!() } }
impl VoxelSize { #[verifier::external_body] pub fn transform_point(&self, p: Point3<i32>) -> (r: Point3<f32>) ensures r == tp3(*self, p) { unimplemented!() } }
#[derive(Copy, Clone)]
pub struct View2 { pub cx: f32, pub cy: f32, pub scale: f32 }
#[derive(Copy, Clone)]
pub struct View3 { pub cx: f32, pub cy: f32, pub cz: f32, pub scale: f32, pub yaw: f32, pub pitch: f32 }
#[verifier::external_body]
#[derive(Copy, Clone)]
pub struct TranslateHandle<const N: usize> { _p: u8 }
#[verifier::external_body]
#[derive(Copy, Clone)]
pub struct RotateHandle { _p: u8 }
/// bit-equality of two views (what `bits_differ` negates: Kani harness c18__view*_bits_differ)
pub uninterp spec fn vb_eq2(a: View2, b: View2) -> bool;
pub uninterp spec fn vb_eq3(a: View3, b: View3) -> bool;
pub proof fn ax_vb_refl(a: View2, b: View3) ensures vb_eq2(a, a), vb_eq3(b, b) { admit(); }
pub uninterp spec fn bt2(v: View2, p: Point2<f32>) -> TranslateHandle<2>;
pub uninterp spec fn tr2(v: View2, h: TranslateHandle<2>, p: Point2<f32>) -> (View2, bool);
pub uninterp spec fn zm2(v: View2, a: f32, p: Option<Point2<f32>>) -> (View2, bool);
pub uninterp spec fn rb2(v: View2, h: TranslateHandle<2>) -> TranslateHandle<2>;
pub uninterp spec fn rb3(v: View3, h: TranslateHandle<3>) -> TranslateHandle<3>;
pub uninterp spec fn bt3(v: View3, p: Point3<f32>) -> TranslateHandle<3>;
pub uninterp spec fn br3(v: View3, p: Point3<f32>) -> RotateHandle;
pub uninterp spec fn tr3(v: View3, h: TranslateHandle<3>, p: Point3<f32>) -> (View3, bool);
pub uninterp spec fn ro3(v: View3, h: RotateHandle, p: Point3<f32>) -> (View3, bool);
pub uninterp spec fn zm3(v: View3, a: f32, p: Option<Point3<f32>>) -> (View3, bool);
impl View2 {
    #[verifier::external_body] pub fn default() -> (r: Self) { unimplemented!() }
    #[verifier::external_body] pub fn begin_translate(&self, pos: Point2<f32>) -> (r: TranslateHandle<2>) ensures r == bt2(*self, pos) { unimplemented!() }
    #[verifier::external_body] pub fn rebase_translate(&self, h: &mut TranslateHandle<2>) ensures *final(h) == rb2(*self, *old(h)) { unimplemented!() }
    #[verifier::external_body] pub fn translate(&mut self, h: &TranslateHandle<2>, pos: Point2<f32>) -> (r: bool) ensures (*final(self), r) == tr2(*old(self), *h, pos) { unimplemented!() }
    #[verifier::external_body] pub fn zoom(&mut self, amount: f32, pos: Option<Point2<f32>>) -> (r: bool) ensures (*final(self), r) == zm2(*old(self), amount, pos) { unimplemented!() }
    #[verifier::external_body] pub fn bits_differ(&self, other: &Self) -> (r: bool) ensures r == !vb_eq2(*self, *other) { unimplemented!() }
}
impl View3 {
    #[verifier::external_body] pub fn default() -> (r: Self) { unimplemented!() }
    #[verifier::external_body] pub fn begin_translate(&self, pos: Point3<f32>) -> (r: TranslateHandle<3>) ensures r == bt3(*self, pos) { unimplemented!() }
    #[verifier::external_body] pub fn begin_rotate(&self, pos: Point3<f32>) -> (r: RotateHandle) ensures r == br3(*self, pos) { unimplemented!() }
    #[verifier::external_body] pub fn rebase_translate(&self, h: &mut TranslateHandle<3>) ensures *final(h) == rb3(*self, *old(h)) { unimplemented!() }
    #[verifier::external_body] pub fn translate(&mut self, h: &TranslateHandle<3>, pos: Point3<f32>) -> (r: bool) ensures (*final(self), r) == tr3(*old(self), *h, pos) { unimplemented!() }
    #[verifier::external_body] pub fn rotate(&mut self, h: &RotateHandle, pos: Point3<f32>) -> (r: bool) ensures (*final(self), r) == ro3(*old(self), *h, pos) { unimplemented!() }
    #[verifier::external_body] pub fn zoom(&mut self, amount: f32, pos: Option<Point3<f32>>) -> (r: bool) ensures (*final(self), r) == zm3(*old(self), amount, pos) { unimplemented!() }
    #[verifier::external_body] pub fn bits_differ(&self, other: &Self) -> (r: bool) ensures r == !vb_eq3(*self, *other) { unimplemented!() }
}
/// f32 library methods an edit of the canvas code might plausibly introduce, declared as uninterpreted functions so that such an edit is
/// decided rather than leaving the verifier subset
pub uninterp spec fn f_exp2(a: f32) -> f32;
pub uninterp spec fn f_abs(a: f32) -> f32;
pub assume_specification [f32::exp2] (x: f32) -> (r: f32) ensures r == f_exp2(x);
pub assume_specification [f32::abs] (x: f32) -> (r: f32) ensures r == f_abs(x);
/// f32 arithmetic and comparisons are total (they never panic) and equal their specification functions
pub proof fn ax_float_total()
    ensures
        <f32 as AddSpec<f32>>::obeys_add_spec(), forall|a: f32, b: f32| #[trigger] <f32 as AddSpec<f32>>::add_req(a, b),
        <f32 as SubSpec<f32>>::obeys_sub_spec(), forall|a: f32, b: f32| #[trigger] <f32 as SubSpec<f32>>::sub_req(a, b),
        <f32 as MulSpec<f32>>::obeys_mul_spec(), forall|a: f32, b: f32| #[trigger] <f32 as MulSpec<f32>>::mul_req(a, b),
        <f32 as DivSpec<f32>>::obeys_div_spec(), forall|a: f32, b: f32| #[trigger] <f32 as DivSpec<f32>>::div_req(a, b),
        <f32 as PartialOrdSpec<f32>>::obeys_partial_cmp_spec(), <f32 as PartialEqSpec<f32>>::obeys_eq_spec(),
{ admit(); }
/// R-fexp: `(amount / 100.0).exp2()`
pub uninterp spec fn zoom_factor(amount: f32) -> f32;
#[verifier::external_body]
pub fn zoom_factor_(amount: f32) -> (r: f32) ensures r == zoom_factor(amount) { (amount / 100.0).exp2() }

// ---------- what one call of interact computes
pub open spec fn w2(s: ImageSize, p: Point2<i32>) -> Point2<f32> { tp2(s, p) }
pub open spec fn w3(s: VoxelSize, p: Point2<i32>) -> Point3<f32> { tp3(s, Point3 { x: p.x, y: p.y, z: 0i32 }) }
/// Canvas2: the handle the drag part works with, the view after the drag part, the view after the zoom, the handle kept for the next step
pub open spec fn step2_handle0(c: Canvas2, s: ImageSize, cs: Option<CursorState<bool>>) -> Option<TranslateHandle<2>> {
    match cs {
        Some(st) => if st.drag { if c.drag_start is Some { c.drag_start } else { Some(bt2(c.view, w2(s, st.screen_pos))) } } else { None },
        None => None,
    }
}
pub open spec fn step2_dragged(c: Canvas2, s: ImageSize, cs: Option<CursorState<bool>>) -> View2 {
    match cs {
        Some(st) => if st.drag { tr2(c.view, step2_handle0(c, s, cs)->Some_0, w2(s, st.screen_pos)).0 } else { c.view },
        None => c.view,
    }
}
pub open spec fn step2_view(c: Canvas2, s: ImageSize, cs: Option<CursorState<bool>>, scroll: f32) -> View2 {
    zm2(step2_dragged(c, s, cs), zoom_factor(scroll), match cs { Some(st) => Some(w2(s, st.screen_pos)), None => None }).0
}
/// a drag in progress is re-based on the zoomed view, keeping the grabbed point (repair of K11)
pub open spec fn step2_handle(c: Canvas2, s: ImageSize, cs: Option<CursorState<bool>>, scroll: f32) -> Option<TranslateHandle<2>> {
    match step2_handle0(c, s, cs) {
        Some(h) => Some(rb2(step2_view(c, s, cs, scroll), h)),
        None => None,
    }
}
pub open spec fn step3_handle0(c: Canvas3, s: VoxelSize, cs: Option<CursorState<Option<DragMode>>>) -> Option<Drag3> {
    match cs {
        Some(st) => match st.drag {
            Some(mode) => if c.drag_start is Some { c.drag_start } else {
                Some(match mode { DragMode::Pan => Drag3::Pan(bt3(c.view, w3(s, st.screen_pos))), DragMode::Rotate => Drag3::Rotate(br3(c.view, w3(s, st.screen_pos))) }) },
            None => None,
        },
        None => None,
    }
}
pub open spec fn step3_dragged(c: Canvas3, s: VoxelSize, cs: Option<CursorState<Option<DragMode>>>) -> View3 {
    match cs {
        Some(st) => match st.drag {
            Some(mode) => match step3_handle0(c, s, cs)->Some_0 {
                Drag3::Pan(h) => tr3(c.view, h, w3(s, st.screen_pos)).0,
                Drag3::Rotate(h) => ro3(c.view, h, w3(s, st.screen_pos)).0,
            },
            None => c.view,
        },
        None => c.view,
    }
}
pub open spec fn step3_view(c: Canvas3, s: VoxelSize, cs: Option<CursorState<Option<DragMode>>>, scroll: f32) -> View3 {
    zm3(step3_dragged(c, s, cs), zoom_factor(scroll), match cs { Some(st) => Some(w3(s, st.screen_pos)), None => None }).0
}
/// a pan in progress is re-based on the zoomed view, keeping the grabbed point; a rotation keeps its handle (it does not depend on the scale)
pub open spec fn step3_handle(c: Canvas3, s: VoxelSize, cs: Option<CursorState<Option<DragMode>>>, scroll: f32) -> Option<Drag3> {
    match step3_handle0(c, s, cs) {
        Some(Drag3::Pan(h)) => Some(Drag3::Pan(rb3(step3_view(c, s, cs, scroll), h))),
        o => o,
    }
}
'''


def sub_once(text, old, new, what):
    if text.count(old) != 1:
        raise ExtractError('%s: expected exactly one %r, found %d' % (what, old[:70], text.count(old)))
    return text.replace(old, new)


def pubfields(st, name):
    st = re.sub(r'#\[derive\([^\]]*\)\]\n', '', st)
    st = re.sub(r'^    (\w+):', r'    pub \1:', st.replace('struct ' + name, 'pub struct ' + name), flags=re.M)
    return '#[derive(Copy, Clone)]\n' + st


def rewrite_common(f, trace, what):
    f, n = re.subn(r'changed \|= ([^;]+);', r'changed = changed | \1;   // R-boolor', f)
    # Verus rejects `|` on bools: use the short-circuit-free form through a helper
    f = f.replace('changed = changed | ', 'changed = bool_or(changed, ').replace(';   // R-boolor', ');   // R-boolor')
    trace.fire('R-boolor', n)
    f, n = re.subn(r'\(amount / 100\.0\)\.exp2\(\)', 'zoom_factor_(amount)', f)
    trace.fire('R-fexp', n)
    # R-optmap: `opt.map(|p| E)` where the closure only reads self
    m = re.search(r'let pos_world = pos_screen\.map\(\|p\| ([^;]+)\);', f)
    if m:
        f = f[:m.start()] + 'let pos_world = match pos_screen { Some(p) => Some(%s), None => None };   // R-optmap' % m.group(1).strip() + f[m.end():]
        trace.fire('R-optmap')
    return f


def build(repo, trace):
    trace.lost = {}
    src = rsx.clean(open('%s/%s' % (repo, SRC)).read(), trace)
    c2 = pubfields(rsx.get_item(src, r'^struct Canvas2\b', 0, 'struct Canvas2'), 'Canvas2')
    c3 = pubfields(rsx.get_item(src, r'^struct Canvas3\b', 0, 'struct Canvas3'), 'Canvas3')
    cs = pubfields(rsx.get_item(src, r'^struct CursorState<D>', 0, 'struct CursorState'), 'CursorState')
    dm = rsx.get_item(src, r'^enum DragMode\b', 0, 'enum DragMode')
    dm = '#[derive(Copy, Clone)]\npub ' + re.sub(r'#\[derive\([^\]]*\)\]\n', '', dm)
    d3 = rsx.get_item(src, r'^enum Drag3\b', 0, 'enum Drag3')
    d3 = '#[derive(Copy, Clone)]\npub ' + re.sub(r'#\[derive\([^\]]*\)\]\n', '', d3)
    for fld in ('view: View2,', 'image_size: ImageSize,', 'drag_start: Option<TranslateHandle<2>>,'):
        if fld not in c2:
            raise ExtractError('struct Canvas2: %r changed' % fld)
    for fld in ('view: View3,', 'image_size: VoxelSize,', 'drag_start: Option<Drag3>,'):
        if fld not in c3:
            raise ExtractError('struct Canvas3: %r changed' % fld)
    out = {}
    for ty, names in (('Canvas2', ['new', 'from_components', 'interact', 'resize', 'begin_drag', 'drag', 'end_drag', 'zoom']),
                      ('Canvas3', ['new', 'interact', 'begin_drag', 'screen_to_world', 'drag', 'end_drag', 'zoom'])):
        a, b = rsx.impl_block(src, r'^impl %s\b' % ty, 'impl ' + ty)
        fns = []
        for name in names:
            i, j, k = rsx.find_fn(src, name, a, b)
            f = rewrite_common(src[rsx.line_start(src, i):k], trace, ty + '::' + name)
            fns.append(f)
            trace.items.append((SRC, ty + '::' + name))
        out[ty] = 'impl %s {\n' % ty + '\n\n'.join(fns) + '\n}\n'
    trace.drop('View2, View3, TranslateHandle, RotateHandle (Kani harnesses of kani/leaf decide their per-step clauses), the size types (nalgebra): stand-ins; Canvas2::{components, view, image_size}, Canvas3::{view, image_size, ..}: accessors')
    text = ('use vstd::prelude::*;\nuse vstd::std_specs::ops::*;\nuse vstd::std_specs::cmp::*;\nverus! {\n' + cs + '\n\n' + c2 + '\n\n' + dm + '\n\n' + d3 + '\n\n' + c3 + '\n\n' + out['Canvas2'] + '\n' + out['Canvas3'] + '\n'
            + 'pub fn bool_or(a: bool, b: bool) -> (r: bool) ensures r == (a || b) { a || b }   // R-boolor: `a |= b` on bools\n' + STATIC + '\n} // verus!\nfn main() {}\n')
    inj = Injector(text, trace)
    inj.spec('Canvas2::new', 'r: Self', '\n        ensures r.image_size == image_size, r.drag_start is None\n')
    inj.spec('Canvas2::from_components', 'r: Self', '\n        ensures r.view == view, r.image_size == image_size, r.drag_start is None\n')
    inj.spec('Canvas2::resize', None, '\n        ensures final(self).image_size == image_size, final(self).view == old(self).view, final(self).drag_start == old(self).drag_start\n')
    inj.spec('Canvas2::end_drag', None, '\n        ensures final(self).drag_start is None, final(self).view == old(self).view, final(self).image_size == old(self).image_size\n')
    inj.spec('Canvas2::begin_drag', None, '\n        ensures final(self).view == old(self).view, final(self).image_size == old(self).image_size,\n            // idempotent: a drag in progress keeps its handle\n            final(self).drag_start == (if old(self).drag_start is Some { old(self).drag_start } else { Some(bt2(old(self).view, w2(old(self).image_size, pos_screen))) })\n')
    inj.spec('Canvas2::drag', 'r: bool', '\n        ensures final(self).drag_start == old(self).drag_start, final(self).image_size == old(self).image_size,\n            old(self).drag_start is None ==> (!r && final(self).view == old(self).view),\n            old(self).drag_start is Some ==> (final(self).view, r) == tr2(old(self).view, old(self).drag_start->Some_0, w2(old(self).image_size, pos_screen))\n')
    inj.spec('Canvas2::zoom', 'r: bool', '\n        ensures final(self).image_size == old(self).image_size,\n            // a drag in progress is re-based on the zoomed view\n            final(self).drag_start == (match old(self).drag_start { Some(h) => Some(rb2(final(self).view, h)), None => None }),\n            (final(self).view, r) == zm2(old(self).view, zoom_factor(amount), match pos_screen { Some(p) => Some(w2(old(self).image_size, p)), None => None })\n')
    inj.spec('Canvas2::interact', 'r: bool', '\n        ensures final(self).image_size == image_size,\n            final(self).drag_start == step2_handle(*old(self), image_size, cursor_state, scroll),\n            final(self).view == step2_view(*old(self), image_size, cursor_state, scroll),\n            // the flag is false whenever the view is bit-identical to the view before the call\n            r ==> !vb_eq2(final(self).view, old(self).view)\n')
    inj.spec('Canvas3::new', 'r: Self', '\n        ensures r.image_size == image_size, r.drag_start is None\n')
    inj.spec('Canvas3::end_drag', None, '\n        ensures final(self).drag_start is None, final(self).view == old(self).view, final(self).image_size == old(self).image_size\n')
    inj.spec('Canvas3::screen_to_world', 'r: Point3<f32>', '\n        ensures r == w3(self.image_size, pos_screen)\n')
    inj.spec('Canvas3::begin_drag', None, '\n        ensures final(self).view == old(self).view, final(self).image_size == old(self).image_size,\n            final(self).drag_start == (if old(self).drag_start is Some { old(self).drag_start } else {\n                Some(match drag_mode { DragMode::Pan => Drag3::Pan(bt3(old(self).view, w3(old(self).image_size, pos_screen))), DragMode::Rotate => Drag3::Rotate(br3(old(self).view, w3(old(self).image_size, pos_screen))) }) })\n')
    inj.spec('Canvas3::drag', 'r: bool', '\n        ensures final(self).drag_start == old(self).drag_start, final(self).image_size == old(self).image_size,\n            old(self).drag_start is None ==> (!r && final(self).view == old(self).view),\n            old(self).drag_start is Some ==> (final(self).view, r) == (match old(self).drag_start->Some_0 {\n                Drag3::Pan(h) => tr3(old(self).view, h, w3(old(self).image_size, pos_screen)),\n                Drag3::Rotate(h) => ro3(old(self).view, h, w3(old(self).image_size, pos_screen)) })\n')
    inj.spec('Canvas3::zoom', 'r: bool', '\n        ensures final(self).image_size == old(self).image_size,\n            final(self).drag_start == (match old(self).drag_start { Some(Drag3::Pan(h)) => Some(Drag3::Pan(rb3(final(self).view, h))), o => o }),\n            (final(self).view, r) == zm3(old(self).view, zoom_factor(amount), match pos_screen { Some(p) => Some(w3(old(self).image_size, p)), None => None })\n')
    inj.spec('Canvas3::interact', 'r: bool', '\n        ensures final(self).image_size == image_size,\n            final(self).drag_start == step3_handle(*old(self), image_size, cursor_state, scroll),\n            final(self).view == step3_view(*old(self), image_size, cursor_state, scroll),\n            r ==> !vb_eq3(final(self).view, old(self).view)\n')
    for q_ in ('Canvas2::interact', 'Canvas3::interact', 'Canvas2::zoom', 'Canvas3::zoom', 'Canvas2::drag', 'Canvas3::drag'):
        inj.proof(q_, '$START', '        proof { ax_float_total(); }')
    obls = []
    for ty, names in (('Canvas2', ['new', 'from_components', 'interact', 'resize', 'begin_drag', 'drag', 'end_drag', 'zoom']), ('Canvas3', ['new', 'interact', 'begin_drag', 'screen_to_world', 'drag', 'end_drag', 'zoom'])):
        for n in names:
            obls.append(Obligation('canvas::%s::%s' % (ty, n), 'canvas', '%s::%s' % (ty, n), props=PROPS))
    return {'texts': {'base': inj.s}, 'obligations': obls, 'canary_fns': ['Canvas2::interact', 'Canvas3::interact', 'Canvas3::drag'], 'verus_args': ['--edition=2024']}
