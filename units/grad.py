"""Unit `grad`: forward-mode dual arithmetic of fidget-core/src/types/grad.rs on its real text.

For every operation the contract says (V) the value lane is exactly the point operation on the operand values (the same
uninterpreted f32 functions as unit `vm`: IEEE `+ - * /`, named libm functions), and (D) each of the three derivative
lanes is the textbook differentiation rule of that operation applied to that lane's seeds, the SAME rule function for
dx, dy and dz (lane uniformity), evaluated in f32.  The rule functions (`RULES` below) are written from calculus, not
from the code; `+` and `*` are commutative (axiom `ax_comm`), so an implementation may order the operands of a sum or a
product either way, but it must not re-associate, drop or swap terms.  No rounding-error bound is claimed."""
import re
from lib import rsx
from lib.rsx import ExtractError
from lib.verus_engine import Injector, Obligation

SRC = 'fidget-core/src/types/grad.rs'
PROPS = ['C05', 'C11']

# name -> (value lane, rule) for unary ops: terms over v (operand value) and d (operand lane seed)
UN = {
    'sqrt': ('fun1(T_sqrt(), v)', 'd.div_spec(2.0f32.mul_spec(fun1(T_sqrt(), v)))'),
    'sin': ('fun1(T_sin(), v)', 'd.mul_spec(fun1(T_cos(), v))'),
    'cos': ('fun1(T_cos(), v)', 'd.mul_spec(fneg_spec(fun1(T_sin(), v)))'),
    'tan': ('fun1(T_tan(), v)', 'd.div_spec(powi_spec(fun1(T_cos(), v), 2))'),
    'asin': ('fun1(T_asin(), v)', 'd.div_spec(fun1(T_sqrt(), 1.0f32.sub_spec(powi_spec(v, 2))))'),
    'acos': ('fun1(T_acos(), v)', 'fneg_spec(d).div_spec(fun1(T_sqrt(), 1.0f32.sub_spec(powi_spec(v, 2))))'),
    'atan': ('fun1(T_atan(), v)', 'd.div_spec(powi_spec(v, 2).add_spec(1.0f32))'),
    'exp': ('fun1(T_exp(), v)', 'fun1(T_exp(), v).mul_spec(d)'),
    'ln': ('fun1(T_ln(), v)', 'd.div_spec(v)'),
    'recip': ('1.0f32.div_spec(v)', 'd.div_spec(fneg_spec(powi_spec(v, 2)))'),
    'floor': ('fun1(T_floor(), v)', '0.0f32'),
    'ceil': ('fun1(T_ceil(), v)', '0.0f32'),
    'round': ('fun1(T_round(), v)', '0.0f32'),
    'neg': ('fneg_spec(v)', 'fneg_spec(d)'),
}
# binary ops: terms over a, b (operand values) and da, db (lane seeds)
BIN = {
    'add': ('a.add_spec(b)', 'da.add_spec(db)'),
    'sub': ('a.sub_spec(b)', 'da.sub_spec(db)'),
    'mul': ('a.mul_spec(b)', 'a.mul_spec(db).add_spec(b.mul_spec(da))'),
    'div': ('a.div_spec(b)', 'b.mul_spec(da).sub_spec(a.mul_spec(db)).div_spec(powi_spec(b, 2))'),
    'atan2': ('fun2(T_atan2(), a, b)', 'b.mul_spec(da).sub_spec(a.mul_spec(db)).div_spec(powi_spec(b, 2).add_spec(powi_spec(a, 2)))'),
    'rem_euclid': ('fun2(T_rem_euclid(), a, b)', 'da.sub_spec(db.mul_spec(fun2(T_div_euclid(), a, b)))'),
}

AXIOMS = r'''
// =================== trusted float base of unit grad (each item is an assumption) ===================
pub uninterp spec fn fnan(a: f32) -> bool;
pub uninterp spec fn fneg_spec(a: f32) -> f32;
pub uninterp spec fn fun1(tag: int, a: f32) -> f32;
pub uninterp spec fn fun2(tag: int, a: f32, b: f32) -> f32;
pub uninterp spec fn powi_spec(a: f32, n: int) -> f32;
pub uninterp spec fn bool_f32(b: bool) -> f32;
/*@TAGS@*/
pub assume_specification [f32::is_nan] (x: f32) -> (r: bool) ensures r == fnan(x);
pub assume_specification [f32::powi] (x: f32, n: i32) -> (r: f32) ensures r == powi_spec(x, n as int);
pub assume_specification [<f32 as From<bool>>::from] (b: bool) -> (r: f32) ensures r == bool_f32(b);
/// R-neg: unary minus on f32 (Verus has no floating-point negation)
#[verifier::external_body] fn neg_(a: f32) -> (r: f32) ensures r == fneg_spec(a) { -a }
/// R-nanconst: `f32::NAN.into()`: the gradient whose value is NaN (derivative lanes 0 by `From<f32>`)
#[verifier::external_body] fn nan_grad() -> (r: Grad) ensures fnan(r.v) { f32::NAN.into() }
/// AX-float-total: f32 `+ - * /` and comparisons are total operations that equal their spec functions
pub proof fn ax_float_total()
    ensures
        <f32 as AddSpec<f32>>::obeys_add_spec(), forall|a: f32, b: f32| #[trigger] <f32 as AddSpec<f32>>::add_req(a, b),
        <f32 as SubSpec<f32>>::obeys_sub_spec(), forall|a: f32, b: f32| #[trigger] <f32 as SubSpec<f32>>::sub_req(a, b),
        <f32 as MulSpec<f32>>::obeys_mul_spec(), forall|a: f32, b: f32| #[trigger] <f32 as MulSpec<f32>>::mul_req(a, b),
        <f32 as DivSpec<f32>>::obeys_div_spec(), forall|a: f32, b: f32| #[trigger] <f32 as DivSpec<f32>>::div_req(a, b),
        <f32 as PartialOrdSpec<f32>>::obeys_partial_cmp_spec(),
        <f32 as PartialEqSpec<f32>>::obeys_eq_spec(),
{ admit(); }
/// AX-comm: IEEE addition and multiplication are commutative (up to the payload of a NaN result)
pub proof fn ax_comm()
    ensures forall|a: f32, b: f32| #[trigger] a.add_spec(b) == b.add_spec(a), forall|a: f32, b: f32| #[trigger] a.mul_spec(b) == b.mul_spec(a),
{ admit(); }
/// `From<f32> for Grad` (real body verified against this): value v, all seeds 0
impl FromSpecImpl<f32> for Grad {
    open spec fn obeys_from_spec() -> bool { true }
    open spec fn from_spec(v: f32) -> Self { Grad { v: v, dx: 0.0f32, dy: 0.0f32, dz: 0.0f32 } }
}
/// Verus gives a struct with f32 fields no field invariant, although its encoding of f32 (a bounded integer) needs one for
/// quantified float facts to apply to a field; the result of a spec function of type f32 does carry it.  These accessors
/// and the (proved) lemma put the missing typing facts into the context of each function.
pub open spec fn g_v(g: Grad) -> f32 { g.v }
pub open spec fn g_dx(g: Grad) -> f32 { g.dx }
pub open spec fn g_dy(g: Grad) -> f32 { g.dy }
pub open spec fn g_dz(g: Grad) -> f32 { g.dz }
pub proof fn lemma_fields(g: Grad) ensures g_v(g) == g.v, g_dx(g) == g.dx, g_dy(g) == g.dy, g_dz(g) == g.dz {}
pub open spec fn flt(a: f32, b: f32) -> bool { a.partial_cmp_spec(&b) == Some(Ordering::Less) }
pub open spec fn fgt(a: f32, b: f32) -> bool { a.partial_cmp_spec(&b) == Some(Ordering::Greater) }
'''

F1 = ['abs', 'sqrt', 'floor', 'ceil', 'round', 'sin', 'cos', 'tan', 'asin', 'acos', 'atan', 'exp', 'ln']
F2 = ['atan2', 'rem_euclid', 'div_euclid']


def lanes(rule, un):
    out = []
    for l in ('dx', 'dy', 'dz'):
        if un:
            out.append('r.%s == %s' % (l, rule.replace('(v', '(self.v').replace(' v)', ' self.v)').replace('#v#', 'self.v')))
    return out


def subst(term, m):
    # word-level substitution of placeholder identifiers
    return re.sub(r'\b(%s)\b' % '|'.join(map(re.escape, m)), lambda x: m[x.group(1)], term)


def un_spec(name, recv):
    val, rule = UN[name]
    e = ['r.v == ' + subst(val, {'v': recv + '.v'})]
    for l in ('dx', 'dy', 'dz'):
        e.append('r.%s == %s' % (l, subst(rule, {'v': recv + '.v', 'd': recv + '.' + l})))
    return '\n        ensures ' + ',\n            '.join(e) + '\n'


def bin_spec(name, recv, rhs):
    val, rule = BIN[name]
    e = ['r.v == ' + subst(val, {'a': recv + '.v', 'b': rhs + '.v'})]
    for l in ('dx', 'dy', 'dz'):
        e.append('r.%s == %s' % (l, subst(rule, {'a': recv + '.v', 'b': rhs + '.v', 'da': recv + '.' + l, 'db': rhs + '.' + l})))
    return '\n        ensures ' + ',\n            '.join(e) + '\n'


def inherent_from_trait(src, header, fn_name, new_name, trace):
    a, b = rsx.impl_block(src, '^' + re.escape(header), header)
    i, j, k = rsx.find_fn(src, fn_name, a, b)
    text = src[rsx.line_start(src, i):k]
    text = re.sub(r'\bfn %s\b' % fn_name, 'fn %s' % new_name, text, count=1)
    trace.fire('R-traitfn')
    trace.items.append((SRC, header + ' (as inherent fn %s)' % new_name))
    return text


def build(repo, trace):
    src = rsx.clean(open('%s/%s' % (repo, SRC)).read(), trace)
    st = rsx.get_item(src, r'^struct Grad\b', 0, 'struct Grad')
    st = re.sub(r'#\[repr\(C\)\]\n', '', st)
    st = re.sub(r'#\[derive\([^\]]*\)\]\n', '', st)
    st = st.replace('struct Grad {', 'pub struct Grad {')
    for f in ('v', 'dx', 'dy', 'dz'):
        st = re.sub(r'^(\s+)%s: f32,' % f, r'\1pub %s: f32,' % f, st, flags=re.M)
    st += '\nimpl Clone for Grad { fn clone(&self) -> (r: Self) ensures r == *self { *self } }\nimpl Copy for Grad {}\n'   # R-derive-clone
    trace.fire('R-derive-clone')
    a, b = rsx.impl_block(src, r'^impl Grad\b', 'impl Grad')
    fns = []
    un_names = ['abs', 'sqrt', 'sin', 'cos', 'tan', 'asin', 'acos', 'atan', 'exp', 'ln', 'recip', 'floor', 'ceil', 'round']
    bin_names = ['min', 'max', 'rem_euclid', 'and', 'or', 'atan2']
    other = ['new', 'not']
    for name in other + un_names + bin_names:
        i, j, k = rsx.find_fn(src, name, a, b)
        fns.append(src[rsx.line_start(src, i):k])
        trace.items.append((SRC, 'Grad::' + name))
    fns.append(inherent_from_trait(src, 'impl std::ops::Add<Grad> for Grad', 'add', 'add', trace))
    fns.append(inherent_from_trait(src, 'impl std::ops::Sub<Grad> for Grad', 'sub', 'sub', trace))
    fns.append(inherent_from_trait(src, 'impl std::ops::Mul<Grad> for Grad', 'mul', 'mul', trace))
    fns.append(inherent_from_trait(src, 'impl std::ops::Mul<f32> for Grad', 'mul', 'mul_f32', trace))
    fns.append(inherent_from_trait(src, 'impl std::ops::Div<Grad> for Grad', 'div', 'div', trace))
    fns.append(inherent_from_trait(src, 'impl std::ops::Neg for Grad', 'neg', 'neg', trace))
    i, j, k = rsx.find_item(src, r'^impl From<f32> for Grad\b', 0, 'impl From<f32> for Grad')
    from_impl = src[i:k]
    trace.items.append((SRC, 'impl From<f32> for Grad'))
    trace.drop('Grad::d (documented panic on a bad index), compare/rand/mix (closures, to_bits: bounded contract grad_rules), compare_eq (test only), '
               'Display, From<Grad> for Vector4')
    body = 'impl Grad {\n' + '\n\n'.join(fns) + '\n}\n\n' + from_impl + '\n'
    n1 = body.count('f32::NAN.into()')
    body = body.replace('f32::NAN.into()', 'nan_grad()')
    trace.fire('R-nanconst', n1)
    body, n2 = re.subn(r'(?<![\w\)\]])-(self\.(?:v|dx|dy|dz)(?:\.sin\(\)|\.powi\(2\))?)', r'neg_(\1)', body)
    trace.fire('R-neg', n2)
    if re.search(r'[=(,:]\s*-\s*[a-z]', body):
        raise ExtractError('R-neg: an unrewritten unary minus remains in grad.rs')
    text = ('use vstd::prelude::*;\nuse vstd::std_specs::ops::*;\nuse vstd::std_specs::cmp::*;\nuse vstd::std_specs::convert::*;\nuse core::cmp::Ordering;\nverus! {\n'
            + st + '\n' + body + '\n} // verus!\nfn main() {}\n')
    inj = Injector(text, trace)
    specs = {}
    for n in un_names:
        if n == 'abs':
            continue
        recv = 'self'
        specs['Grad::' + n] = ('r: Self', un_spec(n, recv))
    specs['Grad::neg'] = ('r: Self', un_spec('neg', 'self'))
    specs['Grad::abs'] = ('r: Self', """
        ensures flt(self.v, 0.0f32) ==> (r.v == fneg_spec(self.v) && r.dx == fneg_spec(self.dx) && r.dy == fneg_spec(self.dy) && r.dz == fneg_spec(self.dz)),
            !flt(self.v, 0.0f32) ==> r == self
""")
    for n in ('add', 'sub', 'mul', 'div'):
        specs['Grad::' + n] = ('r: Self', bin_spec(n, 'self', 'rhs'))
    specs['Grad::atan2'] = ('r: Self', bin_spec('atan2', 'self', 'x'))
    specs['Grad::rem_euclid'] = ('r: Self', bin_spec('rem_euclid', 'self', 'rhs'))
    specs['Grad::mul_f32'] = ('r: Self', """
        ensures r.v == self.v.mul_spec(rhs), r.dx == self.dx.mul_spec(rhs), r.dy == self.dy.mul_spec(rhs), r.dz == self.dz.mul_spec(rhs)
""")
    specs['Grad::min'] = ('r: Self', """
        ensures (fnan(self.v) || fnan(rhs.v)) ==> fnan(r.v),
            (!fnan(self.v) && !fnan(rhs.v)) ==> r == (if flt(self.v, rhs.v) { self } else { rhs })
""")
    specs['Grad::max'] = ('r: Self', """
        ensures (fnan(self.v) || fnan(rhs.v)) ==> fnan(r.v),
            (!fnan(self.v) && !fnan(rhs.v)) ==> r == (if fgt(self.v, rhs.v) { self } else { rhs })
""")
    specs['Grad::and'] = ('r: Self', """
        ensures r == (if self.v.eq_spec(&0.0f32) { *self } else { rhs })
""")
    specs['Grad::or'] = ('r: Self', """
        ensures r == (if !self.v.eq_spec(&0.0f32) { *self } else { rhs })
""")
    specs['Grad::not'] = ('r: Self', """
        ensures r.v == bool_f32(self.v.eq_spec(&0.0f32)), r.dx == 0.0f32, r.dy == 0.0f32, r.dz == 0.0f32
""")
    specs['Grad::new'] = ('r: Self', """
        ensures r.v == v, r.dx == dx, r.dy == dy, r.dz == dz
""")
    for q, (ret, t) in specs.items():
        inj.spec(q, ret, t)
    from lib.verus_engine import locate_fn
    for q in specs:
        if q in ('Grad::new',):
            continue
        i, j, k = locate_fn(inj.s, q)
        sig = inj.s[i:j]
        touch = []
        if re.search(r'\(&self', sig):
            touch.append('lemma_fields(*self);')
        elif re.search(r'\(self', sig):
            touch.append('lemma_fields(self);')
        for m in re.finditer(r'(\w+): (?:Self|Grad)\b', sig.split('->')[0]):
            touch.append('lemma_fields(%s);' % m.group(1))
        inj.proof(q, '$START', '        proof { ax_float_total(); ax_comm(); %s }' % ' '.join(touch))
    tags = []
    for i, f in enumerate(F1 + F2):
        tags.append('pub open spec fn T_%s() -> int { %d }' % (f, i + 1))
    for f in F1:
        tags.append('pub assume_specification [f32::%s] (x: f32) -> (r: f32) ensures r == fun1(T_%s(), x);' % (f, f))
    for f in F2:
        tags.append('pub assume_specification [f32::%s] (x: f32, y: f32) -> (r: f32) ensures r == fun2(T_%s(), x, y);' % (f, f))
    # further f32 library methods an edited implementation might call: declared (uninterpreted) so that such an edit is decided
    for i, f in enumerate(['trunc', 'fract', 'signum', 'sinh', 'cosh', 'tanh', 'exp2', 'log2', 'cbrt', 'recip']):
        tags.append('pub open spec fn T_%s() -> int { %d }' % (f, 100 + i))
        tags.append('pub assume_specification [f32::%s] (x: f32) -> (r: f32) ensures r == fun1(T_%s(), x);' % (f, f))
    for i, f in enumerate(['copysign', 'min', 'max', 'powf', 'hypot']):
        tags.append('pub open spec fn T_%s() -> int { %d }' % (f, 200 + i))
        tags.append('pub assume_specification [f32::%s] (x: f32, y: f32) -> (r: f32) ensures r == fun2(T_%s(), x, y);' % (f, f))
    inj.append_items(AXIOMS.replace('/*@TAGS@*/', '\n'.join(tags)))
    names = list(specs) + ['Grad::from', 'lemma_fields']
    obls = [Obligation('grad::' + f, 'grad', f, props=PROPS) for f in names]
    return {'texts': {'base': inj.s}, 'obligations': obls, 'canary_fns': [f for f in specs if f not in ('Grad::new',)][:8]}
