"""Second half of unit `jit`: the RegOp -> assembler dispatch of fidget-jit/src/lib.rs (`build_asm_fn_with_storage`, the `Assembler`
trait with its default methods, `reg`, `AssemblerData::{prepare_stack, stack_pos}`) on their real text.

The machine code an assembler emits is outside verifier reach; what IS within reach is which assembler method is called for which
opcode, with which operands in which order, and where immediates go.  The trait gets a ghost model: `st(inp)` is the machine state
(registers, spill slots, outputs) the code emitted so far computes on inputs `inp`.  Every required method is ASSUMED to append code
with the abstract effect its documentation states (`build_sub(out, l, r)`: out := l - r; `load_imm(c)` returns a register outside the
tape's range holding c; ...: table METHODS, written from the trait's doc comments); the trait's default methods (`build_square`,
`build_add_imm`, `build_sub_imm_reg`, `build_sub_reg_imm`, `build_mul_imm`) are PROVED against the same kind of contract (up to the
contents of the immediate register).  The dispatch function is then proved to emit, for every register tape whose operands are in
range (invariant I6 of unit alloc), code whose outputs equal the outputs of the reference run of that tape (`vstep`, generated from
the RegOp variant list by the naming rule of unit alloc) - and to meet the preconditions under which the per-opcode methods do not
panic (`reg()`'s assertion, `stack_pos`'s assertion, register < REGISTER_LIMIT)."""
import re
from lib import rsx, opcodes
from lib.rsx import ExtractError
from units.alloc.gen_sem import split_variant

JIT_RS = 'fidget-jit/src/lib.rs'

# what each assembler method means, from the doc comments of `trait Assembler` (NOT from the dispatch code)
UN_METHODS = {'neg': 'Neg', 'abs': 'Abs', 'recip': 'Recip', 'sqrt': 'Sqrt', 'sin': 'Sin', 'cos': 'Cos', 'tan': 'Tan', 'asin': 'Asin', 'acos': 'Acos',
              'atan': 'Atan', 'exp': 'Exp', 'ln': 'Ln', 'square': 'Square', 'floor': 'Floor', 'ceil': 'Ceil', 'round': 'Round', 'not': 'Not', 'rand': 'Rand'}
BIN_METHODS = {'compare': 'Compare', 'mix': 'Mix', 'and': 'And', 'or': 'Or', 'add': 'Add', 'sub': 'Sub', 'mul': 'Mul', 'div': 'Div', 'atan2': 'Atan',
               'max': 'Max', 'min': 'Min', 'mod': 'Mod'}
# (method, base, immediate on the left?)
IMM_METHODS = {'add_imm': ('Add', False), 'sub_imm_reg': ('Sub', True), 'sub_reg_imm': ('Sub', False), 'mul_imm': ('Mul', False)}

STATIC = r'''
// =================== abstract machine of the assembler (ghost) ===================
/// values are opaque terms: the dispatch never looks inside a value
#[verifier::external_body]
pub struct Val { _p: u8 }
pub uninterp spec fn un_sem(tag: int, a: Val) -> Val;
pub uninterp spec fn bin_sem(tag: int, a: Val, b: Val) -> Val;
pub uninterp spec fn imm_val(c: f32) -> Val;
/// machine state: hardware registers by tape-local number (the immediate register included), spill slots by slot number, outputs
pub struct MSt { pub regs: Map<int, Val>, pub mem: Map<int, Val>, pub outs: Map<int, Val> }
pub open spec fn a_un(tag: int, o: u8, a: u8, s: MSt) -> MSt { MSt { regs: s.regs.insert(o as int, usem(tag, s.regs[a as int])), mem: s.mem, outs: s.outs } }
pub open spec fn a_bin(tag: int, o: u8, a: u8, b: u8, s: MSt) -> MSt { MSt { regs: s.regs.insert(o as int, bin_sem(tag, s.regs[a as int], s.regs[b as int])), mem: s.mem, outs: s.outs } }
pub open spec fn a_ri(tag: int, o: u8, a: u8, c: f32, s: MSt) -> MSt { MSt { regs: s.regs.insert(o as int, bin_sem(tag, s.regs[a as int], imm_val(c))), mem: s.mem, outs: s.outs } }
pub open spec fn a_ir(tag: int, o: u8, a: u8, c: f32, s: MSt) -> MSt { MSt { regs: s.regs.insert(o as int, bin_sem(tag, imm_val(c), s.regs[a as int])), mem: s.mem, outs: s.outs } }
pub open spec fn a_copy(o: u8, a: u8, s: MSt) -> MSt { MSt { regs: s.regs.insert(o as int, s.regs[a as int]), mem: s.mem, outs: s.outs } }
pub open spec fn a_imm(r: u8, c: f32, s: MSt) -> MSt { MSt { regs: s.regs.insert(r as int, imm_val(c)), mem: s.mem, outs: s.outs } }
pub open spec fn a_load(r: u8, m: u32, s: MSt) -> MSt { MSt { regs: s.regs.insert(r as int, s.mem[m as int]), mem: s.mem, outs: s.outs } }
pub open spec fn a_store(m: u32, r: u8, s: MSt) -> MSt { MSt { regs: s.regs, mem: s.mem.insert(m as int, s.regs[r as int]), outs: s.outs } }
pub open spec fn a_input(r: u8, i: u32, inp: Seq<Val>, s: MSt) -> MSt { MSt { regs: s.regs.insert(r as int, inp[i as int]), mem: s.mem, outs: s.outs } }
pub open spec fn a_output(r: u8, i: u32, s: MSt) -> MSt { MSt { regs: s.regs, mem: s.mem, outs: s.outs.insert(i as int, s.regs[r as int]) } }
/// equal except for the contents of registers outside the tape's range (the immediate register)
pub open spec fn eqx(a: MSt, b: MSt) -> bool {
    &&& forall|r: int| 0 <= r < REGISTER_LIMIT ==> #[trigger] a.regs[r] == b.regs[r]
    &&& a.mem == b.mem
    &&& a.outs == b.outs
}
pub open spec fn treg(r: u8) -> bool { (r as int) < REGISTER_LIMIT }
/// the reference run of a register tape: the first k operations in evaluation order, from machine state v0
pub open spec fn vrun(ops: Seq<RegOp>, k: int, v0: MSt, inp: Seq<Val>) -> MSt
    decreases k
{
    if k <= 0 { v0 } else { vstep(ops[k - 1], vrun(ops, k - 1, v0, inp), inp) }
}
pub uninterp spec fn mst_init(inp: Seq<Val>) -> MSt;

// =================== environment ===================
#[verifier::external_body]
pub struct Mmap { _p: u8 }
#[verifier::external_body]
pub struct DynasmError { _p: u8 }
#[verifier::external_body]
pub struct IoError { _p: u8 }
impl Mmap {
    pub uninterp spec fn cap(&self) -> nat;
    /// what the finished function computes: its machine state on inputs `inp`
    pub uninterp spec fn fsem(&self, inp: Seq<Val>) -> MSt;
    #[verifier::external_body]
    pub fn capacity(&self) -> (r: usize) ensures r == self.cap() { unimplemented!() }
    #[verifier::external_body]
    pub fn new(capacity: usize) -> (r: Result<Mmap, IoError>) { unimplemented!() }
}
/// R-expect: `Result::expect` - panics on Err (resource failure of mmap / of the assembler's relocations: a documented panic, not modelled)
#[verifier::external_body]
pub fn expect_ok<T, E>(r: Result<T, E>) -> (v: T) ensures r is Ok, v == r->Ok_0 { unimplemented!() }
#[verifier::external_body]
pub struct VmData<const N: usize> { p: u8 }
impl<const N: usize> VmData<N> {
    /// the register tape in forward-evaluation order (what `iter_asm` yields)
    pub uninterp spec fn ops(&self) -> Seq<RegOp>;
    pub uninterp spec fn slots(&self) -> nat;
    #[verifier::external_body]
    pub fn len(&self) -> (r: usize) ensures r == self.ops().len() { unimplemented!() }
    #[verifier::external_body]
    pub fn slot_count(&self) -> (r: usize) ensures r == self.slots() { unimplemented!() }
    /// R-iter: `iter_asm().collect::<Vec<_>>()`
    #[verifier::external_body]
    pub fn iter_asm_vec(&self) -> (r: Vec<RegOp>) ensures r@ == self.ops() { unimplemented!() }
}
'''


def gen_sem(enums):
    bases = []
    for v, fs in enums['RegOp']:
        b, form = split_variant(v)
        if form != 'special' and b not in bases:
            bases.append(b)
    for m, b in list(UN_METHODS.items()) + list(BIN_METHODS.items()):
        if b not in bases:
            raise ExtractError('assembler method build_%s: base operation %s is not in the opcode list' % (m, b))
    tag = {b: i + 1 for i, b in enumerate(bases)}
    L = []
    A = L.append
    A('// ---- generated from the RegOp variant list (base name -> tag): ' + ', '.join('%s=%d' % (b, tag[b]) for b in bases))
    A('/// squaring is self-multiplication (the opcode documentation; the default `build_square` relies on it)')
    A('pub open spec fn usem(tag: int, a: Val) -> Val { if tag == %d { bin_sem(%d, a, a) } else { un_sem(tag, a) } }' % (tag['Square'], tag['Mul']))
    A('pub open spec fn vstep(op: RegOp, st: MSt, inp: Seq<Val>) -> MSt {\n    match op {')
    ok = ['pub open spec fn op_ok(op: RegOp, slots: int) -> bool {\n    match op {']
    for v, fs in enums['RegOp']:
        b, form = split_variant(v)
        if v == 'Output':
            A('        RegOp::Output(r, i) => a_output(r, i, st),')
            ok.append('        RegOp::Output(r, i) => treg(r),')
        elif v == 'Input':
            A('        RegOp::Input(r, i) => a_input(r, i, inp, st),')
            ok.append('        RegOp::Input(r, i) => treg(r),')
        elif v == 'CopyImm':
            A('        RegOp::CopyImm(r, c) => a_imm(r, c, st),')
            ok.append('        RegOp::CopyImm(r, c) => treg(r),')
        elif v == 'Load':
            A('        RegOp::Load(r, m) => a_load(r, m, st),')
            ok.append('        RegOp::Load(r, m) => treg(r) && REGISTER_LIMIT <= (m as int) < slots,')
        elif v == 'Store':
            A('        RegOp::Store(r, m) => a_store(m, r, st),')
            ok.append('        RegOp::Store(r, m) => treg(r) && REGISTER_LIMIT <= (m as int) < slots,')
        elif b == 'Copy' and form == 'Reg':
            A('        RegOp::CopyReg(o, a) => a_copy(o, a, st),')
            ok.append('        RegOp::CopyReg(o, a) => treg(o) && treg(a),')
        elif form == 'Reg':
            A('        RegOp::%s(o, a) => a_un(%d, o, a, st),' % (v, tag[b]))
            ok.append('        RegOp::%s(o, a) => treg(o) && treg(a),' % v)
        elif form == 'RegImm':
            A('        RegOp::%s(o, a, c) => a_ri(%d, o, a, c, st),' % (v, tag[b]))
            ok.append('        RegOp::%s(o, a, c) => treg(o) && treg(a),' % v)
        elif form == 'ImmReg':
            A('        RegOp::%s(o, a, c) => a_ir(%d, o, a, c, st),' % (v, tag[b]))
            ok.append('        RegOp::%s(o, a, c) => treg(o) && treg(a),' % v)
        elif form == 'RegReg':
            A('        RegOp::%s(o, a, b) => a_bin(%d, o, a, b, st),' % (v, tag[b]))
            ok.append('        RegOp::%s(o, a, b) => treg(o) && treg(a) && treg(b),' % v)
        else:
            raise ExtractError('variant form not covered: ' + v)
    A('    }\n}')
    ok.append('    }\n}')
    return '\n'.join(L) + '\n' + '\n'.join(ok) + '\n', tag


def contract_for(name, params, tag):
    """requires/ensures text for trait method `name` (None: no contract)"""
    p = [x.split(':')[0].strip() for x in params]
    q = 'forall|inp: Seq<Val>| #[trigger] final(self).st(inp)'
    def eff(term):
        # every method leaves the registers outside the tape's range (the immediate register) unspecified: out-of-line calls clobber it
        return 'forall|inp: Seq<Val>| eqx(#[trigger] final(self).st(inp), %s)' % term
    keep = 'final(self).slots() == old(self).slots()'
    if name == 'build_load':
        return 'requires treg(%s), REGISTER_LIMIT <= %s < old(self).slots(),\n        ensures %s, %s' % (p[0], p[1], eff('a_load(%s, %s, old(self).st(inp))' % (p[0], p[1])), keep)
    if name == 'build_store':
        return 'requires treg(%s), REGISTER_LIMIT <= %s < old(self).slots(),\n        ensures %s, %s' % (p[1], p[0], eff('a_store(%s, %s, old(self).st(inp))' % (p[0], p[1])), keep)
    if name == 'build_input':
        return 'requires treg(%s),\n        ensures %s, %s' % (p[0], eff('a_input(%s, %s, inp, old(self).st(inp))' % (p[0], p[1])), keep)
    if name == 'build_output':
        return 'requires treg(%s),\n        ensures %s, %s' % (p[0], eff('a_output(%s, %s, old(self).st(inp))' % (p[0], p[1])), keep)
    if name == 'build_copy':
        return 'requires treg(%s), treg(%s) || %s == Self::imm_reg(),\n        ensures %s, %s' % (p[0], p[1], p[1], eff('a_copy(%s, %s, old(self).st(inp))' % (p[0], p[1])), keep)
    m = name[len('build_'):] if name.startswith('build_') else None
    if m in UN_METHODS:
        t = tag[UN_METHODS[m]]
        if m == 'square':
            # default method (an assembler may override it): the immediate register may be used as scratch
            return 'requires treg(%s), treg(%s),\n        ensures forall|inp: Seq<Val>| eqx(#[trigger] final(self).st(inp), a_un(%d, %s, %s, old(self).st(inp))), %s' % (p[0], p[1], t, p[0], p[1], keep)
        return 'requires treg(%s), treg(%s),\n        ensures %s, %s' % (p[0], p[1], eff('a_un(%d, %s, %s, old(self).st(inp))' % (t, p[0], p[1])), keep)
    if m in BIN_METHODS:
        t = tag[BIN_METHODS[m]]
        return ('requires treg(%s), treg(%s) || %s == Self::imm_reg(), treg(%s) || %s == Self::imm_reg(),\n        ensures %s, %s'
                % (p[0], p[1], p[1], p[2], p[2], eff('a_bin(%d, %s, %s, %s, old(self).st(inp))' % (t, p[0], p[1], p[2])), keep))
    if m in IMM_METHODS:
        b, left = IMM_METHODS[m]
        f = 'a_ir' if left else 'a_ri'
        return ('requires treg(%s), treg(%s),\n        ensures forall|inp: Seq<Val>| eqx(#[trigger] final(self).st(inp), %s(%d, %s, %s, %s, old(self).st(inp))), %s'
                % (p[0], p[1], f, tag[b], p[0], p[1], p[2], keep))
    if name == 'load_imm':
        return ('ensures r == Self::imm_reg(), forall|inp: Seq<Val>| #[trigger] final(self).st(inp) == a_imm(r, %s, old(self).st(inp)), %s' % (p[0], keep))
    if name == 'init':
        return 'ensures forall|inp: Seq<Val>| #[trigger] r.st(inp) == mst_init(inp), r.slots() == %s' % p[1]
    if name == 'finalize':
        return 'ensures r is Ok ==> forall|inp: Seq<Val>| #[trigger] r->Ok_0.fsem(inp) == self.st(inp)'
    if name == 'bytes_per_clause':
        return 'ensures r <= 64'
    raise ExtractError('trait Assembler: method %s has no entry in the contract table' % name)


def build_trait(src, tag, trace):
    i, j, k = rsx.find_item(src, r'^trait Assembler\b', 0, 'trait Assembler')
    body = src[j + 1:k - 1]
    out = ['pub trait Assembler: Sized {', '    /// ghost: the machine state the code emitted so far computes on inputs `inp`', '    spec fn st(&self, inp: Seq<Val>) -> MSt;',
           '    /// ghost: the number of slots the stack frame was sized for', '    spec fn slots(&self) -> nat;',
           '    /// the register `load_imm` returns: outside the tape\'s register range', '    spec fn imm_reg() -> u8;',
           '    proof fn imm_reg_outside() ensures !treg(Self::imm_reg());']
    names = []
    pos = 0
    pat = re.compile(r'\n    fn (\w+)\(')
    while True:
        m = pat.search(body, pos)
        if not m:
            break
        name = m.group(1)
        op = m.end() - 1
        cl = rsx.match_brace(body, op, '(', ')')
        params = [x.strip() for x in rsx.split_top(body[op + 1:cl]) if x.strip()]
        rest = body[cl + 1:]
        m2 = re.match(r'\s*(->\s*([^;{]+?))?\s*([;{])', rest)
        if not m2:
            raise ExtractError('trait Assembler: cannot parse method ' + name)
        ret = m2.group(2)
        end_sig = cl + 1 + m2.end() - 1
        if m2.group(3) == '{':
            bend = rsx.match_brace(body, end_sig)
            fbody = body[end_sig:bend + 1]
            pos = bend + 1
        else:
            fbody = ';'
            pos = end_sig + 1
        ps = [x for x in params if not re.match(r'^(&mut self|&self|self|mut self)$', x)]
        c = contract_for(name, ps, tag)
        sig = '    fn %s(%s)' % (name, ', '.join(params))
        if ret:
            sig += ' -> (r: %s)' % ret.strip()
        if c:
            sig += '\n/*@spec*/        ' + c + '\n/*@endspec*/    '
        if fbody != ';' and name[len('build_'):] in IMM_METHODS:
            # proof hint: the register load_imm returns is not a tape register
            fbody = '{\n        proof { Self::imm_reg_outside(); }' + fbody[1:]
        out.append(sig + (fbody if fbody == ';' else ' ' + fbody))
        names.append((name, fbody != ';'))
    if 'type Data;' not in body:
        raise ExtractError('trait Assembler: associated type Data changed')
    out.insert(1, '    type Data;')
    out.append('}')
    trace.items.append((JIT_RS, 'trait Assembler (%d methods, %d with default bodies)' % (len(names), sum(1 for _, d in names if d))))
    return '\n'.join(out) + '\n', names


DISPATCH_SPEC = '''
    requires
        // operand ranges of the register tape: invariant I6 of unit alloc (registers below REGISTER_LIMIT, memory slots from there, below slot_count)
        forall|k: int| 0 <= k < t.ops().len() ==> op_ok(#[trigger] t.ops()[k], t.slots() as int),
        // machine arithmetic of the size estimate
        t.ops().len() * 64 <= usize::MAX, s.cap() * 2 <= usize::MAX,
    ensures
        // the emitted function computes, on every input, the outputs of the reference run of the tape (from its own initial state)
        forall|inp: Seq<Val>| (#[trigger] r.fsem(inp)).outs == vrun(t.ops(), t.ops().len() as int, mst_init(inp), inp).outs,
'''

LOOP_INV = '''            invariant 0 <= k_ <= ops_@.len(), ops_@ == t.ops(), asm.slots() == t.slots(),
                forall|k: int| 0 <= k < t.ops().len() ==> op_ok(#[trigger] t.ops()[k], t.slots() as int),
                forall|inp: Seq<Val>| eqx(#[trigger] asm.st(inp), vrun(t.ops(), k_ as int, mst_init(inp), inp)),
            decreases ops_@.len() - k_'''


def build_dispatch(repo, src, trace):
    enums = opcodes.parse(repo, trace)
    sem, tag = gen_sem(enums)
    regop = '#[derive(Copy, Clone)]\npub enum RegOp {\n' + '\n'.join('    %s(%s),' % (v, ', '.join(fs)) for v, fs in enums['RegOp']) + '\n}\n'
    # constants of the host architecture (x86_64) and of the other one, for `reg`
    consts = {}
    for arch in ('x86_64', 'aarch64'):
        a_src = rsx.clean(open('%s/fidget-jit/src/%s/mod.rs' % (repo, arch)).read(), trace)
        for c, ty in (('REGISTER_LIMIT', 'usize'), ('IMM_REG', 'u8'), ('OFFSET', 'u8')):
            m = re.search(r'^const %s: %s = (\d+);' % (c, ty), a_src, re.M)
            if not m:
                raise ExtractError('%s: const %s changed' % (arch, c))
            consts[(arch, c)] = int(m.group(1))
        trace.items.append(('fidget-jit/src/%s/mod.rs' % arch, 'const REGISTER_LIMIT, IMM_REG, OFFSET'))
    for c, ty in (('REGISTER_LIMIT', 'usize'), ('IMM_REG', 'u8'), ('OFFSET', 'u8')):
        if not re.search(r'^const %s: %s = arch::%s;' % (c, ty, c), src, re.M):
            raise ExtractError('lib.rs: const %s is no longer arch::%s' % (c, c))
    i, j, k = rsx.find_fn(src, 'reg', 0, None)
    f_reg = src[rsx.line_start(src, i):k].replace('assert!(', 'assert(')
    if 'fn reg(r: u8) -> u8' not in f_reg:
        raise ExtractError('fn reg signature changed')
    trace.items.append((JIT_RS, 'fn reg'))
    reg_txt = ''
    for arch, suf in (('x86_64', 'X86'), ('aarch64', 'A64')):
        t = f_reg.replace('fn reg(r: u8) -> u8', 'fn reg_%s(r: u8) -> (out_: u8)\n    requires (r as int) < REGISTER_LIMIT_%s || r == IMM_REG_%s.wrapping_sub(OFFSET_%s)\n    ensures out_ < 32' % (suf, suf, suf, suf))
        t = re.sub(r'\bOFFSET\b', 'OFFSET_' + suf, t)
        reg_txt += ('pub const REGISTER_LIMIT_%s: usize = %d;\npub const IMM_REG_%s: u8 = %d;\npub const OFFSET_%s: u8 = %d;\n' % (suf, consts[(arch, 'REGISTER_LIMIT')], suf, consts[(arch, 'IMM_REG')], suf, consts[(arch, 'OFFSET')])
                    + '/// `reg` with the constants of %s; the immediate register `load_imm` returns there is IMM_REG.wrapping_sub(OFFSET)\n' % arch + t + '\n'
                    + 'pub proof fn imm_outside_%s() ensures (IMM_REG_%s as int - OFFSET_%s as int + 256) %% 256 >= REGISTER_LIMIT_%s {}\n' % (suf, suf, suf, suf))
    head = 'pub const REGISTER_LIMIT: usize = %d;   // the host architecture (x86_64); the dispatch proof does not depend on the value\n' % consts[('x86_64', 'REGISTER_LIMIT')]
    trait, names = build_trait(src, tag, trace)
    i, j, k = rsx.find_fn(src, 'build_asm_fn_with_storage', 0, None)
    f = src[rsx.line_start(src, i):k]
    trace.items.append((JIT_RS, 'build_asm_fn_with_storage'))
    # R-iter
    old = '    for op in t.iter_asm() {\n'
    if f.count(old) != 1:
        raise ExtractError('R-iter: loop header of build_asm_fn_with_storage changed')
    f = f.replace(old, '    let ops_ = t.iter_asm_vec();   // R-iter: t.iter_asm() collected\n    let mut k_: usize = 0;\n    while k_ < ops_.len()\n/*@inv*/    {\n        let op = ops_[k_];\n        k_ += 1;\n')
    trace.fire('R-iter')
    # R-expect
    f, n = re.subn(r'(Mmap::new\([^()]*\)|asm\.finalize\(\))\.expect\("[^"]*"\)', r'expect_ok(\1)', f)
    if n != 2 or '.expect(' in f:
        raise ExtractError('R-expect: expect sites of build_asm_fn_with_storage changed')
    trace.fire('R-expect', n)
    sig_old = ') -> Mmap {'
    if f.count(sig_old) != 1:
        raise ExtractError('build_asm_fn_with_storage: signature changed')
    f = f.replace(sig_old, ') -> (r: Mmap)\n/*@spec*/' + DISPATCH_SPEC.rstrip('\n') + '\n/*@endspec*/{', 1)
    f = f.replace('/*@inv*/', LOOP_INV + '\n')
    arms = re.findall(r'^            RegOp::(\w+)\(([^)]*)\) => \{$', f, re.M)
    # ---- stack frame sizing for spills: AssemblerData::{prepare_stack, stack_pos}
    ad = rsx.get_item(src, r'^struct AssemblerData<T>', 0, 'struct AssemblerData')
    if not re.search(r'^    mem_offset: usize,', ad, re.M):
        raise ExtractError('struct AssemblerData: field mem_offset changed')
    m = None
    for m_ in re.finditer(r'^impl<T> AssemblerData<T> \{', src, re.M):
        ob = m_.end() - 1
        cb = rsx.match_brace(src, ob)
        try:
            i1, j1, k1 = rsx.find_fn(src, 'prepare_stack', ob, cb)
            i2, j2, k2 = rsx.find_fn(src, 'stack_pos', ob, cb)
            m = (src[rsx.line_start(src, i1):k1], src[rsx.line_start(src, i2):k2])
            break
        except ExtractError:
            continue
    if m is None:
        raise ExtractError('AssemblerData::{prepare_stack, stack_pos} not found')
    f_prep, f_pos = m
    f_pos = f_pos.replace('assert!(', 'assert(')
    trace.items.append((JIT_RS, 'AssemblerData::prepare_stack, AssemblerData::stack_pos'))
    SZ = 'vstd::layout::size_of::<T>()'
    spill = '(if slot_count >= REGISTER_LIMIT { slot_count - REGISTER_LIMIT } else { 0 })'
    f_prep = f_prep.replace('stack_size: usize) {', 'stack_size: usize)\n/*@spec*/        requires %s * %s + stack_size + 15 <= usize::MAX\n        // the frame is 16-byte aligned and holds every spill slot plus the fixed area\n        ensures final(self).mem_offset %% 16 == 0, final(self).mem_offset >= %s * %s + stack_size, final(self).mem_offset < %s * %s + stack_size + 16\n/*@endspec*/    {' % (spill, SZ, spill, SZ, spill, SZ), 1)
    f_pos = f_pos.replace('slot: u32) -> u32 {', 'slot: u32) -> (r: u32)\n/*@spec*/        requires slot >= REGISTER_LIMIT, %s <= u32::MAX, (slot - REGISTER_LIMIT) * %s <= u32::MAX   // the assertion of the function and machine arithmetic\n        ensures r == (slot - REGISTER_LIMIT) * %s\n/*@endspec*/    {' % (SZ, SZ, SZ), 1)
    if '/*@spec*/' not in f_prep or '/*@spec*/' not in f_pos:
        raise ExtractError('AssemblerData::{prepare_stack, stack_pos}: signature changed')
    frame = ('pub struct AssemblerData<T> { pub mem_offset: usize, pub _p: core::marker::PhantomData<T> }\n'
             'pub assume_specification [usize::next_multiple_of] (a: usize, b: usize) -> (r: usize)\n    requires b > 0, a + b - 1 <= usize::MAX\n    ensures r % b == 0, r >= a, r < a + b;\n'
             'impl<T> AssemblerData<T> {\n    /// emits `sub rsp, mem_offset` (machine code; no effect on the Rust state)\n    #[verifier::external_body]\n    fn push_stack(&mut self) ensures final(self).mem_offset == old(self).mem_offset { }\n\n'
             + f_prep + '\n\n' + f_pos + '\n}\n'
             '/// every spill slot of a tape with `slot_count` slots lies inside the frame prepare_stack sized for it (offset stack_pos(slot) above the fixed area)\n'
             'pub proof fn lemma_frame(slot_count: int, slot: int, size: int, stack_size: int, mem_offset: int)\n'
             '    requires REGISTER_LIMIT <= slot < slot_count, size >= 0, mem_offset >= (slot_count - REGISTER_LIMIT) * size + stack_size,\n'
             '    ensures (slot - REGISTER_LIMIT) * size + size + stack_size <= mem_offset\n{\n'
             '    assert((slot - REGISTER_LIMIT) * size + size == (slot - REGISTER_LIMIT + 1) * size) by (nonlinear_arith);\n'
             '    assert((slot - REGISTER_LIMIT + 1) * size <= (slot_count - REGISTER_LIMIT) * size) by (nonlinear_arith) requires slot + 1 <= slot_count, size >= 0;\n}\n')
    return {'frame': frame, 'regop': regop, 'sem': sem, 'head': head, 'reg': reg_txt, 'trait': trait, 'fn': f, 'arms': arms, 'names': names, 'tag': tag, 'enums': enums}
