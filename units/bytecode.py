"""Unit `bytecode` (C15): `Bytecode::new` of fidget-bytecode/src/lib.rs on its real text.

Contract, taken from the property and the format documentation at the top of that file: the emitted word list starts with the
marker `0xFFFF_FFFF 0` and ends with `0xFFFF_FFFF 0xFFFF_FFFF`; in between there are exactly two words per tape operation, in
forward order, the first being the little-endian packing of `[opcode, output register, first input, second input]` with `0xFF`
for an immediate/unused byte (Load keeps its register in the output byte and flags the input, Store the other way round), the
second the output/input index, the memory slot relative to the first memory slot, the bits of the f32 immediate, or the unused
marker; the opcode byte is the position of the operation's name in the public opcode table (`enum BytecodeOp`, which `iter_ops`
enumerates) by the documentation's naming rule; every register byte is below the advertised `reg_count`, every memory slot below
`mem_count`; the reserved register 255 never appears, and its appearance in the renaming is the one and only error.

The specification functions (`opc`, `enc_word`, `enc_imm`, `r0..r2`) are generated from the RegOp variant list by operand kinds
and by the naming rule - not from the match in `new`.  Execution equivalence with an interpreter is NOT part of this unit
(bounded contract `bytecode`).  Stubs: VmData/RegTape (operations in forward order, the renaming built by `repack_map`: an entry
for every register mentioned)."""
import re
from lib import rsx, opcodes
from lib.rsx import ExtractError
from lib.verus_engine import Injector, Obligation

BC_RS = 'fidget-bytecode/src/lib.rs'
PROPS = ['C15']

PRELUDE = r'''
// =================== stand-ins (trusted; listed as assumptions) ===================
pub uninterp spec fn f32_bits(x: f32) -> u32;
/// little-endian packing of four bytes
pub uninterp spec fn le32(b: Seq<u8>) -> u32;
pub assume_specification [f32::to_bits] (x: f32) -> (r: u32) ensures r == f32_bits(x);
/// R-wrap: `u32::from_le_bytes` (its parameter type `[u8; size_of::<u32>()]` cannot be named in an assume_specification)
#[verifier::external_body]
fn from_le_bytes_(b: [u8; 4]) -> (r: u32) ensures r == le32(b@) { u32::from_le_bytes(b) }
#[verifier::external_body]
pub struct VmData<const N: usize> { p: u8 }
#[verifier::external_body]
pub struct RegTape { p: u8 }
impl<const N: usize> VmData<N> {
    /// the register tape in forward-evaluation order (what `iter_asm` yields)
    pub uninterp spec fn ops(&self) -> Seq<RegOp>;
    pub uninterp spec fn map_spec(&self) -> Map<u8, u8>;
    #[verifier::external_body]
    pub fn asm(&self) -> (r: &RegTape) ensures r.ops() == self.ops(), r.map_spec() == self.map_spec() { unimplemented!() }
    /// R-iter: `iter_asm().collect::<Vec<_>>()`
    #[verifier::external_body]
    pub fn iter_asm_vec(&self) -> (r: Vec<RegOp>) ensures r@ == self.ops() { unimplemented!() }
}
impl RegTape {
    pub uninterp spec fn ops(&self) -> Seq<RegOp>;
    /// the register renaming `repack_map` builds (registers by frequency of use)
    pub uninterp spec fn map_spec(&self) -> Map<u8, u8>;
    #[verifier::external_body]
    pub fn repack_map(&self) -> (r: HashMap<u8, u8>)
        ensures r@ == self.map_spec(),
            // the map is built by visiting every register of every operation: each has an entry
            forall|k: int| 0 <= k < self.ops().len() ==> covers(#[trigger] self.ops()[k], r@),
    { unimplemented!() }
}

// =================== specification ===================
pub open spec fn umax(a: int, b: int) -> int { if a >= b { a } else { b } }
/// no register of the operation is renamed to the reserved register 255
pub open spec fn no_reserved(op: RegOp, m: Map<u8, u8>) -> bool { (r0(op) is Some ==> m[r0(op)->Some_0] != 255) && (r1(op) is Some ==> m[r1(op)->Some_0] != 255) && (r2(op) is Some ==> m[r2(op)->Some_0] != 255) }
/// the renaming has an entry for every register of the operation
pub open spec fn covers(op: RegOp, m: Map<u8, u8>) -> bool { (r0(op) is Some ==> m.contains_key(r0(op)->Some_0)) && (r1(op) is Some ==> m.contains_key(r1(op)->Some_0)) && (r2(op) is Some ==> m.contains_key(r2(op)->Some_0)) }
/// every register byte of the operation's first word is below `rc`
pub open spec fn regs_below(op: RegOp, m: Map<u8, u8>, rc: int) -> bool { (r0(op) is Some ==> (m[r0(op)->Some_0] as int) < rc) && (r1(op) is Some ==> (m[r1(op)->Some_0] as int) < rc) && (r2(op) is Some ==> (m[r2(op)->Some_0] as int) < rc) }
pub open spec fn is_mem(op: RegOp) -> bool { op is Load || op is Store }
pub open spec fn mem_slot(op: RegOp) -> int { match op { RegOp::Load(_, s) => s as int, RegOp::Store(_, s) => s as int, _ => 0 } }
pub open spec fn mem_in_range(op: RegOp, n: int) -> bool { is_mem(op) ==> n <= mem_slot(op) < u32::MAX }
/// the two words emitted for operation k
pub open spec fn emitted(data: Seq<u32>, ops: Seq<RegOp>, m: Map<u8, u8>, n: int, k: int) -> bool {
    data[2 + 2 * k] == le32(enc_word(ops[k], m)) && data[3 + 2 * k] == enc_imm(ops[k], n)
}
impl FromSpecImpl<RegOp> for BytecodeOp {
    open spec fn obeys_from_spec() -> bool { true }
    open spec fn from_spec(op: RegOp) -> Self { bop_spec(op) }
}
/// the opcode byte is the discriminant of the operation's entry in the public table
pub proof fn lemma_opc(op: RegOp)
    ensures bop_spec(op) as u8 == opc(op)
{}
'''

STORE_REG_SPEC = """
    requires map@.contains_key(r), i < 4,
    ensures
        res is Ok <==> map@[r] != 255,
        res is Ok ==> final(word)@ == old(word)@.update(i as int, map@[r]) && *final(reg_count) as int == umax(*old(reg_count) as int, map@[r] as int + 1),
        res is Err ==> final(word)@ == old(word)@ && *final(reg_count) == *old(reg_count),
"""

NEW_SPEC = """
        requires
            N <= u32::MAX,
            // memory operands of the tape lie in N.. (allocator invariant I6, proved in unit alloc) and below u32::MAX
            forall|k: int| 0 <= k < t.ops().len() ==> mem_in_range(#[trigger] t.ops()[k], N as int),
        ensures
            // the reserved register is the only error
            r is Err <==> exists|k: int| 0 <= k < t.ops().len() && !no_reserved(#[trigger] t.ops()[k], t.map_spec()),
            r is Ok ==> ({
                let b = r->Ok_0; let ops = t.ops(); let m = t.map_spec();
                // marker words, two words per operation, in tape order
                &&& b.data@.len() == 2 * ops.len() + 4
                &&& b.data@[0] == u32::MAX && b.data@[1] == 0
                &&& b.data@[b.data@.len() - 2] == u32::MAX && b.data@[b.data@.len() - 1] == u32::MAX
                &&& forall|k: int| 0 <= k < ops.len() ==> #[trigger] emitted(b.data@, ops, m, N as int, k)
                // the advertised counts bound every index used; no instruction uses the reserved register
                &&& forall|k: int| 0 <= k < ops.len() ==> regs_below(#[trigger] ops[k], m, b.reg_count as int) && no_reserved(ops[k], m)
                &&& forall|k: int| 0 <= k < ops.len() && is_mem(#[trigger] ops[k]) ==> (enc_imm(ops[k], N as int) as int) < b.mem_count
            }),
"""

LOOP_INV = """            invariant
                0 <= k_ <= ops_@.len(), ops_@ == t.ops(), map@ == t.map_spec(), mem_offset == N,
                data@.len() == 2 + 2 * k_, data@[0] == u32::MAX && data@[1] == 0,
                forall|k: int| 0 <= k < k_ ==> #[trigger] emitted(data@, t.ops(), map@, N as int, k),
                forall|k: int| 0 <= k < k_ ==> regs_below(#[trigger] t.ops()[k], map@, reg_count as int) && no_reserved(t.ops()[k], map@),
                forall|k: int| 0 <= k < k_ && is_mem(#[trigger] t.ops()[k]) ==> (enc_imm(t.ops()[k], N as int) as int) < mem_count,
            decreases ops_@.len() - k_
"""


def bop_variants(bop):
    """(declared variants in order, public opcode table): `iter_ops` numbers the variants that strum's EnumIter yields, i.e. the
    declared ones without `#[strum(disabled)]`, by their position in that iteration"""
    body = bop[bop.index('{') + 1:bop.rindex('}')]
    declared, public = [], []
    for part in body.split(','):
        part = part.strip()
        if not part:
            continue
        attrs = re.findall(r'#\[[^\]]*\]', part)
        name = re.sub(r'#\[[^\]]*\]', '', part).strip()
        mm = re.match(r'^(\w+)(\s*=\s*[\w_]+)?$', name)
        if not mm:
            raise ExtractError('enum BytecodeOp: variant %r is not a plain tag' % part[:40])
        # an explicit discriminant is kept in the rendered enum (it decides `as u8`), the public table still numbers by position
        declared.append(name)
        name = mm.group(1)
        if not any('strum' in a_ and 'disabled' in a_ for a_ in attrs):
            public.append(name)
    return declared, public


def op_name(v, tys):
    """naming rule of the format documentation: the operation name is the RegOp variant name without its operand-kind suffix; the
    two-operand arctangent is Atan2; Load and Store are Mem"""
    if v in ('Load', 'Store'):
        return 'Mem'
    base = re.sub(r'(RegReg|RegImm|ImmReg|Reg|Imm)$', '', v)
    if base == 'Atan' and len(tys) == 3:
        return 'Atan2'
    return base


def gen_specs(vs, bv):
    L = []
    A = L.append

    def arms(f):
        return '\n'.join('        RegOp::%s(%s) => %s,' % (v, ', '.join('a%d' % i for i in range(len(t))), f(v, t)) for v, t in vs)
    for v, t in vs:
        if op_name(v, t) not in bv:
            raise ExtractError('naming rule: operation %s of RegOp::%s is not in the opcode table' % (op_name(v, t), v))
    A('/// opcode byte: position of the operation name in the public opcode table (enum BytecodeOp), by the naming rule of the format documentation')
    A('pub open spec fn opc(op: RegOp) -> u8 {\n    match op {\n' + arms(lambda v, t: '%du8' % bv.index(op_name(v, t))) + '\n    }\n}')
    A('pub open spec fn bop_spec(op: RegOp) -> BytecodeOp {\n    match op {\n' + '\n'.join('        RegOp::%s(..) => BytecodeOp::%s,' % (v, op_name(v, t)) for v, t in vs) + '\n    }\n}')

    def word(v, t):
        m = lambda x: 'm[%s]' % x
        FF = '0xFFu8'
        if v in ('Input', 'Output'):
            b = [m('a0'), FF, FF]
        elif v == 'Load':
            b = [m('a0'), FF, FF]
        elif v == 'Store':
            b = [FF, m('a0'), FF]
        elif v == 'CopyImm':
            b = [m('a0'), FF, FF]
        elif t == ['u8', 'u8']:
            b = [m('a0'), m('a1'), FF]
        elif v.endswith('RegImm') and t == ['u8', 'u8', 'f32']:
            b = [m('a0'), m('a1'), FF]
        elif v.endswith('ImmReg') and t == ['u8', 'u8', 'f32']:
            b = [m('a0'), FF, m('a1')]
        elif t == ['u8', 'u8', 'u8']:
            b = [m('a0'), m('a1'), m('a2')]
        else:
            raise ExtractError('RegOp::%s%s: operand kinds not covered by the format documentation' % (v, t))
        return 'seq![opc(op), %s]' % ', '.join(b)
    A('/// first word: [opcode, output register, first input register, second input register], 0xFF = immediate / unused; Load keeps the register in the\n/// output byte and flags the input, Store flags the output byte and keeps the register in the first input byte')
    A('pub open spec fn enc_word(op: RegOp, m: Map<u8, u8>) -> Seq<u8> {\n    match op {\n' + arms(word) + '\n    }\n}')

    def imm(v, t):
        if v in ('Input', 'Output'):
            return 'a1'
        if v in ('Load', 'Store'):
            return '(a1 - n) as u32'
        if 'f32' in t:
            return 'f32_bits(a%d)' % t.index('f32')
        return '0xFF000000u32'
    A('/// second word: output/input index, memory slot relative to the first memory slot, the bits of the f32 immediate, else the unused marker')
    A('pub open spec fn enc_imm(op: RegOp, n: int) -> u32 {\n    match op {\n' + arms(imm) + '\n    }\n}')
    for q in range(3):
        def rq(v, t, q=q):
            rs = ['a%d' % i for i, ty in enumerate(t) if ty == 'u8']
            return 'Some(%s)' % rs[q] if q < len(rs) else 'None'
        A('/// register operand %d of an operation, if it has one' % q)
        A('pub open spec fn r%d(op: RegOp) -> Option<u8> {\n    match op {\n' % q + arms(rq) + '\n    }\n}')
    # ---- the reader's side: a decoder written from the format documentation, and the round trip
    names = {}
    for v, t in vs:
        names.setdefault(op_name(v, t), []).append((v, t))
    D = []
    for name in bv:
        k = bv.index(name)
        group = dict(names.get(name, []))
        def has(vv):
            return vv in group
        if name in ('Input', 'Output'):
            body = 'Some(RegOp::%s(b1, imm))' % name
        elif name == 'Mem':
            body = 'if b2 == 0xFFu8 { Some(RegOp::Load(b1, imm)) } else { Some(RegOp::Store(b2, imm)) }'
        elif name == 'Copy':
            body = 'if b2 == 0xFFu8 { Some(RegOp::CopyImm(b1, f32_of_bits(imm))) } else { Some(RegOp::CopyReg(b1, b2)) }'
        elif has(name + 'Reg') and len(group) == 1:
            body = 'Some(RegOp::%sReg(b1, b2))' % name
        else:
            base = 'Atan' if name == 'Atan2' else name
            ri = 'Some(RegOp::%sRegImm(b1, b2, f32_of_bits(imm)))' % base if has(base + 'RegImm') else 'None'
            ir = 'Some(RegOp::%sImmReg(b1, b3, f32_of_bits(imm)))' % base if has(base + 'ImmReg') else 'None'
            rr = 'Some(RegOp::%sRegReg(b1, b2, b3))' % base if has(base + 'RegReg') else 'None'
            if not has(base + 'RegReg'):
                raise ExtractError('decoder: operation %s has no register-register form' % name)
            body = 'if b3 == 0xFFu8 { %s } else if b2 == 0xFFu8 { %s } else { %s }' % (ri, ir, rr)
        D.append('    %sif o == %du8 { %s }' % ('' if not D else 'else ', k, body))
    A('pub uninterp spec fn f32_of_bits(b: u32) -> f32;')
    A('/// AX-bits: `f32::from_bits(x.to_bits())` is `x` (bitwise identity, NaN payloads included)')
    A('pub proof fn ax_bits() ensures forall|x: f32| #[trigger] f32_of_bits(f32_bits(x)) == x { admit(); }')
    A('/// what a reader that follows only the format documentation makes of two words: opcode from the public table, byte 1 the output\n/// register, bytes 2 and 3 the inputs, 0xFF = the second word is the immediate, Mem with the flag in byte 2 = load, else store')
    A('pub open spec fn dec(w: Seq<u8>, imm: u32) -> Option<RegOp> {\n    let o = w[0]; let b1 = w[1]; let b2 = w[2]; let b3 = w[3];\n' + '\n'.join(D) + '\n    else { None }\n}')

    def ren(v, t):
        args = []
        for i, ty in enumerate(t):
            if ty == 'u8':
                args.append('m[a%d]' % i)
            elif v in ('Load', 'Store') and ty == 'u32':
                args.append('(a%d - n) as u32' % i)
            else:
                args.append('a%d' % i)
        return 'RegOp::%s(%s)' % (v, ', '.join(args))
    A('/// the operation with its registers renamed and its memory slot made relative to the first memory slot')
    A('pub open spec fn ren(op: RegOp, m: Map<u8, u8>, n: int) -> RegOp {\n    match op {\n' + arms(ren) + '\n    }\n}')
    A("""/// the format is unambiguous: from the two words of an operation the reader recovers exactly that operation (renamed) - this is where
/// "no instruction uses the reserved register" is needed: a register byte 0xFF would be read as the immediate flag
pub proof fn lemma_decode_encode(op: RegOp, m: Map<u8, u8>, n: int)
    requires no_reserved(op, m)
    ensures dec(enc_word(op, m), enc_imm(op, n)) == Some(ren(op, m, n))
{
    ax_bits();
}""")
    return '\n'.join(L)


def build(repo, trace):
    bc = rsx.clean(open('%s/%s' % (repo, BC_RS)).read(), trace)
    enums = opcodes.parse(repo, trace)
    vs = enums['RegOp']
    regop = '#[derive(Copy, Clone)]\npub enum RegOp {\n' + '\n'.join('    %s(%s),' % (v, ', '.join(fs)) for v, fs in vs) + '\n}\n'
    i, j, k = rsx.find_item(bc, r'^enum BytecodeOp\b', 0, 'enum BytecodeOp')
    bop = bc[i:k]
    bop = re.sub(r'#\[derive\([^\]]*\)\]\n', '', bop)
    bop = re.sub(r'#\[expect\([^\]]*\)\]\n', '', bop)
    if '#[repr(u8)]' not in bop:
        raise ExtractError('enum BytecodeOp is no longer #[repr(u8)]')
    bop = '#[derive(Copy, Clone)]\n' + bop.replace('enum BytecodeOp', 'pub enum BytecodeOp')
    declared, bv = bop_variants(bop[bop.index('pub enum'):])
    # variant attributes (strum) have no meaning for the verifier; the enum is re-rendered from the declared tags
    bop = '#[derive(Copy, Clone)]\n#[repr(u8)]\npub enum BytecodeOp {\n' + '\n'.join('    %s,' % v for v in declared) + '\n}'
    i, j, k = rsx.find_item(bc, r'^impl From<RegOp> for BytecodeOp', 0, 'impl From<RegOp> for BytecodeOp')
    frm = bc[i:k]
    i, j, k = rsx.find_item(bc, r'^struct Bytecode\b', 0, 'struct Bytecode')
    st = bc[i:k].replace('struct Bytecode', 'pub struct Bytecode').replace('    reg_count', '    pub reg_count').replace('    mem_count', '    pub mem_count').replace('    data', '    pub data')
    a, b = rsx.impl_block(bc, r'^impl Bytecode\b', 'impl Bytecode')
    i2, j2, k2 = rsx.find_fn(bc, 'new', a, b)
    new = bc[rsx.line_start(bc, i2):k2]
    trace.items.append((BC_RS, 'enum BytecodeOp, impl From<RegOp> for BytecodeOp, struct Bytecode, Bytecode::new'))
    trace.drop('Bytecode::{len, data, reg_count, mem_count, as_bytes} (accessors; as_bytes is zerocopy), iter_ops (strum iterator), ReservedRegister (thiserror derive: unit struct kept)')
    # R-iter
    old = '        for op in t.iter_asm() {\n'
    if new.count(old) != 1:
        raise ExtractError('R-iter: loop header of Bytecode::new changed')
    new = new.replace(old, '        let ops_ = t.iter_asm_vec();   // R-iter: t.iter_asm() collected\n        let mut k_: usize = 0;\n        while k_ < ops_.len()\n/*@inv*/        {\n            let op = ops_[k_];\n            k_ += 1;\n')
    trace.fire('R-iter')
    # R-closure-lift: the FnMut closure `store_reg` (captures &map, &mut reg_count, &mut word) becomes a function that takes its
    # captures as parameters; every call passes them (lambda lifting; Verus has no closures that capture mutable state)
    m = re.search(r'^( *)let mut store_reg = \|i, r\| \{\n', new, re.M)
    if not m:
        raise ExtractError('R-closure-lift: closure store_reg of Bytecode::new changed')
    ob = m.end() - 2
    cb = rsx.match_brace(new, ob)
    if new[cb + 1] != ';':
        raise ExtractError('R-closure-lift: closure is not a let statement')
    cl_body = new[ob + 1:cb]
    new = new[:m.start()] + new[cb + 3:]
    new, n = re.subn(r'\bstore_reg\((\d), (\w+)\)\?', r'store_reg_(&map, &mut reg_count, &mut word, \1, \2)?', new)
    if n == 0 or re.search(r'\bstore_reg\(', new):
        raise ExtractError('R-closure-lift: a call of store_reg has an unexpected shape')
    for cap in ('map', 'reg_count', 'word'):
        if not re.search(r'\b%s\b' % cap, cl_body):
            raise ExtractError('R-closure-lift: closure no longer captures %s' % cap)
    # a captured `&mut` scalar is used through a dereference in the lifted function
    lifted_body, nrc = re.subn(r'\breg_count\b', '(*reg_count)', re.sub(r'^        ', '', cl_body, flags=re.M))
    if nrc == 0:
        raise ExtractError('R-closure-lift: reg_count is not used by the closure')
    lifted = ('fn store_reg_(map: &HashMap<u8, u8>, reg_count: &mut u8, word: &mut [u8; 4], i: usize, r: u8) -> Result<(), ReservedRegister>\n{' + lifted_body + '}\n')
    trace.fire('R-closure-lift', n)
    # R-hashindex
    if lifted.count('let r = map[&r];') != 1:
        raise ExtractError('R-hashindex: map lookup in store_reg changed')
    lifted = lifted.replace('let r = map[&r];', 'let r = *map.get(&r).unwrap();   // R-hashindex')
    trace.fire('R-hashindex')
    # R-extend-array
    m = re.search(r'^( *)data\.extend\(\[([^\]]*)\]\);', new, re.M)
    if not m or len(re.findall(r'data\.extend\(', new)) != 1:
        raise ExtractError('R-extend-array: trailer of Bytecode::new changed')
    new = new[:m.start()] + m.group(1) + ' '.join('data.push(%s);' % e.strip() for e in m.group(2).split(',')) + '   // R-extend-array' + new[m.end():]
    trace.fire('R-extend-array')
    old = 'data.push(u32::from_le_bytes(word));'
    if new.count(old) != 1:
        raise ExtractError('R-wrap: from_le_bytes call changed')
    new = new.replace(old, 'data.push(from_le_bytes_(word));   // R-wrap')
    trace.fire('R-wrap')
    text = ('use vstd::prelude::*;\nuse vstd::std_specs::convert::*;\nuse std::collections::HashMap;\nverus! {\n' + regop + '\n' + bop + '\n\n' + frm + '\n\npub struct ReservedRegister;\n\n' + st + '\n\n'
            + lifted + '\nimpl Bytecode {\n' + new + '\n}\n\n' + gen_specs(vs, bv) + '\n} // verus!\nfn main() {}\n')
    inj = Injector(text, trace)
    inj.spec('store_reg_', 'res: Result<(), ReservedRegister>', STORE_REG_SPEC)
    inj.proof('store_reg_', '$START', '        broadcast use vstd::std_specs::hash::group_hash_axioms;')
    inj.spec('Bytecode::new', 'r: Result<Self, ReservedRegister>', NEW_SPEC)
    inj.attr('Bytecode::new', '#[verifier::loop_isolation(false)]')
    inj.proof('Bytecode::new', '$START', '        broadcast use vstd::std_specs::hash::group_hash_axioms;')
    inj.replace_once('/*@inv*/', LOOP_INV, 'R-iter')
    inj.proof('Bytecode::new', '            k_ += 1;', '            proof { assert(op == t.ops()[k_ - 1]); assert(covers(op, map@)); assert(mem_in_range(op, N as int)); }')
    inj.proof('Bytecode::new', 'word[0] = BytecodeOp::from(op) as u8;', '            proof { lemma_opc(op); assert(word@ =~= enc_word(op, map@)); assert(imm.unwrap_or(0xFF000000) == enc_imm(op, N as int)); }\n            let ghost dprev_ = data@;')
    inj.proof('Bytecode::new', 'data.push(imm.unwrap_or(0xFF000000));', """            proof {
                assert forall|k: int| 0 <= k < k_ implies #[trigger] emitted(data@, t.ops(), map@, N as int, k) by {
                    if k < k_ - 1 { assert(emitted(dprev_, t.ops(), map@, N as int, k)); }
                }
            }""")
    inj.proof('Bytecode::new', '   // R-extend-array', '        let ghost dloop_ = data@;', before=True)
    inj.proof('Bytecode::new', '   // R-extend-array', """        proof {
            assert forall|k: int| 0 <= k < t.ops().len() implies #[trigger] emitted(data@, t.ops(), map@, N as int, k) by {
                assert(emitted(dloop_, t.ops(), map@, N as int, k));
            }
        }""")
    m = re.search(r'    fn from\(op: RegOp\) -> Self \{', inj.s)
    if not m:
        raise ExtractError('From<RegOp> for BytecodeOp::from changed')
    inj.s = inj.s[:m.start()] + '    fn from(op: RegOp) -> (r: Self)\n        ensures r == bop_spec(op)\n    {' + inj.s[m.end():]
    inj.append_items(PRELUDE)
    obls = [Obligation('bytecode::Bytecode::new', 'bytecode', 'Bytecode::new', props=PROPS, rlimit=200),
            Obligation('bytecode::store_reg (closure of Bytecode::new, lifted)', 'bytecode', 'store_reg_', props=PROPS),
            Obligation('bytecode::<BytecodeOp as From<RegOp>>::from', 'bytecode', 'BytecodeOp::from', props=PROPS),
            Obligation('bytecode::lemma_opc', 'bytecode', 'lemma_opc', props=PROPS, kind='lemma'),
            Obligation('bytecode::lemma_decode_encode', 'bytecode', 'lemma_decode_encode', props=PROPS, kind='lemma')]
    return {'texts': {'base': inj.s}, 'obligations': obls, 'canary_fns': ['Bytecode::new', 'store_reg_']}
