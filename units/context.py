"""Unit `context`: the expression constructors of fidget-core/src/context/mod.rs on their real text (C12, constructor clause).

Every constructor `Context::{add, mul, min, max, and, or, not, neg, .., sub, div, atan2, compare, mix, rand, less_than,
less_than_or_equal, modulo, if_nonzero_else, square, ..}` is proved to return a node whose meaning `sem` (the
operation-by-operation evaluation that `Context::eval` performs: `Op::Binary(op, a, b)` means `op.eval(sem a, sem b)`) is
the f32 operation applied to the meanings of the operands: exactly for the constructors without rewrites, and up to the
sign of a zero result and under the property's finiteness hedge for those with rewrites (x+0, 0+x, x+x, x*1, x*0, x-0,
0-x, 0/x, x/1, and/or with a constant, min/max(x, x), operand reordering of commutative ops).  The arena only grows and
keeps the meaning of every existing node (`ext`, `lemma_sem_ext`).  The real `BinaryOpcode::eval` / `UnaryOpcode::eval` are
verified against the reference meaning `bin_sem` / `un_sem`.

Trusted: the hash-consing arena `IndexMap` (HashMap entry API) is a stub whose contract is "returns an index holding the
value; existing entries are unchanged" (deduplication is NOT claimed); `Var`, `OrderedFloat` are local stand-ins for the
external types; `Context::eval` (HashMap, closure recursion) is not under contract: `sem` is its specification.  The float
identities the rewrites rely on are axioms here and are each discharged for all f32 bit patterns by a Kani harness
(kani/leaf/src/ctxax.rs)."""
import re
from lib import rsx
from lib.rsx import ExtractError
from lib.verus_engine import Injector, Obligation, locate_fn

MOD_RS = 'fidget-core/src/context/mod.rs'
OP_RS = 'fidget-core/src/context/op.rs'
FLOAT_RS = 'fidget-core/src/types/float.rs'
PROPS = ['C12']

UNARY = ['not', 'neg', 'recip', 'abs', 'sqrt', 'sin', 'cos', 'tan', 'asin', 'acos', 'atan', 'exp', 'ln', 'square', 'floor', 'ceil', 'round', 'rand']
UNARY_OP = {'not': 'Not', 'neg': 'Neg', 'recip': 'Recip', 'abs': 'Abs', 'sqrt': 'Sqrt', 'sin': 'Sin', 'cos': 'Cos', 'tan': 'Tan', 'asin': 'Asin',
            'acos': 'Acos', 'atan': 'Atan', 'exp': 'Exp', 'ln': 'Ln', 'square': 'Square', 'floor': 'Floor', 'ceil': 'Ceil', 'round': 'Round', 'rand': 'Rand'}
BIN_EXACT = {'atan2': ('Atan', 'y', 'x'), 'compare': ('Compare', 'a', 'b'), 'mix': ('Mix', 'a', 'b'), 'modulo': ('Mod', 'a', 'b')}
BIN_REWRITE = {'add': 'Add', 'mul': 'Mul', 'sub': 'Sub', 'div': 'Div', 'min': 'Min', 'max': 'Max', 'and': 'And', 'or': 'Or'}

F1 = ['abs', 'sqrt', 'floor', 'ceil', 'round', 'sin', 'cos', 'tan', 'asin', 'acos', 'atan', 'exp', 'ln']
F2 = ['atan2', 'rem_euclid']


def norm(s):
    return re.sub(r'\s+', '', s)


def extract_floatext(repo, trace):
    """trait FloatExt as in unit vm (stubs with uninterpreted meanings fx_*)."""
    from units.vm import extract_floatext as f
    return f(repo, trace)


def choice_enum(repo, trace):
    src = rsx.clean(open('%s/fidget-core/src/vm/choice.rs' % repo).read(), trace)
    en = rsx.get_item(src, r'^enum Choice\b', 0, 'enum Choice')
    en = re.sub(r'#\[repr\(u8\)\]\n', '', en)
    trace.items.append(('fidget-core/src/vm/choice.rs', 'enum Choice'))
    return en.replace('enum Choice', 'pub enum Choice')


def r_floatpat(fn, trace):
    """R-floatpat: `match (self.get_const(a), self.get_const(b)) { (Ok(L), _) => E, (_, Ok(L)) => E, .., _ => E }` becomes an
    if-chain over `okf_eq(&m0_, L)` / `okf_eq(&m1_, L)` (a float literal pattern matches v iff `v == L`)."""
    m = re.search(r'match \(self\.get_const\((\w+)\), self\.get_const\((\w+)\)\) \{', fn)
    if not m:
        return fn
    ob = m.end() - 1
    cb = rsx.match_brace(fn, ob)
    body = fn[ob + 1:cb]
    arms = [a.strip() for a in rsx.split_top(body) if a.strip()]
    conds = []
    for a in arms:
        pat, expr = a.split('=>', 1)
        pat = norm(pat)
        expr = expr.strip()
        m1 = re.match(r'^\(Ok\((-?[0-9.]+)\),_\)$', pat)
        m2 = re.match(r'^\(_,Ok\((-?[0-9.]+)\)\)$', pat)
        if m1:
            conds.append(('okf_eq(&m0_, %s)' % m1.group(1), expr))
        elif m2:
            conds.append(('okf_eq(&m1_, %s)' % m2.group(1), expr))
        elif pat == '_':
            conds.append((None, expr))
        else:
            raise ExtractError('R-floatpat: unexpected arm pattern %r' % pat)
    if conds[-1][0] is not None:
        raise ExtractError('R-floatpat: no wildcard arm')
    ind = ' ' * 12
    out = '{ let m0_ = self.get_const(%s); let m1_ = self.get_const(%s);   // R-floatpat\n' % (m.group(1), m.group(2))
    for i, (c, e) in enumerate(conds):
        # R-tail: the value of each branch is named so that a proof block can follow it
        if c is None:
            out += ind + 'else { /*@b%d*/ let r_ = %s; /*@e%d*/ r_ }\n' % (i, e, i)
        else:
            out += ind + ('if' if i == 0 else 'else if') + ' %s { /*@b%d*/ let r_ = %s; /*@e%d*/ r_ }\n' % (c, i, e, i)
    out += ind + '}'
    trace.fire('R-floatpat')
    return fn[:m.start()] + out + fn[cb + 1:]


def annotate_ifnz(f, trace):
    """Context::if_nonzero_else: remember the arena after each inner constructor call and name the tail value (R-tail)"""
    seq = [('        let lhs = self.and(condition, a)?;\n', 4), ('        let n_condition = self.not(condition)?;\n', 5), ('        let rhs = self.and(n_condition, b)?;\n', 6)]
    for line, k in seq:
        if f.count(line) != 1:
            raise ExtractError('Context::if_nonzero_else changed: %r' % line.strip())
        f = f.replace(line, line + '        let ghost o%d_ = self.ops@;\n        proof { lemma_sem_ext_all(o%d_, o%d_); lemma_ext_trans(o0_, o%d_, o%d_); }\n' % (k, k - 1, k, k - 1, k))
    old = '        self.or(lhs, rhs)\n'
    if f.count(old) != 1:
        raise ExtractError('Context::if_nonzero_else tail changed')
    f = f.replace(old, '        let r_ = self.or(lhs, rhs);\n        /*@e:sel*/\n        r_\n')
    trace.fire('R-tail')
    return f


TAILS = {
    'add': [('            self.mul(a, two)\n', 'x')],
    'mul': [('            self.square(a)\n', 'x')],
    'and': [('            if v.0 == 0.0 { Ok(a) } else { Ok(b) }\n', 'c'), ('            self.op_binary(a, b, BinaryOpcode::And)\n', 'n')],
    'or': [('        self.op_binary(a, b, BinaryOpcode::Or)\n', 'n')],
}


def name_tails(name, f, trace):
    """R-tail for the branch values that R-floatpat does not touch: `EXPR` in tail position becomes
    `let r_ = EXPR; /*@e:TAG*/ r_`; `return Ok(v);` in Context::or becomes `{ /*@ret:K*/ return Ok(v); }`"""
    for old, tag in TAILS.get(name, []):
        if f.count(old) != 1:
            raise ExtractError('R-tail: branch tail of Context::%s changed: %r' % (name, old.strip()))
        ind = old[:len(old) - len(old.lstrip())]
        f = f.replace(old, '%slet r_ = %s;\n%s/*@e:%s*/\n%sr_\n' % (ind, old.strip(), ind, tag, ind))
        trace.fire('R-tail')
    if name == 'or':
        k = [0]
        def rep(m):
            k[0] += 1
            return '%s/*@ret:%d*/\n%sreturn Ok(%s);' % (m.group(1), k[0], m.group(1), m.group(2))
        f, n = re.subn(r'^(\s*)return Ok\((\w)\);', rep, f, flags=re.M)
        if n != 3:
            raise ExtractError('R-tail: Context::or no longer has 3 early returns')
    return f


def annotate_operands(f):
    """ghost bookkeeping for constructors generic over `IntoNode`: remember each operand and the arena before/after each
    `into_node`, and invoke the trait's monotonicity law for the operands still to be converted"""
    ms = list(re.finditer(r'^(\s*)let (\w+)(?:: Node)? = (\w+)\.into_node\(self\)\?;\n', f, re.M))
    if not ms:
        return f
    params = [m.group(3) for m in ms]
    out = []
    pos = 0
    for k, m in enumerate(ms):
        out.append(f[pos:m.end()])
        ind = m.group(1)
        lines = ['%slet ghost o%d_ = self.ops@;' % (ind, k + 1)]
        pf = ['lemma_sem_ext_all(o%d_, o%d_);' % (k, k + 1), 'lemma_ext_trans(o0_, o%d_, o%d_);' % (k, k + 1)]
        for later in params[k + 1:]:
            pf.append('if %s0_.valid(o0_) { %s0_.lemma_mono(o0_, o%d_); }' % (later, later, k + 1))
        for earlier in params[:k]:
            pass
        lines.append('%sproof { %s }' % (ind, ' '.join(pf)))
        if k == len(ms) - 1:
            # operand facts: in the final arena each node handle means what its operand meant at the start
            for mm in ms:
                v, pr = mm.group(2), mm.group(3)
                lines.append('%sproof { if %s0_.valid(o0_) { assert forall|env: Env| %s0_.rep(o0_, env, #[trigger] sem(o%d_, %s.0 as int, env)) by {} } }' % (ind, pr, pr, k + 1, v))
        out.append('\n'.join(lines) + '\n')
        pos = m.end()
    out.append(f[pos:])
    f = ''.join(out)
    # ghost copies of the operands and the initial arena at the start of the body
    j = rsx.find_fn(f, re.search(r'fn (\w+)', f).group(1))[1]
    ghosts = '\n        let ghost o0_ = self.ops@;' + ''.join('\n        let ghost %s0_ = %s;' % (p_, p_) for p_ in params)
    return f[:j + 1] + ghosts + f[j + 1:]


EVAL_STATIC = r'''
pub enum EvalError { MissingVar(Var), BadNode(BadNode) }   // variants checked against the real enum (thiserror derive dropped)
/// R-indexvec: `IndexVec<Option<f32>, Node>` is a Vec indexed by `Node` (`cache[node]` is `cache.data[node.0]`, checked against indexed.rs)
pub struct IndexVec { pub data: Vec<Option<f32>> }
impl IndexVec {
    pub fn len(&self) -> (r: usize) ensures r == self.data@.len() { self.data.len() }
}
/// R-vecmacro: `vec![None; n].into()`
#[verifier::external_body]
pub fn cache_new(n: usize) -> (r: IndexVec) ensures r.data@.len() == n, forall|i: int| 0 <= i < n ==> r.data@[i] is None { unimplemented!() }
/// the assignment the map of supplied values stands for (a variable that is not supplied may have any value: evaluation fails before it is read)
pub open spec fn env_of(vars: Map<Var, f32>, dflt: Env) -> Env { |v: Var| if vars.dom().contains(v) { vars[v] } else { dflt(v) } }
/// every cached value is the meaning of its node
pub open spec fn cache_ok(ops: Seq<Op>, cache: Seq<Option<f32>>, env: Env) -> bool {
    forall|k: int| 0 <= k < cache.len() && k < ops.len() ==> (#[trigger] cache[k] is Some ==> cache[k]->Some_0 == sem(ops, k, env))
}
'''
EVAL_SPEC = """
        requires wf(self.ops@), vstd::std_specs::hash::obeys_key_model::<Var>(),
        // Context::eval computes `sem`: the meaning the constructor contracts are stated in
        ensures r is Ok ==> forall|d: Env| r->Ok_0 == sem(self.ops@, root.0 as int, #[trigger] env_of(vars@, d)),
            (r is Err && r->Err_0 is BadNode) ==> root.0 >= self.ops@.len(),
            (r is Err && r->Err_0 is MissingVar) ==> !vars@.dom().contains(r->Err_0->MissingVar_0)
"""
EVAL_INNER_SPEC = """
        requires wf(self.ops@), vstd::std_specs::hash::obeys_key_model::<Var>(), old(cache).data@.len() == self.ops@.len(),
            forall|d: Env| cache_ok(self.ops@, old(cache).data@, #[trigger] env_of(vars@, d)),
        ensures final(cache).data@.len() == self.ops@.len(),
            forall|d: Env| cache_ok(self.ops@, final(cache).data@, #[trigger] env_of(vars@, d)),
            r is Ok ==> forall|d: Env| r->Ok_0 == sem(self.ops@, node.0 as int, #[trigger] env_of(vars@, d)),
            (r is Err && r->Err_0 is BadNode) ==> node.0 >= self.ops@.len(),
            (r is Err && r->Err_0 is MissingVar) ==> !vars@.dom().contains(r->Err_0->MissingVar_0)
        decreases node.0
"""


def build_eval(src, a, b, trace):
    """Context::eval / eval_inner on their real text: R-vecmacro (the cache), R-indexvec (`cache[node]`), R-closure-inline (the one-line
    closure `get` that only forwards to `self.eval_inner(n, vars, cache)` is replaced by that call at its three call sites)"""
    i, j, k = rsx.find_fn(src, 'eval', a, b)
    f_eval = src[rsx.line_start(src, i):k]
    f_eval, n = re.subn(r'vec!\[None; ([^\]]+)\]\.into\(\)', r'cache_new(\1)', f_eval)
    if n != 1:
        raise ExtractError('Context::eval: R-vecmacro site changed')
    trace.fire('R-vecmacro')
    i, j, k = rsx.find_fn(src, 'eval_inner', a, b)
    f_in = src[rsx.line_start(src, i):k]
    f_in, n = re.subn(r'cache: &mut IndexVec<Option<f32>, Node>', 'cache: &mut IndexVec', f_in)
    if n != 1:
        raise ExtractError('Context::eval_inner: cache parameter changed')
    f_in, n = re.subn(r'\bcache\[(\w+)\]', r'cache.data[\1.0]', f_in)
    trace.fire('R-indexvec', n + 1)
    m = re.search(r'\n\s*let mut get = \|n: Node\| self\.eval_inner\(n, vars, cache\);', f_in)
    if not m:
        raise ExtractError('Context::eval_inner: R-closure-inline: the closure `get` changed')
    f_in = f_in[:m.start()] + f_in[m.end():]
    f_in, n = re.subn(r'(?<![\.\w])get\(([^()]+)\)', r'self.eval_inner(\1, vars, cache)', f_in)
    if n < 1:
        raise ExtractError('Context::eval_inner: no call of `get`')
    trace.fire('R-closure-inline', n)
    return f_eval, f_in


def build(repo, trace):
    src = rsx.clean(open('%s/%s' % (repo, MOD_RS)).read(), trace)
    ops = rsx.clean(open('%s/%s' % (repo, OP_RS)).read(), trace)
    # ---- op.rs: the two opcode enums, enum Op and the two eval functions
    un = rsx.get_item(ops, r'^enum UnaryOpcode\b', 0, 'enum UnaryOpcode')
    bn = rsx.get_item(ops, r'^enum BinaryOpcode\b', 0, 'enum BinaryOpcode')
    op = rsx.get_item(ops, r'^enum Op\b', 0, 'enum Op')
    for nm in ('UnaryOpcode', 'BinaryOpcode'):
        pass
    fix = lambda t, name: re.sub(r'#\[derive\([^\]]*\)\]', '#[derive(Copy, Clone, PartialEq, Eq, Structural)]', t).replace('enum ' + name, 'pub enum ' + name)
    un, bn = fix(un, 'UnaryOpcode'), fix(bn, 'BinaryOpcode')
    op = re.sub(r'#\[derive\([^\]]*\)\]', '#[derive(Copy, Clone)]', op).replace('enum Op', 'pub enum Op')
    trace.fire('R-derive-structural', 2)
    a, b = rsx.impl_block(ops, r'^impl BinaryOpcode\b', 'impl BinaryOpcode')
    i, j, k = rsx.find_fn(ops, 'eval', a, b)
    bin_eval = ops[rsx.line_start(ops, i):k]
    a, b = rsx.impl_block(ops, r'^impl UnaryOpcode\b', 'impl UnaryOpcode')
    i, j, k = rsx.find_fn(ops, 'eval', a, b)
    un_eval = ops[rsx.line_start(ops, i):k]
    un_eval, n = re.subn(r'=> -a,', '=> neg_(a),', un_eval)
    trace.fire('R-neg', n)
    trace.items += [(OP_RS, 'enum UnaryOpcode, enum BinaryOpcode, enum Op, UnaryOpcode::eval, BinaryOpcode::eval')]
    # ---- mod.rs: Node (define_index!), Context, constructors, IntoNode
    if 'define_index!(Node,' not in src:
        raise ExtractError('define_index!(Node, ..) lost')
    idx = rsx.clean(open('%s/fidget-core/src/context/indexed.rs' % repo).read(), trace)
    if not re.search(r'struct \$name\(usize\);', idx):
        raise ExtractError('R-macro: define_index! no longer expands to a usize newtype')
    trace.fire('R-macro')
    node = '#[derive(Copy, Clone, PartialEq, Eq, Structural)]\npub struct Node(pub usize);   // R-macro: define_index!(Node, ..)\n'
    # R-derive-ord: `a.min(b)` / `a.max(b)` on Node come from the derived Ord of the usize newtype
    node += ('impl Node {\n    /// R-derive-ord: derived `Ord::min` of a usize newtype\n    pub fn min(self, o: Node) -> (r: Node) ensures r.0 == (if self.0 <= o.0 { self.0 } else { o.0 }) { if self.0 <= o.0 { self } else { o } }\n'
             '    /// R-derive-ord: derived `Ord::max` of a usize newtype\n    pub fn max(self, o: Node) -> (r: Node) ensures r.0 == (if o.0 >= self.0 { o.0 } else { self.0 }) { if o.0 >= self.0 { o } else { self } }\n}\n')
    trace.fire('R-derive-ord')
    ctx = rsx.get_item(src, r'^struct Context\b', 0, 'struct Context')
    ctx = re.sub(r'#\[derive\([^\]]*\)\]\n', '', ctx).replace('struct Context', 'pub struct Context').replace('    ops: IndexMap<Op, Node>,', '    pub ops: IndexMap,')
    ctx = re.sub(r'^    (?!pub )(\w+):', r'    pub \1:', ctx, flags=re.M)   # a field added by an edit must not make the struct opaque to the contracts
    a, b = rsx.impl_block(src, r'^impl Context\b', 'impl Context')
    names = (['check_node', 'get_const', 'get_op', 'var', 'x', 'y', 'z', 'constant', 'op_unary', 'op_binary', 'op_binary_commutative']
             + list(BIN_REWRITE) + UNARY + list(BIN_EXACT) + ['less_than', 'less_than_or_equal', 'if_nonzero_else'])
    fns = []
    for name in names:
        i, j, k = rsx.find_fn(src, name, a, b)
        f = src[rsx.line_start(src, i):k]
        f = r_floatpat(f, trace)
        if name == 'or':
            # R-letchain: `else if let P = E && C { B }` (no else branch following) -> `else if let P = E { if C { B } }`
            f, n = re.subn(r'else if let (Op::Const\(v\)) = (op_b)\s*\n\s*&& (v\.0 == 0\.0)\s*\n\s*\{\n(\s*return Ok\(a\);\n)\s*\}\n(\s*self\.op_binary)',
                          r'else if let \1 = \2 { if \3 {   // R-letchain\n\4        } }\n\5', f)
            if n != 1:
                raise ExtractError('R-letchain: shape of the let chain in Context::or changed')
            trace.fire('R-letchain', n)
        f = annotate_operands(f)
        f = name_tails(name, f, trace)
        if name == 'if_nonzero_else':
            f = annotate_ifnz(f, trace)
        fns.append(f)
        trace.items.append((MOD_RS, 'Context::' + name))
    eval_ok = False
    try:
        f_eval, f_in = build_eval(src, a, b, trace)
        idxsrc = rsx.clean(open('%s/fidget-core/src/context/indexed.rs' % repo).read(), trace)
        if len(re.findall(r'fn index\(&self, i: I\) -> &V \{\s*&self\.data\[i\.get\(\)\]\s*\}', idxsrc)) != 1 or len(re.findall(r'fn index_mut\(&mut self, i: I\) -> &mut V \{\s*&mut self\.data\[i\.get\(\)\]\s*\}', idxsrc)) != 1 \
                or not re.search(r'fn get\(&self\) -> usize \{\s*self\.0\s*\}', idxsrc):
            raise ExtractError('IndexVec Index impls changed: R-indexvec not applicable')
        ee = rsx.get_item(src, r'^enum EvalError\b', 0, 'enum EvalError')
        if 'MissingVar(Var)' not in ee or not re.search(r'BadNode\((?:#\[from\] )?BadNode\)', ee) or ee.count('(') - ee.count('#[') > 3:
            raise ExtractError('enum EvalError changed')
        fns += [f_eval, f_in]
        trace.items += [(MOD_RS, 'Context::eval'), (MOD_RS, 'Context::eval_inner')]
        eval_ok = True
    except ExtractError as e:
        trace.lost = getattr(trace, 'lost', {})
        for q_ in ('Context::eval', 'Context::eval_inner'):
            trace.lost.setdefault(q_, []).append('not extracted: %s' % e)
    body = 'impl Context {\n' + '\n\n'.join(fns) + '\n}\n'
    body, n = re.subn(r'\.map\(\|_\| \(\)\)', '.map(|x_| ())', body)
    trace.fire('R-closure-underscore', n)
    i, j, k = rsx.find_item(src, r'^trait IntoNode\b', 0, 'trait IntoNode')
    tr = src[i:k].replace('trait IntoNode', 'pub trait IntoNode: Sized')
    i1, j1, k1 = rsx.find_item(src, r'^impl IntoNode for Node\b', 0, 'impl IntoNode for Node')
    i2, j2, k2 = rsx.find_item(src, r'^impl IntoNode for f32\b', 0, 'impl IntoNode for f32')
    impls = src[i1:k1] + '\n\n' + src[i2:k2]
    trace.items.append((MOD_RS, 'trait IntoNode, impl IntoNode for Node, impl IntoNode for f32'))
    trace.drop('Context::{import, export, deriv, from_text, dot, ..} (HashMap, closures, recursion, IO): not under contract; '
               'IndexMap (HashMap entry API): stub; Var, OrderedFloat: local stand-ins')
    text = ('use vstd::prelude::*;\nuse vstd::std_specs::ops::*;\nuse vstd::std_specs::cmp::*;\nuse vstd::std_specs::convert::*;\nuse core::cmp::Ordering;\nuse std::collections::HashMap;\nverus! {\n'
            + node + '\n' + un + '\n\n' + bn + '\n\n' + op + '\n\n' + choice_enum(repo, trace) + '\n' + extract_floatext(repo, trace) + '\n'
            + 'impl BinaryOpcode {\n' + bin_eval + '\n}\n\nimpl UnaryOpcode {\n' + un_eval + '\n}\n\n'
            + ctx + '\n\n' + body + '\n' + tr + '\n\n' + impls + '\n} // verus!\nfn main() {}\n')
    from units import context_spec as SP
    inj = Injector(text, trace)
    gen = SP.generate(UNARY, UNARY_OP, BIN_EXACT, BIN_REWRITE, F1, F2)
    for old, new in gen['replace']:
        if old.startswith('@@'):
            # marker inside one function: '@@Type::fn@@marker'
            _, q, marker = old.split('@@')
            i, j, k = locate_fn(inj.s, q)
            seg = inj.s[i:k]
            if seg.count(marker) != 1:
                raise ExtractError('branch marker %s lost in %s' % (marker, q))
            inj.s = inj.s[:i] + seg.replace(marker, new) + inj.s[k:]
        else:
            inj.replace_once(old, new, 'R-spec-in-trait')
    for q, (ret, t) in gen['specs'].items():
        inj.spec(q, ret, t)
    for (q, anchor, occ, before, proof) in gen['proofs']:
        inj.proof(q, anchor, proof, occ=occ, before=before)
    inj.append_items(gen['prelude'])
    if eval_ok:
        inj.append_items(EVAL_STATIC)
        inj.spec('Context::eval', 'r: Result<f32, EvalError>', EVAL_SPEC)
        inj.spec('Context::eval_inner', 'r: Result<f32, EvalError>', EVAL_INNER_SPEC)
        inj.proof('Context::eval_inner', '$START', '        broadcast use vstd::std_specs::hash::group_hash_axioms;')
        s_ = inj.s
        s_ = s_.replace('#[derive(Copy, Clone)]\npub enum Var { X, Y, Z, V(u64) }', '#[derive(Copy, Clone, PartialEq, Eq, Hash)]\npub enum Var { X, Y, Z, V(u64) }')
        s_ = s_.replace('    pub uninterp spec fn view(&self) -> Seq<Op>;\n', '    pub uninterp spec fn view(&self) -> Seq<Op>;\n    /// IndexMap::len: the number of stored values\n    #[verifier::external_body]\n    pub fn len(&self) -> (r: usize) ensures r == self@.len() { unimplemented!() }\n', 1)
        inj.s = s_
    # the two opcode evaluators are also C01's "reference meaning of each opcode"
    obls = [Obligation('context::' + f, 'context', f, props=PROPS + (['C01'] if f in ('BinaryOpcode::eval', 'UnaryOpcode::eval') else [])) for f in gen['exec_fns']]
    obls += [Obligation('context::' + f, 'context', f, props=PROPS, kind='lemma') for f in gen['lemmas']]
    if eval_ok:
        for f in ('Context::eval', 'Context::eval_inner'):
            obls.append(Obligation('context::' + f, 'context', f, props=PROPS + ['C01'], note='Context::eval computes sem: the reference meaning of a graph node that C01 and C12 are stated against'))
    return {'texts': {'base': inj.s}, 'obligations': obls, 'canary_fns': gen['canaries']}
