"""Reference semantics of SsaOp / RegOp, generated from the variant lists parsed out of op.rs.

One uninterpreted tag per opcode *base name*: `XReg -> un_sem(T,a)`, `XRegReg -> bin_sem(T,a,b)`,
`XRegImm -> bin_sem(T,a,imm)`, `XImmReg -> bin_sem(T,imm,a)`, `CopyReg -> identity`.  The same rule is
applied to both enums, i.e. the spec says "a RegOp variant means what the SsaOp variant of the same
name means"; whether the interpreter implements each RegOp variant that way is the bounded
interpreter leg, not this unit.
"""
import re
from lib.rsx import ExtractError


def split_variant(v):
    """-> (base, form) with form in {'Reg','RegImm','ImmReg','RegReg'} or special."""
    if v in ('Output', 'Input', 'CopyImm', 'Load', 'Store'):
        return v, 'special'
    for form in ('RegReg', 'RegImm', 'ImmReg', 'Reg'):
        if v.endswith(form):
            return v[:-len(form)], form
    raise ExtractError('unknown opcode variant shape: %s' % v)


class Sem:
    def __init__(self, enums):
        self.enums = enums
        self.bases = []
        for v, fs in enums['SsaOp']:
            b, form = split_variant(v)
            if form == 'special':
                continue
            if b not in self.bases:
                self.bases.append(b)
        # field-type sanity: the form suffix must agree with the field types
        for en, t in (('SsaOp', 'u32'), ('RegOp', 'u8')):
            for v, fs in enums[en]:
                b, form = split_variant(v)
                want = {'Reg': [t, t], 'RegImm': [t, t, 'f32'], 'ImmReg': [t, t, 'f32'], 'RegReg': [t, t, t]}.get(form)
                if form == 'special':
                    want = {'Output': [t, 'u32'], 'Input': [t, 'u32'], 'CopyImm': [t, 'f32'], 'Load': ['u8', 'u32'], 'Store': ['u8', 'u32']}[v]
                if fs != want:
                    raise ExtractError('%s::%s has fields %s, expected %s' % (en, v, fs, want))
        ssa_names = [v for v, _ in enums['SsaOp']]
        reg_names = [v for v, _ in enums['RegOp']]
        if reg_names[:len(ssa_names)] != ssa_names or reg_names[len(ssa_names):] != ['Load', 'Store']:
            raise ExtractError('RegOp is no longer SsaOp + Load + Store')

    def tag(self, base, arity):
        i = self.bases.index(base)
        return 2 * i + (1 if arity == 1 else 0)

    def fn_of(self, v, imm='imm'):
        """spec-level function term for variant v: ('un', term) / ('bin', term)."""
        b, form = split_variant(v)
        if b == 'Copy' and form == 'Reg':
            return 'un', 'f_id()'
        if form == 'Reg':
            return 'un', 'f_un(%d)' % self.tag(b, 1)
        if form == 'RegImm':
            return 'un', 'f_ri(%d, %s)' % (self.tag(b, 2), imm)
        if form == 'ImmReg':
            return 'un', 'f_ir(%d, %s)' % (self.tag(b, 2), imm)
        if form == 'RegReg':
            return 'bin', 'g_bin(%d)' % self.tag(b, 2)
        raise ExtractError(v)

    def kind(self, v):
        if v == 'Output': return 0
        if v in ('Input', 'CopyImm'): return 1
        form = split_variant(v)[1]
        return {'Reg': 2, 'RegImm': 3, 'ImmReg': 3, 'RegReg': 4}[form]

    def render(self):
        L = []
        A = L.append
        A('// ---- generated from the enum variant lists of op.rs (base name -> tag): %s' % ', '.join('%s=%d' % (b, 2 * i) for i, b in enumerate(self.bases)))
        A('spec fn f_un(tag: int) -> spec_fn(f32) -> f32 { |v: f32| un_sem(tag, v) }')
        A('spec fn f_id() -> spec_fn(f32) -> f32 { |v: f32| v }')
        A('spec fn f_ri(tag: int, imm: f32) -> spec_fn(f32) -> f32 { |v: f32| bin_sem(tag, v, imm) }')
        A('spec fn f_ir(tag: int, imm: f32) -> spec_fn(f32) -> f32 { |v: f32| bin_sem(tag, imm, v) }')
        A('spec fn g_bin(tag: int) -> spec_fn(f32, f32) -> f32 { |a: f32, b: f32| bin_sem(tag, a, b) }')
        A('spec fn c_imm(imm: f32) -> spec_fn(Seq<f32>) -> f32 { |i: Seq<f32>| imm }')
        A('spec fn c_inp(k: int) -> spec_fn(Seq<f32>) -> f32 { |i: Seq<f32>| i[k] }')
        A('spec fn reg_step(op: RegOp, st: St, inp: Seq<f32>) -> St {\n    match op {')
        for v, fs in self.enums['RegOp']:
            if v == 'Output':
                A('        RegOp::Output(r, i) => St { slots: st.slots, outs: st.outs.insert(i as int, st.slots[r as int]) },')
            elif v == 'Input':
                A('        RegOp::Input(r, i) => St { slots: st.slots.insert(r as int, c_inp(i as int)(inp)), outs: st.outs },')
            elif v == 'CopyImm':
                A('        RegOp::CopyImm(r, c) => St { slots: st.slots.insert(r as int, c_imm(c)(inp)), outs: st.outs },')
            elif v == 'Load':
                A('        RegOp::Load(r, m) => St { slots: st.slots.insert(r as int, st.slots[m as int]), outs: st.outs },')
            elif v == 'Store':
                A('        RegOp::Store(r, m) => St { slots: st.slots.insert(m as int, st.slots[r as int]), outs: st.outs },')
            else:
                ar, term = self.fn_of(v)
                if ar == 'un':
                    pat = '(o, a)' if len(fs) == 2 else '(o, a, imm)'
                    A('        RegOp::%s%s => St { slots: st.slots.insert(o as int, %s(st.slots[a as int])), outs: st.outs },' % (v, pat, term))
                else:
                    A('        RegOp::%s(o, a, b) => St { slots: st.slots.insert(o as int, %s(st.slots[a as int], st.slots[b as int])), outs: st.outs },' % (v, term))
        A('    }\n}')
        A('spec fn ssa_fe(op: SsaOp) -> FE {\n    match op {')
        for v, fs in self.enums['SsaOp']:
            if v == 'Output':
                A('        SsaOp::Output(a, i) => id_env(),')
            elif v == 'Input':
                A('        SsaOp::Input(o, i) => fe_def(o as int, c_inp(i as int)),')
            elif v == 'CopyImm':
                A('        SsaOp::CopyImm(o, c) => fe_def(o as int, c_imm(c)),')
            else:
                ar, term = self.fn_of(v)
                if ar == 'un':
                    pat = '(o, a)' if len(fs) == 2 else '(o, a, imm)'
                    A('        SsaOp::%s%s => fe_un(o as int, a as int, %s),' % (v, pat, term))
                else:
                    A('        SsaOp::%s(o, a, b) => fe_bin(o as int, a as int, b as int, %s),' % (v, term))
        A('    }\n}')
        A('spec fn ssa_fo(op: SsaOp) -> FO {\n    match op {\n        SsaOp::Output(a, i) => fo_output(i as int, a as int),\n        _ => id_outs(),\n    }\n}')
        A('spec fn ssa_kind(op: SsaOp) -> int {\n    match op {')
        for v, fs in self.enums['SsaOp']:
            A('        SsaOp::%s(..) => %d,' % (v, self.kind(v)))
        A('    }\n}')
        A('spec fn ssa_o(op: SsaOp) -> int {\n    match op {')
        for v, fs in self.enums['SsaOp']:
            A('        SsaOp::%s(o, ..) => o as int,' % v)
        A('    }\n}')
        A('spec fn ssa_a(op: SsaOp) -> int {\n    match op {')
        for v, fs in self.enums['SsaOp']:
            if self.kind(v) >= 2:
                A('        SsaOp::%s(_, a, ..) => a as int,' % v)
        A('        _ => 0,\n    }\n}')
        A('spec fn ssa_b(op: SsaOp) -> int {\n    match op {')
        for v, fs in self.enums['SsaOp']:
            if self.kind(v) == 4:
                A('        SsaOp::%s(_, _, b) => b as int,' % v)
        A('        _ => 0,\n    }\n}')
        # operand-range predicate for emitted ops
        A('spec fn op_ok(op: RegOp, n: int, slots: int) -> bool {\n    match op {')
        for v, fs in self.enums['RegOp']:
            if v in ('Load', 'Store'):
                A('        RegOp::%s(r, m) => (r as int) < n && n <= (m as int) < slots,' % v)
            elif v in ('Output', 'Input', 'CopyImm'):
                A('        RegOp::%s(r, _) => (r as int) < n,' % v)
            elif fs == ['u8', 'u8']:
                A('        RegOp::%s(o, a) => (o as int) < n && (a as int) < n,' % v)
            elif fs == ['u8', 'u8', 'f32']:
                A('        RegOp::%s(o, a, _) => (o as int) < n && (a as int) < n,' % v)
            else:
                A('        RegOp::%s(o, a, b) => (o as int) < n && (a as int) < n && (b as int) < n,' % v)
        A('    }\n}')
        return '\n'.join(L) + '\n'
