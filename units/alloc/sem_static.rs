spec fn new_live(op: SsaOp, was: bool, s: int) -> bool {
    let k = ssa_kind(op);
    if k == 0 { s == ssa_o(op) || was }
    else if k == 1 { s != ssa_o(op) && was }
    else if k == 2 || k == 3 { s == ssa_a(op) || (s != ssa_o(op) && was) }
    else { s == ssa_a(op) || s == ssa_b(op) || (s != ssa_o(op) && was) }
}
proof fn lemma_live_step(ops: Seq<SsaOp>, j: int, s: int)
    requires 0 <= j < ops.len()
    ensures live(ops, j + 1).contains(s) == new_live(ops[j], live(ops, j).contains(s), s)
{}
impl<const N: usize> RegisterAllocator<N> {
    /// precondition of lowering one SSA op (total mode)
    spec fn op_pre(&self, op: SsaOp) -> bool {
        let len = self.allocations@.len() as int;
        let k = ssa_kind(op);
        &&& 0 <= ssa_o(op) < len
        &&& k >= 1 ==> self.allocations@[ssa_o(op)] != UNASSIGNED
        &&& k >= 2 ==> 0 <= ssa_a(op) < len && ssa_a(op) != ssa_o(op)
        &&& k == 4 ==> 0 <= ssa_b(op) < len && ssa_b(op) != ssa_o(op)
    }
    spec fn op_post(&self, pre: &Self, op: SsaOp) -> bool {
        &&& self.wf()
        &&& self.allocations@.len() == pre.allocations@.len()
        &&& self.out.tape@.len() >= pre.out.tape@.len()
        &&& forall|k: int| 0 <= k < pre.out.tape@.len() ==> #[trigger] self.out.tape@[k] == pre.out.tape@[k]
        &&& simf(self.allocations@, pre.allocations@, self.out.tape@, pre.out.tape@.len() as int, self.out.tape@.len() as int, ssa_fe(op), ssa_fo(op))
        &&& forall|s: int| 0 <= s < pre.allocations@.len() ==>
                ((#[trigger] self.allocations@[s] != UNASSIGNED) == new_live(op, pre.allocations@[s] != UNASSIGNED, s))
    }
}

// ---------------- whole-tape semantics and the top theorem ----------------
struct Ss { env: Env, outs: Map<int, f32> }
spec fn ssa_step(op: SsaOp, s: Ss, inp: Seq<f32>) -> Ss {
    Ss { env: ssa_fe(op)(s.env, inp), outs: ssa_fo(op)(s.outs, s.env, inp) }
}
/// run ops[lo..hi) from hi-1 down to lo (SSA tapes are stored root-first)
spec fn ssa_run_rev(ops: Seq<SsaOp>, lo: int, hi: int, s: Ss, inp: Seq<f32>) -> Ss
    decreases hi - lo
{
    if hi <= lo { s } else { ssa_run_rev(ops, lo, hi - 1, ssa_step(ops[hi - 1], s, inp), inp) }
}
spec fn run_fe(ops: Seq<SsaOp>, j: int) -> FE {
    |e: Env, i: Seq<f32>| ssa_run_rev(ops, 0, j, Ss { env: e, outs: Map::empty() }, i).env
}
spec fn run_fo(ops: Seq<SsaOp>, j: int) -> FO {
    |o: Map<int, f32>, e: Env, i: Seq<f32>| ssa_run_rev(ops, 0, j, Ss { env: e, outs: o }, i).outs
}
/// the environment part of a run does not depend on the outputs accumulated so far
proof fn lemma_env_indep(ops: Seq<SsaOp>, j: int, e: Env, o1: Map<int, f32>, o2: Map<int, f32>, inp: Seq<f32>)
    requires 0 <= j
    ensures ssa_run_rev(ops, 0, j, Ss { env: e, outs: o1 }, inp).env == ssa_run_rev(ops, 0, j, Ss { env: e, outs: o2 }, inp).env
    decreases j
{
    if j > 0 {
        let s1 = ssa_step(ops[j - 1], Ss { env: e, outs: o1 }, inp);
        let s2 = ssa_step(ops[j - 1], Ss { env: e, outs: o2 }, inp);
        lemma_env_indep(ops, j - 1, s1.env, s1.outs, s2.outs, inp);
    }
}
/// slots that are live (bound in the allocator) after lowering ops[0..j)
spec fn live(ops: Seq<SsaOp>, j: int) -> Set<int>
    decreases j
{
    if j <= 0 { Set::empty() } else {
        let op = ops[j - 1];
        let l = live(ops, j - 1);
        let k = ssa_kind(op);
        if k == 0 { l.insert(ssa_o(op)) }
        else if k == 1 { l.remove(ssa_o(op)) }
        else if k == 2 || k == 3 { l.remove(ssa_o(op)).insert(ssa_a(op)) }
        else { l.remove(ssa_o(op)).insert(ssa_a(op)).insert(ssa_b(op)) }
    }
}
/// well-formed SSA tape of `n` slots: every definition is of a currently-live slot distinct from its
/// arguments, all indices are in range, and nothing is live before the first evaluated op
spec fn ssa_wf(ops: Seq<SsaOp>, n: int) -> bool {
    &&& forall|j: int| 0 <= j < ops.len() ==> {
            let op = #[trigger] ops[j];
            let k = ssa_kind(op);
            &&& 0 <= ssa_o(op) < n
            &&& k >= 1 ==> live(ops, j).contains(ssa_o(op))
            &&& k >= 2 ==> 0 <= ssa_a(op) < n && ssa_a(op) != ssa_o(op)
            &&& k == 4 ==> 0 <= ssa_b(op) < n && ssa_b(op) != ssa_o(op)
        }
    &&& live(ops, ops.len() as int) =~= Set::empty()
}
proof fn lemma_sim_comp(a2: Seq<u32>, a1: Seq<u32>, a0: Seq<u32>, tape: Seq<RegOp>, lo: int, mid: int, hi: int,
                        fe2: FE, fo2: FO, fe1: FE, fo1: FO, fe: FE, fo: FO)
    requires simf(a2, a1, tape, mid, hi, fe2, fo2), simf(a1, a0, tape, lo, mid, fe1, fo1), lo <= mid <= hi,
        forall|e: Env, i: Seq<f32>| #[trigger] fe(e, i) == fe1(fe2(e, i), i),
        forall|o: Map<int, f32>, e: Env, i: Seq<f32>| #[trigger] fo(o, e, i) == fo1(fo2(o, e, i), fe2(e, i), i),
    ensures simf(a2, a0, tape, lo, hi, fe, fo)
{
    reveal(simf);
    assert forall|st: St, env: Env, inp: Seq<f32>| #[trigger] agree(a2, st.slots, env) implies
        agree(a0, (#[trigger] reg_run_rev(tape, lo, hi, st, inp)).slots, fe(env, inp))
        && reg_run_rev(tape, lo, hi, st, inp).outs == fo(st.outs, env, inp) by {
        let r1 = reg_run_rev(tape, mid, hi, st, inp);
        assert(agree(a1, r1.slots, fe2(env, inp)));
        lemma_run_split(tape, lo, mid, hi, st, inp);
        let r0 = reg_run_rev(tape, lo, mid, r1, inp);
        assert(agree(a0, r0.slots, fe1(fe2(env, inp), inp)));
        assert(fe(env, inp) == fe1(fe2(env, inp), inp));
        assert(fo(st.outs, env, inp) == fo1(fo2(st.outs, env, inp), fe2(env, inp), inp));
    }
}
/// one more SSA op processed: compose the whole-prefix simulation with the step simulation
proof fn lemma_sim_extend(a2: Seq<u32>, a1: Seq<u32>, a0: Seq<u32>, tape: Seq<RegOp>, mid: int, hi: int, ops: Seq<SsaOp>, j: int)
    requires 0 <= j < ops.len(), 0 <= mid <= hi,
        simf(a2, a1, tape, mid, hi, ssa_fe(ops[j]), ssa_fo(ops[j])),
        simf(a1, a0, tape, 0, mid, run_fe(ops, j), run_fo(ops, j)),
    ensures simf(a2, a0, tape, 0, hi, run_fe(ops, j + 1), run_fo(ops, j + 1))
{
    let fe2 = ssa_fe(ops[j]); let fo2 = ssa_fo(ops[j]);
    let fe1 = run_fe(ops, j); let fo1 = run_fo(ops, j);
    let fe = run_fe(ops, j + 1); let fo = run_fo(ops, j + 1);
    assert forall|e: Env, i: Seq<f32>| #[trigger] fe(e, i) == fe1(fe2(e, i), i) by {
        let s0 = Ss { env: e, outs: Map::empty() };
        let s1 = ssa_step(ops[j], s0, i);
        assert(ssa_run_rev(ops, 0, j + 1, s0, i) == ssa_run_rev(ops, 0, j, s1, i));
        lemma_env_indep(ops, j, s1.env, s1.outs, Map::empty(), i);
    }
    assert forall|o: Map<int, f32>, e: Env, i: Seq<f32>| #[trigger] fo(o, e, i) == fo1(fo2(o, e, i), fe2(e, i), i) by {
        let s0 = Ss { env: e, outs: o };
        let s1 = ssa_step(ops[j], s0, i);
        assert(ssa_run_rev(ops, 0, j + 1, s0, i) == ssa_run_rev(ops, 0, j, s1, i));
    }
    lemma_sim_comp(a2, a1, a0, tape, 0, mid, hi, fe2, fo2, fe1, fo1, fe, fo);
}
proof fn lemma_sim_start(a: Seq<u32>, tape: Seq<RegOp>, ops: Seq<SsaOp>)
    ensures simf(a, a, tape, 0, 0, run_fe(ops, 0), run_fo(ops, 0))
{
    reveal(simf);
}
