spec fn op_ok(op: RegOp, n: int, slots: int) -> bool {
    match op {
        RegOp::Load(r, m) => (r as int) < n && n <= (m as int) < slots,
        RegOp::Store(r, m) => (r as int) < n && n <= (m as int) < slots,
        RegOp::Output(r, _) => (r as int) < n,
        RegOp::Input(r, _) => (r as int) < n,
        RegOp::CopyImm(r, _) => (r as int) < n,
        RegOp::CopyReg(o, a) | RegOp::NegReg(o, a) | RegOp::AbsReg(o, a) | RegOp::RecipReg(o, a)
        | RegOp::SqrtReg(o, a) | RegOp::SquareReg(o, a) | RegOp::FloorReg(o, a) | RegOp::CeilReg(o, a)
        | RegOp::RoundReg(o, a) | RegOp::SinReg(o, a) | RegOp::CosReg(o, a) | RegOp::TanReg(o, a)
        | RegOp::AsinReg(o, a) | RegOp::AcosReg(o, a) | RegOp::AtanReg(o, a) | RegOp::ExpReg(o, a)
        | RegOp::LnReg(o, a) | RegOp::NotReg(o, a) | RegOp::RandReg(o, a) => (o as int) < n && (a as int) < n,
        RegOp::AddRegImm(o, a, _) | RegOp::MulRegImm(o, a, _) | RegOp::DivRegImm(o, a, _) | RegOp::DivImmReg(o, a, _)
        | RegOp::SubImmReg(o, a, _) | RegOp::SubRegImm(o, a, _) | RegOp::ModRegImm(o, a, _) | RegOp::AtanRegImm(o, a, _)
        | RegOp::CompareRegImm(o, a, _) | RegOp::MixRegImm(o, a, _) | RegOp::MinRegImm(o, a, _) | RegOp::MaxRegImm(o, a, _)
        | RegOp::AndRegImm(o, a, _) | RegOp::OrRegImm(o, a, _) | RegOp::ModImmReg(o, a, _) | RegOp::AtanImmReg(o, a, _)
        | RegOp::CompareImmReg(o, a, _) | RegOp::MixImmReg(o, a, _) => (o as int) < n && (a as int) < n,
        RegOp::ModRegReg(o, a, b) | RegOp::AddRegReg(o, a, b) | RegOp::MulRegReg(o, a, b) | RegOp::DivRegReg(o, a, b)
        | RegOp::SubRegReg(o, a, b) | RegOp::CompareRegReg(o, a, b) | RegOp::AtanRegReg(o, a, b) | RegOp::MixRegReg(o, a, b)
        | RegOp::MinRegReg(o, a, b) | RegOp::MaxRegReg(o, a, b) | RegOp::AndRegReg(o, a, b) | RegOp::OrRegReg(o, a, b)
            => (o as int) < n && (a as int) < n && (b as int) < n,
    }
}

