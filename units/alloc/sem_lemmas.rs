
// ---------------- tape semantics ----------------
uninterp spec fn un_sem(tag: int, a: f32) -> f32;
uninterp spec fn bin_sem(tag: int, a: f32, b: f32) -> f32;

struct St { slots: Map<int, f32>, outs: Map<int, f32> }
type Env = Map<int, f32>;
type FE = spec_fn(Env, Seq<f32>) -> Env;
type FO = spec_fn(Map<int, f32>, Env, Seq<f32>) -> Map<int, f32>;

// (reg_step / ssa_fe / ssa_fo / ssa_kind / op_ok are generated from op.rs: gen_sem.py)
/// run ops[lo..hi) from hi-1 down to lo (tapes are stored in reverse evaluation order)
spec fn reg_run_rev(ops: Seq<RegOp>, lo: int, hi: int, st: St, inp: Seq<f32>) -> St
    decreases hi - lo
{
    if hi <= lo { st } else { reg_run_rev(ops, lo, hi - 1, reg_step(ops[hi - 1], st, inp), inp) }
}
spec fn agree(alloc: Seq<u32>, slots: Map<int, f32>, env: Env) -> bool {
    forall|s: int| 0 <= s < alloc.len() && #[trigger] alloc[s] != UNASSIGNED ==> slots[alloc[s] as int] == env[s]
}
#[verifier::opaque]
spec fn simf(a_new: Seq<u32>, a_old: Seq<u32>, tape: Seq<RegOp>, lo: int, hi: int, fe: FE, fo: FO) -> bool {
    forall|st: St, env: Env, inp: Seq<f32>| #[trigger] agree(a_new, st.slots, env) ==>
        agree(a_old, (#[trigger] reg_run_rev(tape, lo, hi, st, inp)).slots, fe(env, inp))
        && reg_run_rev(tape, lo, hi, st, inp).outs == fo(st.outs, env, inp)
}
spec fn id_env() -> FE { |e: Env, i: Seq<f32>| e }
spec fn id_outs() -> FO { |o: Map<int, f32>, e: Env, i: Seq<f32>| o }
spec fn sim(a_new: Seq<u32>, a_old: Seq<u32>, tape: Seq<RegOp>, lo: int, hi: int) -> bool {
    simf(a_new, a_old, tape, lo, hi, id_env(), id_outs())
}
spec fn fe_def(out: int, c: spec_fn(Seq<f32>) -> f32) -> FE { |e: Env, i: Seq<f32>| e.insert(out, c(i)) }
spec fn fe_un(out: int, arg: int, f: spec_fn(f32) -> f32) -> FE { |e: Env, i: Seq<f32>| e.insert(out, f(e[arg])) }
spec fn fo_output(k: int, arg: int) -> FO { |o: Map<int, f32>, e: Env, i: Seq<f32>| o.insert(k, e[arg]) }

spec fn shape_out<F: Fn(u8) -> RegOp>(op: F, c: spec_fn(Seq<f32>) -> f32) -> bool {
    forall|a: u8, r: RegOp, st: St, inp: Seq<f32>| #[trigger] op.ensures((a,), r) ==>
        #[trigger] reg_step(r, st, inp) == (St { slots: st.slots.insert(a as int, c(inp)), outs: st.outs })
}
spec fn shape_un<F: Fn(u8, u8) -> RegOp>(op: F, f: spec_fn(f32) -> f32) -> bool {
    forall|a: u8, b: u8, r: RegOp, st: St, inp: Seq<f32>| #[trigger] op.ensures((a, b), r) ==>
        #[trigger] reg_step(r, st, inp) == (St { slots: st.slots.insert(a as int, f(st.slots[b as int])), outs: st.outs })
}

spec fn shape_bin<F: Fn(u8, u8, u8) -> RegOp>(op: F, g: spec_fn(f32, f32) -> f32) -> bool {
    forall|a: u8, b: u8, c: u8, r: RegOp, st: St, inp: Seq<f32>| #[trigger] op.ensures((a, b, c), r) ==>
        #[trigger] reg_step(r, st, inp) == (St { slots: st.slots.insert(a as int, g(st.slots[b as int], st.slots[c as int])), outs: st.outs })
}
spec fn fe_bin(out: int, lhs: int, rhs: int, g: spec_fn(f32, f32) -> f32) -> FE { |e: Env, i: Seq<f32>| e.insert(out, g(e[lhs], e[rhs])) }

/// general single-op step: the op at tape[k] writes rx := g(st[ry], st[rz]); before it (in evaluation order) the
/// operands live at ry / rz (allocation a_new); after it `out` lives in rx and everything else is where a_old says
proof fn lemma_step_bin(a_new: Seq<u32>, a_old: Seq<u32>, tape: Seq<RegOp>, k: int, rx: u8, ry: u8, rz: u8,
                        out: int, lhs: int, rhs: int, g: spec_fn(f32, f32) -> f32)
    requires a_new.len() == a_old.len(), 0 <= out < a_old.len(), 0 <= lhs < a_old.len(), 0 <= rhs < a_old.len(), out != lhs, out != rhs,
        a_old[out] == rx as u32,
        forall|t: int| 0 <= t < a_old.len() && t != out ==> #[trigger] a_old[t] != rx as u32,
        a_new[lhs] == ry as u32, a_new[rhs] == rz as u32,
        forall|s: int| 0 <= s < a_old.len() && s != out && #[trigger] a_old[s] != UNASSIGNED ==> a_new[s] == a_old[s],
        forall|st: St, inp: Seq<f32>| #[trigger] reg_step(tape[k], st, inp) == (St { slots: st.slots.insert(rx as int, g(st.slots[ry as int], st.slots[rz as int])), outs: st.outs }),
    ensures simf(a_new, a_old, tape, k, k + 1, fe_bin(out, lhs, rhs, g), id_outs())
{
    reveal(simf);
    assert forall|st: St, env: Env, inp: Seq<f32>| #[trigger] agree(a_new, st.slots, env) implies
        agree(a_old, (#[trigger] reg_run_rev(tape, k, k + 1, st, inp)).slots, fe_bin(out, lhs, rhs, g)(env, inp))
        && reg_run_rev(tape, k, k + 1, st, inp).outs == id_outs()(st.outs, env, inp) by {
        lemma_run_one(tape, k, st, inp);
        let st1 = reg_step(tape[k], st, inp);
        assert(a_new[lhs] != UNASSIGNED && a_new[rhs] != UNASSIGNED);
        assert(st.slots[ry as int] == env[lhs]);
        assert(st.slots[rz as int] == env[rhs]);
        assert forall|s: int| 0 <= s < a_old.len() && #[trigger] a_old[s] != UNASSIGNED implies st1.slots[a_old[s] as int] == fe_bin(out, lhs, rhs, g)(env, inp)[s] by {
            if s != out { assert(a_new[s] == a_old[s]); assert(a_new[s] != UNASSIGNED); }
        }
    }
}
proof fn lemma_run_split(ops: Seq<RegOp>, lo: int, mid: int, hi: int, st: St, inp: Seq<f32>)
    requires lo <= mid <= hi
    ensures reg_run_rev(ops, lo, hi, st, inp) == reg_run_rev(ops, lo, mid, reg_run_rev(ops, mid, hi, st, inp), inp)
    decreases hi - mid
{
    if hi > mid { lemma_run_split(ops, lo, mid, hi - 1, reg_step(ops[hi - 1], st, inp), inp); }
}
proof fn lemma_run_ext(a: Seq<RegOp>, b: Seq<RegOp>, lo: int, hi: int, st: St, inp: Seq<f32>)
    requires 0 <= lo <= hi <= a.len(), hi <= b.len(), forall|k: int| lo <= k < hi ==> a[k] == b[k]
    ensures reg_run_rev(a, lo, hi, st, inp) == reg_run_rev(b, lo, hi, st, inp)
    decreases hi - lo
{
    if hi > lo { lemma_run_ext(a, b, lo, hi - 1, reg_step(a[hi - 1], st, inp), inp); }
}
proof fn lemma_run_one(ops: Seq<RegOp>, k: int, st: St, inp: Seq<f32>)
    ensures reg_run_rev(ops, k, k + 1, st, inp) == reg_step(ops[k], st, inp), reg_run_rev(ops, k, k, st, inp) == st
{
    assert(reg_run_rev(ops, k, k, reg_step(ops[k], st, inp), inp) == reg_step(ops[k], st, inp));
}
proof fn lemma_sim_refl(a: Seq<u32>, tape: Seq<RegOp>, lo: int)
    ensures sim(a, a, tape, lo, lo)
{
    reveal(simf);
}
proof fn lemma_sim_ext(a1: Seq<u32>, a0: Seq<u32>, t1: Seq<RegOp>, t2: Seq<RegOp>, lo: int, hi: int, fe: FE, fo: FO)
    requires simf(a1, a0, t1, lo, hi, fe, fo), 0 <= lo <= hi <= t1.len(), hi <= t2.len(), forall|k: int| lo <= k < hi ==> t1[k] == t2[k]
    ensures simf(a1, a0, t2, lo, hi, fe, fo)
{
    reveal(simf);
    assert forall|st: St, env: Env, inp: Seq<f32>| #[trigger] agree(a1, st.slots, env) implies
        agree(a0, (#[trigger] reg_run_rev(t2, lo, hi, st, inp)).slots, fe(env, inp))
        && reg_run_rev(t2, lo, hi, st, inp).outs == fo(st.outs, env, inp) by {
        lemma_run_ext(t1, t2, lo, hi, st, inp);
        assert(agree(a0, reg_run_rev(t1, lo, hi, st, inp).slots, fe(env, inp)));
    }
}
/// the ops in [mid,hi) run first (they were pushed last); then the identity-prefix [lo,mid)
proof fn lemma_sim_then(a2: Seq<u32>, a1: Seq<u32>, a0: Seq<u32>, tape: Seq<RegOp>, lo: int, mid: int, hi: int, fe: FE, fo: FO)
    requires simf(a2, a1, tape, mid, hi, fe, fo), sim(a1, a0, tape, lo, mid), lo <= mid <= hi
    ensures simf(a2, a0, tape, lo, hi, fe, fo)
{
    reveal(simf);
    assert forall|st: St, env: Env, inp: Seq<f32>| #[trigger] agree(a2, st.slots, env) implies
        agree(a0, (#[trigger] reg_run_rev(tape, lo, hi, st, inp)).slots, fe(env, inp))
        && reg_run_rev(tape, lo, hi, st, inp).outs == fo(st.outs, env, inp) by {
        let r1 = reg_run_rev(tape, mid, hi, st, inp);
        assert(agree(a1, r1.slots, fe(env, inp)));
        lemma_run_split(tape, lo, mid, hi, st, inp);
        let r0 = reg_run_rev(tape, lo, mid, r1, inp);
        assert(agree(a0, r0.slots, id_env()(fe(env, inp), inp)));
        assert(r0.outs == id_outs()(r1.outs, fe(env, inp), inp));
    }
}
proof fn lemma_simf_fe_ext(a1: Seq<u32>, a0: Seq<u32>, tape: Seq<RegOp>, lo: int, hi: int, fe1: FE, fe2: FE, fo1: FO, fo2: FO)
    requires simf(a1, a0, tape, lo, hi, fe1, fo1),
        forall|e: Env, i: Seq<f32>| #[trigger] fe1(e, i) == fe2(e, i),
        forall|o: Map<int, f32>, e: Env, i: Seq<f32>| #[trigger] fo1(o, e, i) == fo2(o, e, i),
    ensures simf(a1, a0, tape, lo, hi, fe2, fo2)
{
    reveal(simf);
    assert forall|st: St, env: Env, inp: Seq<f32>| #[trigger] agree(a1, st.slots, env) implies
        agree(a0, (#[trigger] reg_run_rev(tape, lo, hi, st, inp)).slots, fe2(env, inp))
        && reg_run_rev(tape, lo, hi, st, inp).outs == fo2(st.outs, env, inp) by {
        assert(fe1(env, inp) == fe2(env, inp));
        assert(fo1(st.outs, env, inp) == fo2(st.outs, env, inp));
    }
}
proof fn lemma_sim_drop(a: Seq<u32>, s0: int, tape: Seq<RegOp>, k: int)
    requires 0 <= s0 < a.len()
    ensures sim(a, a.update(s0, UNASSIGNED), tape, k, k)
{
    reveal(simf);
    let a1 = a.update(s0, UNASSIGNED);
    assert forall|st: St, env: Env, inp: Seq<f32>| #[trigger] agree(a, st.slots, env) implies
        agree(a1, (#[trigger] reg_run_rev(tape, k, k, st, inp)).slots, id_env()(env, inp))
        && reg_run_rev(tape, k, k, st, inp).outs == id_outs()(st.outs, env, inp) by {
        assert forall|s: int| 0 <= s < a1.len() && #[trigger] a1[s] != UNASSIGNED implies st.slots[a1[s] as int] == env[s] by {
            assert(s != s0); assert(a[s] == a1[s]);
        }
    }
}
proof fn lemma_step_un_reg(a_old: Seq<u32>, tape: Seq<RegOp>, k: int, rx: u8, ry: u8, out: int, arg: int, f: spec_fn(f32) -> f32)
    requires 0 <= out < a_old.len(), 0 <= arg < a_old.len(), out != arg, a_old[out] == rx as u32, a_old[arg] == ry as u32, rx != ry,
        forall|t: int| 0 <= t < a_old.len() && t != out ==> #[trigger] a_old[t] != rx as u32,
        forall|st: St, inp: Seq<f32>| #[trigger] reg_step(tape[k], st, inp) == (St { slots: st.slots.insert(rx as int, f(st.slots[ry as int])), outs: st.outs }),
    ensures simf(a_old.update(out, UNASSIGNED), a_old, tape, k, k + 1, fe_un(out, arg, f), id_outs())
{
    reveal(simf);
    let a_new = a_old.update(out, UNASSIGNED);
    assert forall|st: St, env: Env, inp: Seq<f32>| #[trigger] agree(a_new, st.slots, env) implies
        agree(a_old, (#[trigger] reg_run_rev(tape, k, k + 1, st, inp)).slots, fe_un(out, arg, f)(env, inp))
        && reg_run_rev(tape, k, k + 1, st, inp).outs == id_outs()(st.outs, env, inp) by {
        lemma_run_one(tape, k, st, inp);
        let st1 = reg_step(tape[k], st, inp);
        assert(a_new[arg] == ry as u32);
        assert(st.slots[ry as int] == env[arg]);
        assert forall|s: int| 0 <= s < a_old.len() && #[trigger] a_old[s] != UNASSIGNED implies st1.slots[a_old[s] as int] == fe_un(out, arg, f)(env, inp)[s] by {
            if s != out { assert(a_new[s] == a_old[s]); }
        }
    }
}
proof fn lemma_step_un_self(a_old: Seq<u32>, tape: Seq<RegOp>, k: int, rx: u8, out: int, arg: int, f: spec_fn(f32) -> f32)
    requires 0 <= out < a_old.len(), 0 <= arg < a_old.len(), out != arg, a_old[out] == rx as u32, a_old[arg] == UNASSIGNED,
        forall|t: int| 0 <= t < a_old.len() && t != out ==> #[trigger] a_old[t] != rx as u32,
        forall|st: St, inp: Seq<f32>| #[trigger] reg_step(tape[k], st, inp) == (St { slots: st.slots.insert(rx as int, f(st.slots[rx as int])), outs: st.outs }),
    ensures simf(a_old.update(out, UNASSIGNED).update(arg, rx as u32), a_old, tape, k, k + 1, fe_un(out, arg, f), id_outs())
{
    reveal(simf);
    let a_new = a_old.update(out, UNASSIGNED).update(arg, rx as u32);
    assert forall|st: St, env: Env, inp: Seq<f32>| #[trigger] agree(a_new, st.slots, env) implies
        agree(a_old, (#[trigger] reg_run_rev(tape, k, k + 1, st, inp)).slots, fe_un(out, arg, f)(env, inp))
        && reg_run_rev(tape, k, k + 1, st, inp).outs == id_outs()(st.outs, env, inp) by {
        lemma_run_one(tape, k, st, inp);
        let st1 = reg_step(tape[k], st, inp);
        assert(a_new[arg] == rx as u32);
        assert(st.slots[rx as int] == env[arg]);
        assert forall|s: int| 0 <= s < a_old.len() && #[trigger] a_old[s] != UNASSIGNED implies st1.slots[a_old[s] as int] == fe_un(out, arg, f)(env, inp)[s] by {
            if s != out { assert(s != arg); assert(a_new[s] == a_old[s]); }
        }
    }
}
// ---- single-op steps (sequence-level, no allocator context) ----
proof fn lemma_step_load(a_old: Seq<u32>, tape: Seq<RegOp>, k: int, reg: u8, m: u32, e: int)
    requires 0 <= e < a_old.len(), a_old[e] == reg as u32, tape[k] == RegOp::Load(reg, m), m != UNASSIGNED,
        forall|t: int| 0 <= t < a_old.len() && t != e ==> #[trigger] a_old[t] != reg as u32,
    ensures sim(a_old.update(e, m), a_old, tape, k, k + 1)
{
    reveal(simf);
    let a_new = a_old.update(e, m);
    assert forall|st: St, env: Env, inp: Seq<f32>| #[trigger] agree(a_new, st.slots, env) implies
        agree(a_old, (#[trigger] reg_run_rev(tape, k, k + 1, st, inp)).slots, id_env()(env, inp))
        && reg_run_rev(tape, k, k + 1, st, inp).outs == id_outs()(st.outs, env, inp) by {
        lemma_run_one(tape, k, st, inp);
        let st1 = reg_step(tape[k], st, inp);
        assert forall|s: int| 0 <= s < a_old.len() && #[trigger] a_old[s] != UNASSIGNED implies st1.slots[a_old[s] as int] == env[s] by {
            if s == e { assert(a_new[e] == m); } else { assert(a_new[s] == a_old[s]); }
        }
    }
}
/// Store(r, m) followed (in allocation terms) by binding slot s to r instead of m
proof fn lemma_step_store(a_old: Seq<u32>, tape: Seq<RegOp>, k: int, r: u8, m: u32, s0: int, n: int)
    requires 0 <= s0 < a_old.len(), a_old[s0] == m, tape[k] == RegOp::Store(r, m), (r as int) < n <= m, m != UNASSIGNED,
        forall|t: int| 0 <= t < a_old.len() && t != s0 ==> #[trigger] a_old[t] != m,
    ensures sim(a_old.update(s0, r as u32), a_old, tape, k, k + 1)
{
    reveal(simf);
    let a_new = a_old.update(s0, r as u32);
    assert forall|st: St, env: Env, inp: Seq<f32>| #[trigger] agree(a_new, st.slots, env) implies
        agree(a_old, (#[trigger] reg_run_rev(tape, k, k + 1, st, inp)).slots, id_env()(env, inp))
        && reg_run_rev(tape, k, k + 1, st, inp).outs == id_outs()(st.outs, env, inp) by {
        lemma_run_one(tape, k, st, inp);
        let st1 = reg_step(tape[k], st, inp);
        assert forall|s: int| 0 <= s < a_old.len() && #[trigger] a_old[s] != UNASSIGNED implies st1.slots[a_old[s] as int] == env[s] by {
            if s == s0 { assert(a_new[s0] == r as u32); } else { assert(a_new[s] == a_old[s]); }
        }
    }
}
proof fn lemma_step_output(a: Seq<u32>, tape: Seq<RegOp>, k: int, r: u8, i: u32, s0: int)
    requires 0 <= s0 < a.len(), a[s0] == r as u32, tape[k] == RegOp::Output(r, i),
    ensures simf(a, a, tape, k, k + 1, id_env(), fo_output(i as int, s0))
{
    reveal(simf);
    assert forall|st: St, env: Env, inp: Seq<f32>| #[trigger] agree(a, st.slots, env) implies
        agree(a, (#[trigger] reg_run_rev(tape, k, k + 1, st, inp)).slots, id_env()(env, inp))
        && reg_run_rev(tape, k, k + 1, st, inp).outs == fo_output(i as int, s0)(st.outs, env, inp) by {
        lemma_run_one(tape, k, st, inp);
        assert(a[s0] != UNASSIGNED);
    }
}
/// an op that defines `out` in register rx from nothing but the inputs; afterwards (in reverse) out is dead
proof fn lemma_step_def(a_old: Seq<u32>, tape: Seq<RegOp>, k: int, rx: u8, out: int, c: spec_fn(Seq<f32>) -> f32)
    requires 0 <= out < a_old.len(), a_old[out] == rx as u32,
        forall|t: int| 0 <= t < a_old.len() && t != out ==> #[trigger] a_old[t] != rx as u32,
        forall|st: St, inp: Seq<f32>| #[trigger] reg_step(tape[k], st, inp) == (St { slots: st.slots.insert(rx as int, c(inp)), outs: st.outs }),
    ensures simf(a_old.update(out, UNASSIGNED), a_old, tape, k, k + 1, fe_def(out, c), id_outs())
{
    reveal(simf);
    let a_new = a_old.update(out, UNASSIGNED);
    assert forall|st: St, env: Env, inp: Seq<f32>| #[trigger] agree(a_new, st.slots, env) implies
        agree(a_old, (#[trigger] reg_run_rev(tape, k, k + 1, st, inp)).slots, fe_def(out, c)(env, inp))
        && reg_run_rev(tape, k, k + 1, st, inp).outs == id_outs()(st.outs, env, inp) by {
        lemma_run_one(tape, k, st, inp);
        let st1 = reg_step(tape[k], st, inp);
        assert forall|s: int| 0 <= s < a_old.len() && #[trigger] a_old[s] != UNASSIGNED implies st1.slots[a_old[s] as int] == fe_def(out, c)(env, inp)[s] by {
            if s != out { assert(a_new[s] == a_old[s]); }
        }
    }
}

proof fn lemma_pop_is_poke(o: Seq<u8>, n: int)
    requires o.len() == n, n >= 1, forall|j: int, k: int| 0 <= j < k < n ==> o[j] != o[k],
    ensures seq![o[n - 1]] + o.subrange(0, n - 1) == poke_order(o, o[n - 1])
{
    let i = o[n - 1];
    assert(o.index_of(i) == n - 1) by {
        let k = o.index_of(i);
        assert(o.contains(i)) by { assert(o[n-1] == i); }
    }
    assert(seq![o[n - 1]] + o.subrange(0, n - 1) =~= poke_order(o, i));
}

proof fn lemma_op_ok_mono(op: RegOp, n: int, s1: int, s2: int)
    requires op_ok(op, n, s1), s1 <= s2
    ensures op_ok(op, n, s2)
{}
proof fn lemma_drop_last_contains<T>(s: Seq<T>, x: T)
    requires s.len() > 0, s.contains(x), x != s.last()
    ensures s.drop_last().contains(x)
{
    let k = choose|k: int| 0 <= k < s.len() && s[k] == x;
    assert(k < s.len() - 1);
    assert(s.drop_last()[k] == x);
}
