"""Unit `alloc`: the register allocator (fidget-core/src/compiler/alloc.rs) and `RegTape::new`
(reg_tape.rs) on their real text, against the tape semantics generated from op.rs.

Top theorem (postcondition of `RegTape::new::<N>`):
    3 <= N <= 255 and ssa_wf(ssa)  ==>  for ALL initial slot contents st, environments env, inputs inp:
        reg_run(result, st, inp).outs == ssa_run(ssa, env, inp).outs
proved function by function (callers see only callee contracts).
"""
import re, os
from lib import rsx, opcodes
from lib.rsx import ExtractError
from lib.verus_engine import Injector, Obligation, partition, count_match_arms, locate_fn
from units import lru
from units.alloc import spec as SP
from units.alloc.gen_sem import Sem, split_variant

ALLOC_RS = 'fidget-core/src/compiler/alloc.rs'
REGTAPE_RS = 'fidget-core/src/compiler/reg_tape.rs'
SSATAPE_RS = 'fidget-core/src/compiler/ssa_tape.rs'

PROPS_CORE = ['C01', 'C04', 'C10', 'C11', 'C15']

# std-library behaviour the unit relies on (each is an assumption, listed in evidence)
STD_SPECS = r'''
// ---- assumed specifications of std functions (trusted; not proved here) -------------------
pub assume_specification<T: Default>[ core::mem::take::<T> ](dest: &mut T) -> (r: T)
    ensures r == *old(dest), T::default.ensures((), *final(dest));
pub assume_specification<T: Clone>[ <[T]>::fill ](s: &mut [T], value: T)
    ensures final(s)@.len() == old(s)@.len(),
        forall|i: int| 0 <= i < old(s)@.len() ==> cloned(value, #[trigger] final(s)@[i]);
'''

# R-revcollect: model of `(0..n).rev()` for u8 (cross-checked exhaustively over all 256 values of n
# by the bounded runner, contract `rev_range_u8`)
REV_HELPERS = r'''
// ---- R-revcollect helpers: `(0..n).rev().collect()` / `.extend((0..n).rev())` as counting loops ----
spec fn rev_seq(n: int) -> Seq<u8> { Seq::new(n as nat, |k: int| (n - 1 - k) as u8) }
fn rev_range_u8_collect(n: u8) -> (v: Vec<u8>)
    ensures v@ == rev_seq(n as int)
{
    let mut v: Vec<u8> = Vec::new();
    let mut i: u8 = n;
    while i > 0
        invariant 0 <= i <= n, v@.len() == n - i, forall|k: int| 0 <= k < v@.len() ==> v@[k] == (n - 1 - k) as u8,
        decreases i
    {
        i -= 1;
        v.push(i);
    }
    proof { assert(v@ =~= rev_seq(n as int)); }
    v
}
fn rev_range_u8_extend(v: &mut Vec<u8>, n: u8)
    ensures final(v)@ == old(v)@ + rev_seq(n as int)
{
    let ghost v0 = v@;
    let mut i: u8 = n;
    while i > 0
        invariant 0 <= i <= n, v@.len() == v0.len() + (n - i), forall|k: int| 0 <= k < v0.len() ==> v@[k] == v0[k],
            forall|k: int| v0.len() <= k < v@.len() ==> v@[k] == (n - 1 - (k - v0.len())) as u8,
        decreases i
    {
        i -= 1;
        v.push(i);
    }
    proof { assert(v@ =~= v0 + rev_seq(n as int)); }
}
'''


def ctor_closure(ctor, params, extra=()):
    ps = ', '.join('%s: u8' % p for p in params)
    args = ', '.join(list(params) + list(extra))
    return '|%s| -> (r: RegOp) ensures r == RegOp::%s(%s) { RegOp::%s(%s) }' % (ps, ctor, args, ctor, args)


ARM = re.compile(r'SsaOp::(\w+)\(([^)]*)\)\s*=>\s*\{?\s*\(([^()]*?),\s*RegOp::(\w+)\s*\)\s*\}?,?', re.S)


def parse_table(fn_text, what):
    m = re.search(r'let \(([^)]*)\):\s*\(([^;]*?)\)\s*=\s*match op\s*\{(.*?)\n\s*\};', fn_text, re.S)
    if not m:
        raise ExtractError('R-table: dispatch table of %s not found' % what)
    arms = ARM.findall(m.group(3))
    # every arm except the trailing `_ => panic!()` must have been parsed
    n_arrows = len(re.findall(r'=>', m.group(3)))
    if n_arrows != len(arms) + 1 or not re.search(r'_\s*=>\s*panic!\(\)', m.group(3)):
        raise ExtractError('R-table: %s has %d arms, parsed %d' % (what, n_arrows - 1, len(arms)))
    return m, arms


def extract_alloc(repo, trace, sem):
    src = open('%s/%s' % (repo, ALLOC_RS)).read()
    src = rsx.clean(src, trace)
    start = src.find('#[derive(Copy, Clone)]\nenum Allocation')
    if start < 0:
        raise ExtractError('enum Allocation not found')
    head = src[:start]
    if [l for l in head.split('\n') if l.strip() and not l.strip().startswith('use ')]:
        raise ExtractError('alloc.rs: unexpected items before enum Allocation')
    body = src[start:]
    trace.items.append((ALLOC_RS, 'enum Allocation, const UNASSIGNED, struct RegisterAllocator, impl RegisterAllocator<N> (whole file)'))
    tables = {}
    gen_proofs = []   # (qual, anchor, occ, proof)

    def fn_text(name):
        i, j, k = rsx.find_fn(body, name)
        return i, j, k

    # ---- R-table: op_reg
    i, j, k = fn_text('op_reg')
    m, arms = parse_table(body[j:k], 'op_reg')
    lines = ['    fn op_reg(&mut self, op: SsaOp) {', '        match op {']
    hdrs = {}
    for n, (ssa, pats, binds, reg) in enumerate(arms):
        a = [x.strip() for x in pats.split(',')]
        b = [x.strip() for x in binds.split(',')]
        if a != b or len(a) != 2:
            raise ExtractError('R-table op_reg: arm %s reorders its bindings' % ssa)
        hdr = 'SsaOp::%s(%s) => {' % (ssa, pats)
        hdrs[ssa] = hdr
        lines.append('            %s\n                let f = %s;\n                self.op_reg_fn(%s, f);\n            }' % (hdr, ctor_closure(reg, ('o', 'a')), ', '.join(b)))
        ar, term = sem.fn_of(ssa)
        gen_proofs.append(('RegisterAllocator::op_reg', 'self.op_reg_fn(out, arg, f);', n, '                proof { assert(shape_un(f, %s)); }' % term))
    lines += ['            _ => panic!(),', '        }', '    }']
    body = body[:rsx.line_start(body, i)] + '\n'.join(lines) + body[k:]
    tables['op_reg'] = hdrs
    trace.fire('R-table', len(arms))

    # ---- R-table: op_reg_imm
    i, j, k = fn_text('op_reg_imm')
    ft = body[j:k]
    m, arms = parse_table(ft, 'op_reg_imm')
    if 'self.op_reg_fn(out, arg, |out, arg| op(out, arg, imm));' not in ft:
        raise ExtractError('R-table op_reg_imm: continuation changed')
    lines = ['    fn op_reg_imm(&mut self, op: SsaOp) {', '        match op {']
    hdrs = {}
    for n, (ssa, pats, binds, reg) in enumerate(arms):
        a = [x.strip() for x in pats.split(',')]
        b = [x.strip() for x in binds.split(',')]
        if a != b or len(a) != 3:
            raise ExtractError('R-table op_reg_imm: arm %s reorders its bindings' % ssa)
        hdr = 'SsaOp::%s(%s) => {' % (ssa, pats)
        hdrs[ssa] = hdr
        lines.append('            %s\n                let f = %s;\n                self.op_reg_fn(%s, %s, f);\n            }' % (hdr, ctor_closure(reg, ('o', 'a'), (b[2],)), b[0], b[1]))
        ar, term = sem.fn_of(ssa, b[2])
        gen_proofs.append(('RegisterAllocator::op_reg_imm', 'self.op_reg_fn(out, arg, f);', n, '                proof { assert(shape_un(f, %s)); }' % term))
    lines += ['            _ => panic!(),', '        }', '    }']
    body = body[:rsx.line_start(body, i)] + '\n'.join(lines) + body[k:]
    tables['op_reg_imm'] = hdrs
    trace.fire('R-table', len(arms))

    # ---- R-table: op_reg_reg -> dispatch + continuation op_reg_reg_k
    i, j, k = fn_text('op_reg_reg')
    ft = body[j:k]
    m, arms = parse_table(ft, 'op_reg_reg')
    rest = ft[m.end():]       # continuation up to and including the closing brace of the fn
    lines = ['    fn op_reg_reg(&mut self, op: SsaOp) {', '        match op {']
    hdrs = {}
    for n, (ssa, pats, binds, reg) in enumerate(arms):
        a = [x.strip() for x in pats.split(',')]
        b = [x.strip() for x in binds.split(',')]
        if a != b or len(a) != 3:
            raise ExtractError('R-table op_reg_reg: arm %s reorders its bindings' % ssa)
        hdr = 'SsaOp::%s(%s) => {' % (ssa, pats)
        hdrs[ssa] = hdr
        lines.append('            %s\n                let f = %s;\n                self.op_reg_reg_k(%s, f);\n            }' % (hdr, ctor_closure(reg, ('o', 'a', 'b')), ', '.join(b)))
        ar, term = sem.fn_of(ssa)
        gen_proofs.append(('RegisterAllocator::op_reg_reg', 'self.op_reg_reg_k(out, lhs, rhs, f);', n, '                proof { assert(shape_bin(f, %s)); }' % term))
    lines += ['            _ => panic!(),', '        }', '    }', '',
              '    fn op_reg_reg_k(&mut self, out: u32, lhs: u32, rhs: u32, op: impl Fn(u8, u8, u8) -> RegOp) {' + rest]
    body = body[:rsx.line_start(body, i)] + '\n'.join(lines) + body[k:]
    tables['op_reg_reg'] = hdrs
    trace.fire('R-table', len(arms))
    trace.fire('R-split-fn')  # op_reg_reg split into dispatch + continuation

    # ---- R-let: closures that are a single constructor application
    for old, new in (
        ('self.op_out_only(out, |out| RegOp::CopyImm(out, imm));',
         'let f = |o: u8| -> (r: RegOp) ensures r == RegOp::CopyImm(o, imm) { RegOp::CopyImm(o, imm) };\n        self.op_out_only(out, f);'),
        ('self.op_out_only(out, |out| RegOp::Input(out, i));',
         'let f = |o: u8| -> (r: RegOp) ensures r == RegOp::Input(o, i) { RegOp::Input(o, i) };\n        self.op_out_only(out, f);')):
        if body.count(old) != 1:
            raise ExtractError('R-let anchor lost: %s' % old)
        body = body.replace(old, new)
        trace.fire('R-let')

    # ---- R-revcollect
    n1 = body.count('spare_registers: (0..N as u8).rev().collect(),')
    if n1 != 2:
        raise ExtractError('R-revcollect: expected 2 collect sites in new/empty, found %d' % n1)
    body = body.replace('spare_registers: (0..N as u8).rev().collect(),', 'spare_registers: rev_range_u8_collect(N as u8),')
    old = 'self.spare_registers.extend((0..N as u8).rev());'
    if body.count(old) != 1:
        raise ExtractError('R-revcollect: extend site in reset lost')
    body = body.replace(old, 'rev_range_u8_extend(&mut self.spare_registers, N as u8);')
    trace.fire('R-revcollect', 3)
    return body, tables, gen_proofs


def extract_regtape(repo, trace):
    src = rsx.clean(open('%s/%s' % (repo, REGTAPE_RS)).read(), trace)
    st = rsx.get_item(src, r'^struct RegTape\b', 0, 'struct RegTape')
    trace.items.append((REGTAPE_RS, 'struct RegTape'))
    a, b = rsx.impl_block(src, r'^impl RegTape\b', 'impl RegTape')
    fns = []
    keep = ['new', 'empty', 'reset', 'slot_count', 'len', 'is_empty', 'push']
    skip = ['repack', 'repack_map', 'iter']
    for name in keep:
        i, j, k = rsx.find_fn(src, name, a, b)
        fns.append(src[rsx.line_start(src, i):k])
        trace.items.append((REGTAPE_RS, 'RegTape::' + name))
    for name in skip:
        rsx.find_fn(src, name, a, b)   # must still exist (otherwise the skip list is stale)
        trace.drop('RegTape::%s (not under contract: HashMap / impl Iterator)' % name)
    trace.drop('impl IntoIterator for &RegTape (not under contract)')
    # R-derive-default: `#[derive(Default)]` expanded into the field-wise impl rustc's derive generates, so that it can
    # carry a postcondition (Verus gives derived impls no specification); the struct and its fields are made `pub`
    # because a trait method's contract may only mention public items (visibility has no run-time meaning)
    if not st.startswith('#[derive(Clone, Default)]\nstruct RegTape {'):
        raise ExtractError('R-derive-default: RegTape header changed')
    fields = re.findall(r'^\s+(\w+):\s*([^,\n]+),', st, re.M)
    if [f for f, _ in fields] != ['tape', 'slot_count']:
        raise ExtractError('R-derive-default: RegTape fields changed: %s' % fields)
    st = st.replace('#[derive(Clone, Default)]\nstruct RegTape {', '#[derive(Clone)]\npub struct RegTape {')
    for f, _ in fields:
        st = re.sub(r'^(\s+)%s:' % f, r'\1pub %s:' % f, st, flags=re.M)
    dflt = ('impl Default for RegTape {\n    fn default() -> (r: Self)\n        ensures r.tape@.len() == 0, r.slot_count == 0,\n    {\n        RegTape { '
            + ', '.join('%s: Default::default()' % f for f, _ in fields) + ' }\n    }\n}\n')
    trace.fire('R-derive-default')
    text = st + '\n\n' + dflt + '\nimpl RegTape {\n' + '\n\n'.join(fns) + '\n}\n'
    # R-iter on RegTape::new
    old = '        for &op in ssa.iter() {\n            alloc.op(op)\n        }\n'
    new = ('        let mut k_: usize = 0;\n        while k_ < ssa.tape.len() {\n            let op = ssa.tape[k_];\n'
           '            alloc.op(op);\n            k_ += 1;\n        }\n')
    if text.count(old) != 1:
        raise ExtractError('R-iter: loop of RegTape::new changed shape')
    text = text.replace(old, new)
    trace.fire('R-iter')
    return text


def extract_ssatape(repo, trace):
    src = rsx.clean(open('%s/%s' % (repo, SSATAPE_RS)).read(), trace)
    st = rsx.get_item(src, r'^struct SsaTape\b', 0, 'struct SsaTape')
    trace.items.append((SSATAPE_RS, 'struct SsaTape'))
    a, b = rsx.impl_block(src, r'^impl SsaTape\b', 'impl SsaTape')
    fns = []
    for name in ['is_empty', 'len', 'reset']:
        i, j, k = rsx.find_fn(src, name, a, b)
        fns.append(src[rsx.line_start(src, i):k])
        trace.items.append((SSATAPE_RS, 'SsaTape::' + name))
    # `iter` must still be `self.tape.iter()` for R-iter to be a faithful re-spelling
    i, j, k = rsx.find_fn(src, 'iter', a, b)
    if re.sub(r'\s+', '', src[j:k]) != '{self.tape.iter()}':
        raise ExtractError('SsaTape::iter is no longer `self.tape.iter()`: R-iter not applicable')
    trace.drop('SsaTape::new (hash maps, closures: bounded leg), SsaTape::iter (inlined by R-iter), SsaTape::pretty_print')
    return st + '\n\nimpl SsaTape {\n' + '\n\n'.join(fns) + '\n}\n'


# partition groups (labels refer to SP.ARMS for op_reg_reg_k, SSA variant names for the dispatch tables)
K_GROUPS = [['A', 'B', 'C'], ['D'], ['E'], ['F', 'G', 'H'], ['I', 'J', 'K']]


def chunks(xs, n):
    return [xs[i:i + n] for i in range(0, len(xs), n)]


def build(repo, trace):
    enums = opcodes.parse(repo, trace)
    sem = Sem(enums)
    lru_body = lru.extract(repo, trace)
    alloc_body, tables, gen_proofs = extract_alloc(repo, trace, sem)
    rt = extract_regtape(repo, trace)
    st = extract_ssatape(repo, trace)
    text = ('use vstd::prelude::*;\nverus! {\n' + opcodes.render(enums) + '\n' + lru_body + '\n' + rt + '\n'
            + alloc_body + '\n' + st + '\n} // verus!\nfn main() {}\n')
    inj = Injector(text, trace)
    # Lru contracts + proofs
    lru.annotate(inj)
    # REPLACE rules (R-armblock)
    for a_, b_ in SP.REPLACE:
        inj.replace_once(a_, b_, 'R-armblock')
    # proofs
    def q(name):
        return name if '::' in name else 'RegisterAllocator::' + name
    for key, proof in SP.PROOFS.items():
        fn, anchor = key.split('|', 1)
        occ = 0
        if '#' in anchor and anchor.rsplit('#', 1)[1].isdigit():
            anchor, occ = anchor.rsplit('#', 1)
            occ = int(occ)
        inj.proof(q(fn), anchor, proof.strip('\n'), occ=occ)
    for qual, anchor, occ, proof in gen_proofs:
        inj.proof(qual, anchor, proof, occ=occ)
    for key, inv in SP.LOOPS.items():
        fn, anchor = key.split('|', 1)
        inj.loop_inv(q(fn), anchor, inv)
    for name, (ret, stext) in SP.SPECS.items():
        inj.spec(q(name), ret, stext)
    for name, (ret, stext) in SP.SPECS_EXTRA.items():
        inj.spec(q(name), ret, stext)
    for key, proof in SP.PROOFS_EXTRA.items():
        fn, anchor = key.split('|', 1)
        occ = 0
        before = False
        if anchor.startswith('^'):
            before = True
            anchor = anchor[1:]
        if '#' in anchor and anchor.rsplit('#', 1)[1].isdigit():
            anchor, occ = anchor.rsplit('#', 1)
            occ = int(occ)
        inj.proof(q(fn), anchor, proof.strip('\n'), occ=occ, before=before)
    for key, inv in SP.LOOPS_EXTRA.items():
        fn, anchor = key.split('|', 1)
        inj.loop_inv(q(fn), anchor, inv)
    prelude = SP.PRELUDE.replace('/*@GEN@*/', sem.render())
    inj.append_items(STD_SPECS + REV_HELPERS + lru.SPEC_ITEMS + prelude)
    base = inj.s

    texts = {'base': base}
    obls = []
    P = PROPS_CORE

    def O(name, pat, key='base', kind='exec', props=P, rlimit=None):
        obls.append(Obligation('alloc::' + name, 'alloc', pat, text_key=key, props=props, kind=kind, rlimit=rlimit))

    # Lru (callee contracts used by the allocator are proved in this same text)
    for f in lru.FUNCS:
        O(f, f, props=lru.PROPS)
    for f in lru.LEMMAS:
        O(f, f, kind='lemma', props=lru.PROPS)
    simple = ['new', 'empty', 'reset', 'finalize', 'get_memory', 'oldest_reg', 'get_allocation', 'get_spare_register', 'get_register',
              'rebind_register', 'bind_register', 'release_reg', 'release_mem', 'op', 'push_store', 'get_out_reg',
              'op_reg_fn', 'op_out_only', 'op_copy_imm', 'op_input', 'op_output']
    for f in simple:
        O('RegisterAllocator::' + f, 'RegisterAllocator::' + f)
    O('RegTape::default', 'RegTape::default')
    for f in ['RegTape::new', 'RegTape::empty', 'RegTape::reset', 'RegTape::push', 'RegTape::is_empty', 'RegTape::len', 'RegTape::slot_count',
              'SsaTape::len', 'SsaTape::is_empty', 'SsaTape::reset', 'rev_range_u8_collect', 'rev_range_u8_extend']:
        O(f, f)
    # dispatch tables, path-partitioned
    for fn in ('op_reg', 'op_reg_imm', 'op_reg_reg'):
        hdrs = tables[fn]
        n_src = count_match_arms(base, 'RegisterAllocator::' + fn, 'match op {')
        if n_src != len(hdrs) + 1:
            raise ExtractError('R-split: %s has %d arms, partition knows %d' % (fn, n_src, len(hdrs) + 1))
        for gi, grp in enumerate(chunks(list(hdrs), 5)):
            key = '%s_g%d' % (fn, gi)
            texts[key] = partition(base, 'RegisterAllocator::' + fn, hdrs, grp, trace)
            O('RegisterAllocator::%s[%s]' % (fn, ','.join(grp)), 'RegisterAllocator::' + fn, key=key)
    # the 11-arm spill table
    n_src = count_match_arms(base, 'RegisterAllocator::op_reg_reg_k', 'match (self.get_allocation(lhs), self.get_allocation(rhs)) {')
    if n_src != len(SP.ARMS):
        raise ExtractError('R-split: op_reg_reg spill table has %d arms, partition knows %d' % (n_src, len(SP.ARMS)))
    for gi, grp in enumerate(K_GROUPS):
        key = 'op_reg_reg_k_g%d' % gi
        texts[key] = partition(base, 'RegisterAllocator::op_reg_reg_k', SP.ARMS, grp, trace)
        O('RegisterAllocator::op_reg_reg_k[%s]' % ','.join(grp), 'RegisterAllocator::op_reg_reg_k', key=key)
    # lemmas of the prelude: every proof fn in the appended items
    app = STD_SPECS + REV_HELPERS + prelude
    off = base.index(app.strip()[:60])
    seen = set()
    from lib.verus_engine import impl_spans
    spans = [(a, b, ty) for ty in ('RegisterAllocator', 'Lru') for (a, b, h) in impl_spans(base, ty)]
    for m in re.finditer(r'^\s*proof fn (\w+)', base[off:], re.M):
        nm = m.group(1)
        pos = off + m.start()
        owner = [ty for (a, b, ty) in spans if a <= pos < b]
        qual = (owner[0] + '::' + nm) if owner else nm
        if qual in seen or (owner and owner[0] == 'Lru'):
            continue
        seen.add(qual)
        O('lemma::' + nm, qual, kind='lemma')
    trace.fire('R-split', sum(1 for k in texts if k != 'base'))
    canary = ['RegisterAllocator::' + f for f in simple if f not in ('new', 'empty')] + ['RegTape::new', 'RegisterAllocator::op_reg_reg_k']
    return {'texts': texts, 'obligations': obls, 'canary_fns': canary}
