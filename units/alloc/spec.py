# Contracts, invariants and anchored proof blocks for alloc.rs / reg_tape.rs (unit `alloc`).
# Style: opaque sub-invariants + fact lemmas (DESIGN.md Appendix C).
import os
_D = os.path.dirname(os.path.abspath(__file__))
# GEN (reg_step/ssa_fe/ssa_fo/ssa_kind/ssa_o/ssa_a/ssa_b/op_ok) is generated per run from op.rs and set by the unit builder
LEMMAS = open(_D + '/sem_lemmas.rs').read() + '\n/*@GEN@*/\n' + open(_D + '/sem_static.rs').read()

OP_OK = ''

PRELUDE0 = OP_OK + r'''
impl<const N: usize> RegisterAllocator<N> {
    spec fn is_mem(a: u32) -> bool { N <= a && a != UNASSIGNED }

    #[verifier::opaque]
    spec fn link_ok(&self) -> bool {
        &&& forall|r: int| 0 <= r < N && #[trigger] self.registers[r] != UNASSIGNED ==>
              (self.registers[r] as int) < self.allocations@.len() && self.allocations@[self.registers[r] as int] == r
        &&& forall|s: int| 0 <= s < self.allocations@.len() && (#[trigger] self.allocations@[s] as int) < N ==>
              self.registers[self.allocations@[s] as int] == s
    }
    #[verifier::opaque]
    spec fn spare_ok(&self) -> bool {
        &&& forall|k: int| 0 <= k < self.spare_registers@.len() ==>
              (#[trigger] self.spare_registers@[k] as int) < N && self.registers[self.spare_registers@[k] as int] == UNASSIGNED
        &&& forall|j: int, k: int| 0 <= j < k < self.spare_registers@.len() ==> self.spare_registers@[j] != self.spare_registers@[k]
    }
    #[verifier::opaque]
    spec fn mem_ok(&self) -> bool {
        &&& forall|s: int| 0 <= s < self.allocations@.len() && Self::is_mem(#[trigger] self.allocations@[s]) ==> self.allocations@[s] < self.out.slot_count
        &&& forall|s: int, t: int| 0 <= s < t < self.allocations@.len() && Self::is_mem(#[trigger] self.allocations@[s]) && Self::is_mem(#[trigger] self.allocations@[t])
              ==> self.allocations@[s] != self.allocations@[t]
        &&& forall|k: int| 0 <= k < self.spare_memory@.len() ==> N <= #[trigger] self.spare_memory@[k] < self.out.slot_count
        &&& forall|j: int, k: int| 0 <= j < k < self.spare_memory@.len() ==> self.spare_memory@[j] != self.spare_memory@[k]
    }
    #[verifier::opaque]
    spec fn slot_ok(&self) -> bool {
        forall|r: u8| (r as int) < N && !(#[trigger] self.spare_registers@.contains(r)) ==> (r as int) < self.out.slot_count
    }
    #[verifier::opaque]
    spec fn tape_ok(&self) -> bool {
        forall|k: int| 0 <= k < self.out.tape@.len() ==> op_ok(#[trigger] self.out.tape@[k], N as int, self.out.slot_count as int)
    }
    /// invariant that holds at every program point inside an `op`
    spec fn wf_mid(&self) -> bool {
        &&& 3 <= N <= 255
        &&& self.allocations@.len() < u32::MAX
        &&& self.register_lru.wf()
        &&& self.link_ok()
        &&& self.spare_ok()
        &&& self.mem_ok()
        &&& self.slot_ok()
        &&& self.tape_ok()
    }
    /// live slots pointing at a memory slot that is on the free list are all in `st`
    #[verifier::opaque]
    spec fn stale_only(&self, st: Set<int>) -> bool {
        forall|s: int, k: int| 0 <= s < self.allocations@.len() && 0 <= k < self.spare_memory@.len()
            && #[trigger] self.allocations@[s] == #[trigger] self.spare_memory@[k] ==> st.contains(s)
    }
    /// every unbound register is on the free list, except those in `f`
    #[verifier::opaque]
    spec fn unbound_in(&self, f: Set<int>) -> bool {
        forall|r: u8| (r as int) < N && #[trigger] self.registers[r as int] == UNASSIGNED ==> self.spare_registers@.contains(r) || f.contains(r as int)
    }
    /// boundary invariant (between two calls of `op`)
    spec fn wf(&self) -> bool {
        self.wf_mid() && self.stale_only(Set::empty()) && self.unbound_in(Set::empty())
    }
    spec fn same_but_lru(&self, o: &Self) -> bool {
        &&& self.allocations@ == o.allocations@
        &&& self.registers@ == o.registers@
        &&& self.spare_registers@ == o.spare_registers@
        &&& self.spare_memory@ == o.spare_memory@
        &&& self.out.tape@ == o.out.tape@
        &&& self.out.slot_count == o.out.slot_count
    }

    // ---------------- fact lemmas (the only places mid-level code looks inside the invariant) -----
    proof fn lemma_reg_unique(&self, s: int)
        requires self.wf_mid(), 0 <= s < self.allocations@.len(), (self.allocations@[s] as int) < N
        ensures self.registers[self.allocations@[s] as int] == s,
            forall|t: int| 0 <= t < self.allocations@.len() && t != s ==> #[trigger] self.allocations@[t] != self.allocations@[s],
    {
        reveal(RegisterAllocator::link_ok);
    }
    proof fn lemma_unbound_unused(&self, r: u8)
        requires self.wf_mid(), (r as int) < N, self.registers[r as int] == UNASSIGNED
        ensures forall|t: int| 0 <= t < self.allocations@.len() ==> #[trigger] self.allocations@[t] != r as u32,
    {
        reveal(RegisterAllocator::link_ok);
    }
    proof fn lemma_mem_unique(&self, s: int)
        requires self.wf_mid(), 0 <= s < self.allocations@.len(), Self::is_mem(self.allocations@[s])
        ensures self.allocations@[s] < self.out.slot_count,
            forall|t: int| 0 <= t < self.allocations@.len() && t != s ==> #[trigger] self.allocations@[t] != self.allocations@[s],
    {
        reveal(RegisterAllocator::mem_ok);
        assert forall|t: int| 0 <= t < self.allocations@.len() && t != s implies #[trigger] self.allocations@[t] != self.allocations@[s] by {
            if self.allocations@[t] == self.allocations@[s] {
                if t < s { assert(Self::is_mem(self.allocations@[t])); } else { assert(Self::is_mem(self.allocations@[t])); }
            }
        }
    }
    proof fn lemma_not_stale(&self, s: int, st: Set<int>)
        requires self.stale_only(st), !st.contains(s), 0 <= s < self.allocations@.len()
        ensures !self.spare_memory@.contains(self.allocations@[s])
    {
        reveal(RegisterAllocator::stale_only);
        if self.spare_memory@.contains(self.allocations@[s]) {
            let k = choose|k: int| 0 <= k < self.spare_memory@.len() && self.spare_memory@[k] == self.allocations@[s];
            assert(self.allocations@[s] == self.spare_memory@[k]);
        }
    }
    proof fn lemma_bound_reg(&self, s: int)
        requires self.wf_mid(), 0 <= s < self.allocations@.len(), (self.allocations@[s] as int) < N
        ensures self.registers[self.allocations@[s] as int] != UNASSIGNED
    {
        reveal(RegisterAllocator::link_ok);
    }
    /// if nothing is on the free list, the LRU's oldest register is bound unless it is one of `f`
    proof fn lemma_oldest_bound(&self, f: Set<int>)
        requires self.wf_mid(), self.unbound_in(f), !f.contains(self.register_lru.order()[N as int - 1] as int)
        ensures self.spare_registers@.len() == 0 ==> self.registers[self.register_lru.order()[N as int - 1] as int] != UNASSIGNED
    {
        reveal(RegisterAllocator::unbound_in);
        self.register_lru.lemma_order_props();
        let r = self.register_lru.order()[N as int - 1];
        if self.spare_registers@.len() == 0 && self.registers[r as int] == UNASSIGNED {
            assert(self.spare_registers@.contains(r) || f.contains(r as int));
        }
    }
    proof fn lemma_push_op(pre: Self, post: Self, r: RegOp)
        requires pre.wf_mid(), post.allocations@ == pre.allocations@, post.registers@ == pre.registers@,
            post.spare_registers@ == pre.spare_registers@, post.spare_memory@ == pre.spare_memory@,
            post.register_lru == pre.register_lru, post.out.slot_count == pre.out.slot_count,
            post.out.tape@ == pre.out.tape@.push(r), op_ok(r, N as int, pre.out.slot_count as int),
        ensures post.wf_mid(),
            forall|f: Set<int>| #[trigger] pre.unbound_in(f) ==> post.unbound_in(f),
            forall|t: Set<int>| #[trigger] pre.stale_only(t) ==> post.stale_only(t),
    {
        reveal(RegisterAllocator::link_ok); reveal(RegisterAllocator::spare_ok); reveal(RegisterAllocator::mem_ok);
        reveal(RegisterAllocator::slot_ok); reveal(RegisterAllocator::tape_ok); reveal(RegisterAllocator::stale_only);
        reveal(RegisterAllocator::unbound_in);
        assert forall|k: int| 0 <= k < post.out.tape@.len() implies op_ok(#[trigger] post.out.tape@[k], N as int, post.out.slot_count as int) by {
            if k < pre.out.tape@.len() { assert(post.out.tape@[k] == pre.out.tape@[k]); }
        }
    }
    proof fn lemma_spare_unbound(&self, r: u8)
        requires self.wf_mid(), self.spare_registers@.contains(r)
        ensures (r as int) < N, self.registers[r as int] == UNASSIGNED
    {
        reveal(RegisterAllocator::spare_ok);
        let k = choose|k: int| 0 <= k < self.spare_registers@.len() && self.spare_registers@[k] == r;
        assert(self.registers[self.spare_registers@[k] as int] == UNASSIGNED);
    }
    proof fn lemma_unbound_eq(&self, f: Set<int>, g: Set<int>)
        requires self.unbound_in(f), f.subset_of(g)
        ensures self.unbound_in(g)
    {
        reveal(RegisterAllocator::unbound_in);
    }
    proof fn lemma_stale_eq(&self, f: Set<int>, g: Set<int>)
        requires self.stale_only(f), f.subset_of(g)
        ensures self.stale_only(g)
    {
        reveal(RegisterAllocator::stale_only);
    }
}
'''

REVEAL_ALL = """        proof {
            reveal(RegisterAllocator::link_ok); reveal(RegisterAllocator::spare_ok); reveal(RegisterAllocator::mem_ok);
            reveal(RegisterAllocator::slot_ok); reveal(RegisterAllocator::tape_ok); reveal(RegisterAllocator::stale_only);
            reveal(RegisterAllocator::unbound_in);
        }"""

TAPE_FRAME = """            final(self).out.tape@.len() >= old(self).out.tape@.len(),
            forall|k: int| 0 <= k < old(self).out.tape@.len() ==> #[trigger] final(self).out.tape@[k] == old(self).out.tape@[k],
"""
SIM = "            sim(final(self).allocations@, old(self).allocations@, final(self).out.tape@, old(self).out.tape@.len() as int, final(self).out.tape@.len() as int),\n"
UF_SAME = "            forall|f: Set<int>| #[trigger] old(self).unbound_in(f) ==> final(self).unbound_in(f),\n"
ST_SAME = "            forall|t: Set<int>| #[trigger] old(self).stale_only(t) ==> final(self).stale_only(t),\n"

SPECS = {
 'SsaTape::len': ('r: usize', """
        ensures r == self.tape@.len(),
"""),

 'RegTape::new': ('r: Self', """
        requires 3 <= N <= 255, ssa.tape@.len() < u32::MAX, ssa_wf(ssa.tape@, ssa.tape@.len() as int),
        ensures
            // the register tape computes exactly what the SSA tape computes, from ANY initial register/memory contents
            forall|st: St, env: Env, inp: Seq<f32>|
                (#[trigger] reg_run_rev(r.tape@, 0, r.tape@.len() as int, st, inp)).outs
                    == (#[trigger] ssa_run_rev(ssa.tape@, 0, ssa.tape@.len() as int, Ss { env: env, outs: st.outs }, inp)).outs,
"""),

 'new': ('r: Self', """
        requires 3 <= N <= 255, size < u32::MAX
        ensures r.wf(), r.allocations@ == Seq::new(size as nat, |i: int| UNASSIGNED), r.out.tape@.len() == 0,
"""),
 'finalize': ('r: RegTape', """
        ensures r.tape@ == old(self).out.tape@, r.slot_count == old(self).out.slot_count,
            final(self).out.tape@.len() == 0, final(self).out.slot_count == 0,
"""),

 'op_reg': (None, """
        requires old(self).wf(), ssa_kind(op) == 2, old(self).op_pre(op),
        ensures final(self).op_post(old(self), op),
"""),
 'op_reg_imm': (None, """
        requires old(self).wf(), ssa_kind(op) == 3, old(self).op_pre(op),
        ensures final(self).op_post(old(self), op),
"""),
 'op_reg_reg': (None, """
        requires old(self).wf(), ssa_kind(op) == 4, old(self).op_pre(op),
        ensures final(self).op_post(old(self), op),
"""),
 'op': (None, """
        requires old(self).wf(), old(self).op_pre(op),
        ensures final(self).op_post(old(self), op),
"""),

 'op_copy_imm': (None, """
        requires old(self).wf(), (out as int) < old(self).allocations@.len(), old(self).allocations@[out as int] != UNASSIGNED,
        ensures final(self).wf(),
            final(self).allocations@.len() == old(self).allocations@.len(),
            final(self).allocations@[out as int] == UNASSIGNED,
            final(self).out.tape@.len() >= old(self).out.tape@.len(),
            forall|k: int| 0 <= k < old(self).out.tape@.len() ==> #[trigger] final(self).out.tape@[k] == old(self).out.tape@[k],
            forall|s: int| 0 <= s < old(self).allocations@.len() && s != out ==>
                (#[trigger] final(self).allocations@[s] == UNASSIGNED <==> old(self).allocations@[s] == UNASSIGNED),
            simf(final(self).allocations@, old(self).allocations@, final(self).out.tape@, old(self).out.tape@.len() as int, final(self).out.tape@.len() as int, fe_def(out as int, c_imm(imm)), id_outs()),
"""),
 'op_input': (None, """
        requires old(self).wf(), (out as int) < old(self).allocations@.len(), old(self).allocations@[out as int] != UNASSIGNED,
        ensures final(self).wf(),
            final(self).allocations@.len() == old(self).allocations@.len(),
            final(self).allocations@[out as int] == UNASSIGNED,
            final(self).out.tape@.len() >= old(self).out.tape@.len(),
            forall|k: int| 0 <= k < old(self).out.tape@.len() ==> #[trigger] final(self).out.tape@[k] == old(self).out.tape@[k],
            forall|s: int| 0 <= s < old(self).allocations@.len() && s != out ==>
                (#[trigger] final(self).allocations@[s] == UNASSIGNED <==> old(self).allocations@[s] == UNASSIGNED),
            simf(final(self).allocations@, old(self).allocations@, final(self).out.tape@, old(self).out.tape@.len() as int, final(self).out.tape@.len() as int, fe_def(out as int, c_inp(i as int)), id_outs()),
"""),

 'op_out_only': (None, """
        requires old(self).wf(), (out as int) < old(self).allocations@.len(), old(self).allocations@[out as int] != UNASSIGNED,
            forall|a: u8| op.requires((a,)),
            forall|a: u8, r: RegOp, sl: int| #[trigger] op.ensures((a,), r) && (a as int) < N ==> #[trigger] op_ok(r, N as int, sl),
        ensures final(self).wf(),
            final(self).allocations@.len() == old(self).allocations@.len(),
            final(self).allocations@[out as int] == UNASSIGNED,
            final(self).out.tape@.len() >= old(self).out.tape@.len(),
            forall|k: int| 0 <= k < old(self).out.tape@.len() ==> #[trigger] final(self).out.tape@[k] == old(self).out.tape@[k],
            forall|s: int| 0 <= s < old(self).allocations@.len() && s != out ==>
                (#[trigger] final(self).allocations@[s] == UNASSIGNED <==> old(self).allocations@[s] == UNASSIGNED),
            forall|c: spec_fn(Seq<f32>) -> f32| #[trigger] shape_out(op, c) ==>
                simf(final(self).allocations@, old(self).allocations@, final(self).out.tape@, old(self).out.tape@.len() as int, final(self).out.tape@.len() as int, fe_def(out as int, c), id_outs()),
"""),
 'op_output': (None, """
        requires old(self).wf(), (arg as int) < old(self).allocations@.len(),
        ensures final(self).wf(),
            final(self).allocations@.len() == old(self).allocations@.len(),
            final(self).allocations@[arg as int] != UNASSIGNED,
            final(self).out.tape@.len() >= old(self).out.tape@.len(),
            forall|k: int| 0 <= k < old(self).out.tape@.len() ==> #[trigger] final(self).out.tape@[k] == old(self).out.tape@[k],
            forall|s: int| 0 <= s < old(self).allocations@.len() && s != arg ==>
                (#[trigger] final(self).allocations@[s] == UNASSIGNED <==> old(self).allocations@[s] == UNASSIGNED),
            simf(final(self).allocations@, old(self).allocations@, final(self).out.tape@, old(self).out.tape@.len() as int, final(self).out.tape@.len() as int, id_env(), fo_output(i as int, arg as int)),
"""),

 'op_reg_reg_k': (None, """
        requires old(self).wf(), (out as int) < old(self).allocations@.len(), (lhs as int) < old(self).allocations@.len(),
            (rhs as int) < old(self).allocations@.len(), out != lhs, out != rhs,
            old(self).allocations@[out as int] != UNASSIGNED,
            forall|a: u8, b: u8, c: u8| op.requires((a, b, c)),
            forall|a: u8, b: u8, c: u8, r: RegOp, sl: int| #[trigger] op.ensures((a, b, c), r) && (a as int) < N && (b as int) < N && (c as int) < N ==> #[trigger] op_ok(r, N as int, sl),
        ensures final(self).wf(),
            final(self).allocations@.len() == old(self).allocations@.len(),
            final(self).allocations@[out as int] == UNASSIGNED, final(self).allocations@[lhs as int] != UNASSIGNED, final(self).allocations@[rhs as int] != UNASSIGNED,
            forall|s: int| 0 <= s < old(self).allocations@.len() && s != out && s != lhs && s != rhs ==>
                (#[trigger] final(self).allocations@[s] == UNASSIGNED <==> old(self).allocations@[s] == UNASSIGNED),
            final(self).out.tape@.len() >= old(self).out.tape@.len(),
            forall|k: int| 0 <= k < old(self).out.tape@.len() ==> #[trigger] final(self).out.tape@[k] == old(self).out.tape@[k],
            forall|g: spec_fn(f32, f32) -> f32| #[trigger] shape_bin(op, g) ==>
                simf(final(self).allocations@, old(self).allocations@, final(self).out.tape@, old(self).out.tape@.len() as int, final(self).out.tape@.len() as int, fe_bin(out as int, lhs as int, rhs as int, g), id_outs()),
"""),

 'op_reg_fn': (None, """
        requires old(self).wf(), (out as int) < old(self).allocations@.len(), (arg as int) < old(self).allocations@.len(), out != arg,
            old(self).allocations@[out as int] != UNASSIGNED,
            forall|a: u8, b: u8| op.requires((a, b)),
            forall|a: u8, b: u8, r: RegOp, sl: int| #[trigger] op.ensures((a, b), r) && (a as int) < N && (b as int) < N ==> #[trigger] op_ok(r, N as int, sl),
        ensures final(self).wf(),
            final(self).allocations@.len() == old(self).allocations@.len(),
            final(self).allocations@[out as int] == UNASSIGNED, final(self).allocations@[arg as int] != UNASSIGNED,
            forall|s: int| 0 <= s < old(self).allocations@.len() && s != out && s != arg ==>
                (#[trigger] final(self).allocations@[s] == UNASSIGNED <==> old(self).allocations@[s] == UNASSIGNED),
            final(self).out.tape@.len() >= old(self).out.tape@.len(),
            forall|k: int| 0 <= k < old(self).out.tape@.len() ==> #[trigger] final(self).out.tape@[k] == old(self).out.tape@[k],
            forall|f: spec_fn(f32) -> f32| #[trigger] shape_un(op, f) ==>
                simf(final(self).allocations@, old(self).allocations@, final(self).out.tape@, old(self).out.tape@.len() as int, final(self).out.tape@.len() as int, fe_un(out as int, arg as int, f), id_outs()),
"""),

 'get_memory': ('m: u32', '''
        requires old(self).wf_mid(), old(self).stale_only(Set::empty()), old(self).spare_registers@.len() == 0,
        ensures final(self).wf_mid(), final(self).stale_only(Set::empty()),
            Self::is_mem(m), m < final(self).out.slot_count,
            !final(self).spare_memory@.contains(m),
            forall|s: int| 0 <= s < final(self).allocations@.len() ==> #[trigger] final(self).allocations@[s] != m,
            final(self).allocations@ == old(self).allocations@,
            final(self).registers@ == old(self).registers@,
            final(self).spare_registers@ == old(self).spare_registers@,
            final(self).register_lru == old(self).register_lru,
            final(self).out.tape@ == old(self).out.tape@,
            final(self).out.slot_count >= old(self).out.slot_count,
''' + UF_SAME),
 'oldest_reg': ('r: u8', '''
        requires old(self).register_lru.wf(),
        ensures final(self).register_lru.wf(),
            r == old(self).register_lru.order()[N as int - 1],
            final(self).register_lru.order() == seq![r] + old(self).register_lru.order().subrange(0, N as int - 1),
            final(self).same_but_lru(old(self)),
'''),
 'get_allocation': ('r: Allocation', '''
        requires old(self).wf_mid(), (n as int) < old(self).allocations@.len(),
        ensures final(self).wf_mid(), final(self).same_but_lru(old(self)),
''' + UF_SAME + ST_SAME + '''            match r {
                Allocation::Register(i) => old(self).allocations@[n as int] == i as u32 && (i as int) < N
                    && final(self).register_lru.order() == poke_order(old(self).register_lru.order(), i),
                Allocation::Memory(m) => old(self).allocations@[n as int] == m && Self::is_mem(m)
                    && final(self).register_lru == old(self).register_lru,
                Allocation::Unassigned => old(self).allocations@[n as int] == UNASSIGNED
                    && final(self).register_lru == old(self).register_lru,
            },
'''),
 'get_spare_register': ('r: Option<u8>', '''
        requires old(self).wf_mid(),
        ensures final(self).wf_mid(),
            final(self).allocations@ == old(self).allocations@,
            final(self).registers@ == old(self).registers@,
            final(self).spare_memory@ == old(self).spare_memory@,
            final(self).register_lru == old(self).register_lru,
            final(self).out.tape@ == old(self).out.tape@,
''' + ST_SAME + '''            match r {
                None => old(self).spare_registers@.len() == 0 && final(self).spare_registers@ == old(self).spare_registers@
                    && final(self).out.slot_count == old(self).out.slot_count
                    && (forall|f: Set<int>| #[trigger] old(self).unbound_in(f) ==> final(self).unbound_in(f)),
                Some(reg) => old(self).spare_registers@.len() > 0 && reg == old(self).spare_registers@.last()
                    && final(self).spare_registers@ == old(self).spare_registers@.drop_last()
                    && final(self).out.slot_count >= old(self).out.slot_count
                    && (reg as int) < N && old(self).registers[reg as int] == UNASSIGNED
                    && !final(self).spare_registers@.contains(reg)
                    && (forall|f: Set<int>| #[trigger] old(self).unbound_in(f) ==> final(self).unbound_in(f.insert(reg as int))),
            },
'''),
 'get_register': ('reg: u8', '''
        requires old(self).wf_mid(), old(self).stale_only(Set::empty()),
            old(self).spare_registers@.len() == 0 ==> old(self).registers[old(self).register_lru.order()[N as int - 1] as int] != UNASSIGNED,
        ensures final(self).wf_mid(), final(self).stale_only(Set::empty()),
            (reg as int) < N, final(self).registers[reg as int] == UNASSIGNED, !final(self).spare_registers@.contains(reg),
            final(self).register_lru.order() == poke_order(old(self).register_lru.order(), reg),
            final(self).out.slot_count >= old(self).out.slot_count,
            final(self).allocations@.len() == old(self).allocations@.len(),
            forall|r: int| 0 <= r < N && r != reg ==> final(self).registers[r] == old(self).registers[r],
            forall|f: Set<int>| #[trigger] old(self).unbound_in(f) ==> final(self).unbound_in(f.insert(reg as int)),
            // either the register was free before, or it was the LRU's oldest
            old(self).registers[reg as int] == UNASSIGNED || reg == old(self).register_lru.order()[N as int - 1],
            old(self).spare_registers@.len() > 0 ==> old(self).spare_registers@.contains(reg),
            forall|r: u8| #[trigger] final(self).spare_registers@.contains(r) ==> old(self).spare_registers@.contains(r),
            old(self).spare_registers@.len() == 0 ==> reg == old(self).register_lru.order()[N as int - 1],
            // allocations only change by moving (at most) one register binding to a fresh memory slot
            forall|s: int| 0 <= s < old(self).allocations@.len() ==>
                (#[trigger] final(self).allocations@[s] == old(self).allocations@[s]
                 || (old(self).allocations@[s] == reg as u32 && Self::is_mem(final(self).allocations@[s])
                     && forall|t: int| 0 <= t < old(self).allocations@.len() ==> #[trigger] old(self).allocations@[t] != final(self).allocations@[s])),
''' + TAPE_FRAME + SIM),
 'bind_register': (None, '''
        requires old(self).wf_mid(), (n as int) < old(self).allocations@.len(), (reg as int) < N,
            old(self).allocations@[n as int] >= N, old(self).registers[reg as int] == UNASSIGNED,
            !old(self).spare_registers@.contains(reg),
        ensures final(self).wf_mid(),
            final(self).allocations@ == old(self).allocations@.update(n as int, reg as u32),
            final(self).registers@ == old(self).registers@.update(reg as int, n),
            final(self).spare_registers@ == old(self).spare_registers@,
            final(self).spare_memory@ == old(self).spare_memory@,
            final(self).register_lru == old(self).register_lru,
            final(self).out == old(self).out,
            forall|f: Set<int>| #[trigger] old(self).unbound_in(f) ==> final(self).unbound_in(f.remove(reg as int)),
            forall|t: Set<int>| #[trigger] old(self).stale_only(t) ==> final(self).stale_only(t.remove(n as int)),
'''),
 'rebind_register': (None, '''
        requires old(self).wf_mid(), (n as int) < old(self).allocations@.len(), (reg as int) < N,
            old(self).allocations@[n as int] >= N, old(self).registers[reg as int] != UNASSIGNED,
        ensures final(self).wf_mid(),
            final(self).allocations@ == old(self).allocations@.update(old(self).registers[reg as int] as int, UNASSIGNED).update(n as int, reg as u32),
            final(self).registers@ == old(self).registers@.update(reg as int, n),
            final(self).spare_registers@ == old(self).spare_registers@,
            final(self).spare_memory@ == old(self).spare_memory@,
            final(self).register_lru == old(self).register_lru,
            final(self).out == old(self).out,
''' + UF_SAME + '''            forall|t: Set<int>| #[trigger] old(self).stale_only(t) ==> final(self).stale_only(t.remove(n as int)),
'''),
 'release_reg': (None, '''
        requires old(self).wf_mid(), (reg as int) < N, old(self).registers[reg as int] != UNASSIGNED,
        ensures final(self).wf_mid(),
            final(self).allocations@ == old(self).allocations@.update(old(self).registers[reg as int] as int, UNASSIGNED),
            final(self).registers@ == old(self).registers@.update(reg as int, UNASSIGNED),
            final(self).spare_registers@ == old(self).spare_registers@.push(reg),
            final(self).spare_memory@ == old(self).spare_memory@,
            final(self).register_lru == old(self).register_lru,
            final(self).out == old(self).out,
''' + UF_SAME + ST_SAME),
 'release_mem': (None, '''
        requires old(self).wf_mid(), Self::is_mem(mem), mem < old(self).out.slot_count, !old(self).spare_memory@.contains(mem),
        ensures final(self).wf_mid(),
            final(self).spare_memory@ == old(self).spare_memory@.push(mem),
            final(self).allocations@ == old(self).allocations@,
            final(self).registers@ == old(self).registers@,
            final(self).spare_registers@ == old(self).spare_registers@,
            final(self).register_lru == old(self).register_lru,
            final(self).out == old(self).out,
''' + UF_SAME + '''            forall|t: Set<int>, s0: int| #[trigger] old(self).stale_only(t) && 0 <= s0 < old(self).allocations@.len() && #[trigger] old(self).allocations@[s0] == mem
                && (forall|u: int| 0 <= u < old(self).allocations@.len() && u != s0 ==> old(self).allocations@[u] != mem)
                ==> final(self).stale_only(t.insert(s0)),
'''),
 'push_store': (None, '''
        requires old(self).wf_mid(), (reg as int) < N, Self::is_mem(mem), mem < old(self).out.slot_count, !old(self).spare_memory@.contains(mem),
        ensures final(self).wf_mid(),
            final(self).spare_memory@ == old(self).spare_memory@.push(mem),
            final(self).allocations@ == old(self).allocations@,
            final(self).registers@ == old(self).registers@,
            final(self).spare_registers@ == old(self).spare_registers@,
            final(self).register_lru == old(self).register_lru,
            final(self).out.tape@ == old(self).out.tape@.push(RegOp::Store(reg, mem)),
            final(self).out.slot_count == old(self).out.slot_count,
''' + UF_SAME + '''            forall|t: Set<int>, s0: int| #[trigger] old(self).stale_only(t) && 0 <= s0 < old(self).allocations@.len() && #[trigger] old(self).allocations@[s0] == mem
                && (forall|u: int| 0 <= u < old(self).allocations@.len() && u != s0 ==> old(self).allocations@[u] != mem)
                ==> final(self).stale_only(t.insert(s0)),
'''),
 'get_out_reg': ('r: u8', '''
        requires old(self).wf(), (out as int) < old(self).allocations@.len(), old(self).allocations@[out as int] != UNASSIGNED,
        ensures final(self).wf(), (r as int) < N,
            final(self).allocations@[out as int] == r as u32, final(self).registers[r as int] == out,
            final(self).register_lru.order()[0] == r,
''' + TAPE_FRAME + SIM + '''            final(self).allocations@.len() == old(self).allocations@.len(),
            forall|s: int| 0 <= s < old(self).allocations@.len() ==>
                (#[trigger] final(self).allocations@[s] == UNASSIGNED <==> old(self).allocations@[s] == UNASSIGNED),
'''),
}

PROOFS = {
 "RegTape::new|let mut k_: usize = 0;": """
        let ghost a0 = alloc.allocations@;
        let ghost ops = ssa.tape@;
        proof { lemma_sim_start(a0, alloc.out.tape@, ops); }""",


 "op_output|Allocation::Register(r_y) => {": """
                let ghost s1 = *self;
                proof { s1.lemma_bound_reg(arg as int); }""",
 "op_output|self.out.push(RegOp::Output(r_y, i));": """
                proof {
                    let o0 = *old(self);
                    let lo = o0.out.tape@.len() as int;
                    Self::lemma_push_op(s1, *self, RegOp::Output(r_y, i));
                    assert(self.out.tape@[lo] == RegOp::Output(r_y, i));
                    lemma_step_output(self.allocations@, self.out.tape@, lo, r_y, i, arg as int);
                }""",

 "op_out_only|let r_x = self.get_out_reg(out);": """
        let ghost s1 = *self;
        proof { s1.lemma_reg_unique(out as int); }""",
 "op_out_only|self.out.push(op(r_x));": """
        let ghost s2 = *self;
        proof { Self::lemma_push_op(s1, s2, s2.out.tape@.last()); }""",
 "op_out_only|self.release_reg(r_x);": """
        proof {
            let o0 = *old(self);
            let e: Set<int> = Set::empty();
            let lo = o0.out.tape@.len() as int;
            let hi = self.out.tape@.len() as int;
            let mid = s1.out.tape@.len() as int;
            let rop = self.out.tape@[mid];
            assert(op.ensures((r_x,), rop));
            assert forall|c: spec_fn(Seq<f32>) -> f32| #[trigger] shape_out(op, c) implies
                simf(self.allocations@, o0.allocations@, self.out.tape@, lo, hi, fe_def(out as int, c), id_outs()) by {
                lemma_step_def(s1.allocations@, self.out.tape@, mid, r_x, out as int, c);
                lemma_sim_ext(s1.allocations@, o0.allocations@, s1.out.tape@, self.out.tape@, lo, mid, id_env(), id_outs());
                lemma_sim_then(self.allocations@, s1.allocations@, o0.allocations@, self.out.tape@, lo, mid, hi, fe_def(out as int, c), id_outs());
            }
        }""",
 "op_copy_imm|self.op_out_only(out, f);": """
        proof { assert(shape_out(f, c_imm(imm))); }""",
 "op_input|self.op_out_only(out, f);": """
        proof { assert(shape_out(f, c_inp(i as int))); }""",
 "op_output|Allocation::Memory(m_y) => {": """
                let ghost s1 = *self;
                proof { s1.lemma_oldest_bound(Set::empty()); }""",
 "op_output|let r_a = self.get_register();#0": """
                let ghost s2 = *self;
                proof {
                    assert(s2.allocations@[arg as int] == m_y);
                    s2.lemma_mem_unique(arg as int);
                    s2.lemma_not_stale(arg as int, Set::empty());
                }""",
 "op_output|self.push_store(r_a, m_y);": """
                let ghost s3 = *self;""",
 "op_output|self.out.push(RegOp::Output(r_a, i));#0": """
                let ghost s4 = *self;
                proof { Self::lemma_push_op(s3, s4, RegOp::Output(r_a, i)); }""",
 "op_output|self.bind_register(arg, r_a);#0": """
                proof {
                    let o0 = *old(self);
                    let e: Set<int> = Set::empty();
                    let lo = o0.out.tape@.len() as int;
                    let hi = self.out.tape@.len() as int;
                    assert(s3.stale_only(e.insert(arg as int)));
                    assert(e.insert(arg as int).remove(arg as int) =~= e);
                    assert(s2.unbound_in(e.insert(r_a as int)));
                    assert(e.insert(r_a as int).remove(r_a as int) =~= e);
                    let mid = s2.out.tape@.len() as int;
                    assert(self.out.tape@[mid] == RegOp::Store(r_a, m_y));
                    assert(self.out.tape@[mid + 1] == RegOp::Output(r_a, i));
                    let a2 = self.allocations@;
                    lemma_step_output(a2, self.out.tape@, mid + 1, r_a, i, arg as int);
                    lemma_step_store(s2.allocations@, self.out.tape@, mid, r_a, m_y, arg as int, N as int);
                    lemma_sim_ext(s2.allocations@, o0.allocations@, s2.out.tape@, self.out.tape@, lo, mid, id_env(), id_outs());
                    lemma_sim_then(a2, s2.allocations@, o0.allocations@, self.out.tape@, lo, mid, mid + 1, id_env(), id_outs());
                    lemma_sim_then(a2, a2, o0.allocations@, self.out.tape@, lo, mid + 1, hi, id_env(), fo_output(i as int, arg as int));
                }""",
 "op_output|Allocation::Unassigned => {": """
                let ghost s1 = *self;
                proof { s1.lemma_oldest_bound(Set::empty()); }""",
 "op_output|let r_a = self.get_register();#1": """
                let ghost s2 = *self;
                proof { assert(s2.allocations@[arg as int] == UNASSIGNED); }""",
 "op_output|self.out.push(RegOp::Output(r_a, i));#1": """
                let ghost s4 = *self;
                proof { Self::lemma_push_op(s2, s4, RegOp::Output(r_a, i)); }""",
 "op_output|self.bind_register(arg, r_a);#1": """
                proof {
                    let o0 = *old(self);
                    let e: Set<int> = Set::empty();
                    let lo = o0.out.tape@.len() as int;
                    let hi = self.out.tape@.len() as int;
                    assert(e.remove(arg as int) =~= e);
                    assert(s2.unbound_in(e.insert(r_a as int)));
                    assert(e.insert(r_a as int).remove(r_a as int) =~= e);
                    let mid = s2.out.tape@.len() as int;
                    assert(self.out.tape@[mid] == RegOp::Output(r_a, i));
                    let a2 = self.allocations@;
                    lemma_step_output(a2, self.out.tape@, mid, r_a, i, arg as int);
                    lemma_sim_drop(a2, arg as int, self.out.tape@, mid);
                    assert(a2.update(arg as int, UNASSIGNED) =~= s2.allocations@);
                    lemma_sim_ext(s2.allocations@, o0.allocations@, s2.out.tape@, self.out.tape@, lo, mid, id_env(), id_outs());
                    lemma_sim_then(a2, s2.allocations@, o0.allocations@, self.out.tape@, lo, mid, mid, id_env(), id_outs());
                    lemma_sim_then(a2, a2, o0.allocations@, self.out.tape@, lo, mid, hi, id_env(), fo_output(i as int, arg as int));
                }""",

 "op_reg_reg_k|(Allocation::Memory(m_y), Allocation::Memory(m_z)) => {": """
                let ghost s3 = *self;
                proof {
                    s3.lemma_oldest_bound(Set::empty());
                    s3.register_lru.lemma_order_props();
                }""",
 "op_reg_reg_k|let r_a = self.get_register();#3": """
                let ghost s4 = *self;
                proof {
                    let e: Set<int> = Set::empty();
                    assert(r_a != r_x);
                    s4.register_lru.lemma_order_props();
                    lemma_poke_head(s3.register_lru.order(), r_a);
                    lemma_perm_contains::<N>(s3.register_lru, s3.register_lru.order(), r_a);
                    lemma_poke_second(s3.register_lru.order(), r_a);
                    assert(s4.unbound_in(e.insert(r_a as int)));
                    s4.lemma_oldest_bound(e.insert(r_a as int));
                }""",
 "op_reg_reg_k|let r_b = self.get_register();": """
                let ghost s5 = *self;
                proof {
                    if s4.spare_registers@.len() > 0 { s4.lemma_spare_unbound(r_b); }
                    assert(!s5.spare_registers@.contains(r_a));
                    assert(r_b != r_a);
                    assert(r_b != r_x);
                    assert(s5.allocations@[lhs as int] == m_y);
                    assert(s5.allocations@[rhs as int] == m_z);
                    assert(s5.allocations@[out as int] == r_x as u32);
                    s5.lemma_mem_unique(lhs as int);
                    s5.lemma_mem_unique(rhs as int);
                    s5.lemma_not_stale(lhs as int, Set::empty());
                    s5.lemma_not_stale(rhs as int, Set::empty());
                }""",
 "op_reg_reg_k|self.push_store(r_a, m_y);#2": """
                let ghost s6 = *self;
                proof {
                    assert(!s6.spare_memory@.contains(m_z)) by {
                        if s6.spare_memory@.contains(m_z) {
                            let k = choose|k: int| 0 <= k < s6.spare_memory@.len() && s6.spare_memory@[k] == m_z;
                            if k < s5.spare_memory@.len() { assert(s5.spare_memory@[k] == m_z); assert(s5.spare_memory@.contains(m_z)); }
                        }
                    }
                }""",
 "op_reg_reg_k|self.push_store(r_b, m_z);": """
                let ghost s7 = *self;""",
 "op_reg_reg_k|self.out.push(op(r_x, r_a, r_b));": """
                let ghost s8 = *self;
                proof { Self::lemma_push_op(s7, s8, s8.out.tape@.last()); }""",
 "op_reg_reg_k|self.release_reg(r_x);#4": """
                let ghost s9 = *self;
                proof {
                    assert(!s9.spare_registers@.contains(r_a)) by {
                        if s9.spare_registers@.contains(r_a) {
                            let k = choose|k: int| 0 <= k < s9.spare_registers@.len() && s9.spare_registers@[k] == r_a;
                            if k < s8.spare_registers@.len() { assert(s8.spare_registers@[k] == r_a); assert(s8.spare_registers@.contains(r_a)); }
                        }
                    }
                    assert(!s9.spare_registers@.contains(r_b)) by {
                        if s9.spare_registers@.contains(r_b) {
                            let k = choose|k: int| 0 <= k < s9.spare_registers@.len() && s9.spare_registers@[k] == r_b;
                            if k < s8.spare_registers@.len() { assert(s8.spare_registers@[k] == r_b); assert(s8.spare_registers@.contains(r_b)); }
                        }
                    }
                }""",
 "op_reg_reg_k|self.bind_register(lhs, r_a);#2": """
                let ghost s10 = *self;""",
 "op_reg_reg_k|self.bind_register(rhs, r_b);": """
                proof {
                    let o0 = *old(self);
                    let e: Set<int> = Set::empty();
                    let lo = o0.out.tape@.len() as int;
                    let mid = s1.out.tape@.len() as int;
                    let hi = self.out.tape@.len() as int;
                    assert(s6.stale_only(e.insert(lhs as int)));
                    assert(s7.stale_only(e.insert(lhs as int).insert(rhs as int)));
                    assert(e.insert(lhs as int).insert(rhs as int).remove(lhs as int).remove(rhs as int) =~= e);
                    assert(s5.unbound_in(e.insert(r_a as int).insert(r_b as int)));
                    assert(e.insert(r_a as int).insert(r_b as int).remove(r_a as int).remove(r_b as int) =~= e);
                    let mid2 = s4.out.tape@.len() as int;
                    let mid3 = s5.out.tape@.len() as int;
                    assert(hi == mid3 + 3);
                    assert(self.out.tape@[mid3] == RegOp::Store(r_a, m_y));
                    assert(self.out.tape@[mid3 + 1] == RegOp::Store(r_b, m_z));
                    let rop = self.out.tape@[mid3 + 2];
                    assert(op.ensures((r_x, r_a, r_b), rop));
                    let a5 = s5.allocations@;
                    let a6 = a5.update(lhs as int, r_a as u32);
                    let a7 = a6.update(rhs as int, r_b as u32);
                    assert(self.allocations@ =~= a7.update(out as int, UNASSIGNED));
                    s5.lemma_reg_unique(out as int);
                    s5.lemma_unbound_unused(r_a);
                    s5.lemma_unbound_unused(r_b);
                    assert forall|g: spec_fn(f32, f32) -> f32| #[trigger] shape_bin(op, g) implies
                        simf(self.allocations@, o0.allocations@, self.out.tape@, lo, hi, fe_bin(out as int, lhs as int, rhs as int, g), id_outs()) by {
                        lemma_step_bin(self.allocations@, a7, self.out.tape@, mid3 + 2, r_x, r_a, r_b, out as int, lhs as int, rhs as int, g);
                        lemma_step_store(a6, self.out.tape@, mid3 + 1, r_b, m_z, rhs as int, N as int);
                        lemma_step_store(a5, self.out.tape@, mid3, r_a, m_y, lhs as int, N as int);
                        lemma_sim_ext(s5.allocations@, s4.allocations@, s5.out.tape@, self.out.tape@, mid2, mid3, id_env(), id_outs());
                        lemma_sim_ext(s4.allocations@, s1.allocations@, s4.out.tape@, self.out.tape@, mid, mid2, id_env(), id_outs());
                        lemma_sim_ext(s1.allocations@, o0.allocations@, s1.out.tape@, self.out.tape@, lo, mid, id_env(), id_outs());
                        lemma_sim_then(s4.allocations@, s1.allocations@, o0.allocations@, self.out.tape@, lo, mid, mid2, id_env(), id_outs());
                        lemma_sim_then(a5, s4.allocations@, o0.allocations@, self.out.tape@, lo, mid2, mid3, id_env(), id_outs());
                        lemma_sim_then(a6, a5, o0.allocations@, self.out.tape@, lo, mid3, mid3 + 1, id_env(), id_outs());
                        lemma_sim_then(a7, a6, o0.allocations@, self.out.tape@, lo, mid3 + 1, mid3 + 2, id_env(), id_outs());
                        lemma_sim_then(self.allocations@, a7, o0.allocations@, self.out.tape@, lo, mid3 + 2, hi, fe_bin(out as int, lhs as int, rhs as int, g), id_outs());
                    }
                }""",
 "op_reg_reg_k|(Allocation::Unassigned, Allocation::Register(r_z)) => {": """
                let ghost s3 = *self;""",
 "op_reg_reg_k|self.out.push(op(r_x, r_x, r_z));": """
                let ghost s4 = *self;
                proof { Self::lemma_push_op(s3, s4, s4.out.tape@.last()); }""",
 "op_reg_reg_k|self.rebind_register(lhs, r_x);#0": """
                proof {
                    let o0 = *old(self);
                    let e: Set<int> = Set::empty();
                    let lo = o0.out.tape@.len() as int;
                    let mid = s1.out.tape@.len() as int;
                    let hi = self.out.tape@.len() as int;
                    assert(e.remove(lhs as int) =~= e);
                    let rop = self.out.tape@[mid];
                    assert(op.ensures((r_x, r_x, r_z), rop));
                    assert forall|g: spec_fn(f32, f32) -> f32| #[trigger] shape_bin(op, g) implies
                        simf(self.allocations@, o0.allocations@, self.out.tape@, lo, hi, fe_bin(out as int, lhs as int, rhs as int, g), id_outs()) by {
                        lemma_step_bin(self.allocations@, s1.allocations@, self.out.tape@, mid, r_x, r_x, r_z, out as int, lhs as int, rhs as int, g);
                        lemma_sim_ext(s1.allocations@, o0.allocations@, s1.out.tape@, self.out.tape@, lo, mid, id_env(), id_outs());
                        lemma_sim_then(self.allocations@, s1.allocations@, o0.allocations@, self.out.tape@, lo, mid, hi, fe_bin(out as int, lhs as int, rhs as int, g), id_outs());
                    }
                }""",
 "op_reg_reg_k|(Allocation::Register(r_y), Allocation::Unassigned) => {": """
                let ghost s3 = *self;""",
 "op_reg_reg_k|self.out.push(op(r_x, r_y, r_x));": """
                let ghost s4 = *self;
                proof { Self::lemma_push_op(s3, s4, s4.out.tape@.last()); }""",
 "op_reg_reg_k|self.rebind_register(rhs, r_x);#0": """
                proof {
                    let o0 = *old(self);
                    let e: Set<int> = Set::empty();
                    let lo = o0.out.tape@.len() as int;
                    let mid = s1.out.tape@.len() as int;
                    let hi = self.out.tape@.len() as int;
                    assert(e.remove(rhs as int) =~= e);
                    let rop = self.out.tape@[mid];
                    assert(op.ensures((r_x, r_y, r_x), rop));
                    assert forall|g: spec_fn(f32, f32) -> f32| #[trigger] shape_bin(op, g) implies
                        simf(self.allocations@, o0.allocations@, self.out.tape@, lo, hi, fe_bin(out as int, lhs as int, rhs as int, g), id_outs()) by {
                        lemma_step_bin(self.allocations@, s1.allocations@, self.out.tape@, mid, r_x, r_y, r_x, out as int, lhs as int, rhs as int, g);
                        lemma_sim_ext(s1.allocations@, o0.allocations@, s1.out.tape@, self.out.tape@, lo, mid, id_env(), id_outs());
                        lemma_sim_then(self.allocations@, s1.allocations@, o0.allocations@, self.out.tape@, lo, mid, hi, fe_bin(out as int, lhs as int, rhs as int, g), id_outs());
                    }
                }""",
 "op_reg_reg_k|(Allocation::Unassigned, Allocation::Unassigned) if lhs == rhs => {": """
                let ghost s3 = *self;""",
 "op_reg_reg_k|self.out.push(op(r_x, r_x, r_x));": """
                let ghost s4 = *self;
                proof { Self::lemma_push_op(s3, s4, s4.out.tape@.last()); }""",
 "op_reg_reg_k|self.rebind_register(lhs, r_x);#1": """
                proof {
                    let o0 = *old(self);
                    let e: Set<int> = Set::empty();
                    let lo = o0.out.tape@.len() as int;
                    let mid = s1.out.tape@.len() as int;
                    let hi = self.out.tape@.len() as int;
                    assert(e.remove(lhs as int) =~= e);
                    let rop = self.out.tape@[mid];
                    assert(op.ensures((r_x, r_x, r_x), rop));
                    assert forall|g: spec_fn(f32, f32) -> f32| #[trigger] shape_bin(op, g) implies
                        simf(self.allocations@, o0.allocations@, self.out.tape@, lo, hi, fe_bin(out as int, lhs as int, rhs as int, g), id_outs()) by {
                        lemma_step_bin(self.allocations@, s1.allocations@, self.out.tape@, mid, r_x, r_x, r_x, out as int, lhs as int, rhs as int, g);
                        lemma_sim_ext(s1.allocations@, o0.allocations@, s1.out.tape@, self.out.tape@, lo, mid, id_env(), id_outs());
                        lemma_sim_then(self.allocations@, s1.allocations@, o0.allocations@, self.out.tape@, lo, mid, hi, fe_bin(out as int, lhs as int, rhs as int, g), id_outs());
                    }
                }""",
 "op_reg_reg_k|(Allocation::Unassigned, Allocation::Unassigned) => {": """
                let ghost s3 = *self;
                proof { s3.lemma_oldest_bound(Set::empty()); s3.register_lru.lemma_order_props(); }""",
 "op_reg_reg_k|let r_a = self.get_register();#4": """
                let ghost s4 = *self;
                proof {
                    assert(r_a != r_x);
                    assert(s4.allocations@[lhs as int] == UNASSIGNED);
                    assert(s4.allocations@[rhs as int] == UNASSIGNED);
                    assert(s4.allocations@[out as int] == r_x as u32);
                }""",
 "op_reg_reg_k|self.out.push(op(r_x, r_x, r_a));#0": """
                let ghost s5 = *self;
                proof { Self::lemma_push_op(s4, s5, s5.out.tape@.last()); }""",
 "op_reg_reg_k|self.rebind_register(lhs, r_x);#2": """
                let ghost s6 = *self;""",
 "op_reg_reg_k|self.bind_register(rhs, r_a);#1": """
                proof {
                    let o0 = *old(self);
                    let e: Set<int> = Set::empty();
                    let lo = o0.out.tape@.len() as int;
                    let mid = s1.out.tape@.len() as int;
                    let hi = self.out.tape@.len() as int;
                    assert(e.remove(lhs as int).remove(rhs as int) =~= e);
                    assert(s4.unbound_in(e.insert(r_a as int)));
                    assert(e.insert(r_a as int).remove(r_a as int) =~= e);
                    let mid2 = s4.out.tape@.len() as int;
                    let rop = self.out.tape@[mid2];
                    assert(op.ensures((r_x, r_x, r_a), rop));
                    s4.lemma_reg_unique(out as int);
                    assert forall|g: spec_fn(f32, f32) -> f32| #[trigger] shape_bin(op, g) implies
                        simf(self.allocations@, o0.allocations@, self.out.tape@, lo, hi, fe_bin(out as int, lhs as int, rhs as int, g), id_outs()) by {
                        lemma_step_bin(self.allocations@, s4.allocations@, self.out.tape@, mid2, r_x, r_x, r_a, out as int, lhs as int, rhs as int, g);
                        lemma_sim_ext(s4.allocations@, s1.allocations@, s4.out.tape@, self.out.tape@, mid, mid2, id_env(), id_outs());
                        lemma_sim_ext(s1.allocations@, o0.allocations@, s1.out.tape@, self.out.tape@, lo, mid, id_env(), id_outs());
                        lemma_sim_then(s4.allocations@, s1.allocations@, o0.allocations@, self.out.tape@, lo, mid, mid2, id_env(), id_outs());
                        lemma_sim_then(self.allocations@, s4.allocations@, o0.allocations@, self.out.tape@, lo, mid2, hi, fe_bin(out as int, lhs as int, rhs as int, g), id_outs());
                    }
                }""",
 "op_reg_reg_k|(Allocation::Unassigned, Allocation::Memory(m_z)) => {": """
                let ghost s3 = *self;
                proof { s3.lemma_oldest_bound(Set::empty()); s3.register_lru.lemma_order_props(); }""",
 "op_reg_reg_k|let r_a = self.get_register();#5": """
                let ghost s4 = *self;
                proof {
                    assert(r_a != r_x);
                    assert(s4.allocations@[lhs as int] == UNASSIGNED);
                    assert(s4.allocations@[rhs as int] == m_z);
                    assert(s4.allocations@[out as int] == r_x as u32);
                    s4.lemma_mem_unique(rhs as int);
                    s4.lemma_not_stale(rhs as int, Set::empty());
                }""",
 "op_reg_reg_k|self.push_store(r_a, m_z);#1": """
                let ghost s5 = *self;""",
 "op_reg_reg_k|self.out.push(op(r_x, r_x, r_a));#1": """
                let ghost s6 = *self;
                proof { Self::lemma_push_op(s5, s6, s6.out.tape@.last()); }""",
 "op_reg_reg_k|self.rebind_register(lhs, r_x);#3": """
                let ghost s7 = *self;""",
 "op_reg_reg_k|self.bind_register(rhs, r_a);#2": """
                proof {
                    let o0 = *old(self);
                    let e: Set<int> = Set::empty();
                    let lo = o0.out.tape@.len() as int;
                    let mid = s1.out.tape@.len() as int;
                    let hi = self.out.tape@.len() as int;
                    assert(s5.stale_only(e.insert(rhs as int)));
                    assert(e.insert(rhs as int).remove(lhs as int).remove(rhs as int) =~= e);
                    assert(s4.unbound_in(e.insert(r_a as int)));
                    assert(e.insert(r_a as int).remove(r_a as int) =~= e);
                    let mid2 = s4.out.tape@.len() as int;
                    assert(hi == mid2 + 2);
                    assert(self.out.tape@[mid2] == RegOp::Store(r_a, m_z));
                    let rop = self.out.tape@[mid2 + 1];
                    assert(op.ensures((r_x, r_x, r_a), rop));
                    let a_mid = s4.allocations@.update(rhs as int, r_a as u32);
                    s4.lemma_reg_unique(out as int);
                    s4.lemma_unbound_unused(r_a);
                    assert forall|g: spec_fn(f32, f32) -> f32| #[trigger] shape_bin(op, g) implies
                        simf(self.allocations@, o0.allocations@, self.out.tape@, lo, hi, fe_bin(out as int, lhs as int, rhs as int, g), id_outs()) by {
                        lemma_step_bin(self.allocations@, a_mid, self.out.tape@, mid2 + 1, r_x, r_x, r_a, out as int, lhs as int, rhs as int, g);
                        lemma_step_store(s4.allocations@, self.out.tape@, mid2, r_a, m_z, rhs as int, N as int);
                        lemma_sim_ext(s4.allocations@, s1.allocations@, s4.out.tape@, self.out.tape@, mid, mid2, id_env(), id_outs());
                        lemma_sim_ext(s1.allocations@, o0.allocations@, s1.out.tape@, self.out.tape@, lo, mid, id_env(), id_outs());
                        lemma_sim_then(s4.allocations@, s1.allocations@, o0.allocations@, self.out.tape@, lo, mid, mid2, id_env(), id_outs());
                        lemma_sim_then(a_mid, s4.allocations@, o0.allocations@, self.out.tape@, lo, mid2, mid2 + 1, id_env(), id_outs());
                        lemma_sim_then(self.allocations@, a_mid, o0.allocations@, self.out.tape@, lo, mid2 + 1, hi, fe_bin(out as int, lhs as int, rhs as int, g), id_outs());
                    }
                }""",
 "op_reg_reg_k|(Allocation::Memory(m_y), Allocation::Unassigned) => {": """
                let ghost s3 = *self;
                proof { s3.lemma_oldest_bound(Set::empty()); s3.register_lru.lemma_order_props(); }""",
 "op_reg_reg_k|let r_a = self.get_register();#6": """
                let ghost s4 = *self;
                proof {
                    assert(r_a != r_x);
                    assert(s4.allocations@[rhs as int] == UNASSIGNED);
                    assert(s4.allocations@[lhs as int] == m_y);
                    assert(s4.allocations@[out as int] == r_x as u32);
                    s4.lemma_mem_unique(lhs as int);
                    s4.lemma_not_stale(lhs as int, Set::empty());
                }""",
 "op_reg_reg_k|self.push_store(r_a, m_y);#3": """
                let ghost s5 = *self;""",
 "op_reg_reg_k|self.out.push(op(r_x, r_a, r_x));": """
                let ghost s6 = *self;
                proof { Self::lemma_push_op(s5, s6, s6.out.tape@.last()); }""",
 "op_reg_reg_k|self.bind_register(lhs, r_a);#3": """
                let ghost s7 = *self;""",
 "op_reg_reg_k|self.rebind_register(rhs, r_x);#1": """
                proof {
                    let o0 = *old(self);
                    let e: Set<int> = Set::empty();
                    let lo = o0.out.tape@.len() as int;
                    let mid = s1.out.tape@.len() as int;
                    let hi = self.out.tape@.len() as int;
                    assert(s5.stale_only(e.insert(lhs as int)));
                    assert(e.insert(lhs as int).remove(lhs as int).remove(rhs as int) =~= e);
                    assert(s4.unbound_in(e.insert(r_a as int)));
                    assert(e.insert(r_a as int).remove(r_a as int) =~= e);
                    let mid2 = s4.out.tape@.len() as int;
                    assert(hi == mid2 + 2);
                    assert(self.out.tape@[mid2] == RegOp::Store(r_a, m_y));
                    let rop = self.out.tape@[mid2 + 1];
                    assert(op.ensures((r_x, r_a, r_x), rop));
                    let a_mid = s4.allocations@.update(lhs as int, r_a as u32);
                    s4.lemma_reg_unique(out as int);
                    s4.lemma_unbound_unused(r_a);
                    assert forall|g: spec_fn(f32, f32) -> f32| #[trigger] shape_bin(op, g) implies
                        simf(self.allocations@, o0.allocations@, self.out.tape@, lo, hi, fe_bin(out as int, lhs as int, rhs as int, g), id_outs()) by {
                        lemma_step_bin(self.allocations@, a_mid, self.out.tape@, mid2 + 1, r_x, r_a, r_x, out as int, lhs as int, rhs as int, g);
                        lemma_step_store(s4.allocations@, self.out.tape@, mid2, r_a, m_y, lhs as int, N as int);
                        lemma_sim_ext(s4.allocations@, s1.allocations@, s4.out.tape@, self.out.tape@, mid, mid2, id_env(), id_outs());
                        lemma_sim_ext(s1.allocations@, o0.allocations@, s1.out.tape@, self.out.tape@, lo, mid, id_env(), id_outs());
                        lemma_sim_then(s4.allocations@, s1.allocations@, o0.allocations@, self.out.tape@, lo, mid, mid2, id_env(), id_outs());
                        lemma_sim_then(a_mid, s4.allocations@, o0.allocations@, self.out.tape@, lo, mid2, mid2 + 1, id_env(), id_outs());
                        lemma_sim_then(self.allocations@, a_mid, o0.allocations@, self.out.tape@, lo, mid2 + 1, hi, fe_bin(out as int, lhs as int, rhs as int, g), id_outs());
                    }
                }""",

 "op_reg_reg_k|let r_x = self.get_out_reg(out);": """
        let ghost s1 = *self;
        proof { s1.lemma_reg_unique(out as int); s1.register_lru.lemma_order_props(); }""",
 "op_reg_reg_k|(Allocation::Register(r_y), Allocation::Register(r_z)) => {": """
                let ghost s3 = *self;""",
 "op_reg_reg_k|self.out.push(op(r_x, r_y, r_z));": """
                let ghost s4 = *self;
                proof { Self::lemma_push_op(s3, s4, s4.out.tape@.last()); }""",
 "op_reg_reg_k|self.release_reg(r_x);#0": """
                proof {
                    let o0 = *old(self);
                    let e: Set<int> = Set::empty();
                    let lo = o0.out.tape@.len() as int;
                    let mid = s1.out.tape@.len() as int;
                    let hi = self.out.tape@.len() as int;
                    let rop = self.out.tape@[mid];
                    assert(op.ensures((r_x, r_y, r_z), rop));
                    assert forall|g: spec_fn(f32, f32) -> f32| #[trigger] shape_bin(op, g) implies
                        simf(self.allocations@, o0.allocations@, self.out.tape@, lo, hi, fe_bin(out as int, lhs as int, rhs as int, g), id_outs()) by {
                        lemma_step_bin(self.allocations@, s1.allocations@, self.out.tape@, mid, r_x, r_y, r_z, out as int, lhs as int, rhs as int, g);
                        lemma_sim_ext(s1.allocations@, o0.allocations@, s1.out.tape@, self.out.tape@, lo, mid, id_env(), id_outs());
                        lemma_sim_then(self.allocations@, s1.allocations@, o0.allocations@, self.out.tape@, lo, mid, hi, fe_bin(out as int, lhs as int, rhs as int, g), id_outs());
                    }
                }""",
 "op_reg_reg_k|(Allocation::Memory(m_y), Allocation::Register(r_z)) => {": """
                let ghost s3 = *self;
                proof {
                    s3.lemma_oldest_bound(Set::empty());
                    s3.register_lru.lemma_order_props();
                    s3.lemma_bound_reg(rhs as int);
                    lemma_perm_contains::<N>(s1.register_lru, s1.register_lru.order(), r_z);
                    lemma_poke_head(s1.register_lru.order(), r_z);
                    lemma_poke_second(s1.register_lru.order(), r_z);
                }""",
 "op_reg_reg_k|let r_a = self.get_register();#0": """
                let ghost s4 = *self;
                proof {
                    assert(r_a != r_x);
                    assert(r_a != r_z);
                    assert(s4.allocations@[lhs as int] == m_y);
                    assert(s4.allocations@[out as int] == r_x as u32);
                    s4.lemma_mem_unique(lhs as int);
                    s4.lemma_not_stale(lhs as int, Set::empty());
                }""",
 "op_reg_reg_k|self.push_store(r_a, m_y);#0": """
                let ghost s5 = *self;""",
 "op_reg_reg_k|self.out.push(op(r_x, r_a, r_z));": """
                let ghost s6 = *self;
                proof { Self::lemma_push_op(s5, s6, s6.out.tape@.last()); }""",
 "op_reg_reg_k|self.release_reg(r_x);#1": """
                let ghost s7 = *self;
                proof {
                    assert(!s7.spare_registers@.contains(r_a)) by {
                        if s7.spare_registers@.contains(r_a) {
                            let k = choose|k: int| 0 <= k < s7.spare_registers@.len() && s7.spare_registers@[k] == r_a;
                            if k < s6.spare_registers@.len() { assert(s6.spare_registers@[k] == r_a); assert(s6.spare_registers@.contains(r_a)); }
                        }
                    }
                }""",
 "op_reg_reg_k|self.bind_register(lhs, r_a);#0": """
                proof {
                    let o0 = *old(self);
                    let e: Set<int> = Set::empty();
                    let lo = o0.out.tape@.len() as int;
                    let mid = s1.out.tape@.len() as int;
                    let hi = self.out.tape@.len() as int;
                    assert(s5.stale_only(e.insert(lhs as int)));
                    assert(e.insert(lhs as int).remove(lhs as int) =~= e);
                    assert(s4.unbound_in(e.insert(r_a as int)));
                    assert(e.insert(r_a as int).remove(r_a as int) =~= e);
                    let mid2 = s4.out.tape@.len() as int;
                    assert(hi == mid2 + 2);
                    assert(self.out.tape@[mid2] == RegOp::Store(r_a, m_y));
                    let rop = self.out.tape@[mid2 + 1];
                    assert(op.ensures((r_x, r_a, r_z), rop));
                    let a_mid = s4.allocations@.update(lhs as int, r_a as u32);
                    assert(self.allocations@ =~= a_mid.update(out as int, UNASSIGNED));
                    s4.lemma_reg_unique(out as int);
                    s4.lemma_unbound_unused(r_a);
                    assert forall|g: spec_fn(f32, f32) -> f32| #[trigger] shape_bin(op, g) implies
                        simf(self.allocations@, o0.allocations@, self.out.tape@, lo, hi, fe_bin(out as int, lhs as int, rhs as int, g), id_outs()) by {
                        lemma_step_bin(self.allocations@, a_mid, self.out.tape@, mid2 + 1, r_x, r_a, r_z, out as int, lhs as int, rhs as int, g);
                        lemma_step_store(s4.allocations@, self.out.tape@, mid2, r_a, m_y, lhs as int, N as int);
                        lemma_sim_ext(s4.allocations@, s1.allocations@, s4.out.tape@, self.out.tape@, mid, mid2, id_env(), id_outs());
                        lemma_sim_ext(s1.allocations@, o0.allocations@, s1.out.tape@, self.out.tape@, lo, mid, id_env(), id_outs());
                        lemma_sim_then(s4.allocations@, s1.allocations@, o0.allocations@, self.out.tape@, lo, mid, mid2, id_env(), id_outs());
                        lemma_sim_then(a_mid, s4.allocations@, o0.allocations@, self.out.tape@, lo, mid2, mid2 + 1, id_env(), id_outs());
                        lemma_sim_then(self.allocations@, a_mid, o0.allocations@, self.out.tape@, lo, mid2 + 1, hi, fe_bin(out as int, lhs as int, rhs as int, g), id_outs());
                    }
                }""",
 "op_reg_reg_k|(Allocation::Register(r_y), Allocation::Memory(m_z)) => {": """
                let ghost s3 = *self;
                proof {
                    s3.lemma_oldest_bound(Set::empty());
                    s3.register_lru.lemma_order_props();
                    s3.lemma_bound_reg(lhs as int);
                    lemma_perm_contains::<N>(s1.register_lru, s1.register_lru.order(), r_y);
                    lemma_poke_head(s1.register_lru.order(), r_y);
                    lemma_poke_second(s1.register_lru.order(), r_y);
                }""",
 "op_reg_reg_k|let r_a = self.get_register();#1": """
                let ghost s4 = *self;
                proof {
                    assert(r_a != r_x);
                    assert(r_a != r_y);
                    assert(s4.allocations@[rhs as int] == m_z);
                    assert(s4.allocations@[out as int] == r_x as u32);
                    s4.lemma_mem_unique(rhs as int);
                    s4.lemma_not_stale(rhs as int, Set::empty());
                }""",
 "op_reg_reg_k|self.push_store(r_a, m_z);#0": """
                let ghost s5 = *self;""",
 "op_reg_reg_k|self.out.push(op(r_x, r_y, r_a));": """
                let ghost s6 = *self;
                proof { Self::lemma_push_op(s5, s6, s6.out.tape@.last()); }""",
 "op_reg_reg_k|self.release_reg(r_x);#2": """
                let ghost s7 = *self;
                proof {
                    assert(!s7.spare_registers@.contains(r_a)) by {
                        if s7.spare_registers@.contains(r_a) {
                            let k = choose|k: int| 0 <= k < s7.spare_registers@.len() && s7.spare_registers@[k] == r_a;
                            if k < s6.spare_registers@.len() { assert(s6.spare_registers@[k] == r_a); assert(s6.spare_registers@.contains(r_a)); }
                        }
                    }
                }""",
 "op_reg_reg_k|self.bind_register(rhs, r_a);#0": """
                proof {
                    let o0 = *old(self);
                    let e: Set<int> = Set::empty();
                    let lo = o0.out.tape@.len() as int;
                    let mid = s1.out.tape@.len() as int;
                    let hi = self.out.tape@.len() as int;
                    assert(s5.stale_only(e.insert(rhs as int)));
                    assert(e.insert(rhs as int).remove(rhs as int) =~= e);
                    assert(s4.unbound_in(e.insert(r_a as int)));
                    assert(e.insert(r_a as int).remove(r_a as int) =~= e);
                    let mid2 = s4.out.tape@.len() as int;
                    assert(hi == mid2 + 2);
                    assert(self.out.tape@[mid2] == RegOp::Store(r_a, m_z));
                    let rop = self.out.tape@[mid2 + 1];
                    assert(op.ensures((r_x, r_y, r_a), rop));
                    let a_mid = s4.allocations@.update(rhs as int, r_a as u32);
                    assert(self.allocations@ =~= a_mid.update(out as int, UNASSIGNED));
                    s4.lemma_reg_unique(out as int);
                    s4.lemma_unbound_unused(r_a);
                    assert forall|g: spec_fn(f32, f32) -> f32| #[trigger] shape_bin(op, g) implies
                        simf(self.allocations@, o0.allocations@, self.out.tape@, lo, hi, fe_bin(out as int, lhs as int, rhs as int, g), id_outs()) by {
                        lemma_step_bin(self.allocations@, a_mid, self.out.tape@, mid2 + 1, r_x, r_y, r_a, out as int, lhs as int, rhs as int, g);
                        lemma_step_store(s4.allocations@, self.out.tape@, mid2, r_a, m_z, rhs as int, N as int);
                        lemma_sim_ext(s4.allocations@, s1.allocations@, s4.out.tape@, self.out.tape@, mid, mid2, id_env(), id_outs());
                        lemma_sim_ext(s1.allocations@, o0.allocations@, s1.out.tape@, self.out.tape@, lo, mid, id_env(), id_outs());
                        lemma_sim_then(s4.allocations@, s1.allocations@, o0.allocations@, self.out.tape@, lo, mid, mid2, id_env(), id_outs());
                        lemma_sim_then(a_mid, s4.allocations@, o0.allocations@, self.out.tape@, lo, mid2, mid2 + 1, id_env(), id_outs());
                        lemma_sim_then(self.allocations@, a_mid, o0.allocations@, self.out.tape@, lo, mid2 + 1, hi, fe_bin(out as int, lhs as int, rhs as int, g), id_outs());
                    }
                }""",
 "op_reg_reg_k|(Allocation::Memory(m_y), Allocation::Memory(..)) if lhs == rhs => {": """
                let ghost s3 = *self;
                proof {
                    s3.lemma_oldest_bound(Set::empty());
                    s3.register_lru.lemma_order_props();
                }""",
 "op_reg_reg_k|let r_a = self.get_register();#2": """
                let ghost s4 = *self;
                proof {
                    assert(r_a != r_x);
                    assert(s4.allocations@[lhs as int] == m_y);
                    assert(s4.allocations@[out as int] == r_x as u32);
                    s4.lemma_mem_unique(lhs as int);
                    s4.lemma_not_stale(lhs as int, Set::empty());
                }""",
 "op_reg_reg_k|self.push_store(r_a, m_y);#1": """
                let ghost s5 = *self;""",
 "op_reg_reg_k|self.out.push(op(r_x, r_a, r_a));": """
                let ghost s6 = *self;
                proof { Self::lemma_push_op(s5, s6, s6.out.tape@.last()); }""",
 "op_reg_reg_k|self.release_reg(r_x);#3": """
                let ghost s7 = *self;
                proof {
                    assert(!s7.spare_registers@.contains(r_a)) by {
                        if s7.spare_registers@.contains(r_a) {
                            let k = choose|k: int| 0 <= k < s7.spare_registers@.len() && s7.spare_registers@[k] == r_a;
                            if k < s6.spare_registers@.len() { assert(s6.spare_registers@[k] == r_a); assert(s6.spare_registers@.contains(r_a)); }
                        }
                    }
                }""",
 "op_reg_reg_k|self.bind_register(lhs, r_a);#1": """
                proof {
                    let o0 = *old(self);
                    let e: Set<int> = Set::empty();
                    let lo = o0.out.tape@.len() as int;
                    let mid = s1.out.tape@.len() as int;
                    let hi = self.out.tape@.len() as int;
                    assert(s5.stale_only(e.insert(lhs as int)));
                    assert(e.insert(lhs as int).remove(lhs as int) =~= e);
                    assert(s4.unbound_in(e.insert(r_a as int)));
                    assert(e.insert(r_a as int).remove(r_a as int) =~= e);
                    let mid2 = s4.out.tape@.len() as int;
                    assert(hi == mid2 + 2);
                    assert(self.out.tape@[mid2] == RegOp::Store(r_a, m_y));
                    let rop = self.out.tape@[mid2 + 1];
                    assert(op.ensures((r_x, r_a, r_a), rop));
                    let a_mid = s4.allocations@.update(lhs as int, r_a as u32);
                    assert(self.allocations@ =~= a_mid.update(out as int, UNASSIGNED));
                    s4.lemma_reg_unique(out as int);
                    s4.lemma_unbound_unused(r_a);
                    assert forall|g: spec_fn(f32, f32) -> f32| #[trigger] shape_bin(op, g) implies
                        simf(self.allocations@, o0.allocations@, self.out.tape@, lo, hi, fe_bin(out as int, lhs as int, rhs as int, g), id_outs()) by {
                        lemma_step_bin(self.allocations@, a_mid, self.out.tape@, mid2 + 1, r_x, r_a, r_a, out as int, lhs as int, rhs as int, g);
                        lemma_step_store(s4.allocations@, self.out.tape@, mid2, r_a, m_y, lhs as int, N as int);
                        lemma_sim_ext(s4.allocations@, s1.allocations@, s4.out.tape@, self.out.tape@, mid, mid2, id_env(), id_outs());
                        lemma_sim_ext(s1.allocations@, o0.allocations@, s1.out.tape@, self.out.tape@, lo, mid, id_env(), id_outs());
                        lemma_sim_then(s4.allocations@, s1.allocations@, o0.allocations@, self.out.tape@, lo, mid, mid2, id_env(), id_outs());
                        lemma_sim_then(a_mid, s4.allocations@, o0.allocations@, self.out.tape@, lo, mid2, mid2 + 1, id_env(), id_outs());
                        lemma_sim_then(self.allocations@, a_mid, o0.allocations@, self.out.tape@, lo, mid2 + 1, hi, fe_bin(out as int, lhs as int, rhs as int, g), id_outs());
                    }
                }""",

 'op_reg_fn|let r_x = self.get_out_reg(out);': """
        let ghost s1 = *self;
        proof { s1.lemma_reg_unique(out as int); s1.register_lru.lemma_order_props(); }""",
 # ---- Register arm
 'op_reg_fn|assert!(r_x != r_y);': """
                let ghost s2 = *self;""",
 'op_reg_fn|self.out.push(op(r_x, r_y));': """
                let ghost s3 = *self;
                proof { Self::lemma_push_op(s2, s3, s3.out.tape@.last()); }""",
 'op_reg_fn|self.release_reg(r_x);#0': """
                proof {
                    let o0 = *old(self);
                    let lo = o0.out.tape@.len() as int;
                    let mid = s1.out.tape@.len() as int;
                    let hi = self.out.tape@.len() as int;
                    let rop = self.out.tape@[mid];
                    assert(op.ensures((r_x, r_y), rop));
                    assert forall|f: spec_fn(f32) -> f32| #[trigger] shape_un(op, f) implies
                        simf(self.allocations@, o0.allocations@, self.out.tape@, lo, hi, fe_un(out as int, arg as int, f), id_outs()) by {
                        lemma_step_un_reg(s1.allocations@, self.out.tape@, mid, r_x, r_y, out as int, arg as int, f);
                        lemma_sim_ext(s1.allocations@, o0.allocations@, s1.out.tape@, self.out.tape@, lo, mid, id_env(), id_outs());
                        lemma_sim_then(self.allocations@, s1.allocations@, o0.allocations@, self.out.tape@, lo, mid, hi, fe_un(out as int, arg as int, f), id_outs());
                    }
                }""",
 # ---- Memory arm
 'op_reg_fn|Allocation::Memory(m_y) => {': """
                let ghost s2 = *self;
                proof { s2.lemma_oldest_bound(Set::empty()); }""",
 'op_reg_fn|let r_a = self.get_register();': """
                let ghost s3 = *self;
                proof {
                    assert(r_a != r_x);
                    assert(s3.allocations@[arg as int] == m_y);
                    assert(s3.allocations@[out as int] == r_x as u32);
                    s3.lemma_mem_unique(arg as int);
                    s3.lemma_not_stale(arg as int, Set::empty());
                }""",
 'op_reg_fn|self.push_store(r_a, m_y);': """
                let ghost s4 = *self;""",
 'op_reg_fn|self.out.push(op(r_x, r_a));': """
                let ghost s5 = *self;
                proof { Self::lemma_push_op(s4, s5, s5.out.tape@.last()); }""",
 'op_reg_fn|self.release_reg(r_x);#1': """
                let ghost s6 = *self;
                proof {
                    assert(!s6.spare_registers@.contains(r_a)) by {
                        if s6.spare_registers@.contains(r_a) {
                            let k = choose|k: int| 0 <= k < s6.spare_registers@.len() && s6.spare_registers@[k] == r_a;
                            if k < s5.spare_registers@.len() { assert(s5.spare_registers@[k] == r_a); assert(s5.spare_registers@.contains(r_a)); }
                        }
                    }
                }""",
 'op_reg_fn|self.bind_register(arg, r_a);': """
                proof {
                    let o0 = *old(self);
                    let e: Set<int> = Set::empty();
                    assert(s4.stale_only(e.insert(arg as int)));
                    assert(e.insert(arg as int).remove(arg as int) =~= e);
                    assert(s3.unbound_in(e.insert(r_a as int)));
                    assert(e.insert(r_a as int).remove(r_a as int) =~= e);
                    let lo = o0.out.tape@.len() as int;
                    let mid = s1.out.tape@.len() as int;
                    let mid2 = s3.out.tape@.len() as int;
                    let hi = self.out.tape@.len() as int;
                    assert(hi == mid2 + 2);
                    assert(self.out.tape@[mid2] == RegOp::Store(r_a, m_y));
                    let rop = self.out.tape@[mid2 + 1];
                    assert(op.ensures((r_x, r_a), rop));
                    let a_mid = s3.allocations@.update(arg as int, r_a as u32);
                    assert(self.allocations@ =~= a_mid.update(out as int, UNASSIGNED));
                    s3.lemma_reg_unique(out as int);
                    s3.lemma_unbound_unused(r_a);
                    assert forall|f: spec_fn(f32) -> f32| #[trigger] shape_un(op, f) implies
                        simf(self.allocations@, o0.allocations@, self.out.tape@, lo, hi, fe_un(out as int, arg as int, f), id_outs()) by {
                        lemma_step_un_reg(a_mid, self.out.tape@, mid2 + 1, r_x, r_a, out as int, arg as int, f);
                        lemma_step_store(s3.allocations@, self.out.tape@, mid2, r_a, m_y, arg as int, N as int);
                        lemma_sim_ext(s3.allocations@, s1.allocations@, s3.out.tape@, self.out.tape@, mid, mid2, id_env(), id_outs());
                        lemma_sim_ext(s1.allocations@, o0.allocations@, s1.out.tape@, self.out.tape@, lo, mid, id_env(), id_outs());
                        lemma_sim_then(s3.allocations@, s1.allocations@, o0.allocations@, self.out.tape@, lo, mid, mid2, id_env(), id_outs());
                        lemma_sim_then(a_mid, s3.allocations@, o0.allocations@, self.out.tape@, lo, mid2, mid2 + 1, id_env(), id_outs());
                        lemma_sim_then(self.allocations@, a_mid, o0.allocations@, self.out.tape@, lo, mid2 + 1, hi, fe_un(out as int, arg as int, f), id_outs());
                    }
                }""",
 # ---- Unassigned arm
 'op_reg_fn|Allocation::Unassigned => {': """
                let ghost s2 = *self;""",
 'op_reg_fn|self.out.push(op(r_x, r_x));': """
                let ghost s3 = *self;
                proof { Self::lemma_push_op(s2, s3, s3.out.tape@.last()); }""",
 'op_reg_fn|self.rebind_register(arg, r_x);': """
                proof {
                    let o0 = *old(self);
                    let e: Set<int> = Set::empty();
                    assert(e.remove(arg as int) =~= e);
                    let lo = o0.out.tape@.len() as int;
                    let mid = s1.out.tape@.len() as int;
                    let hi = self.out.tape@.len() as int;
                    let rop = self.out.tape@[mid];
                    assert(op.ensures((r_x, r_x), rop));
                    assert forall|f: spec_fn(f32) -> f32| #[trigger] shape_un(op, f) implies
                        simf(self.allocations@, o0.allocations@, self.out.tape@, lo, hi, fe_un(out as int, arg as int, f), id_outs()) by {
                        lemma_step_un_self(s1.allocations@, self.out.tape@, mid, r_x, out as int, arg as int, f);
                        lemma_sim_ext(s1.allocations@, o0.allocations@, s1.out.tape@, self.out.tape@, lo, mid, id_env(), id_outs());
                        lemma_sim_then(self.allocations@, s1.allocations@, o0.allocations@, self.out.tape@, lo, mid, hi, fe_un(out as int, arg as int, f), id_outs());
                    }
                }""",

 'get_out_reg|Allocation::Memory(m_x) => {': """
                let ghost s1 = *self;
                proof { s1.lemma_oldest_bound(Set::empty()); }""",
 'get_out_reg|let r_a = self.get_register();': """
                let ghost s2 = *self;
                proof {
                    s2.lemma_mem_unique(out as int);
                    s2.lemma_not_stale(out as int, Set::empty());
                }""",
 'get_out_reg|self.push_store(r_a, m_x);': """
                let ghost s3 = *self;""",
 'get_out_reg|self.bind_register(out, r_a);': """
                proof {
                    let o0 = *old(self);
                    let e: Set<int> = Set::empty();
                    // stale / unbound bookkeeping
                    assert(s3.stale_only(e.insert(out as int)));
                    assert(e.insert(out as int).remove(out as int) =~= e);
                    assert(s2.unbound_in(e.insert(r_a as int)));
                    assert(e.insert(r_a as int).remove(r_a as int) =~= e);
                    // simulation
                    let lo = o0.out.tape@.len() as int;
                    let mid = s2.out.tape@.len() as int;
                    let hi = self.out.tape@.len() as int;
                    assert(self.out.tape@[mid] == RegOp::Store(r_a, m_x));
                    lemma_step_store(s2.allocations@, self.out.tape@, mid, r_a, m_x, out as int, N as int);
                    lemma_sim_ext(s2.allocations@, o0.allocations@, s2.out.tape@, self.out.tape@, lo, mid, id_env(), id_outs());
                    lemma_sim_then(self.allocations@, s2.allocations@, o0.allocations@, self.out.tape@, lo, mid, hi, id_env(), id_outs());
                    old(self).register_lru.lemma_order_props();
                    lemma_poke_head(s1.register_lru.order(), r_a);
                }""",
 'get_out_reg|$TAILMATCH': """        proof {
            if (old(self).allocations@[out as int] as int) < N {
                lemma_sim_refl(self.allocations@, self.out.tape@, self.out.tape@.len() as int);
                old(self).register_lru.lemma_order_props();
                lemma_poke_head(old(self).register_lru.order(), ret_);
                self.lemma_reg_unique(out as int);
            }
        }""",

 # ---- small helpers: reveal everything at the top
 'get_memory|$START': REVEAL_ALL,
 'get_allocation|$START': REVEAL_ALL,
 'get_spare_register|$START': REVEAL_ALL,
 'get_register|$START': REVEAL_ALL,
 'bind_register|$START': REVEAL_ALL,
 'rebind_register|$START': REVEAL_ALL,
 'release_reg|$START': REVEAL_ALL,
 'release_mem|$START': REVEAL_ALL,
 'push_store|$START': REVEAL_ALL,
 'get_memory|let out = self.out.slot_count;': """            proof {
                assume(self.out.slot_count < u32::MAX);   // A-ovf
                let top = (N - 1) as u8;
                assert(!self.spare_registers@.contains(top));
            }""",
 'get_spare_register|self.out.slot_count = self.out.slot_count.max(r as u32 + 1);': """        proof {
            let old_self = *old(self);
            assert forall|k: int| 0 <= k < self.out.tape@.len() implies op_ok(#[trigger] self.out.tape@[k], N as int, self.out.slot_count as int) by {
                lemma_op_ok_mono(self.out.tape@[k], N as int, old_self.out.slot_count as int, self.out.slot_count as int);
            }
            assert forall|x: u8| (x as int) < N && !(#[trigger] self.spare_registers@.contains(x)) implies (x as int) < self.out.slot_count by {
                if x != r && old_self.spare_registers@.contains(x) { lemma_drop_last_contains(old_self.spare_registers@, x); }
            }
            assert(!self.spare_registers@.contains(r)) by {
                if self.spare_registers@.contains(r) {
                    let k = choose|k: int| 0 <= k < self.spare_registers@.len() && self.spare_registers@[k] == r;
                    assert(old_self.spare_registers@[k] == r);
                }
            }
            assert forall|f: Set<int>| #[trigger] old_self.unbound_in(f) implies self.unbound_in(f.insert(r as int)) by {
                assert forall|x: u8| (x as int) < N && #[trigger] self.registers[x as int] == UNASSIGNED
                    implies self.spare_registers@.contains(x) || f.insert(r as int).contains(x as int) by {
                    if x != r && old_self.spare_registers@.contains(x) { lemma_drop_last_contains(old_self.spare_registers@, x); }
                }
            }
        }""",
 'get_register|let reg = self.oldest_reg();': """            proof {
                self.register_lru.lemma_order_props();
                old(self).register_lru.lemma_order_props();
                lemma_pop_is_poke(old(self).register_lru.order(), N as int);
            }""",
 'get_register|self.out.push(RegOp::Load(reg, mem));': """            proof {
                let o = *old(self);
                lemma_step_load(o.allocations@, self.out.tape@, o.out.tape@.len() as int, reg, mem, prev_node as int);
                assert forall|f: Set<int>| #[trigger] o.unbound_in(f) implies self.unbound_in(f.insert(reg as int)) by {
                    assert forall|r: u8| (r as int) < N && #[trigger] self.registers[r as int] == UNASSIGNED
                        implies self.spare_registers@.contains(r) || f.insert(reg as int).contains(r as int) by {
                        if r != reg { assert(o.registers[r as int] == UNASSIGNED); }
                    }
                }
            }""",
 'get_register|self.register_lru.poke(reg);': """            proof {
                lemma_sim_refl(self.allocations@, self.out.tape@, self.out.tape@.len() as int);
                let o = *old(self);
                assert forall|r: u8| #[trigger] self.spare_registers@.contains(r) implies o.spare_registers@.contains(r) by {
                    let k = choose|k: int| 0 <= k < self.spare_registers@.len() && self.spare_registers@[k] == r;
                    assert(o.spare_registers@[k] == r);
                }
            }""",
 'release_reg|self.allocations[node as usize] = UNASSIGNED;': """        proof {
            let o = *old(self);
            assert(!o.spare_registers@.contains(reg)) by {
                if o.spare_registers@.contains(reg) {
                    let k = choose|k: int| 0 <= k < o.spare_registers@.len() && o.spare_registers@[k] == reg;
                    assert(o.registers[o.spare_registers@[k] as int] == UNASSIGNED);
                }
            }
            assert forall|x: u8| (x as int) < N && !(#[trigger] self.spare_registers@.contains(x)) implies (x as int) < self.out.slot_count by {
                if o.spare_registers@.contains(x) {
                    let k = choose|k: int| 0 <= k < o.spare_registers@.len() && o.spare_registers@[k] == x;
                    assert(self.spare_registers@[k] == x);
                }
            }
            assert forall|f: Set<int>| #[trigger] o.unbound_in(f) implies self.unbound_in(f) by {
                assert forall|x: u8| (x as int) < N && #[trigger] self.registers[x as int] == UNASSIGNED
                    implies self.spare_registers@.contains(x) || f.contains(x as int) by {
                    if x == reg { assert(self.spare_registers@.last() == reg); }
                    else if o.spare_registers@.contains(x) {
                        let k = choose|k: int| 0 <= k < o.spare_registers@.len() && o.spare_registers@[k] == x;
                        assert(self.spare_registers@[k] == x);
                    }
                }
            }
        }""",
 'release_mem|self.spare_memory.push(mem);': """        proof {
            let o = *old(self);
            assert forall|k: int| 0 <= k < self.spare_memory@.len() implies N <= #[trigger] self.spare_memory@[k] < self.out.slot_count by {
                if k < o.spare_memory@.len() { assert(self.spare_memory@[k] == o.spare_memory@[k]); }
            }
            assert forall|j: int, k: int| 0 <= j < k < self.spare_memory@.len() implies self.spare_memory@[j] != self.spare_memory@[k] by {
                if k == o.spare_memory@.len() { assert(o.spare_memory@.contains(o.spare_memory@[j])); }
            }
            assert forall|t: Set<int>, s0: int| #[trigger] o.stale_only(t) && 0 <= s0 < o.allocations@.len() && #[trigger] o.allocations@[s0] == mem
                && (forall|u: int| 0 <= u < o.allocations@.len() && u != s0 ==> o.allocations@[u] != mem)
                implies self.stale_only(t.insert(s0)) by {
                assert forall|s: int, k: int| 0 <= s < self.allocations@.len() && 0 <= k < self.spare_memory@.len()
                    && #[trigger] self.allocations@[s] == #[trigger] self.spare_memory@[k] implies t.insert(s0).contains(s) by {
                    if k < o.spare_memory@.len() { assert(o.spare_memory@[k] == self.spare_memory@[k]); }
                }
            }
        }""",
}

LEMMAS += r'''
proof fn lemma_poke_head(o: Seq<u8>, i: u8)
    requires o.len() > 0
    ensures poke_order(o, i).len() == o.len(), poke_order(o, i)[0] == i
{}
'''
LEMMAS += r'''
proof fn lemma_poke_second(o: Seq<u8>, i: u8)
    requires o.len() >= 2, o[0] != i, o.contains(i)
    ensures poke_order(o, i)[1] == o[0]
{
    let idx = o.index_of(i);
    assert(o[idx] == i);
}
'''
PRELUDE = PRELUDE0 + LEMMAS


ARMS = {
 'A': '(Allocation::Register(r_y), Allocation::Register(r_z)) => {',
 'B': '(Allocation::Memory(m_y), Allocation::Register(r_z)) => {',
 'C': '(Allocation::Register(r_y), Allocation::Memory(m_z)) => {',
 'D': '(Allocation::Memory(m_y), Allocation::Memory(..)) if lhs == rhs => {',
 'E': '(Allocation::Memory(m_y), Allocation::Memory(m_z)) => {',
 'F': '(Allocation::Unassigned, Allocation::Register(r_z)) => {',
 'G': '(Allocation::Register(r_y), Allocation::Unassigned) => {',
 'H': '(Allocation::Unassigned, Allocation::Unassigned) if lhs == rhs => {',
 'I': '(Allocation::Unassigned, Allocation::Unassigned) => {',
 'J': '(Allocation::Unassigned, Allocation::Memory(m_z)) => {',
 'K': '(Allocation::Memory(m_y), Allocation::Unassigned) => {',
}

REPLACE = [
 ("            Allocation::Register(r_y) => self.out.push(RegOp::Output(r_y, i)),",
  "            Allocation::Register(r_y) => {\n                self.out.push(RegOp::Output(r_y, i));\n            }"),
]

LOOPS = {
 'RegTape::new|while k_ < ssa.tape.len()': """
            invariant
                3 <= N <= 255, ops == ssa.tape@, ops.len() < u32::MAX, ssa_wf(ops, ops.len() as int),
                0 <= k_ <= ops.len(),
                alloc.wf(), alloc.allocations@.len() == ops.len(), a0.len() == ops.len(),
                forall|s: int| 0 <= s < a0.len() ==> #[trigger] a0[s] == UNASSIGNED,
                forall|s: int| 0 <= s < ops.len() ==> ((#[trigger] alloc.allocations@[s] != UNASSIGNED) == live(ops, k_ as int).contains(s)),
                simf(alloc.allocations@, a0, alloc.out.tape@, 0, alloc.out.tape@.len() as int, run_fe(ops, k_ as int), run_fo(ops, k_ as int)),
            decreases ops.len() - k_,
""",
}
PROOFS.update({
 'RegTape::new|let op = ssa.tape[k_];': """
            let ghost pre = alloc;
            proof {
                assert(ops[k_ as int] == op);
            }""",
 'RegTape::new|alloc.op(op);': """
            proof {
                let mid = pre.out.tape@.len() as int;
                let hi = alloc.out.tape@.len() as int;
                lemma_sim_ext(pre.allocations@, a0, pre.out.tape@, alloc.out.tape@, 0, mid, run_fe(ops, k_ as int), run_fo(ops, k_ as int));
                lemma_sim_extend(alloc.allocations@, pre.allocations@, a0, alloc.out.tape@, mid, hi, ops, k_ as int);
                assert forall|s: int| 0 <= s < ops.len() implies ((#[trigger] alloc.allocations@[s] != UNASSIGNED) == live(ops, k_ as int + 1).contains(s)) by {
                    lemma_live_step(ops, k_ as int, s);
                }
            }""",
 'RegTape::new|$TAILCALL': """
        proof {
            let n = ops.len() as int;
            let tape = alloc.out.tape@;
            reveal(simf);
            assert forall|st: St, env: Env, inp: Seq<f32>|
                (#[trigger] reg_run_rev(tape, 0, tape.len() as int, st, inp)).outs
                    == (#[trigger] ssa_run_rev(ops, 0, n, Ss { env: env, outs: st.outs }, inp)).outs by {
                assert(agree(alloc.allocations@, st.slots, env)) by {
                    assert forall|s: int| 0 <= s < alloc.allocations@.len() && #[trigger] alloc.allocations@[s] != UNASSIGNED implies st.slots[alloc.allocations@[s] as int] == env[s] by {
                        assert(live(ops, n).contains(s));
                    }
                }
            }
        }""",
})


# ------------------------------------------------------------------------------------------------
# constructors / reset / storage functions (C10: `reset` yields exactly the view `new` yields)

PRELUDE += r'''
impl<const N: usize> RegisterAllocator<N> {
    /// the complete abstract view of a freshly constructed allocator for `size` SSA slots
    spec fn fresh(&self, size: int) -> bool {
        &&& 3 <= N <= 255
        &&& self.allocations@ == Seq::new(size as nat, |i: int| UNASSIGNED)
        &&& forall|r: int| 0 <= r < N ==> self.registers[r] == UNASSIGNED
        &&& self.register_lru.wf()
        &&& self.register_lru.order() == Seq::new(N as nat, |k: int| k as u8)
        &&& self.spare_registers@ == rev_seq(N as int)
        &&& self.spare_memory@.len() == 0
        &&& self.out.tape@.len() == 0
        &&& self.out.slot_count == 0
    }
    proof fn lemma_fresh_wf(&self, size: int)
        requires self.fresh(size), 0 <= size < u32::MAX
        ensures self.wf()
    {
        reveal(RegisterAllocator::link_ok); reveal(RegisterAllocator::spare_ok); reveal(RegisterAllocator::mem_ok);
        reveal(RegisterAllocator::slot_ok); reveal(RegisterAllocator::tape_ok); reveal(RegisterAllocator::stale_only);
        reveal(RegisterAllocator::unbound_in);
        let sp = self.spare_registers@;
        assert forall|r: u8| (r as int) < N implies #[trigger] sp.contains(r) by {
            assert(sp[N as int - 1 - r as int] == r);
        }
    }
}
'''

SPECS_EXTRA = {
 'empty': ('r: Self', """
        requires 3 <= N <= 255,
        ensures r.fresh(0), r.wf(),
"""),
 'reset': (None, """
        requires 3 <= N <= 255, size < u32::MAX,
            old(self).out.tape@.len() == 0,     // documented: "must be called after the allocator is finalized"
        ensures final(self).fresh(size as int), final(self).wf(),
"""),
 'RegTape::empty': ('r: Self', """
        ensures r.tape@.len() == 0, r.slot_count == 0,
"""),
 'RegTape::reset': (None, """
        ensures final(self).tape@.len() == 0, final(self).slot_count == 0,
"""),
 'RegTape::push': (None, """
        ensures final(self).tape@ == old(self).tape@.push(op), final(self).slot_count == old(self).slot_count,
"""),
 'RegTape::is_empty': ('r: bool', """
        ensures r == (self.tape@.len() == 0),
"""),
 'RegTape::len': ('r: usize', """
        ensures r == self.tape@.len(),
"""),
 'RegTape::slot_count': ('r: usize', """
        ensures r == self.slot_count,
"""),
 'SsaTape::is_empty': ('r: bool', """
        ensures r == (self.tape@.len() == 0),
"""),
 'SsaTape::reset': (None, """
        // (output_count is left as it was: the only caller, VmData::simplify, rebuilds the struct with fresh counts)
        ensures final(self).tape@.len() == 0, final(self).choice_count == 0, final(self).output_count == old(self).output_count,
"""),
}
SPECS['new'] = ('r: Self', """
        requires 3 <= N <= 255, size < u32::MAX
        ensures r.fresh(size as int), r.wf(), r.allocations@ == Seq::new(size as nat, |i: int| UNASSIGNED), r.out.tape@.len() == 0,
""")

PROOFS_EXTRA = {
 'new|$TAILSTRUCT': """
        proof { assert(r_.allocations@ =~= Seq::new(size as nat, |i: int| UNASSIGNED)); r_.lemma_fresh_wf(size as int); }""",
 'empty|$TAILSTRUCT': """
        proof { assert(r_.allocations@ =~= Seq::new(0nat, |i: int| UNASSIGNED)); r_.lemma_fresh_wf(0); }""",
 'reset|self.allocations.fill(UNASSIGNED);': """
        let ghost a1 = self.allocations@;
        proof { assert forall|i: int| 0 <= i < a1.len() implies a1[i] == UNASSIGNED by { assert(cloned(UNASSIGNED, a1[i])); } }""",
 'reset|self.allocations.resize(size, UNASSIGNED);': """
        proof {
            assert forall|i: int| 0 <= i < size implies self.allocations@[i] == UNASSIGNED by {
                if i < a1.len() { assert(self.allocations@[i] == a1[i]); }
            }
        }""",
 'reset|self.out.reset();': """
        proof {
            assert(self.allocations@ =~= Seq::new(size as nat, |i: int| UNASSIGNED));
            assert(self.spare_registers@ =~= rev_seq(N as int));
            self.lemma_fresh_wf(size as int);
        }""",
}
LOOPS_EXTRA = {}
