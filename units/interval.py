"""Unit `interval`: totality and exact enclosure of the interval arithmetic that CBMC cannot decide
(relational float arithmetic), on the real text of fidget-core/src/types/interval.rs, under the
stated float axioms (DESIGN.md 3.3): `Interval::{new, new_or_nan, lower, upper, has_nan}`,
`Add`, `Sub`, `Mul<f32>`, `Neg`.

f32 operations are uninterpreted functions constrained only by the axioms below (proof fns with
`admit()`, instance form); every axiom is listed in the evidence as an assumption.  No axiom mentions a
rounding error, so every proved enclosure is exact (0 ulp)."""
import re
from lib import rsx
from lib.rsx import ExtractError
from lib.verus_engine import Injector, Obligation
from lib.weave import weave, split_headers, GMARK, LostAnchor
import os
HERE = os.path.dirname(os.path.abspath(__file__))

SRC = 'fidget-core/src/types/interval.rs'
PROPS = ['C03', 'C11']

AXIOMS = r'''
// =================== trusted float base (axioms in instance form; each one is an assumption) ===================
pub uninterp spec fn fnan(a: f32) -> bool;
pub uninterp spec fn fneg_spec(a: f32) -> f32;
pub open spec fn fle(a: f32, b: f32) -> bool { a.partial_cmp_spec(&b) == Some(Ordering::Less) || a.partial_cmp_spec(&b) == Some(Ordering::Equal) }
pub open spec fn flt(a: f32, b: f32) -> bool { a.partial_cmp_spec(&b) == Some(Ordering::Less) }
pub assume_specification [f32::is_nan] (x: f32) -> (r: bool) ensures r == fnan(x);
/// R-neg: unary minus on f32 (Verus has no floating-point negation); IEEE negation as an uninterpreted function
#[verifier::external_body] fn fneg(a: f32) -> (r: f32) ensures r == fneg_spec(a) { -a }
/// R-nanconst: `f32::NAN.into()` (Verus does not support the constant; `From<f32>` is `Interval::new(f, f)`): the NaN interval
#[verifier::external_body] fn nan_interval() -> (r: Interval) ensures fnan(r.lower), fnan(r.upper) { Interval { lower: f32::NAN, upper: f32::NAN } }

/// AX-ops: f32 `+ - *` and comparisons are total and equal their spec functions; comparison is None iff an operand is
/// NaN; Greater/Less are converse; Equal is symmetric
proof fn ax_ops(a: f32, b: f32)
    ensures
        <f32 as AddSpec<f32>>::obeys_add_spec(), <f32 as AddSpec<f32>>::add_req(a, b),
        <f32 as SubSpec<f32>>::obeys_sub_spec(), <f32 as SubSpec<f32>>::sub_req(a, b),
        <f32 as MulSpec<f32>>::obeys_mul_spec(), <f32 as MulSpec<f32>>::mul_req(a, b),
        <f32 as PartialOrdSpec<f32>>::obeys_partial_cmp_spec(),
        a.partial_cmp_spec(&b) is None <==> (fnan(a) || fnan(b)),
        (a.partial_cmp_spec(&b) == Some(Ordering::Greater)) <==> (b.partial_cmp_spec(&a) == Some(Ordering::Less)),
        (a.partial_cmp_spec(&b) == Some(Ordering::Equal)) <==> (b.partial_cmp_spec(&a) == Some(Ordering::Equal)),
{ admit(); }
/// AX-order: <= is reflexive on numbers and transitive
proof fn ax_le_refl(a: f32) ensures !fnan(a) ==> fle(a, a) { admit(); }
proof fn ax_le_trans(a: f32, b: f32, c: f32) ensures fle(a, b) && fle(b, c) ==> fle(a, c) { admit(); }
proof fn ax_lt_le_trans(a: f32, b: f32, c: f32) ensures flt(a, b) && fle(b, c) ==> flt(a, c) { admit(); }
proof fn ax_le_lt_trans(a: f32, b: f32, c: f32) ensures fle(a, b) && flt(b, c) ==> flt(a, c) { admit(); }
/// AX-total: any two numbers are comparable
proof fn ax_total(a: f32, b: f32) ensures (!fnan(a) && !fnan(b)) ==> (fle(a, b) || flt(b, a)) { admit(); }
/// AX-nan: NaN propagates through + - * and negation; 0.0 is a number
proof fn ax_nan_prop(a: f32, b: f32)
    ensures (fnan(a) || fnan(b)) ==> fnan(a.add_spec(b)) && fnan(a.sub_spec(b)) && fnan(a.mul_spec(b)),
        fnan(fneg_spec(a)) == fnan(a), !fnan(0.0f32)
{ admit(); }
/// AX-mono: correctly rounded + and - are monotone in each argument (whenever the results are numbers)
proof fn ax_add_mono(a: f32, b: f32, c: f32, d: f32)
    ensures fle(a, c) && fle(b, d) && !fnan(a.add_spec(b)) && !fnan(c.add_spec(d)) ==> fle(a.add_spec(b), c.add_spec(d))
{ admit(); }
proof fn ax_sub_mono(a: f32, b: f32, c: f32, d: f32)
    ensures fle(a, c) && fle(d, b) && !fnan(a.sub_spec(b)) && !fnan(c.sub_spec(d)) ==> fle(a.sub_spec(b), c.sub_spec(d))
{ admit(); }
/// AX-mul-mono: multiplication by a non-negative number is monotone, by a negative number antitone
proof fn ax_mul_mono(a: f32, b: f32, k: f32)
    ensures
        fle(a, b) && fle(0.0f32, k) && !fnan(a.mul_spec(k)) && !fnan(b.mul_spec(k)) ==> fle(a.mul_spec(k), b.mul_spec(k)),
        fle(a, b) && flt(k, 0.0f32) && !fnan(a.mul_spec(k)) && !fnan(b.mul_spec(k)) ==> fle(b.mul_spec(k), a.mul_spec(k)),
{ admit(); }
/// AX-neg: negation reverses the order
proof fn ax_neg_mono(a: f32, b: f32) ensures fle(a, b) ==> fle(fneg_spec(b), fneg_spec(a)) { admit(); }

/// R-method: f32 library methods as uninterpreted functions (one tag per method)
pub uninterp spec fn fun1(tag: int, a: f32) -> f32;
pub open spec fn T_EXP() -> int { 1 }
pub open spec fn T_ATAN() -> int { 2 }
pub open spec fn T_FLOOR() -> int { 3 }
pub open spec fn T_CEIL() -> int { 4 }
pub open spec fn T_ROUND() -> int { 5 }
pub open spec fn T_SQRT() -> int { 6 }
pub open spec fn T_LN() -> int { 7 }
pub assume_specification [f32::exp] (x: f32) -> (r: f32) ensures r == fun1(T_EXP(), x);
pub assume_specification [f32::atan] (x: f32) -> (r: f32) ensures r == fun1(T_ATAN(), x);
pub assume_specification [f32::floor] (x: f32) -> (r: f32) ensures r == fun1(T_FLOOR(), x);
pub assume_specification [f32::ceil] (x: f32) -> (r: f32) ensures r == fun1(T_CEIL(), x);
pub assume_specification [f32::round] (x: f32) -> (r: f32) ensures r == fun1(T_ROUND(), x);
pub assume_specification [f32::sqrt] (x: f32) -> (r: f32) ensures r == fun1(T_SQRT(), x);
pub assume_specification [f32::ln] (x: f32) -> (r: f32) ensures r == fun1(T_LN(), x);
/// AX-fun-mono: exp, atan, floor, ceil, round, sqrt, ln (as computed by the platform libm / the hardware) are monotone
/// wherever both results are numbers; this is an assumption about libm for exp/atan/ln, an IEEE fact for the others
proof fn ax_fun_mono(tag: int, a: f32, b: f32)
    ensures (1 <= tag <= 7 && fle(a, b) && !fnan(fun1(tag, a)) && !fnan(fun1(tag, b))) ==> fle(fun1(tag, a), fun1(tag, b))
{ admit(); }
/// AX-fun-nan: NaN in, NaN out; exp/atan/floor/ceil/round of a number is a number; sqrt is NaN exactly below zero,
/// ln is a number for every positive argument
proof fn ax_fun_nan(tag: int, a: f32)
    ensures
        fnan(a) ==> fnan(fun1(tag, a)),
        (1 <= tag <= 5 && !fnan(a)) ==> !fnan(fun1(tag, a)),
        (tag == 6 && !fnan(a) && !flt(a, 0.0f32)) ==> !fnan(fun1(tag, a)),
        (tag == 7 && flt(0.0f32, a)) ==> !fnan(fun1(tag, a)),
{ admit(); }
/// AX-recip: division is total; 1/x is a number for every number x (possibly infinite) and antitone on each side of zero
proof fn ax_recip(a: f32, b: f32)
    ensures
        <f32 as DivSpec<f32>>::obeys_div_spec(), <f32 as DivSpec<f32>>::div_req(1.0f32, a), <f32 as DivSpec<f32>>::div_req(1.0f32, b),
        fnan(1.0f32.div_spec(a)) == fnan(a),
        (fle(a, b) && (flt(0.0f32, a) || flt(b, 0.0f32))) ==> fle(1.0f32.div_spec(b), 1.0f32.div_spec(a)),
{ admit(); }

// =================== specification of intervals ===================
pub open spec fn valid(i: Interval) -> bool { fle(i.lower, i.upper) || (fnan(i.lower) && fnan(i.upper)) }
pub open spec fn nan_iv(i: Interval) -> bool { fnan(i.lower) || fnan(i.upper) }
pub open spec fn mem(x: f32, i: Interval) -> bool { fle(i.lower, x) && fle(x, i.upper) }
'''

SPECS = {
 'Interval::new': ('r: Self', """
        requires fle(lower, upper) || (fnan(lower) && fnan(upper))     // the documented panic condition, as a precondition
        ensures r.lower == lower, r.upper == upper
"""),
 'Interval::new_or_nan': ('r: Self', """
        requires (!fnan(lower) && !fnan(upper)) ==> fle(lower, upper)
        ensures valid(r), (fnan(lower) || fnan(upper)) ==> (fnan(r.lower) && fnan(r.upper)),
            (!fnan(lower) && !fnan(upper)) ==> (r.lower == lower && r.upper == upper)
"""),
 'Interval::lower': ('r: f32', """
        ensures r == self.lower
"""),
 'Interval::upper': ('r: f32', """
        ensures r == self.upper
"""),
 'Interval::has_nan': ('r: bool', """
        ensures r == nan_iv(*self)
"""),
 # total (no precondition beyond validity of the operands) and exactly enclosing
 'Interval::add': ('r: Self', """
        requires valid(self), valid(rhs)
        ensures valid(r),
            forall|x: f32, y: f32| mem(x, self) && mem(y, rhs) && !fnan(#[trigger] x.add_spec(y)) && !nan_iv(r) ==> mem(x.add_spec(y), r)
"""),
 'Interval::sub': ('r: Self', """
        requires valid(self), valid(rhs)
        ensures valid(r),
            forall|x: f32, y: f32| mem(x, self) && mem(y, rhs) && !fnan(#[trigger] x.sub_spec(y)) && !nan_iv(r) ==> mem(x.sub_spec(y), r)
"""),
 'Interval::mul_f32': ('r: Self', """
        requires valid(self)
        ensures valid(r),
            forall|x: f32| mem(x, self) && !fnan(#[trigger] x.mul_spec(rhs)) && !nan_iv(r) ==> mem(x.mul_spec(rhs), r)
"""),
 'Interval::neg': ('r: Self', """
        requires valid(self)
        ensures valid(r),
            forall|x: f32| mem(x, self) ==> mem(#[trigger] fneg_spec(x), r)
"""),
}

EXTRA_SPECS = {'Interval::exp': ('r: Self', '\n        requires valid(self)\n        ensures valid(r),\n            forall|x: f32| mem(x, self) && !nan_iv(r) && !fnan(#[trigger] fun1(T_EXP(), x)) ==> mem(fun1(T_EXP(), x), r)\n'), 'Interval::atan': ('r: Self', '\n        requires valid(self)\n        ensures valid(r),\n            forall|x: f32| mem(x, self) && !nan_iv(r) && !fnan(#[trigger] fun1(T_ATAN(), x)) ==> mem(fun1(T_ATAN(), x), r)\n'), 'Interval::sqrt': ('r: Self', '\n        requires valid(self)\n        ensures valid(r),\n            forall|x: f32| mem(x, self) && !nan_iv(r) && !fnan(#[trigger] fun1(T_SQRT(), x)) ==> mem(fun1(T_SQRT(), x), r)\n'), 'Interval::ln': ('r: Self', '\n        requires valid(self)\n        ensures valid(r),\n            forall|x: f32| mem(x, self) && !nan_iv(r) && !fnan(#[trigger] fun1(T_LN(), x)) ==> mem(fun1(T_LN(), x), r)\n'), 'Interval::floor': ('r: Self', '\n        requires valid(*self)\n        ensures valid(r),\n            forall|x: f32| mem(x, *self) && !nan_iv(r) && !fnan(#[trigger] fun1(T_FLOOR(), x)) ==> mem(fun1(T_FLOOR(), x), r)\n'), 'Interval::ceil': ('r: Self', '\n        requires valid(*self)\n        ensures valid(r),\n            forall|x: f32| mem(x, *self) && !nan_iv(r) && !fnan(#[trigger] fun1(T_CEIL(), x)) ==> mem(fun1(T_CEIL(), x), r)\n'), 'Interval::round': ('r: Self', '\n        requires valid(*self)\n        ensures valid(r),\n            forall|x: f32| mem(x, *self) && !nan_iv(r) && !fnan(#[trigger] fun1(T_ROUND(), x)) ==> mem(fun1(T_ROUND(), x), r)\n'), 'Interval::recip': ('r: Self', '\n        requires valid(self)\n        ensures valid(r),\n            forall|x: f32| mem(x, self) && !nan_iv(r) ==> mem(#[trigger] 1.0f32.div_spec(x), r)\n')}
SPECS.update(EXTRA_SPECS)

PROOFS = [
 ('Interval::new', '$START', 0, False, "        proof { ax_ops(upper, lower); }"),
 ('Interval::add', '$START', 0, False, """        proof {
            ax_ops(self.lower, rhs.lower); ax_ops(self.upper, rhs.upper); ax_ops(self.lower, self.upper); ax_ops(rhs.lower, rhs.upper);
            ax_nan_prop(self.lower, rhs.lower); ax_nan_prop(self.upper, rhs.upper);
            ax_add_mono(self.lower, rhs.lower, self.upper, rhs.upper);
        }"""),
 ('Interval::add', '$TAILCALLNAME', 0, False, """        proof {
            assert forall|x: f32, y: f32| mem(x, self) && mem(y, rhs) && !fnan(#[trigger] x.add_spec(y)) && !nan_iv(ret_) implies mem(x.add_spec(y), ret_) by {
                ax_add_mono(self.lower, rhs.lower, x, y);
                ax_add_mono(x, y, self.upper, rhs.upper);
            }
        }"""),
 ('Interval::sub', '$START', 0, False, """        proof {
            ax_ops(self.lower, rhs.upper); ax_ops(self.upper, rhs.lower); ax_ops(self.lower, self.upper); ax_ops(rhs.lower, rhs.upper);
            ax_nan_prop(self.lower, rhs.upper); ax_nan_prop(self.upper, rhs.lower);
            ax_sub_mono(self.lower, rhs.upper, self.upper, rhs.lower);
        }"""),
 ('Interval::sub', '$TAILCALLNAME', 0, False, """        proof {
            assert forall|x: f32, y: f32| mem(x, self) && mem(y, rhs) && !fnan(#[trigger] x.sub_spec(y)) && !nan_iv(ret_) implies mem(x.sub_spec(y), ret_) by {
                ax_sub_mono(self.lower, rhs.upper, x, y);
                ax_sub_mono(x, y, self.upper, rhs.lower);
            }
        }"""),
 ('Interval::mul_f32', '$START', 0, False, """        proof {
            ax_ops(self.lower, rhs); ax_ops(self.upper, rhs); ax_ops(rhs, 0.0f32); ax_ops(0.0f32, rhs); ax_ops(self.lower, self.upper);
            ax_nan_prop(self.lower, rhs); ax_nan_prop(self.upper, rhs);
            ax_mul_mono(self.lower, self.upper, rhs);
            ax_total(0.0f32, rhs);
        }"""),
 ('Interval::mul_f32', '$TAILIFNAME', 0, False, """        proof {
            assert forall|x: f32| mem(x, self) && !fnan(#[trigger] x.mul_spec(rhs)) && !nan_iv(ret_) implies mem(x.mul_spec(rhs), ret_) by {
                ax_mul_mono(self.lower, x, rhs);
                ax_mul_mono(x, self.upper, rhs);
            }
        }"""),
 ('Interval::neg', '$START', 0, False, """        proof {
            ax_ops(self.lower, self.upper); ax_nan_prop(self.lower, self.lower); ax_nan_prop(self.upper, self.upper);
            ax_neg_mono(self.lower, self.upper);
        }"""),
 ('Interval::neg', '$TAILCALLNAME', 0, False, """        proof {
            assert forall|x: f32| mem(x, self) implies mem(#[trigger] fneg_spec(x), ret_) by {
                ax_neg_mono(self.lower, x);
                ax_neg_mono(x, self.upper);
            }
        }"""),
]

PROOFS += [('Interval::exp', '$START', 0, False, '        proof {\n            ax_ops(self.lower, self.upper); ax_ops(self.lower, 0.0f32); ax_ops(0.0f32, self.lower); ax_ops(self.upper, 0.0f32); ax_ops(0.0f32, self.upper);\n            ax_nan_prop(self.lower, self.upper);\n            ax_fun_nan(T_EXP(), self.lower); ax_fun_nan(T_EXP(), self.upper); ax_fun_mono(T_EXP(), self.lower, self.upper);\n            ax_total(0.0f32, self.lower); ax_total(self.lower, 0.0f32); ax_le_trans(0.0f32, self.lower, self.upper);\n            ax_lt_le_trans(0.0f32, self.lower, self.upper);\n        }'), ('Interval::exp', '$TAILPROOF', 0, False, '        proof {\n            assert forall|x: f32| mem(x, self) && !nan_iv(ret_) && !fnan(#[trigger] fun1(T_EXP(), x)) implies mem(fun1(T_EXP(), x), ret_) by {\n                ax_fun_mono(T_EXP(), self.lower, x); ax_fun_mono(T_EXP(), x, self.upper);\n                ax_fun_nan(T_EXP(), x);\n            }\n        }'), ('Interval::atan', '$START', 0, False, '        proof {\n            ax_ops(self.lower, self.upper); ax_ops(self.lower, 0.0f32); ax_ops(0.0f32, self.lower); ax_ops(self.upper, 0.0f32); ax_ops(0.0f32, self.upper);\n            ax_nan_prop(self.lower, self.upper);\n            ax_fun_nan(T_ATAN(), self.lower); ax_fun_nan(T_ATAN(), self.upper); ax_fun_mono(T_ATAN(), self.lower, self.upper);\n            ax_total(0.0f32, self.lower); ax_total(self.lower, 0.0f32); ax_le_trans(0.0f32, self.lower, self.upper);\n            ax_lt_le_trans(0.0f32, self.lower, self.upper);\n        }'), ('Interval::atan', '$TAILPROOF', 0, False, '        proof {\n            assert forall|x: f32| mem(x, self) && !nan_iv(ret_) && !fnan(#[trigger] fun1(T_ATAN(), x)) implies mem(fun1(T_ATAN(), x), ret_) by {\n                ax_fun_mono(T_ATAN(), self.lower, x); ax_fun_mono(T_ATAN(), x, self.upper);\n                ax_fun_nan(T_ATAN(), x);\n            }\n        }'), ('Interval::sqrt', '$START', 0, False, '        proof {\n            ax_ops(self.lower, self.upper); ax_ops(self.lower, 0.0f32); ax_ops(0.0f32, self.lower); ax_ops(self.upper, 0.0f32); ax_ops(0.0f32, self.upper);\n            ax_nan_prop(self.lower, self.upper);\n            ax_fun_nan(T_SQRT(), self.lower); ax_fun_nan(T_SQRT(), self.upper); ax_fun_mono(T_SQRT(), self.lower, self.upper);\n            ax_total(0.0f32, self.lower); ax_total(self.lower, 0.0f32); ax_le_trans(0.0f32, self.lower, self.upper);\n            ax_lt_le_trans(0.0f32, self.lower, self.upper);\n        }'), ('Interval::sqrt', '$TAILPROOF', 0, False, '        proof {\n            assert forall|x: f32| mem(x, self) && !nan_iv(ret_) && !fnan(#[trigger] fun1(T_SQRT(), x)) implies mem(fun1(T_SQRT(), x), ret_) by {\n                ax_fun_mono(T_SQRT(), self.lower, x); ax_fun_mono(T_SQRT(), x, self.upper);\n                ax_fun_nan(T_SQRT(), x);\n            }\n        }'), ('Interval::ln', '$START', 0, False, '        proof {\n            ax_ops(self.lower, self.upper); ax_ops(self.lower, 0.0f32); ax_ops(0.0f32, self.lower); ax_ops(self.upper, 0.0f32); ax_ops(0.0f32, self.upper);\n            ax_nan_prop(self.lower, self.upper);\n            ax_fun_nan(T_LN(), self.lower); ax_fun_nan(T_LN(), self.upper); ax_fun_mono(T_LN(), self.lower, self.upper);\n            ax_total(0.0f32, self.lower); ax_total(self.lower, 0.0f32); ax_le_trans(0.0f32, self.lower, self.upper);\n            ax_lt_le_trans(0.0f32, self.lower, self.upper);\n        }'), ('Interval::ln', '$TAILPROOF', 0, False, '        proof {\n            assert forall|x: f32| mem(x, self) && !nan_iv(ret_) && !fnan(#[trigger] fun1(T_LN(), x)) implies mem(fun1(T_LN(), x), ret_) by {\n                ax_fun_mono(T_LN(), self.lower, x); ax_fun_mono(T_LN(), x, self.upper);\n                ax_fun_nan(T_LN(), x);\n            }\n        }'), ('Interval::floor', '$START', 0, False, '        proof {\n            ax_ops(self.lower, self.upper); ax_ops(self.lower, 0.0f32); ax_ops(0.0f32, self.lower); ax_ops(self.upper, 0.0f32); ax_ops(0.0f32, self.upper);\n            ax_nan_prop(self.lower, self.upper);\n            ax_fun_nan(T_FLOOR(), self.lower); ax_fun_nan(T_FLOOR(), self.upper); ax_fun_mono(T_FLOOR(), self.lower, self.upper);\n            ax_total(0.0f32, self.lower); ax_total(self.lower, 0.0f32); ax_le_trans(0.0f32, self.lower, self.upper);\n            ax_lt_le_trans(0.0f32, self.lower, self.upper);\n        }'), ('Interval::floor', '$TAILPROOF', 0, False, '        proof {\n            assert forall|x: f32| mem(x, *self) && !nan_iv(ret_) && !fnan(#[trigger] fun1(T_FLOOR(), x)) implies mem(fun1(T_FLOOR(), x), ret_) by {\n                ax_fun_mono(T_FLOOR(), self.lower, x); ax_fun_mono(T_FLOOR(), x, self.upper);\n                ax_fun_nan(T_FLOOR(), x);\n            }\n        }'), ('Interval::ceil', '$START', 0, False, '        proof {\n            ax_ops(self.lower, self.upper); ax_ops(self.lower, 0.0f32); ax_ops(0.0f32, self.lower); ax_ops(self.upper, 0.0f32); ax_ops(0.0f32, self.upper);\n            ax_nan_prop(self.lower, self.upper);\n            ax_fun_nan(T_CEIL(), self.lower); ax_fun_nan(T_CEIL(), self.upper); ax_fun_mono(T_CEIL(), self.lower, self.upper);\n            ax_total(0.0f32, self.lower); ax_total(self.lower, 0.0f32); ax_le_trans(0.0f32, self.lower, self.upper);\n            ax_lt_le_trans(0.0f32, self.lower, self.upper);\n        }'), ('Interval::ceil', '$TAILPROOF', 0, False, '        proof {\n            assert forall|x: f32| mem(x, *self) && !nan_iv(ret_) && !fnan(#[trigger] fun1(T_CEIL(), x)) implies mem(fun1(T_CEIL(), x), ret_) by {\n                ax_fun_mono(T_CEIL(), self.lower, x); ax_fun_mono(T_CEIL(), x, self.upper);\n                ax_fun_nan(T_CEIL(), x);\n            }\n        }'), ('Interval::round', '$START', 0, False, '        proof {\n            ax_ops(self.lower, self.upper); ax_ops(self.lower, 0.0f32); ax_ops(0.0f32, self.lower); ax_ops(self.upper, 0.0f32); ax_ops(0.0f32, self.upper);\n            ax_nan_prop(self.lower, self.upper);\n            ax_fun_nan(T_ROUND(), self.lower); ax_fun_nan(T_ROUND(), self.upper); ax_fun_mono(T_ROUND(), self.lower, self.upper);\n            ax_total(0.0f32, self.lower); ax_total(self.lower, 0.0f32); ax_le_trans(0.0f32, self.lower, self.upper);\n            ax_lt_le_trans(0.0f32, self.lower, self.upper);\n        }'), ('Interval::round', '$TAILPROOF', 0, False, '        proof {\n            assert forall|x: f32| mem(x, *self) && !nan_iv(ret_) && !fnan(#[trigger] fun1(T_ROUND(), x)) implies mem(fun1(T_ROUND(), x), ret_) by {\n                ax_fun_mono(T_ROUND(), self.lower, x); ax_fun_mono(T_ROUND(), x, self.upper);\n                ax_fun_nan(T_ROUND(), x);\n            }\n        }'), ('Interval::recip', '$START', 0, False, '        proof {\n            ax_ops(self.lower, self.upper); ax_ops(self.lower, 0.0f32); ax_ops(0.0f32, self.lower); ax_ops(self.upper, 0.0f32); ax_ops(0.0f32, self.upper);\n            ax_nan_prop(self.lower, self.upper);\n            ax_recip(self.lower, self.upper);\n        }'), ('Interval::recip', '$TAILPROOF', 0, False, '        proof {\n            assert forall|x: f32| mem(x, self) && !nan_iv(ret_) implies mem(#[trigger] 1.0f32.div_spec(x), ret_) by {\n                ax_ops(x, 0.0f32); ax_ops(0.0f32, x);\n                ax_lt_le_trans(0.0f32, self.lower, x); ax_le_lt_trans(x, self.upper, 0.0f32);\n                ax_recip(self.lower, x); ax_recip(x, self.upper);\n            }\n        }')]



def r_unroll(f, trace, what):
    """R-unroll: a `for` loop over an array literal, or over the tail of a fixed-size local array, is written out element by element:
    `for V in [E1, E2] { BODY }` -> `{ let V = E1; BODY } { let V = E2; BODY }`;  `for &V in &A[1..] { BODY }` with `let mut A = [c; N]`
    -> `{ let V = A[1]; BODY } .. { let V = A[N-1]; BODY }`.  The element expressions are field reads or array reads (no side effects), so
    evaluating them at the head of each copy instead of once when the array literal is built changes nothing."""
    while True:
        m = re.search(r'( *)for (&?)(\w+) in (\[[^\]\n]+\]|&\w+\[\d+\.\.\]) \{\n', f)
        if not m:
            return f
        ob = m.end() - 2
        cb = rsx.match_brace(f, ob)
        body = f[m.end():cb]
        ind, amp, var, it = m.group(1), m.group(2), m.group(3), m.group(4)
        if it.startswith('['):
            elems = [e.strip() for e in rsx.split_top(it[1:-1])]
            if amp:
                raise ExtractError('%s: R-unroll: reference pattern over an array literal' % what)
        else:
            m2 = re.match(r'&(\w+)\[(\d+)\.\.\]', it)
            arr, lo = m2.group(1), int(m2.group(2))
            m3 = re.search(r'let mut %s = \[[^;\]]+; (\d+)\];' % arr, f)
            if not m3 or not amp:
                raise ExtractError('%s: R-unroll: length of `%s` not found' % (what, arr))
            elems = ['%s[%d]' % (arr, k) for k in range(lo, int(m3.group(1)))]
        out = ''
        for e in elems:
            out += '%s{\n%s    let %s = %s;\n%s%s}\n' % (ind, ind, var, e, body, ind)
        f = f[:m.start()] + out + f[cb + 1:].lstrip('\n')
        trace.fire('R-unroll')


def inherent_from_trait(src, header_re, fn_name, new_name, trace):
    """R-traitfn: `impl Trait<..> for Interval { type Output = Self; fn f(..) {..} }` -> the method as an inherent fn
    (operator syntax `a + b` is by definition the call `Add::add(a, b)`; trait impls cannot carry `requires`)."""
    a, b = rsx.impl_block(src, header_re, header_re)
    i, j, k = rsx.find_fn(src, fn_name, a, b)
    text = src[rsx.line_start(src, i):k]
    text = re.sub(r'\bfn %s\b' % fn_name, 'fn %s' % new_name, text, count=1)
    trace.fire('R-traitfn')
    return text


def tail_name(seg, what):
    """name the tail expression of the function: `EXPR\n    }` -> `let ret_ = EXPR;\n <proof>\n ret_ }`"""
    return seg


def build(repo, trace):
    src = rsx.clean(open('%s/%s' % (repo, SRC)).read(), trace)
    st = rsx.get_item(src, r'^struct Interval\b', 0, 'struct Interval')
    st = re.sub(r'#\[repr\(C\)\]\n', '', st)
    if '#[derive(Copy, Clone)]' not in st:
        raise ExtractError('struct Interval derive changed')
    # pub struct + pub fields (contracts of helper fns in the trusted base mention the fields)
    st = st.replace('struct Interval {', 'pub struct Interval {').replace('    lower: f32,', '    pub lower: f32,').replace('    upper: f32,', '    pub upper: f32,')
    a, b = rsx.impl_block(src, r'^impl Interval\b', 'impl Interval')
    fns = []
    for name in ['new', 'new_or_nan', 'lower', 'upper', 'has_nan', 'exp', 'atan', 'sqrt', 'ln', 'recip', 'floor', 'ceil', 'round']:
        i, j, k = rsx.find_fn(src, name, a, b)
        fns.append(src[rsx.line_start(src, i):k])
        trace.items.append((SRC, 'Interval::' + name))
    fns.append(inherent_from_trait(src, r'^impl std::ops::Add<Interval> for Interval', 'add', 'add', trace))
    fns.append(inherent_from_trait(src, r'^impl std::ops::Sub<Interval> for Interval', 'sub', 'sub', trace))
    fns.append(inherent_from_trait(src, r'^impl std::ops::Mul<f32> for Interval', 'mul', 'mul_f32', trace))
    fns.append(inherent_from_trait(src, r'^impl std::ops::Neg for Interval', 'neg', 'neg', trace))
    for w in ('Add<Interval>::add', 'Sub<Interval>::sub', 'Mul<f32>::mul (as mul_f32)', 'Neg::neg'):
        trace.items.append((SRC, 'impl ' + w))
    trace.drop('all other Interval functions (abs, square, sin, cos, tan, asin, acos, min/max/and/or_choice, '
               'rem_euclid, not, atan2, mix, rand, midpoint, split, lerp, width, From impls): '
               'select ops are decided by Kani, the rest by the bounded contracts interp_interval / total')
    # Mul<Interval>, Div<Interval>: unrolled (R-unroll) and woven with their proof templates; each degrades on its own
    md_ok = []
    for hdr, fname, tfile in ((r'^impl std::ops::Mul<Interval> for Interval', 'mul', 'interval_tmpl_mul.rs'), (r'^impl std::ops::Div<Interval> for Interval', 'div', 'interval_tmpl_div.rs')):
        tm = open(os.path.join(HERE, tfile)).read()
        try:
            real = inherent_from_trait(src, hdr, fname, fname, trace)
            real = real.replace('f32::NAN.into()', 'nan_interval()')
            real = r_unroll(real, trace, 'Interval::' + fname)
            real = real.replace(') -> Self {', ') -> (r: Self)\n    {', 1)
            w, m_, n_ = weave(tm, real, 'Interval::' + fname)
            if m_ != n_:
                trace.fire('weave-unmatched-lines', n_ - m_)
            fns.append(w)
        except (ExtractError, LostAnchor) as e:
            trace.lost = getattr(trace, 'lost', {})
            trace.lost.setdefault('Interval::' + fname, []).append('not woven: %s' % e)
            fns.append('\n'.join(l[len(GMARK):] if l.startswith(GMARK) else l for l in tm.split('\n')))
        md_ok.append(fname)
        trace.items.append((SRC, 'impl %s<Interval>::%s' % ('Mul' if fname == 'mul' else 'Div', fname)))
    body = 'impl Interval {\n' + '\n\n'.join(fns) + '\n}\n'
    # R-nanconst / R-neg
    n1 = body.count('f32::NAN.into()')
    body = body.replace('f32::NAN.into()', 'nan_interval()')
    trace.fire('R-nanconst', n1)
    body, n2 = re.subn(r'(?<![\w\)])-self\.(upper|lower)\b', r'fneg(self.\1)', body)
    trace.fire('R-neg', n2)
    # name the tail expressions so that a proof block can follow them (R-tail)
    def name_tail(fn, pattern):
        nonlocal body
        i, j, k = rsx.find_fn(body, fn)
        seg = body[i:k]
        m = re.search(pattern, seg, re.S)
        if not m:
            raise ExtractError('R-tail: tail expression of %s changed' % fn)
        seg = seg[:m.start(1)] + 'let ret_ = ' + m.group(1).rstrip() + ';\n        /*@tail:%s*/\n        ret_\n    }' % fn
        body = body[:i] + seg + body[k:]
        trace.fire('R-tail')
    name_tail('add', r'\n        (Interval::new_or_nan\([^;]*?\))\n    \}$')
    name_tail('sub', r'\n        (Interval::new_or_nan\([^;]*?\))\n    \}$')
    name_tail('neg', r'\n        (Interval::new\([^;]*?\))\n    \}$')
    name_tail('mul_f32', r'\n        (if self\.has_nan\(\).*\n        \})\n    \}$')
    for fn in ('exp', 'atan', 'floor', 'ceil', 'round'):
        name_tail(fn, r'\n        (Interval::new\([^;]*?\))\n    \}$')
    for fn in ('sqrt', 'ln', 'recip'):
        name_tail(fn, r'\n        (if self\.(?:lower|upper) .*\n        \})\n    \}$')
    text = ('use vstd::prelude::*;\nuse vstd::std_specs::ops::*;\nuse vstd::std_specs::cmp::*;\nuse core::cmp::Ordering;\nverus! {\n'
            + st + '\n\n' + body + '\n} // verus!\nfn main() {}\n')
    inj = Injector(text, trace)
    for qual, anchor, occ, before, proof in PROOFS:
        if anchor in ('$TAILCALLNAME', '$TAILIFNAME', '$TAILPROOF'):
            fn = qual.split('::')[1]
            inj.replace_once('        /*@tail:%s*/' % fn, proof, 'R-tail-proof')
        else:
            inj.proof(qual, anchor, proof, occ=occ, before=before)
    for qual, (ret, stext) in SPECS.items():
        inj.spec(qual, ret, stext)
    inj.append_items(AXIOMS + open(os.path.join(HERE, 'interval_muldiv_axioms.rs')).read())
    fnames = ['new', 'new_or_nan', 'lower', 'upper', 'has_nan', 'add', 'sub', 'mul_f32', 'neg', 'exp', 'atan', 'sqrt', 'ln', 'recip', 'floor', 'ceil', 'round']
    obls = [Obligation('interval::Interval::' + f, 'interval', 'Interval::' + f, props=PROPS) for f in fnames]
    for f in md_ok:
        obls.append(Obligation('interval::Interval::' + f, 'interval', 'Interval::' + f, props=PROPS, rlimit=50, note='totality on all valid intervals; enclosure for finite bounds (an infinite bound meeting a zero gives a NaN corner that min/max drop: known finding K4)'))
    for l in ('lemma_minmax_step', 'lemma_mul_corners', 'lemma_div_corners'):
        obls.append(Obligation('interval::' + l, 'interval', l, props=PROPS, kind='lemma'))
    return {'texts': {'base': inj.s}, 'obligations': obls, 'canary_fns': ['Interval::' + f for f in ('new', 'new_or_nan', 'add', 'sub', 'mul_f32', 'neg', 'exp', 'sqrt', 'ln', 'recip', 'floor', 'mul', 'div')]}
