"""Unit `tiles` (legs of C06 and C07): the tile-size lists both renderers start from, on their real text -
`TileSizes::{new, len}` of fidget-core/src/render/mod.rs and `TileSizesRef::{new, last}` of fidget-raster/src/lib.rs.

What is proved: `TileSizes::new` returns `Ok` exactly for the lists with the three documented invariants (at least one size, strictly
descending, each size exactly divisible by the next one - which makes every size but a lone first one non-zero) and keeps the list as given;
`TileSizesRef::new` returns the suffix of the list that starts one before the first size below `max_size` (at index 0 if there is no
earlier one): the root tile is the last size that is not smaller than the image, or the first size; no slice-range panic.  These are the
contracts the stand-ins of units `raster` and `voxel` assume (`is_suffix`, the ordering clauses of `sizes_wf`).

NOT guaranteed by the code, and therefore an explicit assumption of those units: the smallest size is at least 1 - `TileSizes::new(&[0])`
is `Ok` (a lone 0 passes the three checks) and rendering with it divides by zero; the root tile is at most 4096.

Rewrites: R-multiple (`a.is_multiple_of(b)` as the function std documents: `b == 0 ? a == 0 : a % b == 0`), R-tovec (`slice.to_vec()`),
R-position (`iter().position(|t| *t < m)` as the verified helper `position_lt`), R-let (the position is named), R-satsub, R-rangefrom
(`&tiles[i..]`: `Index<RangeFrom<usize>> for TileSizes` is `&self.0[index]`, checked), R-len (`tiles.len()` is `self.0.len()`, checked)."""
import re
from lib import rsx
from lib.rsx import ExtractError
from lib.verus_engine import Injector, Obligation
from lib.weave import weave, GMARK, LostAnchor
import os
HERE = os.path.dirname(os.path.abspath(__file__))

CORE_RS = 'fidget-core/src/render/mod.rs'
LIB_RS = 'fidget-raster/src/lib.rs'
PROPS = ['C06', 'C07']


def norm(s):
    return re.sub(r'\s+', '', s)


def sub_once(text, old, new, what):
    if text.count(old) != 1:
        raise ExtractError('%s: expected exactly one %r, found %d' % (what, old[:70], text.count(old)))
    return text.replace(old, new)


STATIC = r'''
pub struct TileSizes(pub Vec<usize>);
pub enum TileSizeError { BadTileSize(usize, usize), BadTileOrder(usize, usize), EmptyTileSizes }
#[derive(Copy, Clone)]
pub struct TileSizesRef<'a>(pub &'a [usize]);

/// the three documented invariants: at least one size, strictly descending, each size exactly divisible by the next
pub open spec fn order_ok(s: Seq<usize>) -> bool {
    &&& s.len() >= 1
    &&& forall|i: int| 1 <= i < s.len() ==> #[trigger] pair_ok(s, i)
}
pub open spec fn pair_ok(s: Seq<usize>, i: int) -> bool { s[i - 1] > s[i] && s[i] != 0 && s[i - 1] % s[i] == 0 }
/// p is the first index whose size is below m (the length if there is none)
pub open spec fn first_below(s: Seq<usize>, m: int, p: int) -> bool {
    0 <= p <= s.len() && (p < s.len() ==> s[p] < m) && forall|j: int| 0 <= j < p ==> #[trigger] s[j] >= m
}
/// R-multiple: `a.is_multiple_of(b)` of std: `match b { 0 => a == 0, _ => a % b == 0 }`
pub fn is_multiple_of(a: usize, b: usize) -> (r: bool) ensures r == (if b == 0 { a == 0 } else { a % b == 0 }) { if b == 0 { a == 0 } else { a % b == 0 } }
/// R-tovec: `slice.to_vec()`
#[verifier::external_body]
pub fn to_vec(s: &[usize]) -> (r: Vec<usize>) ensures r@ == s@ { s.to_vec() }
/// R-rangefrom: `&v[i..]` (panics for i > len)
#[verifier::external_body]
pub fn suffix(v: &Vec<usize>, i: usize) -> (r: &[usize]) requires i <= v@.len() ensures r@ == v@.subrange(i as int, v@.len() as int) { &v[i..] }
/// R-position: `iter().position(|t| *t < m)`: the first index whose element is below m
pub fn position_lt(v: &Vec<usize>, m: usize) -> (r: Option<usize>)
    ensures r is Some ==> r->Some_0 < v@.len() && v@[r->Some_0 as int] < m && forall|j: int| 0 <= j < r->Some_0 ==> !(#[trigger] v@[j] < m),
        r is None ==> forall|j: int| 0 <= j < v@.len() ==> !(#[trigger] v@[j] < m),
{
    let mut i: usize = 0;
    while i < v.len()
        invariant 0 <= i <= v@.len(), forall|j: int| 0 <= j < i ==> !(#[trigger] v@[j] < m),
        decreases v@.len() - i
    {
        if v[i] < m { return Some(i); }
        i += 1;
    }
    None
}
/// R-satsub: `a.saturating_sub(b)`
pub fn saturating_sub(a: usize, b: usize) -> (r: usize) ensures r == (if a >= b { a - b } else { 0 }) { if a >= b { a - b } else { 0 } }
/// the ordering clauses of `sizes_wf` (units raster / voxel) follow from `order_ok`; what does not follow is `s[last] >= 1`
pub proof fn lemma_order_gives_steps(s: Seq<usize>)
    requires order_ok(s)
    ensures forall|i: int| 0 <= i < s.len() - 1 ==> s[i] > #[trigger] s[i + 1] && s[i + 1] >= 1 && s[i] % s[i + 1] == 0, forall|i: int| 0 <= i < s.len() - 1 ==> #[trigger] s[i] >= 1,
{
    assert forall|i: int| 0 <= i < s.len() - 1 implies s[i] > #[trigger] s[i + 1] && s[i + 1] >= 1 && s[i] % s[i + 1] == 0 by { assert(pair_ok(s, i + 1)); }
    assert forall|i: int| 0 <= i < s.len() - 1 implies #[trigger] s[i] >= 1 by { assert(pair_ok(s, i + 1)); }
}
'''


def build(repo, trace):
    trace.lost = {}
    core = rsx.clean(open('%s/%s' % (repo, CORE_RS)).read(), trace)
    lib = rsx.clean(open('%s/%s' % (repo, LIB_RS)).read(), trace)
    if not re.search(r'^struct TileSizes\(Vec<usize>\);', core, re.M):
        raise ExtractError('struct TileSizes changed')
    en = rsx.get_item(core, r'^enum TileSizeError\b', 0, 'enum TileSizeError')
    for v in ('BadTileSize(usize, usize)', 'BadTileOrder(usize, usize)', 'EmptyTileSizes'):
        if v not in en:
            raise ExtractError('enum TileSizeError: variant %s changed' % v)
    a, b = rsx.impl_block(core, r'^impl TileSizes\b', 'impl TileSizes')
    i, j, k = rsx.find_fn(core, 'new', a, b)
    f_new = core[rsx.line_start(core, i):k]
    q = 'TileSizes::new'
    f_new, n = re.subn(r'!(\w+\[[^\]]+\])\.is_multiple_of\((\w+\[[^\]]+\])\)', r'!is_multiple_of(\1, \2)', f_new)
    if n != 1:
        raise ExtractError('%s: R-multiple site changed' % q)
    trace.fire('R-multiple')
    f_new = sub_once(f_new, 'sizes.to_vec()', 'to_vec(sizes)', q)
    trace.fire('R-tovec')
    i, j, k = rsx.find_fn(core, 'len', a, b)
    f_len = core[rsx.line_start(core, i):k]
    # the Index<RangeFrom> impl that R-rangefrom stands for
    a2, b2 = rsx.impl_block(core, r'^impl std::ops::Index<std::ops::RangeFrom<usize>> for TileSizes', 'impl Index<RangeFrom> for TileSizes')
    if '&self.0[index]' not in core[a2:b2]:
        raise ExtractError('Index<RangeFrom<usize>> for TileSizes changed: R-rangefrom not applicable')
    if not re.search(r"^struct TileSizesRef<'a>\(&'a \[usize\]\);", lib, re.M):
        raise ExtractError('struct TileSizesRef changed')
    a, b = rsx.impl_block(lib, r"^impl TileSizesRef<'_>", 'impl TileSizesRef')
    i, j, k = rsx.find_fn(lib, 'new', a, b)
    f_rnew = lib[rsx.line_start(lib, i):k]
    q = 'TileSizesRef::new'
    m = re.search(r'let i = tiles\s*\.iter\(\)\s*\.position\(\|t\| \*t < max_size\)\s*\.unwrap_or\(([^()]*(?:\(\))?)\)\s*\.saturating_sub\(([^()]+)\);', f_rnew)
    if not m:
        raise ExtractError('%s: R-position site changed' % q)
    f_rnew = (f_rnew[:m.start()] + 'let pos_ = position_lt(&tiles.0, max_size);   // R-position, R-let\n        let i = saturating_sub(pos_.unwrap_or(%s), %s);   // R-satsub' % (m.group(1), m.group(2))
              + f_rnew[m.end():])
    trace.fire('R-position'); trace.fire('R-let'); trace.fire('R-satsub')
    f_rnew, n = re.subn(r'TileSizesRef\(&tiles\[(\w+)\.\.\]\)', r'TileSizesRef(suffix(&tiles.0, \1))', f_rnew)
    if n != 1:
        raise ExtractError('%s: R-rangefrom site changed' % q)
    trace.fire('R-rangefrom')
    f_rnew = f_rnew.replace("-> TileSizesRef<'_>", "-> TileSizesRef<'a>").replace('tiles: &TileSizes', "tiles: &'a TileSizes")
    i, j, k = rsx.find_fn(lib, 'last', a, b)
    f_last = lib[rsx.line_start(lib, i):k]
    for nm in ('new', 'len'):
        trace.items.append((CORE_RS, 'TileSizes::' + nm))
    for nm in ('new', 'last'):
        trace.items.append((LIB_RS, 'TileSizesRef::' + nm))
    # ---- the block of render_tiles that builds the list of root tiles, as a function of its own (R-block)
    tl = ''
    try:
        i, j, k = rsx.find_fn(lib, 'render_tiles', 0, None)
        body = lib[j + 1:k - 1]
        if body.count('let mut tiles = vec![];') != 1:
            raise ExtractError('render_tiles: start of the tile-list block not found')
        m2 = re.search(r'\n\s*let mut rh = RenderHandle::new\(shape\);', body)
        if not m2:
            raise ExtractError('render_tiles: end of the tile-list block not found')
        block = body[body.index('let mut tiles = vec![];'):m2.start()]
        block, n = re.subn(r' *let (width|height) = render_config\.(width|height)\(\) as usize;\n', '', block)
        if n != 2:
            raise ExtractError('render_tiles: the two lines that read the image size changed')   # they become the parameters of the block
        block = sub_once(block, 'vec![]', 'Vec::new()', 'render_tiles')
        block, n = re.subn(r'\btile_sizes\[0\]', '*tile_sizes.index(0)', block)
        trace.fire('R-index', n)
        for var, end in (('i', 'nx_'), ('j', 'ny_')):
            m = re.search(r'( *)for %s in 0\.\.(\w+)\.div_ceil\((\w+)\) \{\n' % var, block)
            if not m:
                raise ExtractError('render_tiles: loop over %s changed' % var)
            block = block[:m.start()] + '%slet %s = div_ceil_usize(%s, %s);   // R-hoist-range, R-divceil\n%sfor %s in 0..%s {\n' % (m.group(1), end, m.group(2), m.group(3), m.group(1), var, end) + block[m.end():]
            trace.fire('R-hoist-range'); trace.fire('R-divceil')
        real = "pub fn tile_list(tile_sizes: TileSizesRef<'_>, width: usize, height: usize) -> (tiles: Vec<Tile<2>>)\n{\n    " + block.rstrip() + '\n    tiles\n}'
        tm = open(os.path.join(HERE, 'tiles_tmpl_list.rs')).read()
        tl, m_, n_ = weave(tm, real, 'render_tiles[tile list]')
        if m_ != n_:
            trace.fire('weave-unmatched-lines', n_ - m_)
        tstruct = rsx.get_item(lib, r'^struct Tile<const N: usize>', 0, 'struct Tile')
        if 'corner: OPoint<usize, Const<N>>,' not in tstruct:
            raise ExtractError('struct Tile changed')
        trace.fire('R-block')
        trace.items.append((LIB_RS, 'render_tiles: the block that builds the list of root tiles (as the function tile_list of its own; the two lines reading the image size become its parameters)'))
    except (ExtractError, LostAnchor) as e:
        trace.lost.setdefault('tile_list', []).append('not extracted: %s' % e)
        tl = ''
    trace.drop('everything else of both files; TileSizes::iter and the Index impls are represented by the rewrite rules above')
    text = ('use vstd::prelude::*;\nverus! {\nglobal size_of usize == 8;\n' + STATIC + '\nimpl TileSizes {\n' + f_new + '\n\n' + f_len + '\n}\n\n'
            + "impl<'a> TileSizesRef<'a> {\n" + f_rnew + '\n\n' + f_last + '\n}\n' + (open(os.path.join(HERE, 'tiles_static_list.rs')).read() + '\n' + tl + '\n' if tl else '') + '\n} // verus!\nfn main() {}\n')
    inj = Injector(text, trace)
    inj.spec('TileSizes::new', 'r: Result<Self, TileSizeError>', '\n        ensures r is Ok <==> order_ok(sizes@), r is Ok ==> r->Ok_0.0@ == sizes@\n')
    inj.loop_inv('TileSizes::new', 'for i in 1..sizes.len()', '            invariant sizes@.len() >= 1, forall|j: int| 1 <= j < i ==> #[trigger] pair_ok(sizes@, j),')
    inj.proof('TileSizes::new', 're:return Err\\(TileSizeError::BadTileOrder\\(', '                proof { assert(!pair_ok(sizes@, i as int)); }', before=True)
    inj.proof('TileSizes::new', 're:return Err\\(TileSizeError::BadTileSize\\(', '                proof { assert(!pair_ok(sizes@, i as int)); }', before=True)
    inj.spec('TileSizes::len', 'r: usize', '\n        ensures r == self.0@.len()\n')
    inj.spec('TileSizesRef::new', "r: TileSizesRef<'a>", '\n        requires tiles.0@.len() >= 1   // what TileSizes::new guarantees\n'
             '        // the sizes from the one before the first size below max_size on: the root tile is the last size that is not smaller than the image (or the first size)\n'
             '        ensures exists|p: int| #[trigger] first_below(tiles.0@, max_size as int, p) && r.0@ == tiles.0@.subrange(if p >= 1 { p - 1 } else { 0 }, tiles.0@.len() as int)\n')
    inj.proof('TileSizesRef::new', 're:let i = saturating_sub\\(.*', '        let ghost p_ = match pos_ { Some(q) => q as int, None => tiles.0@.len() as int };\n        proof { assert(first_below(tiles.0@, max_size as int, p_)); }')
    inj.spec('TileSizesRef::last', 'r: usize', '\n        requires self.0@.len() >= 1\n        ensures r == self.0@[self.0@.len() - 1]\n')
    obls = [Obligation('tiles::' + f, 'tiles', f, props=PROPS) for f in ('TileSizes::new', 'TileSizes::len', 'TileSizesRef::new', 'TileSizesRef::last')]
    obls += [Obligation('tiles::' + f, 'tiles', f, props=PROPS, kind='lemma') for f in ('position_lt', 'is_multiple_of', 'saturating_sub', 'lemma_order_gives_steps')]
    if tl:
        obls.append(Obligation('tiles::render_tiles[tile list]', 'tiles', 'tile_list', props=PROPS, rlimit=50, note='one tile per root tile of the image: aligned, starting inside the image, none twice, every pixel covered'))
        obls += [Obligation('tiles::' + f, 'tiles', f, props=PROPS, kind='lemma') for f in ('div_ceil_usize', 'lemma_div_ceil', 'lemma_grid')]
    return {'texts': {'base': inj.s}, 'obligations': obls, 'canary_fns': ['TileSizes::new', 'TileSizesRef::new'] + (['tile_list'] if tl else []), 'verus_args': ['--edition=2024']}
