#[derive(Copy, Clone)]
pub struct Point2<T> { pub x: T, pub y: T }
impl<T> Point2<T> { pub fn new(x: T, y: T) -> (r: Self) ensures r.x == x, r.y == y { Point2 { x, y } } }
#[derive(Copy, Clone)]
pub struct Tile<const N: usize> { pub corner: Point2<usize> }   // checked against the real struct (R-opoint, N = 2)
impl<const N: usize> Tile<N> { pub fn new(corner: Point2<usize>) -> (r: Tile<N>) ensures r.corner == corner { Tile { corner } } }   // proved in units raster / voxel
impl<'a> TileSizesRef<'a> {
    /// Index<usize> for TileSizesRef (proved in units raster / voxel)
    pub fn index(&self, i: usize) -> (r: &usize) requires i < self.0@.len() ensures *r == self.0@[i as int] { &self.0[i] }
}
pub open spec fn div_ceil_spec(a: int, b: int) -> int { if a % b == 0 { a / b } else { a / b + 1 } }
/// R-divceil: `a.div_ceil(b)` on usize (panics for b == 0)
pub fn div_ceil_usize(a: usize, b: usize) -> (r: usize)
    requires b > 0
    ensures r == div_ceil_spec(a as int, b as int), r * b >= a, (r - 1) * b < (a as int) || (a == 0 && r == 0), r <= a
{
    let q = a / b;
    let m = a % b;
    proof {
        vstd::arithmetic::div_mod::lemma_fundamental_div_mod(a as int, b as int);
        assert(b * q == q * b) by (nonlinear_arith);
        assert(q <= a) by (nonlinear_arith) requires a == q * b + m, b >= 1, m >= 0, q >= 0;
        assert((q + 1) * b == q * b + b) by (nonlinear_arith);
        assert((q - 1) * b == q * b - b) by (nonlinear_arith);
        if m > 0 { assert(q < a) by (nonlinear_arith) requires a == q * b + m, b >= 1, m > 0, q >= 0; }
    }
    if m > 0 { q + 1 } else { q }
}
/// the root tile that holds pixel (x, y) is in the list
pub open spec fn covers(tiles: Seq<Tile<2>>, t: int, x: int, y: int) -> bool {
    exists|k: int| 0 <= k < tiles.len() && (#[trigger] tiles[k]).corner.x == x - x % t && tiles[k].corner.y == y - y % t
}
/// the tile list is column-major over the grid of root tiles: entry i * ny + j is the tile at (i * t, j * t)
pub open spec fn tile_grid(tiles: Seq<Tile<2>>, t: int, nx: int, ny: int) -> bool {
    tiles.len() == nx * ny && forall|i: int, j: int| 0 <= i < nx && 0 <= j < ny ==> (#[trigger] tiles[i * ny + j]).corner.x == i * t && tiles[i * ny + j].corner.y == j * t
}

/// the ceiling of a / b: the least multiple of b that reaches a
pub proof fn lemma_div_ceil(a: int, b: int)
    requires a >= 0, b >= 1
    ensures div_ceil_spec(a, b) >= 0, div_ceil_spec(a, b) * b >= a, (div_ceil_spec(a, b) - 1) * b < a || (a == 0 && div_ceil_spec(a, b) == 0)
{
    vstd::arithmetic::div_mod::lemma_fundamental_div_mod(a, b);
    vstd::arithmetic::div_mod::lemma_mod_pos_bound(a, b);
    let q = a / b;
    assert(b * q == q * b) by (nonlinear_arith);
    assert((q + 1) * b == q * b + b) by (nonlinear_arith);
    assert((q - 1) * b == q * b - b) by (nonlinear_arith);
    assert(q >= 0) by (nonlinear_arith) requires a >= 0, a == q * b + a % b, a % b < b, b >= 1;
    if a % b == 0 && a == 0 { assert(q == 0) by (nonlinear_arith) requires q * b == 0, b >= 1; }
}
pub proof fn lemma_grid(tiles: Seq<Tile<2>>, t: int, nx: int, ny: int, w: int, h: int)
    requires t >= 1, nx >= 0, ny >= 0, w >= 0, h >= 0, tile_grid(tiles, t, nx, ny), nx * t >= w, (nx - 1) * t < w || (w == 0 && nx == 0), ny * t >= h, (ny - 1) * t < h || (h == 0 && ny == 0),
    ensures forall|k: int| 0 <= k < tiles.len() ==> (#[trigger] tiles[k]).corner.x as int % t == 0 && tiles[k].corner.y as int % t == 0 && tiles[k].corner.x < w && tiles[k].corner.y < h,
        forall|k1: int, k2: int| 0 <= k1 < k2 < tiles.len() ==> (#[trigger] tiles[k1]).corner != (#[trigger] tiles[k2]).corner,
        forall|x: int, y: int| 0 <= x < w && 0 <= y < h ==> covers(tiles, t, x, y),
{
    assert forall|k: int| 0 <= k < tiles.len() implies (#[trigger] tiles[k]).corner.x as int % t == 0 && tiles[k].corner.y as int % t == 0 && tiles[k].corner.x < w && tiles[k].corner.y < h
        && tiles[k].corner.x == (k / ny) * t && tiles[k].corner.y == (k % ny) * t by {
        assert(ny > 0) by (nonlinear_arith) requires nx * ny > 0, nx >= 0, ny >= 0;
        vstd::arithmetic::div_mod::lemma_fundamental_div_mod(k, ny);
        vstd::arithmetic::div_mod::lemma_mod_pos_bound(k, ny);
        let i = k / ny; let j = k % ny;
        assert(ny * i == i * ny) by (nonlinear_arith);
        assert(i >= 0) by (nonlinear_arith) requires k >= 0, k == i * ny + j, j < ny, ny > 0;
        assert(i < nx) by (nonlinear_arith) requires k < nx * ny, k == i * ny + j, j >= 0, ny > 0;
        assert(tiles[i * ny + j].corner.x == i * t);
        vstd::arithmetic::div_mod::lemma_mod_multiples_basic(i, t);
        vstd::arithmetic::div_mod::lemma_mod_multiples_basic(j, t);
        assert(i * t <= (nx - 1) * t) by (nonlinear_arith) requires 0 <= i <= nx - 1, t >= 1;
        assert(j * t <= (ny - 1) * t) by (nonlinear_arith) requires 0 <= j <= ny - 1, t >= 1;
    }
    assert forall|k1: int, k2: int| 0 <= k1 < k2 < tiles.len() implies (#[trigger] tiles[k1]).corner != (#[trigger] tiles[k2]).corner by {
        if tiles[k1].corner == tiles[k2].corner {
            assert(ny > 0) by (nonlinear_arith) requires nx * ny > 0, nx >= 0, ny >= 0;
            assert((k1 / ny) * t == (k2 / ny) * t && (k1 % ny) * t == (k2 % ny) * t);
            assert(k1 / ny == k2 / ny) by (nonlinear_arith) requires (k1 / ny) * t == (k2 / ny) * t, t >= 1;
            assert(k1 % ny == k2 % ny) by (nonlinear_arith) requires (k1 % ny) * t == (k2 % ny) * t, t >= 1;
            vstd::arithmetic::div_mod::lemma_fundamental_div_mod(k1, ny);
            vstd::arithmetic::div_mod::lemma_fundamental_div_mod(k2, ny);
        }
    }
    assert forall|x: int, y: int| 0 <= x < w && 0 <= y < h implies covers(tiles, t, x, y) by {
        vstd::arithmetic::div_mod::lemma_fundamental_div_mod(x, t);
        vstd::arithmetic::div_mod::lemma_fundamental_div_mod(y, t);
        vstd::arithmetic::div_mod::lemma_mod_pos_bound(x, t);
        vstd::arithmetic::div_mod::lemma_mod_pos_bound(y, t);
        let i = x / t; let j = y / t;
        assert(t * i == i * t && t * j == j * t) by (nonlinear_arith);
        assert(i >= 0 && j >= 0) by (nonlinear_arith) requires x >= 0, y >= 0, x == i * t + x % t, y == j * t + y % t, x % t < t, y % t < t, t >= 1;
        assert(i < nx) by (nonlinear_arith) requires i * t <= x, x < w, w <= nx * t, t >= 1;
        assert(j < ny) by (nonlinear_arith) requires j * t <= y, y < h, h <= ny * t, t >= 1;
        assert(0 <= i * ny + j < nx * ny) by (nonlinear_arith) requires 0 <= i < nx, 0 <= j < ny;
        assert(tiles[i * ny + j].corner.x == x - x % t);
    }
}
