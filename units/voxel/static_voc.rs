#[derive(Copy, Clone)]
pub struct VoxelSize { pub w: u32, pub h: u32, pub d: u32 }   // fidget_core::render::VoxelSize (RegionSize<3>: width, height, depth)

/// pixel number q of the tile (row-major within the tile) and its data offset
pub open spec fn qx(cx: int, n: int, q: int) -> int { cx + q % n }
pub open spec fn qy(cy: int, n: int, q: int) -> int { cy + q / n }
pub open spec fn qoff(t: int, cx: int, cy: int, n: int, q: int) -> int { off(t, qx(cx, n, q), qy(cy, n, q)) }
pub proof fn lemma_q(t: int, cx: int, cy: int, n: int, q: int)
    requires t > 0, n > 0, in_root(t, cx, cy, n), 0 <= q < n * n
    ensures in_tile(qx(cx, n, q), qy(cy, n, q), cx, cy, n), 0 <= qoff(t, cx, cy, n, q) < t * t, same_root(t, cx, cy, qx(cx, n, q), qy(cy, n, q)),
        0 <= q % n < n, 0 <= q / n < n, q == (q / n) * n + q % n
{
    vstd::arithmetic::div_mod::lemma_fundamental_div_mod(q, n);
    vstd::arithmetic::div_mod::lemma_mod_pos_bound(q, n);
    assert(n * (q / n) == (q / n) * n) by (nonlinear_arith);
    assert(q / n < n) by (nonlinear_arith) requires q < n * n, q == (q / n) * n + q % n, q % n >= 0, n > 0;
    assert(q / n >= 0) by (nonlinear_arith) requires q >= 0, q == (q / n) * n + q % n, q % n < n, n > 0;
    lemma_off(t, cx, cy, n, qx(cx, n, q), qy(cy, n, q));
}
pub proof fn lemma_q_inj(t: int, cx: int, cy: int, n: int, q1: int, q2: int)
    requires t > 0, n > 0, in_root(t, cx, cy, n), 0 <= q1 < n * n, 0 <= q2 < n * n, qoff(t, cx, cy, n, q1) == qoff(t, cx, cy, n, q2)
    ensures q1 == q2
{
    lemma_q(t, cx, cy, n, q1);
    lemma_q(t, cx, cy, n, q2);
    lemma_off_inj(t, cx, cy, qx(cx, n, q1), qy(cy, n, q1), qx(cx, n, q2), qy(cy, n, q2));
}
/// the pixel (ax, ay) of the tile is pixel number (ay - cy) * n + (ax - cx)
pub proof fn lemma_q_of(cx: int, cy: int, n: int, ax: int, ay: int)
    requires n > 0, in_tile(ax, ay, cx, cy, n)
    ensures ({ let q = (ay - cy) * n + (ax - cx); 0 <= q < n * n && qx(cx, n, q) == ax && qy(cy, n, q) == ay })
{
    lemma_divmod_idx(n, ay - cy, ax - cx);
    assert((ay - cy) * n + (ax - cx) < n * n) by (nonlinear_arith) requires 0 <= ay - cy < n, 0 <= ax - cx < n;
    assert((ay - cy) * n >= 0) by (nonlinear_arith) requires 0 <= ay - cy, n > 0;
}

/// R-chunks-find: `out.chunks(n)` advanced to chunk number `col`, then `.iter().enumerate().find(|(_, d)| **d < 0.0)`: the position of
/// the first negative sample of that chunk
pub fn find_neg(out: &[f32], col: usize, n: usize) -> (r: Option<usize>)
    requires (col + 1) * n <= out@.len(), n >= 1
    ensures r is Some ==> r->Some_0 < n && flt(out@[col * n + r->Some_0], 0.0f32) && forall|q: int| 0 <= q < r->Some_0 ==> !flt(#[trigger] out@[col * n + q], 0.0f32),
        r is None ==> forall|q: int| 0 <= q < n ==> !flt(#[trigger] out@[col * n + q], 0.0f32),
{
    let len_ = out.len();
    proof { assert((col + 1) * n == col * n + n) by (nonlinear_arith); assert(col * n >= 0) by (nonlinear_arith) requires col >= 0, n >= 0; assert(col * n + n <= len_); }
    let base = col * n;
    let mut i: usize = 0;
    while i < n
        invariant 0 <= i <= n, base == col * n, base + n <= out@.len(), out@.len() == len_, forall|q: int| 0 <= q < i ==> !flt(#[trigger] out@[col * n + q], 0.0f32),
        decreases n - i
    {
        let d = out[base + i];
        proof { ax_cmp(d, 0.0f32); }
        if d < 0.0 {
            return Some(i);
        }
        i += 1;
    }
    None
}


/// loop 1 of render_tile_pixels: the columns collected so far, and the samples written for them
pub open spec fn l1_inv(sc: Scratch, cmap: Seq<int>, xy: int, img0: Seq<GeometryPixel>, t: int, cx: int, cy: int, cz: int, n: int) -> bool {
    &&& sc.columns@.len() <= xy && cmap.len() == xy
    &&& forall|c: int| 0 <= c < sc.columns@.len() ==> 0 <= #[trigger] sc.columns@[c] < xy && cmap[sc.columns@[c] as int] == c
    &&& forall|c1: int, c2: int| 0 <= c1 < c2 < sc.columns@.len() ==> sc.columns@[c1] < sc.columns@[c2]
    &&& forall|q: int| 0 <= q < xy ==> (#[trigger] cmap[q] == -1 && img0[qoff(t, cx, cy, n, q)].depth >= cz + n + 1)
            || (0 <= cmap[q] < sc.columns@.len() && sc.columns@[cmap[q]] == q && img0[qoff(t, cx, cy, n, q)].depth == 0)
    &&& forall|c: int, k: int| 0 <= c < sc.columns@.len() && 0 <= k < n ==> {
            &&& #[trigger] sc.x@[c * n + k] == f_of(qx(cx, n, sc.columns@[c] as int) as usize)
            &&& sc.y@[c * n + k] == f_of(qy(cy, n, sc.columns@[c] as int) as usize)
            &&& sc.z@[c * n + k] == f_of((cz + n - 1 - k) as usize) }
}
/// what loop 1 leaves: the columns, strictly increasing pixel numbers of the empty pixels; every other pixel of the tile is at or above the slab's top
pub open spec fn cols_ok(cols: Seq<usize>, cmap: Seq<int>, img0: Seq<GeometryPixel>, t: int, cx: int, cy: int, cz: int, n: int) -> bool {
    &&& cmap.len() == n * n && cols.len() <= n * n
    &&& forall|c: int| 0 <= c < cols.len() ==> 0 <= #[trigger] cols[c] < n * n && cmap[cols[c] as int] == c && img0[qoff(t, cx, cy, n, cols[c] as int)].depth == 0
    &&& forall|c1: int, c2: int| 0 <= c1 < c2 < cols.len() ==> cols[c1] < cols[c2]
    &&& forall|q: int| 0 <= q < n * n ==> (#[trigger] cmap[q] == -1 && img0[qoff(t, cx, cy, n, q)].depth >= cz + n + 1) || (0 <= cmap[q] < cols.len() && cols[cmap[q]] == q)
}
/// loop 2: the gradient samples collected so far (pixel number gq, voxel gk), per looked-at column a hit or nothing, everything else untouched
pub open spec fn l2_inv(f: Fn_, sc: Scratch, img: Seq<GeometryPixel>, img0: Seq<GeometryPixel>, cols1: Seq<usize>, col: int, grad: int, hit: Seq<int>, gq: Seq<int>, gk: Seq<int>,
    t: int, cx: int, cy: int, cz: int, n: int) -> bool {
    &&& 0 <= grad <= col && hit.len() == col && gq.len() == grad && gk.len() == grad && sc.columns@.len() == cols1.len() && img.len() == img0.len()
    &&& forall|c: int| col <= c < cols1.len() ==> #[trigger] sc.columns@[c] == cols1[c]
    &&& forall|g: int| 0 <= g < grad ==> {
            &&& 0 <= #[trigger] gq[g] < n * n && cz <= gk[g] < cz + n
            &&& sc.columns@[g] == qoff(t, cx, cy, n, gq[g])
            &&& sc.xg@[g] == seed_x(f_of(qx(cx, n, gq[g]) as usize))
            &&& sc.yg@[g] == seed_y(f_of(qy(cy, n, gq[g]) as usize))
            &&& sc.zg@[g] == seed_z(f_of(gk[g] as usize))
            &&& img[qoff(t, cx, cy, n, gq[g])].depth == gk[g] + 1
            &&& img[qoff(t, cx, cy, n, gq[g])].normal == img0[qoff(t, cx, cy, n, gq[g])].normal
            &&& neg(f, qx(cx, n, gq[g]), qy(cy, n, gq[g]), gk[g])
            &&& forall|k: int| gk[g] < k < cz + n ==> !neg(f, qx(cx, n, gq[g]), qy(cy, n, gq[g]), k) }
    &&& forall|g1: int, g2: int| 0 <= g1 < g2 < grad ==> gq[g1] < gq[g2]
    &&& forall|c: int| 0 <= c < col ==> (#[trigger] hit[c] == -1 && img[qoff(t, cx, cy, n, cols1[c] as int)] == img0[qoff(t, cx, cy, n, cols1[c] as int)]
                && forall|k: int| cz <= k < cz + n ==> !neg(f, qx(cx, n, cols1[c] as int), qy(cy, n, cols1[c] as int), k))
            || (0 <= hit[c] < grad && gq[hit[c]] == cols1[c])
    &&& forall|o: int| 0 <= o < img0.len() && (forall|c: int| 0 <= c < col ==> o != qoff(t, cx, cy, n, #[trigger] cols1[c] as int)) ==> #[trigger] img[o] == img0[o]
}
/// loop 3: the normals of the first `done` gradient samples are set; depths and all other pixels are as loop 2 left them
pub open spec fn l3_inv(f: Fn_, img: Seq<GeometryPixel>, img2: Seq<GeometryPixel>, done: int, grad: int, gq: Seq<int>, gk: Seq<int>, t: int, cx: int, cy: int, n: int) -> bool {
    &&& img.len() == img2.len()
    &&& forall|g: int| 0 <= g < done ==> img[qoff(t, cx, cy, n, #[trigger] gq[g])].depth == img2[qoff(t, cx, cy, n, gq[g])].depth
            && nrm_is(img[qoff(t, cx, cy, n, gq[g])], gnorm(f, qx(cx, n, gq[g]), qy(cy, n, gq[g]), gk[g]))
    &&& forall|o: int| 0 <= o < img2.len() && (forall|g: int| 0 <= g < done ==> o != qoff(t, cx, cy, n, #[trigger] gq[g])) ==> #[trigger] img[o] == img2[o]
}

/// the state of the pixel at (ax, ay) while the slab [cz, cz + n) is being worked through from the top, everything at or above zl being done
pub open spec fn pv(f: Fn_, p0: GeometryPixel, p1: GeometryPixel, ax: int, ay: int, cz: int, n: int, zl: int) -> bool {
    &&& (p1 == p0
        || (p0.depth == 0 && zl + 1 <= p1.depth <= cz + n && neg(f, ax, ay, p1.depth - 1) && nrm_is(p1, gnorm(f, ax, ay, p1.depth - 1)))
        || (p0.depth == 0 && p1.depth == cz + n + 1 && neg(f, ax, ay, cz + n) && p1.normal == p0.normal))
    &&& forall|k: int| zl <= k < cz + n && #[trigger] neg(f, ax, ay, k) ==> p1.depth >= k + 1
}
pub proof fn lemma_pv_start(f: Fn_, p0: GeometryPixel, ax: int, ay: int, cz: int, n: int)
    ensures pv(f, p0, p0, ax, ay, cz, n, cz + n)
{ }
pub proof fn lemma_pv_end(f: Fn_, p0: GeometryPixel, p1: GeometryPixel, ax: int, ay: int, cz: int, n: int)
    ensures pv(f, p0, p1, ax, ay, cz, n, cz) == vox_ok(f, p0, p1, ax, ay, cz, n)
{ }
/// one sub-slab [sz, sz + m) below everything done so far
pub proof fn lemma_pv_step(f: Fn_, p0: GeometryPixel, pb: GeometryPixel, pa: GeometryPixel, ax: int, ay: int, cz: int, n: int, sz: int, m: int)
    requires pre_ok(p0, cz, n), cz <= sz, sz + m <= cz + n, m >= 1, pv(f, p0, pb, ax, ay, cz, n, sz + m), vox_ok(f, pb, pa, ax, ay, sz, m)
    ensures pv(f, p0, pa, ax, ay, cz, n, sz)
{
    if pa != pb {
        // the pixel was empty before the sub-slab, so nothing above it is inside
        assert(pb.depth == 0);
        assert(pb == p0);
        if pa.depth == sz + m + 1 && sz + m < cz + n {
            assert(neg(f, ax, ay, sz + m));
        }
    }
    assert forall|k: int| sz <= k < cz + n && #[trigger] neg(f, ax, ay, k) implies pa.depth >= k + 1 by {
        if k >= sz + m { assert(pb.depth >= k + 1); }
    }
}
/// what the sub-slab needs of the pixel
pub proof fn lemma_pv_pre(f: Fn_, p0: GeometryPixel, pb: GeometryPixel, ax: int, ay: int, cz: int, n: int, sz: int, m: int)
    requires pre_ok(p0, cz, n), cz <= sz, sz + m <= cz + n, pv(f, p0, pb, ax, ay, cz, n, sz + m)
    ensures pre_ok(pb, sz, m)
{ }
/// the simplified function g may stand for f on the tile's box
pub proof fn lemma_vox_transfer(g: Fn_, f: Fn_, p0: GeometryPixel, p1: GeometryPixel, ax: int, ay: int, cx: int, cy: int, cz: int, n: int, bx: Interval, by: Interval, bz: Interval)
    requires vox_ok(g, p0, p1, ax, ay, cz, n), in_tile(ax, ay, cx, cy, n), cx >= 0, cy >= 0, cz >= 0, n >= 1, cx + n <= 16777216, cy + n <= 16777216, cz + n <= 16777216,
        g != f ==> agree_on(g, f, bx, by, bz),
        bx.lower == f_of(cx as usize), bx.upper == f_of((cx + n) as usize), by.lower == f_of(cy as usize), by.upper == f_of((cy + n) as usize), bz.lower == f_of(cz as usize), bz.upper == f_of((cz + n) as usize),
    ensures vox_ok(f, p0, p1, ax, ay, cz, n)
{
    if g != f {
        ax_cast_mono(cx as usize, ax as usize); ax_cast_mono(ax as usize, (cx + n) as usize);
        ax_cast_mono(cy as usize, ay as usize); ax_cast_mono(ay as usize, (cy + n) as usize);
        assert forall|k: int| cz <= k <= cz + n implies #[trigger] neg(g, ax, ay, k) == neg(f, ax, ay, k) && gnorm(g, ax, ay, k) == gnorm(f, ax, ay, k) by {
            ax_cast_mono(cz as usize, k as usize); ax_cast_mono(k as usize, (cz + n) as usize);
            assert(mem(f_of(ax as usize), bx) && mem(f_of(ay as usize), by) && mem(f_of(k as usize), bz));
            assert(fval(g, f_of(ax as usize), f_of(ay as usize), f_of(k as usize)) == fval(f, f_of(ax as usize), f_of(ay as usize), f_of(k as usize)));
            assert(geval(g, seed_x(f_of(ax as usize)), seed_y(f_of(ay as usize)), seed_z(f_of(k as usize))) == geval(f, seed_x(f_of(ax as usize)), seed_y(f_of(ay as usize)), seed_z(f_of(k as usize))));
        }
        if p1 != p0 {
            if p1.depth == cz + n + 1 { assert(neg(g, ax, ay, cz + n) == neg(f, ax, ay, cz + n)); }
            else { assert(neg(g, ax, ay, p1.depth - 1) == neg(f, ax, ay, p1.depth - 1)); }
        }
        assert forall|k: int| cz <= k < cz + n && #[trigger] neg(f, ax, ay, k) implies p1.depth >= k + 1 by { assert(neg(g, ax, ay, k)); }
    }
}

/// a voxel of the slab (or of the voxel row just above it) is a point of the tile's box
pub proof fn lemma_in_box(cx: int, cy: int, cz: int, n: int, ax: int, ay: int, k: int, bx: Interval, by: Interval, bz: Interval)
    requires in_tile(ax, ay, cx, cy, n), cz <= k <= cz + n, cx >= 0, cy >= 0, cz >= 0, n >= 1, cx + n <= 16777216, cy + n <= 16777216, cz + n <= 16777216,
        bx.lower == f_of(cx as usize), bx.upper == f_of((cx + n) as usize), by.lower == f_of(cy as usize), by.upper == f_of((cy + n) as usize), bz.lower == f_of(cz as usize), bz.upper == f_of((cz + n) as usize),
    ensures mem(f_of(ax as usize), bx), mem(f_of(ay as usize), by), mem(f_of(k as usize), bz)
{
    ax_cast_mono(cx as usize, ax as usize); ax_cast_mono(ax as usize, (cx + n) as usize);
    ax_cast_mono(cy as usize, ay as usize); ax_cast_mono(ay as usize, (cy + n) as usize);
    ax_cast_mono(cz as usize, k as usize); ax_cast_mono(k as usize, (cz + n) as usize);
}


pub uninterp spec fn px_default() -> GeometryPixel;
/// `#[derive(Default)]` of GeometryPixel: depth 0 (and a zero normal)
pub proof fn ax_px_default() ensures px_default().depth == 0 { admit(); }
impl Image {
    /// Image::new(size) of fidget-raster/src/lib.rs (proved in unit raster): width * height default pixels
    #[verifier::external_body]
    pub fn new(size: VoxelSize) -> (r: Image)
        requires size.w * size.h <= usize::MAX
        ensures r.data@.len() == size.w * size.h, forall|i: int| 0 <= i < r.data@.len() ==> #[trigger] r.data@[i] == px_default()
    { unimplemented!() }
}
/// R-from: `RenderSize::from(v)` (`From<u32> for RegionSize<N>`: every dimension is v)
pub fn voxel_size_from(v: u32) -> (r: VoxelSize) ensures r.w == v, r.h == v, r.d == v { VoxelSize { w: v, h: v, d: v } }
/// R-divceil: `a.div_ceil(b)` (panics for b == 0)
pub fn div_ceil_u32(a: u32, b: u32) -> (r: u32)
    requires b > 0
    ensures r * b >= a, ((r - 1) * b < (a as int)) || (a == 0 && r == 0), r <= a
{
    let q = a / b;
    let m = a % b;
    proof {
        vstd::arithmetic::div_mod::lemma_fundamental_div_mod(a as int, b as int);
        assert(b * q == q * b) by (nonlinear_arith);
        assert(q <= a) by (nonlinear_arith) requires a == q * b + m, b >= 1, m >= 0, q >= 0;
        assert((q + 1) * b == q * b + b) by (nonlinear_arith);
        assert((q - 1) * b == q * b - b) by (nonlinear_arith);
        if m > 0 { assert(q < a) by (nonlinear_arith) requires a == q * b + m, b >= 1, m > 0, q >= 0; }
    }
    if m > 0 { q + 1 } else { q }
}
/// R-memtake: `std::mem::take(&mut self.out)`
#[verifier::external_body]
pub fn take_image(img: &mut Image) -> (r: Image) ensures r == *old(img) { std::mem::take(img) }
impl Default for Image { #[verifier::external_body] fn default() -> Self { Image { data: Vec::new() } } }


/// number of root-tile slabs that cover the depth d
pub open spec fn zslabs(d: int, t: int) -> int { if d % t == 0 { d / t } else { d / t + 1 } }
pub proof fn lemma_zslabs(d: int, t: int, k: int)
    requires d >= 0, t >= 1, k * t >= d, (k - 1) * t < d || (d == 0 && k == 0)
    ensures k == zslabs(d, t), k >= 0
{
    vstd::arithmetic::div_mod::lemma_fundamental_div_mod(d, t);
    vstd::arithmetic::div_mod::lemma_mod_pos_bound(d, t);
    let q = d / t;
    assert(t * q == q * t) by (nonlinear_arith);
    if d % t == 0 {
        assert(k >= q) by (nonlinear_arith) requires k * t >= q * t, t >= 1;
        if d > 0 { assert(k - 1 < q) by (nonlinear_arith) requires (k - 1) * t < q * t, t >= 1; }
        else { assert(q == 0) by (nonlinear_arith) requires q * t == 0, t >= 1; }
    } else {
        assert(k > q) by (nonlinear_arith) requires k * t >= q * t + d % t, d % t > 0, t >= 1;
        assert(k - 1 <= q) by (nonlinear_arith) requires (k - 1) * t < q * t + d % t, d % t < t, t >= 1;
    }
}

// ---------- Worker::new / Scratch::new
/// R-vecmacro: `vec![v; n]`
#[verifier::external_body]
pub fn vec_f32(v: f32, n: usize) -> (r: Vec<f32>) ensures r@.len() == n { vec![v; n] }
#[verifier::external_body]
pub fn vec_grad(v: Grad, n: usize) -> (r: Vec<Grad>) ensures r@.len() == n { vec![v; n] }
#[verifier::external_body]
pub fn vec_usize(v: usize, n: usize) -> (r: Vec<usize>) ensures r@.len() == n { vec![v; n] }
/// R-from: `Grad::from(c)` (From<f32> for Grad: the constant with zero derivatives)
pub fn grad_from(c: f32) -> (r: Grad) ensures r == (Grad { v: c, dx: 0.0f32, dy: 0.0f32, dz: 0.0f32 }) { Grad { v: c, dx: 0.0, dy: 0.0, dz: 0.0 } }
