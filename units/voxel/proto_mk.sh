#!/bin/bash
# usage: mk.sh <worker-file> [verus args]
W=$1; shift
{ echo 'use vstd::prelude::*;
use vstd::std_specs::cmp::*;
use core::cmp::Ordering;
verus! {
global size_of usize == 8;'; cat pre.rs; cat $W; echo '} // verus!
fn main() {}'; } > vox.rs
verus vox.rs --edition=2024 "$@" 2>&1 | grep -v "^WARNING conda" 
