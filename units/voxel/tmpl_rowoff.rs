    fn tile_row_offset(&self, tile: Tile<3>, row: usize) -> (r: usize)
/*G*/        requires self.tile_sizes.0@.len() >= 1, self.tile_sizes.0@[0] >= 1, self.tile_sizes.0@[0] * self.tile_sizes.0@[0] <= usize::MAX, tile.corner.y + row <= usize::MAX,
/*G*/        ensures r == off(self.tile_sizes.0@[0] as int, tile.corner.x as int, tile.corner.y + row)
    {
        self.tile_sizes.pixel_offset(tile.add(Vector2::new(0, row)))
    }