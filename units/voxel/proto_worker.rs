// ---------- tiles
#[derive(Copy, Clone)]
pub struct Tile<const N: usize> {
    pub corner: Point3<usize>,   // R-opoint
}
impl<const N: usize> Tile<N> {
    fn new(corner: Point3<usize>) -> (r: Tile<N>)
        ensures r.corner == corner
    {
        Tile { corner }
    }
    fn add(&self, pos: Vector2<usize>) -> (r: Point2<usize>)
        requires self.corner.x + pos.x <= usize::MAX, self.corner.y + pos.y <= usize::MAX
        ensures r.x == self.corner.x + pos.x, r.y == self.corner.y + pos.y
    {
        let corner = Point2::new(self.corner.x, self.corner.y);
        pt_add(corner, pos)   // R-opcall
    }
}
#[derive(Copy, Clone)]
pub struct TileSizesRef<'a>(pub &'a [usize]);
impl<'a> TileSizesRef<'a> {
    pub open spec fn wf(&self) -> bool { sizes_wf(self.0@) }
    fn index(&self, i: usize) -> (r: &usize)
        requires i < self.0@.len()
        ensures *r == self.0@[i as int]
    {
        &self.0[i]
    }
    fn get(&self, i: usize) -> (r: Option<usize>)
        ensures i < self.0@.len() ==> r == Some(self.0@[i as int]), i >= self.0@.len() ==> r is None
    {
        if i < self.0.len() { Some(self.0[i]) } else { None }   // R-get-copied
    }
    fn pixel_offset(&self, pos: Point2<usize>) -> (r: usize)
        requires self.0@.len() >= 1, self.0@[0] >= 1, self.0@[0] * self.0@[0] <= usize::MAX
        ensures r == (pos.x % self.0@[0]) + (pos.y % self.0@[0]) * self.0@[0]
    {
        let x = pos.x % self.0[0];
        let y = pos.y % self.0[0];
        proof { assert(y * self.0@[0] <= (self.0@[0] - 1) * self.0@[0]) by (nonlinear_arith) requires 0 <= y < self.0@[0]; assert((self.0@[0] - 1) * self.0@[0] + self.0@[0] == self.0@[0] * self.0@[0]) by (nonlinear_arith); }
        x + y * self.0[0]
    }
}

pub struct Scratch {
    pub x: Vec<f32>,
    pub y: Vec<f32>,
    pub z: Vec<f32>,

    pub xg: Vec<Grad>,
    pub yg: Vec<Grad>,
    pub zg: Vec<Grad>,

    /// Depth of each column
    pub columns: Vec<usize>,
}

pub struct Worker<'a, F: Function> {
    pub tile_sizes: TileSizesRef<'a>,
    pub vars: &'a ShapeVars<f32>,

    pub transform: Matrix4<f32>,
    pub image_size: VoxelSize,

    /// Reusable workspace for evaluation, to minimize allocation
    pub scratch: Scratch,

    pub eval_float_slice: ShapeBulkEval<F::FloatSliceEval>,
    pub eval_grad_slice: ShapeBulkEval<F::GradSliceEval>,
    pub eval_interval: ShapeTracingEval<F::IntervalEval>,

    pub tape_storage: Vec<F::TapeStorage>,
    pub shape_storage: Vec<F::Storage>,
    pub workspace: F::Workspace,

    /// Output images for this specific tile
    pub out: Image,
}
#[derive(Copy, Clone)]
pub struct VoxelSize { pub w: u32, pub h: u32, pub d: u32 }

/// pixel number q of the tile (row-major within the tile) and its data offset
pub open spec fn qx(cx: int, n: int, q: int) -> int { cx + q % n }
pub open spec fn qy(cy: int, n: int, q: int) -> int { cy + q / n }
pub open spec fn qoff(t: int, cx: int, cy: int, n: int, q: int) -> int { off(t, qx(cx, n, q), qy(cy, n, q)) }
pub proof fn lemma_q(t: int, cx: int, cy: int, n: int, q: int)
    requires t > 0, n > 0, in_root(t, cx, cy, n), 0 <= q < n * n
    ensures in_tile(qx(cx, n, q), qy(cy, n, q), cx, cy, n), 0 <= qoff(t, cx, cy, n, q) < t * t, same_root(t, cx, cy, qx(cx, n, q), qy(cy, n, q)),
        0 <= q % n < n, 0 <= q / n < n, q == (q / n) * n + q % n
{
    vstd::arithmetic::div_mod::lemma_fundamental_div_mod(q, n);
    vstd::arithmetic::div_mod::lemma_mod_pos_bound(q, n);
    assert(n * (q / n) == (q / n) * n) by (nonlinear_arith);
    assert(q / n < n) by (nonlinear_arith) requires q < n * n, q == (q / n) * n + q % n, q % n >= 0, n > 0;
    assert(q / n >= 0) by (nonlinear_arith) requires q >= 0, q == (q / n) * n + q % n, q % n < n, n > 0;
    lemma_off(t, cx, cy, n, qx(cx, n, q), qy(cy, n, q));
}
pub proof fn lemma_q_inj(t: int, cx: int, cy: int, n: int, q1: int, q2: int)
    requires t > 0, n > 0, in_root(t, cx, cy, n), 0 <= q1 < n * n, 0 <= q2 < n * n, qoff(t, cx, cy, n, q1) == qoff(t, cx, cy, n, q2)
    ensures q1 == q2
{
    lemma_q(t, cx, cy, n, q1);
    lemma_q(t, cx, cy, n, q2);
    lemma_off_inj(t, cx, cy, qx(cx, n, q1), qy(cy, n, q1), qx(cx, n, q2), qy(cy, n, q2));
}
/// the pixel (ax, ay) of the tile is pixel number (ay - cy) * n + (ax - cx)
pub proof fn lemma_q_of(cx: int, cy: int, n: int, ax: int, ay: int)
    requires n > 0, in_tile(ax, ay, cx, cy, n)
    ensures ({ let q = (ay - cy) * n + (ax - cx); 0 <= q < n * n && qx(cx, n, q) == ax && qy(cy, n, q) == ay })
{
    lemma_divmod_idx(n, ay - cy, ax - cx);
    assert((ay - cy) * n + (ax - cx) < n * n) by (nonlinear_arith) requires 0 <= ay - cy < n, 0 <= ax - cx < n;
    assert((ay - cy) * n >= 0) by (nonlinear_arith) requires 0 <= ay - cy, n > 0;
}

/// R-chunks-find: `out.chunks(n)` advanced to chunk number `col`, then `.iter().enumerate().find(|(_, d)| **d < 0.0)`: the position of
/// the first negative sample of that chunk
pub fn find_neg(out: &[f32], col: usize, n: usize) -> (r: Option<usize>)
    requires (col + 1) * n <= out@.len(), n >= 1
    ensures r is Some ==> r->Some_0 < n && flt(out@[col * n + r->Some_0], 0.0f32) && forall|q: int| 0 <= q < r->Some_0 ==> !flt(#[trigger] out@[col * n + q], 0.0f32),
        r is None ==> forall|q: int| 0 <= q < n ==> !flt(#[trigger] out@[col * n + q], 0.0f32),
{
    proof { assert((col + 1) * n == col * n + n) by (nonlinear_arith); }
    let base = col * n;
    let mut i: usize = 0;
    while i < n
        invariant 0 <= i <= n, base == col * n, base + n <= out@.len(), forall|q: int| 0 <= q < i ==> !flt(#[trigger] out@[col * n + q], 0.0f32),
        decreases n - i
    {
        let d = out[base + i];
        proof { ax_cmp(d, 0.0f32); }
        if d < 0.0 {
            return Some(i);
        }
        i += 1;
    }
    None
}


/// loop 1 of render_tile_pixels: the columns collected so far, and the samples written for them
pub open spec fn l1_inv(sc: Scratch, cmap: Seq<int>, xy: int, img0: Seq<GeometryPixel>, t: int, cx: int, cy: int, cz: int, n: int) -> bool {
    &&& sc.columns@.len() <= xy && cmap.len() == xy
    &&& forall|c: int| 0 <= c < sc.columns@.len() ==> 0 <= #[trigger] sc.columns@[c] < xy && cmap[sc.columns@[c] as int] == c
    &&& forall|c1: int, c2: int| 0 <= c1 < c2 < sc.columns@.len() ==> sc.columns@[c1] < sc.columns@[c2]
    &&& forall|q: int| 0 <= q < xy ==> (#[trigger] cmap[q] == -1 && img0[qoff(t, cx, cy, n, q)].depth >= cz + n)
            || (0 <= cmap[q] < sc.columns@.len() && sc.columns@[cmap[q]] == q && img0[qoff(t, cx, cy, n, q)].depth < cz + n)
    &&& forall|c: int, k: int| 0 <= c < sc.columns@.len() && 0 <= k < n ==> {
            &&& #[trigger] sc.x@[c * n + k] == f_of(qx(cx, n, sc.columns@[c] as int) as usize)
            &&& sc.y@[c * n + k] == f_of(qy(cy, n, sc.columns@[c] as int) as usize)
            &&& sc.z@[c * n + k] == f_of((cz + n - 1 - k) as usize) }
}
/// what loop 1 leaves: the columns, strictly increasing pixel numbers of the empty pixels; every other pixel of the tile is at or above the slab's top
pub open spec fn cols_ok(cols: Seq<usize>, cmap: Seq<int>, img0: Seq<GeometryPixel>, t: int, cx: int, cy: int, cz: int, n: int) -> bool {
    &&& cmap.len() == n * n && cols.len() <= n * n
    &&& forall|c: int| 0 <= c < cols.len() ==> 0 <= #[trigger] cols[c] < n * n && cmap[cols[c] as int] == c && img0[qoff(t, cx, cy, n, cols[c] as int)].depth == 0
    &&& forall|c1: int, c2: int| 0 <= c1 < c2 < cols.len() ==> cols[c1] < cols[c2]
    &&& forall|q: int| 0 <= q < n * n ==> (#[trigger] cmap[q] == -1 && img0[qoff(t, cx, cy, n, q)].depth >= cz + n) || (0 <= cmap[q] < cols.len() && cols[cmap[q]] == q)
}
/// loop 2: the gradient samples collected so far (pixel number gq, voxel gk), per looked-at column a hit or nothing, everything else untouched
pub open spec fn l2_inv(f: Fn_, sc: Scratch, img: Seq<GeometryPixel>, img0: Seq<GeometryPixel>, cols1: Seq<usize>, col: int, grad: int, hit: Seq<int>, gq: Seq<int>, gk: Seq<int>,
    t: int, cx: int, cy: int, cz: int, n: int) -> bool {
    &&& 0 <= grad <= col && hit.len() == col && gq.len() == grad && gk.len() == grad && sc.columns@.len() == cols1.len() && img.len() == img0.len()
    &&& forall|c: int| col <= c < cols1.len() ==> #[trigger] sc.columns@[c] == cols1[c]
    &&& forall|g: int| 0 <= g < grad ==> {
            &&& 0 <= #[trigger] gq[g] < n * n && cz <= gk[g] < cz + n
            &&& sc.columns@[g] == qoff(t, cx, cy, n, gq[g])
            &&& sc.xg@[g] == seed_x(f_of(qx(cx, n, gq[g]) as usize))
            &&& sc.yg@[g] == seed_y(f_of(qy(cy, n, gq[g]) as usize))
            &&& sc.zg@[g] == seed_z(f_of(gk[g] as usize))
            &&& img[qoff(t, cx, cy, n, gq[g])].depth == gk[g] + 1
            &&& img[qoff(t, cx, cy, n, gq[g])].normal == img0[qoff(t, cx, cy, n, gq[g])].normal
            &&& neg(f, qx(cx, n, gq[g]), qy(cy, n, gq[g]), gk[g])
            &&& forall|k: int| gk[g] < k < cz + n ==> !neg(f, qx(cx, n, gq[g]), qy(cy, n, gq[g]), k) }
    &&& forall|g1: int, g2: int| 0 <= g1 < g2 < grad ==> gq[g1] < gq[g2]
    &&& forall|c: int| 0 <= c < col ==> (#[trigger] hit[c] == -1 && img[qoff(t, cx, cy, n, cols1[c] as int)] == img0[qoff(t, cx, cy, n, cols1[c] as int)]
                && forall|k: int| cz <= k < cz + n ==> !neg(f, qx(cx, n, cols1[c] as int), qy(cy, n, cols1[c] as int), k))
            || (0 <= hit[c] < grad && gq[hit[c]] == cols1[c])
    &&& forall|o: int| 0 <= o < img0.len() && (forall|c: int| 0 <= c < col ==> o != qoff(t, cx, cy, n, #[trigger] cols1[c] as int)) ==> #[trigger] img[o] == img0[o]
}
/// loop 3: the normals of the first `done` gradient samples are set; depths and all other pixels are as loop 2 left them
pub open spec fn l3_inv(f: Fn_, img: Seq<GeometryPixel>, img2: Seq<GeometryPixel>, done: int, grad: int, gq: Seq<int>, gk: Seq<int>, t: int, cx: int, cy: int, n: int) -> bool {
    &&& img.len() == img2.len()
    &&& forall|g: int| 0 <= g < done ==> img[qoff(t, cx, cy, n, #[trigger] gq[g])].depth == img2[qoff(t, cx, cy, n, gq[g])].depth
            && nrm_is(img[qoff(t, cx, cy, n, gq[g])], gnorm(f, qx(cx, n, gq[g]), qy(cy, n, gq[g]), gk[g]))
    &&& forall|o: int| 0 <= o < img2.len() && (forall|g: int| 0 <= g < done ==> o != qoff(t, cx, cy, n, #[trigger] gq[g])) ==> #[trigger] img[o] == img2[o]
}
impl<F: Function> Worker<'_, F> {
    fn render_tile_pixels(
        &mut self,
        shape: &mut RenderHandle<F>,
        tile_size: usize,
        tile: Tile<3>,
    )
        requires wwf(old(self)), tile_size == last_size(old(self)),
            in_root(t0(old(self)), tile.corner.x as int, tile.corner.y as int, tile_size as int),
            tile.corner.x + tile_size <= 16777216, tile.corner.y + tile_size <= 16777216, tile.corner.z + tile_size <= 16777216,
            tile_pre(old(self).out.data@, t0(old(self)), tile.corner.x as int, tile.corner.y as int, tile.corner.z as int, tile_size as int),
            // some pixel of the tile is still empty (the caller's early exit did not fire)
            exists|ax: int, ay: int| in_tile(ax, ay, tile.corner.x as int, tile.corner.y as int, tile_size as int) && #[trigger] old(self).out.data@[off(t0(old(self)), ax, ay)].depth == 0,
        ensures wwf(final(self)), final(self).tile_sizes == old(self).tile_sizes, final(self).image_size == old(self).image_size,
            final(shape).f() == old(shape).f(),
            tile_ok(old(shape).f(), old(self).out.data@, final(self).out.data@, t0(old(self)), tile.corner.x as int, tile.corner.y as int, tile.corner.z as int, tile_size as int),
            frame(old(self).out.data@, final(self).out.data@, t0(old(self)), tile.corner.x as int, tile.corner.y as int, tile_size as int),
    {
        // Prepare for pixel-by-pixel evaluation
        let mut index = 0;
        let ghost n_ = tile_size as int;
        let ghost t_ = t0(old(self));
        let ghost cx_ = tile.corner.x as int;
        let ghost cy_ = tile.corner.y as int;
        let ghost cz_ = tile.corner.z as int;
        let ghost img0_ = old(self).out.data@;
        let ghost f_ = shape.f();
        proof {
            let l_ = self.tile_sizes.0@.len() - 1;
            assert(self.tile_sizes.0@[l_] >= 1);
            lemma_sizes_desc(self.tile_sizes.0@, 0, l_);
            assert(n_ * n_ <= 16777216) by (nonlinear_arith) requires 1 <= n_ <= t_, t_ * t_ <= 16777216;
            assert(n_ <= 4096) by (nonlinear_arith) requires 1 <= n_, n_ * n_ <= 16777216;
            assert(n_ * n_ * n_ <= 68719476736) by (nonlinear_arith) requires 1 <= n_ <= 4096;
            assert(0 * n_ == 0);
        }
        assert!(self.scratch.x.len() >= pow3(tile_size));
        assert!(self.scratch.y.len() >= pow3(tile_size));
        assert!(self.scratch.z.len() >= pow3(tile_size));
        self.scratch.columns.clear();
        let ghost cmap_: Seq<int> = Seq::empty();
        for xy in 0..pow2(tile_size)
            invariant img0_ == old(self).out.data@, n_ == tile_size, n_ >= 1, n_ * n_ <= 16777216, n_ * n_ * n_ <= 68719476736, wwf(self), self.tile_sizes == old(self).tile_sizes, self.image_size == old(self).image_size, self.out == old(self).out, t_ == t0(self),
                cx_ == tile.corner.x, cy_ == tile.corner.y, cz_ == tile.corner.z, in_root(t_, cx_, cy_, n_), cx_ + n_ <= 16777216, cy_ + n_ <= 16777216, cz_ + n_ <= 16777216,
                n_ == last_size(self), index == self.scratch.columns@.len() * n_,
                l1_inv(self.scratch, cmap_, xy as int, img0_, t_, cx_, cy_, cz_, n_),
        {
            let i = xy % tile_size;
            let j = xy / tile_size;
            proof { lemma_q(t_, cx_, cy_, n_, xy as int); }

            let o = self.tile_sizes.pixel_offset(tile.add(Vector2::new(i, j)));

            // Skip pixels which are behind the image
            let zmax = to_u32(tile.corner.z + tile_size);
            proof { assert(o == qoff(t_, cx_, cy_, n_, xy as int)); }
            if !(self.out.data[o].depth >= zmax) {   // R-continue
                let ghost nc_ = self.scratch.columns@.len() as int;
                let ghost sc0_ = self.scratch;
                proof {
                    assert((nc_ + 1) * n_ <= n_ * n_ * n_) by (nonlinear_arith) requires nc_ + 1 <= n_ * n_, n_ >= 1;
                    assert((nc_ + 1) * n_ == nc_ * n_ + n_) by (nonlinear_arith);
                }
                let mut k_ = tile_size;   // R-revrange
                while k_ > 0
                    invariant 0 <= k_ <= n_, n_ == tile_size, index == nc_ * n_ + (n_ - k_), nc_ * n_ + n_ <= n_ * n_ * n_, n_ * n_ * n_ <= 68719476736, nc_ >= 0,
                        wwf(self), self.tile_sizes == old(self).tile_sizes, self.image_size == old(self).image_size, self.out == old(self).out, n_ == last_size(self), t_ == t0(self),
                        cx_ == tile.corner.x, cy_ == tile.corner.y, cz_ == tile.corner.z, cx_ + n_ <= 16777216, cy_ + n_ <= 16777216, cz_ + n_ <= 16777216,
                        i == xy % tile_size, j == xy / tile_size, i < n_, j < n_,
                        self.scratch.columns == sc0_.columns, self.scratch.xg == sc0_.xg, self.scratch.yg == sc0_.yg, self.scratch.zg == sc0_.zg,
                        forall|p: int| 0 <= p < nc_ * n_ ==> #[trigger] self.scratch.x@[p] == sc0_.x@[p] && self.scratch.y@[p] == sc0_.y@[p] && self.scratch.z@[p] == sc0_.z@[p],
                        forall|k: int| 0 <= k < n_ - k_ ==> {
                            &&& #[trigger] self.scratch.x@[nc_ * n_ + k] == f_of((cx_ + i) as usize)
                            &&& self.scratch.y@[nc_ * n_ + k] == f_of((cy_ + j) as usize)
                            &&& self.scratch.z@[nc_ * n_ + k] == f_of((cz_ + n_ - 1 - k) as usize) },
                    decreases k_
                {
                    k_ -= 1;
                    let k = k_;
                    // R-unchecked: `*v.get_unchecked_mut(index) = e` is `v[index] = e` (the bounds check becomes an obligation)
                    self.scratch.x[index] = cast_f32(tile.corner.x + i);
                    self.scratch.y[index] = cast_f32(tile.corner.y + j);
                    self.scratch.z[index] = cast_f32(tile.corner.z + k);
                    index += 1;
                }
                self.scratch.columns.push(xy);
                proof {
                    cmap_ = cmap_.push(nc_);
                    let sc = self.scratch;
                    assert forall|c: int, k: int| 0 <= c < sc.columns@.len() && 0 <= k < n_ implies {
                        &&& #[trigger] sc.x@[c * n_ + k] == f_of(qx(cx_, n_, sc.columns@[c] as int) as usize)
                        &&& sc.y@[c * n_ + k] == f_of(qy(cy_, n_, sc.columns@[c] as int) as usize)
                        &&& sc.z@[c * n_ + k] == f_of((cz_ + n_ - 1 - k) as usize) } by {
                        if c < nc_ {
                            assert(sc.columns@[c] == sc0_.columns@[c]);
                            assert(c * n_ + k < nc_ * n_) by (nonlinear_arith) requires 0 <= c < nc_, 0 <= k < n_;
                            assert(c * n_ + k >= 0) by (nonlinear_arith) requires 0 <= c, 0 <= k, n_ >= 1;
                            assert(sc0_.x@[c * n_ + k] == f_of(qx(cx_, n_, sc0_.columns@[c] as int) as usize));
                        } else {
                            assert(c == nc_);
                            assert(sc.columns@[c] == xy);
                            assert(sc.x@[nc_ * n_ + k] == f_of((cx_ + i) as usize));
                        }
                    }
                    assert forall|q: int| 0 <= q < xy + 1 implies (#[trigger] cmap_[q] == -1 && img0_[qoff(t_, cx_, cy_, n_, q)].depth >= cz_ + n_)
                        || (0 <= cmap_[q] < sc.columns@.len() && sc.columns@[cmap_[q]] == q && img0_[qoff(t_, cx_, cy_, n_, q)].depth < cz_ + n_) by {
                        if q < xy { assert(cmap_[q] == cmap_.drop_last()[q]); if cmap_[q] != -1 { assert(sc.columns@[cmap_[q]] == sc0_.columns@[cmap_[q]]); } }
                    }
                    assert forall|c: int| 0 <= c < sc.columns@.len() implies 0 <= #[trigger] sc.columns@[c] < xy + 1 && cmap_[sc.columns@[c] as int] == c by {
                        if c < nc_ { assert(sc.columns@[c] == sc0_.columns@[c]); }
                    }
                    assert forall|c1: int, c2: int| 0 <= c1 < c2 < sc.columns@.len() implies sc.columns@[c1] < sc.columns@[c2] by {
                        assert(sc.columns@[c1] == sc0_.columns@[c1]);
                        if c2 < nc_ { assert(sc.columns@[c2] == sc0_.columns@[c2]); }
                    }
                    assert((nc_ + 1) * n_ == nc_ * n_ + n_) by (nonlinear_arith);
                }
            } else {
                proof {
                    cmap_ = cmap_.push(-1);
                    assert forall|q: int| 0 <= q < xy + 1 implies (#[trigger] cmap_[q] == -1 && img0_[qoff(t_, cx_, cy_, n_, q)].depth >= cz_ + n_)
                        || (0 <= cmap_[q] < self.scratch.columns@.len() && self.scratch.columns@[cmap_[q]] == q && img0_[qoff(t_, cx_, cy_, n_, q)].depth < cz_ + n_) by {
                        if q < xy { assert(cmap_[q] == cmap_.drop_last()[q]); }
                    }
                }
            }
        }
        let size = index;
        let ghost cols1_ = self.scratch.columns@;
        let ghost nc_ = cols1_.len() as int;
        proof {
            assert forall|c: int| 0 <= c < nc_ implies 0 <= #[trigger] cols1_[c] < n_ * n_ && cmap_[cols1_[c] as int] == c && img0_[qoff(t_, cx_, cy_, n_, cols1_[c] as int)].depth == 0 by {
                let q = cols1_[c] as int;
                lemma_q(t_, cx_, cy_, n_, q);
                assert(cmap_[q] == c);
                assert(pre_ok(img0_[off(t_, qx(cx_, n_, q), qy(cy_, n_, q))], cz_, n_));
            }
            assert(cols_ok(cols1_, cmap_, img0_, t_, cx_, cy_, cz_, n_));
            // some pixel is empty, so some column was collected
            let (ax, ay) = choose|ax: int, ay: int| in_tile(ax, ay, cx_, cy_, n_) && #[trigger] img0_[off(t_, ax, ay)].depth == 0;
            lemma_q_of(cx_, cy_, n_, ax, ay);
            let q = (ay - cy_) * n_ + (ax - cx_);
            assert(cmap_[q] != -1);
            assert(nc_ >= 1);
            assert(nc_ * n_ >= 1) by (nonlinear_arith) requires nc_ >= 1, n_ >= 1;
            assert(nc_ * n_ <= n_ * n_ * n_) by (nonlinear_arith) requires nc_ <= n_ * n_, n_ >= 1;
        }
        assert!(size > 0);

        let out = self
            .eval_float_slice
            .eval_with_transform_and_vars(
                shape.f_tape(&mut self.tape_storage),
                prefix(&self.scratch.x, index),
                prefix(&self.scratch.y, index),
                prefix(&self.scratch.z, index),
                &self.transform,
                self.vars,
            )
            .unwrap();
        proof {
            assert forall|c: int, k: int| 0 <= c < nc_ && 0 <= k < n_ implies #[trigger] out@[c * n_ + k] == fval(f_, f_of(qx(cx_, n_, cols1_[c] as int) as usize), f_of(qy(cy_, n_, cols1_[c] as int) as usize), f_of((cz_ + n_ - 1 - k) as usize)) by {
                assert(c * n_ + k < nc_ * n_) by (nonlinear_arith) requires 0 <= c < nc_, 0 <= k < n_;
                assert(c * n_ + k >= 0) by (nonlinear_arith) requires 0 <= c, 0 <= k, n_ >= 1;
                let p = c * n_ + k;
                assert(self.scratch.x@.subrange(0, index as int)[p] == self.scratch.x@[p]);
                assert(self.scratch.y@.subrange(0, index as int)[p] == self.scratch.y@[p]);
                assert(self.scratch.z@.subrange(0, index as int)[p] == self.scratch.z@[p]);
                assert(self.scratch.x@[c * n_ + k] == f_of(qx(cx_, n_, self.scratch.columns@[c] as int) as usize));
            }
        }

        // We're iterating over a few things simultaneously
        // - col refers to the xy position in the tile
        // - grad refers to points that we must do gradient evaluation on
        let mut grad = 0;
        let ghost hit_: Seq<int> = Seq::empty();    // per column: -1, or the number of its gradient sample
        let ghost gq_: Seq<int> = Seq::empty();     // per gradient sample: the pixel number
        let ghost gk_: Seq<int> = Seq::empty();     // per gradient sample: the voxel's z index
        for col in iter_: 0..self.scratch.columns.len()
            invariant iter_.iter.end == nc_, n_ == tile_size, n_ >= 1, n_ * n_ <= 16777216, wwf_parts(self.tile_sizes, self.out, self.scratch), self.tile_sizes == old(self).tile_sizes, self.image_size == old(self).image_size, t_ == self.tile_sizes.0@[0], n_ == ts_last(self.tile_sizes),
                cx_ == tile.corner.x, cy_ == tile.corner.y, cz_ == tile.corner.z, in_root(t_, cx_, cy_, n_), cx_ + n_ <= 16777216, cy_ + n_ <= 16777216, cz_ + n_ <= 16777216,
                nc_ == cols1_.len(), out@.len() == nc_ * n_, img0_.len() == t_ * t_, f_ == shape.f(), f_ == old(shape).f(), img0_ == old(self).out.data@,
                cols_ok(cols1_, cmap_, img0_, t_, cx_, cy_, cz_, n_),
                forall|c: int, k: int| 0 <= c < nc_ && 0 <= k < n_ ==> #[trigger] out@[c * n_ + k] == fval(f_, f_of(qx(cx_, n_, cols1_[c] as int) as usize), f_of(qy(cy_, n_, cols1_[c] as int) as usize), f_of((cz_ + n_ - 1 - k) as usize)),
                l2_inv(f_, self.scratch, self.out.data@, img0_, cols1_, col as int, grad as int, hit_, gq_, gk_, t_, cx_, cy_, cz_, n_),
                forall|g: int| 0 <= g < grad ==> (col > 0 && #[trigger] gq_[g] <= cols1_[col - 1]),
        {
            // Find the first set pixel in the column
            proof { assert((col + 1) * n_ <= nc_ * n_) by (nonlinear_arith) requires col + 1 <= nc_, n_ >= 1; }
            let ghost sc0_ = self.scratch;
            let ghost img1_ = self.out.data@;
            let ghost xy_ = cols1_[col as int] as int;
            proof {
                lemma_q(t_, cx_, cy_, n_, xy_);
                // the pixel of this column is the pixel of no earlier column
                assert forall|c: int| 0 <= c < col implies qoff(t_, cx_, cy_, n_, xy_) != qoff(t_, cx_, cy_, n_, #[trigger] cols1_[c] as int) by {
                    if qoff(t_, cx_, cy_, n_, xy_) == qoff(t_, cx_, cy_, n_, cols1_[c] as int) { lemma_q_inj(t_, cx_, cy_, n_, xy_, cols1_[c] as int); }
                }
                assert(img1_[qoff(t_, cx_, cy_, n_, xy_)] == img0_[qoff(t_, cx_, cy_, n_, xy_)]);
            }
            if let Some(k) = find_neg(out, col, tile_size) {   // R-chunks-find, R-continue

            // Get X and Y values from the `columns` array.  Note that we can't
            // iterate over the array directly because we're also modifying it
            // (below)
            let xy = self.scratch.columns[col];
            let i = xy % tile_size;
            let j = xy / tile_size;
            let ghost kf_ = k as int;

            // Flip Z value, since voxels are packed front-to-back
            let k = tile_size - 1 - k;

            // Set the depth of the pixel
            let o = self.tile_sizes.pixel_offset(tile.add(Vector2::new(i, j)));
            let z = to_u32(tile.corner.z + k + 1);
            proof { assert(o == qoff(t_, cx_, cy_, n_, xy_)); }
            assert!(self.out.data[o].depth < z);
            self.out.data[o].depth = z;

            // Prepare to do gradient rendering of this point.
            proof { assert(grad < n_ * n_); }
            self.scratch.xg[grad] =
                Grad::new(cast_f32(tile.corner.x + i), 1.0, 0.0, 0.0);
            self.scratch.yg[grad] =
                Grad::new(cast_f32(tile.corner.y + j), 0.0, 1.0, 0.0);
            self.scratch.zg[grad] =
                Grad::new(cast_f32(tile.corner.z + k), 0.0, 0.0, 1.0);

            // This can only be called once per iteration, so we'll
            // never overwrite parts of columns that are still used
            // by the outer loop
            self.scratch.columns[grad] = o;
            proof {
                let hit0 = hit_; let gq0 = gq_; let gk0 = gk_;
                hit_ = hit_.push(grad as int);
                gq_ = gq_.push(xy_);
                gk_ = gk_.push(cz_ + k);
                let img = self.out.data@;
                let sc = self.scratch;
                assert(out@[col * n_ + kf_] == fval(f_, f_of(qx(cx_, n_, xy_) as usize), f_of(qy(cy_, n_, xy_) as usize), f_of((cz_ + n_ - 1 - kf_) as usize)));
                assert forall|kk: int| cz_ + k < kk < cz_ + n_ implies !neg(f_, qx(cx_, n_, xy_), qy(cy_, n_, xy_), kk) by {
                    let q = cz_ + n_ - 1 - kk;
                    assert(0 <= q < kf_);
                    assert(out@[col * n_ + q] == fval(f_, f_of(qx(cx_, n_, xy_) as usize), f_of(qy(cy_, n_, xy_) as usize), f_of((cz_ + n_ - 1 - q) as usize)));
                }
                // earlier gradient samples are other pixels, earlier in the tile
                assert forall|g: int| 0 <= g < grad implies qoff(t_, cx_, cy_, n_, #[trigger] gq0[g]) != o && gq0[g] < xy_ by {
                    assert(gq0[g] <= cols1_[col - 1]);
                    assert(cols1_[col - 1] < cols1_[col as int]);
                    if qoff(t_, cx_, cy_, n_, gq0[g]) == o { lemma_q_inj(t_, cx_, cy_, n_, gq0[g], xy_); }
                }
                assert forall|g: int| 0 <= g < grad + 1 implies {
                    &&& 0 <= #[trigger] gq_[g] < n_ * n_ && cz_ <= gk_[g] < cz_ + n_
                    &&& sc.columns@[g] == qoff(t_, cx_, cy_, n_, gq_[g])
                    &&& sc.xg@[g] == seed_x(f_of(qx(cx_, n_, gq_[g]) as usize))
                    &&& sc.yg@[g] == seed_y(f_of(qy(cy_, n_, gq_[g]) as usize))
                    &&& sc.zg@[g] == seed_z(f_of(gk_[g] as usize))
                    &&& img[qoff(t_, cx_, cy_, n_, gq_[g])].depth == gk_[g] + 1
                    &&& img[qoff(t_, cx_, cy_, n_, gq_[g])].normal == img0_[qoff(t_, cx_, cy_, n_, gq_[g])].normal
                    &&& neg(f_, qx(cx_, n_, gq_[g]), qy(cy_, n_, gq_[g]), gk_[g])
                    &&& forall|k: int| gk_[g] < k < cz_ + n_ ==> !neg(f_, qx(cx_, n_, gq_[g]), qy(cy_, n_, gq_[g]), k) } by {
                    if g < grad {
                        assert(gq_[g] == gq0[g] && gk_[g] == gk0[g]);
                        assert(sc.columns@[g] == sc0_.columns@[g]);
                        assert(sc.xg@[g] == sc0_.xg@[g] && sc.yg@[g] == sc0_.yg@[g] && sc.zg@[g] == sc0_.zg@[g]);
                        assert(img[qoff(t_, cx_, cy_, n_, gq0[g])] == img1_[qoff(t_, cx_, cy_, n_, gq0[g])]);
                    }
                }
                assert forall|c: int| 0 <= c < col + 1 implies (#[trigger] hit_[c] == -1 && img[qoff(t_, cx_, cy_, n_, cols1_[c] as int)] == img0_[qoff(t_, cx_, cy_, n_, cols1_[c] as int)]
                        && forall|k: int| cz_ <= k < cz_ + n_ ==> !neg(f_, qx(cx_, n_, cols1_[c] as int), qy(cy_, n_, cols1_[c] as int), k))
                    || (0 <= hit_[c] < grad + 1 && gq_[hit_[c]] == cols1_[c]) by {
                    if c < col {
                        assert(hit_[c] == hit0[c]);
                        if hit0[c] == -1 { assert(img[qoff(t_, cx_, cy_, n_, cols1_[c] as int)] == img1_[qoff(t_, cx_, cy_, n_, cols1_[c] as int)]); }
                        else { assert(gq_[hit0[c]] == gq0[hit0[c]]); }
                    }
                }
                assert forall|g1: int, g2: int| 0 <= g1 < g2 < grad + 1 implies gq_[g1] < gq_[g2] by {
                    assert(gq_[g1] == gq0[g1]);
                    if g2 < grad { assert(gq_[g2] == gq0[g2]); }
                }
                assert forall|c: int| col + 1 <= c < cols1_.len() implies #[trigger] sc.columns@[c] == cols1_[c] by { assert(sc0_.columns@[c] == cols1_[c]); }
            }
            grad += 1;
            } else {
                proof {
                    let hit0 = hit_;
                    hit_ = hit_.push(-1);
                    assert forall|kk: int| cz_ <= kk < cz_ + n_ implies !neg(f_, qx(cx_, n_, xy_), qy(cy_, n_, xy_), kk) by {
                        let q = cz_ + n_ - 1 - kk;
                        assert(out@[col * n_ + q] == fval(f_, f_of(qx(cx_, n_, xy_) as usize), f_of(qy(cy_, n_, xy_) as usize), f_of((cz_ + n_ - 1 - q) as usize)));
                    }
                    assert forall|c: int| 0 <= c < col + 1 implies (#[trigger] hit_[c] == -1 && img1_[qoff(t_, cx_, cy_, n_, cols1_[c] as int)] == img0_[qoff(t_, cx_, cy_, n_, cols1_[c] as int)]
                            && forall|k: int| cz_ <= k < cz_ + n_ ==> !neg(f_, qx(cx_, n_, cols1_[c] as int), qy(cy_, n_, cols1_[c] as int), k))
                        || (0 <= hit_[c] < grad && gq_[hit_[c]] == cols1_[c]) by {
                        if c < col { assert(hit_[c] == hit0[c]); }
                    }
                    assert forall|g: int| 0 <= g < grad implies #[trigger] gq_[g] <= cols1_[col as int] by {
                        assert(gq_[g] <= cols1_[col - 1]);
                        assert(cols1_[col - 1] < cols1_[col as int]);
                    }
                }
            }
        }

        let ghost img2_ = self.out.data@;
        if grad > 0 {
            let out = self
                .eval_grad_slice
                .eval_with_transform_and_vars(
                    shape.g_tape(&mut self.tape_storage),
                    prefix(&self.scratch.xg, grad),
                    prefix(&self.scratch.yg, grad),
                    prefix(&self.scratch.zg, grad),
                    &self.transform,
                    self.vars,
                )
                .unwrap();

            for index in 0..grad   // R-enumerate
                invariant self.tile_sizes == old(self).tile_sizes, self.image_size == old(self).image_size, wwf_parts(self.tile_sizes, self.out, self.scratch), t_ == self.tile_sizes.0@[0], n_ >= 1, in_root(t_, cx_, cy_, n_),
                    grad <= nc_, nc_ == self.scratch.columns@.len(), out@.len() == grad, gq_.len() == grad, gk_.len() == grad, img2_.len() == t_ * t_,
                    forall|g: int| 0 <= g < grad ==> 0 <= #[trigger] gq_[g] < n_ * n_ && self.scratch.columns@[g] == qoff(t_, cx_, cy_, n_, gq_[g])
                        && out@[g] == gnorm(f_, qx(cx_, n_, gq_[g]), qy(cy_, n_, gq_[g]), gk_[g]),
                    forall|g1: int, g2: int| 0 <= g1 < g2 < grad ==> gq_[g1] < gq_[g2],
                    l3_inv(f_, self.out.data@, img2_, index as int, grad as int, gq_, gk_, t_, cx_, cy_, n_),
            {
                let o = &self.scratch.columns[index];
                let g = out[index];
                let ghost img_ = self.out.data@;
                proof { lemma_q(t_, cx_, cy_, n_, gq_[index as int]); }
                self.out.data[*o].normal = [g.dx, g.dy, g.dz];
                proof {
                    let img = self.out.data@;
                    assert forall|g: int| 0 <= g < index implies qoff(t_, cx_, cy_, n_, #[trigger] gq_[g]) != *o by {
                        if qoff(t_, cx_, cy_, n_, gq_[g]) == *o { lemma_q_inj(t_, cx_, cy_, n_, gq_[g], gq_[index as int]); }
                    }
                    assert forall|g: int| 0 <= g < index + 1 implies img[qoff(t_, cx_, cy_, n_, #[trigger] gq_[g])].depth == img2_[qoff(t_, cx_, cy_, n_, gq_[g])].depth
                        && nrm_is(img[qoff(t_, cx_, cy_, n_, gq_[g])], gnorm(f_, qx(cx_, n_, gq_[g]), qy(cy_, n_, gq_[g]), gk_[g])) by {
                        if g < index { assert(img[qoff(t_, cx_, cy_, n_, gq_[g])] == img_[qoff(t_, cx_, cy_, n_, gq_[g])]); }
                        else { assert(img_[*o as int] == img2_[*o as int]); }
                    }
                }
            }
        }
        proof {
            let img = self.out.data@;
            // assemble: per pixel of the tile
            assert forall|ax: int, ay: int| in_tile(ax, ay, cx_, cy_, n_) implies vox_ok(f_, img0_[off(t_, ax, ay)], #[trigger] img[off(t_, ax, ay)], ax, ay, cz_, n_) by {
                lemma_q_of(cx_, cy_, n_, ax, ay);
                let q = (ay - cy_) * n_ + (ax - cx_);
                let o = qoff(t_, cx_, cy_, n_, q);
                lemma_q(t_, cx_, cy_, n_, q);
                assert(o == off(t_, ax, ay));
                if cmap_[q] == -1 {
                    // not a column: untouched, and already at or above the top of the slab
                    assert forall|c: int| 0 <= c < nc_ implies o != qoff(t_, cx_, cy_, n_, #[trigger] cols1_[c] as int) by {
                        if o == qoff(t_, cx_, cy_, n_, cols1_[c] as int) { lemma_q_inj(t_, cx_, cy_, n_, q, cols1_[c] as int); }
                    }
                    assert(img2_[o] == img0_[o]);
                    assert forall|g: int| 0 <= g < grad implies o != qoff(t_, cx_, cy_, n_, #[trigger] gq_[g]) by {
                        if o == qoff(t_, cx_, cy_, n_, gq_[g]) { lemma_q_inj(t_, cx_, cy_, n_, q, gq_[g]); }
                    }
                    assert(img[o] == img2_[o]);
                } else {
                    let c = cmap_[q];
                    assert(cols1_[c] == q);
                    if hit_[c] == -1 {
                        assert(img2_[o] == img0_[o]);
                        assert forall|g: int| 0 <= g < grad implies o != qoff(t_, cx_, cy_, n_, #[trigger] gq_[g]) by {
                            if o == qoff(t_, cx_, cy_, n_, gq_[g]) { lemma_q_inj(t_, cx_, cy_, n_, q, gq_[g]); }
                        }
                        assert(img[o] == img2_[o]);
                    } else {
                        let g = hit_[c];
                        assert(gq_[g] == q);
                        assert(img[o].depth == gk_[g] + 1);
                        assert(nrm_is(img[o], gnorm(f_, ax, ay, gk_[g])));
                    }
                }
            }
            assert forall|ax: int, ay: int| same_root(t_, cx_, cy_, ax, ay) && !in_tile(ax, ay, cx_, cy_, n_) implies #[trigger] img[off(t_, ax, ay)] == img0_[off(t_, ax, ay)] by {
                let o = off(t_, ax, ay);
                lemma_off_bound(t_, ax, ay);
                assert forall|q: int| 0 <= q < n_ * n_ implies o != qoff(t_, cx_, cy_, n_, q) by {
                    lemma_q(t_, cx_, cy_, n_, q);
                    if o == qoff(t_, cx_, cy_, n_, q) { lemma_off_inj(t_, cx_, cy_, ax, ay, qx(cx_, n_, q), qy(cy_, n_, q)); }
                }
                assert forall|c: int| 0 <= c < nc_ implies o != qoff(t_, cx_, cy_, n_, #[trigger] cols1_[c] as int) by { }
                assert(img2_[o] == img0_[o]);
                assert forall|g: int| 0 <= g < grad implies o != qoff(t_, cx_, cy_, n_, #[trigger] gq_[g]) by { }
                assert(img[o] == img2_[o]);
            }
        }
    }
}
/// the state of the pixel at (ax, ay) while the slab [cz, cz + n) is being worked through from the top, everything at or above zl being done
pub open spec fn pv(f: Fn_, p0: GeometryPixel, p1: GeometryPixel, ax: int, ay: int, cz: int, n: int, zl: int) -> bool {
    &&& (p1 == p0
        || (p0.depth == 0 && zl + 1 <= p1.depth <= cz + n && neg(f, ax, ay, p1.depth - 1) && nrm_is(p1, gnorm(f, ax, ay, p1.depth - 1)))
        || (p0.depth == 0 && p1.depth == cz + n + 1 && neg(f, ax, ay, cz + n) && p1.normal == p0.normal))
    &&& forall|k: int| zl <= k < cz + n && #[trigger] neg(f, ax, ay, k) ==> p1.depth >= k + 1
}
pub proof fn lemma_pv_start(f: Fn_, p0: GeometryPixel, ax: int, ay: int, cz: int, n: int)
    ensures pv(f, p0, p0, ax, ay, cz, n, cz + n)
{ }
pub proof fn lemma_pv_end(f: Fn_, p0: GeometryPixel, p1: GeometryPixel, ax: int, ay: int, cz: int, n: int)
    ensures pv(f, p0, p1, ax, ay, cz, n, cz) == vox_ok(f, p0, p1, ax, ay, cz, n)
{ }
/// one sub-slab [sz, sz + m) below everything done so far
pub proof fn lemma_pv_step(f: Fn_, p0: GeometryPixel, pb: GeometryPixel, pa: GeometryPixel, ax: int, ay: int, cz: int, n: int, sz: int, m: int)
    requires pre_ok(p0, cz, n), cz <= sz, sz + m <= cz + n, m >= 1, pv(f, p0, pb, ax, ay, cz, n, sz + m), vox_ok(f, pb, pa, ax, ay, sz, m)
    ensures pv(f, p0, pa, ax, ay, cz, n, sz)
{
    if pa != pb {
        // the pixel was empty before the sub-slab, so nothing above it is inside
        assert(pb.depth == 0);
        assert(pb == p0);
        if pa.depth == sz + m + 1 && sz + m < cz + n {
            assert(neg(f, ax, ay, sz + m));
        }
    }
    assert forall|k: int| sz <= k < cz + n && #[trigger] neg(f, ax, ay, k) implies pa.depth >= k + 1 by {
        if k >= sz + m { assert(pb.depth >= k + 1); }
    }
}
/// what the sub-slab needs of the pixel
pub proof fn lemma_pv_pre(f: Fn_, p0: GeometryPixel, pb: GeometryPixel, ax: int, ay: int, cz: int, n: int, sz: int, m: int)
    requires pre_ok(p0, cz, n), cz <= sz, sz + m <= cz + n, pv(f, p0, pb, ax, ay, cz, n, sz + m)
    ensures pre_ok(pb, sz, m)
{ }
/// the simplified function g may stand for f on the tile's box
pub proof fn lemma_vox_transfer(g: Fn_, f: Fn_, p0: GeometryPixel, p1: GeometryPixel, ax: int, ay: int, cx: int, cy: int, cz: int, n: int, bx: Interval, by: Interval, bz: Interval)
    requires vox_ok(g, p0, p1, ax, ay, cz, n), in_tile(ax, ay, cx, cy, n), cx >= 0, cy >= 0, cz >= 0, n >= 1, cx + n <= 16777216, cy + n <= 16777216, cz + n <= 16777216,
        g != f ==> agree_on(g, f, bx, by, bz),
        bx.lower == f_of(cx as usize), bx.upper == f_of((cx + n) as usize), by.lower == f_of(cy as usize), by.upper == f_of((cy + n) as usize), bz.lower == f_of(cz as usize), bz.upper == f_of((cz + n) as usize),
    ensures vox_ok(f, p0, p1, ax, ay, cz, n)
{
    if g != f {
        ax_cast_mono(cx as usize, ax as usize); ax_cast_mono(ax as usize, (cx + n) as usize);
        ax_cast_mono(cy as usize, ay as usize); ax_cast_mono(ay as usize, (cy + n) as usize);
        assert forall|k: int| cz <= k <= cz + n implies #[trigger] neg(g, ax, ay, k) == neg(f, ax, ay, k) && gnorm(g, ax, ay, k) == gnorm(f, ax, ay, k) by {
            ax_cast_mono(cz as usize, k as usize); ax_cast_mono(k as usize, (cz + n) as usize);
            assert(mem(f_of(ax as usize), bx) && mem(f_of(ay as usize), by) && mem(f_of(k as usize), bz));
            assert(fval(g, f_of(ax as usize), f_of(ay as usize), f_of(k as usize)) == fval(f, f_of(ax as usize), f_of(ay as usize), f_of(k as usize)));
            assert(geval(g, seed_x(f_of(ax as usize)), seed_y(f_of(ay as usize)), seed_z(f_of(k as usize))) == geval(f, seed_x(f_of(ax as usize)), seed_y(f_of(ay as usize)), seed_z(f_of(k as usize))));
        }
        if p1 != p0 {
            if p1.depth == cz + n + 1 { assert(neg(g, ax, ay, cz + n) == neg(f, ax, ay, cz + n)); }
            else { assert(neg(g, ax, ay, p1.depth - 1) == neg(f, ax, ay, p1.depth - 1)); }
        }
        assert forall|k: int| cz <= k < cz + n && #[trigger] neg(f, ax, ay, k) implies p1.depth >= k + 1 by { assert(neg(g, ax, ay, k)); }
    }
}

/// a voxel of the slab (or of the voxel row just above it) is a point of the tile's box
pub proof fn lemma_in_box(cx: int, cy: int, cz: int, n: int, ax: int, ay: int, k: int, bx: Interval, by: Interval, bz: Interval)
    requires in_tile(ax, ay, cx, cy, n), cz <= k <= cz + n, cx >= 0, cy >= 0, cz >= 0, n >= 1, cx + n <= 16777216, cy + n <= 16777216, cz + n <= 16777216,
        bx.lower == f_of(cx as usize), bx.upper == f_of((cx + n) as usize), by.lower == f_of(cy as usize), by.upper == f_of((cy + n) as usize), bz.lower == f_of(cz as usize), bz.upper == f_of((cz + n) as usize),
    ensures mem(f_of(ax as usize), bx), mem(f_of(ay as usize), by), mem(f_of(k as usize), bz)
{
    ax_cast_mono(cx as usize, ax as usize); ax_cast_mono(ax as usize, (cx + n) as usize);
    ax_cast_mono(cy as usize, ay as usize); ax_cast_mono(ay as usize, (cy + n) as usize);
    ax_cast_mono(cz as usize, k as usize); ax_cast_mono(k as usize, (cz + n) as usize);
}

impl<F: Function> Worker<'_, F> {
    /// Returns the data offset of a row within a subtile
    pub(crate) fn tile_row_offset(&self, tile: Tile<3>, row: usize) -> (r: usize)
        requires self.tile_sizes.0@.len() >= 1, self.tile_sizes.0@[0] >= 1, self.tile_sizes.0@[0] * self.tile_sizes.0@[0] <= usize::MAX, tile.corner.y + row <= usize::MAX,
        ensures r == off(self.tile_sizes.0@[0] as int, tile.corner.x as int, tile.corner.y + row)
    {
        self.tile_sizes.pixel_offset(tile.add(Vector2::new(0, row)))
    }

    /// Render a single tile
    ///
    /// Returns `true` if we should keep rendering, `false` otherwise
    fn render_tile_recurse(
        &mut self,
        shape: &mut RenderHandle<F>,
        depth: usize,
        tile: Tile<3>,
    ) -> (r: bool)
        requires wwf(old(self)), depth < old(self).tile_sizes.0@.len(),
            in_root(t0(old(self)), tile.corner.x as int, tile.corner.y as int, old(self).tile_sizes.0@[depth as int] as int),
            tile.corner.x + old(self).tile_sizes.0@[depth as int] <= 16777216, tile.corner.y + old(self).tile_sizes.0@[depth as int] <= 16777216, tile.corner.z + old(self).tile_sizes.0@[depth as int] <= 16777216,
            tile_pre(old(self).out.data@, t0(old(self)), tile.corner.x as int, tile.corner.y as int, tile.corner.z as int, old(self).tile_sizes.0@[depth as int] as int),
        ensures wwf(final(self)), final(self).tile_sizes == old(self).tile_sizes, final(self).image_size == old(self).image_size,
            final(shape).f() == old(shape).f(),
            tile_ok(old(shape).f(), old(self).out.data@, final(self).out.data@, t0(old(self)), tile.corner.x as int, tile.corner.y as int, tile.corner.z as int, old(self).tile_sizes.0@[depth as int] as int),
            frame(old(self).out.data@, final(self).out.data@, t0(old(self)), tile.corner.x as int, tile.corner.y as int, old(self).tile_sizes.0@[depth as int] as int),
            // `false`: every pixel of the tile is set from at or above the top of this slab
            !r ==> forall|ax: int, ay: int| in_tile(ax, ay, tile.corner.x as int, tile.corner.y as int, old(self).tile_sizes.0@[depth as int] as int)
                ==> (#[trigger] final(self).out.data@[off(t0(old(self)), ax, ay)]).depth >= tile.corner.z + old(self).tile_sizes.0@[depth as int] + 1,
        decreases old(self).tile_sizes.0@.len() - depth
    {
        // Early exit if every single pixel is filled
        let tile_size = *self.tile_sizes.index(depth);
        let ghost t_ = t0(old(self));
        let ghost cx_ = tile.corner.x as int;
        let ghost cy_ = tile.corner.y as int;
        let ghost cz_ = tile.corner.z as int;
        let ghost n_ = tile_size as int;
        let ghost f_ = shape.f();
        let ghost img0_ = self.out.data@;
        proof {
            lemma_sizes_desc(self.tile_sizes.0@, 0, depth as int);
            assert(self.tile_sizes.0@[depth as int] >= 1);
            assert forall|ax: int, ay: int| in_tile(ax, ay, cx_, cy_, n_) implies same_root(t_, cx_, cy_, ax, ay) && 0 <= off(t_, ax, ay) < t_ * t_ by { lemma_off(t_, cx_, cy_, n_, ax, ay); }
        }
        let fill_z = to_u32(tile.corner.z + tile_size + 1);
        let mut all_ = true;   // R-all
        for y in 0..tile_size
            invariant self == old(self), n_ == tile_size, t_ == t0(self), wwf(self), cx_ == tile.corner.x, cy_ == tile.corner.y, in_root(t_, cx_, cy_, n_), fill_z == cz_ + n_ + 1, cy_ + n_ <= 16777216,
                all_ <==> forall|ax: int, ay: int| in_tile(ax, ay, cx_, cy_, n_) && ay < cy_ + y ==> (#[trigger] self.out.data@[off(t_, ax, ay)]).depth >= fill_z,
        {
            let i = self.tile_row_offset(tile, y);
            for x in 0..tile_size
                invariant self == old(self), n_ == tile_size, t_ == t0(self), wwf(self), cx_ == tile.corner.x, cy_ == tile.corner.y, in_root(t_, cx_, cy_, n_), fill_z == cz_ + n_ + 1, cy_ + n_ <= 16777216, 0 <= y < n_,
                    i == off(t_, cx_, cy_ + y),
                    all_ <==> forall|ax: int, ay: int| in_tile(ax, ay, cx_, cy_, n_) && (ay < cy_ + y || (ay == cy_ + y && ax < cx_ + x)) ==> (#[trigger] self.out.data@[off(t_, ax, ay)]).depth >= fill_z,
            {
                proof { lemma_off(t_, cx_, cy_, n_, cx_ + x, cy_ + y); lemma_off(t_, cx_, cy_, n_, cx_, cy_ + y); assert(i + x == off(t_, cx_ + x, cy_ + y)); }
                if !(self.out.data[i + x].depth >= fill_z) {
                    all_ = false;
                    proof { assert(in_tile(cx_ + x, cy_ + y, cx_, cy_, n_)); }
                }
            }
        }
        if all_ {
            proof {
                assert forall|ax: int, ay: int| in_tile(ax, ay, cx_, cy_, n_) implies vox_ok(f_, img0_[off(t_, ax, ay)], #[trigger] img0_[off(t_, ax, ay)], ax, ay, cz_, n_) by {
                    assert(img0_[off(t_, ax, ay)].depth >= fill_z);
                }
            }
            return false;
        }

        let base = cast_pt3(tile.corner);   // R-cast
        let x = Interval::new(base.x, add_f32(base.x, cast_f32(tile_size)));
        let y = Interval::new(base.y, add_f32(base.y, cast_f32(tile_size)));
        let z = Interval::new(base.z, add_f32(base.z, cast_f32(tile_size)));
        proof {
            ax_add_cast(tile.corner.x, tile_size); ax_add_cast(tile.corner.y, tile_size); ax_add_cast(tile.corner.z, tile_size);
        }

        let (i, trace) = self
            .eval_interval
            .eval_with_transform_and_vars(
                shape.i_tape(&mut self.tape_storage),
                x,
                y,
                z,
                &self.transform,
                self.vars,
            )
            .unwrap();

        // Return early if this tile is completely empty or full, returning
        // `data_interval` to scratch memory for reuse.
        proof { ax_cmp(i.upper, 0.0f32); ax_cmp(i.lower, 0.0f32); }
        if i.upper() < 0.0 {
            for y in 0..tile_size
                invariant self.tile_sizes == old(self).tile_sizes, self.image_size == old(self).image_size, self.scratch == old(self).scratch, self.tile_sizes.wf(), t_ == self.tile_sizes.0@[0], self.out.data@.len() == t_ * t_, img0_.len() == t_ * t_,
                    cx_ == tile.corner.x, cy_ == tile.corner.y, n_ == tile_size, in_root(t_, cx_, cy_, n_), n_ >= 1, fill_z == cz_ + n_ + 1, cy_ + n_ <= 16777216,
                    forall|ax: int, ay: int| in_tile(ax, ay, cx_, cy_, n_) ==> same_root(t_, cx_, cy_, ax, ay),
                    forall|ax: int, ay: int| in_tile(ax, ay, cx_, cy_, n_) && ay < cy_ + y ==> #[trigger] self.out.data@[off(t_, ax, ay)] == (GeometryPixel { normal: img0_[off(t_, ax, ay)].normal, depth: if img0_[off(t_, ax, ay)].depth >= fill_z { img0_[off(t_, ax, ay)].depth } else { fill_z } }),
                    forall|ax: int, ay: int| same_root(t_, cx_, cy_, ax, ay) && !(in_tile(ax, ay, cx_, cy_, n_) && ay < cy_ + y) ==> #[trigger] self.out.data@[off(t_, ax, ay)] == img0_[off(t_, ax, ay)],
            {
                let i = self.tile_row_offset(tile, y);
                for x in 0..tile_size
                    invariant self.tile_sizes == old(self).tile_sizes, self.image_size == old(self).image_size, self.scratch == old(self).scratch, self.tile_sizes.wf(), t_ == self.tile_sizes.0@[0], self.out.data@.len() == t_ * t_, img0_.len() == t_ * t_,
                        cx_ == tile.corner.x, cy_ == tile.corner.y, n_ == tile_size, in_root(t_, cx_, cy_, n_), n_ >= 1, fill_z == cz_ + n_ + 1, cy_ + n_ <= 16777216, 0 <= y < n_, i == off(t_, cx_, cy_ + y),
                        forall|ax: int, ay: int| in_tile(ax, ay, cx_, cy_, n_) ==> same_root(t_, cx_, cy_, ax, ay),
                        forall|ax: int, ay: int| in_tile(ax, ay, cx_, cy_, n_) && (ay < cy_ + y || (ay == cy_ + y && ax < cx_ + x)) ==> #[trigger] self.out.data@[off(t_, ax, ay)] == (GeometryPixel { normal: img0_[off(t_, ax, ay)].normal, depth: if img0_[off(t_, ax, ay)].depth >= fill_z { img0_[off(t_, ax, ay)].depth } else { fill_z } }),
                        forall|ax: int, ay: int| same_root(t_, cx_, cy_, ax, ay) && !(in_tile(ax, ay, cx_, cy_, n_) && (ay < cy_ + y || (ay == cy_ + y && ax < cx_ + x))) ==> #[trigger] self.out.data@[off(t_, ax, ay)] == img0_[off(t_, ax, ay)],
                {
                    proof {
                        lemma_off(t_, cx_, cy_, n_, cx_ + x, cy_ + y); lemma_off(t_, cx_, cy_, n_, cx_, cy_ + y); assert(i + x == off(t_, cx_ + x, cy_ + y));
                        assert forall|ax: int, ay: int| same_root(t_, cx_, cy_, ax, ay) && (ax != cx_ + x || ay != cy_ + y) implies #[trigger] off(t_, ax, ay) != off(t_, cx_ + x, cy_ + y) by {
                            if off(t_, ax, ay) == off(t_, cx_ + x, cy_ + y) { lemma_off_inj(t_, cx_, cy_, ax, ay, cx_ + x, cy_ + y); }
                        }
                    }
                    self.out.data[i + x].depth = max_u32(self.out.data[i + x].depth, fill_z);   // R-minmax
                }
            }
            proof {
                assert forall|ax: int, ay: int| in_tile(ax, ay, cx_, cy_, n_) implies vox_ok(f_, img0_[off(t_, ax, ay)], #[trigger] self.out.data@[off(t_, ax, ay)], ax, ay, cz_, n_) by {
                    lemma_in_box(cx_, cy_, cz_, n_, ax, ay, cz_ + n_, x, y, z);
                    assert(pre_ok(img0_[off(t_, ax, ay)], cz_, n_));
                    let v = fval(f_, f_of(ax as usize), f_of(ay as usize), f_of((cz_ + n_) as usize));
                    assert(flt(v, 0.0f32));
                }
            }
            return false; // completely full, stop rendering
        } else if i.lower() > 0.0 {
            proof {
                assert forall|ax: int, ay: int| in_tile(ax, ay, cx_, cy_, n_) implies vox_ok(f_, img0_[off(t_, ax, ay)], #[trigger] img0_[off(t_, ax, ay)], ax, ay, cz_, n_) by {
                    assert forall|k: int| cz_ <= k < cz_ + n_ implies !neg(f_, ax, ay, k) by {
                        lemma_in_box(cx_, cy_, cz_, n_, ax, ay, k, x, y, z);
                        let v = fval(f_, f_of(ax as usize), f_of(ay as usize), f_of(k as usize));
                        assert(flt(0.0f32, v));
                        ax_cmp(v, 0.0f32);
                    }
                }
            }
            return true; // complete empty, keep going
        }

        // Calculate a simplified tape based on the trace
        let sub_tape = if let Some(trace) = trace.as_ref() {
            shape.simplify(
                trace,
                &mut self.workspace,
                &mut self.shape_storage,
                &mut self.tape_storage,
            )
        } else {
            shape
        };
        let ghost g_ = sub_tape.f();
        proof { assert(g_ != f_ ==> agree_on(g_, f_, x, y, z)); }

        // Recurse!
        if let Some(next_tile_size) = self.tile_sizes.get(depth + 1) {
            let n = tile_size / next_tile_size;
            let ghost m_ = next_tile_size as int;
            proof {
                assert(step_ok(self.tile_sizes.0@, depth as int));
                assert(self.tile_sizes.0@[depth + 1] >= 1);
                vstd::arithmetic::div_mod::lemma_fundamental_div_mod(n_, m_);
                assert(n * m_ == n_) by (nonlinear_arith) requires n_ == m_ * (n as int) + 0;
                assert(0 * m_ == 0);
            }

            for j in 0..n
                invariant wwf(self), self.tile_sizes == old(self).tile_sizes, self.image_size == old(self).image_size, t_ == self.tile_sizes.0@[0], img0_.len() == t_ * t_,
                    cx_ == tile.corner.x, cy_ == tile.corner.y, cz_ == tile.corner.z, n_ == tile_size, in_root(t_, cx_, cy_, n_), cx_ + n_ <= 16777216, cy_ + n_ <= 16777216, cz_ + n_ <= 16777216,
                    m_ == next_tile_size, m_ == self.tile_sizes.0@[depth + 1], m_ >= 1, n * m_ == n_, depth + 1 < self.tile_sizes.0@.len(), sub_tape.f() == g_, n_ >= 1,
                    tile_pre(img0_, t_, cx_, cy_, cz_, n_),
                    forall|ax: int, ay: int| in_tile(ax, ay, cx_, cy_, n_) ==> same_root(t_, cx_, cy_, ax, ay),
                    forall|ax: int, ay: int| in_tile(ax, ay, cx_, cy_, n_) && ay < cy_ + j * m_ ==> vox_ok(g_, img0_[off(t_, ax, ay)], #[trigger] self.out.data@[off(t_, ax, ay)], ax, ay, cz_, n_),
                    forall|ax: int, ay: int| same_root(t_, cx_, cy_, ax, ay) && !(in_tile(ax, ay, cx_, cy_, n_) && ay < cy_ + j * m_) ==> #[trigger] self.out.data@[off(t_, ax, ay)] == img0_[off(t_, ax, ay)],
            {
                proof { assert((j + 1) * m_ <= n * m_) by (nonlinear_arith) requires 0 <= j < n, m_ >= 1; assert((j + 1) * m_ == j * m_ + m_) by (nonlinear_arith); assert(j * m_ >= 0) by (nonlinear_arith) requires j >= 0, m_ >= 1; }
                for i in 0..n
                    invariant wwf(self), self.tile_sizes == old(self).tile_sizes, self.image_size == old(self).image_size, t_ == self.tile_sizes.0@[0], img0_.len() == t_ * t_,
                        cx_ == tile.corner.x, cy_ == tile.corner.y, cz_ == tile.corner.z, n_ == tile_size, in_root(t_, cx_, cy_, n_), cx_ + n_ <= 16777216, cy_ + n_ <= 16777216, cz_ + n_ <= 16777216,
                        m_ == next_tile_size, m_ == self.tile_sizes.0@[depth + 1], m_ >= 1, n * m_ == n_, depth + 1 < self.tile_sizes.0@.len(), sub_tape.f() == g_, n_ >= 1,
                        0 <= j < n, (j + 1) * m_ <= n_, (j + 1) * m_ == j * m_ + m_, j * m_ >= 0,
                        tile_pre(img0_, t_, cx_, cy_, cz_, n_),
                        forall|ax: int, ay: int| in_tile(ax, ay, cx_, cy_, n_) ==> same_root(t_, cx_, cy_, ax, ay),
                        forall|ax: int, ay: int| in_tile(ax, ay, cx_, cy_, n_) && (ay < cy_ + j * m_ || (ay < cy_ + (j + 1) * m_ && ax < cx_ + i * m_)) ==> vox_ok(g_, img0_[off(t_, ax, ay)], #[trigger] self.out.data@[off(t_, ax, ay)], ax, ay, cz_, n_),
                        forall|ax: int, ay: int| same_root(t_, cx_, cy_, ax, ay) && !(in_tile(ax, ay, cx_, cy_, n_) && (ay < cy_ + j * m_ || (ay < cy_ + (j + 1) * m_ && ax < cx_ + i * m_))) ==> #[trigger] self.out.data@[off(t_, ax, ay)] == img0_[off(t_, ax, ay)],
                {
                    proof {
                        assert((i + 1) * m_ <= n * m_) by (nonlinear_arith) requires 0 <= i < n, m_ >= 1; assert((i + 1) * m_ == i * m_ + m_) by (nonlinear_arith); assert(i * m_ >= 0) by (nonlinear_arith) requires i >= 0, m_ >= 1;
                        lemma_mod_shift(cx_, i * m_, t_); lemma_mod_shift(cy_, j * m_, t_);
                        assert(n * m_ == (n as int) * m_);
                    }
                    let ghost sx_ = cx_ + i * m_;
                    let ghost sy_ = cy_ + j * m_;
                    proof {
                        assert forall|ax: int, ay: int| in_tile(ax, ay, sx_, sy_, m_) implies in_tile(ax, ay, cx_, cy_, n_) && pv(g_, img0_[off(t_, ax, ay)], #[trigger] self.out.data@[off(t_, ax, ay)], ax, ay, cz_, n_, cz_ + n * m_) by {
                            lemma_pv_start(g_, img0_[off(t_, ax, ay)], ax, ay, cz_, n_);
                        }
                    }
                    let mut k_ = n;   // R-revrange
                    while k_ > 0
                        invariant 0 <= k_ <= n, wwf(self), self.tile_sizes == old(self).tile_sizes, self.image_size == old(self).image_size, t_ == self.tile_sizes.0@[0], img0_.len() == t_ * t_,
                            cx_ == tile.corner.x, cy_ == tile.corner.y, cz_ == tile.corner.z, n_ == tile_size, in_root(t_, cx_, cy_, n_), cx_ + n_ <= 16777216, cy_ + n_ <= 16777216, cz_ + n_ <= 16777216,
                            m_ == next_tile_size, m_ == self.tile_sizes.0@[depth + 1], m_ >= 1, n * m_ == n_, depth + 1 < self.tile_sizes.0@.len(), sub_tape.f() == g_, n_ >= 1,
                            0 <= j < n, (j + 1) * m_ <= n_, (j + 1) * m_ == j * m_ + m_, j * m_ >= 0, 0 <= i < n, (i + 1) * m_ <= n_, (i + 1) * m_ == i * m_ + m_, i * m_ >= 0,
                            sx_ == cx_ + i * m_, sy_ == cy_ + j * m_, in_root(t_, sx_, sy_, m_), sx_ / t_ == cx_ / t_, sy_ / t_ == cy_ / t_,
                            tile_pre(img0_, t_, cx_, cy_, cz_, n_),
                            forall|ax: int, ay: int| in_tile(ax, ay, cx_, cy_, n_) ==> same_root(t_, cx_, cy_, ax, ay),
                            forall|ax: int, ay: int| in_tile(ax, ay, sx_, sy_, m_) ==> in_tile(ax, ay, cx_, cy_, n_) && pv(g_, img0_[off(t_, ax, ay)], #[trigger] self.out.data@[off(t_, ax, ay)], ax, ay, cz_, n_, cz_ + k_ * m_),
                            forall|ax: int, ay: int| in_tile(ax, ay, cx_, cy_, n_) && (ay < cy_ + j * m_ || (ay < cy_ + (j + 1) * m_ && ax < cx_ + i * m_)) ==> vox_ok(g_, img0_[off(t_, ax, ay)], #[trigger] self.out.data@[off(t_, ax, ay)], ax, ay, cz_, n_),
                            forall|ax: int, ay: int| same_root(t_, cx_, cy_, ax, ay) && !(in_tile(ax, ay, cx_, cy_, n_) && (ay < cy_ + j * m_ || (ay < cy_ + (j + 1) * m_ && ax < cx_ + i * m_))) && !in_tile(ax, ay, sx_, sy_, m_) ==> #[trigger] self.out.data@[off(t_, ax, ay)] == img0_[off(t_, ax, ay)],
                        decreases k_
                    {
                        k_ -= 1;
                        let k = k_;
                        let ghost img1_ = self.out.data@;
                        let ghost sz_ = cz_ + k * m_;
                        proof {
                            assert((k + 1) * m_ <= n * m_) by (nonlinear_arith) requires 0 <= k < n, m_ >= 1; assert((k + 1) * m_ == k * m_ + m_) by (nonlinear_arith); assert(k * m_ >= 0) by (nonlinear_arith) requires k >= 0, m_ >= 1;
                            assert forall|ax: int, ay: int| in_tile(ax, ay, sx_, sy_, m_) implies pre_ok(#[trigger] img1_[off(t_, ax, ay)], sz_, m_) by {
                                assert(pre_ok(img0_[off(t_, ax, ay)], cz_, n_));
                                lemma_pv_pre(g_, img0_[off(t_, ax, ay)], img1_[off(t_, ax, ay)], ax, ay, cz_, n_, sz_, m_);
                            }
                        }
                        self.render_tile_recurse(
                            sub_tape,
                            depth + 1,
                            Tile::new(
                                pt3_add(tile.corner, vec3_scale(Vector3::new(i, j, k), next_tile_size)),
                            ),
                        );
                        proof {
                            assert(tile_ok(g_, img1_, self.out.data@, t_, sx_, sy_, sz_, m_));
                            assert(frame(img1_, self.out.data@, t_, sx_, sy_, m_));
                            assert forall|ax: int, ay: int| same_root(t_, cx_, cy_, ax, ay) && !in_tile(ax, ay, sx_, sy_, m_) implies #[trigger] self.out.data@[off(t_, ax, ay)] == img1_[off(t_, ax, ay)] by {
                                assert(same_root(t_, sx_, sy_, ax, ay));
                            }
                            assert forall|ax: int, ay: int| in_tile(ax, ay, sx_, sy_, m_) implies pv(g_, img0_[off(t_, ax, ay)], #[trigger] self.out.data@[off(t_, ax, ay)], ax, ay, cz_, n_, sz_) by {
                                assert(pre_ok(img0_[off(t_, ax, ay)], cz_, n_));
                                assert(vox_ok(g_, img1_[off(t_, ax, ay)], self.out.data@[off(t_, ax, ay)], ax, ay, sz_, m_));
                                lemma_pv_step(g_, img0_[off(t_, ax, ay)], img1_[off(t_, ax, ay)], self.out.data@[off(t_, ax, ay)], ax, ay, cz_, n_, sz_, m_);
                            }
                            assert forall|ax: int, ay: int| in_tile(ax, ay, cx_, cy_, n_) && (ay < cy_ + j * m_ || (ay < cy_ + (j + 1) * m_ && ax < cx_ + i * m_)) implies vox_ok(g_, img0_[off(t_, ax, ay)], #[trigger] self.out.data@[off(t_, ax, ay)], ax, ay, cz_, n_) by {
                                assert(!in_tile(ax, ay, sx_, sy_, m_));
                                assert(self.out.data@[off(t_, ax, ay)] == img1_[off(t_, ax, ay)]);
                            }
                        }
                    }
                    proof {
                        assert(0 * m_ == 0);
                        assert forall|ax: int, ay: int| in_tile(ax, ay, cx_, cy_, n_) && (ay < cy_ + j * m_ || (ay < cy_ + (j + 1) * m_ && ax < cx_ + (i + 1) * m_)) implies vox_ok(g_, img0_[off(t_, ax, ay)], #[trigger] self.out.data@[off(t_, ax, ay)], ax, ay, cz_, n_) by {
                            if in_tile(ax, ay, sx_, sy_, m_) { lemma_pv_end(g_, img0_[off(t_, ax, ay)], self.out.data@[off(t_, ax, ay)], ax, ay, cz_, n_); }
                        }
                    }
                }
            }
        } else {
            proof {
                // the early exit did not fire: some pixel is below the fill level, hence empty
                let (ax, ay) = choose|ax: int, ay: int| in_tile(ax, ay, cx_, cy_, n_) && !((#[trigger] img0_[off(t_, ax, ay)]).depth >= fill_z);
                assert(pre_ok(img0_[off(t_, ax, ay)], cz_, n_));
                assert(img0_[off(t_, ax, ay)].depth == 0);
            }
            self.render_tile_pixels(sub_tape, tile_size, tile);
        };
        proof {
            assert forall|ax: int, ay: int| in_tile(ax, ay, cx_, cy_, n_) implies vox_ok(f_, img0_[off(t_, ax, ay)], #[trigger] self.out.data@[off(t_, ax, ay)], ax, ay, cz_, n_) by {
                lemma_vox_transfer(g_, f_, img0_[off(t_, ax, ay)], self.out.data@[off(t_, ax, ay)], ax, ay, cx_, cy_, cz_, n_, x, y, z);
            }
        }
        // TODO recycle something here?
        true // keep going
    }
}
