    fn render_tile(
        &mut self,
        shape: &mut RenderHandle<F>,
        tile: Tile<2>,
    ) -> (r: Image)
/*G*/        requires old(self).tile_sizes.wf(), old(self).scratch.x@.len() == last_size(old(self)) * last_size(old(self)) * last_size(old(self)),
/*G*/            old(self).scratch.y@.len() == old(self).scratch.x@.len(), old(self).scratch.z@.len() == old(self).scratch.x@.len(),
/*G*/            old(self).scratch.xg@.len() == last_size(old(self)) * last_size(old(self)), old(self).scratch.yg@.len() == old(self).scratch.xg@.len(), old(self).scratch.zg@.len() == old(self).scratch.xg@.len(),
/*G*/            tile.corner.x % old(self).tile_sizes.0@[0] == 0, tile.corner.y % old(self).tile_sizes.0@[0] == 0,
/*G*/            tile.corner.x + old(self).tile_sizes.0@[0] <= 16777216, tile.corner.y + old(self).tile_sizes.0@[0] <= 16777216, old(self).image_size.d + old(self).tile_sizes.0@[0] <= 16777216,
/*G*/        ensures final(shape).f() == old(shape).f(), r.data@.len() == t0(old(self)) * t0(old(self)),
/*G*/            // every pixel column of the root tile, over the slabs 0 .. ceil(depth / root) * root
/*G*/            forall|ax: int, ay: int| in_tile(ax, ay, tile.corner.x as int, tile.corner.y as int, t0(old(self))) ==> vox_ok(old(shape).f(), px_default(), #[trigger] r.data@[off(t0(old(self)), ax, ay)], ax, ay, 0,
/*G*/                zslabs(old(self).image_size.d as int, t0(old(self))) * t0(old(self))),
    {
        let root_tile_size = *self.tile_sizes.index(0);
/*G*/        let ghost t_ = root_tile_size as int;
/*G*/        let ghost cx_ = tile.corner.x as int;
/*G*/        let ghost cy_ = tile.corner.y as int;
/*G*/        let ghost f_ = shape.f();
/*G*/        proof {
/*G*/            assert(t_ <= 16777216) by (nonlinear_arith) requires t_ >= 1, t_ * t_ <= 16777216;
/*G*/        }
        self.out = Image::new(voxel_size_from(root_tile_size as u32));   // R-from
/*G*/        let ghost img0_ = self.out.data@;
/*G*/        let ghost kk_ = zslabs(self.image_size.d as int, t_);
        let mut k_ = div_ceil_u32(self.image_size.d, root_tile_size as u32);   // R-ptindex, R-divceil, R-revrange
/*G*/        proof {
/*G*/            ax_px_default();
/*G*/            lemma_zslabs(self.image_size.d as int, t_, k_ as int);
/*G*/            assert(kk_ * t_ <= self.image_size.d + t_) by (nonlinear_arith) requires (kk_ - 1) * t_ < self.image_size.d || kk_ == 0, t_ >= 1;
/*G*/            assert(kk_ * t_ >= 0) by (nonlinear_arith) requires kk_ >= 0, t_ >= 1;
/*G*/            assert forall|ax: int, ay: int| in_tile(ax, ay, cx_, cy_, t_) implies pv(f_, px_default(), #[trigger] self.out.data@[off(t_, ax, ay)], ax, ay, 0, kk_ * t_, 0 + kk_ * t_) by {
/*G*/                lemma_off(t_, cx_, cy_, t_, ax, ay);
/*G*/                lemma_pv_start(f_, px_default(), ax, ay, 0, kk_ * t_);
/*G*/            }
/*G*/        }
        while k_ > 0
/*G*/            invariant_except_break 0 <= k_ <= kk_,
/*G*/                forall|ax: int, ay: int| in_tile(ax, ay, cx_, cy_, t_) ==> pv(f_, px_default(), #[trigger] self.out.data@[off(t_, ax, ay)], ax, ay, 0, kk_ * t_, k_ * t_),
/*G*/            invariant wwf(self), self.tile_sizes == old(self).tile_sizes, self.image_size == old(self).image_size, t_ == root_tile_size, t_ == t0(self), t_ >= 1, t_ <= 16777216, shape.f() == f_, px_default().depth == 0,
/*G*/                cx_ == tile.corner.x, cy_ == tile.corner.y, in_root(t_, cx_, cy_, t_), cx_ + t_ <= 16777216, cy_ + t_ <= 16777216, kk_ * t_ <= 16777216, kk_ >= 0,
/*G*/            ensures forall|ax: int, ay: int| in_tile(ax, ay, cx_, cy_, t_) ==> pv(f_, px_default(), #[trigger] self.out.data@[off(t_, ax, ay)], ax, ay, 0, kk_ * t_, 0),
/*G*/            decreases k_
        {
            k_ -= 1;
            let k = k_;
/*G*/            let ghost img1_ = self.out.data@;
/*G*/            let ghost sz_ = k as int * t_;
/*G*/            proof {
/*G*/                assert((k + 1) * t_ <= kk_ * t_) by (nonlinear_arith) requires 0 <= k < kk_, t_ >= 1; assert((k + 1) * t_ == k * t_ + t_) by (nonlinear_arith); assert(k * t_ >= 0) by (nonlinear_arith) requires k >= 0, t_ >= 1;
/*G*/                assert forall|ax: int, ay: int| in_tile(ax, ay, cx_, cy_, t_) implies pre_ok(#[trigger] img1_[off(t_, ax, ay)], sz_, t_) by {
/*G*/                    lemma_pv_pre(f_, px_default(), img1_[off(t_, ax, ay)], ax, ay, 0, kk_ * t_, sz_, t_);
/*G*/                }
/*G*/            }
            let tile = Tile::new(Point3::new(
                tile.corner.x,
                tile.corner.y,
                k as usize * root_tile_size,
            ));
            let keep_ = self.render_tile_recurse(shape, 0, tile);
/*G*/            proof {
/*G*/                assert forall|ax: int, ay: int| in_tile(ax, ay, cx_, cy_, t_) implies pv(f_, px_default(), #[trigger] self.out.data@[off(t_, ax, ay)], ax, ay, 0, kk_ * t_, sz_) by {
/*G*/                    assert(vox_ok(f_, img1_[off(t_, ax, ay)], self.out.data@[off(t_, ax, ay)], ax, ay, sz_, t_));
/*G*/                    lemma_pv_step(f_, px_default(), img1_[off(t_, ax, ay)], self.out.data@[off(t_, ax, ay)], ax, ay, 0, kk_ * t_, sz_, t_);
/*G*/                }
/*G*/            }
            if !keep_ {
/*G*/                proof {
/*G*/                    // every pixel is set from at or above the top of this slab: nothing below can matter
/*G*/                    assert forall|ax: int, ay: int| in_tile(ax, ay, cx_, cy_, t_) implies pv(f_, px_default(), #[trigger] self.out.data@[off(t_, ax, ay)], ax, ay, 0, kk_ * t_, 0) by {
/*G*/                        assert(self.out.data@[off(t_, ax, ay)].depth >= sz_ + t_ + 1);
/*G*/                    }
/*G*/                }
                break;
            }
        }
/*G*/        proof {
/*G*/            assert(0 * t_ == 0);
/*G*/            assert forall|ax: int, ay: int| in_tile(ax, ay, cx_, cy_, t_) implies vox_ok(f_, px_default(), #[trigger] self.out.data@[off(t_, ax, ay)], ax, ay, 0, kk_ * t_) by {
/*G*/                lemma_pv_end(f_, px_default(), self.out.data@[off(t_, ax, ay)], ax, ay, 0, kk_ * t_);
/*G*/            }
/*G*/        }
        take_image(&mut self.out)
    }