    fn render_tile_recurse(
        &mut self,
        shape: &mut RenderHandle<F>,
        depth: usize,
        tile: Tile<3>,
    ) -> (r: bool)
/*G*/        requires wwf(old(self)), depth < old(self).tile_sizes.0@.len(),
/*G*/            in_root(t0(old(self)), tile.corner.x as int, tile.corner.y as int, old(self).tile_sizes.0@[depth as int] as int),
/*G*/            tile.corner.x + old(self).tile_sizes.0@[depth as int] <= 16777216, tile.corner.y + old(self).tile_sizes.0@[depth as int] <= 16777216, tile.corner.z + old(self).tile_sizes.0@[depth as int] <= 16777216,
/*G*/            tile_pre(old(self).out.data@, t0(old(self)), tile.corner.x as int, tile.corner.y as int, tile.corner.z as int, old(self).tile_sizes.0@[depth as int] as int),
/*G*/        ensures wwf(final(self)), final(self).tile_sizes == old(self).tile_sizes, final(self).image_size == old(self).image_size,
/*G*/            final(shape).f() == old(shape).f(),
/*G*/            tile_ok(old(shape).f(), old(self).out.data@, final(self).out.data@, t0(old(self)), tile.corner.x as int, tile.corner.y as int, tile.corner.z as int, old(self).tile_sizes.0@[depth as int] as int),
/*G*/            frame(old(self).out.data@, final(self).out.data@, t0(old(self)), tile.corner.x as int, tile.corner.y as int, old(self).tile_sizes.0@[depth as int] as int),
/*G*/            // `false`: every pixel of the tile is set from at or above the top of this slab
/*G*/            !r ==> forall|ax: int, ay: int| in_tile(ax, ay, tile.corner.x as int, tile.corner.y as int, old(self).tile_sizes.0@[depth as int] as int)
/*G*/                ==> (#[trigger] final(self).out.data@[off(t0(old(self)), ax, ay)]).depth >= tile.corner.z + old(self).tile_sizes.0@[depth as int] + 1,
/*G*/        decreases old(self).tile_sizes.0@.len() - depth
    {
        let tile_size = *self.tile_sizes.index(depth);
/*G*/        let ghost t_ = t0(old(self));
/*G*/        let ghost cx_ = tile.corner.x as int;
/*G*/        let ghost cy_ = tile.corner.y as int;
/*G*/        let ghost cz_ = tile.corner.z as int;
/*G*/        let ghost n_ = tile_size as int;
/*G*/        let ghost f_ = shape.f();
/*G*/        let ghost img0_ = self.out.data@;
/*G*/        proof {
/*G*/            lemma_sizes_desc(self.tile_sizes.0@, 0, depth as int);
/*G*/            assert(self.tile_sizes.0@[depth as int] >= 1);
/*G*/            assert forall|ax: int, ay: int| in_tile(ax, ay, cx_, cy_, n_) implies same_root(t_, cx_, cy_, ax, ay) && 0 <= off(t_, ax, ay) < t_ * t_ by { lemma_off(t_, cx_, cy_, n_, ax, ay); }
/*G*/        }
        let fill_z = to_u32(tile.corner.z + tile_size + 1);
        let mut all_ = true;   // R-all
        for y in 0..tile_size
/*G*/            invariant self == old(self), n_ == tile_size, t_ == t0(self), wwf(self), cx_ == tile.corner.x, cy_ == tile.corner.y, in_root(t_, cx_, cy_, n_), fill_z == cz_ + n_ + 1, cy_ + n_ <= 16777216,
/*G*/                all_ <==> forall|ax: int, ay: int| in_tile(ax, ay, cx_, cy_, n_) && ay < cy_ + y ==> (#[trigger] self.out.data@[off(t_, ax, ay)]).depth >= fill_z,
        {
            let i = self.tile_row_offset(tile, y);
            for x in 0..tile_size
/*G*/                invariant self == old(self), n_ == tile_size, t_ == t0(self), wwf(self), cx_ == tile.corner.x, cy_ == tile.corner.y, in_root(t_, cx_, cy_, n_), fill_z == cz_ + n_ + 1, cy_ + n_ <= 16777216, 0 <= y < n_,
/*G*/                    i == off(t_, cx_, cy_ + y),
/*G*/                    all_ <==> forall|ax: int, ay: int| in_tile(ax, ay, cx_, cy_, n_) && (ay < cy_ + y || (ay == cy_ + y && ax < cx_ + x)) ==> (#[trigger] self.out.data@[off(t_, ax, ay)]).depth >= fill_z,
            {
/*G*/                proof { lemma_off(t_, cx_, cy_, n_, cx_ + x, cy_ + y); lemma_off(t_, cx_, cy_, n_, cx_, cy_ + y); assert(i + x == off(t_, cx_ + x, cy_ + y)); }
                if !(self.out.data[i + x].depth >= fill_z) {
                    all_ = false;
/*G*/                    proof { assert(in_tile(cx_ + x, cy_ + y, cx_, cy_, n_)); }
                }
            }
        }
        if all_ {
/*G*/            proof {
/*G*/                assert forall|ax: int, ay: int| in_tile(ax, ay, cx_, cy_, n_) implies vox_ok(f_, img0_[off(t_, ax, ay)], #[trigger] img0_[off(t_, ax, ay)], ax, ay, cz_, n_) by {
/*G*/                    assert(img0_[off(t_, ax, ay)].depth >= fill_z);
/*G*/                }
/*G*/            }
            return false;
        }
        let base = cast_pt3(tile.corner);   // R-cast
        let x = Interval::new(base.x, add_f32(base.x, cast_f32(tile_size)));
        let y = Interval::new(base.y, add_f32(base.y, cast_f32(tile_size)));
        let z = Interval::new(base.z, add_f32(base.z, cast_f32(tile_size)));
/*G*/        proof {
/*G*/            ax_add_cast(tile.corner.x, tile_size); ax_add_cast(tile.corner.y, tile_size); ax_add_cast(tile.corner.z, tile_size);
/*G*/        }
        let (i, trace) = self
            .eval_interval
            .eval_with_transform_and_vars(
                shape.i_tape(&mut self.tape_storage),
                x,
                y,
                z,
                &self.transform,
                self.vars,
            )
            .unwrap();
/*G*/        proof { ax_cmp(i.upper, 0.0f32); ax_cmp(i.lower, 0.0f32); }
        if i.upper() < 0.0 {
            for y in 0..tile_size
/*G*/                invariant self.tile_sizes == old(self).tile_sizes, self.image_size == old(self).image_size, self.scratch == old(self).scratch, self.tile_sizes.wf(), t_ == self.tile_sizes.0@[0], self.out.data@.len() == t_ * t_, img0_.len() == t_ * t_,
/*G*/                    cx_ == tile.corner.x, cy_ == tile.corner.y, n_ == tile_size, in_root(t_, cx_, cy_, n_), n_ >= 1, fill_z == cz_ + n_ + 1, cy_ + n_ <= 16777216,
/*G*/                    forall|ax: int, ay: int| in_tile(ax, ay, cx_, cy_, n_) ==> same_root(t_, cx_, cy_, ax, ay),
/*G*/                    forall|ax: int, ay: int| in_tile(ax, ay, cx_, cy_, n_) && ay < cy_ + y ==> #[trigger] self.out.data@[off(t_, ax, ay)] == (GeometryPixel { normal: img0_[off(t_, ax, ay)].normal, depth: if img0_[off(t_, ax, ay)].depth >= fill_z { img0_[off(t_, ax, ay)].depth } else { fill_z } }),
/*G*/                    forall|ax: int, ay: int| same_root(t_, cx_, cy_, ax, ay) && !(in_tile(ax, ay, cx_, cy_, n_) && ay < cy_ + y) ==> #[trigger] self.out.data@[off(t_, ax, ay)] == img0_[off(t_, ax, ay)],
            {
                let i = self.tile_row_offset(tile, y);
                for x in 0..tile_size
/*G*/                    invariant self.tile_sizes == old(self).tile_sizes, self.image_size == old(self).image_size, self.scratch == old(self).scratch, self.tile_sizes.wf(), t_ == self.tile_sizes.0@[0], self.out.data@.len() == t_ * t_, img0_.len() == t_ * t_,
/*G*/                        cx_ == tile.corner.x, cy_ == tile.corner.y, n_ == tile_size, in_root(t_, cx_, cy_, n_), n_ >= 1, fill_z == cz_ + n_ + 1, cy_ + n_ <= 16777216, 0 <= y < n_, i == off(t_, cx_, cy_ + y),
/*G*/                        forall|ax: int, ay: int| in_tile(ax, ay, cx_, cy_, n_) ==> same_root(t_, cx_, cy_, ax, ay),
/*G*/                        forall|ax: int, ay: int| in_tile(ax, ay, cx_, cy_, n_) && (ay < cy_ + y || (ay == cy_ + y && ax < cx_ + x)) ==> #[trigger] self.out.data@[off(t_, ax, ay)] == (GeometryPixel { normal: img0_[off(t_, ax, ay)].normal, depth: if img0_[off(t_, ax, ay)].depth >= fill_z { img0_[off(t_, ax, ay)].depth } else { fill_z } }),
/*G*/                        forall|ax: int, ay: int| same_root(t_, cx_, cy_, ax, ay) && !(in_tile(ax, ay, cx_, cy_, n_) && (ay < cy_ + y || (ay == cy_ + y && ax < cx_ + x))) ==> #[trigger] self.out.data@[off(t_, ax, ay)] == img0_[off(t_, ax, ay)],
                {
/*G*/                    proof {
/*G*/                        lemma_off(t_, cx_, cy_, n_, cx_ + x, cy_ + y); lemma_off(t_, cx_, cy_, n_, cx_, cy_ + y); assert(i + x == off(t_, cx_ + x, cy_ + y));
/*G*/                        assert forall|ax: int, ay: int| same_root(t_, cx_, cy_, ax, ay) && (ax != cx_ + x || ay != cy_ + y) implies #[trigger] off(t_, ax, ay) != off(t_, cx_ + x, cy_ + y) by {
/*G*/                            if off(t_, ax, ay) == off(t_, cx_ + x, cy_ + y) { lemma_off_inj(t_, cx_, cy_, ax, ay, cx_ + x, cy_ + y); }
/*G*/                        }
/*G*/                    }
                    self.out.data[i + x].depth = max_u32(self.out.data[i + x].depth, fill_z);   // R-minmax
                }
            }
/*G*/            proof {
/*G*/                assert forall|ax: int, ay: int| in_tile(ax, ay, cx_, cy_, n_) implies vox_ok(f_, img0_[off(t_, ax, ay)], #[trigger] self.out.data@[off(t_, ax, ay)], ax, ay, cz_, n_) by {
/*G*/                    lemma_in_box(cx_, cy_, cz_, n_, ax, ay, cz_ + n_, x, y, z);
/*G*/                    assert(pre_ok(img0_[off(t_, ax, ay)], cz_, n_));
/*G*/                    let v = fval(f_, f_of(ax as usize), f_of(ay as usize), f_of((cz_ + n_) as usize));
/*G*/                    assert(flt(v, 0.0f32));
/*G*/                }
/*G*/            }
            return false; // completely full, stop rendering
        } else if i.lower() > 0.0 {
/*G*/            proof {
/*G*/                assert forall|ax: int, ay: int| in_tile(ax, ay, cx_, cy_, n_) implies vox_ok(f_, img0_[off(t_, ax, ay)], #[trigger] img0_[off(t_, ax, ay)], ax, ay, cz_, n_) by {
/*G*/                    assert forall|k: int| cz_ <= k < cz_ + n_ implies !neg(f_, ax, ay, k) by {
/*G*/                        lemma_in_box(cx_, cy_, cz_, n_, ax, ay, k, x, y, z);
/*G*/                        let v = fval(f_, f_of(ax as usize), f_of(ay as usize), f_of(k as usize));
/*G*/                        assert(flt(0.0f32, v));
/*G*/                        ax_cmp(v, 0.0f32);
/*G*/                    }
/*G*/                }
/*G*/            }
            return true; // complete empty, keep going
        }
        let sub_tape = if let Some(trace) = trace.as_ref() {
            shape.simplify(
                trace,
                &mut self.workspace,
                &mut self.shape_storage,
                &mut self.tape_storage,
            )
        } else {
            shape
        };
/*G*/        let ghost g_ = sub_tape.f();
/*G*/        proof { assert(g_ != f_ ==> agree_on(g_, f_, x, y, z)); }
        if let Some(next_tile_size) = self.tile_sizes.get(depth + 1) {
            let n = tile_size / next_tile_size;
/*G*/            let ghost m_ = next_tile_size as int;
/*G*/            proof {
/*G*/                assert(step_ok(self.tile_sizes.0@, depth as int));
/*G*/                assert(self.tile_sizes.0@[depth + 1] >= 1);
/*G*/                vstd::arithmetic::div_mod::lemma_fundamental_div_mod(n_, m_);
/*G*/                assert(n * m_ == n_) by (nonlinear_arith) requires n_ == m_ * (n as int) + 0;
/*G*/                assert(0 * m_ == 0);
/*G*/            }
            for j in 0..n
/*G*/                invariant wwf(self), self.tile_sizes == old(self).tile_sizes, self.image_size == old(self).image_size, t_ == self.tile_sizes.0@[0], img0_.len() == t_ * t_,
/*G*/                    cx_ == tile.corner.x, cy_ == tile.corner.y, cz_ == tile.corner.z, n_ == tile_size, in_root(t_, cx_, cy_, n_), cx_ + n_ <= 16777216, cy_ + n_ <= 16777216, cz_ + n_ <= 16777216,
/*G*/                    m_ == next_tile_size, m_ == self.tile_sizes.0@[depth + 1], m_ >= 1, n * m_ == n_, depth + 1 < self.tile_sizes.0@.len(), sub_tape.f() == g_, n_ >= 1,
/*G*/                    tile_pre(img0_, t_, cx_, cy_, cz_, n_),
/*G*/                    forall|ax: int, ay: int| in_tile(ax, ay, cx_, cy_, n_) ==> same_root(t_, cx_, cy_, ax, ay),
/*G*/                    forall|ax: int, ay: int| in_tile(ax, ay, cx_, cy_, n_) && ay < cy_ + j * m_ ==> vox_ok(g_, img0_[off(t_, ax, ay)], #[trigger] self.out.data@[off(t_, ax, ay)], ax, ay, cz_, n_),
/*G*/                    forall|ax: int, ay: int| same_root(t_, cx_, cy_, ax, ay) && !(in_tile(ax, ay, cx_, cy_, n_) && ay < cy_ + j * m_) ==> #[trigger] self.out.data@[off(t_, ax, ay)] == img0_[off(t_, ax, ay)],
            {
/*G*/                proof { assert((j + 1) * m_ <= n * m_) by (nonlinear_arith) requires 0 <= j < n, m_ >= 1; assert((j + 1) * m_ == j * m_ + m_) by (nonlinear_arith); assert(j * m_ >= 0) by (nonlinear_arith) requires j >= 0, m_ >= 1; }
                for i in 0..n
/*G*/                    invariant wwf(self), self.tile_sizes == old(self).tile_sizes, self.image_size == old(self).image_size, t_ == self.tile_sizes.0@[0], img0_.len() == t_ * t_,
/*G*/                        cx_ == tile.corner.x, cy_ == tile.corner.y, cz_ == tile.corner.z, n_ == tile_size, in_root(t_, cx_, cy_, n_), cx_ + n_ <= 16777216, cy_ + n_ <= 16777216, cz_ + n_ <= 16777216,
/*G*/                        m_ == next_tile_size, m_ == self.tile_sizes.0@[depth + 1], m_ >= 1, n * m_ == n_, depth + 1 < self.tile_sizes.0@.len(), sub_tape.f() == g_, n_ >= 1,
/*G*/                        0 <= j < n, (j + 1) * m_ <= n_, (j + 1) * m_ == j * m_ + m_, j * m_ >= 0,
/*G*/                        tile_pre(img0_, t_, cx_, cy_, cz_, n_),
/*G*/                        forall|ax: int, ay: int| in_tile(ax, ay, cx_, cy_, n_) ==> same_root(t_, cx_, cy_, ax, ay),
/*G*/                        forall|ax: int, ay: int| in_tile(ax, ay, cx_, cy_, n_) && (ay < cy_ + j * m_ || (ay < cy_ + (j + 1) * m_ && ax < cx_ + i * m_)) ==> vox_ok(g_, img0_[off(t_, ax, ay)], #[trigger] self.out.data@[off(t_, ax, ay)], ax, ay, cz_, n_),
/*G*/                        forall|ax: int, ay: int| same_root(t_, cx_, cy_, ax, ay) && !(in_tile(ax, ay, cx_, cy_, n_) && (ay < cy_ + j * m_ || (ay < cy_ + (j + 1) * m_ && ax < cx_ + i * m_))) ==> #[trigger] self.out.data@[off(t_, ax, ay)] == img0_[off(t_, ax, ay)],
                {
/*G*/                    proof {
/*G*/                        assert((i + 1) * m_ <= n * m_) by (nonlinear_arith) requires 0 <= i < n, m_ >= 1; assert((i + 1) * m_ == i * m_ + m_) by (nonlinear_arith); assert(i * m_ >= 0) by (nonlinear_arith) requires i >= 0, m_ >= 1;
/*G*/                        lemma_mod_shift(cx_, i * m_, t_); lemma_mod_shift(cy_, j * m_, t_);
/*G*/                        assert(n * m_ == (n as int) * m_);
/*G*/                    }
/*G*/                    let ghost sx_ = cx_ + i * m_;
/*G*/                    let ghost sy_ = cy_ + j * m_;
/*G*/                    proof {
/*G*/                        assert forall|ax: int, ay: int| in_tile(ax, ay, sx_, sy_, m_) implies in_tile(ax, ay, cx_, cy_, n_) && pv(g_, img0_[off(t_, ax, ay)], #[trigger] self.out.data@[off(t_, ax, ay)], ax, ay, cz_, n_, cz_ + n * m_) by {
/*G*/                            lemma_pv_start(g_, img0_[off(t_, ax, ay)], ax, ay, cz_, n_);
/*G*/                        }
/*G*/                    }
                    let mut k_ = n;   // R-revrange
                    while k_ > 0
/*G*/                        invariant 0 <= k_ <= n, wwf(self), self.tile_sizes == old(self).tile_sizes, self.image_size == old(self).image_size, t_ == self.tile_sizes.0@[0], img0_.len() == t_ * t_,
/*G*/                            cx_ == tile.corner.x, cy_ == tile.corner.y, cz_ == tile.corner.z, n_ == tile_size, in_root(t_, cx_, cy_, n_), cx_ + n_ <= 16777216, cy_ + n_ <= 16777216, cz_ + n_ <= 16777216,
/*G*/                            m_ == next_tile_size, m_ == self.tile_sizes.0@[depth + 1], m_ >= 1, n * m_ == n_, depth + 1 < self.tile_sizes.0@.len(), sub_tape.f() == g_, n_ >= 1,
/*G*/                            0 <= j < n, (j + 1) * m_ <= n_, (j + 1) * m_ == j * m_ + m_, j * m_ >= 0, 0 <= i < n, (i + 1) * m_ <= n_, (i + 1) * m_ == i * m_ + m_, i * m_ >= 0,
/*G*/                            sx_ == cx_ + i * m_, sy_ == cy_ + j * m_, in_root(t_, sx_, sy_, m_), sx_ / t_ == cx_ / t_, sy_ / t_ == cy_ / t_,
/*G*/                            tile_pre(img0_, t_, cx_, cy_, cz_, n_),
/*G*/                            forall|ax: int, ay: int| in_tile(ax, ay, cx_, cy_, n_) ==> same_root(t_, cx_, cy_, ax, ay),
/*G*/                            forall|ax: int, ay: int| in_tile(ax, ay, sx_, sy_, m_) ==> in_tile(ax, ay, cx_, cy_, n_) && pv(g_, img0_[off(t_, ax, ay)], #[trigger] self.out.data@[off(t_, ax, ay)], ax, ay, cz_, n_, cz_ + k_ * m_),
/*G*/                            forall|ax: int, ay: int| in_tile(ax, ay, cx_, cy_, n_) && (ay < cy_ + j * m_ || (ay < cy_ + (j + 1) * m_ && ax < cx_ + i * m_)) ==> vox_ok(g_, img0_[off(t_, ax, ay)], #[trigger] self.out.data@[off(t_, ax, ay)], ax, ay, cz_, n_),
/*G*/                            forall|ax: int, ay: int| same_root(t_, cx_, cy_, ax, ay) && !(in_tile(ax, ay, cx_, cy_, n_) && (ay < cy_ + j * m_ || (ay < cy_ + (j + 1) * m_ && ax < cx_ + i * m_))) && !in_tile(ax, ay, sx_, sy_, m_) ==> #[trigger] self.out.data@[off(t_, ax, ay)] == img0_[off(t_, ax, ay)],
/*G*/                        decreases k_
                    {
                        k_ -= 1;
                        let k = k_;
/*G*/                        let ghost img1_ = self.out.data@;
/*G*/                        let ghost sz_ = cz_ + k * m_;
/*G*/                        proof {
/*G*/                            assert((k + 1) * m_ <= n * m_) by (nonlinear_arith) requires 0 <= k < n, m_ >= 1; assert((k + 1) * m_ == k * m_ + m_) by (nonlinear_arith); assert(k * m_ >= 0) by (nonlinear_arith) requires k >= 0, m_ >= 1;
/*G*/                            assert forall|ax: int, ay: int| in_tile(ax, ay, sx_, sy_, m_) implies pre_ok(#[trigger] img1_[off(t_, ax, ay)], sz_, m_) by {
/*G*/                                assert(pre_ok(img0_[off(t_, ax, ay)], cz_, n_));
/*G*/                                lemma_pv_pre(g_, img0_[off(t_, ax, ay)], img1_[off(t_, ax, ay)], ax, ay, cz_, n_, sz_, m_);
/*G*/                            }
/*G*/                        }
                        self.render_tile_recurse(
                            sub_tape,
                            depth + 1,
                            Tile::new(
                                pt3_add(tile.corner, vec3_scale(Vector3::new(i, j, k), next_tile_size)),
                            ),
                        );
/*G*/                        proof {
/*G*/                            assert(tile_ok(g_, img1_, self.out.data@, t_, sx_, sy_, sz_, m_));
/*G*/                            assert(frame(img1_, self.out.data@, t_, sx_, sy_, m_));
/*G*/                            assert forall|ax: int, ay: int| same_root(t_, cx_, cy_, ax, ay) && !in_tile(ax, ay, sx_, sy_, m_) implies #[trigger] self.out.data@[off(t_, ax, ay)] == img1_[off(t_, ax, ay)] by {
/*G*/                                assert(same_root(t_, sx_, sy_, ax, ay));
/*G*/                            }
/*G*/                            assert forall|ax: int, ay: int| in_tile(ax, ay, sx_, sy_, m_) implies pv(g_, img0_[off(t_, ax, ay)], #[trigger] self.out.data@[off(t_, ax, ay)], ax, ay, cz_, n_, sz_) by {
/*G*/                                assert(pre_ok(img0_[off(t_, ax, ay)], cz_, n_));
/*G*/                                assert(vox_ok(g_, img1_[off(t_, ax, ay)], self.out.data@[off(t_, ax, ay)], ax, ay, sz_, m_));
/*G*/                                lemma_pv_step(g_, img0_[off(t_, ax, ay)], img1_[off(t_, ax, ay)], self.out.data@[off(t_, ax, ay)], ax, ay, cz_, n_, sz_, m_);
/*G*/                            }
/*G*/                            assert forall|ax: int, ay: int| in_tile(ax, ay, cx_, cy_, n_) && (ay < cy_ + j * m_ || (ay < cy_ + (j + 1) * m_ && ax < cx_ + i * m_)) implies vox_ok(g_, img0_[off(t_, ax, ay)], #[trigger] self.out.data@[off(t_, ax, ay)], ax, ay, cz_, n_) by {
/*G*/                                assert(!in_tile(ax, ay, sx_, sy_, m_));
/*G*/                                assert(self.out.data@[off(t_, ax, ay)] == img1_[off(t_, ax, ay)]);
/*G*/                            }
/*G*/                        }
                    }
/*G*/                    proof {
/*G*/                        assert(0 * m_ == 0);
/*G*/                        assert forall|ax: int, ay: int| in_tile(ax, ay, cx_, cy_, n_) && (ay < cy_ + j * m_ || (ay < cy_ + (j + 1) * m_ && ax < cx_ + (i + 1) * m_)) implies vox_ok(g_, img0_[off(t_, ax, ay)], #[trigger] self.out.data@[off(t_, ax, ay)], ax, ay, cz_, n_) by {
/*G*/                            if in_tile(ax, ay, sx_, sy_, m_) { lemma_pv_end(g_, img0_[off(t_, ax, ay)], self.out.data@[off(t_, ax, ay)], ax, ay, cz_, n_); }
/*G*/                        }
/*G*/                    }
                }
            }
        } else {
/*G*/            proof {
/*G*/                // the early exit did not fire: some pixel is below the fill level, hence empty
/*G*/                let (ax, ay) = choose|ax: int, ay: int| in_tile(ax, ay, cx_, cy_, n_) && !((#[trigger] img0_[off(t_, ax, ay)]).depth >= fill_z);
/*G*/                assert(pre_ok(img0_[off(t_, ax, ay)], cz_, n_));
/*G*/                assert(img0_[off(t_, ax, ay)].depth == 0);
/*G*/            }
            self.render_tile_pixels(sub_tape, tile_size, tile);
        };
/*G*/        proof {
/*G*/            assert forall|ax: int, ay: int| in_tile(ax, ay, cx_, cy_, n_) implies vox_ok(f_, img0_[off(t_, ax, ay)], #[trigger] self.out.data@[off(t_, ax, ay)], ax, ay, cz_, n_) by {
/*G*/                lemma_vox_transfer(g_, f_, img0_[off(t_, ax, ay)], self.out.data@[off(t_, ax, ay)], ax, ay, cx_, cy_, cz_, n_, x, y, z);
/*G*/            }
/*G*/        }
        true // keep going
    }