    fn render_tile_pixels(
        &mut self,
        shape: &mut RenderHandle<F>,
        tile_size: usize,
        tile: Tile<3>,
    )
/*G*/        requires wwf(old(self)), tile_size == last_size(old(self)),
/*G*/            in_root(t0(old(self)), tile.corner.x as int, tile.corner.y as int, tile_size as int),
/*G*/            tile.corner.x + tile_size <= 16777216, tile.corner.y + tile_size <= 16777216, tile.corner.z + tile_size <= 16777216,
/*G*/            tile_pre(old(self).out.data@, t0(old(self)), tile.corner.x as int, tile.corner.y as int, tile.corner.z as int, tile_size as int),
/*G*/            // some pixel of the tile is still empty (the caller's early exit did not fire)
/*G*/            exists|ax: int, ay: int| in_tile(ax, ay, tile.corner.x as int, tile.corner.y as int, tile_size as int) && #[trigger] old(self).out.data@[off(t0(old(self)), ax, ay)].depth == 0,
/*G*/        ensures wwf(final(self)), final(self).tile_sizes == old(self).tile_sizes, final(self).image_size == old(self).image_size,
/*G*/            final(shape).f() == old(shape).f(),
/*G*/            tile_ok(old(shape).f(), old(self).out.data@, final(self).out.data@, t0(old(self)), tile.corner.x as int, tile.corner.y as int, tile.corner.z as int, tile_size as int),
/*G*/            frame(old(self).out.data@, final(self).out.data@, t0(old(self)), tile.corner.x as int, tile.corner.y as int, tile_size as int),
    {
        let mut index = 0;
/*G*/        let ghost n_ = tile_size as int;
/*G*/        let ghost t_ = t0(old(self));
/*G*/        let ghost cx_ = tile.corner.x as int;
/*G*/        let ghost cy_ = tile.corner.y as int;
/*G*/        let ghost cz_ = tile.corner.z as int;
/*G*/        let ghost img0_ = old(self).out.data@;
/*G*/        let ghost f_ = shape.f();
/*G*/        proof {
/*G*/            let l_ = self.tile_sizes.0@.len() - 1;
/*G*/            assert(self.tile_sizes.0@[l_] >= 1);
/*G*/            lemma_sizes_desc(self.tile_sizes.0@, 0, l_);
/*G*/            assert(n_ * n_ <= 16777216) by (nonlinear_arith) requires 1 <= n_ <= t_, t_ * t_ <= 16777216;
/*G*/            assert(n_ <= 4096) by (nonlinear_arith) requires 1 <= n_, n_ * n_ <= 16777216;
/*G*/            assert(n_ * n_ * n_ <= 68719476736) by (nonlinear_arith) requires 1 <= n_ <= 4096;
/*G*/            assert(0 * n_ == 0);
/*G*/        }
        assert!(self.scratch.x.len() >= pow3(tile_size));
        assert!(self.scratch.y.len() >= pow3(tile_size));
        assert!(self.scratch.z.len() >= pow3(tile_size));
        self.scratch.columns.clear();
/*G*/        let ghost cmap_: Seq<int> = Seq::empty();
        for xy in 0..pow2(tile_size)
/*G*/            invariant img0_ == old(self).out.data@, n_ == tile_size, n_ >= 1, n_ * n_ <= 16777216, n_ * n_ * n_ <= 68719476736, wwf(self), self.tile_sizes == old(self).tile_sizes, self.image_size == old(self).image_size, self.out == old(self).out, t_ == t0(self),
/*G*/                cx_ == tile.corner.x, cy_ == tile.corner.y, cz_ == tile.corner.z, in_root(t_, cx_, cy_, n_), cx_ + n_ <= 16777216, cy_ + n_ <= 16777216, cz_ + n_ <= 16777216,
/*G*/                n_ == last_size(self), index == self.scratch.columns@.len() * n_, tile_pre(img0_, t_, cx_, cy_, cz_, n_),
/*G*/                l1_inv(self.scratch, cmap_, xy as int, img0_, t_, cx_, cy_, cz_, n_),
        {
            let i = xy % tile_size;
            let j = xy / tile_size;
/*G*/            proof { lemma_q(t_, cx_, cy_, n_, xy as int); }
            let o = self.tile_sizes.pixel_offset(tile.add(Vector2::new(i, j)));
            let zmax = to_u32(tile.corner.z + tile_size);
/*G*/            proof { assert(o == qoff(t_, cx_, cy_, n_, xy as int)); assert(pre_ok(img0_[off(t_, qx(cx_, n_, xy as int), qy(cy_, n_, xy as int))], cz_, n_)); }
            if !(self.out.data[o].depth >= zmax) {   // R-continue
/*G*/                let ghost nc_ = self.scratch.columns@.len() as int;
/*G*/                let ghost sc0_ = self.scratch;
/*G*/                proof {
/*G*/                    assert((nc_ + 1) * n_ <= n_ * n_ * n_) by (nonlinear_arith) requires nc_ + 1 <= n_ * n_, n_ >= 1;
/*G*/                    assert((nc_ + 1) * n_ == nc_ * n_ + n_) by (nonlinear_arith);
/*G*/                }
                let mut k_ = tile_size;   // R-revrange
                while k_ > 0
/*G*/                    invariant 0 <= k_ <= n_, n_ == tile_size, index == nc_ * n_ + (n_ - k_), nc_ * n_ + n_ <= n_ * n_ * n_, n_ * n_ * n_ <= 68719476736, nc_ >= 0,
/*G*/                        wwf(self), self.tile_sizes == old(self).tile_sizes, self.image_size == old(self).image_size, self.out == old(self).out, n_ == last_size(self), t_ == t0(self),
/*G*/                        cx_ == tile.corner.x, cy_ == tile.corner.y, cz_ == tile.corner.z, cx_ + n_ <= 16777216, cy_ + n_ <= 16777216, cz_ + n_ <= 16777216,
/*G*/                        i == xy % tile_size, j == xy / tile_size, i < n_, j < n_,
/*G*/                        self.scratch.columns == sc0_.columns, self.scratch.xg == sc0_.xg, self.scratch.yg == sc0_.yg, self.scratch.zg == sc0_.zg,
/*G*/                        forall|p: int| 0 <= p < nc_ * n_ ==> #[trigger] self.scratch.x@[p] == sc0_.x@[p] && self.scratch.y@[p] == sc0_.y@[p] && self.scratch.z@[p] == sc0_.z@[p],
/*G*/                        forall|k: int| 0 <= k < n_ - k_ ==> {
/*G*/                            &&& #[trigger] self.scratch.x@[nc_ * n_ + k] == f_of((cx_ + i) as usize)
/*G*/                            &&& self.scratch.y@[nc_ * n_ + k] == f_of((cy_ + j) as usize)
/*G*/                            &&& self.scratch.z@[nc_ * n_ + k] == f_of((cz_ + n_ - 1 - k) as usize) },
/*G*/                    decreases k_
                {
                    k_ -= 1;
                    let k = k_;
                    self.scratch.x[index] = cast_f32(tile.corner.x + i);
                    self.scratch.y[index] = cast_f32(tile.corner.y + j);
                    self.scratch.z[index] = cast_f32(tile.corner.z + k);
                    index += 1;
                }
                self.scratch.columns.push(xy);
/*G*/                proof {
/*G*/                    cmap_ = cmap_.push(nc_);
/*G*/                    let sc = self.scratch;
/*G*/                    assert forall|c: int, k: int| 0 <= c < sc.columns@.len() && 0 <= k < n_ implies {
/*G*/                        &&& #[trigger] sc.x@[c * n_ + k] == f_of(qx(cx_, n_, sc.columns@[c] as int) as usize)
/*G*/                        &&& sc.y@[c * n_ + k] == f_of(qy(cy_, n_, sc.columns@[c] as int) as usize)
/*G*/                        &&& sc.z@[c * n_ + k] == f_of((cz_ + n_ - 1 - k) as usize) } by {
/*G*/                        if c < nc_ {
/*G*/                            assert(sc.columns@[c] == sc0_.columns@[c]);
/*G*/                            assert(c * n_ + k < nc_ * n_) by (nonlinear_arith) requires 0 <= c < nc_, 0 <= k < n_;
/*G*/                            assert(c * n_ + k >= 0) by (nonlinear_arith) requires 0 <= c, 0 <= k, n_ >= 1;
/*G*/                            assert(sc0_.x@[c * n_ + k] == f_of(qx(cx_, n_, sc0_.columns@[c] as int) as usize));
/*G*/                        } else {
/*G*/                            assert(c == nc_);
/*G*/                            assert(sc.columns@[c] == xy);
/*G*/                            assert(sc.x@[nc_ * n_ + k] == f_of((cx_ + i) as usize));
/*G*/                        }
/*G*/                    }
/*G*/                    assert forall|q: int| 0 <= q < xy + 1 implies (#[trigger] cmap_[q] == -1 && img0_[qoff(t_, cx_, cy_, n_, q)].depth >= cz_ + n_ + 1)
/*G*/                        || (0 <= cmap_[q] < sc.columns@.len() && sc.columns@[cmap_[q]] == q && img0_[qoff(t_, cx_, cy_, n_, q)].depth == 0) by {
/*G*/                        if q < xy { assert(cmap_[q] == cmap_.drop_last()[q]); if cmap_[q] != -1 { assert(sc.columns@[cmap_[q]] == sc0_.columns@[cmap_[q]]); } }
/*G*/                    }
/*G*/                    assert forall|c: int| 0 <= c < sc.columns@.len() implies 0 <= #[trigger] sc.columns@[c] < xy + 1 && cmap_[sc.columns@[c] as int] == c by {
/*G*/                        if c < nc_ { assert(sc.columns@[c] == sc0_.columns@[c]); }
/*G*/                    }
/*G*/                    assert forall|c1: int, c2: int| 0 <= c1 < c2 < sc.columns@.len() implies sc.columns@[c1] < sc.columns@[c2] by {
/*G*/                        assert(sc.columns@[c1] == sc0_.columns@[c1]);
/*G*/                        if c2 < nc_ { assert(sc.columns@[c2] == sc0_.columns@[c2]); }
/*G*/                    }
/*G*/                    assert((nc_ + 1) * n_ == nc_ * n_ + n_) by (nonlinear_arith);
/*G*/                }
            }
/*G*/            proof {
/*G*/                if cmap_.len() == xy {
/*G*/                    cmap_ = cmap_.push(-1);
/*G*/                    assert forall|q: int| 0 <= q < xy + 1 implies (#[trigger] cmap_[q] == -1 && img0_[qoff(t_, cx_, cy_, n_, q)].depth >= cz_ + n_ + 1)
/*G*/                        || (0 <= cmap_[q] < self.scratch.columns@.len() && self.scratch.columns@[cmap_[q]] == q && img0_[qoff(t_, cx_, cy_, n_, q)].depth == 0) by {
/*G*/                        if q < xy { assert(cmap_[q] == cmap_.drop_last()[q]); }
/*G*/                    }
/*G*/                }
/*G*/            }
        }
        let size = index;
/*G*/        let ghost cols1_ = self.scratch.columns@;
/*G*/        let ghost nc_ = cols1_.len() as int;
/*G*/        proof {
/*G*/            assert forall|c: int| 0 <= c < nc_ implies 0 <= #[trigger] cols1_[c] < n_ * n_ && cmap_[cols1_[c] as int] == c && img0_[qoff(t_, cx_, cy_, n_, cols1_[c] as int)].depth == 0 by {
/*G*/                let q = cols1_[c] as int;
/*G*/                lemma_q(t_, cx_, cy_, n_, q);
/*G*/                assert(cmap_[q] == c);
/*G*/                assert(pre_ok(img0_[off(t_, qx(cx_, n_, q), qy(cy_, n_, q))], cz_, n_));
/*G*/            }
/*G*/            assert(cols_ok(cols1_, cmap_, img0_, t_, cx_, cy_, cz_, n_));
/*G*/            // some pixel is empty, so some column was collected
/*G*/            let (ax, ay) = choose|ax: int, ay: int| in_tile(ax, ay, cx_, cy_, n_) && #[trigger] img0_[off(t_, ax, ay)].depth == 0;
/*G*/            lemma_q_of(cx_, cy_, n_, ax, ay);
/*G*/            let q = (ay - cy_) * n_ + (ax - cx_);
/*G*/            assert(cmap_[q] != -1);
/*G*/            assert(nc_ >= 1);
/*G*/            assert(nc_ * n_ >= 1) by (nonlinear_arith) requires nc_ >= 1, n_ >= 1;
/*G*/            assert(nc_ * n_ <= n_ * n_ * n_) by (nonlinear_arith) requires nc_ <= n_ * n_, n_ >= 1;
/*G*/        }
        assert!(size > 0);
        let out = self
            .eval_float_slice
            .eval_with_transform_and_vars(
                shape.f_tape(&mut self.tape_storage),
                prefix(&self.scratch.x, index),
                prefix(&self.scratch.y, index),
                prefix(&self.scratch.z, index),
                &self.transform,
                self.vars,
            )
            .unwrap();
/*G*/        proof {
/*G*/            assert forall|c: int, k: int| 0 <= c < nc_ && 0 <= k < n_ implies #[trigger] out@[c * n_ + k] == fval(f_, f_of(qx(cx_, n_, cols1_[c] as int) as usize), f_of(qy(cy_, n_, cols1_[c] as int) as usize), f_of((cz_ + n_ - 1 - k) as usize)) by {
/*G*/                assert(c * n_ + k < nc_ * n_) by (nonlinear_arith) requires 0 <= c < nc_, 0 <= k < n_;
/*G*/                assert(c * n_ + k >= 0) by (nonlinear_arith) requires 0 <= c, 0 <= k, n_ >= 1;
/*G*/                let p = c * n_ + k;
/*G*/                assert(self.scratch.x@.subrange(0, index as int)[p] == self.scratch.x@[p]);
/*G*/                assert(self.scratch.y@.subrange(0, index as int)[p] == self.scratch.y@[p]);
/*G*/                assert(self.scratch.z@.subrange(0, index as int)[p] == self.scratch.z@[p]);
/*G*/                assert(self.scratch.x@[c * n_ + k] == f_of(qx(cx_, n_, self.scratch.columns@[c] as int) as usize));
/*G*/            }
/*G*/        }
        let mut grad = 0;
/*G*/        let ghost hit_: Seq<int> = Seq::empty();    // per column: -1, or the number of its gradient sample
/*G*/        let ghost gq_: Seq<int> = Seq::empty();     // per gradient sample: the pixel number
/*G*/        let ghost gk_: Seq<int> = Seq::empty();     // per gradient sample: the voxel's z index
        for col in iter_: 0..self.scratch.columns.len()
/*G*/            invariant iter_.iter.end == nc_, n_ == tile_size, n_ >= 1, n_ * n_ <= 16777216, wwf_parts(self.tile_sizes, self.out, self.scratch), self.tile_sizes == old(self).tile_sizes, self.image_size == old(self).image_size, t_ == self.tile_sizes.0@[0], n_ == ts_last(self.tile_sizes),
/*G*/                cx_ == tile.corner.x, cy_ == tile.corner.y, cz_ == tile.corner.z, in_root(t_, cx_, cy_, n_), cx_ + n_ <= 16777216, cy_ + n_ <= 16777216, cz_ + n_ <= 16777216,
/*G*/                nc_ == cols1_.len(), out@.len() == nc_ * n_, img0_.len() == t_ * t_, f_ == shape.f(), f_ == old(shape).f(), img0_ == old(self).out.data@,
/*G*/                cols_ok(cols1_, cmap_, img0_, t_, cx_, cy_, cz_, n_),
/*G*/                forall|c: int, k: int| 0 <= c < nc_ && 0 <= k < n_ ==> #[trigger] out@[c * n_ + k] == fval(f_, f_of(qx(cx_, n_, cols1_[c] as int) as usize), f_of(qy(cy_, n_, cols1_[c] as int) as usize), f_of((cz_ + n_ - 1 - k) as usize)),
/*G*/                l2_inv(f_, self.scratch, self.out.data@, img0_, cols1_, col as int, grad as int, hit_, gq_, gk_, t_, cx_, cy_, cz_, n_),
/*G*/                forall|g: int| 0 <= g < grad ==> (col > 0 && #[trigger] gq_[g] <= cols1_[col - 1]),
        {
/*G*/            proof { assert((col + 1) * n_ <= nc_ * n_) by (nonlinear_arith) requires col + 1 <= nc_, n_ >= 1; }
/*G*/            let ghost sc0_ = self.scratch;
/*G*/            let ghost img1_ = self.out.data@;
/*G*/            let ghost xy_ = cols1_[col as int] as int;
/*G*/            proof {
/*G*/                lemma_q(t_, cx_, cy_, n_, xy_);
/*G*/                // the pixel of this column is the pixel of no earlier column
/*G*/                assert forall|c: int| 0 <= c < col implies qoff(t_, cx_, cy_, n_, xy_) != qoff(t_, cx_, cy_, n_, #[trigger] cols1_[c] as int) by {
/*G*/                    if qoff(t_, cx_, cy_, n_, xy_) == qoff(t_, cx_, cy_, n_, cols1_[c] as int) { lemma_q_inj(t_, cx_, cy_, n_, xy_, cols1_[c] as int); }
/*G*/                }
/*G*/                assert(img1_[qoff(t_, cx_, cy_, n_, xy_)] == img0_[qoff(t_, cx_, cy_, n_, xy_)]);
/*G*/            }
            if let Some(k) = find_neg(out, col, tile_size) {   // R-chunks-find, R-continue
            let xy = self.scratch.columns[col];
            let i = xy % tile_size;
            let j = xy / tile_size;
/*G*/            let ghost kf_ = k as int;
            let k = tile_size - 1 - k;
            let o = self.tile_sizes.pixel_offset(tile.add(Vector2::new(i, j)));
            let z = to_u32(tile.corner.z + k + 1);
/*G*/            proof { assert(o == qoff(t_, cx_, cy_, n_, xy_)); }
            assert!(self.out.data[o].depth < z);
            self.out.data[o].depth = z;
/*G*/            proof { assert(grad < n_ * n_); }
            self.scratch.xg[grad] =
                Grad::new(cast_f32(tile.corner.x + i), 1.0, 0.0, 0.0);
            self.scratch.yg[grad] =
                Grad::new(cast_f32(tile.corner.y + j), 0.0, 1.0, 0.0);
            self.scratch.zg[grad] =
                Grad::new(cast_f32(tile.corner.z + k), 0.0, 0.0, 1.0);
            self.scratch.columns[grad] = o;
/*G*/            proof {
/*G*/                let hit0 = hit_; let gq0 = gq_; let gk0 = gk_;
/*G*/                hit_ = hit_.push(grad as int);
/*G*/                gq_ = gq_.push(xy_);
/*G*/                gk_ = gk_.push(cz_ + k);
/*G*/                let img = self.out.data@;
/*G*/                let sc = self.scratch;
/*G*/                assert(out@[col * n_ + kf_] == fval(f_, f_of(qx(cx_, n_, xy_) as usize), f_of(qy(cy_, n_, xy_) as usize), f_of((cz_ + n_ - 1 - kf_) as usize)));
/*G*/                assert forall|kk: int| cz_ + k < kk < cz_ + n_ implies !neg(f_, qx(cx_, n_, xy_), qy(cy_, n_, xy_), kk) by {
/*G*/                    let q = cz_ + n_ - 1 - kk;
/*G*/                    assert(0 <= q < kf_);
/*G*/                    assert(out@[col * n_ + q] == fval(f_, f_of(qx(cx_, n_, xy_) as usize), f_of(qy(cy_, n_, xy_) as usize), f_of((cz_ + n_ - 1 - q) as usize)));
/*G*/                }
/*G*/                // earlier gradient samples are other pixels, earlier in the tile
/*G*/                assert forall|g: int| 0 <= g < grad implies qoff(t_, cx_, cy_, n_, #[trigger] gq0[g]) != o && gq0[g] < xy_ by {
/*G*/                    assert(gq0[g] <= cols1_[col - 1]);
/*G*/                    assert(cols1_[col - 1] < cols1_[col as int]);
/*G*/                    if qoff(t_, cx_, cy_, n_, gq0[g]) == o { lemma_q_inj(t_, cx_, cy_, n_, gq0[g], xy_); }
/*G*/                }
/*G*/                assert forall|g: int| 0 <= g < grad + 1 implies {
/*G*/                    &&& 0 <= #[trigger] gq_[g] < n_ * n_ && cz_ <= gk_[g] < cz_ + n_
/*G*/                    &&& sc.columns@[g] == qoff(t_, cx_, cy_, n_, gq_[g])
/*G*/                    &&& sc.xg@[g] == seed_x(f_of(qx(cx_, n_, gq_[g]) as usize))
/*G*/                    &&& sc.yg@[g] == seed_y(f_of(qy(cy_, n_, gq_[g]) as usize))
/*G*/                    &&& sc.zg@[g] == seed_z(f_of(gk_[g] as usize))
/*G*/                    &&& img[qoff(t_, cx_, cy_, n_, gq_[g])].depth == gk_[g] + 1
/*G*/                    &&& img[qoff(t_, cx_, cy_, n_, gq_[g])].normal == img0_[qoff(t_, cx_, cy_, n_, gq_[g])].normal
/*G*/                    &&& neg(f_, qx(cx_, n_, gq_[g]), qy(cy_, n_, gq_[g]), gk_[g])
/*G*/                    &&& forall|k: int| gk_[g] < k < cz_ + n_ ==> !neg(f_, qx(cx_, n_, gq_[g]), qy(cy_, n_, gq_[g]), k) } by {
/*G*/                    if g < grad {
/*G*/                        assert(gq_[g] == gq0[g] && gk_[g] == gk0[g]);
/*G*/                        assert(sc.columns@[g] == sc0_.columns@[g]);
/*G*/                        assert(sc.xg@[g] == sc0_.xg@[g] && sc.yg@[g] == sc0_.yg@[g] && sc.zg@[g] == sc0_.zg@[g]);
/*G*/                        assert(img[qoff(t_, cx_, cy_, n_, gq0[g])] == img1_[qoff(t_, cx_, cy_, n_, gq0[g])]);
/*G*/                    }
/*G*/                }
/*G*/                assert forall|c: int| 0 <= c < col + 1 implies (#[trigger] hit_[c] == -1 && img[qoff(t_, cx_, cy_, n_, cols1_[c] as int)] == img0_[qoff(t_, cx_, cy_, n_, cols1_[c] as int)]
/*G*/                        && forall|k: int| cz_ <= k < cz_ + n_ ==> !neg(f_, qx(cx_, n_, cols1_[c] as int), qy(cy_, n_, cols1_[c] as int), k))
/*G*/                    || (0 <= hit_[c] < grad + 1 && gq_[hit_[c]] == cols1_[c]) by {
/*G*/                    if c < col {
/*G*/                        assert(hit_[c] == hit0[c]);
/*G*/                        if hit0[c] == -1 { assert(img[qoff(t_, cx_, cy_, n_, cols1_[c] as int)] == img1_[qoff(t_, cx_, cy_, n_, cols1_[c] as int)]); }
/*G*/                        else { assert(gq_[hit0[c]] == gq0[hit0[c]]); }
/*G*/                    }
/*G*/                }
/*G*/                assert forall|g1: int, g2: int| 0 <= g1 < g2 < grad + 1 implies gq_[g1] < gq_[g2] by {
/*G*/                    assert(gq_[g1] == gq0[g1]);
/*G*/                    if g2 < grad { assert(gq_[g2] == gq0[g2]); }
/*G*/                }
/*G*/                assert forall|c: int| col + 1 <= c < cols1_.len() implies #[trigger] sc.columns@[c] == cols1_[c] by { assert(sc0_.columns@[c] == cols1_[c]); }
/*G*/            }
            grad += 1;
            }
/*G*/            proof {
/*G*/                if hit_.len() == col {
/*G*/                    let hit0 = hit_;
/*G*/                    hit_ = hit_.push(-1);
/*G*/                    assert forall|kk: int| cz_ <= kk < cz_ + n_ implies !neg(f_, qx(cx_, n_, xy_), qy(cy_, n_, xy_), kk) by {
/*G*/                        let q = cz_ + n_ - 1 - kk;
/*G*/                        assert(out@[col * n_ + q] == fval(f_, f_of(qx(cx_, n_, xy_) as usize), f_of(qy(cy_, n_, xy_) as usize), f_of((cz_ + n_ - 1 - q) as usize)));
/*G*/                    }
/*G*/                    assert forall|c: int| 0 <= c < col + 1 implies (#[trigger] hit_[c] == -1 && img1_[qoff(t_, cx_, cy_, n_, cols1_[c] as int)] == img0_[qoff(t_, cx_, cy_, n_, cols1_[c] as int)]
/*G*/                            && forall|k: int| cz_ <= k < cz_ + n_ ==> !neg(f_, qx(cx_, n_, cols1_[c] as int), qy(cy_, n_, cols1_[c] as int), k))
/*G*/                        || (0 <= hit_[c] < grad && gq_[hit_[c]] == cols1_[c]) by {
/*G*/                        if c < col { assert(hit_[c] == hit0[c]); }
/*G*/                    }
/*G*/                    assert forall|g: int| 0 <= g < grad implies #[trigger] gq_[g] <= cols1_[col as int] by {
/*G*/                        assert(gq_[g] <= cols1_[col - 1]);
/*G*/                        assert(cols1_[col - 1] < cols1_[col as int]);
/*G*/                    }
/*G*/                }
/*G*/            }
        }
/*G*/        let ghost img2_ = self.out.data@;
        if grad > 0 {
            let out = self
                .eval_grad_slice
                .eval_with_transform_and_vars(
                    shape.g_tape(&mut self.tape_storage),
                    prefix(&self.scratch.xg, grad),
                    prefix(&self.scratch.yg, grad),
                    prefix(&self.scratch.zg, grad),
                    &self.transform,
                    self.vars,
                )
                .unwrap();
            for index in 0..grad   // R-enumerate
/*G*/                invariant self.tile_sizes == old(self).tile_sizes, self.image_size == old(self).image_size, wwf_parts(self.tile_sizes, self.out, self.scratch), t_ == self.tile_sizes.0@[0], n_ >= 1, in_root(t_, cx_, cy_, n_),
/*G*/                    grad <= nc_, nc_ == self.scratch.columns@.len(), out@.len() == grad, gq_.len() == grad, gk_.len() == grad, img2_.len() == t_ * t_,
/*G*/                    forall|g: int| 0 <= g < grad ==> 0 <= #[trigger] gq_[g] < n_ * n_ && self.scratch.columns@[g] == qoff(t_, cx_, cy_, n_, gq_[g])
/*G*/                        && out@[g] == gnorm(f_, qx(cx_, n_, gq_[g]), qy(cy_, n_, gq_[g]), gk_[g]),
/*G*/                    forall|g1: int, g2: int| 0 <= g1 < g2 < grad ==> gq_[g1] < gq_[g2],
/*G*/                    l3_inv(f_, self.out.data@, img2_, index as int, grad as int, gq_, gk_, t_, cx_, cy_, n_),
            {
                let o = &self.scratch.columns[index];
                let g = out[index];
/*G*/                let ghost img_ = self.out.data@;
/*G*/                proof { lemma_q(t_, cx_, cy_, n_, gq_[index as int]); }
                self.out.data[*o].normal = [g.dx, g.dy, g.dz];
/*G*/                proof {
/*G*/                    let img = self.out.data@;
/*G*/                    assert forall|g: int| 0 <= g < index implies qoff(t_, cx_, cy_, n_, #[trigger] gq_[g]) != *o by {
/*G*/                        if qoff(t_, cx_, cy_, n_, gq_[g]) == *o { lemma_q_inj(t_, cx_, cy_, n_, gq_[g], gq_[index as int]); }
/*G*/                    }
/*G*/                    assert forall|g: int| 0 <= g < index + 1 implies img[qoff(t_, cx_, cy_, n_, #[trigger] gq_[g])].depth == img2_[qoff(t_, cx_, cy_, n_, gq_[g])].depth
/*G*/                        && nrm_is(img[qoff(t_, cx_, cy_, n_, gq_[g])], gnorm(f_, qx(cx_, n_, gq_[g]), qy(cy_, n_, gq_[g]), gk_[g])) by {
/*G*/                        if g < index { assert(img[qoff(t_, cx_, cy_, n_, gq_[g])] == img_[qoff(t_, cx_, cy_, n_, gq_[g])]); }
/*G*/                        else { assert(img_[*o as int] == img2_[*o as int]); }
/*G*/                    }
/*G*/                }
            }
        }
/*G*/        proof {
/*G*/            let img = self.out.data@;
/*G*/            // assemble: per pixel of the tile
/*G*/            assert forall|ax: int, ay: int| in_tile(ax, ay, cx_, cy_, n_) implies vox_ok(f_, img0_[off(t_, ax, ay)], #[trigger] img[off(t_, ax, ay)], ax, ay, cz_, n_) by {
/*G*/                lemma_q_of(cx_, cy_, n_, ax, ay);
/*G*/                let q = (ay - cy_) * n_ + (ax - cx_);
/*G*/                let o = qoff(t_, cx_, cy_, n_, q);
/*G*/                lemma_q(t_, cx_, cy_, n_, q);
/*G*/                assert(o == off(t_, ax, ay));
/*G*/                if cmap_[q] == -1 {
/*G*/                    // not a column: untouched, and already at or above the top of the slab
/*G*/                    assert forall|c: int| 0 <= c < nc_ implies o != qoff(t_, cx_, cy_, n_, #[trigger] cols1_[c] as int) by {
/*G*/                        if o == qoff(t_, cx_, cy_, n_, cols1_[c] as int) { lemma_q_inj(t_, cx_, cy_, n_, q, cols1_[c] as int); }
/*G*/                    }
/*G*/                    assert(img2_[o] == img0_[o]);
/*G*/                    assert forall|g: int| 0 <= g < grad implies o != qoff(t_, cx_, cy_, n_, #[trigger] gq_[g]) by {
/*G*/                        if o == qoff(t_, cx_, cy_, n_, gq_[g]) { lemma_q_inj(t_, cx_, cy_, n_, q, gq_[g]); }
/*G*/                    }
/*G*/                    assert(img[o] == img2_[o]);
/*G*/                } else {
/*G*/                    let c = cmap_[q];
/*G*/                    assert(cols1_[c] == q);
/*G*/                    if hit_[c] == -1 {
/*G*/                        assert(img2_[o] == img0_[o]);
/*G*/                        assert forall|g: int| 0 <= g < grad implies o != qoff(t_, cx_, cy_, n_, #[trigger] gq_[g]) by {
/*G*/                            if o == qoff(t_, cx_, cy_, n_, gq_[g]) { lemma_q_inj(t_, cx_, cy_, n_, q, gq_[g]); }
/*G*/                        }
/*G*/                        assert(img[o] == img2_[o]);
/*G*/                    } else {
/*G*/                        let g = hit_[c];
/*G*/                        assert(gq_[g] == q);
/*G*/                        assert(img[o].depth == gk_[g] + 1);
/*G*/                        assert(nrm_is(img[o], gnorm(f_, ax, ay, gk_[g])));
/*G*/                    }
/*G*/                }
/*G*/            }
/*G*/            assert forall|ax: int, ay: int| same_root(t_, cx_, cy_, ax, ay) && !in_tile(ax, ay, cx_, cy_, n_) implies #[trigger] img[off(t_, ax, ay)] == img0_[off(t_, ax, ay)] by {
/*G*/                let o = off(t_, ax, ay);
/*G*/                lemma_off_bound(t_, ax, ay);
/*G*/                assert forall|q: int| 0 <= q < n_ * n_ implies o != qoff(t_, cx_, cy_, n_, q) by {
/*G*/                    lemma_q(t_, cx_, cy_, n_, q);
/*G*/                    if o == qoff(t_, cx_, cy_, n_, q) { lemma_off_inj(t_, cx_, cy_, ax, ay, qx(cx_, n_, q), qy(cy_, n_, q)); }
/*G*/                }
/*G*/                assert forall|c: int| 0 <= c < nc_ implies o != qoff(t_, cx_, cy_, n_, #[trigger] cols1_[c] as int) by { }
/*G*/                assert(img2_[o] == img0_[o]);
/*G*/                assert forall|g: int| 0 <= g < grad implies o != qoff(t_, cx_, cy_, n_, #[trigger] gq_[g]) by { }
/*G*/                assert(img[o] == img2_[o]);
/*G*/            }
/*G*/        }
    }