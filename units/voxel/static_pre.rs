// ---------- geometry stand-ins (nalgebra)
#[derive(Copy, Clone)]
pub struct Point2<T> { pub x: T, pub y: T }
#[derive(Copy, Clone)]
pub struct Point3<T> { pub x: T, pub y: T, pub z: T }
#[derive(Copy, Clone)]
pub struct Vector2<T> { pub x: T, pub y: T }
#[derive(Copy, Clone)]
pub struct Vector3<T> { pub x: T, pub y: T, pub z: T }
impl<T> Point2<T> { pub fn new(x: T, y: T) -> (r: Self) ensures r.x == x, r.y == y { Point2 { x, y } } }
impl<T> Point3<T> { pub fn new(x: T, y: T, z: T) -> (r: Self) ensures r.x == x, r.y == y, r.z == z { Point3 { x, y, z } } }
impl<T> Vector2<T> { pub fn new(x: T, y: T) -> (r: Self) ensures r.x == x, r.y == y { Vector2 { x, y } } }
impl<T> Vector3<T> { pub fn new(x: T, y: T, z: T) -> (r: Self) ensures r.x == x, r.y == y, r.z == z { Vector3 { x, y, z } } }
pub fn pt_add(p: Point2<usize>, v: Vector2<usize>) -> (r: Point2<usize>)
    requires p.x + v.x <= usize::MAX, p.y + v.y <= usize::MAX
    ensures r.x == p.x + v.x, r.y == p.y + v.y
{ Point2 { x: p.x + v.x, y: p.y + v.y } }
pub fn pt3_add(p: Point3<usize>, v: Vector3<usize>) -> (r: Point3<usize>)
    requires p.x + v.x <= usize::MAX, p.y + v.y <= usize::MAX, p.z + v.z <= usize::MAX
    ensures r.x == p.x + v.x, r.y == p.y + v.y, r.z == p.z + v.z
{ Point3 { x: p.x + v.x, y: p.y + v.y, z: p.z + v.z } }
pub fn vec3_scale(v: Vector3<usize>, k: usize) -> (r: Vector3<usize>)
    requires v.x * k <= usize::MAX, v.y * k <= usize::MAX, v.z * k <= usize::MAX
    ensures r.x == v.x * k, r.y == v.y * k, r.z == v.z * k
{ Vector3 { x: v.x * k, y: v.y * k, z: v.z * k } }
pub uninterp spec fn f_of(n: usize) -> f32;
#[verifier::external_body]
pub fn cast_f32(n: usize) -> (r: f32) ensures r == f_of(n) { n as f32 }
/// R-cast: `Point3::from(p).cast::<f32>()`
pub fn cast_pt3(p: Point3<usize>) -> (r: Point3<f32>) ensures r.x == f_of(p.x), r.y == f_of(p.y), r.z == f_of(p.z) { Point3 { x: cast_f32(p.x), y: cast_f32(p.y), z: cast_f32(p.z) } }
/// R-tryinto: `usize -> u32` by `try_into().unwrap()`: panics unless the value fits
pub fn to_u32(n: usize) -> (r: u32) requires n <= u32::MAX ensures r == n { n as u32 }
/// R-pow: `n.pow(2)`, `n.pow(3)` (overflow is a panic in debug builds: an obligation here)
pub fn pow2(n: usize) -> (r: usize) requires n * n <= usize::MAX ensures r == n * n { n * n }
pub fn pow3(n: usize) -> (r: usize) requires n * n * n <= usize::MAX, n * n <= usize::MAX ensures r == n * n * n { n * n * n }
pub fn max_u32(a: u32, b: u32) -> (r: u32) ensures r == (if a >= b { a } else { b }) { if a >= b { a } else { b } }

// ---------- floats
pub uninterp spec fn fnan(a: f32) -> bool;
pub open spec fn fle(a: f32, b: f32) -> bool { a.partial_cmp_spec(&b) == Some(Ordering::Less) || a.partial_cmp_spec(&b) == Some(Ordering::Equal) }
pub open spec fn flt(a: f32, b: f32) -> bool { a.partial_cmp_spec(&b) == Some(Ordering::Less) }
pub uninterp spec fn fadd(a: f32, b: f32) -> f32;
#[verifier::external_body]
pub fn add_f32(a: f32, b: f32) -> (r: f32) ensures r == fadd(a, b) { a + b }
proof fn ax_cmp(a: f32, b: f32)
    ensures <f32 as PartialOrdSpec<f32>>::obeys_partial_cmp_spec(),
        (a.partial_cmp_spec(&b) == Some(Ordering::Greater)) <==> (b.partial_cmp_spec(&a) == Some(Ordering::Less)),
{ admit(); }
/// pixel and voxel coordinates are exactly representable and ordered as their integers (sizes far below 2^24)
proof fn ax_cast_mono(a: usize, b: usize) ensures a <= b ==> fle(f_of(a), f_of(b)), !fnan(f_of(a)) { admit(); }
proof fn ax_add_cast(a: usize, t: usize) ensures a + t <= 16777216 ==> fadd(f_of(a), f_of(t)) == f_of((a + t) as usize) { admit(); }

#[derive(Copy, Clone)]
pub struct Interval { pub lower: f32, pub upper: f32 }
impl Interval {
    #[verifier::external_body]
    pub fn new(lower: f32, upper: f32) -> (r: Self) ensures r.lower == lower, r.upper == upper { unimplemented!() }
    pub fn lower(&self) -> (r: f32) ensures r == self.lower { self.lower }
    pub fn upper(&self) -> (r: f32) ensures r == self.upper { self.upper }
}
pub open spec fn mem(v: f32, i: Interval) -> bool { fle(i.lower, v) && fle(v, i.upper) }

#[derive(Copy, Clone)]
pub struct Grad { pub v: f32, pub dx: f32, pub dy: f32, pub dz: f32 }
impl Grad {
    pub fn new(v: f32, dx: f32, dy: f32, dz: f32) -> (r: Self) ensures r == (Grad { v, dx, dy, dz }) { Grad { v, dx, dy, dz } }
}

// ---------- the shape function behind a handle (ghost)
pub type Fn_ = int;
/// value of function f at screen position (x, y, z) under the worker's transform and variables
pub uninterp spec fn fval(f: Fn_, x: f32, y: f32, z: f32) -> f32;
/// result of the gradient evaluation of f on the dual numbers (x, y, z) under the worker's transform and variables
pub uninterp spec fn geval(f: Fn_, x: Grad, y: Grad, z: Grad) -> Grad;
#[verifier::external_body]
pub struct ITape { _p: u8 }
#[verifier::external_body]
pub struct FTape { _p: u8 }
#[verifier::external_body]
pub struct GTape { _p: u8 }
impl ITape { pub uninterp spec fn f(&self) -> Fn_; }
pub uninterp spec fn ftape_f(t: &FTape) -> Fn_;
pub uninterp spec fn gtape_f(t: &GTape) -> Fn_;
/// a tape evaluates one function
pub trait TapeF { spec fn f(&self) -> Fn_; }
impl TapeF for FTape { open spec fn f(&self) -> Fn_ { ftape_f(self) } }
impl TapeF for GTape { open spec fn f(&self) -> Fn_ { gtape_f(self) } }
/// the sample types of the many-point evaluators: what evaluating f on one sample means
pub trait Datum: Sized { spec fn ev(f: Fn_, x: Self, y: Self, z: Self) -> Self; }
impl Datum for f32 { open spec fn ev(f: Fn_, x: f32, y: f32, z: f32) -> f32 { fval(f, x, y, z) } }
impl Datum for Grad { open spec fn ev(f: Fn_, x: Grad, y: Grad, z: Grad) -> Grad { geval(f, x, y, z) } }
pub uninterp spec fn tr_ok<T>(t: &T, f: Fn_, x: Interval, y: Interval, z: Interval) -> bool;
/// g and f have the same values AND the same gradient evaluation on the box
pub open spec fn agree_on(g: Fn_, f: Fn_, bx: Interval, by: Interval, bz: Interval) -> bool {
    &&& forall|x: f32, y: f32, z: f32| mem(x, bx) && mem(y, by) && mem(z, bz) ==> #[trigger] fval(g, x, y, z) == fval(f, x, y, z)
    &&& forall|x: Grad, y: Grad, z: Grad| mem(x.v, bx) && mem(y.v, by) && mem(z.v, bz) ==> #[trigger] geval(g, x, y, z) == geval(f, x, y, z)
}
pub trait TracingEvaluator { type Trace; }
pub trait BulkEvaluator { type Data: Datum; type Tape: TapeF; }
pub trait Function {
    type Trace;
    type Storage;
    type Workspace: Default;
    type TapeStorage;
    type IntervalEval: TracingEvaluator<Trace = Self::Trace>;
    type FloatSliceEval: BulkEvaluator<Data = f32, Tape = FTape>;
    type GradSliceEval: BulkEvaluator<Data = Grad, Tape = GTape>;
}
#[verifier::external_body]
#[verifier::accept_recursive_types(T)]
pub struct ShapeVars<T> { _p: core::marker::PhantomData<T> }
#[verifier::external_body]
#[verifier::accept_recursive_types(T)]
pub struct Matrix4<T> { _p: core::marker::PhantomData<T> }
#[verifier::external_body]
#[verifier::accept_recursive_types(F)]
pub struct RenderHandle<F: Function> { _p: core::marker::PhantomData<F> }
impl<F: Function> RenderHandle<F> {
    pub uninterp spec fn f(&self) -> Fn_;
    #[verifier::external_body]
    pub fn i_tape(&mut self, storage: &mut Vec<F::TapeStorage>) -> (r: &ITape) ensures r.f() == old(self).f(), final(self).f() == old(self).f() { unimplemented!() }
    #[verifier::external_body]
    pub fn f_tape(&mut self, storage: &mut Vec<F::TapeStorage>) -> (r: &FTape) ensures r.f() == old(self).f(), final(self).f() == old(self).f() { unimplemented!() }
    #[verifier::external_body]
    pub fn g_tape(&mut self, storage: &mut Vec<F::TapeStorage>) -> (r: &GTape) ensures r.f() == old(self).f(), final(self).f() == old(self).f() { unimplemented!() }
    /// C04 + C05 (ASSUMED here): the simplified function agrees with the parent, in value and in gradient evaluation, on every box the
    /// trace is valid for; the parent keeps its function
    #[verifier::external_body]
    pub fn simplify(&mut self, trace: &F::Trace, workspace: &mut F::Workspace, shape_storage: &mut Vec<F::Storage>, tape_storage: &mut Vec<F::TapeStorage>) -> (r: &mut Self)
        ensures final(self).f() == old(self).f(),
            forall|bx: Interval, by: Interval, bz: Interval| #[trigger] tr_ok(trace, old(self).f(), bx, by, bz) ==> agree_on(r.f(), old(self).f(), bx, by, bz),
    { unimplemented!() }
}
#[derive(Debug)]
pub enum ShapeTracingEvalError { MissingVar(u8) }
#[derive(Debug)]
pub enum ShapeBulkEvalError { MissingVar(u8), MismatchedVarSlices { a: u8 } }
pub struct ShapeTracingEval<E: TracingEvaluator> { pub p: core::marker::PhantomData<E> }
impl<E: TracingEvaluator> Default for ShapeTracingEval<E> { fn default() -> Self { ShapeTracingEval { p: core::marker::PhantomData } } }
impl<E: TracingEvaluator> ShapeTracingEval<E> {
    /// C03 + C14 (ASSUMED here)
    #[verifier::external_body]
    pub fn eval_with_transform_and_vars(&mut self, tape: &ITape, x: Interval, y: Interval, z: Interval, mat: &Matrix4<f32>, vars: &ShapeVars<f32>) -> (r: Result<(Interval, Option<&E::Trace>), ShapeTracingEvalError>)
        ensures r is Ok,
            forall|px: f32, py: f32, pz: f32| mem(px, x) && mem(py, y) && mem(pz, z) ==> {
                let v = #[trigger] fval(tape.f(), px, py, pz);
                (flt(r->Ok_0.0.upper, 0.0f32) ==> flt(v, 0.0f32)) && (flt(0.0f32, r->Ok_0.0.lower) ==> flt(0.0f32, v)) },
            r->Ok_0.1 is Some ==> tr_ok(r->Ok_0.1->Some_0, tape.f(), x, y, z),
    { unimplemented!() }
}
pub struct ShapeBulkEval<E: BulkEvaluator> { pub p: core::marker::PhantomData<E> }
impl<E: BulkEvaluator> Default for ShapeBulkEval<E> { fn default() -> Self { ShapeBulkEval { p: core::marker::PhantomData } } }
impl<E: BulkEvaluator> ShapeBulkEval<E> {
    /// C01/C02 (values), C05 (dual numbers) + C14 (ASSUMED here): one result per sample, the evaluation of the function on that sample
    #[verifier::external_body]
    pub fn eval_with_transform_and_vars(&mut self, tape: &E::Tape, x: &[E::Data], y: &[E::Data], z: &[E::Data], mat: &Matrix4<f32>, vars: &ShapeVars<f32>) -> (r: Result<&[E::Data], ShapeBulkEvalError>)
        requires x@.len() == y@.len(), y@.len() == z@.len()
        ensures r is Ok, r->Ok_0@.len() == x@.len(),
            forall|k: int| 0 <= k < x@.len() ==> #[trigger] r->Ok_0@[k] == E::Data::ev(tape.f(), x@[k], y@[k], z@[k]),
    { unimplemented!() }
}
/// R-prefix: `&v[..n]`
#[verifier::external_body]
pub fn prefix<T>(v: &Vec<T>, n: usize) -> (r: &[T]) requires n <= v@.len() ensures r@ == v@.subrange(0, n as int) { &v[..n] }

// ---------- pixels and the tile image
#[derive(Copy, Clone)]
pub struct GeometryPixel { pub normal: [f32; 3], pub depth: u32 }
pub struct Image { pub data: Vec<GeometryPixel> }

pub open spec fn t0<F: Function>(w: &Worker<'_, F>) -> int { w.tile_sizes.0@[0] as int }
pub open spec fn off(t: int, ax: int, ay: int) -> int { (ax % t) + (ay % t) * t }
pub open spec fn in_tile(ax: int, ay: int, cx: int, cy: int, size: int) -> bool { cx <= ax < cx + size && cy <= ay < cy + size }
pub open spec fn in_root(t: int, cx: int, cy: int, size: int) -> bool { cx >= 0 && cy >= 0 && (cx % t) + size <= t && (cy % t) + size <= t }
pub open spec fn same_root(t: int, cx: int, cy: int, ax: int, ay: int) -> bool { ax >= 0 && ay >= 0 && ax / t == cx / t && ay / t == cy / t }

// ---------- what the voxel renderer computes
/// the voxel (ax, ay, k) is inside the shape f
pub open spec fn neg(f: Fn_, ax: int, ay: int, k: int) -> bool { flt(fval(f, f_of(ax as usize), f_of(ay as usize), f_of(k as usize)), 0.0f32) }
pub open spec fn seed_x(v: f32) -> Grad { Grad { v, dx: 1.0f32, dy: 0.0f32, dz: 0.0f32 } }
pub open spec fn seed_y(v: f32) -> Grad { Grad { v, dx: 0.0f32, dy: 1.0f32, dz: 0.0f32 } }
pub open spec fn seed_z(v: f32) -> Grad { Grad { v, dx: 0.0f32, dy: 0.0f32, dz: 1.0f32 } }
/// gradient of f at voxel (ax, ay, k)
pub open spec fn gnorm(f: Fn_, ax: int, ay: int, k: int) -> Grad { geval(f, seed_x(f_of(ax as usize)), seed_y(f_of(ay as usize)), seed_z(f_of(k as usize))) }
pub open spec fn nrm_is(p: GeometryPixel, g: Grad) -> bool { p.normal@.len() == 3 && p.normal@[0] == g.dx && p.normal@[1] == g.dy && p.normal@[2] == g.dz }
/// before the slab [cz, cz + n) is looked at, a pixel is empty or was set from above the slab
pub open spec fn pre_ok(p: GeometryPixel, cz: int, n: int) -> bool { p.depth == 0 || p.depth >= cz + n + 1 }
/// what the slab [cz, cz + n) does to the pixel at (ax, ay): nothing; or (the pixel was empty) the highest inside voxel of the slab plus one,
/// with the gradient at that voxel; or (the pixel was empty and the whole tile is inside on interval evidence) the slab's top plus one, the
/// voxel just above the slab being inside as well.  In every case no inside voxel of the slab lies at or above the reported depth.
pub open spec fn vox_ok(f: Fn_, p0: GeometryPixel, p1: GeometryPixel, ax: int, ay: int, cz: int, n: int) -> bool {
    &&& (p1 == p0
        || (p0.depth == 0 && cz + 1 <= p1.depth <= cz + n && neg(f, ax, ay, p1.depth - 1) && nrm_is(p1, gnorm(f, ax, ay, p1.depth - 1)))
        || (p0.depth == 0 && p1.depth == cz + n + 1 && neg(f, ax, ay, cz + n) && p1.normal == p0.normal))
    &&& forall|k: int| cz <= k < cz + n && #[trigger] neg(f, ax, ay, k) ==> p1.depth >= k + 1
}
pub open spec fn tile_pre(img: Seq<GeometryPixel>, t: int, cx: int, cy: int, cz: int, n: int) -> bool {
    forall|ax: int, ay: int| in_tile(ax, ay, cx, cy, n) ==> pre_ok(#[trigger] img[off(t, ax, ay)], cz, n)
}
pub open spec fn tile_ok(f: Fn_, img0: Seq<GeometryPixel>, img1: Seq<GeometryPixel>, t: int, cx: int, cy: int, cz: int, n: int) -> bool {
    forall|ax: int, ay: int| in_tile(ax, ay, cx, cy, n) ==> vox_ok(f, img0[off(t, ax, ay)], #[trigger] img1[off(t, ax, ay)], ax, ay, cz, n)
}
pub open spec fn frame(old_img: Seq<GeometryPixel>, new_img: Seq<GeometryPixel>, t: int, cx: int, cy: int, size: int) -> bool {
    &&& new_img.len() == old_img.len()
    &&& forall|ax: int, ay: int| same_root(t, cx, cy, ax, ay) && !in_tile(ax, ay, cx, cy, size) ==> #[trigger] new_img[off(t, ax, ay)] == old_img[off(t, ax, ay)]
}
pub open spec fn ts_last(ts: TileSizesRef) -> int { ts.0@[ts.0@.len() - 1] as int }
pub open spec fn last_size<F: Function>(w: &Worker<'_, F>) -> int { ts_last(w.tile_sizes) }
pub open spec fn wwf_parts(ts: TileSizesRef, out: Image, sc: Scratch) -> bool {
    &&& ts.wf()
    &&& out.data@.len() == ts.0@[0] * ts.0@[0]
    &&& sc.x@.len() == ts_last(ts) * ts_last(ts) * ts_last(ts)
    &&& sc.y@.len() == sc.x@.len() && sc.z@.len() == sc.x@.len()
    &&& sc.xg@.len() == ts_last(ts) * ts_last(ts)
    &&& sc.yg@.len() == sc.xg@.len() && sc.zg@.len() == sc.xg@.len()
}
pub open spec fn wwf<F: Function>(w: &Worker<'_, F>) -> bool { wwf_parts(w.tile_sizes, w.out, w.scratch) }

// ---------- index arithmetic
pub open spec fn sizes_wf(s: Seq<usize>) -> bool {
    &&& 1 <= s.len() <= usize::MAX
    &&& forall|i: int| 0 <= i < s.len() ==> #[trigger] s[i] >= 1
    &&& forall|i: int| 0 <= i < s.len() - 1 ==> #[trigger] step_ok(s, i)
    &&& s[0] * s[0] <= 16777216
}
pub open spec fn step_ok(s: Seq<usize>, i: int) -> bool { s[i] > s[i + 1] && s[i] % s[i + 1] == 0 }
pub proof fn lemma_sizes_desc(s: Seq<usize>, a: int, b: int)
    requires sizes_wf(s), 0 <= a <= b < s.len()
    ensures s[b] <= s[a]
    decreases b - a
{
    if a < b { assert(step_ok(s, b - 1)); lemma_sizes_desc(s, a, b - 1); }
}
pub proof fn lemma_mod_shift(c: int, i: int, t: int)
    requires t > 0, c >= 0, 0 <= i, (c % t) + i < t
    ensures (c + i) % t == (c % t) + i, (c + i) / t == c / t
{
    vstd::arithmetic::div_mod::lemma_fundamental_div_mod(c, t);
    assert(t * (c / t) == (c / t) * t) by (nonlinear_arith);
    assert(c + i == (c / t) * t + ((c % t) + i));
    vstd::arithmetic::div_mod::lemma_fundamental_div_mod_converse(c + i, t, c / t, (c % t) + i);
}
pub proof fn lemma_loc_bound(t: int, a: int, b: int)
    requires 0 <= a < t, 0 <= b < t
    ensures 0 <= a + b * t < t * t
{
    assert(b * t <= (t - 1) * t) by (nonlinear_arith) requires 0 <= b < t, t > 0;
    assert((t - 1) * t + t == t * t) by (nonlinear_arith);
    assert(0 <= b * t) by (nonlinear_arith) requires 0 <= b, t > 0;
}
pub proof fn lemma_loc_inj(t: int, a: int, b: int, c: int, d: int)
    requires 0 <= a < t, 0 <= c < t, 0 <= b, 0 <= d, a + b * t == c + d * t
    ensures a == c, b == d
{
    vstd::arithmetic::div_mod::lemma_fundamental_div_mod_converse(a + b * t, t, b, a);
    vstd::arithmetic::div_mod::lemma_fundamental_div_mod_converse(c + d * t, t, d, c);
}
pub proof fn lemma_divmod_idx(n: int, j: int, i: int)
    requires n > 0, 0 <= i < n, 0 <= j
    ensures (j * n + i) % n == i, (j * n + i) / n == j
{
    vstd::arithmetic::div_mod::lemma_fundamental_div_mod_converse(j * n + i, n, j, i);
}
pub proof fn lemma_off_bound(t: int, ax: int, ay: int)
    requires t > 0, ax >= 0, ay >= 0
    ensures 0 <= off(t, ax, ay) < t * t
{
    vstd::arithmetic::div_mod::lemma_mod_pos_bound(ax, t);
    vstd::arithmetic::div_mod::lemma_mod_pos_bound(ay, t);
    lemma_loc_bound(t, ax % t, ay % t);
}
pub proof fn lemma_off(t: int, cx: int, cy: int, size: int, ax: int, ay: int)
    requires t > 0, in_root(t, cx, cy, size), in_tile(ax, ay, cx, cy, size)
    ensures off(t, ax, ay) == ((cx % t) + (ax - cx)) + ((cy % t) + (ay - cy)) * t, 0 <= off(t, ax, ay) < t * t, same_root(t, cx, cy, ax, ay)
{
    lemma_mod_shift(cx, ax - cx, t);
    lemma_mod_shift(cy, ay - cy, t);
    vstd::arithmetic::div_mod::lemma_mod_pos_bound(cx, t);
    vstd::arithmetic::div_mod::lemma_mod_pos_bound(cy, t);
    lemma_loc_bound(t, (cx % t) + (ax - cx), (cy % t) + (ay - cy));
}
pub proof fn lemma_off_inj(t: int, cx: int, cy: int, ax: int, ay: int, bx: int, by: int)
    requires t > 0, same_root(t, cx, cy, ax, ay), same_root(t, cx, cy, bx, by), off(t, ax, ay) == off(t, bx, by)
    ensures ax == bx, ay == by
{
    vstd::arithmetic::div_mod::lemma_mod_pos_bound(ax, t);
    vstd::arithmetic::div_mod::lemma_mod_pos_bound(ay, t);
    vstd::arithmetic::div_mod::lemma_mod_pos_bound(bx, t);
    vstd::arithmetic::div_mod::lemma_mod_pos_bound(by, t);
    lemma_loc_inj(t, ax % t, ay % t, bx % t, by % t);
    vstd::arithmetic::div_mod::lemma_fundamental_div_mod(ax, t);
    vstd::arithmetic::div_mod::lemma_fundamental_div_mod(ay, t);
    vstd::arithmetic::div_mod::lemma_fundamental_div_mod(bx, t);
    vstd::arithmetic::div_mod::lemma_fundamental_div_mod(by, t);
}
