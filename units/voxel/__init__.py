"""Unit `voxel` (C07): the z-descending tile recursion of the 3D renderer, fidget-raster/src/voxel.rs `Worker::{render_tile, render_tile_recurse,
render_tile_pixels, tile_row_offset}` on their real text, generic over `F: Function`, plus the tile helpers of fidget-raster/src/lib.rs.

What is proved (every tile-size list `TileSizes::new` accepts with root tile <= 4096, every recursion depth, every tile position inside one
root tile, voxel coordinates below 2^24): for the pixel column at (ax, ay) of a root tile, after `render_tile` the reported pixel p satisfies
`vox_ok(f, default, p, ax, ay, 0, Z)` with Z = ceil(depth / root) * root:
  * p is the default pixel (depth 0), or 1 <= p.depth <= Z, voxel (ax, ay, p.depth - 1) is inside the ORIGINAL function of the handle and
    p.normal is the gradient evaluation of the original function at that voxel, or p.depth == Z + 1 and the voxel just above the slabs is
    inside (the case the property excludes: "negative just beyond the top of the grid");
  * no voxel of the column at or above p.depth (below Z) is inside - so p.depth is one more than the index of the highest inside voxel.
"Early termination on full or empty tiles and front-to-back ordering must not change the result" is this postcondition: the early exits, the
per-pixel skip, the interval fills and the simplified tapes are all inside the proved functions.  Also proved: no panic (the `assert!`s of
render_tile_pixels incl. `size > 0` and `depth < z`, every `try_into().unwrap()`, every index into the tile image and the scratch arrays - the
`get_unchecked_mut` writes are checked as ordinary indexing, which discharges the SAFETY comment), nothing outside the tile's footprint written.

What is ASSUMED (contracts of the trusted stand-ins, each a claimed property of its own): C03+C14 the interval result decides the sign on
the whole box and a returned trace is valid there; C04(+C05) the simplified function agrees with its parent, in value and in gradient
evaluation, on the traced box; C01/C02/C05+C14 the bulk evaluators return per sample the evaluation of the function on that sample.
Float facts: voxel coordinates below 2^24 convert exactly and monotonically (`ax_cast_mono`, `ax_add_cast`), `ax_cmp`.

The proof text is woven into the real text line by line (`weave`): the template (tmpl_*.rs) holds the annotated functions with every ghost
line marked `/*G*/`; its code lines are aligned (difflib) with the rewritten real lines and the REAL lines are emitted, so an edit of the code
is verified as edited (and fails its obligation if it breaks the invariant) instead of being masked by the template."""
import os, re, difflib
from lib import rsx
from lib.rsx import ExtractError
from lib.verus_engine import Injector, Obligation

LIB_RS = 'fidget-raster/src/lib.rs'
VOX_RS = 'fidget-raster/src/voxel.rs'
HERE = os.path.dirname(os.path.abspath(__file__))
PROPS = ['C07']


def norm(s):
    return re.sub(r'\s+', '', s)


def sub_once(text, old, new, what):
    if text.count(old) != 1:
        raise ExtractError('%s: expected exactly one %r, found %d' % (what, old[:70], text.count(old)))
    return text.replace(old, new)


def sub_re(text, pat, new, what, count, trace=None, rule=None, flags=0):
    """count: exact number of sites, None for 'at least one', 'any' for 'zero or more' (tolerant of edits that add or remove a site)"""
    text, n = re.subn(pat, new, text, flags=flags)
    if count == 'any':
        if trace is not None and rule:
            trace.fire(rule, n)
        return text
    if (count is None and n == 0) or (count is not None and n != count):
        raise ExtractError('%s: %s expected %d site(s) of /%s/, found %d' % (what, rule or 'rewrite', count if count is not None else 1, pat[:50], n))
    if trace is not None and rule:
        trace.fire(rule, n)
    return text


def body_of(text, header_re, what):
    """(start of the line holding the header, index of the opening brace, index after the closing brace) of the block whose header matches"""
    m = re.search(header_re, text, re.M)
    if not m:
        raise ExtractError('%s: %r not found' % (what, header_re[:60]))
    ob = text.index('{', m.end() - 1) if text[m.end() - 1] != '{' else m.end() - 1
    cb = rsx.match_brace(text, ob)
    return m.start(), ob, cb + 1


def r_continue(text, cond_re, what, trace):
    """R-continue: `if COND {\n continue;\n }` followed by REST up to the end of the enclosing loop body  ->  `if !(COND) { REST }`"""
    m = re.search(r'if (%s) \{\s*continue;\s*\}\n' % cond_re, text)
    if not m:
        raise ExtractError('%s: R-continue site /%s/ not found' % (what, cond_re[:40]))
    # the enclosing block: scan back for the nearest unmatched `{`
    depth, i = 0, m.start()
    while i > 0:
        i -= 1
        if text[i] == '}':
            depth += 1
        elif text[i] == '{':
            if depth == 0:
                break
            depth -= 1
    end = rsx.match_brace(text, i)
    rest = text[m.end():end]
    ind = re.match(r' *', text[rsx.line_start(text, m.start()):]).group(0)
    trace.fire('R-continue')
    return text[:m.start()] + 'if !(%s) {   // R-continue\n' % m.group(1) + rest.rstrip(' ') + ind + '}\n' + ind[:-4] + text[end:]


def r_revrange(text, var, bound_re, what, trace):
    """R-revrange: `for V in (0..B).rev() {`  ->  `let mut V_ = B; while V_ > 0 { V_ -= 1; let V = V_;`"""
    m = re.search(r'( *)for %s in \(0\.\.(%s)\)\.rev\(\) \{\n' % (var, bound_re), text)
    if not m:
        raise ExtractError('%s: R-revrange loop over %s not found' % (what, var))
    ind = m.group(1)
    trace.fire('R-revrange')
    return text[:m.start()] + '%slet mut k_ = %s;   // R-revrange\n%swhile k_ > 0\n%s{\n%s    k_ -= 1;\n%s    let %s = k_;\n' % (ind, m.group(2), ind, ind, ind, ind, var) + text[m.end():]


def build_pixels(f, trace):
    q = 'Worker::render_tile_pixels'
    f = sub_re(f, r'\btile_size\.pow\(3\)', 'pow3(tile_size)', q, 3, trace, 'R-pow')
    f = sub_re(f, r'\btile_size\.pow\(2\)', 'pow2(tile_size)', q, 1, trace, 'R-pow')
    f = sub_re(f, r'\btile\.corner\[0\]', 'tile.corner.x', q, None, trace, 'R-ptindex')
    f = sub_re(f, r'\btile\.corner\[1\]', 'tile.corner.y', q, None, trace, 'R-ptindex')
    f = sub_re(f, r'\btile\.corner\[2\]', 'tile.corner.z', q, None, trace, 'R-ptindex')
    f = sub_re(f, r'\(([^()]+)\)\.try_into\(\)\.unwrap\(\)', r'to_u32(\1)', q, None, trace, 'R-tryinto')
    f = sub_re(f, r'\bself\.out\[', 'self.out.data[', q, None, trace, 'R-imgindex')
    f = r_continue(f, r'[^{};]+?', q, trace)
    f = r_revrange(f, 'k', 'tile_size', q, trace)
    # R-unchecked: `unsafe { *v.get_unchecked_mut(i) = e; ... }` -> `v[i] = e; ...` (the bounds check becomes an obligation)
    m = re.search(r'( *)unsafe \{\n((?:.*\n)*?)\1\}\n', f)
    if not m:
        raise ExtractError('%s: R-unchecked: unsafe block not found' % q)
    inner, n = re.subn(r'\*self\.scratch\.(\w+)\.get_unchecked_mut\(index\) =\s*', r'self.scratch.\1[index] = ', m.group(2))
    if n != 3 or 'get_unchecked' in inner or 'unsafe' in f[:m.start()] + f[m.end():]:
        raise ExtractError('%s: R-unchecked expected 3 writes, found %d' % (q, n))
    inner = '\n'.join(l[4:] if l.startswith(m.group(1) + '    ') else l for l in inner.split('\n'))
    f = f[:m.start()] + inner + f[m.end():]
    trace.fire('R-unchecked', 3)
    f = sub_re(f, r'\(([^()]+)\) as f32', r'cast_f32(\1)', q, None, trace, 'R-cast')
    f = sub_re(f, r'&self\.scratch\.(\w+)\[\.\.([^\]]+)\]', r'prefix(&self.scratch.\1, \2)', q, None, trace, 'R-prefix')
    # R-chunks-find: the chunk iterator advanced once per column, then the position of the first negative sample
    f = sub_re(f, r' *let mut depth = out\.chunks\(tile_size\);\n', '', q, 1)
    m = re.search(r'( *)let depth = depth\.next\(\)\.unwrap\(\);\n\s*(?:let k = match depth\.iter\(\)\.enumerate\(\)\.find\(\|\(_, d\)\| \*\*d < 0\.0\) \{\s*Some\(\(i, _\)\) => i,\s*None => continue,\s*\};'
                  r'|let Some\(\(k, _\)\) =\s*depth\.iter\(\)\.enumerate\(\)\.find\(\|\(_, d\)\| \*\*d < 0\.0\)\s*else \{\s*continue;\s*\};)\n', f)   # the match form or the let-else form
    if not m:
        raise ExtractError('%s: R-chunks-find site changed' % q)
    # the rest of the loop body moves into the `if let`
    depth, i = 0, m.start()
    while i > 0:
        i -= 1
        if f[i] == '}':
            depth += 1
        elif f[i] == '{':
            if depth == 0:
                break
            depth -= 1
    end = rsx.match_brace(f, i)
    ind = m.group(1)
    f = f[:m.start()] + ind + 'if let Some(k) = find_neg(out, col, tile_size) {   // R-chunks-find, R-continue\n' + f[m.end():end].rstrip(' ') + ind + '}\n' + ind[:-4] + f[end:]
    trace.fire('R-chunks-find')
    trace.fire('R-continue')
    # R-enumerate
    f = sub_re(f, r'for \(index, o\) in self\.scratch\.columns\[0\.\.grad\]\.iter\(\)\.enumerate\(\) \{\n( *)', r'for index in 0..grad {\n\1let o = &self.scratch.columns[index];   // R-enumerate\n\1', q, 1, trace, 'R-enumerate')
    f = sub_once(f, 'for col in 0..self.scratch.columns.len()', 'for col in iter_: 0..self.scratch.columns.len()', q)
    f = sub_once(f, '    ) {\n', '    )\n    {\n', q)
    return f


def build_recurse(f, trace):
    q = 'Worker::render_tile_recurse'
    f = sub_re(f, r'\bself\.tile_sizes\[depth\]', '*self.tile_sizes.index(depth)', q, 1, trace, 'R-index')
    f = sub_re(f, r'\btile\.corner\[2\]', 'tile.corner.z', q, None, trace, 'R-ptindex')
    f = sub_re(f, r'\(([^()]+)\)\.try_into\(\)\.unwrap\(\)', r'to_u32(\1)', q, None, trace, 'R-tryinto')
    f = sub_re(f, r'\bself\.out\[', 'self.out.data[', q, None, trace, 'R-imgindex')
    # R-all: `(0..n).all(|y| { let i = E; (0..n).all(|x| P) })` as two loops over the same ranges computing the conjunction (P is pure)
    m = re.search(r'( *)if \(0\.\.tile_size\)\.all\(\|y\| \{\n\s*let i = self\.tile_row_offset\(tile, y\);\n\s*\(0\.\.tile_size\)\.all\(\|x\| ([^|\n]+)\)\n\s*\}\) \{\n', f)
    if not m:
        raise ExtractError('%s: R-all site changed' % q)
    ind = m.group(1)
    f = (f[:m.start()] + ind + 'let mut all_ = true;   // R-all\n' + ind + 'for y in 0..tile_size {\n' + ind + '    let i = self.tile_row_offset(tile, y);\n' + ind + '    for x in 0..tile_size {\n'
         + ind + '        if !(%s) {\n' % m.group(2) + ind + '            all_ = false;\n' + ind + '        }\n' + ind + '    }\n' + ind + '}\n' + ind + 'if all_ {\n' + f[m.end():])
    trace.fire('R-all')
    f = sub_once(f, 'let base = Point3::from(tile.corner).cast::<f32>();', 'let base = cast_pt3(tile.corner);   // R-cast', q)
    f = sub_re(f, r'base\.(x|y|z) \+ tile_size as f32', r'add_f32(base.\1, cast_f32(tile_size))', q, 3, trace, 'R-fadd')
    trace.fire('R-cast', 4)
    f = sub_re(f, r'= (self\.out\.data\[[^\]]+\]\.depth)\.max\(([^()]+)\);', r'= max_u32(\1, \2);   // R-minmax', q, 'any', trace, 'R-minmax')
    f = r_revrange(f, 'k', 'n', q, trace)
    f = sub_re(f, r'tile\.corner\s*\+ Vector3::new\(i, j, k\) \* next_tile_size', 'pt3_add(tile.corner, vec3_scale(Vector3::new(i, j, k), next_tile_size))', q, 1, trace, 'R-opcall')
    trace.fire('R-opcall')
    f = sub_once(f, ') -> bool {', ') -> (r: bool)\n    {', q)
    return f


def build_tile(f, trace):
    q = 'Worker::render_tile'
    f = sub_re(f, r'\bself\.tile_sizes\[0\]', '*self.tile_sizes.index(0)', q, 1, trace, 'R-index')
    f, n_ = re.subn(r'\bself\.out\[', 'self.out.data[', f)   # R-imgindex (none in the pinned text; an edit may add one)
    trace.fire('R-imgindex', n_)
    f = sub_once(f, 'self.out = Image::new(RenderSize::from(root_tile_size as u32));', 'self.out = Image::new(voxel_size_from(root_tile_size as u32));   // R-from', q)
    trace.fire('R-from')
    # R-ptindex / R-divceil wherever they stand (in the loop header, or in a local the bound was hoisted into), then R-revrange on the loop
    f = sub_re(f, r'\bself\.image_size\[2\]', 'self.image_size.d', q, None, trace, 'R-ptindex')
    f = sub_re(f, r'(self\.image_size\.d)\.div_ceil\(([^()]+)\)', r'div_ceil_u32(\1, \2)', q, None, trace, 'R-divceil')
    m = re.search(r'( *)for k in \(0\.\.([^\n]+)\)\.rev\(\) \{\n', f)
    if not m:
        raise ExtractError('%s: slab loop header changed' % q)
    ind = m.group(1)
    f = (f[:m.start()] + ind + 'let mut k_ = ' + m.group(2) + ';   // R-ptindex, R-divceil, R-revrange\n' + ind + 'while k_ > 0\n' + ind + '{\n'
         + ind + '    k_ -= 1;\n' + ind + '    let k = k_;\n' + f[m.end():])
    trace.fire('R-revrange')
    # the call's value is named so that the proof can speak about it
    f = sub_once(f, 'if !self.render_tile_recurse(shape, 0, tile) {', 'let keep_ = self.render_tile_recurse(shape, 0, tile);   // R-let\n            if !keep_ {', q)
    trace.fire('R-let')
    f = sub_once(f, 'std::mem::take(&mut self.out)', 'take_image(&mut self.out)   // R-memtake', q)
    trace.fire('R-memtake')
    f = sub_once(f, ') -> Self::Output {', ') -> (r: Image)\n    {', q)
    trace.fire('R-traitfn')
    return f


def build_rowoff(f, trace):
    f = sub_once(f, ') -> usize {', ') -> (r: usize)\n    {', 'Worker::tile_row_offset')
    return f


def build_render(f, trace):
    q = 'render'
    f = sub_re(f, r'render_config\.width\(\)\.max\(render_config\.height\(\)\)', 'max_u32_(render_config.width(), render_config.height())', q, 'any', trace, 'R-minmax')
    f = sub_once(f, 'super::render_tiles::<F, Worker<F>, _>(', 'render_tiles::<F>(', q)
    trace.fire('R-stub')
    f = sub_once(f, '    for (tile, out) in tiles {\n', '    for k_ in 0..tiles.len() {\n        let (tile, out) = (&tiles[k_].0, &tiles[k_].1);   // R-iter-tuple\n', q)
    trace.fire('R-iter-tuple')
    f = sub_re(f, r'\btile_sizes\[0\]', '*tile_sizes.index(0)', q, 2, trace, 'R-index')
    f = sub_re(f, r'\bout\[index\]', 'out.data[index]', q, 3, trace, 'R-imgindex')
    f = sub_re(f, r'\bimage\[o\]', 'image.data[o]', q, 3, trace, 'R-imgindex')
    f = sub_once(f, '    Some(image)\n}', '    let r_ = Some(image);   // R-tail\n    r_\n}', q)
    trace.fire('R-tail')
    f = sub_once(f, ') -> Option<Image> {', ') -> (r: Option<Image>)\n{', q)
    return f


from lib.weave import weave, split_headers, GMARK, LostAnchor


def tmpl(name):
    return open(os.path.join(HERE, name)).read()


def build(repo, trace):
    trace.lost = {}
    lib = rsx.clean(open('%s/%s' % (repo, LIB_RS)).read(), trace)
    vox = rsx.clean(open('%s/%s' % (repo, VOX_RS)).read(), trace)
    # ---- Tile (three coordinates here: Tile<3>; Tile<2> of render_tile uses x and y only)
    i, j, k = rsx.find_item(lib, r'^struct Tile<const N: usize>', 0, 'struct Tile')
    tile = lib[i:k]
    tile = sub_once(tile, 'corner: OPoint<usize, Const<N>>,', 'pub corner: Point3<usize>,   // R-opoint', 'struct Tile')
    tile = '#[derive(Copy, Clone)]\npub ' + tile[tile.index('struct Tile'):]
    a, b = rsx.impl_block(lib, r'^impl<const N: usize> Tile<N>', 'impl Tile')
    tfns = []
    for name in ('new', 'add'):
        i, j, k = rsx.find_fn(lib, name, a, b)
        tfns.append(lib[rsx.line_start(lib, i):k])
        trace.items.append((LIB_RS, 'Tile::' + name))
    t_new = sub_once(tfns[0], 'corner: OPoint<usize, Const<N>>', 'corner: Point3<usize>', 'Tile::new')
    trace.fire('R-opoint', 2)
    t_add = sub_once(tfns[1], 'Point2::new(self.corner[0], self.corner[1])', 'Point2::new(self.corner.x, self.corner.y)', 'Tile::add')
    trace.fire('R-ptindex', 2)
    t_add = sub_once(t_add, '        corner + pos\n', '        pt_add(corner, pos)   // R-opcall\n', 'Tile::add')
    trace.fire('R-opcall')
    # ---- TileSizesRef
    if not re.search(r"^struct TileSizesRef<'a>\(&'a \[usize\]\);", lib, re.M):
        raise ExtractError('struct TileSizesRef changed')
    tsr = "#[derive(Copy, Clone)]\npub struct TileSizesRef<'a>(pub &'a [usize]);"
    a, b = rsx.impl_block(lib, r"^impl<'a> std::ops::Index<usize> for TileSizesRef<'a>", 'impl Index for TileSizesRef')
    i, j, k = rsx.find_fn(lib, 'index', a, b)
    f_index = lib[rsx.line_start(lib, i):k]
    if norm(f_index) != norm('fn index(&self, i: usize) -> &Self::Output { &self.0[i] }'):
        raise ExtractError('TileSizesRef::index changed')
    f_index = f_index.replace('&Self::Output', '&usize')
    trace.fire('R-traitfn')
    a, b = rsx.impl_block(lib, r"^impl TileSizesRef<'_>", 'impl TileSizesRef')
    i, j, k = rsx.find_fn(lib, 'get', a, b)
    f_get = sub_once(lib[rsx.line_start(lib, i):k], 'self.0.get(i).copied()', 'if i < self.0.len() { Some(self.0[i]) } else { None }   // R-get-copied', 'TileSizesRef::get')
    trace.fire('R-get-copied')
    i, j, k = rsx.find_fn(lib, 'pixel_offset', a, b)
    f_off = lib[rsx.line_start(lib, i):k]
    for nm in ('index', 'get', 'pixel_offset'):
        trace.items.append((LIB_RS, 'TileSizesRef::' + nm))
    for hdr, body in ((r'^impl<P, S> std::ops::Index<usize> for Image<P, S>', '&self.data[index]'), (r'^impl<P, S> std::ops::IndexMut<usize> for Image<P, S>', '&mut self.data[index]')):
        a, b = rsx.impl_block(lib, hdr, hdr)
        if body not in lib[a:b]:
            raise ExtractError('Index impl of Image changed: R-imgindex not applicable')
    # ---- Scratch, Worker
    sc = rsx.get_item(vox, r'^struct Scratch\b', 0, 'struct Scratch')
    sc = re.sub(r'^    (\w+):', r'    pub \1:', sc.replace('struct Scratch', 'pub struct Scratch'), flags=re.M)
    i, j, k = rsx.find_item(vox, r"^struct Worker<'a, F: Function>", 0, 'struct Worker')
    wk = vox[i:k]
    wk = sub_once(wk, 'transform: nalgebra::Matrix4<f32>,', 'transform: Matrix4<f32>,', 'struct Worker')
    wk = sub_once(wk, 'image_size: RenderSize,', 'image_size: VoxelSize,   // type RenderSize = fidget_core::render::VoxelSize', 'struct Worker')
    for fld in ('tile_sizes', 'vars', 'scratch', 'transform', 'image_size', 'eval_float_slice', 'eval_grad_slice', 'eval_interval', 'tape_storage', 'shape_storage', 'workspace', 'out'):
        if len(re.findall(r'^    %s:' % fld, wk, re.M)) != 1:
            raise ExtractError('struct Worker: field %s changed' % fld)
    wk = re.sub(r'^    (\w+):', r'    pub \1:', wk.replace('struct Worker', 'pub struct Worker'), flags=re.M)
    if not re.search(r'^type Image = GenericImage<GeometryPixel, RenderSize>;', vox, re.M) or not re.search(r'^type RenderSize = fidget_core::render::VoxelSize;', vox, re.M):
        raise ExtractError('voxel.rs: Image / RenderSize aliases changed')
    gp = rsx.get_item(vox, r'^struct GeometryPixel\b', 0, 'struct GeometryPixel')
    if norm(re.sub(r'#\[[^\]]*\]\n', '', gp)) != norm('struct GeometryPixel { normal: [f32; 3], depth: u32, }'):
        raise ExtractError('struct GeometryPixel changed')
    trace.items.append((VOX_RS, 'struct Scratch, struct Worker, struct GeometryPixel'))
    # ---- the four functions
    a, b = rsx.impl_block(vox, r"^impl<F: Function> Worker<'_, F>", 'impl Worker')
    fns = {}
    unparsed = {}
    for name, bld in (('tile_row_offset', build_rowoff), ('render_tile_recurse', build_recurse), ('render_tile_pixels', build_pixels)):
        i, j, k = rsx.find_fn(vox, name, a, b)
        try:
            fns[name] = bld(vox[rsx.line_start(vox, i):k], trace)
        except ExtractError as e:
            # the function's text no longer fits a rewrite rule: that function alone is undecided; its template stands in so that its
            # callers are still checked against its contract
            unparsed[name] = str(e)
        trace.items.append((VOX_RS, 'Worker::' + name))
    a, b = rsx.impl_block(vox, r"^impl<'a, F: Function> RenderWorker<'a, F> for Worker<'a, F>", 'impl RenderWorker for Worker')
    i, j, k = rsx.find_fn(vox, 'render_tile', a, b)
    try:
        fns['render_tile'] = build_tile(vox[rsx.line_start(vox, i):k], trace)
    except ExtractError as e:
        unparsed['render_tile'] = str(e)
    trace.items.append((VOX_RS, 'Worker::render_tile (trait method of RenderWorker, as an inherent method: R-traitfn)'))
    # ---- Scratch::new, Worker::new (what establishes the scratch sizes the recursion relies on)
    ctor = ''
    try:
        a3, b3 = rsx.impl_block(vox, r'^impl Scratch\b', 'impl Scratch')
        i, j, k = rsx.find_fn(vox, 'new', a3, b3)
        f_sn = vox[rsx.line_start(vox, i):k]
        f_sn = sub_re(f_sn, r'\btile_size\.pow\(2\)', 'pow2(tile_size)', 'Scratch::new', None, trace, 'R-pow')
        f_sn = sub_re(f_sn, r'\btile_size\.pow\(3\)', 'pow3(tile_size)', 'Scratch::new', None, trace, 'R-pow')
        f_sn = sub_re(f_sn, r'vec!\[0\.0; (\w+)\]', r'vec_f32(0.0, \1)', 'Scratch::new', None, trace, 'R-vecmacro')
        f_sn = sub_re(f_sn, r'vec!\[Grad::from\(0\.0\); (\w+)\]', r'vec_grad(grad_from(0.0), \1)', 'Scratch::new', None, trace, 'R-vecmacro')
        f_sn = sub_re(f_sn, r'vec!\[0; (\w+)\]', r'vec_usize(0, \1)', 'Scratch::new', None, trace, 'R-vecmacro')
        a3, b3 = rsx.impl_block(vox, r"^impl<'a, F: Function> RenderWorker<'a, F> for Worker<'a, F>", 'impl RenderWorker for Worker')
        i, j, k = rsx.find_fn(vox, 'new', a3, b3)
        f_wn = vox[rsx.line_start(vox, i):k]
        f_wn = sub_once(f_wn, "cfg: &'a Self::Config,", "cfg: &'a RenderConfig,   // type Config = RenderConfig", 'Worker::new')
        f_wn = sub_re(f_wn, r'vec!\[\]', 'Vec::new()', 'Worker::new', 'any', trace, 'R-vecmacro')
        f_wn = sub_once(f_wn, ') -> Self {', ") -> Worker<'a, F> {", 'Worker::new')
        ctor = 'impl Scratch {\n' + f_sn + '\n}\n\n' + "impl<'a, F: Function> Worker<'a, F> {\n" + f_wn + '\n}\n'
        trace.items += [(VOX_RS, 'Scratch::new'), (VOX_RS, 'Worker::new (trait method of RenderWorker, as an inherent function: R-traitfn)')]
    except ExtractError as e:
        for q_ in ('Scratch::new', 'Worker::new'):
            trace.lost.setdefault(q_, []).append('not extracted: %s' % e)
    trace.drop('everything else of fidget-raster (render_tiles, effects.rs, pixel.rs: unit raster); '
               'the real ShapeTracingEval / ShapeBulkEval / RenderHandle / Interval / Grad / nalgebra types (stand-ins with stated contracts)')
    # ---- whole-image assembly: RenderConfig (fields checked), render
    asm = ''
    try:
        rc = rsx.get_item(vox, r'^struct RenderConfig\b', 0, 'struct RenderConfig')
        for fld, ty in (('image_size', 'RenderSize'), ('world_to_model', 'Matrix4<f32>')):
            if not re.search(r'^    %s: %s,' % (fld, re.escape(ty)), rc, re.M):
                raise ExtractError('struct RenderConfig: field %s changed' % fld)
        rci = rsx.get_item(vox, r'^impl crate::RenderSize for RenderConfig', 0, 'impl RenderSize for RenderConfig')
        if norm(rci) != norm('impl crate::RenderSize for RenderConfig { fn width(&self) -> u32 { self.image_size.width() } fn height(&self) -> u32 { self.image_size.height() } }'):
            raise ExtractError('impl RenderSize for RenderConfig changed')
        ec = rsx.get_item(vox, r"^struct EvalConfig<'a>", 0, 'struct EvalConfig')
        if not re.search(r'^    tile_sizes: Option<TileSizes>,', ec, re.M):
            raise ExtractError('struct EvalConfig: field tile_sizes changed')
        i, j, k = rsx.find_fn(vox, 'render', 0, None)
        fns['render'] = build_render(vox[rsx.line_start(vox, i):k], trace)
        trace.items.append((VOX_RS, 'render (merge of the root tiles into the image, depth clamp); struct RenderConfig / EvalConfig fields checked'))
        asm = open(os.path.join(HERE, 'static_asm.rs')).read()
    except ExtractError as e:
        for q_ in ('render', 'lemma_suffix_wf', 'lemma_root_off'):
            trace.lost.setdefault(q_, []).append('assembly part not extracted: %s' % e)
    woven = {}
    stats = {}
    for name, tfile in (('tile_row_offset', 'tmpl_rowoff.rs'), ('render_tile_recurse', 'tmpl_recurse.rs'), ('render_tile_pixels', 'tmpl_pixels.rs'), ('render_tile', 'tmpl_tile.rs'), ('render', 'tmpl_render.rs')):
        if name in unparsed:
            trace.lost.setdefault('Worker::' + name, []).append('rewrite rule not applicable: ' + unparsed[name])
            woven[name] = '\n'.join(l[len(GMARK):] if l.startswith(GMARK) else l for l in tmpl(tfile).split('\n'))
            continue
        if name not in fns:
            continue
        try:
            woven[name], m_, n_ = weave(tmpl(tfile), fns[name], ('Worker::' if name != 'render' else '') + name)
            stats[name] = (m_, n_)
            if m_ != n_:
                trace.fire('weave-unmatched-lines', n_ - m_)
        except LostAnchor as e:
            trace.lost.setdefault(('Worker::' if name != 'render' else '') + name, []).append(str(e))
            woven[name] = split_headers(fns[name])
    pre = open(os.path.join(HERE, 'static_pre.rs')).read()
    voc = open(os.path.join(HERE, 'static_voc.rs')).read()
    text = ('use vstd::prelude::*;\nuse vstd::std_specs::cmp::*;\nuse core::cmp::Ordering;\nverus! {\nglobal size_of usize == 8;   // x86_64 / aarch64\n' + pre
            + '\n// ---------- tiles (real text of fidget-raster/src/lib.rs)\n' + tile + '\n\nimpl<const N: usize> Tile<N> {\n' + t_new + '\n\n' + t_add + '\n}\n\n' + tsr
            + "\n\nimpl<'a> TileSizesRef<'a> {\n    pub open spec fn wf(&self) -> bool { sizes_wf(self.0@) }\n" + f_index + '\n\n' + f_get + '\n\n' + f_off + '\n}\n\n'
            + '// ---------- the worker (real text of fidget-raster/src/voxel.rs)\n' + sc + '\n\n' + wk + '\n\n' + voc
            + "\nimpl<F: Function> Worker<'_, F> {\n" + woven['tile_row_offset'] + '\n\n' + woven['render_tile_recurse'] + '\n\n' + woven['render_tile_pixels'] + '\n\n' + woven['render_tile'] + '\n}\n' + (asm + '\n' + woven['render'] + '\n' + ctor if asm and 'render' in woven else '')
            + '\n} // verus!\nfn main() {}\n')
    inj = Injector(text, trace)
    inj.spec('Tile::new', 'r: Tile<N>', '\n        ensures r.corner == corner\n')
    inj.spec('Tile::add', 'r: Point2<usize>', '\n        requires self.corner.x + pos.x <= usize::MAX, self.corner.y + pos.y <= usize::MAX\n        ensures r.x == self.corner.x + pos.x, r.y == self.corner.y + pos.y\n')
    inj.spec('TileSizesRef::index', 'r: &usize', '\n        requires i < self.0@.len()\n        ensures *r == self.0@[i as int]\n')
    inj.spec('TileSizesRef::get', 'r: Option<usize>', '\n        ensures i < self.0@.len() ==> r == Some(self.0@[i as int]), i >= self.0@.len() ==> r is None\n')
    inj.spec('TileSizesRef::pixel_offset', 'r: usize', '\n        requires self.0@.len() >= 1, self.0@[0] >= 1, self.0@[0] * self.0@[0] <= usize::MAX\n        ensures r == (pos.x % self.0@[0]) + (pos.y % self.0@[0]) * self.0@[0]\n')
    inj.proof('TileSizesRef::pixel_offset', 're:let y = pos\\.y % [^;]*;',
              '        proof { assert(y * self.0@[0] <= (self.0@[0] - 1) * self.0@[0]) by (nonlinear_arith) requires 0 <= y < self.0@[0]; assert((self.0@[0] - 1) * self.0@[0] + self.0@[0] == self.0@[0] * self.0@[0]) by (nonlinear_arith); }')
    if ctor and asm and 'render' in woven:
        inj.spec('Scratch::new', 'r: Self', '\n        requires tile_size * tile_size * tile_size <= usize::MAX, tile_size * tile_size <= usize::MAX\n        ensures r.x@.len() == tile_size * tile_size * tile_size, r.y@.len() == r.x@.len(), r.z@.len() == r.x@.len(),\n            r.xg@.len() == tile_size * tile_size, r.yg@.len() == r.xg@.len(), r.zg@.len() == r.xg@.len()\n')
        inj.spec('Worker::new', "r: Worker<'a, F>", '\n        requires tile_sizes.wf()\n        // exactly what render_tile requires of the worker\n        ensures r.tile_sizes == tile_sizes, r.image_size == cfg.image_size,\n            r.scratch.x@.len() == last_size(&r) * last_size(&r) * last_size(&r), r.scratch.y@.len() == r.scratch.x@.len(), r.scratch.z@.len() == r.scratch.x@.len(),\n            r.scratch.xg@.len() == last_size(&r) * last_size(&r), r.scratch.yg@.len() == r.scratch.xg@.len(), r.scratch.zg@.len() == r.scratch.xg@.len()\n')
        inj.proof('Worker::new', '$START', '''        proof {
            let l_ = tile_sizes.0@.len() - 1;
            lemma_sizes_desc(tile_sizes.0@, 0, l_);
            let n_ = tile_sizes.0@[l_] as int; let t_ = tile_sizes.0@[0] as int;
            assert(n_ * n_ <= 16777216) by (nonlinear_arith) requires 0 <= n_ <= t_, t_ * t_ <= 16777216;
            assert(n_ <= 4096) by (nonlinear_arith) requires 0 <= n_, n_ * n_ <= 16777216;
            assert(n_ * n_ * n_ <= 68719476736) by (nonlinear_arith) requires 0 <= n_ <= 4096;
        }''')
    obls = []
    if ctor and asm and 'render' in woven:
        for f in ('Scratch::new', 'Worker::new'):
            obls.append(Obligation('voxel::' + f, 'voxel', f, props=PROPS, note='establishes the scratch sizes Worker::render_tile requires'))
    for f in ('Worker::render_tile', 'Worker::render_tile_recurse', 'Worker::render_tile_pixels', 'Worker::tile_row_offset'):
        obls.append(Obligation('voxel::' + f, 'voxel', f, props=PROPS, rlimit=100))
    for f in ('Tile::new', 'Tile::add', 'TileSizesRef::index', 'TileSizesRef::get', 'TileSizesRef::pixel_offset'):
        obls.append(Obligation('voxel::' + f, 'voxel', f, props=PROPS))
    if asm and 'render' in woven:
        obls.append(Obligation('voxel::render', 'voxel', 'render', props=PROPS, rlimit=100, note='merge of the root tiles into the image with the depth clamp; render_tiles is a stand-in'))
        for l in ('lemma_suffix_wf', 'lemma_root_off'):
            obls.append(Obligation('voxel::' + l, 'voxel', l, props=PROPS, kind='lemma'))
    for l in ('find_neg', 'div_ceil_u32'):
        obls.append(Obligation('voxel::' + l, 'voxel', l, props=PROPS, kind='lemma', note='verified model of a library idiom (see the rewrite rule in its doc comment)'))
    for l in ('lemma_pv_start', 'lemma_pv_end', 'lemma_pv_step', 'lemma_pv_pre', 'lemma_vox_transfer', 'lemma_in_box', 'lemma_q', 'lemma_q_inj', 'lemma_q_of', 'lemma_zslabs',
              'lemma_sizes_desc', 'lemma_mod_shift', 'lemma_loc_bound', 'lemma_loc_inj', 'lemma_divmod_idx', 'lemma_off_bound', 'lemma_off', 'lemma_off_inj'):
        obls.append(Obligation('voxel::' + l, 'voxel', l, props=PROPS, kind='lemma'))
    return {'texts': {'base': inj.s}, 'obligations': obls, 'canary_fns': ['Worker::render_tile', 'Worker::render_tile_recurse', 'Worker::render_tile_pixels', 'render'], 'weave': stats}
