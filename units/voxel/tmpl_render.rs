pub fn render<F: Function + RenderHints>(
    b: BoundShape<F, f32>,
    render_config: &RenderConfig,
    eval_config: &EvalConfig,
) -> (r: Option<Image>)
/*G*/    requires render_config.image_size.w as int * render_config.image_size.h as int <= usize::MAX, render_config.image_size.d >= 1,
/*G*/        eval_config.tile_sizes is Some ==> sizes_wf(eval_config.tile_sizes->Some_0.0@),
/*G*/    ensures r is Some ==> r->Some_0.data@.len() == render_config.image_size.w as int * render_config.image_size.h as int,
/*G*/        // for the root tile size t that TileSizesRef::new selects
/*G*/        r is Some ==> exists|t: int| #[trigger] img_ok(b.sh().f(), r->Some_0.data@, render_config.image_size.w as int, render_config.image_size.h as int, render_config.image_size.d as int, t),
{
    let shape = b.shape().clone();
    let vars = b.vars();
    let max_size = max_u32_(render_config.width(), render_config.height()) as usize;
    let default_tile_sizes;
    let tile_sizes = if let Some(ts) = &eval_config.tile_sizes {
        TileSizesRef::new(ts, max_size)
    } else {
        default_tile_sizes = F::tile_sizes_3d();
        TileSizesRef::new(&default_tile_sizes, max_size)
    };
    let tiles = render_tiles::<F>(
        shape,
        vars,
        render_config,
        eval_config,
        tile_sizes,
    )?;
    let width = render_config.image_size.width() as usize;
    let height = render_config.image_size.height() as usize;
    let mut image = Image::new(render_config.image_size);
/*G*/    let ghost t_ = tile_sizes.0@[0] as int;
/*G*/    let ghost f_ = b.sh().f();
/*G*/    let ghost w_ = width as int;
/*G*/    let ghost h_ = height as int;
/*G*/    let ghost dd_ = render_config.image_size.d as int;
/*G*/    let ghost zz_ = zslabs(dd_, t_) * t_;
/*G*/    proof {
/*G*/        if eval_config.tile_sizes is Some { lemma_suffix_wf(tile_sizes.0@, eval_config.tile_sizes->Some_0.0@); } else { lemma_suffix_wf(tile_sizes.0@, default_tile_sizes.0@); }
/*G*/        assert(t_ >= 1 && t_ * t_ <= 16777216);
/*G*/        assert(t_ <= 16777216) by (nonlinear_arith) requires t_ >= 1, t_ * t_ <= 16777216;
/*G*/        ax_px_default();
/*G*/        assert forall|x: int, y: int| 0 <= x < w_ && 0 <= y < h_ implies #[trigger] image.data@[pidx(w_, x, y)] == px_default() by {
/*G*/            assert(0 <= pidx(w_, x, y) < w_ * h_) by (nonlinear_arith) requires 0 <= x < w_, 0 <= y < h_;
/*G*/        }
/*G*/    }
    for k_ in 0..tiles.len()
/*G*/        invariant image.data@.len() == w_ * h_, w_ == render_config.image_size.w, h_ == render_config.image_size.h, dd_ == render_config.image_size.d, dd_ >= 1, w_ * h_ <= usize::MAX, width == w_, height == h_,
/*G*/            t_ == tile_sizes.0@[0], t_ >= 1, t_ <= 16777216, t_ * t_ <= 16777216, tile_sizes.0@.len() >= 1, zz_ == zslabs(dd_, t_) * t_, px_default().depth == 0,
/*G*/            forall|k: int| 0 <= k < tiles@.len() ==> {
/*G*/                let e = #[trigger] tiles@[k];
/*G*/                e.0.corner.x % (t_ as usize) == 0 && e.0.corner.y % (t_ as usize) == 0 && e.1.data@.len() == t_ * t_ && e.0.corner.x < w_ && e.0.corner.y < h_
/*G*/                && forall|ax: int, ay: int| in_tile(ax, ay, e.0.corner.x as int, e.0.corner.y as int, t_) ==> vox_ok(f_, px_default(), #[trigger] e.1.data@[off(t_, ax, ay)], ax, ay, 0, zz_) },
/*G*/            forall|x: int, y: int| 0 <= x < w_ && 0 <= y < h_ ==> (#[trigger] image.data@[pidx(w_, x, y)] == px_default() || fin_ok(f_, image.data@[pidx(w_, x, y)], x, y, dd_, zz_)),
/*G*/            forall|x: int, y: int| 0 <= x < w_ && 0 <= y < h_ && covered(tiles@, k_ as int, t_, x, y) ==> fin_ok(f_, #[trigger] image.data@[pidx(w_, x, y)], x, y, dd_, zz_),
    {
        let (tile, out) = (&tiles[k_].0, &tiles[k_].1);   // R-iter-tuple
        let mut index = 0;
/*G*/        let ghost cx_ = tile.corner.x as int;
/*G*/        let ghost cy_ = tile.corner.y as int;
/*G*/        proof { assert(tiles@[k_ as int].0.corner.x == cx_); assert(0 * t_ == 0); }
        for j in 0..*tile_sizes.index(0)
/*G*/            invariant image.data@.len() == w_ * h_, w_ == render_config.image_size.w, h_ == render_config.image_size.h, dd_ == render_config.image_size.d, dd_ >= 1, w_ * h_ <= usize::MAX, width == w_, height == h_,
/*G*/                t_ == tile_sizes.0@[0], t_ >= 1, t_ <= 16777216, t_ * t_ <= 16777216, tile_sizes.0@.len() >= 1, zz_ == zslabs(dd_, t_) * t_, px_default().depth == 0, index == j * t_,
/*G*/                cx_ == tile.corner.x, cy_ == tile.corner.y, cx_ < w_, cy_ < h_, cx_ % t_ == 0, cy_ % t_ == 0, out.data@.len() == t_ * t_, 0 <= k_ < tiles@.len(), *tile == tiles@[k_ as int].0,
/*G*/                forall|ax: int, ay: int| in_tile(ax, ay, cx_, cy_, t_) ==> vox_ok(f_, px_default(), #[trigger] out.data@[off(t_, ax, ay)], ax, ay, 0, zz_),
/*G*/                forall|x: int, y: int| 0 <= x < w_ && 0 <= y < h_ ==> (#[trigger] image.data@[pidx(w_, x, y)] == px_default() || fin_ok(f_, image.data@[pidx(w_, x, y)], x, y, dd_, zz_)),
/*G*/                forall|x: int, y: int| 0 <= x < w_ && 0 <= y < h_ && (covered(tiles@, k_ as int, t_, x, y) || (cx_ <= x < cx_ + t_ && cy_ <= y < cy_ + j)) ==> fin_ok(f_, #[trigger] image.data@[pidx(w_, x, y)], x, y, dd_, zz_),
        {
/*G*/            proof { assert((j + 1) * t_ <= t_ * t_) by (nonlinear_arith) requires 0 <= j < t_; assert((j + 1) * t_ == j * t_ + t_) by (nonlinear_arith); }
            let y = j + tile.corner.y;
            for i in 0..*tile_sizes.index(0)
/*G*/                invariant image.data@.len() == w_ * h_, w_ == render_config.image_size.w, h_ == render_config.image_size.h, dd_ == render_config.image_size.d, dd_ >= 1, w_ * h_ <= usize::MAX, width == w_, height == h_,
/*G*/                    t_ == tile_sizes.0@[0], t_ >= 1, t_ <= 16777216, t_ * t_ <= 16777216, tile_sizes.0@.len() >= 1, zz_ == zslabs(dd_, t_) * t_, px_default().depth == 0,
/*G*/                    index == j * t_ + i, 0 <= j < t_, (j + 1) * t_ <= t_ * t_, (j + 1) * t_ == j * t_ + t_, y == j + cy_,
/*G*/                    cx_ == tile.corner.x, cy_ == tile.corner.y, cx_ < w_, cy_ < h_, cx_ % t_ == 0, cy_ % t_ == 0, out.data@.len() == t_ * t_, 0 <= k_ < tiles@.len(), *tile == tiles@[k_ as int].0,
/*G*/                    forall|ax: int, ay: int| in_tile(ax, ay, cx_, cy_, t_) ==> vox_ok(f_, px_default(), #[trigger] out.data@[off(t_, ax, ay)], ax, ay, 0, zz_),
/*G*/                    forall|x: int, y2: int| 0 <= x < w_ && 0 <= y2 < h_ ==> (#[trigger] image.data@[pidx(w_, x, y2)] == px_default() || fin_ok(f_, image.data@[pidx(w_, x, y2)], x, y2, dd_, zz_)),
/*G*/                    forall|x: int, y2: int| 0 <= x < w_ && 0 <= y2 < h_ && (covered(tiles@, k_ as int, t_, x, y2) || (cx_ <= x < cx_ + t_ && (cy_ <= y2 < cy_ + j || (y2 == cy_ + j && x < cx_ + i)))) ==> fin_ok(f_, #[trigger] image.data@[pidx(w_, x, y2)], x, y2, dd_, zz_),
            {
                let x = i + tile.corner.x;
                if x < width && y < height {
/*G*/                    proof { assert(0 <= y * width && y * width + x < w_ * h_) by (nonlinear_arith) requires 0 <= x < w_, 0 <= y < h_, width == w_; }
                    let o = y * width + x;
/*G*/                    proof {
/*G*/                        lemma_root_off(t_, cx_, cy_, i as int, j as int);
/*G*/                        assert(in_tile(x as int, y as int, cx_, cy_, t_));
/*G*/                        assert(index == off(t_, x as int, y as int));
/*G*/                        assert(vox_ok(f_, px_default(), out.data@[off(t_, x as int, y as int)], x as int, y as int, 0, zz_));
/*G*/                        assert(pidx(w_, x as int, y as int) < w_ * h_) by (nonlinear_arith) requires 0 <= x < w_, 0 <= y < h_;
/*G*/                        assert(o == pidx(w_, x as int, y as int));
/*G*/                        assert forall|x2: int, y2: int| 0 <= x2 < w_ && 0 <= y2 < h_ && (x2 != x || y2 != y) implies #[trigger] pidx(w_, x2, y2) != pidx(w_, x as int, y as int) by {
/*G*/                            if pidx(w_, x2, y2) == pidx(w_, x as int, y as int) { lemma_loc_inj(w_, x2, y2, x as int, y as int); }
/*G*/                        }
/*G*/                    }
                    if out.data[index].depth >= image.data[o].depth {
                        let d = render_config.image_size.depth() - 1;
                        if out.data[index].depth > d {
                            image.data[o] = GeometryPixel {
                                depth: d + 1,
                                normal: [0.0, 0.0, 1.0],
                            };
                        } else {
                            image.data[o] = out.data[index];
                        }
                    }
/*G*/                    proof {
/*G*/                        assert(fin_ok(f_, image.data@[o as int], x as int, y as int, dd_, zz_));
/*G*/                    }
                }
                index += 1;
            }
        }
/*G*/        proof {
/*G*/            assert forall|x: int, y: int| 0 <= x < w_ && 0 <= y < h_ && covered(tiles@, k_ + 1, t_, x, y) implies fin_ok(f_, #[trigger] image.data@[pidx(w_, x, y)], x, y, dd_, zz_) by {
/*G*/                if !covered(tiles@, k_ as int, t_, x, y) {
/*G*/                    let k = choose|k: int| 0 <= k < k_ + 1 && (#[trigger] tiles@[k]).0.corner.x == x - x % t_ && tiles@[k].0.corner.y == y - y % t_;
/*G*/                    assert(k == k_);
/*G*/                    vstd::arithmetic::div_mod::lemma_mod_pos_bound(x, t_);
/*G*/                    vstd::arithmetic::div_mod::lemma_mod_pos_bound(y, t_);
/*G*/                }
/*G*/            }
/*G*/        }
    }
/*G*/    proof {
/*G*/        assert forall|x: int, y: int| 0 <= x < w_ && 0 <= y < h_ implies fin_ok(f_, #[trigger] image.data@[pidx(w_, x, y)], x, y, dd_, zz_) by {
/*G*/            assert(covers(tiles@, t_, x, y));
/*G*/            assert(covered(tiles@, tiles@.len() as int, t_, x, y));
/*G*/        }
/*G*/        assert(img_ok(f_, image.data@, w_, h_, dd_, t_));
/*G*/        assert(img_ok(b.sh().f(), image.data@, render_config.image_size.w as int, render_config.image_size.h as int, render_config.image_size.d as int, t_));
/*G*/    }
    let r_ = Some(image);   // R-tail
/*G*/    proof { assert(img_ok(b.sh().f(), r_->Some_0.data@, render_config.image_size.w as int, render_config.image_size.h as int, render_config.image_size.d as int, t_)); }
    r_
}