"""Unit `handle` (legs of C04, C06, C07, C10): `RenderHandle::{new, i_tape, f_tape, g_tape, simplify}` of fidget-core/src/render/mod.rs on their
real text - the handle the renderers pass down their tile recursion, with its lazily built tapes and its one-entry cache of the most
recent simplification, keyed by the trace.

What is proved (generic over `F: Function`, whatever the storage pools hold):
  * data invariant `inv`: every tape the handle holds is a tape of the handle's shape; a cached child was simplified from the handle's
    shape with the cached trace (`child.f() == simp_f(self.f(), key(trace))`), and is itself well-formed;
  * `i_tape` / `f_tape` / `g_tape` return a tape of the handle's function and leave the function and the invariant alone (the contracts the
    units raster / voxel assume of them);
  * `simplify(trace)`: the returned handle evaluates the handle's own function (the simplification was not shorter) or
    `simp_f(f, key(trace))`, the simplification of THIS handle's function for THIS trace - in particular a cache hit requires the cached
    trace to be equal to the given one, and a refilled cache entry is keyed by the given trace (the seeded change C06-m3 reuses the old key);
    the returned handle is well-formed; and once the caller is done with the returned borrow, having kept its function and invariant
    (which every method here does), the handle has its function and its invariant again.  No panic (the `assert!`, the unwraps).

Stand-ins (trusted, with stated contracts): `Shape::{simplify, interval_tape, float_slice_tape, grad_slice_tape, size, recycle}` (the
simplification of a shape for a trace is `simp_f(f, key)`: what that function is, is C04), `ShapeTape`, the trace type with the three
operations used here (`!=` as `ne_`: unequal-or-same-key; `copy_from`, `clone` as `clone_`: same key), `RenderHandle::recycle`
(storage reuse only).  Rewrites: R-ne, R-clone, R-getorinsert (`opt.get_or_insert_with(|| E)` as `if opt.is_none() { opt = Some(E); }
opt.as_ref().unwrap()`: the closure captures `&mut` storage), R-extend-option (`v.extend(opt)`), R-box-recycle."""
import re
from lib import rsx
from lib.rsx import ExtractError
from lib.verus_engine import Injector, Obligation

SRC = 'fidget-core/src/render/mod.rs'
PROPS = ['C04', 'C06', 'C07', 'C10']


def sub_once(text, old, new, what):
    if text.count(old) != 1:
        raise ExtractError('%s: expected exactly one %r, found %d' % (what, old[:70], text.count(old)))
    return text.replace(old, new)


STATIC = r'''
pub type Fn_ = int;
pub type Key = int;
/// the function a shape evaluates after simplification with a trace of the given key (what it is, is property C04)
pub uninterp spec fn simp_f(f: Fn_, k: Key) -> Fn_;
/// the trace type, as far as the handle uses it
pub trait TraceT: Sized {
    spec fn key(&self) -> Key;
    /// R-ne: `a != b` (PartialEq): traces that do not compare unequal have the same key
    fn ne_(&self, other: &Self) -> (r: bool) ensures !r ==> self.key() == other.key();
    fn copy_from(&mut self, other: &Self) ensures final(self).key() == other.key();
    /// R-clone: `a.clone()`
    fn clone_(&self) -> (r: Self) ensures r.key() == self.key();
}
pub trait TracingEvaluator { type Tape; }
pub trait BulkEvaluator { type Tape; }
pub trait Function {
    type Trace: TraceT;
    type Storage: Default;
    type Workspace;
    type TapeStorage: Default;
    type IntervalEval: TracingEvaluator;
    type FloatSliceEval: BulkEvaluator;
    type GradSliceEval: BulkEvaluator;
}
#[verifier::external_body]
#[verifier::accept_recursive_types(T)]
pub struct ShapeTape<T> { _p: core::marker::PhantomData<T> }
impl<T> ShapeTape<T> { pub uninterp spec fn f(&self) -> Fn_; }
#[derive(Debug)]
pub struct SimpErr;
#[verifier::external_body]
#[verifier::accept_recursive_types(F)]
pub struct Shape<F: Function> { _p: core::marker::PhantomData<F> }
impl<F: Function> Shape<F> {
    pub uninterp spec fn f(&self) -> Fn_;
    /// Shape::simplify (ASSUMED: C04 says what simp_f is)
    #[verifier::external_body]
    pub fn simplify(&self, trace: &F::Trace, storage: F::Storage, workspace: &mut F::Workspace) -> (r: Result<Shape<F>, SimpErr>)
        ensures r is Ok, r->Ok_0.f() == simp_f(self.f(), trace.key()) { unimplemented!() }
    #[verifier::external_body]
    pub fn interval_tape(&self, storage: F::TapeStorage) -> (r: ShapeTape<<F::IntervalEval as TracingEvaluator>::Tape>) ensures r.f() == self.f() { unimplemented!() }
    #[verifier::external_body]
    pub fn float_slice_tape(&self, storage: F::TapeStorage) -> (r: ShapeTape<<F::FloatSliceEval as BulkEvaluator>::Tape>) ensures r.f() == self.f() { unimplemented!() }
    #[verifier::external_body]
    pub fn grad_slice_tape(&self, storage: F::TapeStorage) -> (r: ShapeTape<<F::GradSliceEval as BulkEvaluator>::Tape>) ensures r.f() == self.f() { unimplemented!() }
    #[verifier::external_body]
    pub fn size(&self) -> usize { unimplemented!() }
    #[verifier::external_body]
    pub fn recycle(self) -> Option<F::Storage> { unimplemented!() }
}
/// R-extend-option: `v.extend(opt)`
#[verifier::external_body]
pub fn extend_opt<T>(v: &mut Vec<T>, o: Option<T>) { v.extend(o) }
/// R-box-recycle: `boxed_handle.recycle(..)` (storage reuse only: not under contract)
#[verifier::external_body]
pub fn recycle_box<F: Function>(h: Box<RenderHandle<F>>, shape_storage: &mut Vec<F::Storage>, tape_storage: &mut Vec<F::TapeStorage>) { unimplemented!() }
impl<F: Function> RenderHandle<F> {
    /// the function the handle evaluates
    pub open spec fn f(&self) -> Fn_ { self.shape.f() }
    /// tapes belong to the shape; a cached child is the simplification of this shape for the cached trace, and well-formed itself
    pub open spec fn inv(&self) -> bool
        decreases self
    {
        &&& (self.i_tape is Some ==> self.i_tape->Some_0.f() == self.shape.f())
        &&& (self.f_tape is Some ==> self.f_tape->Some_0.f() == self.shape.f())
        &&& (self.g_tape is Some ==> self.g_tape->Some_0.f() == self.shape.f())
        &&& match self.next {
            Some((tr, child)) => child.shape.f() == simp_f(self.shape.f(), tr.key()) && child.inv(),
            None => true,
        }
    }
}
'''

TAPE_SPEC = """
        requires old(self).inv()
        ensures r.f() == old(self).f(), final(self).f() == old(self).f(), final(self).inv()
"""


def build(repo, trace):
    trace.lost = {}
    src = rsx.clean(open('%s/%s' % (repo, SRC)).read(), trace)
    st = rsx.get_item(src, r'^struct RenderHandle<F: Function>', 0, 'struct RenderHandle')
    for fld in ('shape: Shape<F>,', 'i_tape: Option<ShapeTape<<F::IntervalEval as TracingEvaluator>::Tape>>,', 'f_tape: Option<ShapeTape<<F::FloatSliceEval as BulkEvaluator>::Tape>>,',
                'g_tape: Option<ShapeTape<<F::GradSliceEval as BulkEvaluator>::Tape>>,', 'next: Option<(F::Trace, Box<Self>)>,'):
        if st.count(fld) != 1:
            raise ExtractError('struct RenderHandle: field %r changed' % fld)
    st = re.sub(r'^    (\w+):', r'    pub \1:', st.replace('struct RenderHandle', 'pub struct RenderHandle'), flags=re.M)
    st = st.replace('Box<Self>', 'Box<RenderHandle<F>>')
    a, b = rsx.impl_block(src, r'^impl<F: Function> RenderHandle<F>', 'impl RenderHandle')
    fns = []
    # new
    i, j, k = rsx.find_fn(src, 'new', a, b)
    fns.append(src[rsx.line_start(src, i):k])
    # the three tape getters: R-getorinsert
    for name, fld in (('i_tape', 'i_tape'), ('f_tape', 'f_tape'), ('g_tape', 'g_tape')):
        i, j, k = rsx.find_fn(src, name, a, b)
        f = src[rsx.line_start(src, i):k]
        m = re.search(r'( *)self\.%s\.get_or_insert_with\(\|\| \{\n((?:.*\n)*?)\1\}\)\n' % fld, f)
        if m:   # otherwise the function is taken as it stands (e.g. already written out as is_none / Some / unwrap)
            ind = m.group(1)
            expr = m.group(2).strip()
            f = (f[:m.start()] + '%sif self.%s.is_none() {   // R-getorinsert\n%s    self.%s = Some(%s);\n%s}\n%sself.%s.as_ref().unwrap()\n' % (ind, fld, ind, fld, expr, ind, ind, fld) + f[m.end():])
            trace.fire('R-getorinsert')
        fns.append(f)
    # simplify
    i, j, k = rsx.find_fn(src, 'simplify', a, b)
    f = src[rsx.line_start(src, i):k]
    q = 'RenderHandle::simplify'
    f, n = re.subn(r'&(\w+)\.0 != trace\b', r'\1.0.ne_(trace)', f)   # R-ne, wherever the comparison stands (an `if`, a match guard)
    if n < 1:
        raise ExtractError('%s: R-ne site changed' % q)
    trace.fire('R-ne', n)
    f, n = re.subn(r'\btrace\.clone\(\)', 'trace.clone_()', f)
    trace.fire('R-clone', n)
    f, n = re.subn(r'(\w+)\.recycle\(shape_storage, tape_storage\);', r'recycle_box(\1, shape_storage, tape_storage);   // R-box-recycle', f)
    trace.fire('R-box-recycle', n)
    f, n = re.subn(r'shape_storage\.extend\(([^;]+)\);', r'extend_opt(shape_storage, \1);   // R-extend-option', f)
    trace.fire('R-extend-option', n)
    fns.append(f)
    for nm in ('new', 'i_tape', 'f_tape', 'g_tape', 'simplify'):
        trace.items.append((SRC, 'RenderHandle::' + nm))
    trace.drop('RenderHandle::recycle, Clone for RenderHandle (storage reuse; exercised by the bounded contract render_handle); TileSizes (unit tiles); '
               'Shape, ShapeTape, the trace type: stand-ins with stated contracts')
    text = ('use vstd::prelude::*;\nverus! {\n' + st + '\n\nimpl<F: Function> RenderHandle<F> {\n' + '\n\n'.join(fns) + '\n}\n' + STATIC + '\n} // verus!\nfn main() {}\n')
    inj = Injector(text, trace)
    inj.spec('RenderHandle::new', 'r: Self', '\n        ensures r.f() == shape.f(), r.inv()\n')
    tys = {'i_tape': '&ShapeTape<<F::IntervalEval as TracingEvaluator>::Tape>', 'f_tape': '&ShapeTape<<F::FloatSliceEval as BulkEvaluator>::Tape>', 'g_tape': '&ShapeTape<<F::GradSliceEval as BulkEvaluator>::Tape>'}
    for nm in ('i_tape', 'f_tape', 'g_tape'):
        inj.spec('RenderHandle::' + nm, 'r: ' + tys[nm], TAPE_SPEC)
    inj.spec('RenderHandle::simplify', 'r: &mut Self', """
        requires old(self).inv()
        ensures r.f() == old(self).f() || r.f() == simp_f(old(self).f(), trace.key()),
            r.inv(),
            // once the caller is done with the returned handle - having kept its function and its invariant, as every method of the handle
            // does - this handle has its function and its invariant again
            (final(r).f() == r.f() && final(r).inv()) ==> (final(self).f() == old(self).f() && final(self).inv())
""")
    obls = [Obligation('handle::RenderHandle::' + f, 'handle', 'RenderHandle::' + f, props=PROPS) for f in ('new', 'i_tape', 'f_tape', 'g_tape', 'simplify')]
    return {'texts': {'base': inj.s}, 'obligations': obls, 'canary_fns': ['RenderHandle::simplify', 'RenderHandle::i_tape'], 'verus_args': ['--edition=2024']}
