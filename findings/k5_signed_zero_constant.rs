// K5 (C12): reproduce with a crate that depends on fidget-core (path = /repo/fidget-core); prints the context value and the f32 value
use fidget_core::context::Context;
fn main() {
    let mut ctx = Context::new();
    let p = ctx.constant(0.0);
    let m = ctx.constant(-0.0);
    println!("constant(0.0) = {p:?}, constant(-0.0) = {m:?}, same node: {}", p == m);
    let y = ctx.y();
    let n = ctx.atan2(y, m).unwrap();
    let v = ctx.eval_xyz(n, 0.0, 1.0, 0.0).unwrap();
    println!("atan2(y, -0.0) at y=1: context {} ; f32 {}", v, 1.0f32.atan2(-0.0));
    let n2 = ctx.atan2(p, m).unwrap();
    println!("atan2(0.0, -0.0): context {} ; f32 {}", ctx.eval_xyz(n2, 0.0, 0.0, 0.0).unwrap(), 0.0f32.atan2(-0.0));
    // the same through a compiled function
    let mut c2 = Context::new();
    let x = c2.x();
    let a = c2.add(x, 0.0).unwrap();      // makes +0.0 part of the arena? (x + 0 is rewritten to x, but the constant is inserted)
    let t = c2.atan2(a, -0.0).unwrap();
    println!("atan2(x+0.0, -0.0) at x=0.0: context {} ; f32 {}", c2.eval_xyz(t, 0.0, 0.0, 0.0).unwrap(), (0.0f32 + 0.0).atan2(-0.0));
}
