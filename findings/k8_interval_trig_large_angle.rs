//! K8 (C03, C11): `Interval::sin` / `Interval::cos` on boxes of large angles.
//!
//! Before the fix (commit ab2cdf0 in /repo) `Interval::quadrant` computed `angle * 2.0 / PI` in f32.  Its rounding error
//! grows with the angle and exceeds a whole quadrant from about 1e6 rad on, so the monotonicity case analysis of sin/cos
//! picked the wrong branch:
//!   * C03: cos on [-8388609, -8388607] returned (-0.85094446, -0.12349581) although cos(-8388608) = -0.9017547;
//!          at 1.5e5 rad the peak of a box straddling an extremum was already missed by 35 ulp;
//!   * C11: sin on [-16777216, -16777215] panicked with `invalid interval [0.94823265, 0.77956367]` in `Interval::new`
//!          (in the JIT the same call-out aborts the process).
//! Found by the bounded contract `interval_sweep` (dense narrow boxes over 16 orders of magnitude), which was written
//! because seeded change C03-m4 (a quadrant computation that is wrong only below -6434 rad) was not reported by the
//! 12-value operand grid of `interp_interval`.
//!
//! Place as fidget-core/tests/k8.rs and run `cargo test --offline -p fidget-core --test k8`: fails before ab2cdf0, passes after.
use fidget_core::types::Interval;

#[test]
fn cos_encloses_far_from_the_origin() {
    let i = Interval::new(-8388609.0, -8388607.0).cos();
    let v = (-8388608.0f32).cos();
    assert!(i.lower() <= v && v <= i.upper(), "cos(-8388608) = {v} outside {i:?}");
}

#[test]
fn sin_is_total_far_from_the_origin() {
    let i = Interval::new(-16777216.0, -16777215.0).sin();
    let v = (-16777216.0f32).sin();
    assert!(i.lower() <= v && v <= i.upper(), "sin(-16777216) = {v} outside {i:?}");
}
