//! C19 finding (fixed): `fidget_solver::solve` panicked when no parameter is free.
//! Drop into fidget-solver/tests/ and run `cargo test --offline -p fidget-solver --test k7_solver_no_free_parameter`.
//! Before the fix: "index out of bounds: the len is 0 but the index is 0" (Solver::get_jacobian reads sample 0 of an
//! evaluation with zero samples: the argument matrix has ceil(0 / 3) = 0 columns).  Expected: the empty map.
use fidget_core::{context::{Context, Tree}, eval::MathFunction, var::Var, vm::VmFunction};
use fidget_solver::{Parameter, solve};
use std::collections::HashMap;

#[test]
fn every_parameter_fixed() {
    let a = Var::new();
    let mut ctx = Context::new();
    let root = ctx.import(&(Tree::from(a) - 2.0));
    let f = VmFunction::new(&ctx, &[root]).unwrap();
    let mut params = HashMap::new();
    params.insert(a, Parameter::Fixed(2.0));
    let sol = solve(&[f], &params).unwrap();
    assert!(sol.is_empty());
}
