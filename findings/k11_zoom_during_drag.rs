//! K11 (C18, repaired in /repo by the commit "fix: a zoom during a drag re-bases the translate handle ..."): a scroll-zoom in the middle of a
//! pan left the translate handle with the matrix of the view before the zoom; the next drag event moved the grabbed model point away from the
//! cursor by (s1 - s0) * R * pos.  Place at fidget-gui/tests/k11_zoom_during_drag.rs; `cargo test --offline -p fidget-gui --test
//! k11_zoom_during_drag` fails before the repair and passes after it.
use fidget_core::render::ImageSize;
use fidget_gui::{Canvas2, CursorState};
use nalgebra::Point2;

fn under_cursor(c: &Canvas2, size: ImageSize, p: Point2<i32>) -> Point2<f32> {
    c.view().world_to_model().transform_point(&size.transform_point(p))
}

#[test]
fn grabbed_point_stays_under_the_cursor_after_a_zoom_during_the_drag() {
    let size = ImageSize::new(300, 300);
    let mut c = Canvas2::new(size);
    let p0 = Point2::new(200, 120);
    // press: the point under the cursor is grabbed
    let _ = c.interact(size, Some(CursorState { screen_pos: p0, drag: true }), 0.0);
    let g = under_cursor(&c, size, p0);
    // scroll while the button is held (zoom about the cursor keeps g under it)
    let _ = c.interact(size, Some(CursorState { screen_pos: p0, drag: true }), 50.0);
    assert!((under_cursor(&c, size, p0) - g).norm() < 1e-5);
    // move: g must follow the cursor
    let p1 = Point2::new(90, 210);
    let _ = c.interact(size, Some(CursorState { screen_pos: p1, drag: true }), 0.0);
    let now = under_cursor(&c, size, p1);
    assert!((now - g).norm() < 1e-4, "grabbed {g:?}, under the cursor after the move {now:?}");
}
