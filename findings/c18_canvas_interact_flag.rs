use fidget_core::render::ImageSize;
use fidget_gui::{Canvas2, CursorState};
use nalgebra::Point2;
fn bits(c: &Canvas2) -> [u32;3] { let (ce, s) = c.view().components(); [ce.x.to_bits(), ce.y.to_bits(), s.to_bits()] }
fn main() {
    let sz = ImageSize::new(300, 300);
    let mut c = Canvas2::new(sz);
    let cs = Some(CursorState { screen_pos: Point2::new(150, 150), drag: true });
    let ch1 = c.interact(sz, cs, 20000.0);
    println!("after step0: changed={ch1} view bits {:08x?}", bits(&c));
    let b = bits(&c);
    let ch2 = c.interact(sz, cs, 0.0);
    println!("after step1: changed={ch2} view bits {:08x?} identical={}", bits(&c), b == bits(&c));
}
