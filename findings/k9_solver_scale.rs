//! K9 (C19): `fidget_solver::solve` returned the starting point for a well-conditioned consistent linear system whose unknowns are
//! large and whose coefficients are small.
//!
//! Before the fix (commit in /repo: "fix: solver uses a singular-value cutoff relative to the largest singular value ...") the
//! Levenberg-Marquardt step was computed with `svd.solve(&jt_r, f32::EPSILON)`: an ABSOLUTE cutoff, so every singular value of
//! J^T J below 1.19e-7 was treated as zero.  With coefficients of 2^-13 the entries of J^T J are about 1.5e-8, the step is zero, and
//! the solver stops at once: `x / 8192 + 1 = 0` started at 16384 returned 16384 (the solution is -8192).
//! Found by the bounded contract `solver_linear` after it was given rescaled systems (unknowns of magnitude 2^-27 and 2^13) for
//! seeded change C19-m3.
//!
//! Place as fidget-solver/tests/k9.rs and run `cargo test --offline -p fidget-solver --test k9`: fails before the fix, passes after.
use fidget_core::{context::{Context, Tree}, eval::MathFunction, var::Var, vm::VmFunction};
use fidget_solver::{Parameter, solve};
use std::collections::HashMap;

#[test]
fn small_coefficient_large_unknown() {
    let a = Var::new();
    let mut ctx = Context::new();
    let root = ctx.import(&(Tree::from(a) * (1.0 / 8192.0) + 1.0));
    let f = VmFunction::new(&ctx, &[root]).unwrap();
    let mut params = HashMap::new();
    params.insert(a, Parameter::Free(16384.0));
    let sol = solve(&[f], &params).unwrap();
    assert!((sol[&a] + 8192.0).abs() < 1.0, "got {}", sol[&a]);
}
