//! K10 (C07, repaired by /repo f3e44da): the merge of root tiles in `fidget_raster::voxel::render` saturated a pixel one voxel early.
//! Place at fidget/tests/k10_voxel_clamp.rs; `cargo test --offline -p fidget --test k10_voxel_clamp` fails before f3e44da, passes after.
use fidget::{context::Context, render::VoxelSize, vm::VmShape};
use fidget_raster::voxel::RenderConfig;

#[test]
fn second_voxel_from_the_top_is_not_saturated() {
    // inside exactly for screen z below the plane: the highest inside voxel of every column is index D - 2
    let (w, h, d) = (8u32, 8u32, 9u32);
    let cfg = RenderConfig::from_size(VoxelSize::new(w, h, d));
    let m = cfg.mat();
    let mut ctx = Context::new();
    let z = ctx.z();
    // world z of voxel k is m * (0, 0, k); put the plane between voxels D-2 and D-1
    let z7 = m.transform_point(&nalgebra::Point3::new(0.0, 0.0, (d - 2) as f32)).z;
    let z8 = m.transform_point(&nalgebra::Point3::new(0.0, 0.0, (d - 1) as f32)).z;
    let root = ctx.sub(z, (z7 + z8) / 2.0).unwrap();
    let shape = VmShape::new(&ctx, root).unwrap();
    let image = cfg.run(shape.try_into().unwrap());
    for p in image.iter() {
        assert_eq!(p.depth, d - 1, "highest inside voxel is {} so the depth is {}; the grid is not full up to the camera", d - 2, d - 1);
        assert!(p.normal != [0.0, 0.0, 1.0] || p.depth != d);
    }
}
