use fidget_core::{Context, vm::VmFunction, eval::{MathFunction, Function, TracingEvaluator}};
fn main() {
    let mut ctx = Context::new();
    let c = ctx.constant(-0.0);      // created first => lower node index => left operand of the Min node
    let x = ctx.x();
    let m = ctx.min(x, c).unwrap();
    println!("graph node: {:?}", ctx.get_op(m));
    let g = ctx.eval_xyz(m, 0.0, 0.0, 0.0).unwrap();
    let f = VmFunction::new(&ctx, &[m]).unwrap();
    let t = f.point_tape(Default::default());
    let mut e = VmFunction::new_point_eval();
    let v = e.eval(&t, &[0.0]).unwrap().0[0];
    println!("graph: {:?} (bits {:08x})  tape: {:?} (bits {:08x})", g, g.to_bits(), v, v.to_bits());
    assert_eq!(g.to_bits(), v.to_bits(), "compiled tape differs from direct graph evaluation");
}
