#!/bin/bash
# Build the framework from files on disk only (offline). Safe to re-run.
set -e
cd "$(dirname "$0")"
export CARGO_NET_OFFLINE=true
mkdir -p .build evidence replays
# native contract runner (path-depends on /repo; hooks enabled by --cfg fidget_verif in bounded/.cargo/config.toml)
cp /repo/Cargo.lock bounded/Cargo.lock
(cd bounded && CARGO_TARGET_DIR="$PWD/../.build/bounded-target" cargo build --release --offline)
# Kani harness crates: warm the dependency build (optional; checks rebuild what is stale)
if [ -d kani/leaf ]; then
  cp /repo/Cargo.lock kani/leaf/Cargo.lock
  (cd kani/leaf && CARGO_TARGET_DIR="$PWD/../../.build/kani-target" cargo kani --only-codegen -Z function-contracts >/dev/null 2>&1 || true)
fi
verus --version >/dev/null
echo "setup ok"
