#!/bin/bash
# quick consistency check of the framework itself (run before committing): plan imports, MANIFEST regenerates and validates, every unit module imports
cd "$(dirname "$0")/.." || exit 1
python3 - <<'PY' || exit 1
import sys, importlib, os
sys.path.insert(0, '.')
from lib import plan
for p, sp in plan.PLAN.items():
    for kind, name in sp['legs']:
        if kind == 'verus':
            importlib.import_module('units.' + name)
print('plan ok: %d properties' % len(plan.PLAN))
PY
python3 tools/gen_manifest.py || exit 1
python3-vt -c "
import json, jsonschema
jsonschema.validate(json.load(open('MANIFEST.json')), json.load(open('/root/.vp/MANIFEST.schema.json')))
print('manifest valid')" || exit 1
