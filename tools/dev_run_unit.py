#!/usr/bin/env python3
"""dev helper: run one Verus unit (all obligations + canaries) against VERIF_REPO and print a summary"""
import sys, os
sys.path.insert(0, os.path.dirname(os.path.dirname(os.path.abspath(__file__))))
from lib import driver
only = sys.argv[2:] or None
res, info = driver.run_verus_unit(sys.argv[1], None, 'quick', only=only)
bad = 0
for r in res:
    if r.status != 'ok':
        bad += 1
        print(r.status.upper(), r.name, '|', (r.detail or '')[:600].replace('\n', ' | '))
print('obligations', len(res), 'not-ok', bad, 'seconds', round(sum(r.seconds for r in res), 1))
print('canaries', [(c['function'], c['reachable']) for c in info.get('canaries', [])])
print('assumptions', info.get('assumptions'))
print('rules', info.get('rules_fired'))
