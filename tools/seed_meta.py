#!/usr/bin/env python3
"""tools/seed_meta.py <seeded-dir> <round> "<my confirmation line>" : write meta.json from the sub-agent's meta_agent.json plus my own confirmation"""
import json, sys, os
d, rnd, conf = sys.argv[1], sys.argv[2], sys.argv[3]
a = json.load(open(os.path.join(d, 'meta_agent.json')))
m = {'property': a.get('property'), 'what': a.get('what'), 'needs_to_manifest': a.get('needs_to_manifest'),
     'demo_location': a.get('demo_location'), 'confirmed_by_sub_agent': a.get('confirmed'),
     'confirmed_by_me': conf, 'what_i_ran': 'tools/seed_confirm.sh in the scratch worktree: demo on the clean tree, demo with patch.diff applied, `cargo test --offline -p <crate>` of the listed crates with the patch applied; then tools/seed_eval.sh <property> <dir> against /repo (apply, ./check, git checkout)',
     'author': 'independent sub-agent (round %s) given only the property text and a scratch worktree' % rnd}
json.dump(m, open(os.path.join(d, 'meta.json'), 'w'), indent=1)
os.remove(os.path.join(d, 'meta_agent.json'))
