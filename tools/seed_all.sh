#!/bin/bash
# usage: tools/seed_all.sh: evaluate every stored seeded change against its property's quick check; writes seeded/RESULTS.txt
cd /verif
OUT=seeded/RESULTS.txt; : > $OUT.new
for d in seeded/C*/; do
  d=${d%/}; P=$(basename $d); P=${P%%-*}
  tools/seed_eval.sh $P $d > /tmp/seed_one.out 2>&1
  head -1 /tmp/seed_one.out >> $OUT.new
  grep -E "^FAILED-OBLIGATION" /tmp/seed_one.out | sed -E 's/.*engine=([a-z]+) obligation=([^ ]+).*/    \1 \2/' | cut -c1-120 | sort | uniq -c | sort -rn | head -8 >> $OUT.new
  grep -E "UNDECIDED" /tmp/seed_one.out | head -3 | sed 's/^/    /' >> $OUT.new
done
mv $OUT.new $OUT
