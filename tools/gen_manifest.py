#!/usr/bin/env python3
"""Regenerate /verif/MANIFEST.json from lib/plan.py (claimed properties) and the not-applicable table."""
import json, os, sys
ROOT = os.path.dirname(os.path.dirname(os.path.abspath(__file__)))
sys.path.insert(0, ROOT)
from lib import plan

BASELINE = "cd /repo/$(cat /w/out/cargo_root.txt) && cargo nextest run --workspace --no-fail-fast --tool-config-file pb:/w/lib/nextest.toml --profile pb --test-threads 8 --offline  (fallback: cargo test --workspace --no-fail-fast --offline)"

def main():
    checks = []
    for pid in sorted(plan.PLAN):
        sp = plan.PLAN[pid]
        checks.append({
            'property_id': pid,
            'quick_cmd': './check %s --tier quick' % pid,
            'thorough_cmd': './check %s --tier thorough' % pid,
            'evidence_file': '/verif/evidence/%s.json' % pid,
            'replay_cmd_template': './check %s --replay {path}' % pid,
            'engine': '+'.join(sorted(set(k for k, _ in sp['legs']))),
            'level_claimed': {'category': sp['level'], 'text': sp['level_text'], 'design_ref': sp.get('design_ref', 'DESIGN.md section 4')},
            'level_note': sp['level_note'],
            'technique': sp['technique'],
        })
    na = [{'property_id': k, 'reason': v} for k, v in sorted(plan.NOT_APPLICABLE.items()) if k not in plan.PLAN]
    m = {
        'version': 1,
        'setup_cmd': './setup.sh',
        'hooks': {
            'guard': 'cfg(fidget_verif) (rustc --cfg fidget_verif)',
            'enable': 'RUSTFLAGS="--cfg fidget_verif" via /verif/bounded/.cargo/config.toml; Kani harness crates use cfg(kani) only',
            'baseline_off_cmd': BASELINE,
            'source_commits': plan.HOOK_COMMITS,
            'add_only': True,
        },
        'engines': [
            {'name': 'verus', 'path': 'lib/verus_engine.py + units/', 'serves_properties': sorted(p for p in plan.PLAN if any(k == 'verus' for k, _ in plan.PLAN[p]['legs'])),
             'kind_free_text': 'contract-based deductive verification: real functions extracted mechanically each run, contracts injected, one verus process per obligation'},
            {'name': 'kani', 'path': 'lib/kani_engine.py + kani/', 'serves_properties': sorted(p for p in plan.PLAN if any(k == 'kani' for k, _ in plan.PLAN[p]['legs'])),
             'kind_free_text': 'loop-free full-domain harnesses (contract = assume pre / assert post) on the real crates via path dependencies'},
            {'name': 'bounded', 'path': 'lib/bounded_engine.py + bounded/', 'serves_properties': sorted(p for p in plan.PLAN if any(k == 'bounded' for k, _ in plan.PLAN[p]['legs'])),
             'kind_free_text': 'native contract runner: bounded stand-ins for functions outside verifier reach, and counterexample search; never counted as proved'},
        ],
        'checks': checks,
        'not_applicable': na,
        'notes': 'See DESIGN.md. Exit codes of ./check: 0 held, 1 violation (VIOLATION line), 2 undecided/infrastructure (never an alarm).',
    }
    with open(os.path.join(ROOT, 'MANIFEST.json'), 'w') as f:
        json.dump(m, f, indent=1)
    print('MANIFEST.json: %d checks, %d not applicable' % (len(checks), len(na)))

if __name__ == '__main__':
    main()
