#!/bin/bash
# usage: tools/seed_confirm.sh <worktree> <seeded-dir> <demo dest (relative to worktree)> <crate> <test name> [crates whose existing tests are run with the change...]
# confirms a seeded change in a scratch worktree: demo passes clean, fails with the change, the listed crates' tests pass with the change
TD=$(mktemp -d); WT=$1; D=$2; DEST=$3; CR=$4; T=$5; shift 5
cd $WT || exit 9
git checkout -q -- . ; git clean -fdq -e OUT -e target
mkdir -p $(dirname $DEST); cp /verif/$D/demo.rs $DEST
export CARGO_NET_OFFLINE=true
cargo test --offline -j ${SEED_J:-12} -p $CR --test $T > $TD/sc_clean.txt 2>&1; RC_CLEAN=$?
git apply /verif/$D/patch.diff || { echo "patch does not apply"; exit 8; }
cargo test --offline -j ${SEED_J:-12} -p $CR --test $T > $TD/sc_mut.txt 2>&1; RC_MUT=$?
rm -f $DEST; rmdir $(dirname $DEST) 2>/dev/null
SUITE=""
for c in "$@"; do
  cargo test --offline -j ${SEED_J:-12} -p $c > $TD/sc_suite_$c.txt 2>&1; rc=$?
  SUITE="$SUITE $c:rc=$rc:$(grep -E '^test result' $TD/sc_suite_$c.txt | awk '{p+=$4; f+=$6} END {print p"p/"f"f"}')"
done
git checkout -q -- . ; git clean -fdq -e OUT -e target
echo "== $D demo_clean_rc=$RC_CLEAN demo_mutated_rc=$RC_MUT suite:$SUITE"
grep -E "^test result|panicked|FAILED|failed" $TD/sc_mut.txt | head -5
