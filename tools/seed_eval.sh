#!/bin/bash
# usage: tools/seed_eval.sh <PROP> <seeded-dir> [extra check args]: apply the seeded patch to /repo, run the check, undo, report
P=$1; D=$2; shift 2
cd /verif
git -C /repo diff --quiet || { echo "/repo is dirty"; exit 9; }
git -C /repo apply /verif/$D/patch.diff || { echo "patch does not apply"; exit 8; }
START=$(date +%s)
# the check rewrites evidence/<P>.json: keep the clean-tree evidence (a run on a seeded tree must never be committed as evidence)
cp evidence/$P.json /tmp/seed_eval_evidence_$P.json 2>/dev/null
./check $P "$@" > /tmp/seed_eval.out 2> /tmp/seed_eval.err; RC=$?
git -C /repo checkout -- .
cp /tmp/seed_eval_evidence_$P.json evidence/$P.json 2>/dev/null
V=$(grep -c "^VIOLATION" /tmp/seed_eval.out); [ $RC = 1 ] && [ $V = 0 ] && RC="1(NO-VIOLATION-LINE: check crashed?)"
echo "== $P $D rc=$RC ($(( $(date +%s) - START ))s)"
grep -E "^(VIOLATION|FAILED-OBLIGATION|KNOWN-FINDING)" /tmp/seed_eval.out | cut -c1-230
grep -E "UNDECIDED" /tmp/seed_eval.err | cut -c1-200 | head -5
