#!/usr/bin/env python3
"""dev helper: build one unit's text from a repo copy and write it to a file"""
import sys, os, importlib
sys.path.insert(0, os.path.dirname(os.path.dirname(os.path.abspath(__file__))))
from lib import rsx
unit, repo, out = sys.argv[1], sys.argv[2], sys.argv[3]
m = importlib.import_module('units.' + unit)
importlib.reload(m)
tr = rsx.Trace()
r = m.build(repo, tr)
for k, t in r['texts'].items():
    open(out if k == 'base' else out.replace('.rs', '_%s.rs' % k), 'w').write(t)
print('obligations', len(r['obligations']), 'texts', list(r['texts']))
